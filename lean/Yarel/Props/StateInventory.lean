/-
The state the models abstract is all the state there is.

Every model in `Yarel/Model` abstracts particular fields of the run-time structures (the interpreter, a fiber, a class, a string, the
heap, the compiler ...).  A field that is added later - a look-up cache, a memo, a counter that outlives a run, a hint for the next
search - is state those models do not describe: the theorems go on checking, and say nothing about what the new state does.  This
file pins, per group of structures, the fields as they were when the models were written; `Gen.stateFields` is regenerated from the
sources on every run (verif_hooks / test items stripped), so a new, removed, renamed or retyped field breaks the obligation of exactly
the properties whose models abstract that structure.  (Most of the changes that seeding agents proposed as "optimisations" add such a
field: a method cache on the interpreter, a selector cache on the class, a key-list memo on the map, a resume hint on the string, a
raised frame limit.)  When one breaks, the owning check's search looks for a failing input; if the new field is harmless the report
ends in no-failing-input-found and the list here is what has to be reviewed.
-/
import Yarel.Gen.StateFields
namespace Yarel.StateInventory
open Yarel

def fieldsOf (names : List String) : List (String × String × String) :=
  Gen.stateFields.filter fun e => names.contains e.1

/-- C15 C09 C08 C02 (the state `residue_fresh`, the handler stack and the fiber models abstract) -/
theorem state_of_interpreter_and_fiber :
    fieldsOf ["Vm", "ObjFiber", "CallFrame", "ExcHandler", "ClassDef"] =
    [ ("Vm", "ip", "*const u8"),
      ("Vm", "active_module", "Gc<RefCell<ObjModule>>"),
      ("Vm", "active_chunk", "Gc<Chunk>"),
      ("Vm", "fiber", "Option<Root<RefCell<ObjFiber>>>"),
      ("Vm", "unsafe_fiber", "*mut ObjFiber"),
      ("Vm", "next_string", "Gc<ObjString>"),
      ("Vm", "class_store", "CoreClassStore"),
      ("Vm", "chunks", "Vec<Root<Chunk>>"),
      ("Vm", "modules", "HashMap<Gc<ObjString>,Root<RefCell<ObjModule>>,BuildPassThroughHasher>"),
      ("Vm", "core_chunks", "Vec<Root<Chunk>>"),
      ("Vm", "string_class", "Option<Root<ObjClass>>"),
      ("Vm", "string_store", "ObjStringStore"),
      ("Vm", "range_cache", "Vec<(Root<ObjRange>,Instant)>"),
      ("Vm", "working_class_def", "Option<ClassDef>"),
      ("Vm", "module_loader", "LoadModuleFn"),
      ("Vm", "printer", "NativeFn"),
      ("Vm", "handling_exception", "bool"),
      ("ObjFiber", "class", "Gc<ObjClass>"),
      ("ObjFiber", "caller", "Option<Gc<RefCell<ObjFiber>>>"),
      ("ObjFiber", "stack", "Stack<Value,STACK_MAX>"),
      ("ObjFiber", "frames", "Vec<CallFrame>"),
      ("ObjFiber", "native_arity", "Option<usize>"),
      ("ObjFiber", "open_upvalues", "Option<Gc<RefCell<ObjUpvalue>>>"),
      ("ObjFiber", "call_arity", "usize"),
      ("ObjFiber", "return_value", "Value"),
      ("ObjFiber", "exc_handlers", "Vec<ExcHandler>"),
      ("ObjFiber", "return_ip", "Option<*const u8>"),
      ("ObjFiber", "error_ip", "Option<(*const u8,usize)>"),
      ("ObjFiber", "handling_exception", "bool"),
      ("CallFrame", "closure", "Gc<ObjClosure>"),
      ("CallFrame", "ip", "*const u8"),
      ("CallFrame", "slot_base", "usize"),
      ("ExcHandler", "catch_ip", "*const u8"),
      ("ExcHandler", "finally_ip", "*const u8"),
      ("ExcHandler", "init_stack_size", "usize"),
      ("ExcHandler", "frame_count", "usize"),
      ("ClassDef", "class", "UniqueRoot<ObjClass>"),
      ("ClassDef", "metaclass", "UniqueRoot<ObjClass>") ] := by decide +kernel

/-- C07 (a class is a name, a metaclass, a superclass link and a method table; an instance a class and fields; a bound method a receiver and a method) -/
theorem state_of_classes :
    fieldsOf ["ObjClass", "ObjInstance", "ObjBoundMethod", "CoreClassStore"] =
    [ ("ObjClass", "name", "Gc<ObjString>"),
      ("ObjClass", "metaclass", "Gc<ObjClass>"),
      ("ObjClass", "superclass", "Option<Gc<ObjClass>>"),
      ("ObjClass", "methods", "HashMap<Gc<ObjString>,Value,BuildPassThroughHasher>"),
      ("ObjInstance", "class", "Gc<ObjClass>"),
      ("ObjInstance", "fields", "HashMap<Gc<ObjString>,Value,BuildPassThroughHasher>"),
      ("ObjBoundMethod", "receiver", "Value"),
      ("ObjBoundMethod", "method", "Gc<T>"),
      ("CoreClassStore", "<struct not found>", "") ] := by decide +kernel

/-- C11 C12 (a string is its text, cached hash and class; the intern table entries, size, mask; a map is its table) -/
theorem state_of_strings_and_maps :
    fieldsOf ["ObjString", "ObjStringStore", "ObjHashMap"] =
    [ ("ObjString", "class", "Gc<ObjClass>"),
      ("ObjString", "string", "String"),
      ("ObjString", "hash", "u64"),
      ("ObjStringStore", "entries", "Vec<Option<Root<ObjString>>>"),
      ("ObjStringStore", "size", "usize"),
      ("ObjStringStore", "mask", "usize"),
      ("ObjHashMap", "class", "Gc<ObjClass>"),
      ("ObjHashMap", "elements", "HashMap<Value,Value,BuildPassThroughHasher>"),
      ("ObjHashMap", "disp_lock", "Cell<bool>") ] := by decide +kernel

/-- C13 C18 -/
theorem state_of_sequences_and_iterators :
    fieldsOf ["ObjVec", "ObjTuple", "ObjRange", "ObjRangeIter", "ObjVecIter", "ObjTupleIter", "ObjStringIter"] =
    [ ("ObjVec", "class", "Gc<ObjClass>"),
      ("ObjVec", "elements", "Vec<Value>"),
      ("ObjVec", "disp_lock", "Cell<bool>"),
      ("ObjTuple", "class", "Gc<ObjClass>"),
      ("ObjTuple", "elements", "Vec<Value>"),
      ("ObjTuple", "self_lock", "Cell<bool>"),
      ("ObjRange", "class", "Gc<ObjClass>"),
      ("ObjRange", "begin", "isize"),
      ("ObjRange", "end", "isize"),
      ("ObjRangeIter", "class", "Gc<ObjClass>"),
      ("ObjRangeIter", "iterable", "Gc<ObjRange>"),
      ("ObjRangeIter", "current", "isize"),
      ("ObjRangeIter", "step", "isize"),
      ("ObjVecIter", "class", "Gc<ObjClass>"),
      ("ObjVecIter", "iterable", "Gc<RefCell<ObjVec>>"),
      ("ObjVecIter", "current", "usize"),
      ("ObjTupleIter", "class", "Gc<ObjClass>"),
      ("ObjTupleIter", "iterable", "Gc<ObjTuple>"),
      ("ObjTupleIter", "current", "usize"),
      ("ObjStringIter", "class", "Gc<ObjClass>"),
      ("ObjStringIter", "iterable", "Gc<ObjString>"),
      ("ObjStringIter", "pos", "usize") ] := by decide +kernel

/-- C06 C14 -/
theorem state_of_closures :
    fieldsOf ["ObjUpvalue", "ObjClosure", "ObjFunction", "ObjNative", "ObjModule"] =
    [ ("ObjUpvalue", "data", "ObjUpvalueState"),
      ("ObjUpvalue", "next", "Option<Gc<RefCell<ObjUpvalue>>>"),
      ("ObjClosure", "function", "Gc<ObjFunction>"),
      ("ObjClosure", "upvalues", "RefCell<Vec<Gc<RefCell<ObjUpvalue>>>>"),
      ("ObjClosure", "module", "Gc<RefCell<ObjModule>>"),
      ("ObjFunction", "arity", "usize"),
      ("ObjFunction", "upvalue_count", "usize"),
      ("ObjFunction", "chunk", "Gc<Chunk>"),
      ("ObjFunction", "name", "Gc<ObjString>"),
      ("ObjFunction", "module_path", "Gc<ObjString>"),
      ("ObjNative", "name", "Gc<ObjString>"),
      ("ObjNative", "function", "NativeFn"),
      ("ObjNative", "manages_stack", "bool"),
      ("ObjModule", "imported", "bool"),
      ("ObjModule", "class", "Gc<ObjClass>"),
      ("ObjModule", "path", "Gc<ObjString>"),
      ("ObjModule", "attributes", "HashMap<Gc<ObjString>,Value,BuildPassThroughHasher>") ] := by decide +kernel

/-- C03 C04 C17 -/
theorem state_of_compiler :
    fieldsOf ["Chunk", "Compiler", "Parser", "Scanner"] =
    [ ("Chunk", "code", "Vec<u8>"),
      ("Chunk", "lines", "Vec<i32>"),
      ("Chunk", "constant_map", "HashMap<Value,usize>"),
      ("Chunk", "constants", "Vec<Value>"),
      ("Compiler", "function", "ObjFunction"),
      ("Compiler", "kind", "FunctionKind"),
      ("Compiler", "chunk", "Chunk"),
      ("Compiler", "locals", "Vec<Local>"),
      ("Compiler", "upvalues", "Vec<Upvalue>"),
      ("Compiler", "scope_depth", "usize"),
      ("Compiler", "lambda_count", "usize"),
      ("Compiler", "in_try_block", "bool"),
      ("Compiler", "loop_stack", "Vec<(usize,usize)>"),
      ("Compiler", "break_stack", "Vec<Vec<usize>>"),
      ("Parser", "current", "Token"),
      ("Parser", "previous", "Token"),
      ("Parser", "panic_mode", "Cell<bool>"),
      ("Parser", "single_target_mode", "bool"),
      ("Parser", "scanner", "&Scanner"),
      ("Parser", "compilers", "Vec<Compiler>"),
      ("Parser", "class_compilers", "Vec<ClassCompiler>"),
      ("Parser", "errors", "RefCell<Vec<String>>"),
      ("Parser", "compiled_functions", "Vec<Root<ObjFunction>>"),
      ("Parser", "module_path", "Gc<ObjString>"),
      ("Parser", "attributes", "HashMap<String,Attribute>"),
      ("Parser", "attribute_opener", "Option<Token>"),
      ("Parser", "vm", "&Vm"),
      ("Scanner", "source", "String"),
      ("Scanner", "start", "usize"),
      ("Scanner", "current", "usize"),
      ("Scanner", "line", "usize"),
      ("Scanner", "parantheses", "Vec<usize>") ] := by decide +kernel

/-- C01 C16 C10 -/
theorem state_of_heap :
    fieldsOf ["Heap", "GcBox", "Stack"] =
    [ ("Heap", "collection_threshold", "usize"),
      ("Heap", "bytes_allocated", "usize"),
      ("Heap", "objects", "Vec<Pin<Box<GcBox<dyn GcManaged>>>>"),
      ("GcBox", "colour", "Cell<Colour>"),
      ("GcBox", "num_roots", "Cell<usize>"),
      ("GcBox", "_pin", "PhantomPinned"),
      ("GcBox", "data", "T"),
      ("Stack", "stack", "Box<[T;N]>"),
      ("Stack", "top", "*mut T") ] := by decide +kernel

#print axioms state_of_interpreter_and_fiber
#print axioms state_of_classes
#print axioms state_of_strings_and_maps
#print axioms state_of_sequences_and_iterators
#print axioms state_of_closures
#print axioms state_of_compiler
#print axioms state_of_heap

end Yarel.StateInventory
