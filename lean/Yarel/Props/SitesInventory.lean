import Yarel.Gen.PanicSites
import Yarel.Model.Dispositions
/-
The panic-site inventory obligation of C02 ("running a program never panics, crashes or corrupts memory") and
C03 ("compilation is total").

`Gen.panicSites` is regenerated from the Rust source on every run; `Dispositions.dispositions` is committed.
* `sites_accounted`        every site of the source has a line in the table               (ERROR level)
* stale lines (a site that no longer exists) are printed by `#eval (missingSites, staleLines)`, not an obligation
* `*_files`                the three sub-tables contain exactly the files of their group, so the C03 list is the
                           compile-time sites and the C02 list the run-time sites
* `ledger_sites` / `dynamic_sites`: the sites that are NOT discharged statically, spelled out, so that a change of
                           their number is visible in review.

What change of the source breaks these theorems
* a NEW `unwrap`/`expect`/index/slice/`unsafe`/`panic!`… anywhere in src/  → `sites_accounted` fails until the site is
  dispositioned (one line in Model/Dispositions.lean); inserting it BEFORE an existing site of the same kind in the
  same function shifts ordinals: the new last ordinal is reported missing — review that function's lines;
* removing a site → nothing breaks; the stale line is printed by the `#eval` at the end (delete it when convenient);
* a new source file with sites → `files_known` fails until the file is put into one of the three groups;
* rewording a snippet, moving code, renumbering lines: nothing (the key has no line number and no text).
-/
namespace Yarel.Props.SitesInventory
open Yarel Yarel.Dispositions

/-- key of a generated site -/
def siteKey (s : String × String × String × Nat × String) : Key := (s.1, s.2.1, s.2.2.1, s.2.2.2.1)

def tableKeys : List Key := dispositions.map Entry.key
def siteKeys : List Key := Gen.panicSites.map siteKey

/-! ### the per-file check (a Bool the kernel evaluates; cheapest component first, file names compared once per site) -/

/-- equality of two keys OF THE SAME FILE: ordinal, kind, function -/
def keyEqInFile (a b : Key) : Bool := a.2.2.2 == b.2.2.2 && a.2.2.1 == b.2.2.1 && a.2.1 == b.2.1

def nodupKeys : List Key → Bool
  | [] => true
  | k :: ks => !ks.any (keyEqInFile k) && nodupKeys ks

/-- The committed list `table` of file `f` and the generated sites of `f` are the same set of keys, every line of the
list is about `f`, no key is listed twice, and there are as many lines as sites. -/
def fileOk (f : String) (table : List Entry) : Bool :=
  let ss := siteKeys.filter (·.1 == f)
  table.all (·.1 == f) && ss.all (fun k => table.any (fun e => keyEqInFile k e.key)) && nodupKeys (table.map Entry.key)

theorem keyEqInFile_sound {a b : Key} (hf : a.1 = b.1) (h : keyEqInFile a b = true) : a = b := by
  obtain ⟨a1, a2, a3, a4⟩ := a
  obtain ⟨b1, b2, b3, b4⟩ := b
  simp only [keyEqInFile, Bool.and_eq_true, beq_iff_eq] at h
  simp only at hf
  obtain ⟨⟨h4, h3⟩, h2⟩ := h
  subst hf h4 h3 h2
  rfl

theorem fileOk_file {f : String} {t : List Entry} (h : fileOk f t = true) : ∀ e ∈ t, e.1 = f := by
  simp only [fileOk, Bool.and_eq_true, List.all_eq_true, beq_iff_eq] at h
  exact h.1.1

theorem fileOk_accounted {f : String} {t : List Entry} (h : fileOk f t = true) :
    ∀ k ∈ siteKeys, k.1 = f → k ∈ t.map Entry.key := by
  intro k hk hf
  have hfile := fileOk_file h
  simp only [fileOk, Bool.and_eq_true, List.all_eq_true, List.any_eq_true] at h
  obtain ⟨e, he, heq⟩ := h.1.2 k (by simp [List.mem_filter, hk, hf])
  have : k = e.key := keyEqInFile_sound (by simp [Entry.key, hf, hfile e he]) heq
  exact this ▸ List.mem_map_of_mem he

/-! ### coverage, file by file (each is one kernel evaluation; a failure names the file to look at) -/

theorem ok_chunk : fileOk "chunk.rs" sitesChunk = true := by decide +kernel
theorem ok_compiler : fileOk "compiler.rs" sitesCompiler = true := by decide +kernel
theorem ok_core : fileOk "core.rs" sitesCore = true := by decide +kernel
theorem ok_debug : fileOk "debug.rs" sitesDebug = true := by decide +kernel
theorem ok_hash : fileOk "hash.rs" sitesHash = true := by decide +kernel
theorem ok_memory : fileOk "memory.rs" sitesMemory = true := by decide +kernel
theorem ok_object : fileOk "object.rs" sitesObject = true := by decide +kernel
theorem ok_scanner : fileOk "scanner.rs" sitesScanner = true := by decide +kernel
theorem ok_stack : fileOk "stack.rs" sitesStack = true := by decide +kernel
theorem ok_value : fileOk "value.rs" sitesValue = true := by decide +kernel
theorem ok_vm : fileOk "vm.rs" sitesVm = true := by decide +kernel

theorem per_file_ok : ∀ p ∈ perFile, fileOk p.1 p.2 = true := by
  intro p hp
  simp only [perFile, List.mem_cons, List.not_mem_nil, or_false] at hp
  rcases hp with rfl | rfl | rfl | rfl | rfl | rfl | rfl | rfl | rfl | rfl | rfl
  · exact ok_chunk
  · exact ok_compiler
  · exact ok_core
  · exact ok_debug
  · exact ok_hash
  · exact ok_memory
  · exact ok_object
  · exact ok_scanner
  · exact ok_stack
  · exact ok_value
  · exact ok_vm

/-- Every file that has a site has a list in the table (a NEW source file with sites is noticed). -/
theorem files_known : ∀ k ∈ siteKeys, (perFile.map (·.1)).contains k.1 = true := by decide +kernel

/-- `dispositions` is the union of the per-file lists. -/
theorem mem_dispositions (e : Entry) : e ∈ dispositions ↔ ∃ p ∈ perFile, e ∈ p.2 := by
  simp only [dispositions, compileTimeDispositions, debugOnlyDispositions, runTimeDispositions, perFile,
    List.mem_append, List.mem_cons, List.not_mem_nil, or_false, exists_eq_or_imp, exists_eq_left]
  exact Iff.of_eq (by ac_rfl)

/-- sites_accounted: every potential panic / UB site of the source has a disposition. -/
theorem sites_accounted : ∀ s ∈ Gen.panicSites, siteKey s ∈ tableKeys := by
  intro s hs
  have hk : siteKey s ∈ siteKeys := List.mem_map_of_mem hs
  have hf := files_known _ hk
  simp only [List.contains_eq_mem, List.mem_map, decide_eq_true_eq] at hf
  obtain ⟨p, hp, hpf⟩ := hf
  obtain ⟨e, he, hke⟩ := List.mem_map.mp (fileOk_accounted (per_file_ok p hp) _ hk hpf.symm)
  exact hke ▸ List.mem_map_of_mem ((mem_dispositions e).mpr ⟨p, hp, he⟩)

-- Lines of the table whose site no longer exists are reported (`#eval` at the end), not proved absent: removing a panic site
-- from the source is harmless and must not break an obligation.
/-- The C03 list contains compile-time files only, the C02 list run-time files only. -/
theorem compile_time_files : ∀ e ∈ compileTimeDispositions, compileTimeFiles.contains e.1 = true := by decide +kernel
theorem debug_only_files : ∀ e ∈ debugOnlyDispositions, debugOnlyFiles.contains e.1 = true := by decide +kernel
theorem run_time_files : ∀ e ∈ runTimeDispositions, runTimeFiles.contains e.1 = true := by decide +kernel

/-- …and every compile-time / run-time site of the source is in the respective list. -/
theorem sites_accounted_compile_time :
    ∀ k ∈ siteKeys, compileTimeFiles.contains k.1 = true → k ∈ compileTimeDispositions.map Entry.key := by
  intro k hk hf
  simp only [compileTimeFiles, List.contains_eq_mem, List.mem_cons, List.not_mem_nil, or_false, decide_eq_true_eq] at hf
  simp only [compileTimeDispositions, List.map_append, List.mem_append]
  rcases hf with hf | hf | hf
  · exact .inl (.inl (fileOk_accounted ok_scanner k hk hf))
  · exact .inl (.inr (fileOk_accounted ok_compiler k hk hf))
  · exact .inr (fileOk_accounted ok_chunk k hk hf)

theorem sites_accounted_run_time :
    ∀ k ∈ siteKeys, runTimeFiles.contains k.1 = true → k ∈ runTimeDispositions.map Entry.key := by
  intro k hk _
  have hf := files_known _ hk
  have hall := sites_accounted
  -- every site is in the table; a run-time file's site can only be in a run-time list
  obtain ⟨p, hp, hpf⟩ : ∃ p ∈ perFile, p.1 = k.1 := by
    simp only [List.contains_eq_mem, List.mem_map, decide_eq_true_eq] at hf; exact hf
  have hacc := fileOk_accounted (per_file_ok p hp) k hk hpf.symm
  simp only [perFile, List.mem_cons, List.not_mem_nil, or_false] at hp
  simp only [runTimeDispositions, List.map_append, List.mem_append]
  rename_i hrt
  rcases hp with rfl | rfl | rfl | rfl | rfl | rfl | rfl | rfl | rfl | rfl | rfl
  all_goals first
    | (exfalso; simp only at hpf; rw [← hpf] at hrt; revert hrt; decide)
    | simp only [hacc, true_or, or_true]

/-! ### the sites that are not discharged statically -/

def isLedger : Disposition → Bool | .ledger _ => true | _ => false
def isDynamic : Disposition → Bool | .dynamicOnly _ => true | _ => false
def isGuard : Disposition → Bool | .guardedCheckedBuild => true | _ => false

/-- Ledger ids referred to by the table. -/
def ledgerIds : List String :=
  (dispositions.filterMap fun e => match e.disposition with | .ledger i => some i | _ => none).eraseDups

/-- The reachable-by-known-defect sites are exactly: the 37 receiver `expect`s of core.rs natives (F4: a user class
deriving from a built-in object class), the raw reads/writes of open captured-variable cells (F3: cell into the stack
of a dropped fiber), and the unchecked `Stack::push` (F6: 64 wide frames overflow the 16384-slot value stack). -/
theorem ledger_sites :
    ledgerIds = ["F4", "F3", "F6"] ∧
    (dispositions.filter (fun e => e.disposition == .ledger "F4")).length = 37 ∧
    (dispositions.filter (fun e => e.disposition == .ledger "F4")).all (fun e => e.1 == "core.rs" && e.2.2.1 == "expect") = true ∧
    (dispositions.filter (fun e => e.disposition == .ledger "F3")).map Entry.key =
      [("object.rs", "ObjUpvalue::get", "unsafe_block", 0), ("object.rs", "ObjUpvalue::set", "unsafe_block", 0)] ∧
    (dispositions.filter (fun e => e.disposition == .ledger "F6")).map Entry.key =
      [("stack.rs", "Stack::push", "unsafe_block", 0), ("stack.rs", "Stack::push", "offset", 0)] := by
  decide +kernel

/-- The deliberate checked-build guards are the three `panic!`s of stack.rs and the two unreachable arms of vm.rs
(`get_class`: `unreachable!`, `run`: `panic!("Unknown opcode")`), nothing else. -/
theorem guard_sites :
    (dispositions.filter (fun e => isGuard e.disposition)).map Entry.key =
      [ ("vm.rs", "Vm::get_class", "unreachable!", 0), ("vm.rs", "Vm::run", "panic!", 0),
        ("stack.rs", "Stack::peek", "panic!", 0), ("stack.rs", "Stack::peek_mut", "panic!", 0),
        ("stack.rs", "Stack::push", "panic!", 0) ] := by decide +kernel

/-- Number of sites per disposition, whole table (the counts in the comment at the end are these). -/
def countBy (es : List Entry) : List (String × Nat) :=
  [ ("excludedByVerifiedBytecode", (es.filter fun e => e.disposition == .excludedByVerifiedBytecode).length)
  , ("excludedByLemma", (es.filter fun e => match e.disposition with | .excludedByLemma _ => true | _ => false).length)
  , ("guardedCheckedBuild", (es.filter fun e => isGuard e.disposition).length)
  , ("startupOnly", (es.filter fun e => e.disposition == .startupOnly).length)
  , ("ledger", (es.filter fun e => isLedger e.disposition).length)
  , ("dynamicOnly", (es.filter fun e => isDynamic e.disposition).length)
  , ("infallible", (es.filter fun e => match e.disposition with | .infallible _ => true | _ => false).length) ]

def countByFile (es : List Entry) : List (String × Nat) :=
  (es.map (·.1)).eraseDups.map fun f => (f, (es.filter (·.1 == f)).length)

#eval (dispositions.length, compileTimeDispositions.length, debugOnlyDispositions.length, runTimeDispositions.length)

-- non-vacuity: the statements talk about real, non-empty lists; `fileOk` really rejects a missing / extra line
example : fileOk "hash.rs" [] = false ∧ fileOk "value.rs" (sitesValue ++ sitesValue) = false ∧
    fileOk "hash.rs" sitesValue = false := by decide +kernel

#eval (countBy dispositions, countBy compileTimeDispositions, countBy runTimeDispositions)

/-- For whoever has to repair the table: the generated sites without a line, and the lines without a site
(both empty when the theorems above hold). -/
def missingSites : List Key := siteKeys.filter fun k => !tableKeys.contains k
def staleLines : List Key := tableKeys.filter fun k => !siteKeys.contains k
#eval (missingSites, staleLines)

#eval countBy dispositions
#eval countByFile dispositions
#eval perFile.map fun p => (p.1, (countBy p.2).filter (·.2 != 0))
/- Output of the three `#eval`s on 2026-09-24 (/repo HEAD 08684a1, 266 sites):

   whole table: excludedByVerifiedBytecode 40, excludedByLemma 51, guardedCheckedBuild 5, startupOnly 5, ledger 41,
                dynamicOnly 81, infallible 43
   C03 list (scanner.rs, compiler.rs, chunk.rs; 57): excludedByLemma 8, dynamicOnly 33, infallible 16
   debug.rs (25): dynamicOnly 25 (only reachable with the output-only features debug_bytecode / debug_trace)
   C02 list (184): excludedByVerifiedBytecode 40, excludedByLemma 43, guardedCheckedBuild 5, startupOnly 5, ledger 41,
                dynamicOnly 23, infallible 27

   per file: scanner.rs 15, compiler.rs 40, chunk.rs 2, debug.rs 25, vm.rs 92, core.rs 42, object.rs 17, value.rs 1,
             stack.rs 21, memory.rs 10, hash.rs 1
   chunk.rs    lemma 1, dynamic 1
   compiler.rs lemma 7, dynamic 17, infallible 16
   core.rs     lemma 3, startup 2, ledger 37 (F4)
   debug.rs    dynamic 25
   hash.rs     dynamic 1
   memory.rs   lemma 4, infallible 6
   object.rs   lemma 2, ledger 2 (F3), dynamic 7, infallible 6
   scanner.rs  dynamic 15
   stack.rs    verified-bytecode 2, lemma 8, guard 3, ledger 2 (F6), dynamic 4, infallible 2
   value.rs    lemma 1
   vm.rs       verified-bytecode 38, lemma 25, guard 2, startup 3, dynamic 11, infallible 13
-/

#print axioms sites_accounted
#print axioms sites_accounted_compile_time
#print axioms per_file_ok
#print axioms sites_accounted_run_time
#print axioms files_known
#print axioms compile_time_files
#print axioms run_time_files
#print axioms ledger_sites
#print axioms guard_sites

end Yarel.Props.SitesInventory
