/-
Where a collection can start (C01, C16).

The collector's safety argument (Props/C01.lean, Props/GcCollector.lean) and the stress schedule of the correspondence runs ("collect at
every allocation dominates every other schedule") both rest on one fact about memory.rs: a collection is only ever started from inside
`Heap::allocate_raw`, i.e. at an allocation, where the roots discipline (every live object is reachable from a root or pinned by the
allocating code) is what the interpreter maintains.  A collection started anywhere else (after a fiber switch, in a native, on a timer)
would run at a point where values may live only in Rust locals.  `Gen.collectCalls` is the list of every call that starts a collection,
regenerated from the source on every run (verif_hooks and test items stripped).
-/
import Yarel.Gen.CfgSites
namespace Yarel.CollectSites
open Yarel

/-- The calls that start a collection are exactly: the two in `allocate_raw` (unconditional in checked builds, threshold-paced
otherwise) and the one inside `collect_if_required`. -/
theorem collections_start_only_in_allocate_raw :
    Gen.collectCalls =
      [ ("memory.rs", "Heap::allocate_raw", "self.collect()")
      , ("memory.rs", "Heap::allocate_raw", "self.collect_if_required()")
      , ("memory.rs", "Heap::collect_if_required", "self.collect()") ] := by rfl

/-- … so every collection happens during an allocation: its caller is `allocate_raw`, or `collect_if_required`, whose only caller is
`allocate_raw`. -/
theorem every_collection_is_under_an_allocation :
    ∀ s ∈ Gen.collectCalls, s.2.1 = "Heap::allocate_raw" ∨
      (s.2.1 = "Heap::collect_if_required" ∧ ∀ t ∈ Gen.collectCalls, t.2.2 = "self.collect_if_required()" → t.2.1 = "Heap::allocate_raw") := by
  rw [collections_start_only_in_allocate_raw]
  decide

#print axioms collections_start_only_in_allocate_raw
#print axioms every_collection_is_under_an_allocation

end Yarel.CollectSites
