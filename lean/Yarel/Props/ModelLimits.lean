/-
The numeric limits the mechanism models are written with are the constants of the source as they are now.

`Yarel.Gen.limits` is regenerated from /repo/yarel/src (common.rs, compiler.rs, vm.rs, stack.rs …) on every run.  A model
that hard-codes a limit is only about the code as long as the number is the code's; these obligations make an edit of a
constant in the implementation break a proof instead of silently leaving the theorems about a stale number (this happened
once: the jump-distance model still said 65536 after the repair F9 had made the constant 65535).
-/
import Yarel.Gen.Limits
import Yarel.Model.ChunkLines
import Yarel.Model.Handlers
import Yarel.Model.Intern
import Yarel.Model.Iter
import Yarel.Model.JumpLimits
import Yarel.Model.Pacing
namespace Yarel.ModelLimits

private def lim (k : String) : Option Int := Yarel.Gen.limits.lookup k

theorem jump_size_max : lim "JUMP_SIZE_MAX" = some (Yarel.JumpLimits.JUMP_SIZE_MAX : Int) ∧
    lim "JUMP_SIZE_MAX" = some (Yarel.ChunkLines.jumpSizeMax : Int) := by decide +kernel
#print axioms jump_size_max

theorem stack_max : lim "STACK_MAX" = some (Yarel.Handlers.stackMax : Int) := by decide +kernel
#print axioms stack_max

/-- The intern table starts with `INIT_CAPACITY` slots and grows at a load of `MAX_LOAD = 3/4` (`Store.needsGrow` computes
`len * 3 / 4`, exact for the power-of-two lengths the table has). -/
theorem intern_table : lim "INIT_CAPACITY" = some (Yarel.Intern.initCapacity : Int) ∧
    lim "MAX_LOAD_NUM" = some 3 ∧ lim "MAX_LOAD_DEN" = some 4 := by decide +kernel
#print axioms intern_table

theorem vec_elems_max : lim "VEC_ELEMS_MAX" = some (Yarel.Iter.vecElemsMax : Int) := by decide +kernel
#print axioms vec_elems_max

theorem heap_pacing : lim "HEAP_INIT_BYTES_MAX" = some (Yarel.Pacing.HEAP_INIT_BYTES_MAX : Int) ∧
    lim "HEAP_GROWTH_FACTOR" = some (Yarel.Pacing.HEAP_GROWTH_FACTOR : Int) := by decide +kernel
#print axioms heap_pacing

end Yarel.ModelLimits
