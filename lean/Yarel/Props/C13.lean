/-
Property C13 — indexing, slicing and the string functions return exactly what the reference model over
UTF-8 byte sequences returns, every produced string is valid UTF-8, and nothing can panic.

Models: `Yarel/Model/Utf8.lean`, `Yarel/Model/Index.lean`, `Yarel/Model/Str.lean`.
Only headline theorems live here; the work is in `Yarel/Proofs/{Utf8,Utf8Boundary,Index,Str*}.lean`.

Conventions: strings are `List UInt8`; numbers are IEEE-754 bit patterns (`UInt64`, see `F64Core`);
`Valid s` = "s is the UTF-8 encoding of a list of Unicode scalar values";
`ValValid v` = every string inside the value `v` is `Valid` (string iterators also sit on a boundary);
`Outcome` = `ok | err ⟨kind, msg⟩ | fault site`, where `fault` marks a place the Rust code would panic.
-/
import Yarel.Proofs.StrSpecs
namespace Yarel.C13

open Yarel Yarel.Utf8 Yarel.Index Yarel.Str

/-! ## 1. Character boundaries -/

/-- In a valid string, `is_char_boundary(i)` holds exactly for the byte lengths of the prefixes of its
code-point list. -/
theorem boundary_iff_prefix (cps : List Nat) (h : ∀ c ∈ cps, isScalar c = true) (i : Nat) :
    isBoundary (encode cps) i = true ↔ ∃ k, k ≤ cps.length ∧ i = (encode (cps.take k)).length :=
  isBoundary_encode_iff cps h i
#print axioms boundary_iff_prefix

-- "aé€😀": boundaries are exactly 0, 1, 3, 6, 10 (and nothing beyond the length).
example : (List.range 14).filter (isBoundary (encode [0x61, 0xE9, 0x20AC, 0x1F600])) = [0, 1, 3, 6, 10] := by
  decide
example : ∀ c ∈ [0x61, 0xE9, 0x20AC, 0x1F600], isScalar c = true := by decide

/-- `String::from_utf8` acceptance is exactly `Valid` (no overlongs, surrogates, > U+10FFFF, truncation). -/
theorem validate_iff_valid (s : List UInt8) : validate s = true ↔ Valid s := validate_iff
#print axioms validate_iff_valid

example : validate [0xF0, 0x9F, 0x98, 0x80] = true ∧ validate [0xC0, 0x80] = false ∧
    validate [0xED, 0xA0, 0x80] = false ∧ validate [0xF4, 0x90, 0x80, 0x80] = false ∧
    validate [0xE2, 0x82] = false := by decide

/-! ## 2. Slices and all string-producing operations stay valid -/

/-- Slicing a valid string at two boundaries `a ≤ b` (so `b ≤ len`) gives a valid string. -/
theorem slice_valid {s : List UInt8} (hs : Valid s) {a b : Nat} (hab : a ≤ b)
    (ha : isBoundary s a = true) (hb : isBoundary s b = true) : Valid (slice s a b) :=
  hs.slice hab ha hb
#print axioms slice_valid

example : Valid [0x61, 0xC3, 0xA9, 0xE2, 0x82, 0xAC] ∧
    isBoundary [0x61, 0xC3, 0xA9, 0xE2, 0x82, 0xAC] 1 = true ∧
    isBoundary [0x61, 0xC3, 0xA9, 0xE2, 0x82, 0xAC] 3 = true ∧
    slice [0x61, 0xC3, 0xA9, 0xE2, 0x82, 0xAC] 1 3 = [0xC3, 0xA9] := by decide

/-- Every operation of the model that produces strings produces valid UTF-8 from valid inputs:
get-item / slicing on strings, vecs and tuples, set-item, one iterator step, whole iteration, every
native method, every static method, concatenation. (`from`, i.e. `Display`, is a parameter for values
other than strings, nil and booleans, hence `hd`.) -/
theorem all_ops_valid (env : Env) (hd : ∀ v, Valid (env.displayOther v)) :
    (∀ recv idx v, ValValid recv → getItem recv idx = .ok v → ValValid v) ∧
    (∀ recv idx value v, ValValid recv → ValValid value → setItem recv idx value = .ok v → ValValid v) ∧
    (∀ s pos v p, Valid s → isBoundary s pos = true → stringIterNext s pos = .ok (v, p) →
      ValValid v ∧ isBoundary s p = true) ∧
    (∀ s pieces, Valid s → iterAll s = .ok pieces → ∀ p ∈ pieces, Valid p) ∧
    (∀ fn s args v, Valid s → (∀ a ∈ args, ValValid a) → callNative env fn s args = .ok v → ValValid v) ∧
    (∀ fn args v, (∀ a ∈ args, ValValid a) → callStatic env fn args = .ok v → ValValid v) ∧
    (∀ a b, Valid a → Valid b → Valid (concat a b)) := by
  refine ⟨?_, ?_, ?_, ?_, ?_, ?_, ?_⟩
  · intro recv idx v hr h; exact (getItem_good hr idx).2 v h
  · intro recv idx value v hr hv h; exact (setItem_good hr hv idx).2 v h
  · intro s pos v p hs hb h
    rcases stringIterNext_valid hs hb with ⟨_, h'⟩ | ⟨_, c, _, _, _, _, hc, _, h', hb'⟩
    · rw [h'] at h; cases h; exact ⟨by simp [ValValid], hb⟩
    · rw [h'] at h; cases h; exact ⟨by simpa using Valid.encodeCP hc, hb'⟩
  · intro s pieces hs h p hp
    obtain ⟨cps, hc, rfl⟩ := hs
    rw [iterAll_encode cps hc] at h
    cases h
    obtain ⟨c, hcm, rfl⟩ := List.mem_map.mp hp
    exact Valid.encodeCP (hc c hcm)
  · intro fn s args v hs ha h; exact (callNative_good env fn hs args ha).2 v h
  · intro fn args v ha h; exact (callStatic_good env hd fn args ha).2 v h
  · intro a b ha hb; exact concat_valid ha hb
#print axioms all_ops_valid

-- Non-vacuity: a valid receiver and argument, and an operation that really returns a string.
example : ValValid (.str [0xF0, 0x9F, 0x98, 0x80, 0x61]) := by simp [ValValid]; decide
example : getItem (.str [0xF0, 0x9F, 0x98, 0x80, 0x61]) (.num 0) = .ok (.str [0xF0, 0x9F, 0x98, 0x80]) := by
  decide +kernel

/-! ## 3. Indices and ranges: the mathematical spec, for all lengths and all bit patterns -/

/-- `try_as_bounded_index` on a number, for every bit pattern and every length: fractional values and
NaN give ValueError; otherwise with `i = n as isize` (saturating): `0 ≤ i < len ↦ i`, `-len ≤ i < 0 ↦
len + i`, anything else IndexError. -/
theorem index_spec (bits : UInt64) (len : Nat) (k : Kind) :
    boundedIndex (.num bits) len k =
      if F64.isIntegral bits = false then .err ⟨.ValueError, .expectedInteger (.num bits)⟩
      else
        let i := F64.toIsize bits
        if 0 ≤ i ∧ i < (len : Int) then .ok i.toNat
        else if i < 0 ∧ 0 ≤ (len : Int) + i then .ok ((len : Int) + i).toNat
        else .err ⟨.IndexError, .indexOutOfBounds k⟩ := by
  unfold boundedIndex
  rw [validateInteger_num]
  by_cases hint : F64.isIntegral bits = true
  · simp only [hint, ↓reduceIte, Bool.true_eq_false]
    unfold normIdx
    repeat' split
    all_goals first | rfl | (exfalso; omega) | (rw [Int.add_comm])
  · simp only [hint, Bool.false_eq_true, ↓reduceIte, mkErr]
#print axioms index_spec

theorem isIntegral_not_nan {b : UInt64} (h : F64.isIntegral b = true) : F64.isNaN b = false := by
  unfold F64.isIntegral at h
  split at h
  · simp at h
  · rename_i hn; simpa using hn

/-- What `n as isize` is: exact for finite integral values inside the `isize` range … -/
theorem index_cast_exact (bits : UInt64) (hint : F64.isIntegral bits = true) (hfin : F64.isInf bits = false)
    (h1 : -2 ^ 63 ≤ F64.truncInt bits) (h2 : F64.truncInt bits < 2 ^ 63) :
    F64.toIsize bits = F64.truncInt bits :=
  toIsize_exact bits (isIntegral_not_nan hint) hfin (by simp only [F64.isizeMin]; omega)
    (by simp only [F64.isizeMax]; omega)
#print axioms index_cast_exact

/-- … and ±inf and every |x| ≥ 2^63 saturate, which is an IndexError for every length below 2^63
(all lengths Rust can have). -/
theorem index_saturates (bits : UInt64) (len : Nat) (k : Kind) (hint : F64.isIntegral bits = true)
    (hbig : F64.isInf bits = true ∨ 2 ^ 63 ≤ F64.truncInt bits ∨ F64.truncInt bits ≤ -2 ^ 63)
    (hlen : len < 2 ^ 63) :
    boundedIndex (.num bits) len k = .err ⟨.IndexError, .indexOutOfBounds k⟩ := by
  have hsat : F64.toIsize bits = F64.isizeMax ∨ F64.toIsize bits = F64.isizeMin := by
    by_cases hinf : F64.isInf bits = true
    · rw [toIsize_inf bits hinf]; split <;> simp
    · have hinf' : F64.isInf bits = false := by simpa using hinf
      have hb := toIsize_big bits (isIntegral_not_nan hint) hinf'
      rcases hbig with h | h | h
      · exact absurd h hinf
      · exact Or.inl (hb.1 (by simp only [F64.isizeMax]; omega))
      · by_cases heq : F64.truncInt bits = -2 ^ 63
        · right
          rw [toIsize_exact bits (isIntegral_not_nan hint) hinf' (by simp only [F64.isizeMin]; omega)
            (by simp only [F64.isizeMax]; omega), heq]
          rfl
        · exact Or.inr (hb.2 (by simp only [F64.isizeMin]; omega))
  have hmax : F64.isizeMax = 2 ^ 63 - 1 := rfl
  have hmin : F64.isizeMin = -2 ^ 63 := rfl
  rw [index_spec]
  simp only [hint, Bool.true_eq_false, ↓reduceIte]
  rcases hsat with h | h <;> rw [h]
  · rw [if_neg (by omega), if_neg (by omega)]
  · rw [if_neg (by omega), if_neg (by omega)]
#print axioms index_saturates

/-- A non-number index is a TypeError. -/
theorem index_non_number (v : Val) (hv : ∀ b, v ≠ .num b) (len : Nat) (k : Kind) :
    boundedIndex v len k = .err ⟨.TypeError, .expectedInteger v⟩ := by
  cases v with
  | num b => exact absurd rfl (hv b)
  | nil | bool _ | str _ | vec _ | tuple _ | range _ _ | strIter _ _ | stopIter | other => rfl
#print axioms index_non_number

example : F64.isIntegral 0x4045000000000000 = true ∧ F64.isInf 0x4045000000000000 = false ∧
    F64.truncInt 0x4045000000000000 = 42 ∧ F64.toIsize 0x4045000000000000 = 42 := by decide +kernel
example : boundedIndex .nil 3 .Vec = .err ⟨.TypeError, .expectedInteger .nil⟩ := by decide

-- 3 elements: -1 ↦ 2, 3 ↦ IndexError, 1.5 and NaN ↦ ValueError, +inf and -2^63 ↦ IndexError, -0 ↦ 0.
example : boundedIndex (.num 0xBFF0000000000000) 3 .Vec = .ok 2 := by decide +kernel
example : boundedIndex (.num 0x4008000000000000) 3 .Vec = .err ⟨.IndexError, .indexOutOfBounds .Vec⟩ := by
  decide +kernel
example : F64.isIntegral 0x3FF8000000000000 = false ∧ F64.isIntegral 0x7FF8000000000000 = false := by
  decide +kernel
example : F64.isIntegral 0x7FF0000000000000 = true ∧ F64.isInf 0x7FF0000000000000 = true := by decide +kernel
example : F64.isIntegral 0xC3E0000000000000 = true ∧ F64.truncInt 0xC3E0000000000000 = -2 ^ 63 := by
  decide +kernel
example : boundedIndex (.num 0x8000000000000000) 3 .Vec = .ok 0 := by decide +kernel

/-- `make_bounded_range`, for all `isize` pairs and all lengths. With `b' = begin (+ len if negative)`,
`e' = end (+ len if negative)`: `b'` must satisfy `0 ≤ b' < len` (so **every** range over an empty
sequence is "slice start out of range", even `0..0`), `e'` must satisfy `0 ≤ e' ≤ len`, and the result is
`(b', max b' e')` — a reversed range is the empty range at `b'`. -/
theorem range_spec (b e : Int) (len : Nat) (k : Kind) :
    boundedRange b e len k =
      if ¬ (0 ≤ normIdx b len ∧ normIdx b len < (len : Int)) then .err ⟨.IndexError, .sliceStartOutOfRange k⟩
      else if ¬ (0 ≤ normIdx e len ∧ normIdx e len ≤ (len : Int)) then
        .err ⟨.IndexError, .sliceEndOutOfRange k⟩
      else .ok ((normIdx b len).toNat, (max (normIdx b len) (normIdx e len)).toNat) := by
  unfold boundedRange
  simp only [mkErr]
  generalize normIdx b len = b'
  generalize normIdx e len = e'
  repeat' split
  all_goals first | rfl | (exfalso; omega) | skip
  · rw [Int.max_eq_right (by omega)]
  · rw [Int.max_eq_left (by omega)]
#print axioms range_spec

/-- Whatever `make_bounded_range` returns is a legal slice of the sequence. -/
theorem range_result_in_bounds {b e : Int} {len : Nat} {k : Kind} {lo hi : Nat}
    (h : boundedRange b e len k = .ok (lo, hi)) : lo < len ∧ lo ≤ hi ∧ hi ≤ len := boundedRange_ok h
#print axioms range_result_in_bounds

/-- On an empty sequence every range is an error (`begin >= limit` with `limit = 0`). -/
theorem range_empty_always_error (b e : Int) (k : Kind) :
    boundedRange b e 0 k = .err ⟨.IndexError, .sliceStartOutOfRange k⟩ := by
  rw [range_spec, if_pos (by omega)]
#print axioms range_empty_always_error

/-- `begin..end` evaluates `end` first: if both operands are bad, the error is about `end`. -/
theorem build_range_spec (b e : Val) :
    buildRange b e = (validateInteger e).bind fun ei => (validateInteger b).bind fun bi => .ok (.range bi ei) := by
  unfold buildRange
  cases validateInteger e with
  | ok ei => cases validateInteger b <;> rfl
  | err _ => rfl
  | fault _ => rfl
#print axioms build_range_spec

-- `0.5..nil`: the error is the TypeError for `end`, not the ValueError for `begin`.
example : buildRange (.num 0x3FE0000000000000) .nil = .err ⟨.TypeError, .expectedInteger .nil⟩ := by
  decide +kernel
example : buildRange (.num 0x3FF0000000000000) (.num 0xC000000000000000) = .ok (.range 1 (-2)) := by
  decide +kernel

example : boundedRange 1 4 7 .String = .ok (1, 4) := by decide
example : boundedRange 3 1 7 .String = .ok (3, 3) := by decide            -- reversed ⇒ empty
example : boundedRange (-2) 5 5 .Tuple = .ok (3, 5) := by decide
example : boundedRange 5 5 5 .Vec = .err ⟨.IndexError, .sliceStartOutOfRange .Vec⟩ := by decide
example : boundedRange 0 (-16) 12 .String = .err ⟨.IndexError, .sliceEndOutOfRange .String⟩ := by decide

/-! ## 4. Nothing panics -/

/-- No operation of `Index`/`Str` reaches a `fault` (a Rust panic site): indices of any kind (huge, negative,
fractional, non-finite, non-numbers), any ranges, any argument lists, any multi-byte positions. Strings
must be valid UTF-8 (which `all_ops_valid` maintains); nothing else is assumed. -/
theorem no_fault (env : Env) :
    (∀ v, (validateInteger v).isFault = false) ∧
    (∀ v len k, (boundedIndex v len k).isFault = false) ∧
    (∀ b e len k, (boundedRange b e len k).isFault = false) ∧
    (∀ b e, (buildRange b e).isFault = false) ∧
    (∀ recv idx, ValValid recv → (getItem recv idx).isFault = false) ∧
    (∀ recv idx value, (setItem recv idx value).isFault = false) ∧
    (∀ elems cur, (elemIterNext elems cur).isFault = false) ∧
    (∀ s pos, Valid s → isBoundary s pos = true → (stringIterNext s pos).isFault = false) ∧
    (∀ s, Valid s → (iterAll s).isFault = false) ∧
    (∀ fn s args, Valid s → (∀ a ∈ args, ValValid a) → (callNative env fn s args).isFault = false) ∧
    (∀ fn args, (∀ a ∈ args, ValValid a) → (callStatic env fn args).isFault = false) := by
  refine ⟨validateInteger_not_fault, boundedIndex_not_fault, boundedRange_not_fault, buildRange_not_fault,
    ?_, setItem_not_fault, elemIterNext_not_fault, ?_, ?_, ?_, ?_⟩
  · intro recv idx hr; exact (getItem_good hr idx).1
  · intro s pos hs hb
    rcases stringIterNext_valid hs hb with ⟨_, h⟩ | ⟨_, _, _, _, _, _, _, _, h, _⟩ <;> rw [h] <;> rfl
  · intro s hs
    obtain ⟨cps, hc, rfl⟩ := hs
    rw [iterAll_encode cps hc]; rfl
  · intro fn s args hs ha; exact (callNative_good env fn hs args ha).1
  · intro fn args ha
    -- `Display` output plays no role for faults: use an environment whose display is trivially valid
    have := (callStatic_good { env with displayOther := fun _ => [] } (fun _ => Valid.nil) fn args ha).1
    cases fn <;> first | exact this | skip
    rcases args with _ | ⟨a0, _ | ⟨a1, rest⟩⟩ <;>
      simp only [callStatic, checkNumArgs_bind, List.length_cons, List.length_nil] <;>
      first
      | (rw [if_neg (by omega)]; rfl)
      | (rw [if_pos True.intro]; rfl)
#print axioms no_fault

-- The faults are real in the model: off a boundary the checked slice does fault, so the theorem is not vacuous.
example : checkedSlice .strSlice [0xC3, 0xA9] 0 1 = .fault .strSlice := by decide
example : (getItem (.str [0xC3, 0xA9]) (.num 0x3FF0000000000000)) =
    .err ⟨.IndexError, .notCharBoundary .stringIndex⟩ := by decide +kernel

/-! ## 5. find -/

/-- `find(sub, start)` on valid strings, completely: empty needle ⇒ ValueError; the start goes through
exactly `try_as_bounded_index(len, "String")` (so TypeError / ValueError / IndexError as in `index_spec`,
and on an empty receiver always IndexError); a start inside a character ⇒ IndexError; otherwise the
result is `firstMatch`, the least bytewise occurrence at or after `start` (see `find_least`), or nil. -/
theorem find_spec (env : Env) {s sub : List UInt8} (hs : Valid s) (hsub : Valid sub) (a1 : Val) :
    callNative env .find s [.str sub, a1] =
      if sub = [] then .err ⟨.ValueError, .cannotFindEmpty⟩
      else (boundedIndex a1 s.length .String).bind fun st =>
        if isBoundary s st = true then
          match firstMatch s sub (s.length - st) st with
          | some j => .ok (numOfNat j)
          | none => .ok .nil
        else .err ⟨.IndexError, .notCharBoundary .stringIndex⟩ :=
  callNative_find_eq env hs hsub a1
#print axioms find_spec

/-- `firstMatch` is the least position `j ≥ st` where `sub` is a prefix of `s[j..]` — which is what
`s[st..].find(sub).map(|i| st + i)` gives — and it is `none` iff there is no such position. -/
theorem find_least (s sub : List UInt8) (hne : sub ≠ []) (st : Nat) (hst : st ≤ s.length) :
    (∀ j, firstMatch s sub (s.length - st) st = some j ↔
      st ≤ j ∧ sub <+: s.drop j ∧ ∀ j', st ≤ j' → j' < j → ¬ sub <+: s.drop j') ∧
    (firstMatch s sub (s.length - st) st = none ↔ ∀ j, st ≤ j → ¬ sub <+: s.drop j) := by
  have hbeyond : ∀ j, s.length ≤ j → ¬ sub <+: s.drop j := by
    intro j hj hp
    rw [List.drop_eq_nil_of_le hj] at hp
    exact hne (List.prefix_nil.mp hp)
  constructor
  · intro j
    rw [firstMatch_some_iff]
    constructor
    · rintro ⟨h1, _, h3, h4⟩; exact ⟨h1, h3, h4⟩
    · rintro ⟨h1, h3, h4⟩
      refine ⟨h1, ?_, h3, h4⟩
      have : j < s.length := by
        apply Classical.byContradiction; intro hge; exact hbeyond j (by omega) h3
      omega
  · rw [firstMatch_none_iff]
    constructor
    · intro h j hj
      by_cases hlt : j < s.length
      · exact h j hj (by omega)
      · exact hbeyond j (by omega)
    · intro h j hj _; exact h j hj
#print axioms find_least

/-- Every bytewise occurrence of a valid non-empty needle in a valid string starts and ends on character
boundaries, so the boundary tests inside `string_find` never hide a match (and its slice never panics). -/
theorem find_matches_on_boundaries {s sub : List UInt8} (hs : Valid s) (hsub : Valid sub) (hne : sub ≠ [])
    {i : Nat} (hp : sub <+: s.drop i) : isBoundary s i = true ∧ isBoundary s (i + sub.length) = true :=
  match_boundaries hs hsub hne hp
#print axioms find_matches_on_boundaries

-- "aé€" and needle "€": least match at 3; both ends are boundaries.
example : firstMatch [0x61, 0xC3, 0xA9, 0xE2, 0x82, 0xAC] [0xE2, 0x82, 0xAC] 6 0 = some 3 ∧
    [0xE2, 0x82, 0xAC] <+: ([0x61, 0xC3, 0xA9, 0xE2, 0x82, 0xAC] : List UInt8).drop 3 ∧
    isBoundary [0x61, 0xC3, 0xA9, 0xE2, 0x82, 0xAC] 3 = true ∧
    isBoundary [0x61, 0xC3, 0xA9, 0xE2, 0x82, 0xAC] 6 = true := by
  refine ⟨by decide, ⟨[], by decide⟩, by decide, by decide⟩

-- "Hello, World! 🙂".find("l", 4) = 10 ; .find("?", 0) = nil
example : callNative ⟨fun _ => none, fun _ => []⟩ .find
    [0x48, 0x65, 0x6C, 0x6C, 0x6F, 0x2C, 0x20, 0x57, 0x6F, 0x72, 0x6C, 0x64, 0x21, 0x20, 0xF0, 0x9F, 0x99, 0x82]
    [.str [0x6C], .num 0x4010000000000000] = .ok (.num 0x4024000000000000) := by decide +kernel
example : Valid [0x48, 0x65, 0x6C, 0x6C, 0x6F, 0x2C, 0x20, 0x57, 0x6F, 0x72, 0x6C, 0x64, 0x21, 0x20, 0xF0, 0x9F, 0x99, 0x82]
    ∧ Valid [0x6C] := by decide

/-! ## 6. Iteration -/

/-- Iterating a valid string yields its characters one by one (each piece is the encoding of one scalar
value), their concatenation is the string, each step moves from one boundary to the next, and at the end
the iterator answers StopIter and stays at the end, forever. -/
theorem iter_concat (cps : List Nat) (h : ∀ c ∈ cps, isScalar c = true) :
    iterAll (encode cps) = .ok (cps.map encodeCP) ∧
    (cps.map encodeCP).flatten = encode cps ∧
    (∀ k (hk : k < cps.length),
      stringIterNext (encode cps) (encode (cps.take k)).length =
        .ok (.str (encodeCP cps[k]), (encode (cps.take (k + 1))).length)) ∧
    stringIterNext (encode cps) (encode cps).length = .ok (.stopIter, (encode cps).length) := by
  refine ⟨iterAll_encode cps h, flatten_map_encodeCP cps, ?_, stringIterNext_end _⟩
  intro k hk
  have hsplit : cps = cps.take k ++ cps[k] :: cps.drop (k + 1) := by
    rw [List.getElem_cons_drop, List.take_append_drop]
  have hc : isScalar cps[k] = true := h _ (List.getElem_mem hk)
  have hrest : Valid (encode (cps.drop (k + 1))) := ⟨_, fun c hc => h c (List.mem_of_mem_drop hc), rfl⟩
  have henc : encode cps = encode (cps.take k) ++ (encodeCP cps[k] ++ encode (cps.drop (k + 1))) := by
    conv => lhs; rw [hsplit]
    rw [encode_append]; rfl
  have htake : encode (cps.take (k + 1)) = encode (cps.take k) ++ encodeCP cps[k] := by
    rw [List.take_succ_eq_append_getElem hk, encode_append]; simp [encode]
  rw [htake, List.length_append, henc]
  exact stringIterNext_char hc hrest
#print axioms iter_concat

example : iterAll [0x61, 0xF0, 0x9F, 0x98, 0x8A, 0x64] = .ok [[0x61], [0xF0, 0x9F, 0x98, 0x8A], [0x64]] := by
  decide +kernel

/-! ## 7. Character counts -/

/-- `count_chars()` is the number of code points, and `char_byte_index(n)` — with `n` going through
`try_as_bounded_index(count, "String")`, so negative `n` counts from the end — is the encoded length of the
first `n` code points. The trailing "Provided character index out of range." exit is unreachable. -/
theorem char_count_spec (env : Env) (cps : List Nat) (h : ∀ c ∈ cps, isScalar c = true) :
    callNative env .countChars (encode cps) [] = .ok (numOfNat cps.length) ∧
    ∀ a, callNative env .charByteIndex (encode cps) [a] =
      (boundedIndex a cps.length .String).bind fun n => .ok (numOfNat (encode (cps.take n)).length) :=
  ⟨callNative_countChars_eq env h, callNative_charByteIndex_eq env h⟩
#print axioms char_count_spec

-- "foo🎅": char_byte_index(-1) = 3, count_chars = 4
example : callNative ⟨fun _ => none, fun _ => []⟩ .charByteIndex [0x66, 0x6F, 0x6F, 0xF0, 0x9F, 0x8E, 0x85]
    [.num 0xBFF0000000000000] = .ok (.num 0x4008000000000000) := by decide +kernel

/-! ## 8. The remaining natives against their byte-level reference -/

/-- `is_alpha` / `is_digit` / `is_hexdigit`: non-empty and every **byte** is in the ASCII class. -/
theorem classify_spec (env : Env) {s : List UInt8} (hs : Valid s) :
    callNative env .isAlpha s [] = .ok (.bool (decide (s.length > 0) && s.all fun b => isAsciiAlphabetic b.toNat)) ∧
    callNative env .isDigit s [] = .ok (.bool (decide (s.length > 0) && s.all fun b => isAsciiDigit b.toNat)) ∧
    callNative env .isHexdigit s [] = .ok (.bool (decide (s.length > 0) && s.all fun b => isAsciiHexdigit b.toNat)) := by
  refine ⟨?_, ?_, ?_⟩
  · simp only [callNative, checkNumArgs_bind, List.length_nil, ↓reduceIte]
    exact classify_eq_bytes _ (fun n hn => by simp [isAsciiAlphabetic]; omega) hs
  · simp only [callNative, checkNumArgs_bind, List.length_nil, ↓reduceIte]
    exact classify_eq_bytes _ (fun n hn => by simp [isAsciiDigit]; omega) hs
  · simp only [callNative, checkNumArgs_bind, List.length_nil, ↓reduceIte]
    exact classify_eq_bytes _ (fun n hn => by simp [isAsciiHexdigit, isAsciiDigit]; omega) hs
#print axioms classify_spec

example : callNative ⟨fun _ => none, fun _ => []⟩ .isHexdigit [0x31, 0x61, 0x46] [] = .ok (.bool true) ∧
    callNative ⟨fun _ => none, fun _ => []⟩ .isAlpha [0x61, 0xC3, 0xA9] [] = .ok (.bool false) ∧
    callNative ⟨fun _ => none, fun _ => []⟩ .isDigit [] [] = .ok (.bool false) := by decide +kernel

/-- `replace(old, new)` (non-empty `old`) character by character: at a position where `old` occurs it is
replaced and scanning resumes after it; otherwise one whole character is copied. -/
theorem replace_spec {old new : List UInt8} (hold : Valid old) (hne : old ≠ []) :
    replace [] old new = [] ∧
    (∀ t, replace (old ++ t) old new = new ++ replace t old new) ∧
    (∀ c rest, isScalar c = true → ¬ old <+: encodeCP c ++ rest →
      replace (encodeCP c ++ rest) old new = encodeCP c ++ replace rest old new) :=
  ⟨rfl, replace_match hne, fun _ _ hc h => replace_char hold hne hc h⟩
#print axioms replace_spec

-- "woot! 🙂".replace(" 🙂", "?") = "woot!?"
example : Valid [0x20, 0xF0, 0x9F, 0x99, 0x82] ∧
    replace [0x77, 0x6F, 0x6F, 0x74, 0x21, 0x20, 0xF0, 0x9F, 0x99, 0x82] [0x20, 0xF0, 0x9F, 0x99, 0x82] [0x3F]
      = [0x77, 0x6F, 0x6F, 0x74, 0x21, 0x3F] := by decide

/-- `split(delim)` (non-empty `delim`): joining the pieces with the delimiter gives the string back, there
is always at least one piece, and (by `all_ops_valid`) every piece is valid UTF-8. -/
theorem split_join (s pat : List UInt8) (hne : pat ≠ []) :
    ∃ first rest, split s pat = first :: rest ∧ first ++ rest.flatMap (fun p => pat ++ p) = s :=
  ⟨_, _, rfl, splitGo_join hne s.length s (Nat.le_refl _)⟩
#print axioms split_join

example : split [0x61, 0x2C, 0x62, 0x2C] [0x2C] = [[0x61], [0x62], []] := by decide
example : replace [0x61, 0x61, 0x61] [0x61, 0x61] [0x62] = [0x62, 0x61] := by decide

/-- `from_utf8`: succeeds exactly on valid UTF-8 and then returns the bytes unchanged; otherwise the error
names `valid_up_to` (the longest prefix that is valid) and the byte there; `from_ascii` never takes its
"Unable to create a string" exit. -/
theorem from_utf8_spec (bytes : List UInt8) :
    (validate bytes = true ↔ Valid bytes) ∧
    Valid (bytes.take (validUpTo bytes)) ∧
    (validate bytes = false → validUpTo bytes < bytes.length) ∧
    (∀ env args, callStatic env .fromAscii args ≠ .err ⟨.ValueError, .unableToCreate⟩) :=
  ⟨validate_iff, validUpTo_prefix_valid bytes, validUpTo_lt_of_invalid, fromAscii_never_unable⟩
#print axioms from_utf8_spec

-- String.from_utf8([72, 105, 32, 240, 159, 1, 130]) ⇒ "Invalid Unicode encountered at byte 240 with index 3."
example : callStatic ⟨fun _ => none, fun _ => []⟩ .fromUtf8
    [.vec [.num 0x4052000000000000, .num 0x405A400000000000, .num 0x4040000000000000, .num 0x406E000000000000,
           .num 0x4063E00000000000, .num 0x3FF0000000000000, .num 0x4060400000000000]] =
    .err ⟨.ValueError, .invalidUnicode 240 3⟩ := by decide +kernel

/-- The `> 127` test of `from_ascii` is done on the `u8` in the model and on the `f64` in Rust
(`num > 127.0`); they agree on every value that reaches the test (integral 0..255). -/
example : ∀ n, n < 256 → F64.lt f64_127 (natToBits n) = decide (n > 127) := by decide +kernel

/-- `usize as f64` (used for every numeric result): exact on a sample of small values, and the
round-to-nearest-even cases around 2^53. -/
example : ∀ n, n < 128 → F64.toIsize (natToBits n) = n ∧ F64.isIntegral (natToBits n) = true := by
  decide +kernel
example : natToBits (2 ^ 53 + 1) = 0x4340000000000000 ∧ natToBits (2 ^ 53 + 3) = 0x4340000000000002 ∧
    natToBits (2 ^ 64 - 1) = 0x43F0000000000000 ∧ intToBits (-3) = 0xC008000000000000 := by decide +kernel

/-- The native `StringIter.next` only adds the arity check to `stringIterNext`. -/
example (s : List UInt8) (pos : Nat) : callIterNext s pos [] = stringIterNext s pos := rfl
example : callIterNext [0x61] 0 [.nil] = .err ⟨.TypeError, .numArgs 0 1⟩ := by decide

end Yarel.C13
