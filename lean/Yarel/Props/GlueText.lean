/-
Glue that the hand models transcribe and that is not translated into `Gen/Fns.lean`: the functions of vm.rs around the module registry (C14)
and around the re-use of one interpreter for several runs (C15), regenerated from the source on every run as signature + statements
(statements under cfg(verif_hooks) stripped) and pinned here.  The models of those two mechanisms (Model/Modules.lean: absent / loading /
loaded, a body runs when the state is absent, `imported` is set when the body has returned; Model/Reuse.lean: what a run starts from) were
written against exactly these texts and are tied to the behaviour by the event correspondence; these obligations say that the text is
still the one the models were written against - a guard added around a write, a reordered pair of statements, an early return.
A harmless rewrite breaks them as well: the correspondence then runs as the search, and if it finds nothing the violation line ends in
no-failing-input-found and this file is what has to be reviewed.
-/
import Yarel.Gen.CfgSites
namespace Yarel.GlueText
open Yarel

/-- `import`: look the path up in the registry; present and loaded: push the module object; present and not loaded: ImportError (circular);
absent: load the source, compile it (failures are ImportErrors of the importing statement), register the module, call its body. -/
theorem start_import_as_modelled :
    Gen.glue_Vm_start_import_impl =
    [ "fn start_import_impl (& mut self) -> Result < () , Error >"
    , "let path = self . read_string () ;"
    , "if let Some (module) = self . modules . get (& path) . map (| m | m . as_gc ()) { if module . borrow () . imported { self . push (Value :: ObjModule (module)) ; self . push (Value :: None) ; } else { let err = error ! (ErrorKind :: ImportError , \"Circular dependency encountered when importing module '{}'.\" , path . as_str ()) ; self . try_handle_error (err) ? ; } return Ok (()) ; }"
    , "let source = match (self . module_loader) (& path) { Ok (s) => s , Err (e) => { return self . try_handle_error (e) ; } } ;"
    , "let function = match compiler :: compile (self , source , Some (& path)) { Ok (f) => f , Err (e) => { let mut error = error ! (ErrorKind :: ImportError , \"Error compiling module:\") ; for msg in e . messages () { error . add_message (& format ! (\"    {}\" , msg)) ; } return self . try_handle_error (error) ; } } ;"
    , "let module = self . module (& path) ;"
    , "self . push (Value :: ObjModule (module)) ;"
    , "let closure = self . new_root_obj_closure (function . as_gc () , module) ;"
    , "self . push (Value :: ObjClosure (closure . as_gc ())) ;"
    , "self . init_built_in_globals (path . as_str ()) ;"
    , "self . call_value (self . peek (0) , 0) ? ;"
    , "Ok (())"
    ] := by rfl

/-- when the body has returned, and only then, unconditionally: the module is marked as loaded. -/
theorem finish_import_as_modelled :
    Gen.glue_Vm_finish_import_impl =
    [ "fn finish_import_impl (& mut self)"
    , "self . pop () ;"
    , "let module = self . peek (0) . try_as_obj_module () . expect (\"Expected ObjModule.\") ;"
    , "module . borrow_mut () . imported = true ;"
    ] := by rfl

/-- one module object per path: the registry is consulted before a module object is made. -/
theorem module_lookup_as_modelled :
    Gen.glue_Vm_module =
    [ "fn module (& mut self , path : & str) -> Gc < RefCell < ObjModule > >"
    , "let path = self . new_gc_obj_string (path) ;"
    , "if let Some (module) = self . modules . get (& path) { return module . as_gc () ; }"
    , "let module = Root :: new (RefCell :: new (ObjModule :: new (self . class_store . module_class () , path ,))) ;"
    , "let gc_module = module . as_gc () ;"
    , "self . modules . insert (path , module) ;"
    , "gc_module"
    ] := by rfl

/-- what `reset` restores between runs. -/
theorem reset_as_modelled :
    Gen.glue_Vm_reset =
    [ "fn reset (& mut self)"
    , "self . reset_stack () ;"
    , "self . range_cache . clear () ;"
    , "self . chunks = self . core_chunks . clone () ;"
    , "self . modules . retain (| & k , _ | k . as_str () == \"main\") ;"
    , "self . active_module = self . module (\"main\") ;"
    , "self . active_module . borrow_mut () . attributes = object :: new_obj_string_value_map () ;"
    , "self . init_built_in_globals (\"main\") ;"
    ] := by rfl

theorem reset_stack_as_modelled :
    Gen.glue_Vm_reset_stack =
    [ "fn reset_stack (& mut self)"
    , "if let Some (fiber) = self . fiber . as_ref () { let mut waiting = { let mut borrowed_fiber = fiber . borrow_mut () ; if borrowed_fiber . stack . len () > 0 { borrowed_fiber . close_upvalues (0) ; } borrowed_fiber . stack . clear () ; borrowed_fiber . frames . clear () ; borrowed_fiber . caller } ; while let Some (caller) = waiting { let mut borrowed_caller = caller . borrow_mut () ; if borrowed_caller . stack . len () > 0 { borrowed_caller . close_upvalues (0) ; } waiting = borrowed_caller . caller ; } }"
    ] := by rfl

/-- what a run starts from: no instruction pointer, no fiber, no exception in flight; a fresh fiber for the function that is run. -/
theorem execute_as_modelled :
    Gen.glue_Vm_execute =
    [ "fn execute (& mut self , function : Root < ObjFunction > , args : & [Value]) -> Result < Value , Error >"
    , "self . ip = ptr :: null () ;"
    , "self . fiber = None ;"
    , "self . handling_exception = false ;"
    , "let module = self . module (& function . module_path) ;"
    , "let closure = self . new_root_obj_closure (function . as_gc () , module) ;"
    , "let fiber = self . new_root_obj_fiber (closure . as_gc ()) ;"
    , "let arity = closure . function . arity - 1 ;"
    , "if arity != args . len () { return Err (error ! (ErrorKind :: TypeError , \"Expected {} arguments but found {}.\" , arity , args . len ())) ; }"
    , "self . load_fiber (fiber . as_gc () , None) ? ;"
    , "for & arg in args { self . push (arg) ; }"
    , "match self . run () { Ok (value) => Ok (value) , Err (mut error) => Err (self . runtime_error (& mut error)) , }"
    ] := by rfl

#print axioms start_import_as_modelled
#print axioms finish_import_as_modelled
#print axioms module_lookup_as_modelled
#print axioms reset_as_modelled
#print axioms reset_stack_as_modelled
#print axioms execute_as_modelled

end Yarel.GlueText
