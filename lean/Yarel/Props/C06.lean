/-
C06 — "A closure shares the very variable it captured with the declaring scope and with every other closure that
captured it – while that scope is live and after it has exited, across calls, loop iterations and fibers – so
writes through one are seen by all."

Model: Yarel/Model/Upvalues.lean (one fiber's value stack, the heap of upvalue cells, the fiber's open list; the
operations are transcriptions of `capture_upvalue`, `ObjFiber::close_upvalues`, `ObjUpvalue::{get,set,close}`,
`get/set_local_impl`, `Stack::{push,truncate}`).

`Reachable` = states reached from the empty fiber by DISCIPLINED operations
  { push, getLocal/setLocal (in range), capture (slot in range), getCell/setCell (existing cell),
    closeAndTruncate n (n ≤ height) }
i.e. the stack is never cut below an open cell without closing it, and `close_upvalues` is always followed by the
truncation (as in `CloseUpvalue` and `return_impl`).
-/
import Yarel.Proofs.UpvaluesRefine

namespace Yarel.Upv

open Fiber

/-! ## open_sorted -/

/-- In every reachable state the open list is strictly descending by slot, contains exactly the open cells
(with the slot the cell records), each exactly once, and every open cell points below the stack top. -/
theorem open_sorted {s : Fiber} (h : Reachable s) :
    s.openList.Pairwise (fun a b => a.2 > b.2) ∧
    (∀ (c sl : Nat), (c, sl) ∈ s.openList ↔ s.cells[c]? = some (Cell.opened sl)) ∧
    (s.openList.map Prod.fst).Nodup ∧
    (∀ (c sl : Nat), s.cells[c]? = some (Cell.opened sl) → sl < s.stack.length) :=
  have hi := reachable_inv h
  ⟨hi.desc, hi.mem_iff, hi.toCoh.nodup, hi.inrange⟩

#print axioms open_sorted

/-- The list part (descending, exactly the open cells) even holds after ARBITRARY operation sequences,
including bare truncations; only "below the stack top" needs the discipline. -/
theorem open_sorted_any {ops : List Op} {s : Fiber} {os : List Obs}
    (h : run ops Fiber.empty = .ok (s, os)) :
    s.openList.Pairwise (fun a b => a.2 > b.2) ∧
    (∀ (c sl : Nat), (c, sl) ∈ s.openList ↔ s.cells[c]? = some (Cell.opened sl)) ∧
    (s.openList.map Prod.fst).Nodup :=
  have hc := coh_run ops _ _ _ coh_empty h
  ⟨hc.desc, hc.mem_iff, hc.nodup⟩

#print axioms open_sorted_any

/-! ## capture_shares -/

/-- Capturing a slot that already has an open cell returns that very cell (isNew = false, nothing changes);
otherwise a fresh cell is allocated for the slot; afterwards exactly one open cell has that slot, namely the
one returned. -/
theorem capture_shares {s : Fiber} (h : Reachable s) (loc : Nat) :
    (∀ c0 : Nat, s.cells[c0]? = some (Cell.opened loc) → s.capture loc = (s, c0, false)) ∧
    ((∀ c0 : Nat, s.cells[c0]? ≠ some (Cell.opened loc)) →
        (s.capture loc).2 = (s.cells.length, true) ∧
        (s.capture loc).1.cells = s.cells ++ [Cell.opened loc] ∧
        (s.capture loc).1.stack = s.stack) ∧
    ((s.capture loc).1.cells[(s.capture loc).2.1]? = some (Cell.opened loc) ∧
      ∀ c' : Nat, (s.capture loc).1.cells[c']? = some (Cell.opened loc) → c' = (s.capture loc).2.1) := by
  have hi := reachable_inv h
  have hcoh' := coh_capture hi.toCoh loc
  refine ⟨fun c0 hc0 => capture_reuse hi.toCoh hc0, fun hno => ?_, ?_⟩
  · rw [capture_fresh hi.toCoh hno]; exact ⟨rfl, rfl, rfl⟩
  · have key : (s.capture loc).1.cells[(s.capture loc).2.1]? = some (Cell.opened loc) := by
      by_cases hex : ∃ c0 : Nat, s.cells[c0]? = some (Cell.opened loc)
      · obtain ⟨c0, hc0⟩ := hex
        rw [capture_reuse hi.toCoh hc0]; exact hc0
      · rw [capture_fresh hi.toCoh (fun c0 hc0 => hex ⟨c0, hc0⟩)]
        simp
    exact ⟨key, fun c' hc' => hcoh'.unique_slot hc' key⟩

#print axioms capture_shares

/-! ## close_exact -/

/-- `closeFrom idx` (= `close_upvalues(idx)`) never faults in a reachable state; it closes exactly the open cells
with slot ≥ idx, each ending up `closed v` with `v` the slot's value at that moment, leaves every other cell,
the stack and the rest of the list untouched, and reports the closed cells in list order. -/
theorem close_exact {s : Fiber} (h : Reachable s) (idx : Nat) :
    ∃ s' cs, s.closeFrom idx = .ok (s', cs) ∧
      cs = (s.openList.filter (fun q => decide (idx ≤ q.2))).map Prod.fst ∧
      (∀ c : Nat, c ∈ cs ↔ ∃ sl, s.cells[c]? = some (Cell.opened sl) ∧ idx ≤ sl) ∧
      (∀ (c sl : Nat), s.cells[c]? = some (Cell.opened sl) → idx ≤ sl →
          ∃ v, s.stack[sl]? = some v ∧ s'.cells[c]? = some (Cell.closed v)) ∧
      (∀ c : Nat, c ∉ cs → s'.cells[c]? = s.cells[c]?) ∧
      s'.stack = s.stack ∧ s'.cells.length = s.cells.length ∧
      s'.openList = s.openList.filter (fun q => decide (q.2 < idx)) := by
  have hi := reachable_inv h
  obtain ⟨s', cs, hr⟩ := closeFrom_progress hi idx
  obtain ⟨e1, el, e2, e3, e4, e5⟩ := closeFrom_ok hi.toCoh hr
  have hmem : ∀ c : Nat, c ∈ cs ↔ ∃ sl, s.cells[c]? = some (Cell.opened sl) ∧ idx ≤ sl := by
    intro c
    rw [e3, List.mem_map]
    constructor
    · rintro ⟨q, hq, rfl⟩
      have hq' := List.mem_filter.mp hq
      exact ⟨q.2, (hi.mem_iff q.1 q.2).mp hq'.1, by simpa using hq'.2⟩
    · rintro ⟨sl, hc, hle⟩
      exact ⟨(c, sl), List.mem_filter.mpr ⟨(hi.mem_iff c sl).mpr hc, by simpa using hle⟩, rfl⟩
  refine ⟨s', cs, hr, e3, hmem, e4, ?_, e1, el, e2⟩
  intro c hc
  apply e5
  intro sl hsl
  rcases Nat.lt_or_ge sl idx with hlt | hge
  · exact hlt
  · exact absurd ((hmem c).mpr ⟨sl, hsl, hge⟩) hc

#print axioms close_exact

/-! ## refines_cells (headline) -/

/-- HEADLINE, one step. `Rel s a` (Yarel/Proofs/UpvaluesRefine.lean) relates a mechanism state to a state of the
abstract semantics "one variable per slot instance" (`AState`, `astep` in the model file: a store of variables,
the stack as variable ids – each push creates a fresh variable – and for every cell the variable it was created
for; `getCell`/`setCell` simply read/write that variable). Every disciplined operation of the mechanism
succeeds, is matched by the abstract step with THE SAME observation (values read, cell identity, isNew flag;
only the list of cells closed is not an abstract notion and is erased), and the relation is preserved. -/
theorem refines_cells {s : Fiber} {a : AState} (h : Rel s a) {op : Op} (hd : Disc s op) :
    ∃ s' o a', step op s = .ok (s', o) ∧ astep op a = some (a', o.erase) ∧ Rel s' a' :=
  sim_step h hd

#print axioms refines_cells

/-- HEADLINE, whole runs from the empty fiber: a disciplined operation sequence never faults and yields exactly
the observations of the abstract semantics – in which a cell reads/writes the variable it was created for, before
and after that variable's slot has been closed and popped, for any number of cells over the same or different
slots. -/
theorem refines_cells_run (ops : List Op) (hd : Disciplined Fiber.empty ops) :
    ∃ s os a, run ops Fiber.empty = .ok (s, os) ∧
      arun ops AState.empty = some (a, os.map Obs.erase) ∧ Rel s a :=
  sim_run ops _ _ rel_empty hd

#print axioms refines_cells_run

/-- Every reachable state represents some abstract state. -/
theorem reachable_represents {s : Fiber} (h : Reachable s) : ∃ a, Rel s a := reachable_rel h

#print axioms reachable_represents

/-! ## sharing, stated directly on the mechanism (corollaries in plain terms) -/

/-- While the declaring scope is live: a write through the cell is seen by the slot (the declaring scope) and by
every reader of the cell, and a write to the slot is seen through the cell. (All closures that captured the
variable hold this one cell, by `capture_shares`.) -/
theorem shared_while_open {s : Fiber} (h : Reachable s) {c sl : Nat}
    (hc : s.cells[c]? = some (Cell.opened sl)) (v : Val) :
    (∃ s', s.setCell c v = .ok s' ∧ s'.getLocal sl = .ok v ∧ s'.getCell c = .ok v) ∧
    (∃ s', s.setLocal sl v = .ok s' ∧ s'.getCell c = .ok v ∧ s'.getLocal sl = .ok v) := by
  have hsl := (reachable_inv h).inrange c sl hc
  constructor
  · refine ⟨{ s with stack := s.stack.set sl v }, ?_, ?_, ?_⟩
    · simp [setCell, hc, hsl]
    · simp [getLocal, List.getElem?_set_self hsl]
    · simp [getCell, hc, List.getElem?_set_self hsl]
  · refine ⟨{ s with stack := s.stack.set sl v }, ?_, ?_, ?_⟩
    · simp [setLocal, hsl]
    · simp [getCell, hc, List.getElem?_set_self hsl]
    · simp [getLocal, List.getElem?_set_self hsl]

#print axioms shared_while_open

/-- After the declaring scope has exited (`closeAndTruncate n` with the captured slot ≥ n): the cell holds the
variable's last value, and from then on is a variable of its own – reads return what was last written through
it, and writes do not touch the stack. -/
theorem shared_after_close {s : Fiber} (h : Reachable s) {c sl n : Nat}
    (hc : s.cells[c]? = some (Cell.opened sl)) (hn : n ≤ sl) :
    ∃ s' cs v0, s.closeAndTruncate n = .ok (s', cs) ∧ s.stack[sl]? = some v0 ∧ c ∈ cs ∧
      s'.stack = s.stack.take n ∧ s'.getCell c = .ok v0 ∧
      ∀ v, ∃ s'', s'.setCell c v = .ok s'' ∧ s''.getCell c = .ok v ∧ s''.stack = s'.stack := by
  have hi := reachable_inv h
  have hsl := hi.inrange c sl hc
  obtain ⟨s', cs, hr, e1, el, _, e3, e4, _⟩ := closeAndTruncate_spec hi (Nat.le_trans hn (Nat.le_of_lt hsl))
  obtain ⟨v0, hv0, hc'⟩ := e4 c sl hc hn
  have hclt : c < s'.cells.length := lt_of_getElem?_some hc'
  refine ⟨s', cs, v0, hr, hv0, ?_, e1, ?_, ?_⟩
  · rw [e3, List.mem_map]
    exact ⟨(c, sl), List.mem_filter.mpr ⟨(hi.mem_iff c sl).mpr hc, by simpa using hn⟩, rfl⟩
  · simp [getCell, hc']
  · intro v
    refine ⟨{ s' with cells := s'.cells.set c (Cell.closed v) }, ?_, ?_, rfl⟩
    · simp [setCell, hc']
    · simp [getCell, List.getElem?_set_self hclt]

#print axioms shared_after_close

/-- Ordinary pops of temporaries are disciplined: where no open cell points at or above `n`, the bare
`truncate n` of the VM coincides with `closeAndTruncate n` (which then closes nothing). -/
theorem truncate_eq_closeAndTruncate {s : Fiber} (h : Reachable s) {n : Nat} (hn : n ≤ s.stack.length)
    (hno : ∀ (c sl : Nat), s.cells[c]? = some (Cell.opened sl) → sl < n) :
    ∃ s', s.truncate n = .ok s' ∧ s.closeAndTruncate n = .ok (s', []) := by
  have hi := reachable_inv h
  have e1 : s.openList.filter (fun q => decide (n ≤ q.2)) = [] := by
    rw [List.filter_eq_nil_iff]
    intro q hq
    have := hno q.1 q.2 ((hi.mem_iff q.1 q.2).mp hq)
    simp only [decide_eq_true_eq]; omega
  have e2 : s.openList.filter (fun q => decide (q.2 < n)) = s.openList := by
    rw [List.filter_eq_self]
    intro q hq
    simpa using hno q.1 q.2 ((hi.mem_iff q.1 q.2).mp hq)
  refine ⟨{ s with stack := s.stack.take n }, by simp [truncate, hn], ?_⟩
  simp [closeAndTruncate, closeFrom, closeList_desc n s.openList hi.desc, e1, e2, closeCells, truncate, hn]

#print axioms truncate_eq_closeAndTruncate

/-! ## no_fault_disciplined / undisciplined_breaks -/

/-- A disciplined operation never faults in a reachable state … -/
theorem no_fault_disciplined {s : Fiber} (h : Reachable s) {op : Op} (hd : Disc s op) :
    ∃ s' o, step op s = .ok (s', o) ∧ Reachable s' := by
  obtain ⟨a, ha⟩ := reachable_rel h
  obtain ⟨s', o, _, hr, _, _⟩ := sim_step ha hd
  exact ⟨s', o, hr, Reachable.step h hd hr⟩

#print axioms no_fault_disciplined

/-- … and neither does a disciplined sequence. -/
theorem no_fault_disciplined_run (ops : List Op) (hd : Disciplined Fiber.empty ops) :
    ∃ s os, run ops Fiber.empty = .ok (s, os) ∧ Reachable s := by
  obtain ⟨s, os, _, hr, _, _⟩ := sim_run ops _ _ rel_empty hd
  exact ⟨s, os, hr, reachable_run ops _ _ _ Reachable.empty hd hr⟩

#print axioms no_fault_disciplined_run

/-- The discipline is needed. Bare `truncate` below an open cell, then a push: `getCell` returns the NEW slot
content (77) instead of the captured variable's value (10) – "the closure sees garbage". -/
theorem undisciplined_breaks :
    run [.push 10, .capture 0, .truncate 0, .push 77, .getCell 0] Fiber.empty
      = .ok (⟨[77], [Cell.opened 0], [(0, 0)]⟩, [.unit, .cell 0 true, .unit, .unit, .val 77]) ∧
    ¬ Disciplined Fiber.empty [.push 10, .capture 0, .truncate 0, .push 77, .getCell 0] := by
  decide

#print axioms undisciplined_breaks

/-- Same defect, other symptoms: reading through the dangling cell right away touches dead stack memory (`fault`);
and a later capture of the re-used slot REUSES the stale cell (isNew = false), so two unrelated variables
share one cell. -/
theorem undisciplined_breaks' :
    run [.push 10, .capture 0, .truncate 0, .getCell 0] Fiber.empty = .fault ∧
    run [.push 10, .capture 0, .truncate 0, .push 77, .capture 0] Fiber.empty
      = .ok (⟨[77], [Cell.opened 0], [(0, 0)]⟩, [.unit, .cell 0 true, .unit, .unit, .cell 0 false]) := by
  decide

#print axioms undisciplined_breaks'

/-- `close_upvalues` WITHOUT the truncation that follows it in the VM also breaks sharing: the cell gets a
private copy while the slot lives on (write 5 to the slot, the cell still reads 10; a re-capture makes a second
cell for the same variable). -/
theorem close_without_pop_splits :
    run [.push 10, .capture 0, .closeFrom 0, .setLocal 0 5, .getCell 0, .capture 0] Fiber.empty
      = .ok (⟨[5], [Cell.closed 10, Cell.opened 0], [(1, 0)]⟩,
          [.unit, .cell 0 true, .closedCells [0], .unit, .val 10, .cell 1 true]) := by
  decide

#print axioms close_without_pop_splits

/-! ## Non-vacuity -/

/-- a disciplined run ending with 3 open cells on distinct slots (2, 1, 0 – captured out of order and one of them
twice) and 2 closed cells. -/
def demoOps : List Op :=
  [.push 1, .push 2, .push 3, .push 4, .push 5,
   .capture 3, .capture 4, .setCell 1 50, .closeAndTruncate 3,
   .capture 0, .capture 2, .capture 1, .capture 2,
   .setCell 0 40, .setLocal 1 20, .getCell 0, .getCell 1, .getCell 3, .getLocal 1]

def demoState : Fiber :=
  ⟨[1, 20, 3], [Cell.closed 40, Cell.closed 50, Cell.opened 0, Cell.opened 2, Cell.opened 1],
   [(3, 2), (4, 1), (2, 0)]⟩

example : Disciplined Fiber.empty demoOps := by decide

def demoObs : List Obs :=
  [.unit, .unit, .unit, .unit, .unit,
   .cell 0 true, .cell 1 true, .unit, .closedCells [1, 0],
   .cell 2 true, .cell 3 true, .cell 4 true, .cell 3 false,
   .unit, .unit, .val 40, .val 50, .val 3, .val 20]

theorem demo_run : run demoOps Fiber.empty = .ok (demoState, demoObs) := by decide

/-- the hypotheses of `open_sorted`, `capture_shares`, `close_exact`, `no_fault_disciplined` are met by a state
with ≥ 3 open cells on distinct slots and 2 closed cells. -/
theorem demo_reachable : Reachable demoState :=
  reachable_run demoOps _ _ _ Reachable.empty (by decide) demo_run

example : ∃ s, Reachable s ∧
    (∃ c1 c2 c3 s1 s2 s3 : Nat, s.cells[c1]? = some (Cell.opened s1) ∧ s.cells[c2]? = some (Cell.opened s2) ∧
      s.cells[c3]? = some (Cell.opened s3) ∧ s1 ≠ s2 ∧ s1 ≠ s3 ∧ s2 ≠ s3) ∧
    (∃ (c4 c5 : Nat) (v4 v5 : Val), c4 ≠ c5 ∧ s.cells[c4]? = some (Cell.closed v4) ∧ s.cells[c5]? = some (Cell.closed v5)) :=
  ⟨demoState, demo_reachable, ⟨2, 3, 4, 0, 2, 1, by decide⟩, ⟨0, 1, 40, 50, by decide⟩⟩

/-- both branches of `capture_shares` occur in that state (slot 2 has a cell; a 4th pushed slot has none). -/
example : (∃ c0 : Nat, demoState.cells[c0]? = some (Cell.opened 2)) ∧
    (∀ c0 : Nat, demoState.cells[c0]? ≠ some (Cell.opened 3)) := by
  refine ⟨⟨3, by decide⟩, ?_⟩
  intro c0
  have : demoState.cells.length = 5 := rfl
  rcases Nat.lt_or_ge c0 5 with h | h
  · have : c0 = 0 ∨ c0 = 1 ∨ c0 = 2 ∨ c0 = 3 ∨ c0 = 4 := by omega
    rcases this with rfl | rfl | rfl | rfl | rfl <;> decide
  · rw [List.getElem?_eq_none (by omega)]; simp

/-- `close_exact` closes a non-trivial, proper part of the cells there (idx = 1 closes cells 3, 4; keeps 2). -/
example : demoState.closeFrom 1 =
    .ok (⟨[1, 20, 3], [Cell.closed 40, Cell.closed 50, Cell.opened 0, Cell.closed 3, Cell.closed 20], [(2, 0)]⟩,
      [3, 4]) := by decide

/-- `refines_cells` is applicable (and `Rel` non-trivial): the demo state represents this abstract state. -/
example : ∃ a, Rel demoState a := reachable_rel demo_reachable

example : arun demoOps AState.empty =
    some (⟨[1, 20, 3, 40, 50], [0, 1, 2], [3, 4, 0, 2, 1]⟩,
      [.unit, .unit, .unit, .unit, .unit,
       .cell 0 true, .cell 1 true, .unit, .unit,
       .cell 2 true, .cell 3 true, .cell 4 true, .cell 3 false,
       .unit, .unit, .val 40, .val 50, .val 3, .val 20]) := by decide

/-- Sharing end to end, after the declaring scope has exited: two captures of one variable yield ONE cell; after
the slot is closed and popped, and even after the slot has been re-used by a new variable, a write through the
cell is what every later read through it sees (99), not the new slot content (5). -/
example : run [.push 10, .capture 0, .capture 0, .closeAndTruncate 0, .push 5, .setCell 0 99, .getLocal 0,
      .getCell 0, .capture 0, .getCell 1] Fiber.empty
    = .ok (⟨[5], [Cell.closed 99, Cell.opened 0], [(1, 0)]⟩,
        [.unit, .cell 0 true, .cell 0 false, .closedCells [0], .unit, .unit, .val 5,
         .val 99, .cell 1 true, .val 5]) := by decide

end Yarel.Upv
