/-
C09 – fiber switching (`load_fiber`, `unload_fiber`, the last-frame case of `return_impl`, `execute`),
and `active_fiber_dual` (the two "current fiber" designators `Vm::fiber` / `Vm::unsafe_fiber`).

Model: `Yarel/Model/Fibers.lean`. Definitions used below:
* `load b rep vm f arg`, `unload b vm arg`, `finish b vm`, `execute b vm closure arityOk`, `abort vm`,
  `newFiber vm closure` – the transcribed operations; `b : Build` says through which designator
  `active_fiber()` goes; `rep = false` is the resume hand-over as it is, `rep = true` the repaired one;
* `Vm.chain vm` – follow `caller` links from `vm.fiber` (fuel = number of fibers);
* `IsChain fs root ch` (Proofs/FiberChain.lean) – `ch = [f₀,…,root]`, `fᵢ.caller = some fᵢ₊₁`, `root.caller = none`;
* `Init root vm` / `Reachable b root vm` (Proofs/FiberReach.lean) – the states `execute` starts `run()` in, and
  everything reachable from them by `newFiber`, ARBITRARY local computation of the running fiber (`step`),
  `load` of a non-root fiber, `unload`, `finish`, and the error exits of `load`/`unload`.
-/
import Yarel.Proofs.FiberReach

namespace Yarel.Fibers

/-! ### concrete data for the non-vacuity examples -/

def okVm : Res → Vm
  | .ok vm => vm
  | .error _ vm => vm
  | .done _ vm => vm
  | .fault _ => Vm.fresh

/-- local computation of the running fiber: push values (receiver and argument of a native call). -/
def pushVals (vm : Vm) (vs : List Val) : Vm :=
  match vm.fiber with
  | none => vm
  | some a =>
    match vm.fibers[a]? with
    | none => vm
    | some cur => { vm with fibers := vm.fibers.set a { cur with st := { cur.st with stack := cur.st.stack ++ vs } } }

/-- after `execute`: fiber 0 is the root. -/
def s0 : Vm := okVm (execute .unchecked Vm.fresh 100 true).1
/-- two more fibers created (`Fiber.new`). -/
def s1 : Vm := (newFiber (newFiber s0 200).1 300).1
/-- root: `f1.call(5)` at pc 17. -/
def s2 : Vm := okVm (load .unchecked false { pushVals s1 [.fiber 1, .num 5] with pc := 17 } 1 (some (.num 5)))
/-- f1: `f2.call()` at pc 4. -/
def s3 : Vm := okVm (load .unchecked false { pushVals s2 [.fiber 2] with pc := 4 } 2 none)
/-- f2: `Fiber.yield(7)` at pc 9. -/
def s4 : Vm := okVm (unload .unchecked { pushVals s3 [.fiberClass, .num 7] with pc := 9 } (some (.num 7)))
/-- f1: `f2.call()` again (resume WITHOUT argument) at pc 6 – present code / repaired. -/
def s5 : Vm := okVm (load .unchecked false { pushVals s4 [.fiber 2] with pc := 6 } 2 none)
def s5r : Vm := okVm (load .unchecked true { pushVals s4 [.fiber 2] with pc := 6 } 2 none)
/-- f2: `return 42` from its only frame. -/
def s6 : Vm := okVm (finish .unchecked (pushVals s5 [.num 42]))

theorem s0_init : Init 0 s0 :=
  execute_init (vm0 := Vm.fresh) (b := .unchecked) (closure := 100) (by intro f fb h; simp [Vm.fresh] at h) rfl

theorem s0_reachable : Reachable .unchecked 0 s0 := .init s0_init

theorem s3_reachable : Reachable .unchecked 0 s3 := by
  have r1 : Reachable .unchecked 0 s1 := .newFiber 300 (.newFiber 200 s0_reachable)
  have r1' : Reachable .unchecked 0 { pushVals s1 [.fiber 1, .num 5] with pc := 17 } :=
    Reachable.step (a := 0) (fb' := ⟨⟨[.closure 100, .fiber 1, .num 5], 1, [], none, .nil, none⟩, 0, none, 100⟩)
      17 false r1 rfl rfl rfl (by decide)
  have r2 : Reachable .unchecked 0 s2 := Reachable.load (rep := false) (f := 1) (arg := some (.num 5)) r1' (by decide) rfl
  have r2' : Reachable .unchecked 0 { pushVals s2 [.fiber 2] with pc := 4 } :=
    Reachable.step (a := 1) (fb' := ⟨⟨[.closure 200, .num 5, .fiber 2], 1, [], none, .nil, none⟩, 0, some 0, 200⟩)
      4 false r2 rfl rfl rfl (by decide)
  exact Reachable.load (rep := false) (f := 2) (arg := none) r2' (by decide) rfl

example : s3.chain = some [2, 1, 0] := by decide
example : s6.chain = some [1, 0] := by decide

/-! ### 1. `chain_ok` -/

/-- In every reachable state, following `caller` links from the running fiber yields a finite,
duplicate-free chain `ch` that starts at the running fiber and ends at the root fiber; no fiber on it has
finished; and the fibers that have a caller are EXACTLY the members of the chain other than the root (so
every fiber off the chain – fresh, suspended by a yield, or finished – has `caller = none`). -/
theorem chain_ok (b : Build) (root : Nat) (vm : Vm) (h : Reachable b root vm) :
    ∃ ch, vm.chain = some ch ∧ IsChain vm.fibers root ch ∧ ch.Nodup ∧
      ch.head? = vm.fiber ∧ ch.getLast? = some root ∧
      (∀ f ∈ ch, ∃ fb, vm.fibers[f]? = some fb ∧ 0 < fb.st.frames) ∧
      (∀ f fb, vm.fibers[f]? = some fb → (fb.caller ≠ none ↔ f ∈ ch ∧ f ≠ root)) := by
  obtain ⟨ch, hg⟩ := reachable_good h
  refine ⟨ch, hg.chain_eq, hg.isChain, hg.nodup, hg.fiber.symm, hg.isChain.getLast, hg.alive, ?_⟩
  intro f fb hfb
  rw [← hg.callers f fb hfb]
  cases fb.caller <;> simp

#print axioms chain_ok

/-- the chain that `Vm.chain` computes is a chain in the sense of `IsChain` whenever it returns one
(so `chain_ok` could not be satisfied by a degenerate `Vm.chain`). -/
theorem chain_sound (vm : Vm) (ch : List Nat) (h : vm.chain = some ch) :
    ∃ root, IsChain vm.fibers root ch ∧ ch.head? = vm.fiber := by
  unfold Vm.chain at h
  split at h
  · cases h
  · rename_i a ha
    obtain ⟨root, h1, h2⟩ := isChain_of_chainFrom _ _ _ h
    exact ⟨root, h1, h2.trans ha.symm⟩

example : Reachable .unchecked 0 s3 ∧ s3.chain = some [2, 1, 0] ∧ s3.fiber = some 2 :=
  ⟨s3_reachable, by decide, rfl⟩

/-- The restriction "`load` of a non-root fiber" in `Reachable` is needed: `load_fiber` itself would accept
the root fiber (it has no caller and has not finished) and tie the chain into a cycle. The Rust VM never
hands the root fiber to a script (`execute` creates it; no native returns the current fiber). -/
theorem chain_needs_root_not_callable :
    ∃ vm', load .unchecked false (pushVals s3 [.fiber 0]) 0 none = .ok vm' ∧ vm'.chain = none :=
  ⟨_, rfl, by decide⟩

/-- After a runtime error (`runtime_error` → `reset_stack`) only the failing fiber is cleared; the caller
links of the suspended chain stay. A later `execute` starts a new chain, and the old fibers keep
`caller ≠ none` although they are on no chain: they can never be called again. -/
theorem stale_callers_after_abort :
    let vm := okVm (execute .unchecked (abort s3) 400 true).1
    vm.chain = some [3] ∧
    (∃ fb, vm.fibers[1]? = some fb ∧ fb.caller = some 0 ∧ 0 < fb.st.frames) ∧
    load .unchecked false (pushVals vm [.fiber 1]) 1 none = .error .alreadyCalled (pushVals vm [.fiber 1]) := by
  refine ⟨by decide, ⟨_, rfl, rfl, by decide⟩, rfl⟩

/-! ### 2. `reject_untouched` -/

/-- Calling a finished fiber, or a fiber that is on the chain (in particular the running fiber itself:
"already running"), returns the corresponding error and leaves the WHOLE state unchanged. -/
theorem reject_untouched (b : Build) (root : Nat) (vm : Vm) (h : Reachable b root vm)
    (rep : Bool) (f : Nat) (arg : Option Val) :
    (∀ fb, vm.fibers[f]? = some fb → fb.st.frames = 0 →
        load b rep vm f arg = .error .finished vm) ∧
    (∀ ch, vm.chain = some ch → f ∈ ch → f ≠ root →
        load b rep vm f arg = .error .alreadyCalled vm) ∧
    (vm.fiber = some f → f ≠ root → load b rep vm f arg = .error .alreadyCalled vm) ∧
    (∀ e vm', load b rep vm f arg = .error e vm' → vm' = vm) := by
  obtain ⟨ch, hg⟩ := reachable_good h
  have key : ∀ ch', vm.chain = some ch' → f ∈ ch' → f ≠ root →
      load b rep vm f arg = .error .alreadyCalled vm := by
    intro ch' hch hm hne
    rw [hg.chain_eq] at hch; cases hch
    obtain ⟨fb, hfb, hpos⟩ := hg.alive f hm
    have hc : fb.caller.isSome = true := (hg.callers f fb hfb).mpr ⟨hm, hne⟩
    have hnf : fb.hasFinished = false := by
      simp only [Fiber.hasFinished, beq_eq_false_iff_ne]; omega
    simp [load, hfb, hnf, hc]
  refine ⟨?_, key, ?_, fun e vm' he => load_error_same he⟩
  · intro fb hfb hfr
    simp [load, hfb, Fiber.hasFinished, hfr]
  · intro hf hne
    refine key ch hg.chain_eq ?_ hne
    have := hg.fiber; rw [hf] at this
    exact List.mem_of_mem_head? this.symm

#print axioms reject_untouched

example : load .unchecked false s3 2 none = .error .alreadyCalled s3 ∧   -- the running fiber
    load .unchecked false s3 1 none = .error .alreadyCalled s3 ∧          -- its caller
    load .checked true s6 2 none = .error .finished s6 :=                 -- a finished fiber
  ⟨rfl, rfl, rfl⟩

/-- Yielding from the root: the error is reported, but `unload_fiber` has ALREADY popped the argument (if
one was given) and stored the instruction pointer in the root's frame when it discovers that there is no
caller. So the state is untouched only up to the root's saved ip when no argument is given … -/
theorem reject_yield_root_partial (b : Build) (root : Nat) (vm : Vm) (h : Reachable b root vm)
    (hroot : vm.fiber = some root) (arg : Option Val) :
    ∃ cur, vm.fibers[root]? = some cur ∧
      (arg.isSome = true → cur.st.stack = [] → unload b vm arg = .fault .emptyStack) ∧
      ((arg.isSome = true → cur.st.stack ≠ []) →
        unload b vm arg = .error .yieldFromRoot
          { vm with fibers := vm.fibers.set root (leftFiber cur arg.isSome true vm.pc) }) ∧
      (arg = none → cur.savedIp = vm.pc → unload b vm arg = .error .yieldFromRoot vm) := by
  obtain ⟨a, rest, hg⟩ := reachable_chain h
  have ha : a = root := by
    have := hg.fiber; rw [hroot] at this; simpa using this.symm
  subst ha
  obtain ⟨cur, hcur, hpos⟩ := hg.alive a List.mem_cons_self
  have hact := hg.toChain.active b
  have hnf : cur.hasFinished = false := by
    simp only [Fiber.hasFinished, beq_eq_false_iff_ne]; omega
  have hcaller : cur.caller = none := by
    cases hc : cur.caller with
    | none => rfl
    | some c =>
      have := (hg.callers a cur hcur).mp (by simp [hc])
      exact absurd rfl this.2
  have main : (arg.isSome = true → cur.st.stack ≠ []) →
      unload b vm arg = .error .yieldFromRoot
        { vm with fibers := vm.fibers.set a (leftFiber cur arg.isSome true vm.pc) } := by
    intro hs
    have hl : leave cur arg.isSome (!cur.hasFinished) vm.pc = .ok (leftFiber cur arg.isSome true vm.pc) := by
      rw [hnf]; exact leave_of hs (fun _ => by omega)
    simp only [unload, hact, hcur, hl, leftFiber_caller, hcaller]
  refine ⟨cur, hcur, ?_, ?_, ?_⟩
  · intro h1 h2
    simp [unload, hact, hcur, leave, h1, h2]
  · exact main
  · rintro rfl hip
    rw [main (by simp)]
    have : leftFiber cur false true vm.pc = cur := by
      cases cur; simp only [leftFiber] at hip ⊢; simp_all
    have hset : vm.fibers.set a cur = vm.fibers := by
      apply List.ext_getElem? ; intro i
      rw [get_set1 (lt_of_get hcur)]
      split
      · subst_vars; exact hcur.symm
      · rfl
    simp [this, hset]

#print axioms reject_yield_root_partial

/-- … and it is NOT untouched when an argument is given: `Fiber.yield(7)` at module level reports the
error but has consumed the argument. -/
theorem reject_yield_root_touched :
    ∃ vm', unload .unchecked (pushVals s0 [.fiberClass, .num 7]) (some (.num 7)) = .error .yieldFromRoot vm' ∧
      vm' ≠ pushVals s0 [.fiberClass, .num 7] ∧ vm' = pushVals s0 [.fiberClass] :=
  ⟨_, rfl, by decide, by decide⟩

example : unload .unchecked (pushVals s0 [.fiberClass]) none = .error .yieldFromRoot (pushVals s0 [.fiberClass]) :=
  rfl

/-! ### 3. `handover` -/

/-- First call of a fiber: the callee starts with its closure in slot 0 and the parameter (if any) above
it, at the first instruction; the caller has been recorded. -/
theorem handover_first_call (b : Build) (root : Nat) (vm vm' : Vm) (h : Reachable b root vm)
    (rep : Bool) (f : Nat) (arg : Option Val) (tgt : Fiber) (hne : f ≠ root)
    (htgt : vm.fibers[f]? = some tgt) (hnew : tgt.isNew = true)
    (hl : load b rep vm f arg = .ok vm') :
    ∃ t', vm'.fibers[f]? = some t' ∧
      t'.st.stack = tgt.st.stack ++ [Val.closure tgt.closure] ++ arg.toList ∧
      t'.caller = vm.fiber ∧ vm'.fiber = some f ∧ vm'.pc = 0 := by
  obtain ⟨a, rest, hg⟩ := reachable_chain h
  obtain ⟨tgt', cur, s, htgt', _, _, hs, look, hf, _, hpc, _, _⟩ := load_effect hg.toChain hne hl
  rw [htgt] at htgt'; cases htgt'
  simp only [handOver, hnew, if_true, Option.some.injEq] at hs
  subst hs
  refine ⟨_, (look f).trans (if_pos rfl), rfl, ?_, hf, ?_⟩
  · exact hg.toChain.dual.1.symm
  · simp only [Fiber.isNew, Bool.and_eq_true, beq_iff_eq] at hnew
    rw [hpc, hnew.2]

#print axioms handover_first_call

/-- Resuming a suspended fiber, REPAIRED variant (`poke(0, arg.unwrap_or_default())`): the slot that holds
the value of the pending `yield` expression (the top slot `x`) becomes the argument, or nil when there is
none; the fiber continues at its saved ip. -/
theorem handover_resume_repaired (b : Build) (root : Nat) (vm vm' : Vm) (h : Reachable b root vm)
    (f : Nat) (arg : Option Val) (tgt : Fiber) (below : List Val) (x : Val) (hne : f ≠ root)
    (htgt : vm.fibers[f]? = some tgt) (hold : tgt.isNew = false) (hstack : tgt.st.stack = below ++ [x])
    (hl : load b true vm f arg = .ok vm') :
    ∃ t', vm'.fibers[f]? = some t' ∧ t'.st.stack = below ++ [arg.getD .nil] ∧
      vm'.fiber = some f ∧ vm'.pc = tgt.savedIp := by
  obtain ⟨a, rest, hg⟩ := reachable_chain h
  obtain ⟨tgt', cur, s, htgt', _, _, hs, look, hf, _, hpc, _, _⟩ := load_effect hg.toChain hne hl
  rw [htgt] at htgt'; cases htgt'
  have : s = below ++ [arg.getD .nil] := by
    cases arg <;>
      simp only [handOver, hold, Bool.false_eq_true, if_false, if_true, hstack, pokeTop_snoc,
        Option.some.injEq] at hs <;> simp [← hs]
  subst this
  exact ⟨_, (look f).trans (if_pos rfl), rfl, hf, hpc⟩

#print axioms handover_resume_repaired

/-- Resuming, code AS IT IS: with an argument as above; WITHOUT an argument the slot is left alone, so the
pending `yield` expression evaluates to whatever the slot held (`x`) – in practice the receiver of the
`Fiber.yield` call, i.e. the `Fiber` class (ledger F16). -/
theorem handover_resume_present (b : Build) (root : Nat) (vm vm' : Vm) (h : Reachable b root vm)
    (f : Nat) (arg : Option Val) (tgt : Fiber) (below : List Val) (x : Val) (hne : f ≠ root)
    (htgt : vm.fibers[f]? = some tgt) (hold : tgt.isNew = false) (hstack : tgt.st.stack = below ++ [x])
    (hl : load b false vm f arg = .ok vm') :
    ∃ t', vm'.fibers[f]? = some t' ∧ t'.st.stack = below ++ [arg.getD x] ∧
      vm'.fiber = some f ∧ vm'.pc = tgt.savedIp := by
  obtain ⟨a, rest, hg⟩ := reachable_chain h
  obtain ⟨tgt', cur, s, htgt', _, _, hs, look, hf, _, hpc, _, _⟩ := load_effect hg.toChain hne hl
  rw [htgt] at htgt'; cases htgt'
  have : s = below ++ [arg.getD x] := by
    cases arg <;>
      simp only [handOver, hold, Bool.false_eq_true, if_false, hstack, pokeTop_snoc,
        Option.some.injEq] at hs <;> simp [← hs]
  subst this
  exact ⟨_, (look f).trans (if_pos rfl), rfl, hf, hpc⟩

#print axioms handover_resume_present

/-- The witness for F16 (`s4` → `s5` / `s5r`): f2 is suspended in `Fiber.yield(7)`; f1 resumes it with
`f2.call()`. As the code is, the yield expression evaluates to the `Fiber` class; repaired, to nil. -/
theorem handover_resume_present_is_stale :
    (∃ fb, s5.fibers[2]? = some fb ∧ fb.st.stack.getLast? = some Val.fiberClass) ∧
    (∃ fb, s5r.fibers[2]? = some fb ∧ fb.st.stack.getLast? = some Val.nil) :=
  ⟨⟨_, rfl, by decide⟩, ⟨_, rfl, by decide⟩⟩

/-- `Fiber.yield(arg)`: control returns to the caller `c` of the running fiber, whose pending `call`
expression (its top slot) becomes the yield argument, or nil; `c` continues at its saved ip. -/
theorem handover_yield (b : Build) (root : Nat) (vm vm' : Vm) (h : Reachable b root vm)
    (arg : Option Val) (hu : unload b vm arg = .ok vm') :
    ∃ a cur c cf cf', vm.fiber = some a ∧ vm.fibers[a]? = some cur ∧ cur.caller = some c ∧
      vm.fibers[c]? = some cf ∧ vm'.fibers[c]? = some cf' ∧
      cf'.st.stack = cf.st.stack.dropLast ++ [arg.getD .nil] ∧ cf.st.stack ≠ [] ∧
      vm'.fiber = some c ∧ vm'.pc = cf.savedIp := by
  obtain ⟨a, rest, hg⟩ := reachable_chain h
  obtain ⟨cur, c, t, cf, _, hcur, hcc, _, hcf, hne, look, hf, _, hpc, _, _⟩ := unload_effect hg.toChain hu
  exact ⟨a, cur, c, cf, _, hg.toChain.dual.1, hcur, hcc, hcf, (look c).trans (if_pos rfl), rfl, hne, hf, hpc⟩

#print axioms handover_yield

/-- `return v` from the last frame of a called fiber: the caller's pending `call` expression becomes `v`
(the value on top of the finishing fiber's stack); the fiber is finished and has no caller any more. -/
theorem handover_finish (b : Build) (root : Nat) (vm vm' : Vm) (h : Reachable b root vm)
    (hf : finish b vm = .ok vm') :
    ∃ a cur v c cf cf' cur', vm.fiber = some a ∧ vm.fibers[a]? = some cur ∧ cur.st.stack.getLast? = some v ∧
      cur.caller = some c ∧ vm.fibers[c]? = some cf ∧ vm'.fibers[c]? = some cf' ∧
      cf'.st.stack = cf.st.stack.dropLast ++ [v] ∧
      vm'.fibers[a]? = some cur' ∧ cur'.hasFinished = true ∧ cur'.caller = none ∧
      vm'.fiber = some c ∧ vm'.pc = cf.savedIp := by
  obtain ⟨a, rest, hg⟩ := reachable_chain h
  obtain ⟨cur, v, c, t, cf, _, hcur, _, hres, hcc, hca, hcf, _, look, hfb, _, hpc, _, _⟩ :=
    finish_effect hg.toChain hf
  refine ⟨a, cur, v, c, cf, _, _, hg.toChain.dual.1, hcur, hres, hcc, hcf, (look c).trans (if_pos rfl), rfl,
    (look a).trans ((if_neg (Ne.symm hca)).trans (if_pos rfl)), ?_, rfl, hfb, hpc⟩
  simp [popLastFrame, Fiber.hasFinished]

#print axioms handover_finish

/-- non-vacuity of the four: the run `s1 … s6`. -/
example :
    (∃ fb, s2.fibers[1]? = some fb ∧ fb.st.stack = [.closure 200, .num 5]) ∧          -- first call, parameter 5
    (∃ fb, s4.fibers[1]? = some fb ∧ fb.st.stack.getLast? = some (.num 7)) ∧           -- yield(7) → call = 7
    (∃ fb, s6.fibers[1]? = some fb ∧ fb.st.stack.getLast? = some (.num 42)) ∧          -- return 42 → call = 42
    (∃ fb, s6.fibers[2]? = some fb ∧ fb.hasFinished = true ∧ fb.caller = none) := by
  refine ⟨⟨_, rfl, by decide⟩, ⟨_, rfl, by decide⟩, ⟨_, rfl, by decide⟩, ⟨_, rfl, by decide, by decide⟩⟩

/-! ### 4. `isolation` -/

/-- A switch by `load` changes: the two designators and `ip`; in the fiber that was running, its saved ip
and the popped argument; in the target, its `caller` link and the hand-over on its stack. NOTHING else:
every other fiber is identical, and in the two fibers involved (`leftFiber`, see the model: stack minus the
popped argument, saved ip := ip) the frame count, the handler stack, the
pending return data, the error ip and the closure are unchanged; `handling_exception` is unchanged; no fiber
is created or dropped. -/
theorem isolation_load (b : Build) (root : Nat) (vm vm' : Vm) (h : Reachable b root vm)
    (rep : Bool) (f : Nat) (arg : Option Val) (hne : f ≠ root) (hl : load b rep vm f arg = .ok vm') :
    ∃ a cur tgt s, vm.fiber = some a ∧ vm.fibers[a]? = some cur ∧ vm.fibers[f]? = some tgt ∧ f ≠ a ∧
      (∀ g, g ≠ a → g ≠ f → vm'.fibers[g]? = vm.fibers[g]?) ∧
      vm'.fibers[a]? = some (leftFiber cur arg.isSome true vm.pc) ∧
      vm'.fibers[f]? = some { tgt with caller := some a, st := { tgt.st with stack := s } } ∧
      handOver rep tgt arg = some s ∧
      vm'.handling = vm.handling ∧ vm'.fibers.length = vm.fibers.length := by
  obtain ⟨a, rest, hg⟩ := reachable_chain h
  obtain ⟨tgt, cur, s, htgt, hcur, hfa, hs, look, _, _, _, hh, hlen⟩ := load_effect hg.toChain hne hl
  refine ⟨a, cur, tgt, s, hg.toChain.dual.1, hcur, htgt, hfa, ?_, ?_, ?_, hs, hh, hlen⟩
  · intro g h1 h2; rw [look]; simp [h1, h2]
  · rw [look]; simp [Ne.symm hfa]
  · rw [look]; simp

#print axioms isolation_load

/-- A switch by `unload` (yield) changes: the designators and `ip`; in the yielding fiber its saved ip,
the popped argument and its `caller` link (cleared); in the caller the single hand-over slot. Nothing else. -/
theorem isolation_unload (b : Build) (root : Nat) (vm vm' : Vm) (h : Reachable b root vm)
    (arg : Option Val) (hu : unload b vm arg = .ok vm') :
    ∃ a cur c cf, vm.fiber = some a ∧ vm.fibers[a]? = some cur ∧ cur.caller = some c ∧
      vm.fibers[c]? = some cf ∧ c ≠ a ∧
      (∀ g, g ≠ a → g ≠ c → vm'.fibers[g]? = vm.fibers[g]?) ∧
      vm'.fibers[a]? = some { leftFiber cur arg.isSome true vm.pc with caller := none } ∧
      vm'.fibers[c]? = some { cf with st := { cf.st with stack := cf.st.stack.dropLast ++ [arg.getD .nil] } } ∧
      vm'.handling = vm.handling ∧ vm'.fibers.length = vm.fibers.length := by
  obtain ⟨a, rest, hg⟩ := reachable_chain h
  obtain ⟨cur, c, t, cf, _, hcur, hcc, hca, hcf, _, look, _, _, _, hh, hlen⟩ := unload_effect hg.toChain hu
  obtain ⟨fb, hfb, hpos⟩ := hg.alive a List.mem_cons_self
  rw [hcur] at hfb; cases hfb
  have hnf : cur.hasFinished = false := by
    simp only [Fiber.hasFinished, beq_eq_false_iff_ne]; omega
  refine ⟨a, cur, c, cf, hg.toChain.dual.1, hcur, hcc, hcf, hca, ?_, ?_, ?_, hh, hlen⟩
  · intro g h1 h2; rw [look]; simp [h1, h2]
  · rw [look]; simp [Ne.symm hca, hnf]
  · rw [look]; simp

#print axioms isolation_unload

/-- A switch by `finish` changes: the designators and `ip`; in the finishing fiber the popped result, the
popped frame and its `caller` link (cleared); in the caller the single hand-over slot. Nothing else. -/
theorem isolation_finish (b : Build) (root : Nat) (vm vm' : Vm) (h : Reachable b root vm)
    (hf : finish b vm = .ok vm') :
    ∃ a cur c cf v, vm.fiber = some a ∧ vm.fibers[a]? = some cur ∧ cur.caller = some c ∧
      vm.fibers[c]? = some cf ∧ c ≠ a ∧ cur.st.stack.getLast? = some v ∧
      (∀ g, g ≠ a → g ≠ c → vm'.fibers[g]? = vm.fibers[g]?) ∧
      vm'.fibers[a]? = some { popLastFrame cur with caller := none } ∧
      vm'.fibers[c]? = some { cf with st := { cf.st with stack := cf.st.stack.dropLast ++ [v] } } ∧
      vm'.handling = vm.handling ∧ vm'.fibers.length = vm.fibers.length := by
  obtain ⟨a, rest, hg⟩ := reachable_chain h
  obtain ⟨cur, v, c, t, cf, _, hcur, _, hres, hcc, hca, hcf, _, look, _, _, _, hh, hlen⟩ :=
    finish_effect hg.toChain hf
  refine ⟨a, cur, c, cf, v, hg.toChain.dual.1, hcur, hcc, hcf, hca, hres, ?_, ?_, ?_, hh, hlen⟩
  · intro g h1 h2; rw [look]; simp [h1, h2]
  · rw [look]; simp [Ne.symm hca]
  · rw [look]; simp

#print axioms isolation_finish

/-- non-vacuity: in `s2 → s3` (f1 calls f2) the root fiber, which is suspended with a pending call, is
bit-for-bit the same, and so are f1's frames/handlers. -/
example : s3.fibers[0]? = s2.fibers[0]? ∧ s3.handling = s2.handling := ⟨by decide, rfl⟩

/-! ### 5. `active_fiber_dual` -/

/-- In every reachable state – i.e. after every operation – `Vm::fiber` and `Vm::unsafe_fiber` designate
the same fiber, and there is one. Consequently the checked and the unchecked build compute the same
result for every switch operation. -/
theorem active_fiber_dual (b : Build) (root : Nat) (vm : Vm) (h : Reachable b root vm) :
    vm.fiber = vm.unsafeFiber ∧ vm.fiber.isSome = true ∧
    (∀ b', vm.active b' = vm.fiber) ∧
    (∀ rep f arg, load .checked rep vm f arg = load .unchecked rep vm f arg) ∧
    (∀ arg, unload .checked vm arg = unload .unchecked vm arg) ∧
    finish .checked vm = finish .unchecked vm := by
  obtain ⟨a, rest, hg⟩ := reachable_chain h
  obtain ⟨h1, h2⟩ := hg.toChain.dual
  have e : vm.fiber = vm.unsafeFiber := h1.trans h2.symm
  refine ⟨e, by simp [h1], ?_, fun rep f arg => load_build_irrelevant e rep f arg,
    fun arg => unload_build_irrelevant e arg, ?_⟩
  · intro b'; cases b' <;> simp [Vm.active, e]
  · exact finish_build_irrelevant hg.toChain

#print axioms active_fiber_dual

example : s3.fiber = s3.unsafeFiber ∧ s3.fiber = some 2 := ⟨rfl, rfl⟩

/-- `execute` re-establishes agreement from ANY state when it succeeds (both designators are assigned in
`load_fiber`) … -/
theorem execute_dual (b : Build) (vm0 vm : Vm) (closure root : Nat)
    (h : execute b vm0 closure true = (.ok vm, root)) :
    vm.fiber = some root ∧ vm.unsafeFiber = some root := by
  simp only [execute, Bool.not_true, Bool.false_eq_true, if_false, Prod.mk.injEq] at h
  obtain ⟨h, rfl⟩ := h
  unfold load at h
  split at h
  · cases h
  · split at h
    · cases h
    · split at h
      · cases h
      · simp only [leaveCurrent, newFiber, Option.isSome_none, Bool.false_eq_true, if_false] at h
        unfold switchTo at h
        split at h
        · cases h
        · split at h
          · cases h
          · cases h; exact ⟨rfl, rfl⟩

#print axioms execute_dual

/-- … but `execute` clears `fiber` WITHOUT clearing `unsafe_fiber`; when it then returns early (wrong number
of arguments), the two disagree: `fiber = None`, `unsafe_fiber` = the previous run's fiber (whose root has
been dropped). So "after every operation" holds for the operations of a run, not for a failed `execute`. -/
theorem active_fiber_dual_fails_after_failed_execute :
    ∃ vm', (execute .unchecked s6 500 false).1 = .error .arity vm' ∧
      vm'.fiber = none ∧ vm'.unsafeFiber = some 1 :=
  ⟨_, rfl, rfl, rfl⟩

#print axioms chain_sound
#print axioms chain_needs_root_not_callable
#print axioms stale_callers_after_abort
#print axioms reject_yield_root_touched
#print axioms handover_resume_present_is_stale
#print axioms active_fiber_dual_fails_after_failed_execute

end Yarel.Fibers
