/-
Who touches the string intern table, and how (C11).

`intern_id_iff_bytes` (Props/C11.lean) is a theorem about a table that only ever grows: strings are looked up and inserted, never
removed, and the only code that does either is `Vm::new_gc_obj_string` (look up; insert on a miss).  A table from which entries can be
taken out again (an open-addressing table without tombstones: a vacated slot cuts every probe chain that ran over it), a second
insertion path, or a lookup that can give up early is outside that theorem.  `Gen.internUses` is the list of every method call on the
table and `Gen.internMethods` the list of its methods, both regenerated from vm.rs on every run (verif_hooks items stripped).
-/
import Yarel.Gen.CfgSites
namespace Yarel.InternSites
open Yarel

/-- The intern table is used in exactly one place: `new_gc_obj_string` looks a string up and inserts it on a miss. -/
theorem intern_table_is_only_looked_up_and_inserted_into :
    Gen.internUses = [("vm.rs", "Vm::new_gc_obj_string", "get"), ("vm.rs", "Vm::new_gc_obj_string", "insert")] := by rfl

/-- … and it has no operation that takes an entry out, or any other beyond the four the model transcribes. -/
theorem intern_table_methods_are_the_modelled_ones :
    Gen.internMethods = ["string_store::ObjStringStore::new", "string_store::ObjStringStore::get",
      "string_store::ObjStringStore::insert", "string_store::ObjStringStore::adjust_capacity"] := by rfl

#print axioms intern_table_is_only_looked_up_and_inserted_into
#print axioms intern_table_methods_are_the_modelled_ones

end Yarel.InternSites
