/-
Who touches the string intern table, and how (C11).

`intern_id_iff_bytes` (Props/C11.lean) is a theorem about a table that only ever grows: strings are looked up and inserted, never
removed, and the only code that does either is `Vm::new_gc_obj_string` (look up; insert on a miss).  A table from which entries can be
taken out again (an open-addressing table without tombstones: a vacated slot cuts every probe chain that ran over it), a second
insertion path, or a lookup that can give up early is outside that theorem.  `Gen.internUses` is the list of every method call on the
table and `Gen.internMethods` the list of its methods, both regenerated from vm.rs on every run (verif_hooks items stripped).
-/
import Yarel.Gen.CfgSites
namespace Yarel.InternSites
open Yarel

/-- The intern table is used in exactly one place: `new_gc_obj_string` looks a string up and inserts it on a miss. -/
theorem intern_table_is_only_looked_up_and_inserted_into :
    Gen.internUses = [("vm.rs", "Vm::new_gc_obj_string", "get"), ("vm.rs", "Vm::new_gc_obj_string", "insert")] := by rfl

/-- … and it has no operation that takes an entry out, or any other beyond the four the model transcribes. -/
theorem intern_table_methods_are_the_modelled_ones :
    Gen.internMethods = ["string_store::ObjStringStore::new", "string_store::ObjStringStore::get",
      "string_store::ObjStringStore::insert", "string_store::ObjStringStore::adjust_capacity"] := by rfl

/-- The glue between the table and the rest of the interpreter, statement by statement as written on this run: hash the bytes (FNV, tied by
`fnv_write_tie`), look `(hash, bytes)` up, on a hit return the entry that is there, on a miss build the string object WITH THAT HASH and
insert it, return it.  There is no other path: no length or size test, no second place where a string is kept.  (The hook
`verif::StringStore::intern` that the table correspondence drives is these statements with the hash supplied by the caller.) -/
theorem string_creation_is_lookup_then_insert :
    Gen.internGlue =
    [ "fn new_gc_obj_string (& mut self , data : & str) -> Gc < ObjString >"
    , "let hash = { let mut hasher = FnvHasher :: new () ; (* data) . hash (& mut hasher) ; hasher . finish () } ;"
    , "let key = (hash , data) ;"
    , "if let Some (string) = self . string_store . get (key) { return string . as_gc () ; }"
    , "let string = Root :: new (ObjString :: new (self . string_class . as_ref () . expect (\"Expected Root.\") . as_gc () , data , hash ,)) ;"
    , "let ret = string . as_gc () ;"
    , "self . string_store . insert (string) ;"
    , "ret"
    ] := by rfl

/-- … and string objects are built nowhere else. -/
theorem string_objects_are_built_only_there : Gen.objStringCtors = [("vm.rs", "Vm::new_gc_obj_string")] := by rfl

#print axioms string_creation_is_lookup_then_insert
#print axioms string_objects_are_built_only_there

#print axioms intern_table_is_only_looked_up_and_inserted_into
#print axioms intern_table_methods_are_the_modelled_ones

end Yarel.InternSites
