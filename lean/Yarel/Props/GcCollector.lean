/-
Headline properties of the yarel mark/sweep collector model (`Yarel/Model/Gc.lean`).

Vocabulary (`Yarel/Proofs/GcSpec.lean`):
  `Rooted h i`      box `i` exists and has `num_roots > 0`
  `Reach h i`       reachable from rooted boxes along ALL pointers
  `ReachTraced h i` `blacken()` can possibly be invoked on `i` (`CallReach h .blacken i`): roots are marked, marked
                    boxes get blackened by a pass, `<op>` on a box invokes `e.sel op` on the target of pointer `e`
  `Covered h`       every pointer has `inBlacken = some _` or points at a rooted box
  `MarkCovered h`   every pointer has `inMark = some .mark` or points at a rooted box
  `Closed h`        every pointer points into the heap
  `WellFormed h`    no pointer has `inBlacken = some .mark` or `inMark = some .blacken`
`collect fuel h = some r` ⇔ `collectE fuel h = .ok r`; `collectE` distinguishes `outOfFuel` from `dangling`.
-/
import Yarel.Proofs.GcSafety
import Yarel.Proofs.GcFuel
import Yarel.Proofs.GcWitness
import Yarel.Proofs.GcSchema
import Yarel.Proofs.GcClosed
import Yarel.Proofs.GcMark

namespace Yarel.Gc

/-! ## example heaps -/

/-- properly traced pointer -/
def Edge.good (t : Nat) : Edge := ⟨t, some .mark, some .blacken⟩
/-- the F22 shape: `ObjBoundMethod::blacken` calls `self.receiver.mark()` -/
def Edge.f22 (t : Nat) : Edge := ⟨t, some .mark, some .mark⟩
/-- pointer neither body looks at (e.g. `ObjStringIter.class`) -/
def Edge.untraced (t : Nat) : Edge := ⟨t, none, none⟩

/-- 8 boxes: `0` rooted → `1`,`2`; `1 ⇄ 2` is a live cycle; `2 → 3`; `3` has an untraced pointer to the rooted `7`;
`4 ⇄ 5` is a dead cycle that points INTO the live part; `6` is a dead leaf. -/
def exHeap : Heap := #[
  ⟨1, 1, 40, .white, [.good 1, .good 2]⟩,
  ⟨2, 0, 24, .black, [.good 2]⟩,
  ⟨2, 0, 24, .grey, [.good 1, .good 3]⟩,
  ⟨3, 0, 16, .white, [.untraced 7]⟩,
  ⟨2, 0, 24, .white, [.good 5, .good 1]⟩,
  ⟨2, 0, 24, .black, [.good 4]⟩,
  ⟨0, 0, 8, .white, []⟩,
  ⟨4, 2, 64, .white, []⟩]

theorem exHeap_collect : collect (fuelBound exHeap) exHeap =
    some { retained := [0, 1, 2, 3, 7], bytesFreed := 56,
           colours := #[.black, .black, .black, .black, .white, .white, .white, .black] } := by decide

theorem exHeap_covered : Covered exHeap := coveredB_iff.mp (by decide)
theorem exHeap_closed : Closed exHeap := closedB_iff.mp (by decide)
theorem exHeap_wellFormed : WellFormed exHeap := wellFormedB_iff.mp (by decide)

/-- same graph, pointers in other order, one pointer duplicated -/
def exHeap' : Heap := #[
  ⟨1, 1, 40, .white, [.good 2, .good 1, .good 2]⟩,
  ⟨2, 0, 24, .white, [.good 2]⟩,
  ⟨2, 0, 24, .white, [.good 3, .good 1]⟩,
  ⟨3, 0, 16, .white, [.untraced 7]⟩,
  ⟨2, 0, 24, .white, [.good 1, .good 5]⟩,
  ⟨2, 0, 24, .white, [.good 4]⟩,
  ⟨0, 0, 8, .white, []⟩,
  ⟨4, 2, 64, .white, []⟩]

/-- an UNcovered heap: rooted `0` → `1` is traced only by `blacken()`, `1 → 2` only by `mark()` -/
def exUncovered : Heap := #[
  ⟨0, 1, 8, .white, [⟨1, none, some .blacken⟩]⟩,
  ⟨0, 0, 8, .white, [⟨2, some .mark, none⟩]⟩,
  ⟨0, 0, 8, .white, []⟩]

/-! ## 1. safety -/

/-- Nothing reachable is freed, provided every pointer is traced by `blacken()` or points at a rooted box.
(Boxes are not modified by a collection: the result only lists indices into the unchanged `h`.) -/
theorem collect_safe {fuel : Nat} {h : Heap} {r : CollectResult} (hr : collect fuel h = some r)
    (hcov : Covered h) : ∀ i, Reach h i → i ∈ r.retained := by
  obtain ⟨cols, rfl, hinv, hg⟩ := collectE_inv (collect_eq_some.mp hr)
  intro i hreach
  exact (mem_retained hinv.size).mpr (black_of_reach hinv hg hcov i hreach)
#print axioms collect_safe

example : ∀ i, Reach exHeap i → i ∈ [0, 1, 2, 3, 7] := collect_safe exHeap_collect exHeap_covered

/-- the coverage hypothesis cannot be dropped (tracing a pointer in `mark()` only is not enough): box 2 is
reachable but freed, because box 1 is first reached by `blacken()`, whose body ignores the pointer to 2 -/
theorem collect_unsafe_without_coverage :
    Reach exUncovered 2 ∧ collect 10 exUncovered =
      some { retained := [0, 1], bytesFreed := 8, colours := #[.black, .black, .white] } := by
  refine ⟨?_, by decide⟩
  have h0 : Reach exUncovered 0 := Reach.root ⟨⟨0, 1, 8, .white, [⟨1, none, some .blacken⟩]⟩, rfl, by decide⟩
  have h1 : Reach exUncovered 1 := Reach.edge (e := ⟨1, none, some .blacken⟩) h0 rfl (List.mem_singleton.mpr rfl)
  exact Reach.edge (e := ⟨2, some .mark, none⟩) h1 rfl (List.mem_singleton.mpr rfl)
#print axioms collect_unsafe_without_coverage

/-- the survivors are an ascending duplicate-free list of valid indices -/
theorem collect_retained_sublist {fuel : Nat} {h : Heap} {r : CollectResult} (hr : collect fuel h = some r) :
    r.retained.Sublist (List.range h.size) := by
  obtain ⟨cols, rfl, _, _⟩ := collectE_inv (collect_eq_some.mp hr)
  exact List.filter_sublist
#print axioms collect_retained_sublist

/-! ## 2. completeness (unconditional) -/

/-- Nothing unreachable survives; in fact every survivor is reachable along traced pointers. -/
theorem collect_complete {fuel : Nat} {h : Heap} {r : CollectResult} (hr : collect fuel h = some r) :
    ∀ i ∈ r.retained, ReachTraced h i ∧ Reach h i := by
  obtain ⟨cols, rfl, hinv, _⟩ := collectE_inv (collect_eq_some.mp hr)
  intro i hi
  have hc : CallReach h .blacken i := hinv.sound i .blacken ((mem_retained hinv.size).mp hi)
  exact ⟨hc, hc.reach⟩
#print axioms collect_complete

example : ∀ i ∈ [0, 1, 2, 3, 7], ReachTraced exHeap i ∧ Reach exHeap i := collect_complete exHeap_collect

/-! ## 3. exactness, order independence -/

theorem collect_exact {fuel : Nat} {h : Heap} {r : CollectResult} (hr : collect fuel h = some r)
    (hcov : Covered h) : ∀ i, i ∈ r.retained ↔ Reach h i :=
  fun i => ⟨fun hi => (collect_complete hr i hi).2, collect_safe hr hcov i⟩
#print axioms collect_exact

example : ∀ i, i ∈ [0, 1, 2, 3, 7] ↔ Reach exHeap i := collect_exact exHeap_collect exHeap_covered

/-- The retained set depends only on the graph: if `π`/`π'` are mutually inverse renamings of the boxes that
preserve rootedness and the SET of pointers of every box (`GraphMap`; `π = id` = pointers reordered, duplicated
or traced by different ops), the survivors correspond. -/
theorem collect_order_independent {fuel fuel' : Nat} {h h' : Heap} {r r' : CollectResult} {π π' : Nat → Nat}
    (hr : collect fuel h = some r) (hr' : collect fuel' h' = some r') (hcov : Covered h) (hcov' : Covered h')
    (hfwd : GraphMap π h h') (hbwd : GraphMap π' h' h) (hinv : ∀ i, π' (π i) = i) :
    ∀ i, i ∈ r.retained ↔ π i ∈ r'.retained := by
  intro i
  rw [collect_exact hr hcov, collect_exact hr' hcov']
  exact ⟨hfwd.reach, fun hx => by have := hbwd.reach hx; rwa [hinv] at this⟩
#print axioms collect_order_independent

/-- for the same indexing the retained LISTS coincide -/
theorem collect_edge_order_independent {fuel fuel' : Nat} {h h' : Heap} {r r' : CollectResult}
    (hr : collect fuel h = some r) (hr' : collect fuel' h' = some r') (hcov : Covered h) (hcov' : Covered h')
    (hsz : h.size = h'.size) (hfwd : GraphMap id h h') (hbwd : GraphMap id h' h) :
    r.retained = r'.retained := by
  have hiff := collect_order_independent hr hr' hcov hcov' hfwd hbwd (fun _ => rfl)
  obtain ⟨cols, rfl, hinv, _⟩ := collectE_inv (collect_eq_some.mp hr)
  obtain ⟨cols', rfl, hinv', _⟩ := collectE_inv (collect_eq_some.mp hr')
  show (List.range h.size).filter _ = (List.range h'.size).filter _
  rw [hsz]
  apply List.filter_congr
  intro i _
  have := hiff i
  rw [mem_retained hinv.size, mem_retained hinv'.size] at this
  simpa using this
#print axioms collect_edge_order_independent

theorem exHeap'_collect : collect 50 exHeap' =
    some { retained := [0, 1, 2, 3, 7], bytesFreed := 56,
           colours := #[.black, .black, .black, .black, .white, .white, .white, .black] } := by decide

example : [0, 1, 2, 3, 7] = [0, 1, 2, 3, 7] :=
  collect_edge_order_independent exHeap_collect exHeap'_collect exHeap_covered (coveredB_iff.mp (by decide)) rfl
    (graphMapIdB_sound (by decide)) (graphMapIdB_sound (by decide))

/-! ## 3b. safety from `mark()`-coverage -/

/-- `exHeap` with the `blacken()` body of box 2 ignoring its pointer to 3, and box 1 tracing its pointer to 2 with
`mark` inside `blacken()` (F22 shape): not `Covered`, not `WellFormed`, but every `mark()` body marks everything -/
def exHeapMark : Heap := #[
  ⟨1, 1, 40, .white, [.good 1, .good 2]⟩,
  ⟨2, 0, 24, .white, [.f22 2]⟩,
  ⟨2, 0, 24, .white, [.good 1, ⟨3, some .mark, none⟩]⟩,
  ⟨3, 0, 16, .white, [.untraced 7]⟩,
  ⟨2, 0, 24, .white, [.good 5, .good 1]⟩,
  ⟨2, 0, 24, .white, [.good 4]⟩,
  ⟨0, 0, 8, .white, []⟩,
  ⟨4, 2, 64, .white, []⟩]

theorem exHeapMark_collect : collect 50 exHeapMark =
    some { retained := [0, 1, 2, 3, 7], bytesFreed := 56,
           colours := #[.black, .black, .black, .black, .white, .white, .white, .black] } := by decide
theorem exHeapMark_markCovered : MarkCovered exHeapMark := markCoveredB_iff.mp (by decide)
theorem exHeapMark_not_covered : ¬ Covered exHeapMark := fun hc => by
  have := coveredB_iff.mpr hc
  revert this
  decide
theorem exHeapMark_not_wellFormed : ¬ WellFormed exHeapMark := fun hc => by
  have := wellFormedB_iff.mpr hc
  revert this
  decide

/-- Nothing reachable is freed, provided every pointer is traced with `mark` by the owner's `mark()` body or
points at a rooted box — whatever the `blacken()` bodies do (no well-formedness hypothesis is needed: a box that
`mark()` reaches while BLACK is re-greyed AND its body runs again; grey boxes are always blackened by a later
pass; the proof tracks the ghost set of boxes whose `mark()` body has run, `Yarel/Proofs/GcMark.lean`). -/
theorem collect_safe_mark {fuel : Nat} {h : Heap} {r : CollectResult} (hr : collect fuel h = some r)
    (hcov : MarkCovered h) : ∀ i, Reach h i → i ∈ r.retained :=
  collectE_safe_mark (collect_eq_some.mp hr) hcov
#print axioms collect_safe_mark

example : ∀ i, Reach exHeapMark i → i ∈ [0, 1, 2, 3, 7] := collect_safe_mark exHeapMark_collect exHeapMark_markCovered

theorem collect_exact_mark {fuel : Nat} {h : Heap} {r : CollectResult} (hr : collect fuel h = some r)
    (hcov : MarkCovered h) : ∀ i, i ∈ r.retained ↔ Reach h i :=
  fun i => ⟨fun hi => (collect_complete hr i hi).2, collect_safe_mark hr hcov i⟩
#print axioms collect_exact_mark

example : ∀ i, i ∈ [0, 1, 2, 3, 7] ↔ Reach exHeapMark i := collect_exact_mark exHeapMark_collect exHeapMark_markCovered

/-- either kind of coverage suffices (no extra hypothesis on the `mark()`-coverage side) -/
theorem collect_safe_either {fuel : Nat} {h : Heap} {r : CollectResult} (hr : collect fuel h = some r)
    (hcov : Covered h ∨ MarkCovered h) : ∀ i, Reach h i → i ∈ r.retained :=
  hcov.elim (collect_safe hr) (collect_safe_mark hr)
#print axioms collect_safe_either

/-- `blacken()`-coverage fails, `mark()`-coverage holds -/
example : ¬ Covered exHeapMark ∧ ∀ i, Reach exHeapMark i → i ∈ [0, 1, 2, 3, 7] :=
  ⟨exHeapMark_not_covered, collect_safe_either exHeapMark_collect (Or.inr exHeapMark_markCovered)⟩
/-- the other disjunct -/
example : ∀ i, Reach exHeap i → i ∈ [0, 1, 2, 3, 7] := collect_safe_either exHeap_collect (Or.inl exHeap_covered)
/-- the two notions are incomparable: `exUncovered` has neither, this heap is `Covered` but not `MarkCovered` -/
example : coveredB #[⟨0, 1, 8, .white, [⟨1, none, some .blacken⟩]⟩, ⟨0, 0, 8, .white, []⟩] = true ∧
    markCoveredB #[⟨0, 1, 8, .white, [⟨1, none, some .blacken⟩]⟩, ⟨0, 0, 8, .white, []⟩] = false := by decide
example : coveredB exUncovered = false ∧ markCoveredB exUncovered = false := by decide

/-! ## 4. termination -/

/-- With well-formed trace ops a collection of a closed heap returns, for every fuel ≥ `fuelBound h`
(`= h.size + Σ edges + 2`: no single top-level call takes more steps, and the loop makes ≤ 2 passes). -/
theorem collect_terminates {h : Heap} (hwf : WellFormed h) (hcl : Closed h) {fuel : Nat}
    (hf : fuelBound h ≤ fuel) : ∃ r, collect fuel h = some r ∧ collectE fuel h = .ok r := by
  obtain ⟨r, hr⟩ := collectE_terminates hwf hcl hf
  exact ⟨r, collect_eq_some.mpr hr, hr⟩
#print axioms collect_terminates

example : ∃ r, collect (fuelBound exHeap) exHeap = some r ∧ collectE (fuelBound exHeap) exHeap = .ok r :=
  collect_terminates exHeap_wellFormed exHeap_closed (Nat.le_refl _)

/-- on a closed heap `none` means exactly "out of fuel" (no dangling pointer is ever followed) -/
theorem collect_none_iff {h : Heap} (hcl : Closed h) (fuel : Nat) :
    collect fuel h = none ↔ collectE fuel h = .error .outOfFuel := by
  have := collectE_no_dangling hcl fuel
  unfold collect
  cases hc : collectE fuel h with
  | ok r => simp
  | error e =>
    cases e with
    | outOfFuel => simp
    | dangling => exact absurd hc this
#print axioms collect_none_iff

/-- fuel is only a budget: more of it never changes a result -/
theorem collect_fuel_mono {h : Heap} {f f' : Nat} {r : CollectResult} (hle : f ≤ f')
    (hr : collect f h = some r) : collect f' h = some r :=
  collect_eq_some.mpr (collectE_ok_mono hle (collect_eq_some.mp hr))
#print axioms collect_fuel_mono

/-- the initial colours are irrelevant (`mark_roots` unmarks first): the model never reads `Obj.colour` -/
theorem collect_ignores_colour (fuel : Nat) (h : Heap) (f : Obj → Colour) :
    collect fuel (h.map fun o => { o with colour := f o }) = collect fuel h := by
  have hget : ∀ i : Nat, (h.map fun o => { o with colour := f o })[i]? =
      (h[i]?).map fun o => { o with colour := f o } := fun i => Array.getElem?_map
  have hrun : ∀ fuel cols st, runCalls (h.map fun o => { o with colour := f o }) fuel cols st =
      runCalls h fuel cols st := by
    intro fuel
    induction fuel with
    | zero => intro cols st; cases st <;> rfl
    | succ k ih =>
      intro cols st
      cases st with
      | nil => rfl
      | cons c rest =>
        obtain ⟨op, i⟩ := c
        simp only [runCalls, hget]
        cases h[i]? with
        | none => rfl
        | some o =>
          cases cols[i]? with
          | none => rfl
          | some c => simp only [Option.map_some, ih]; rfl
  have hroot : ∀ i, isRoot (h.map fun o => { o with colour := f o }) i = isRoot h i := by
    intro i; simp only [isRoot, hget]; cases h[i]? <;> rfl
  have hmr : ∀ fuel is cols, markRootsFrom (h.map fun o => { o with colour := f o }) fuel is cols =
      markRootsFrom h fuel is cols := by
    intro fuel is
    induction is with
    | nil => intro cols; rfl
    | cons i is ih => intro cols; simp only [markRootsFrom, hroot, hrun, ih]
  have htp : ∀ fuel is cols n, tracePass (h.map fun o => { o with colour := f o }) fuel is cols n =
      tracePass h fuel is cols n := by
    intro fuel is
    induction is with
    | nil => intro cols n; rfl
    | cons i is ih => intro cols n; simp only [tracePass, hrun, ih]
  have htl : ∀ fuel k cols n, traceLoop (h.map fun o => { o with colour := f o }) fuel k cols n =
      traceLoop h fuel k cols n := by
    intro fuel k
    induction k with
    | zero => intro cols n; cases n <;> rfl
    | succ k ih =>
      intro cols n
      cases n with
      | zero => rfl
      | succ n => simp only [traceLoop, htp, Array.size_map, ih]
  have hsz : ∀ i, sizeAt (h.map fun o => { o with colour := f o }) i = sizeAt h i := by
    intro i; simp only [sizeAt, hget]; cases h[i]? <;> rfl
  have hsw : ∀ cols, sweep (h.map fun o => { o with colour := f o }) cols = sweep h cols := by
    intro cols
    simp only [sweep, Array.size_map]
    congr 1
    congr 2
    funext i
    exact hsz i
  simp only [collect, collectE, markRoots, traceReferences, unmarkAll, hmr, htl, hsw, Array.size_map]
#print axioms collect_ignores_colour

/-! ## 5. F22: `mark()` inside a `blacken()` body -/

/-- Smallest witness: ONE box with two pointers to itself, the first traced with `mark` inside `blacken()`.
`blacken 0` → (`mark 0`: black→grey) → `blacken 0` → … : the recursion never ends, for every fuel. -/
def f22Min : Heap := #[⟨0, 1, 8, .white, [.f22 0, .good 0]⟩]

theorem f22_min_diverges : ∀ fuel, collectE fuel f22Min = .error .outOfFuel :=
  collectE_diverges (F0 := 3) (c1 := #[.grey]) (c2 := #[.grey]) (pre := []) (post := []) (i := 0) (m := 0)
    (by decide) rfl (by decide) rfl rfl rfl
    (runCalls_diverges (k0 := 0) (k := 4) (cols := #[.grey]) (s := [(.blacken, 0)]) (t := []) (u := [])
      rfl (by decide) (by decide))
#print axioms f22_min_diverges

/-- The shape of the real program `w=[];v=[];m=v.len; w.push(v);w.push(0); v.push(m);v.push(w);v.push(m); [1]`:
box 0 = the native `len` (no pointers), box 1 = the fiber whose stack holds `w`, `v`, `m` (rooted),
box 2 = vec `w = [v, 0]`, box 3 = vec `v = [m, w, m]`,
box 4 = bound method `m`: receiver `v` traced by `mark` in BOTH bodies (F22), method pointer traced properly. -/
def f22Real : Heap := #[
  ⟨0, 0, 32, .white, []⟩,
  ⟨1, 1, 512, .white, [.good 2, .good 3, .good 4]⟩,
  ⟨2, 0, 48, .white, [.good 3]⟩,
  ⟨2, 0, 48, .white, [.good 4, .good 2, .good 4]⟩,
  ⟨3, 0, 24, .white, [.f22 3, .good 0]⟩]

/-- All five boxes are marked grey; the pass blackens box 0, then `blacken()` on the fiber recurses
`v → m → (mark v → m, w) → w → v → m → …` with a stack that grows by one frame every 11 steps: no fuel suffices.
The real collector overflows the native stack. -/
theorem f22_diverges_or_witness : Closed f22Real ∧ ∀ fuel, collectE fuel f22Real = .error .outOfFuel :=
  ⟨closedB_iff.mp (by decide),
   collectE_diverges (F0 := 12) (c1 := #[.grey, .grey, .grey, .grey, .grey])
    (c2 := #[.black, .grey, .grey, .grey, .grey]) (pre := [0]) (post := [2, 3, 4]) (i := 1) (m := 1)
    (by decide) rfl (by decide) rfl rfl rfl
    (runCalls_diverges (k0 := 3) (k := 11) (cols := #[.black, .black, .black, .black, .grey])
      (s := [(.blacken, 4), (.blacken, 2), (.blacken, 4)]) (t := [(.blacken, 3), (.blacken, 4)])
      (u := [(.blacken, 4)]) (by decide) (by decide) (by decide))⟩
#print axioms f22_diverges_or_witness

theorem f22_collect_none : ∀ fuel, collect fuel f22Real = none := by
  intro fuel; simp only [collect, f22_diverges_or_witness.2 fuel]
#print axioms f22_collect_none

/-- the same heap with the receiver traced properly is collected without incident -/
example : collect 20 (f22Real.set! 4 ⟨3, 0, 24, .white, [.good 3, .good 0]⟩) =
    some { retained := [0, 1, 2, 3, 4], bytesFreed := 0, colours := #[.black, .black, .black, .black, .black] } := by
  decide

/-- A second way to hang: one box, ONE pointer to itself traced by `mark` in `blacken()`.  Every `blacken()` call
returns, but it leaves the box grey again, so `while num_greys > 0` never ends. -/
def f22Loop : Heap := #[⟨0, 1, 8, .white, [.f22 0]⟩]

theorem f22_loop_diverges : ∀ fuel, collectE fuel f22Loop = .error .outOfFuel :=
  collectE_loops (F0 := 3) (c1 := #[.grey]) (m := 0) rfl (by decide) rfl
#print axioms f22_loop_diverges

/-- the F22 shape does not ALWAYS hang: vec `v = [m, m]`, `m` bound to `v` -/
example : collect 20 #[⟨2, 1, 48, .white, [.good 1, .good 1]⟩, ⟨3, 0, 24, .white, [.f22 0]⟩] =
    some { retained := [0, 1], bytesFreed := 0, colours := #[.black, .black] } := by decide

/-! ## 6. byte accounting -/

/-- No grey box is left at sweep time (so `retain(Black)` drops exactly the white boxes), the return value of
`sweep` is the total size of the dropped boxes, and freed + retained = everything. -/
theorem sweep_bytes {fuel : Nat} {h : Heap} {r : CollectResult} (hr : collect fuel h = some r) :
    NoGrey r.colours ∧
    r.bytesFreed = (((List.range h.size).filter fun i => decide (i ∉ r.retained)).map (sizeAt h)).sum ∧
    r.bytesFreed + (r.retained.map (sizeAt h)).sum = heapBytes h := by
  obtain ⟨cols, rfl, hinv, hg⟩ := collectE_inv (collect_eq_some.mp hr)
  exact ⟨hg, sweep_bytes_eq hinv.size hg, sweep_bytes_total hinv.size hg⟩
#print axioms sweep_bytes

/-- `bytes_allocated -= bytes_freed` cannot underflow when `bytes_allocated` is the sum of all box sizes, and
afterwards it is again the sum of the sizes of the boxes in the vector; `threshold = 2 * bytes_allocated` -/
theorem collect_accounting {fuel : Nat} {h : Heap} {r : CollectResult} (hr : collect fuel h = some r) :
    accountAfter (heapBytes h) r =
      some ((r.retained.map (sizeAt h)).sum, (r.retained.map (sizeAt h)).sum * 2) := by
  obtain ⟨_, _, htot⟩ := sweep_bytes hr
  unfold accountAfter
  rw [if_pos (by omega)]
  have : heapBytes h - r.bytesFreed = (r.retained.map (sizeAt h)).sum := by omega
  rw [this]
#print axioms collect_accounting

example : 56 + ([0, 1, 2, 3, 7].map (sizeAt exHeap)).sum = heapBytes exHeap :=
  (sweep_bytes exHeap_collect).2.2
example : accountAfter (heapBytes exHeap) ⟨[0, 1, 2, 3, 7], 56, #[]⟩ = some (168, 336) := by decide

/-! ## 7. schema layer -/

/-- A trace-op table that passes the decidable check `blackenCovers` makes every well-typed labelled heap satisfy
the hypothesis of `collect_safe`. -/
theorem label_covered {S : Schema} {kinds : List Nat} {fields : Nat → List (Nat × List Nat)}
    {exempt : List (Nat × Nat × Nat)} {h : RawHeap}
    (hcov : S.blackenCovers kinds fields exempt = true) (hty : WellTyped kinds fields h)
    (hex : ExemptRooted exempt h) : Covered (label S h) :=
  label_covered' hcov hty hex
#print axioms label_covered

/-- the same for the `mark()` bodies and `collect_safe_mark` -/
theorem label_mark_covered {S : Schema} {kinds : List Nat} {fields : Nat → List (Nat × List Nat)}
    {exempt : List (Nat × Nat × Nat)} {h : RawHeap}
    (hcov : S.markCovers kinds fields exempt = true) (hty : WellTyped kinds fields h)
    (hex : ExemptRooted exempt h) : MarkCovered (label S h) :=
  label_mark_covered' hcov hty hex
#print axioms label_mark_covered

/-- … and a table whose bodies only use their own op makes them satisfy the hypotheses of `collect_terminates` -/
theorem label_terminates {S : Schema} {kinds : List Nat} {fields : Nat → List (Nat × List Nat)} {h : RawHeap}
    (hwf : S.wellFormed kinds = true) (hty : WellTyped kinds fields h) {fuel : Nat}
    (hf : fuelBound (label S h) ≤ fuel) : ∃ r, collect fuel (label S h) = some r :=
  let ⟨r, hr, _⟩ := collect_terminates (label_wellFormed hwf fun i o ho => (hty i o ho).1) (label_closed hty) hf
  ⟨r, hr⟩
#print axioms label_terminates

/-- example table.  kinds: 1 = fiber, 2 = vec, 3 = bound method, 4 = class, 0 = native.
fields: 0 = element/stack slot, 1 = class pointer (never traced by `blacken`, exempt), 2 = receiver, 3 = method -/
def exSchema (fixed : Bool) : Schema
  | 1 => ⟨[(0, 2, .mark), (0, 3, .mark)], [(0, 2, .blacken), (0, 3, .blacken)]⟩
  | 2 => ⟨[(0, 2, .mark), (0, 3, .mark)], [(0, 2, .blacken), (0, 3, .blacken)]⟩
  | 3 => ⟨[(2, 2, .mark), (3, 0, .mark)], [(2, 2, if fixed then .blacken else .mark), (3, 0, .blacken)]⟩
  | _ => ⟨[], []⟩

def exFields : Nat → List (Nat × List Nat)
  | 1 => [(0, [2, 3])]
  | 2 => [(0, [2, 3]), (1, [4])]
  | 3 => [(2, [2]), (3, [0])]
  | _ => []

/-- the table as written in yarel (F22) fails both checks; with `receiver.blacken()` it passes both -/
example : (exSchema false).blackenCovers [0, 1, 2, 3, 4] exFields [(2, 1, 4)] = false := by decide
example : (exSchema false).wellFormed [0, 1, 2, 3, 4] = false := by decide
example : (exSchema true).blackenCovers [0, 1, 2, 3, 4] exFields [(2, 1, 4)] = true := by decide
example : (exSchema true).wellFormed [0, 1, 2, 3, 4] = true := by decide

/-- the `mark()` bodies of the table as written in yarel (F22) do cover everything -/
example : (exSchema false).markCovers [0, 1, 2, 3, 4] exFields [(2, 1, 4)] = true := by decide

/-- raw version of `f22Real` plus a rooted class box 5 that both vecs point at through the exempt field 1 -/
def exRaw : RawHeap := #[
  ⟨0, 0, 32, .white, []⟩,
  ⟨1, 1, 512, .white, [⟨0, 2⟩, ⟨0, 3⟩, ⟨0, 4⟩]⟩,
  ⟨2, 0, 48, .white, [⟨1, 5⟩, ⟨0, 3⟩]⟩,
  ⟨2, 0, 48, .white, [⟨1, 5⟩, ⟨0, 4⟩, ⟨0, 2⟩, ⟨0, 4⟩]⟩,
  ⟨3, 0, 24, .white, [⟨2, 3⟩, ⟨3, 0⟩]⟩,
  ⟨4, 1, 96, .white, []⟩]

example : Covered (label (exSchema true) exRaw) :=
  label_covered (kinds := [0, 1, 2, 3, 4]) (fields := exFields) (exempt := [(2, 1, 4)]) (by decide)
    (wellTypedB_sound (by decide)) (exemptRootedB_sound (by decide))
example : ∃ r, collect (fuelBound (label (exSchema true) exRaw)) (label (exSchema true) exRaw) = some r :=
  label_terminates (kinds := [0, 1, 2, 3, 4]) (fields := exFields) (by decide) (wellTypedB_sound (by decide))
    (Nat.le_refl _)
example : MarkCovered (label (exSchema false) exRaw) :=
  label_mark_covered (kinds := [0, 1, 2, 3, 4]) (fields := exFields) (exempt := [(2, 1, 4)]) (by decide)
    (wellTypedB_sound (by decide)) (exemptRootedB_sound (by decide))
example : coveredB (label (exSchema true) exRaw) = true := by decide
example : collect 30 (label (exSchema true) exRaw) =
    some { retained := [0, 1, 2, 3, 4, 5], bytesFreed := 0,
           colours := #[.black, .black, .black, .black, .black, .black] } := by decide
example : collectE 100 (label (exSchema false) exRaw) = .error .outOfFuel := rfl

end Yarel.Gc
