/-
Fibers of the Lean reference interpreter (S): the language-level content of property C09.

  save_then_load_restores_registers   a fiber that is suspended and later resumed continues with exactly the registers it was
                                      suspended with (variables, function, continuation, call depth, recorded raise site): what
                                      other fibers did in between does not reach them except through the one delivered value
  save_touches_only_own_fiber         suspending writes the running fiber's object and nothing else
  yield_hands_value_to_caller, finish_hands_value_to_caller   the value handed over is the argument / the return value (nil without)
  call_finished_rejected, call_called_rejected, yield_at_root_rejected   the rejected operations are errors raised in the CALLER
                                      with the stated message, before anything of the target fiber is touched
-/
import Yarel.Spec.Machine
namespace Yarel.Spec.Fibers
open Yarel.Spec Yarel.Spec.State

theorem get_set_same (h : Heap) (r : Nat) (o : Obj) (hr : r < h.objs.size) : (h.set r o).get r = o := by
  simp [Heap.set, Heap.get, Heap.takeObjs, Array.getElem?_setIfInBounds, hr]

theorem get_set_other (h : Heap) (r s : Nat) (o : Obj) (hne : r ≠ s) : (h.set r o).get s = h.get s := by
  simp [Heap.set, Heap.get, Heap.takeObjs, Array.getElem?_setIfInBounds, hne]

/-- Suspending writes only the running fiber's own object. -/
theorem save_touches_only_own_fiber (st : State) (s : FiberStatus) (c : Option (Option Nat)) (other : Nat) (hne : st.fiber ≠ other) :
    (st.saveFiber s c).heap.get other = st.heap.get other := by
  unfold State.saveFiber
  split
  · simp [State.setObj, State.modHeap, State.takeHeap, get_set_other _ _ _ _ hne]
  · rfl

theorem saveFiber_get (st : State) (f : FiberData) (s : FiberStatus) (c : Option (Option Nat))
    (hf : st.heap.get st.fiber = .fiber f) (hr : st.fiber < st.heap.objs.size) :
    (st.saveFiber s c).heap.get st.fiber =
      .fiber { f with status := s, ctl := st.ctl, env := st.env, fn := st.fn, kont := st.kont, depth := st.depth, errLine := st.errLine,
                      caller := match c with | some c => c | none => f.caller } := by
  unfold State.saveFiber
  rw [hf]
  simp [State.setObj, State.modHeap, State.takeHeap, get_set_same _ _ _ hr]
  cases c <;> rfl

/-- A fiber suspended now and resumed later - with ANY heap changes to other objects in between - continues with exactly the
registers it had: its variables, function, continuation, call depth and recorded raise site; only the delivered control differs. -/
theorem save_then_load_restores_registers (st : State) (f : FiberData) (s : FiberStatus) (c : Option (Option Nat)) (ctl : Control)
    (hf : st.heap.get st.fiber = .fiber f) (hr : st.fiber < st.heap.objs.size)
    (later : State) (hsame : later.heap.get st.fiber = (st.saveFiber s c).heap.get st.fiber) :
    (later.loadFiber st.fiber ctl).env = st.env ∧ (later.loadFiber st.fiber ctl).fn = st.fn ∧
    (later.loadFiber st.fiber ctl).kont = st.kont ∧ (later.loadFiber st.fiber ctl).depth = st.depth ∧
    (later.loadFiber st.fiber ctl).errLine = st.errLine ∧ (later.loadFiber st.fiber ctl).ctl = ctl ∧
    (later.loadFiber st.fiber ctl).fiber = st.fiber := by
  have hsaved := saveFiber_get st f s c hf hr
  unfold State.loadFiber
  rw [hsame, hsaved]
  simp

/-- `Fiber.yield(x)` inside a fiber called by `c`: the running fiber is suspended (its caller link cleared) and `c` continues
with the value `x` (nil when there is no argument) as the result of its `call`. -/
theorem yield_hands_value_to_caller (st : State) (args : Array Value) (line : Nat) (f : FiberData) (c : Nat)
    (hn : args.size ≤ 1) (hf : st.heap.get st.fiber = .fiber f) (hc : f.caller = some c) :
    st.fiberYield args line = (st.saveFiber .suspended (some none)).loadFiber c (.value ((args[0]?).getD .nil)) := by
  unfold State.fiberYield
  rw [if_neg (by omega), hf]
  simp [hc]

theorem yield_at_root_rejected (st : State) (args : Array Value) (line : Nat) (f : FiberData)
    (hn : args.size ≤ 1) (hf : st.heap.get st.fiber = .fiber f) (hc : f.caller = none) :
    st.fiberYield args line = st.raise .runtimeError "Cannot yield from module-level code." line := by
  unfold State.fiberYield
  rw [if_neg (by omega), hf]
  simp [hc]

/-- The function of a fiber returns `v`: the fiber is finished (it keeps nothing of its continuation) and its caller continues
with `v` as the result of `call`. -/
theorem finish_hands_value_to_caller (st : State) (v : Value) (f : FiberData) (c : Nat)
    (hf : st.heap.get st.fiber = .fiber f) (hc : f.caller = some c) :
    st.fiberFinished v = (({ st with kont := [], env := #[], depth := 0 }).saveFiber .finished (some none)).loadFiber c (.value v) := by
  unfold State.fiberFinished
  rw [hf]
  simp [hc]

/-- Calling a finished fiber, or one that is already waiting in a `call` (so also the running one and its callers), is a
RuntimeError raised in the caller; the target fiber is not touched. -/
theorem call_finished_rejected (st : State) (r : Nat) (f : FiberData) (args : Array Value) (line : Nat)
    (hf : st.heap.get r = .fiber f) (hs : f.status = .finished) (hn : args.size ≤ 1) :
    st.fiberCall (.obj r) args line = st.raise .runtimeError "Cannot call a finished fiber." line := by
  unfold State.fiberCall
  simp only [hf]
  have h1 : (f.status == FiberStatus.fresh) = false := by rw [hs]; decide
  have h2 : (f.status == FiberStatus.finished) = true := by rw [hs]; decide
  simp only [h1, Bool.false_eq_true, if_false]
  have h3 : ¬ (args.size > 1) := by omega
  simp [h3, h2]

theorem call_called_rejected (st : State) (r : Nat) (f : FiberData) (args : Array Value) (line : Nat) (c : Nat)
    (hf : st.heap.get r = .fiber f) (hs : f.status = .suspended ∨ f.status = .running) (hcaller : f.caller = some c) (hn : args.size ≤ 1) :
    st.fiberCall (.obj r) args line = st.raise .runtimeError "Cannot call a fiber that has already been called." line := by
  unfold State.fiberCall
  simp only [hf]
  have h1 : (f.status == FiberStatus.fresh) = false := by rcases hs with h | h <;> rw [h] <;> decide
  have h2 : (f.status == FiberStatus.finished) = false := by rcases hs with h | h <;> rw [h] <;> decide
  simp only [h1, Bool.false_eq_true, if_false]
  have h3 : ¬ (args.size > 1) := by omega
  simp [h3, h2, hcaller]

#print axioms save_touches_only_own_fiber
#print axioms save_then_load_restores_registers
#print axioms yield_hands_value_to_caller
#print axioms yield_at_root_rejected
#print axioms finish_hands_value_to_caller
#print axioms call_finished_rejected
#print axioms call_called_rejected

end Yarel.Spec.Fibers
