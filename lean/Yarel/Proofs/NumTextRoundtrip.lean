/-
print → parse round trip for every bit pattern.
-/
import Yarel.Proofs.NumTextExact

namespace Yarel.NumText
open Yarel.F64

theorem finite_of_not_nan_inf (b : Bits) (h1 : isNaN b = false) (h2 : isInf b = false) : isFinite b = true := by
  unfold isNaN at h1; unfold isInf at h2; unfold isFinite
  cases h : (expField b == 0x7FF) <;> simp_all

theorem eq_of_fields (b : Bits) (n : Nat) (h : b.toNat = n) : b = UInt64.ofNat n := by
  subst h; exact UInt64.ofNat_toNat.symm

theorem inf_eq (b : Bits) (h : isInf b = true) : b = inf (signBit b) := by
  unfold isInf at h
  simp only [Bool.and_eq_true, beq_iff_eq] at h
  have := toNat_fields b
  rw [h.1, h.2] at this
  unfold inf
  cases hs : signBit b <;> rw [hs] at this <;> exact eq_of_fields b _ this

theorem zero_fields (b : Bits) (h : isZero b = true) : expField b = 0 ∧ mantField b = 0 := by
  unfold isZero at h
  simpa using h

theorem parse_zero (b : Bits) (h : isZero b = true) : parseDec (signText b ++ ['0']) = some b := by
  have hz := zero_fields b h
  have hfin : isFinite b = true := by rw [isFinite_iff]; omega
  have := parseDec_signed b ['0'] [] (by decide) (by decide) (by simp)
  rw [show assemble ['0'] [] = ['0'] from rfl] at this
  rw [this]
  have := roundDec_exact b (digitsVal 0 (['0'] ++ [])) 0 hfin (by
    unfold decode
    simp only [hz.1, hz.2, beq_self_eq_true, if_true]
    have hd : digitsVal 0 (['0'] ++ []) = 0 := rfl
    simp only [hd, Nat.zero_mul])
  exact congrArg some this

theorem parse_inf (b : Bits) (h : isInf b = true) : parseDec (signText b ++ ['i', 'n', 'f']) = some b := by
  have hb := inf_eq b h
  unfold signText
  cases hs : signBit b <;> rw [hs] at hb <;> rw [hb] <;> rfl

/-- The headline round trip on character lists. -/
theorem parse_displayChars (b : Bits) (hn : isNaN b = false) : parseDec (displayChars b) = some b := by
  unfold displayChars
  simp only [hn, Bool.false_eq_true, if_false]
  by_cases hi : isInf b = true
  · simp only [hi, if_true]; exact parse_inf b hi
  · have hi' : isInf b = false := by simpa using hi
    have hfin := finite_of_not_nan_inf b hn hi'
    simp only [hi', Bool.false_eq_true, if_false]
    by_cases hz : isZero b = true
    · simp only [hz, if_true]; exact parse_zero b hz
    · have hz' : isZero b = false := by simpa using hz
      simp only [hz', Bool.false_eq_true, if_false]
      split
      · exact parseDec_exactText b hfin
      · split
        · rename_i hc; exact hc.1
        · exact parseDec_exactText b hfin

theorem parse_displayChars_nan (b : Bits) (hn : isNaN b = true) :
    parseDec (displayChars b) = some canonNaN := by
  unfold displayChars
  simp only [hn, if_true]
  rfl

end Yarel.NumText
