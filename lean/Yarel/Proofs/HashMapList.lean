/-
The list-backed map: (1) two `same` tests that agree on the keys in play give the same runs (the engine of
`bucketed_refines_assoc`); (2) the laws of the `Assoc` model.
-/
import Yarel.Model.HashMapM
import Yarel.Proofs.HashMapKey

namespace Yarel.HashMapM
open Yarel

namespace ListMap

/-! ### congruence in the `same` test -/

section congr
variable {s1 s2 : Key → Key → Bool}

theorem find?_congr {q : Key} : ∀ {m : Entries}, (∀ e ∈ m, s1 q e.1 = s2 q e.1) → find? s1 q m = find? s2 q m
  | [], _ => rfl
  | (s, v) :: es, h => by
    have h0 := h (s, v) List.mem_cons_self
    simp only at h0
    simp only [find?, h0]
    rw [find?_congr (fun e he => h e (List.mem_cons_of_mem _ he))]

theorem replace_congr {q v : Key} : ∀ {m : Entries}, (∀ e ∈ m, s1 q e.1 = s2 q e.1) →
    replace s1 q v m = replace s2 q v m
  | [], _ => rfl
  | (s, w) :: es, h => by
    have h0 := h (s, w) List.mem_cons_self
    simp only at h0
    simp only [replace, h0]
    rw [replace_congr (fun e he => h e (List.mem_cons_of_mem _ he))]

theorem erase_congr {q : Key} : ∀ {m : Entries}, (∀ e ∈ m, s1 q e.1 = s2 q e.1) → erase s1 q m = erase s2 q m
  | [], _ => rfl
  | (s, w) :: es, h => by
    have h0 := h (s, w) List.mem_cons_self
    simp only at h0
    simp only [erase, h0]
    rw [erase_congr (fun e he => h e (List.mem_cons_of_mem _ he))]

theorem insertRaw_congr {m : Entries} {k v : Key} (h : ∀ e ∈ m, s1 k e.1 = s2 k e.1) :
    insertRaw s1 m k v = insertRaw s2 m k v := by
  simp only [insertRaw, find?_congr h, replace_congr h]

theorem removeRaw_congr {m : Entries} {k : Key} (h : ∀ e ∈ m, s1 k e.1 = s2 k e.1) :
    removeRaw s1 m k = removeRaw s2 m k := by
  simp only [removeRaw, find?_congr h, erase_congr h]

end congr

/-! ### which keys are stored -/

theorem keys_replace (same : Key → Key → Bool) (q v : Key) : ∀ m : Entries, keys (replace same q v m) = keys m
  | [] => rfl
  | (s, w) :: es => by
    simp only [replace]
    split
    · simp [keys]
    · have := keys_replace same q v es
      simp only [keys] at this
      simp [keys, this]

theorem keys_erase_sublist (same : Key → Key → Bool) (q : Key) : ∀ m : Entries,
    (keys (erase same q m)).Sublist (keys m)
  | [] => List.Sublist.refl _
  | (s, w) :: es => by
    simp only [erase]
    split
    · simp [keys]
    · have := keys_erase_sublist same q es
      simp only [keys] at this
      simp [keys, this]

theorem keys_insertRaw (same : Key → Key → Bool) (m : Entries) (k v : Key) :
    keys (insertRaw same m k v).1 = keys m ∨ keys (insertRaw same m k v).1 = keys m ++ [k] := by
  simp only [insertRaw]
  split
  · left; exact keys_replace same k v m
  · right; simp [keys]

theorem mem_keys_insertRaw {same : Key → Key → Bool} {m : Entries} {k v x : Key}
    (h : x ∈ keys (insertRaw same m k v).1) : x ∈ keys m ∨ x = k := by
  rcases keys_insertRaw same m k v with e | e <;> rw [e] at h
  · left; exact h
  · simpa using h

theorem mem_keys_removeRaw {same : Key → Key → Bool} {m : Entries} {k x : Key}
    (h : x ∈ keys (removeRaw same m k).1) : x ∈ keys m := by
  simp only [removeRaw] at h
  split at h
  · exact (keys_erase_sublist same k m).subset h
  · exact h

/-- All stored keys satisfy `T`. -/
def KeysIn (T : Key → Prop) (m : Entries) : Prop := ∀ x ∈ keys m, T x

theorem KeysIn.same_eq {T : Key → Prop} {s1 s2 : Key → Key → Bool}
    (hag : ∀ q s, T q → T s → s1 q s = s2 q s) {m : Entries} (hm : KeysIn T m) {q : Key} (hq : T q) :
    ∀ e ∈ m, s1 q e.1 = s2 q e.1 :=
  fun e he => hag q e.1 hq (hm e.1 (List.mem_map_of_mem he))

theorem KeysIn.insertRaw {T : Key → Prop} {same : Key → Key → Bool} {m : Entries} (hm : KeysIn T m)
    {k : Key} (hk : T k) (v : Key) : KeysIn T (insertRaw same m k v).1 := by
  intro x hx
  rcases mem_keys_insertRaw hx with h | rfl
  · exact hm x h
  · exact hk

theorem KeysIn.removeRaw {T : Key → Prop} {same : Key → Key → Bool} {m : Entries} (hm : KeysIn T m)
    (k : Key) : KeysIn T (removeRaw same m k).1 :=
  fun x hx => hm x (mem_keys_removeRaw hx)

theorem KeysIn.nil {T : Key → Prop} : KeysIn T [] := fun _ h => nomatch h

section agree
variable {T : Key → Prop} {s1 s2 : Key → Key → Bool}

theorem build_congr (hag : ∀ q s, T q → T s → s1 q s = s2 q s) :
    ∀ (ps : List (Key × Key)) (acc : Entries), KeysIn T acc → (∀ p ∈ ps, hasHash p.1 = true → T p.1) →
      build s1 acc ps = build s2 acc ps ∧ ∀ m', build s1 acc ps = some m' → KeysIn T m'
  | [], acc, hacc, _ => ⟨rfl, fun m' h => by simp only [build, Option.some.injEq] at h; exact h ▸ hacc⟩
  | (k, v) :: ps, acc, hacc, hps => by
    simp only [build]
    cases hk : hasHash k with
    | false => simp
    | true =>
      have hT : T k := hps (k, v) List.mem_cons_self hk
      have e := insertRaw_congr (v := v) (hacc.same_eq hag hT)
      have ih := build_congr hag ps (insertRaw s1 acc k v).1 (hacc.insertRaw hT v)
        (fun p hp => hps p (List.mem_cons_of_mem _ hp))
      simp only [if_true]
      rw [← e]
      exact ih

/-- One step: equal outcome, and the stored keys stay inside `T`. -/
theorem step_congr (hag : ∀ q s, T q → T s → s1 q s = s2 q s) (m : Entries) (hm : KeysIn T m) (op : Op)
    (hop : ∀ k ∈ op.usedKeys, hasHash k = true → T k) :
    step s1 m op = step s2 m op ∧ KeysIn T (step s1 m op).1 := by
  cases op with
  | literal ps =>
    have hb := build_congr hag ps [] KeysIn.nil (fun p hp => hop p.1 (List.mem_map_of_mem hp))
    simp only [step, ← hb.1]
    cases hbs : build s1 [] ps with
    | none => exact ⟨trivial, hm⟩
    | some m' => exact ⟨trivial, hb.2 m' hbs⟩
  | insert k v =>
    simp only [step]
    cases hk : hasHash k with
    | false => exact ⟨rfl, hm⟩
    | true =>
      have hT : T k := hop k (by simp [Op.usedKeys]) hk
      simp only [if_true, insertRaw_congr (v := v) (hm.same_eq hag hT)]
      exact ⟨trivial, hm.insertRaw hT v⟩
  | remove k =>
    simp only [step]
    cases hk : hasHash k with
    | false => exact ⟨rfl, hm⟩
    | true =>
      have hT : T k := hop k (by simp [Op.usedKeys]) hk
      simp only [if_true, removeRaw_congr (hm.same_eq hag hT)]
      exact ⟨trivial, hm.removeRaw k⟩
  | get k =>
    simp only [step]
    cases hk : hasHash k with
    | false => exact ⟨rfl, hm⟩
    | true =>
      have hT : T k := hop k (by simp [Op.usedKeys]) hk
      simp only [if_true, find?_congr (hm.same_eq hag hT)]
      exact ⟨trivial, hm⟩
  | hasKey k =>
    simp only [step]
    cases hk : hasHash k with
    | false => exact ⟨rfl, hm⟩
    | true =>
      have hT : T k := hop k (by simp [Op.usedKeys]) hk
      simp only [if_true, find?_congr (hm.same_eq hag hT)]
      exact ⟨trivial, hm⟩
  | clear => exact ⟨rfl, KeysIn.nil⟩
  | len => exact ⟨rfl, hm⟩
  | keys => exact ⟨rfl, hm⟩
  | values => exact ⟨rfl, hm⟩
  | items => exact ⟨rfl, hm⟩

theorem run_congr (hag : ∀ q s, T q → T s → s1 q s = s2 q s) :
    ∀ (ops : List Op) (m : Entries), KeysIn T m → (∀ op ∈ ops, ∀ k ∈ op.usedKeys, hasHash k = true → T k) →
      run s1 m ops = run s2 m ops
  | [], _, _, _ => rfl
  | op :: ops, m, hm, hops => by
    have hs := step_congr hag m hm op (hops op List.mem_cons_self)
    simp only [run]
    rw [← hs.1, run_congr hag ops _ hs.2 (fun o ho => hops o (List.mem_cons_of_mem _ ho))]

end agree

/-! ### rejection of unhashable keys -/

theorem build_unhashable (same : Key → Key → Bool) : ∀ (ps : List (Key × Key)) (acc : Entries),
    (∃ p ∈ ps, hasHash p.1 = false) → build same acc ps = none
  | [], _, h => by obtain ⟨_, hp, _⟩ := h; cases hp
  | (k, v) :: ps, acc, h => by
    simp only [build]
    cases hk : hasHash k with
    | false => simp
    | true =>
      simp only [if_true]
      apply build_unhashable same ps
      obtain ⟨p, hp, hh⟩ := h
      rcases List.mem_cons.mp hp with rfl | hp
      · simp [hk] at hh
      · exact ⟨p, hp, hh⟩

theorem step_unhashable (same : Key → Key → Bool) (m : Entries) (op : Op)
    (h : ∃ k ∈ op.usedKeys, hasHash k = false) : step same m op = (m, .valueError) := by
  obtain ⟨k, hk, hh⟩ := h
  cases op with
  | literal ps =>
    simp only [Op.usedKeys, List.mem_map] at hk
    obtain ⟨p, hp, rfl⟩ := hk
    simp [step, build_unhashable same ps [] ⟨p, hp, hh⟩]
  | insert k' v => simp only [Op.usedKeys, List.mem_singleton] at hk; subst hk; simp [step, hh]
  | remove k' => simp only [Op.usedKeys, List.mem_singleton] at hk; subst hk; simp [step, hh]
  | get k' => simp only [Op.usedKeys, List.mem_singleton] at hk; subst hk; simp [step, hh]
  | hasKey k' => simp only [Op.usedKeys, List.mem_singleton] at hk; subst hk; simp [step, hh]
  | clear => simp [Op.usedKeys] at hk
  | len => simp [Op.usedKeys] at hk
  | keys => simp [Op.usedKeys] at hk
  | values => simp [Op.usedKeys] at hk
  | items => simp [Op.usedKeys] at hk

/-- Stored keys are always hashable (so the `panic!` in `impl Hash for Value` is unreachable from the map). -/
theorem step_keys_hashable (same : Key → Key → Bool) (m : Entries) (hm : KeysIn (hasHash · = true) m) (op : Op) :
    KeysIn (hasHash · = true) (step same m op).1 :=
  (step_congr (T := (hasHash · = true)) (s1 := same) (s2 := same) (fun _ _ _ _ => rfl) m hm op
    (fun _ _ h => h)).2

/-! ### a key that matches nothing (NaN) -/

theorem find?_none_of_never {same : Key → Key → Bool} {k : Key} (h : ∀ s, same k s = false) :
    ∀ m : Entries, find? same k m = none
  | [] => rfl
  | (s, v) :: es => by simp only [find?, h s, Bool.false_eq_true, if_false]; exact find?_none_of_never h es

theorem find?_append_never {same : Key → Key → Bool} {k : Key} (q v : Key) (h : same q k = false) :
    ∀ m : Entries, find? same q (m ++ [(k, v)]) = find? same q m
  | [] => by simp [find?, h]
  | (s, w) :: es => by
    simp only [List.cons_append, find?]
    rw [find?_append_never q v h es]

theorem insertRaw_of_never {same : Key → Key → Bool} {k : Key} (h : ∀ s, same k s = false) (m : Entries) (v : Key) :
    insertRaw same m k v = (m ++ [(k, v)], none) := by
  simp only [insertRaw, find?_none_of_never h m]

theorem removeRaw_of_never {same : Key → Key → Bool} {k : Key} (h : ∀ s, same k s = false) (m : Entries) :
    removeRaw same m k = (m, none) := by
  simp only [removeRaw, find?_none_of_never h m]

end ListMap

end Yarel.HashMapM
