/-
Schema layer: what a checked trace-op table implies for labelled heaps; Bool ↔ Prop bridges for the
decidable shape predicates.
-/
import Yarel.Proofs.GcSpec

namespace Yarel.Gc

/-! ### Bool ↔ Prop -/

theorem forall_obj_iff {h : Heap} {P : Obj → Prop} :
    (∀ (i : Nat) (o : Obj), h[i]? = some o → P o) ↔ ∀ o ∈ h.toList, P o := by
  constructor
  · intro hp o ho
    rw [Array.mem_toList_iff, Array.mem_iff_getElem?] at ho
    obtain ⟨i, hi⟩ := ho
    exact hp i o hi
  · intro hp i o hi
    exact hp o (Array.mem_toList_iff.mpr (Array.mem_of_getElem? hi))

theorem closedB_iff {h : Heap} : closedB h = true ↔ Closed h := by
  unfold closedB Closed
  rw [List.all_eq_true]
  simp only [List.all_eq_true, decide_eq_true_eq]
  constructor
  · intro hp i o e ho he
    exact (forall_obj_iff (h := h) (P := fun o => ∀ e ∈ o.edges, e.target < h.size)).mpr hp i o ho e he
  · intro hp
    exact (forall_obj_iff (h := h) (P := fun o => ∀ e ∈ o.edges, e.target < h.size)).mp (fun i o ho e he => hp i o e ho he)

theorem wellFormedB_iff {h : Heap} : wellFormedB h = true ↔ WellFormed h := by
  unfold wellFormedB WellFormed
  rw [List.all_eq_true]
  simp only [List.all_eq_true, Bool.and_eq_true, decide_eq_true_eq]
  constructor
  · intro hp i o e ho he
    exact (forall_obj_iff (h := h) (P := fun o => ∀ e ∈ o.edges, e.inBlacken ≠ some .mark ∧ e.inMark ≠ some .blacken)).mpr hp i o ho e he
  · intro hp
    exact (forall_obj_iff (h := h) (P := fun o => ∀ e ∈ o.edges, e.inBlacken ≠ some .mark ∧ e.inMark ≠ some .blacken)).mp (fun i o ho e he => hp i o e ho he)

theorem coveredB_iff {h : Heap} : coveredB h = true ↔ Covered h := by
  unfold coveredB Covered
  rw [List.all_eq_true]
  simp only [List.all_eq_true, Bool.or_eq_true, isRoot_iff]
  constructor
  · intro hp i o e ho he
    exact (forall_obj_iff (h := h) (P := fun o => ∀ e ∈ o.edges, e.inBlacken.isSome = true ∨ Rooted h e.target)).mpr hp i o ho e he
  · intro hp
    exact (forall_obj_iff (h := h) (P := fun o => ∀ e ∈ o.edges, e.inBlacken.isSome = true ∨ Rooted h e.target)).mp (fun i o ho e he => hp i o e ho he)

theorem markCoveredB_iff {h : Heap} : markCoveredB h = true ↔ MarkCovered h := by
  unfold markCoveredB MarkCovered
  rw [List.all_eq_true]
  simp only [List.all_eq_true, Bool.or_eq_true, isRoot_iff, decide_eq_true_eq]
  constructor
  · intro hp i o e ho he
    exact (forall_obj_iff (h := h)
      (P := fun o => ∀ e ∈ o.edges, e.inMark = some .mark ∨ Rooted h e.target)).mpr hp i o ho e he
  · intro hp
    exact (forall_obj_iff (h := h)
      (P := fun o => ∀ e ∈ o.edges, e.inMark = some .mark ∨ Rooted h e.target)).mp
      (fun i o ho e he => hp i o e ho he)

theorem graphMapIdB_sound {h h' : Heap} (hb : graphMapIdB h h' = true) : GraphMap id h h' := by
  intro i o ho
  unfold graphMapIdB at hb
  rw [List.all_eq_true] at hb
  have hi := hb i (List.mem_range.mpr (Array.getElem?_eq_some_iff.mp ho).1)
  rw [ho] at hi
  cases ho' : h'[i]? with
  | none => simp [ho'] at hi
  | some o' =>
    simp only [ho', Bool.and_eq_true, Bool.or_eq_true, decide_eq_true_eq, List.all_eq_true, List.any_eq_true,
      beq_iff_eq] at hi
    refine ⟨o', ho', fun hpos => ?_, fun e he => hi.2 e he⟩
    rcases hi.1 with h0 | h0
    · omega
    · exact h0

theorem raw_forall_obj_iff {h : RawHeap} {P : RawObj → Prop} :
    (∀ (i : Nat) (o : RawObj), h[i]? = some o → P o) ↔ ∀ o ∈ h.toList, P o := by
  constructor
  · intro hp o ho
    rw [Array.mem_toList_iff, Array.mem_iff_getElem?] at ho
    obtain ⟨i, hi⟩ := ho
    exact hp i o hi
  · intro hp i o hi
    exact hp o (Array.mem_toList_iff.mpr (Array.mem_of_getElem? hi))

theorem wellTypedB_sound {kinds : List Nat} {fields : Nat → List (Nat × List Nat)} {h : RawHeap}
    (hb : wellTypedB kinds fields h = true) : WellTyped kinds fields h := by
  unfold wellTypedB at hb
  rw [List.all_eq_true] at hb
  intro i o ho
  have := hb o (Array.mem_toList_iff.mpr (Array.mem_of_getElem? ho))
  simp only [Bool.and_eq_true, List.contains_iff_mem, List.all_eq_true] at this
  refine ⟨this.1, fun e he => ?_⟩
  have he' := this.2 e he
  cases ht : h[e.target]? with
  | none => simp [ht] at he'
  | some t =>
    simp only [ht, List.any_eq_true, Bool.and_eq_true, beq_iff_eq, List.contains_iff_mem] at he'
    obtain ⟨ft, hft, hf, hk⟩ := he'
    exact ⟨t, rfl, ft, hft, hf, hk⟩

theorem exemptRootedB_sound {exempt : List (Nat × Nat × Nat)} {h : RawHeap}
    (hb : exemptRootedB exempt h = true) : ExemptRooted exempt h := by
  unfold exemptRootedB at hb
  rw [List.all_eq_true] at hb
  intro i o e t ho he ht hex
  have := hb o (Array.mem_toList_iff.mpr (Array.mem_of_getElem? ho))
  simp only [List.all_eq_true] at this
  have he' := this e he
  simp only [ht, Bool.or_eq_true, Bool.not_eq_true', decide_eq_true_eq] at he'
  rcases he' with h0 | h0
  · have : exempt.contains (o.kind, e.field, t.kind) = true := List.contains_iff_mem.mpr hex
    rw [this] at h0; cases h0
  · exact h0

/-! ### labelled heaps -/

theorem label_size (S : Schema) (h : RawHeap) : (label S h).size = h.size := by
  simp [label]

theorem label_getElem? {S : Schema} {h : RawHeap} {i : Nat} {o' : Obj} (ho : (label S h)[i]? = some o') :
    ∃ o, h[i]? = some o ∧ o' = labelObj S h o := by
  have hget : (label S h)[i]? = (h[i]?).map (labelObj S h) := by
    simp [label]
  rw [hget] at ho
  cases hh : h[i]? with
  | none => simp [hh] at ho
  | some o =>
    simp only [hh, Option.map_some, Option.some.injEq] at ho
    exact ⟨o, rfl, ho.symm⟩

theorem label_rooted {S : Schema} {h : RawHeap} {i : Nat} {t : RawObj} (ht : h[i]? = some t)
    (hr : 0 < t.roots) : Rooted (label S h) i := by
  refine ⟨labelObj S h t, ?_, hr⟩
  simp [label, ht]

theorem lookupOp_mem {tbl : List (Nat × Nat × TraceOp)} {f k : Nat} {op : TraceOp}
    (hl : lookupOp tbl f k = some op) : ∃ t ∈ tbl, t.2.2 = op := by
  induction tbl with
  | nil => simp [lookupOp] at hl
  | cons a tbl ih =>
    obtain ⟨f', k', op'⟩ := a
    simp only [lookupOp] at hl
    split at hl
    · simp only [Option.some.injEq] at hl
      exact ⟨(f', k', op'), List.mem_cons_self, hl⟩
    · obtain ⟨t, ht, hop⟩ := ih hl
      exact ⟨t, List.mem_cons_of_mem _ ht, hop⟩

/-- (7) a table that passes `blackenCovers` makes every well-typed labelled heap satisfy the hypothesis of
`collect_safe` -/
theorem label_covered' {S : Schema} {kinds : List Nat} {fields : Nat → List (Nat × List Nat)}
    {exempt : List (Nat × Nat × Nat)} {h : RawHeap}
    (hcov : S.blackenCovers kinds fields exempt = true) (hty : WellTyped kinds fields h)
    (hex : ExemptRooted exempt h) : Covered (label S h) := by
  intro i o' e' ho' he'
  obtain ⟨o, ho, rfl⟩ := label_getElem? ho'
  simp only [labelObj, List.mem_map] at he'
  obtain ⟨e, he, rfl⟩ := he'
  obtain ⟨hk, hedges⟩ := hty i o ho
  obtain ⟨t, ht, ft, hft, hf, htk⟩ := hedges e he
  unfold Schema.blackenCovers at hcov
  simp only [List.all_eq_true, Bool.or_eq_true, List.contains_iff_mem, beq_iff_eq] at hcov
  have := hcov o.kind hk ft hft t.kind htk
  rw [hf] at this
  rcases this with hexm | hlk
  · right
    simp only [labelEdge, ht]
    exact label_rooted ht (hex i o e t ho he ht hexm)
  · left
    simp only [labelEdge, ht, hlk, Option.isSome_some]

/-- a table that passes `markCovers` makes every well-typed labelled heap satisfy the hypothesis of
`collect_safe_mark` -/
theorem label_mark_covered' {S : Schema} {kinds : List Nat} {fields : Nat → List (Nat × List Nat)}
    {exempt : List (Nat × Nat × Nat)} {h : RawHeap}
    (hcov : S.markCovers kinds fields exempt = true) (hty : WellTyped kinds fields h)
    (hex : ExemptRooted exempt h) : MarkCovered (label S h) := by
  intro i o' e' ho' he'
  obtain ⟨o, ho, rfl⟩ := label_getElem? ho'
  simp only [labelObj, List.mem_map] at he'
  obtain ⟨e, he, rfl⟩ := he'
  obtain ⟨hk, hedges⟩ := hty i o ho
  obtain ⟨t, ht, ft, hft, hf, htk⟩ := hedges e he
  unfold Schema.markCovers at hcov
  simp only [List.all_eq_true, Bool.or_eq_true, List.contains_iff_mem, beq_iff_eq] at hcov
  have := hcov o.kind hk ft hft t.kind htk
  rw [hf] at this
  rcases this with hexm | hlk
  · right
    simp only [labelEdge, ht]
    exact label_rooted ht (hex i o e t ho he ht hexm)
  · left
    simp only [labelEdge, ht, hlk]

theorem label_closed {S : Schema} {kinds : List Nat} {fields : Nat → List (Nat × List Nat)} {h : RawHeap}
    (hty : WellTyped kinds fields h) : Closed (label S h) := by
  intro i o' e' ho' he'
  obtain ⟨o, ho, rfl⟩ := label_getElem? ho'
  simp only [labelObj, List.mem_map] at he'
  obtain ⟨e, he, rfl⟩ := he'
  obtain ⟨_, hedges⟩ := hty i o ho
  obtain ⟨t, ht, _⟩ := hedges e he
  rw [label_size]
  simp only [labelEdge, ht]
  exact (Array.getElem?_eq_some_iff.mp ht).1

/-- a table whose `mark()` bodies only mark and whose `blacken()` bodies only blacken yields well-formed heaps
(hypothesis of `collect_terminates`) -/
theorem label_wellFormed {S : Schema} {kinds : List Nat} {h : RawHeap}
    (hwf : S.wellFormed kinds = true) (hk : ∀ (i : Nat) (o : RawObj), h[i]? = some o → o.kind ∈ kinds) :
    WellFormed (label S h) := by
  intro i o' e' ho' he'
  obtain ⟨o, ho, rfl⟩ := label_getElem? ho'
  simp only [labelObj, List.mem_map] at he'
  obtain ⟨e, he, rfl⟩ := he'
  unfold Schema.wellFormed at hwf
  simp only [List.all_eq_true, Bool.and_eq_true, beq_iff_eq] at hwf
  obtain ⟨hm, hb⟩ := hwf o.kind (hk i o ho)
  unfold labelEdge
  split
  · constructor
    · intro hl
      obtain ⟨t, ht, hop⟩ := lookupOp_mem hl
      have := hb t ht
      rw [hop] at this
      cases this
    · intro hl
      obtain ⟨t, ht, hop⟩ := lookupOp_mem hl
      have := hm t ht
      rw [hop] at this
      cases this
  · simp

end Yarel.Gc
