/-
The invariant "every recorded compile error is located in the module being compiled" of the spec
parser state, and its preservation by the non-recursive parser helpers (ParserBase).
-/
import Yarel.Spec.Parser

namespace Yarel.Spec

/-- The fixed text every located message starts with. -/
def locPrefix (m : String) : String := "[module \"" ++ m ++ "\", line "

/-- The only unlocated message the spec parser can record. -/
def fuelMsg : String := "spec parser: fuel exhausted"

/-- `e` is a message reported through `errorAt` in module `m`, or the fuel message. -/
def MsgOk (m : String) (e : String) : Prop := (∃ rest, e = locPrefix m ++ rest) ∨ e = fuelMsg

/-- Parser-state invariant: the module path is `m` and every recorded message is `MsgOk`. -/
def SInv (m : String) (s : PState) : Prop := s.modulePath = m ∧ ∀ e ∈ s.errors, MsgOk m e

/-- The action preserves the invariant. -/
structure Pres (m : String) {α : Type} (x : P α) : Prop where
  run : ∀ s, SInv m s → SInv m (x.run s).2

namespace Pres
variable {m : String} {α β : Type}

theorem pure (a : α) : Pres m (Pure.pure a : P α) := ⟨fun _ h => h⟩

theorem bind {x : P α} {f : α → P β} (hx : Pres m x) (hf : ∀ a, Pres m (f a)) :
    Pres m (x >>= f) := ⟨fun s h => (hf _).run _ (hx.run s h)⟩

theorem get : Pres m (MonadState.get : P PState) := ⟨fun _ h => h⟩

theorem modify {f : PState → PState} (hf : ∀ s, SInv m s → SInv m (f s)) :
    Pres m (_root_.modify f : P Unit) := ⟨fun s h => hf s h⟩

theorem of_get {f : PState → P β} (h : ∀ s0, SInv m s0 → Pres m (f s0)) :
    Pres m (MonadState.get >>= f) := ⟨fun s hs => (h s hs).run s hs⟩

theorem set {s' : PState} (h : SInv m s') : Pres m (MonadStateOf.set s' : P PUnit) := ⟨fun _ _ => h⟩

theorem ite {c : Prop} [Decidable c] {x y : P α} (hx : Pres m x) (hy : Pres m y) :
    Pres m (if c then x else y) := by split <;> assumption

theorem forIn_list {γ : Type} (l : List γ) (init : β) (f : γ → β → P (ForInStep β))
    (hf : ∀ a b, Pres m (f a b)) : Pres m (forIn l init f) := by
  induction l generalizing init with
  | nil => exact pure _
  | cons a l ih =>
    rw [List.forIn_cons]
    refine bind (hf a init) ?_
    intro r
    cases r with
    | done b => exact pure _
    | yield b => exact ih b

end Pres

/-! ### The messages -/

theorem msgOk_errorAt (m : String) (line : Nat) (loc message : String) :
    MsgOk m ("[module \"" ++ m ++ "\", line " ++ toString line ++ "] Error" ++ loc ++ ": " ++ message) :=
  Or.inl ⟨toString line ++ "] Error" ++ loc ++ ": " ++ message, by simp [locPrefix, String.append_assoc]⟩

theorem SInv.push {m : String} {s : PState} (h : SInv m s) {e : String} (he : MsgOk m e) :
    SInv m { s with errors := s.errors.push e } := by
  refine ⟨h.1, ?_⟩
  intro e' he'
  rcases Array.mem_push.1 he' with h' | h'
  · exact h.2 e' h'
  · subst h'; exact he

theorem SInv.errorAtS {m : String} {s : PState} (h : SInv m s) (tok : Token) (msg : String) :
    SInv m (P.errorAtS s tok msg) := by
  unfold P.errorAtS
  split
  · exact h
  · have := h.1
    dsimp only
    refine ⟨h.1, ?_⟩
    intro e' he'
    rcases Array.mem_push.1 he' with h' | h'
    · exact h.2 e' h'
    · subst h'; rw [this]; exact msgOk_errorAt _ _ _ _

theorem SInv.advanceLoop {m : String} (n : Nat) {s : PState} (h : SInv m s) :
    SInv m (P.advanceLoop n s) := by
  induction n generalizing s with
  | zero => exact h
  | succ n ih =>
    unfold P.advanceLoop
    dsimp only
    split
    · exact h
    · refine ih (SInv.errorAtS ?_ _ _); exact h

/-- Leaves of `pres`: one `macro_rules` alternative per proved helper. -/
syntax "pres_leaf" : tactic
macro_rules | `(tactic| pres_leaf) => `(tactic| fail)

/-- Decompose a `do` block: binds, conditionals, matches; leaves are closed by `leaf`. -/
syntax "pres_with " tactic : tactic
macro_rules
  | `(tactic| pres_with $leaf) => `(tactic|
    repeat' (first
      | with_reducible exact Pres.pure _
      | with_reducible exact Pres.get
      | (with_reducible apply Pres.modify
         intro s hs
         first | exact hs | exact SInv.errorAtS hs _ _)
      | ($leaf:tactic)
      | (with_reducible apply Pres.of_get
         intro _ _)
      | (with_reducible apply Pres.set
         assumption)
      | with_reducible apply Pres.bind
      | with_reducible apply Pres.ite
      | intro _
      | with_reducible apply Pres.forIn_list
      | split
      | dsimp only))

/-- `pres_with pres_leaf` -/
macro "pres" : tactic => `(tactic| pres_with pres_leaf)

namespace P
variable {m : String}

theorem pres_advance : Pres m advance := by
  unfold advance
  apply Pres.modify; intro s hs
  exact SInv.advanceLoop _ (m := m) (s := { s with previous := s.current }) hs
macro_rules | `(tactic| pres_leaf) => `(tactic| with_reducible exact pres_advance)

theorem pres_errorAt (t : Token) (msg : String) : Pres m (errorAt t msg) := by
  unfold errorAt; pres
macro_rules | `(tactic| pres_leaf) => `(tactic| with_reducible apply pres_errorAt)

theorem pres_errorAtCurrent (msg : String) : Pres m (errorAtCurrent msg) := by
  unfold errorAtCurrent; pres
macro_rules | `(tactic| pres_leaf) => `(tactic| with_reducible apply pres_errorAtCurrent)

theorem pres_error (msg : String) : Pres m (error msg) := by
  unfold error; pres
macro_rules | `(tactic| pres_leaf) => `(tactic| with_reducible apply pres_error)

theorem pres_check (k : TokenKind) : Pres m (check k) := by
  unfold check; pres
macro_rules | `(tactic| pres_leaf) => `(tactic| with_reducible apply pres_check)

theorem pres_consume (k : TokenKind) (msg : String) : Pres m (consume k msg) := by
  unfold consume; pres
macro_rules | `(tactic| pres_leaf) => `(tactic| with_reducible apply pres_consume)

theorem pres_matchToken (k : TokenKind) : Pres m (matchToken k) := by
  unfold matchToken; pres
macro_rules | `(tactic| pres_leaf) => `(tactic| with_reducible apply pres_matchToken)

theorem pres_previous  : Pres m previous := by
  unfold previous; pres
macro_rules | `(tactic| pres_leaf) => `(tactic| with_reducible apply pres_previous)

theorem pres_current  : Pres m current := by
  unfold current; pres
macro_rules | `(tactic| pres_leaf) => `(tactic| with_reducible apply pres_current)

theorem pres_prevLine  : Pres m prevLine := by
  unfold prevLine; pres
macro_rules | `(tactic| pres_leaf) => `(tactic| with_reducible apply pres_prevLine)

theorem pres_matchBinaryAssignment  : Pres m matchBinaryAssignment := by
  unfold matchBinaryAssignment; pres
macro_rules | `(tactic| pres_leaf) => `(tactic| with_reducible apply pres_matchBinaryAssignment)

theorem pres_compiler  : Pres m compiler := by
  unfold compiler; pres
macro_rules | `(tactic| pres_leaf) => `(tactic| with_reducible apply pres_compiler)

theorem pres_modifyCompiler (f : Compiler → Compiler) : Pres m (modifyCompiler f) := by
  unfold modifyCompiler
  apply Pres.modify; intro s hs
  split
  · exact hs
  · exact hs
macro_rules | `(tactic| pres_leaf) => `(tactic| with_reducible apply pres_modifyCompiler)

theorem pres_emit (n : Nat) : Pres m (emit n) := by
  unfold emit; pres
macro_rules | `(tactic| pres_leaf) => `(tactic| with_reducible apply pres_emit)

theorem pres_codeLen  : Pres m codeLen := by
  unfold codeLen; pres
macro_rules | `(tactic| pres_leaf) => `(tactic| with_reducible apply pres_codeLen)

theorem pres_scopeDepth  : Pres m scopeDepth := by
  unfold scopeDepth; pres
macro_rules | `(tactic| pres_leaf) => `(tactic| with_reducible apply pres_scopeDepth)

theorem pres_makeConstant (key : String) : Pres m (makeConstant key) := by
  unfold makeConstant; pres
macro_rules | `(tactic| pres_leaf) => `(tactic| with_reducible apply pres_makeConstant)

theorem pres_identifierConstant (name : String) : Pres m (identifierConstant name) := by
  unfold identifierConstant; pres
macro_rules | `(tactic| pres_leaf) => `(tactic| with_reducible apply pres_identifierConstant)

theorem pres_functionConstant  : Pres m functionConstant := by
  unfold functionConstant; pres
macro_rules | `(tactic| pres_leaf) => `(tactic| with_reducible apply pres_functionConstant)

theorem pres_emitConstant (key : String) : Pres m (emitConstant key) := by
  unfold emitConstant; pres
macro_rules | `(tactic| pres_leaf) => `(tactic| with_reducible apply pres_emitConstant)

theorem pres_newCompiler (kind : FnKind) (name : String) : Pres m (newCompiler kind name) := by
  unfold newCompiler; pres
macro_rules | `(tactic| pres_leaf) => `(tactic| with_reducible apply pres_newCompiler)

theorem pres_beginScope  : Pres m beginScope := by
  unfold beginScope; pres
macro_rules | `(tactic| pres_leaf) => `(tactic| with_reducible apply pres_beginScope)

theorem pres_emitJump  : Pres m emitJump := by
  unfold emitJump; pres
macro_rules | `(tactic| pres_leaf) => `(tactic| with_reducible apply pres_emitJump)

theorem pres_patchJump (o : Nat) : Pres m (patchJump o) := by
  unfold patchJump; pres
macro_rules | `(tactic| pres_leaf) => `(tactic| with_reducible apply pres_patchJump)

theorem pres_patchOffsetAt (o : Nat) : Pres m (patchOffsetAt o) := by
  unfold patchOffsetAt; pres
macro_rules | `(tactic| pres_leaf) => `(tactic| with_reducible apply pres_patchOffsetAt)

theorem pres_emitLoop (l : Nat) : Pres m (emitLoop l) := by
  unfold emitLoop; pres
macro_rules | `(tactic| pres_leaf) => `(tactic| with_reducible apply pres_emitLoop)

theorem pres_emitReturn  : Pres m emitReturn := by
  unfold emitReturn; pres
macro_rules | `(tactic| pres_leaf) => `(tactic| with_reducible apply pres_emitReturn)

theorem pres_emitScopeEnd (b : Bool) (d : Nat) : Pres m (emitScopeEnd b d) := by
  unfold emitScopeEnd; pres
macro_rules | `(tactic| pres_leaf) => `(tactic| with_reducible apply pres_emitScopeEnd)

theorem pres_endScope  : Pres m endScope := by
  unfold endScope; pres
macro_rules | `(tactic| pres_leaf) => `(tactic| with_reducible apply pres_endScope)

theorem pres_addLocal (name : String) : Pres m (addLocal name) := by
  unfold addLocal; pres
macro_rules | `(tactic| pres_leaf) => `(tactic| with_reducible apply pres_addLocal)

theorem pres_addHiddenLocal (name : String) : Pres m (addHiddenLocal name) := by
  unfold addHiddenLocal; pres
macro_rules | `(tactic| pres_leaf) => `(tactic| with_reducible apply pres_addHiddenLocal)

theorem pres_markInitialisedAt (i : Nat) : Pres m (markInitialisedAt i) := by
  unfold markInitialisedAt; pres
macro_rules | `(tactic| pres_leaf) => `(tactic| with_reducible apply pres_markInitialisedAt)

theorem pres_markInitialised  : Pres m markInitialised := by
  unfold markInitialised; pres
macro_rules | `(tactic| pres_leaf) => `(tactic| with_reducible apply pres_markInitialised)

theorem pres_declareVariable  : Pres m declareVariable := by
  unfold declareVariable; pres
macro_rules | `(tactic| pres_leaf) => `(tactic| with_reducible apply pres_declareVariable)

theorem pres_parseVariable (msg : String) : Pres m (parseVariable msg) := by
  unfold parseVariable; pres
macro_rules | `(tactic| pres_leaf) => `(tactic| with_reducible apply pres_parseVariable)

theorem pres_defineVariable  : Pres m defineVariable := by
  unfold defineVariable; pres
macro_rules | `(tactic| pres_leaf) => `(tactic| with_reducible apply pres_defineVariable)

theorem pres_resolveLocal (name : String) : Pres m (resolveLocal name) := by
  unfold resolveLocal; pres
macro_rules | `(tactic| pres_leaf) => `(tactic| with_reducible apply pres_resolveLocal)

theorem pres_resolveUpvalue (name : String) : Pres m (resolveUpvalue name) := by
  unfold resolveUpvalue; pres
macro_rules | `(tactic| pres_leaf) => `(tactic| with_reducible apply pres_resolveUpvalue)

theorem pres_resolveVariable (name : String) : Pres m (resolveVariable name) := by
  unfold resolveVariable; pres
macro_rules | `(tactic| pres_leaf) => `(tactic| with_reducible apply pres_resolveVariable)

theorem pres_emitVariableOp (r : VarRef) : Pres m (emitVariableOp r) := by
  unfold emitVariableOp; pres
macro_rules | `(tactic| pres_leaf) => `(tactic| with_reducible apply pres_emitVariableOp)

theorem pres_pushLoop : Pres m pushLoop := by
  unfold pushLoop; pres
macro_rules | `(tactic| pres_leaf) => `(tactic| with_reducible apply pres_pushLoop)

theorem pres_popLoop : Pres m popLoop := by
  unfold popLoop; pres
macro_rules | `(tactic| pres_leaf) => `(tactic| with_reducible apply pres_popLoop)

theorem pres_currentLoopHeader : Pres m currentLoopHeader := by
  unfold currentLoopHeader; pres
macro_rules | `(tactic| pres_leaf) => `(tactic| with_reducible apply pres_currentLoopHeader)

theorem pres_checkNoAttributes : Pres m checkNoAttributes := by
  unfold checkNoAttributes; pres
macro_rules | `(tactic| pres_leaf) => `(tactic| with_reducible apply pres_checkNoAttributes)

theorem pres_checkSupportedAttributes (kind : String) : Pres m (checkSupportedAttributes kind) := by
  unfold checkSupportedAttributes; pres
macro_rules | `(tactic| pres_leaf) => `(tactic| with_reducible apply pres_checkSupportedAttributes)

theorem pres_takeAttribute (name : String) (n : Nat) : Pres m (takeAttribute name n) := by
  unfold takeAttribute; pres
macro_rules | `(tactic| pres_leaf) => `(tactic| with_reducible apply pres_takeAttribute)

theorem pres_attributeArgs (n : Nat) (acc : List Token) : Pres m (attributeArgs n acc) := by
  induction n generalizing acc with
  | zero => unfold attributeArgs; pres
  | succ n ih => unfold attributeArgs; pres_with (first | exact ih _ | pres_leaf)
macro_rules | `(tactic| pres_leaf) => `(tactic| with_reducible apply pres_attributeArgs)

theorem pres_parseAttribute : Pres m parseAttribute := by
  unfold parseAttribute; pres
macro_rules | `(tactic| pres_leaf) => `(tactic| with_reducible apply pres_parseAttribute)

theorem pres_attributeList (n : Nat) (acc : List Attribute) : Pres m (attributeList n acc) := by
  induction n generalizing acc with
  | zero => unfold attributeList; pres
  | succ n ih => unfold attributeList; pres_with (first | exact ih _ | pres_leaf)
macro_rules | `(tactic| pres_leaf) => `(tactic| with_reducible apply pres_attributeList)

theorem pres_attributesDeclaration : Pres m attributesDeclaration := by
  unfold attributesDeclaration; pres
macro_rules | `(tactic| pres_leaf) => `(tactic| with_reducible apply pres_attributesDeclaration)

theorem pres_synchroniseLoop (n : Nat) : Pres m (synchroniseLoop n) := by
  induction n with
  | zero => unfold synchroniseLoop; pres
  | succ n ih => unfold synchroniseLoop; pres_with (first | exact ih | pres_leaf)
macro_rules | `(tactic| pres_leaf) => `(tactic| with_reducible apply pres_synchroniseLoop)

theorem pres_synchronise : Pres m synchronise := by
  unfold synchronise; pres
macro_rules | `(tactic| pres_leaf) => `(tactic| with_reducible apply pres_synchronise)

theorem pres_parameterList (n : Nat) (k : TokenKind) (a b : String) : Pres m (parameterList n k a b) := by
  induction n with
  | zero => unfold parameterList; pres
  | succ n ih => unfold parameterList; pres_with (first | exact ih | pres_leaf)
macro_rules | `(tactic| pres_leaf) => `(tactic| with_reducible apply pres_parameterList)

theorem pres_finaliseCompiler (body : List Stmt) : Pres m (finaliseCompiler body) := by
  unfold finaliseCompiler; pres
macro_rules | `(tactic| pres_leaf) => `(tactic| with_reducible apply pres_finaliseCompiler)

theorem pres_fuelOut : Pres m fuelOut := by
  unfold fuelOut
  apply Pres.modify; intro s hs
  exact hs.push (Or.inr rfl)
macro_rules | `(tactic| pres_leaf) => `(tactic| with_reducible exact pres_fuelOut)

end P
end Yarel.Spec
