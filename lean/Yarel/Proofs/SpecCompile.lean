/-
`compileWith` in terms of the final parser state, and the located-errors invariant of that state.
-/
import Yarel.Proofs.SpecParserMutual

namespace Yarel.Spec
open P

/-- The whole parser run of `compileWith`: the parsed body and the final parser state. -/
def compileRun (tbl : List Rule) (source : String) (modulePath : String) : List Stmt × PState :=
  let toks := scanAll source
  let fuel := 16 * toks.size + 64
  let init : PState := { toks := toks, compilers := [Compiler.new .script ""], modulePath := modulePath }
  let prog : P (List Stmt) := do
    advance
    let body ← programLoop tbl fuel []
    checkNoAttributes
    return body
  prog.run init

/-- `compileWith` is: run the parser; errors recorded ⇒ `.error` with exactly those, else `.ok`. -/
theorem compileWith_eq (tbl : List Rule) (source : String) (modulePath : String) :
    compileWith tbl source modulePath =
      if !(compileRun tbl source modulePath).2.errors.isEmpty then
        .error (compileRun tbl source modulePath).2.errors.toList
      else .ok (.mk "" 0 .script (compileRun tbl source modulePath).1) := by
  unfold compileWith compileRun
  extract_lets toks fuel init prog
  generalize StateT.run prog init = r
  obtain ⟨body, s⟩ := r
  rfl

theorem compileRun_inv (tbl : List Rule) (source : String) (m : String) :
    SInv m (compileRun tbl source m).2 := by
  unfold compileRun
  dsimp only
  refine Pres.run ?_ _ ⟨rfl, by simp⟩
  have ih := allPres m tbl (16 * (scanAll source).size + 64)
  pres_with (first | with_reducible apply ih.programLoop | pres_leaf)

end Yarel.Spec
