/-
Progress: in a state satisfying the verifier's guarantees the frame machine is never stuck, except where
the frame is left (`Return`, or `Throw` without a handler of this frame).
-/
import Yarel.Proofs.C04Sound

namespace Yarel.C04
open Yarel.Bytecode Yarel.Verifier Yarel.FrameMachine

theorem flow_throw_op {i : Instr} {pc : Nat} (h : i.flow pc = .throw) : i.op = .throw := by
  unfold Instr.flow at h
  cases hop : i.op <;> simp only [hop] at h <;> first | rfl | (split at h <;> cases h) | cases h

theorem flow_jumpFinally_op {i : Instr} {pc : Nat} (h : i.flow pc = .jumpFinally) :
    i.op = .jumpFinally := by
  unfold Instr.flow at h
  cases hop : i.op <;> simp only [hop] at h <;> first | rfl | (split at h <;> cases h) | cases h

theorem flow_setLocal {i : Instr} {pc : Nat} (h : i.op = .setLocal) : i.flow pc = .next := by
  simp [Instr.flow, h]

theorem nonempty_of_pos {st : List Val} (h : 1 ≤ st.length) : ∃ v rest, st = v :: rest := by
  cases st with
  | nil => cases h
  | cons v rest => exact ⟨v, rest, rfl⟩

theorem progress_of_accessOk {fn : FnDump} {s : State} {i : Instr} (hd : decode fn s.pc = some i)
    (ok : AccessOk fn i s) :
    i.flow s.pc = .ret ∨ (i.flow s.pc = .throw ∧ s.handlers = []) ∨ ∃ s', Step fn s s' := by
  have normalStep : i.op ≠ .setLocal → ∀ t, NormalTarget (i.flow s.pc) (s.pc + i.size) t →
      ∃ s', Step fn s s' := fun hop t ht =>
    ⟨_, Step.normal (vs := List.replicate i.pushes ⟨0⟩) (ret' := s.ret) hd hop ok.stack ht
      (List.length_replicate ..) (Or.inl rfl)⟩
  cases hfl : i.flow s.pc with
  | next =>
    by_cases hop : i.op = .setLocal
    · have hneeds : 1 ≤ s.stack.length := by
        have := ok.stack
        simp [Instr.needs, Instr.pops, Instr.peeks, hop] at this
        exact this
      obtain ⟨v, rest, hst⟩ := nonempty_of_pos hneeds
      have hslot := ok.localSlot (by simp [Instr.usesLocal, hop])
      exact Or.inr (Or.inr ⟨_, Step.setLocal hd hop hst hslot⟩)
    · exact Or.inr (Or.inr (normalStep hop _ (hfl ▸ NormalTarget.next)))
  | jump t =>
    have hop : i.op ≠ .setLocal := fun h => by rw [flow_setLocal h] at hfl; cases hfl
    exact Or.inr (Or.inr (normalStep hop t (hfl ▸ NormalTarget.jump)))
  | branch t =>
    have hop : i.op ≠ .setLocal := fun h => by rw [flow_setLocal h] at hfl; cases hfl
    exact Or.inr (Or.inr (normalStep hop t (hfl ▸ NormalTarget.taken)))
  | ret => exact Or.inl rfl
  | throw =>
    cases hh : s.handlers with
    | nil => exact Or.inr (Or.inl ⟨rfl, rfl⟩)
    | cons h r =>
      have hop := flow_throw_op hfl
      have hmay : i.mayRaise = true := by simp [Instr.mayRaise, hop]
      exact Or.inr (Or.inr ⟨_, Step.raise (extra := []) (exc := ⟨0⟩) (ret' := s.ret) hd hmay ok.stack hh
        (Or.inl rfl)⟩)
  | jumpFinally =>
    have hop := flow_jumpFinally_op hfl
    obtain ⟨h, r, hh, _⟩ := ok.jumpFinally hfl
    have hneeds : 1 ≤ s.stack.length := by
      have := ok.stack
      simp [Instr.needs, Instr.pops, Instr.peeks, hop] at this
      exact this
    obtain ⟨v, rest, hst⟩ := nonempty_of_pos hneeds
    exact Or.inr (Or.inr ⟨_, Step.jumpFinally hd hfl hst hh⟩)
  | endFinally =>
    cases hr : s.ret with
    | none => exact Or.inr (Or.inr ⟨_, Step.endFinallyFall hd hfl hr⟩)
    | some r => exact Or.inr (Or.inr ⟨_, Step.endFinallyReturn (v := ⟨0⟩) hd hfl hr⟩)
  | pushHandler c f => exact Or.inr (Or.inr ⟨_, Step.pushHandler hd hfl⟩)
  | popHandler => exact Or.inr (Or.inr ⟨_, Step.popHandler hd hfl⟩)
  | invalid => exact absurd hfl ok.loopTarget

end Yarel.C04
