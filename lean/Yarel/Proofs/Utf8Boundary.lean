/-
Boundary lemmas: `isBoundary` on valid strings, splitting at boundaries, slices are valid.
-/
import Yarel.Proofs.Utf8
namespace Yarel.Utf8

theorem isBoundary_zero (s : List UInt8) : isBoundary s 0 = true := by simp [isBoundary]

theorem isBoundary_length (s : List UInt8) : isBoundary s s.length = true := by
  unfold isBoundary
  split
  · rfl
  · simp

theorem isBoundary_le_length {s : List UInt8} {i : Nat} (h : isBoundary s i = true) : i ≤ s.length := by
  unfold isBoundary at h
  split at h
  · omega
  · split at h
    · simp only [beq_iff_eq] at h; omega
    · rename_i b hb
      have := (List.getElem?_eq_some_iff.mp hb).1
      omega

theorem isBoundary_nil (i : Nat) : isBoundary [] i = decide (i = 0) := by
  unfold isBoundary
  split
  · simp [*]
  · simp [*]

/-- Inside the string, a boundary is a position whose byte is not a continuation byte. -/
theorem isBoundary_of_lt {s : List UInt8} {i : Nat} (hi : i < s.length) (h0 : i ≠ 0) :
    isBoundary s i = !isCont s[i] := by
  unfold isBoundary
  rw [if_neg h0, List.getElem?_eq_getElem hi]

theorem isBoundary_append_left (a b : List UInt8) {i : Nat} (hi : i < a.length) :
    isBoundary (a ++ b) i = (decide (i = 0) || !isCont a[i]) := by
  unfold isBoundary
  split
  · simp [*]
  · rename_i h0
    rw [List.getElem?_append_left hi, List.getElem?_eq_getElem hi]
    simp [h0]

theorem isBoundary_append_right (a : List UInt8) {b : List UInt8} (hb : Valid b) {i : Nat}
    (hi : a.length ≤ i) : isBoundary (a ++ b) i = isBoundary b (i - a.length) := by
  by_cases h0 : i = a.length
  · subst h0
    rw [Nat.sub_self, isBoundary_zero]
    unfold isBoundary
    split
    · rfl
    · rw [List.getElem?_append_right (Nat.le_refl _), Nat.sub_self]
      cases b with
      | nil => simp
      | cons x t => simp [hb.head_not_cont]
  · have h1 : i ≠ 0 := by omega
    have h2 : i - a.length ≠ 0 := by omega
    unfold isBoundary
    rw [if_neg h1, if_neg h2, List.getElem?_append_right hi]
    split
    · simp only [List.length_append]
      rw [Bool.eq_iff_iff]; simp only [beq_iff_eq]; omega
    · rfl

/-- Positions strictly inside a character are not boundaries. -/
theorem isBoundary_inside_char {c : Nat} (hc : isScalar c = true) (rest : List UInt8) {i : Nat}
    (h0 : 0 < i) (hi : i < (encodeCP c).length) : isBoundary (encodeCP c ++ rest) i = false := by
  obtain ⟨b0, tl, he, _, htl, _⟩ := encodeCP_shape c (isScalar_le hc)
  rw [isBoundary_append_left _ _ hi]
  have : (encodeCP c)[i] ∈ tl := by
    simp only [he]
    cases i with
    | zero => omega
    | succ j => simp
  simp [htl _ this]; omega

/-- `boundary_iff_prefix`, list form. -/
theorem isBoundary_encode_iff (cps : List Nat) (h : ∀ c ∈ cps, isScalar c = true) (i : Nat) :
    isBoundary (encode cps) i = true ↔ ∃ k, k ≤ cps.length ∧ i = (encode (cps.take k)).length := by
  induction cps generalizing i with
  | nil =>
    simp only [encode, isBoundary_nil, decide_eq_true_eq, List.length_nil, Nat.le_zero_eq,
      List.take_nil]
    constructor
    · rintro rfl; exact ⟨0, rfl, rfl⟩
    · rintro ⟨_, _, h⟩; exact h
  | cons c cs ih =>
    have hc := h c (by simp)
    have hcs : ∀ x ∈ cs, isScalar x = true := fun x hx => h x (by simp [hx])
    have hpos := encodeCP_length_pos c
    simp only [encode]
    by_cases h0 : i = 0
    · subst h0
      simp only [isBoundary_zero, true_iff]
      exact ⟨0, by simp, by simp [encode]⟩
    by_cases hlt : i < (encodeCP c).length
    · rw [isBoundary_inside_char hc _ (by omega) hlt]
      simp only [Bool.false_eq_true, false_iff, not_exists, not_and]
      intro k _ hk
      cases k with
      | zero => simp [encode] at hk; omega
      | succ k => simp only [List.take_succ_cons, encode, List.length_append] at hk; omega
    · rw [isBoundary_append_right _ ⟨cs, hcs, rfl⟩ (by omega), ih hcs]
      constructor
      · rintro ⟨k, hk, hi⟩
        refine ⟨k + 1, by simp; omega, ?_⟩
        simp only [List.take_succ_cons, encode, List.length_append]; omega
      · rintro ⟨k, hk, hi⟩
        cases k with
        | zero => simp [encode] at hi; omega
        | succ k =>
          simp only [List.take_succ_cons, encode, List.length_append] at hi
          simp only [List.length_cons] at hk
          exact ⟨k, by omega, by omega⟩

/-- A boundary splits a valid string into two valid strings. -/
theorem Valid.split_at_boundary {s : List UInt8} (hs : Valid s) {i : Nat} (hi : isBoundary s i = true) :
    ∃ a b, s = a ++ b ∧ a.length = i ∧ Valid a ∧ Valid b := by
  obtain ⟨cps, h, rfl⟩ := hs
  obtain ⟨k, _, hk⟩ := (isBoundary_encode_iff cps h i).mp hi
  refine ⟨encode (cps.take k), encode (cps.drop k), ?_, hk.symm, ?_, ?_⟩
  · rw [← encode_append, List.take_append_drop]
  · exact ⟨_, fun c hc => h c (List.mem_of_mem_take hc), rfl⟩
  · exact ⟨_, fun c hc => h c (List.mem_of_mem_drop hc), rfl⟩

theorem Valid.boundary_of_append {a b : List UInt8} (hb : Valid b) :
    isBoundary (a ++ b) a.length = true := by
  rw [isBoundary_append_right a hb (Nat.le_refl _), Nat.sub_self, isBoundary_zero]

theorem Valid.take_of_boundary {s : List UInt8} (hs : Valid s) {i : Nat} (hi : isBoundary s i = true) :
    Valid (s.take i) := by
  obtain ⟨a, b, rfl, rfl, ha, _⟩ := hs.split_at_boundary hi
  simpa using ha

theorem Valid.drop_of_boundary {s : List UInt8} (hs : Valid s) {i : Nat} (hi : isBoundary s i = true) :
    Valid (s.drop i) := by
  obtain ⟨a, b, rfl, rfl, _, hb⟩ := hs.split_at_boundary hi
  simpa using hb

theorem isBoundary_take {s : List UInt8} {a b : Nat} (hab : a ≤ b) (ha : isBoundary s a = true) :
    isBoundary (s.take b) a = true := by
  have hle := isBoundary_le_length ha
  by_cases h0 : a = 0
  · subst h0; exact isBoundary_zero _
  by_cases hlt : a < (s.take b).length
  · have hlt' : a < s.length := by simp only [List.length_take] at hlt; omega
    rw [isBoundary_of_lt hlt h0]
    rw [isBoundary_of_lt hlt' h0] at ha
    simpa using ha
  · have : a = (s.take b).length := by simp only [List.length_take] at hlt ⊢; omega
    rw [this]; exact isBoundary_length _

/-- `slice_valid`. -/
theorem Valid.slice {s : List UInt8} (hs : Valid s) {a b : Nat} (hab : a ≤ b)
    (ha : isBoundary s a = true) (hb : isBoundary s b = true) : Valid (Utf8.slice s a b) := by
  have h1 : Utf8.slice s a b = (s.take b).drop a := by
    unfold Utf8.slice
    rw [List.drop_take]
  rw [h1]
  exact (hs.take_of_boundary hb).drop_of_boundary (isBoundary_take hab ha)

end Yarel.Utf8
