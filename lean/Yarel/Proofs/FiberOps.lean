/-
Helper lemmas for C09: what exactly each fiber operation does in a state satisfying the invariant, and that
the invariant is preserved. Model: Yarel/Model/Fibers.lean.
-/
import Yarel.Proofs.FiberChain

namespace Yarel.Fibers

theorem leave_ok {fb fb' : Fiber} {p s : Bool} {pc : Nat} (h : leave fb p s pc = .ok fb') :
    fb' = leftFiber fb p s pc ∧ (p = true → fb.st.stack ≠ []) ∧ (s = true → fb.st.frames ≠ 0) := by
  unfold leave at h
  split at h
  · cases h
  · split at h
    · cases h
    · rename_i h1 h2
      cases h
      refine ⟨rfl, ?_, ?_⟩
      · intro hp; subst hp; simpa using h1
      · intro hs; subst hs; simpa using h2

theorem leave_of {fb : Fiber} {p s : Bool} {pc : Nat} (h1 : p = true → fb.st.stack ≠ [])
    (h2 : s = true → fb.st.frames ≠ 0) : leave fb p s pc = .ok (leftFiber fb p s pc) := by
  unfold leave
  rw [if_neg, if_neg]
  · intro h; simp only [Bool.and_eq_true, decide_eq_true_eq] at h; exact h2 h.1 h.2
  · intro h; simp only [Bool.and_eq_true, decide_eq_true_eq] at h; exact h1 h.1 h.2

@[simp] theorem leftFiber_caller (fb : Fiber) (p s : Bool) (pc : Nat) :
    (leftFiber fb p s pc).caller = fb.caller := rfl

@[simp] theorem leftFiber_frames (fb : Fiber) (p s : Bool) (pc : Nat) :
    (leftFiber fb p s pc).st.frames = fb.st.frames := rfl

@[simp] theorem leftFiber_handlers (fb : Fiber) (p s : Bool) (pc : Nat) :
    (leftFiber fb p s pc).st.handlers = fb.st.handlers := rfl

/-- The state `load_fiber` produces (when it succeeds) in terms of the state before. -/
def loadResult (vm : Vm) (a f : Nat) (cur tgt : Fiber) (arg : Option Val) (s : List Val) : Vm :=
  { vm with
    fibers := (vm.fibers.set a (leftFiber cur arg.isSome true vm.pc)).set f
      { tgt with caller := some a, st := { tgt.st with stack := s } },
    fiber := some f, unsafeFiber := some f, pc := tgt.savedIp }

theorem load_ok_inv {b : Build} {rep : Bool} {vm vm' : Vm} {f : Nat} {arg : Option Val}
    {root a : Nat} {rest : List Nat} (hg : Chain root vm (a :: rest)) (hne : f ≠ root)
    (h : load b rep vm f arg = .ok vm') :
    ∃ tgt cur s, vm.fibers[f]? = some tgt ∧ tgt.st.frames ≠ 0 ∧ tgt.caller = none ∧ f ∉ a :: rest ∧
      vm.fibers[a]? = some cur ∧ cur.st.frames ≠ 0 ∧ (arg.isSome = true → cur.st.stack ≠ []) ∧
      handOver rep tgt arg = some s ∧ vm' = loadResult vm a f cur tgt arg s := by
  have hfib : vm.fiber = some a := by simpa using hg.fiber
  have hact := hg.active b
  unfold load at h
  split at h
  · cases h
  · rename_i tgt htgt
    split at h
    · cases h
    · rename_i hfin
      split at h
      · cases h
      · rename_i hcal
        have hcn : tgt.caller = none := by
          cases hc : tgt.caller with
          | none => rfl
          | some c => simp [hc] at hcal
        have hnot : f ∉ a :: rest := by
          intro hm
          have := (hg.callers f tgt htgt).mpr ⟨hm, hne⟩
          simp [hcn] at this
        have hfa : f ≠ a := fun e => hnot (e ▸ List.mem_cons_self)
        simp only [leaveCurrent, hfib, Option.isSome_some, if_true, hact] at h
        split at h
        · cases h
        · rename_i fibers1 hl
          split at hl
          · cases hl
          · rename_i cur hcur
            split at hl
            · rename_i cur' hlv
              cases hl
              obtain ⟨rfl, h1, h2⟩ := leave_ok hlv
              unfold switchTo at h
              rw [List.getElem?_set_ne (Ne.symm hfa), htgt] at h
              simp only at h
              split at h
              · cases h
              · rename_i s hs
                cases h
                refine ⟨tgt, cur, s, htgt, ?_, hcn, hnot, hcur, h2 rfl, h1, hs, ?_⟩
                · simpa [Fiber.hasFinished] using hfin
                · simp only [loadResult, hfib]
            · cases hl

/-- The state `unload_fiber` produces (when it succeeds). -/
def unloadResult (vm : Vm) (a c : Nat) (cur cf : Fiber) (arg : Option Val) (s : List Val) : Vm :=
  { vm with
    fibers := ((vm.fibers.set a (leftFiber cur arg.isSome (!cur.hasFinished) vm.pc)).set a
        { leftFiber cur arg.isSome (!cur.hasFinished) vm.pc with caller := none }).set c
        { cf with st := { cf.st with stack := s } },
    fiber := some c, unsafeFiber := some c, pc := cf.savedIp }

theorem unload_ok_inv {b : Build} {vm vm' : Vm} {arg : Option Val}
    {root a : Nat} {rest : List Nat} (hg : Chain root vm (a :: rest))
    (h : unload b vm arg = .ok vm') :
    ∃ cur c t cf s, rest = c :: t ∧ vm.fibers[a]? = some cur ∧ cur.caller = some c ∧ c ≠ a ∧
      (arg.isSome = true → cur.st.stack ≠ []) ∧
      vm.fibers[c]? = some cf ∧ cf.st.frames ≠ 0 ∧ pokeTop cf.st.stack (arg.getD .nil) = some s ∧
      vm' = unloadResult vm a c cur cf arg s := by
  have hfib : vm.fiber = some a := by simpa using hg.fiber
  have hact := hg.active b
  unfold unload at h
  simp only [hact] at h
  split at h
  · cases h
  · rename_i cur hcur
    split at h
    · cases h
    · rename_i cur' hlv
      obtain ⟨rfl, h1, _⟩ := leave_ok hlv
      split at h
      · cases h
      · rename_i c hc
        simp only [leftFiber_caller] at hc
        -- the chain says who `c` is
        obtain ⟨t, rfl, hca⟩ : ∃ t, rest = c :: t ∧ c ≠ a := by
          cases rest with
          | nil =>
            obtain ⟨_, fb, hfb, hn⟩ := hg.isChain
            rw [hcur] at hfb; cases hfb; rw [hc] at hn; cases hn
          | cons c' t =>
            obtain ⟨⟨fb, hfb, hn⟩, _⟩ := hg.isChain
            rw [hcur] at hfb; cases hfb; rw [hc] at hn; cases hn
            refine ⟨t, rfl, ?_⟩
            intro e; subst e
            have := hg.nodup
            simp at this
        have hlt : a < vm.fibers.length := (List.getElem?_eq_some_iff.mp hcur).1
        unfold switchBack at h
        simp only [hfib] at h
        rw [List.getElem?_set_self hlt] at h
        simp only at h
        rw [List.getElem?_set_ne (Ne.symm hca), List.getElem?_set_ne (Ne.symm hca)] at h
        split at h
        · cases h
        · rename_i cf hcf
          split at h
          · cases h
          · rename_i s hs
            split at h
            · cases h
            · rename_i hfr
              cases h
              exact ⟨cur, c, t, cf, s, rfl, hcur, hc, hca, h1, hcf, hfr, hs, rfl⟩

theorem unload_error_inv {b : Build} {vm vm' : Vm} {arg : Option Val} {e : Err}
    {root a : Nat} {rest : List Nat} (hg : Chain root vm (a :: rest))
    (h : unload b vm arg = .error e vm') :
    ∃ cur, e = .yieldFromRoot ∧ rest = [] ∧ a = root ∧ vm.fibers[a]? = some cur ∧ cur.caller = none ∧
      vm' = { vm with fibers := vm.fibers.set a (leftFiber cur arg.isSome (!cur.hasFinished) vm.pc) } := by
  have hact := hg.active b
  unfold unload at h
  simp only [hact] at h
  split at h
  · cases h
  · rename_i cur hcur
    split at h
    · cases h
    · rename_i cur' hlv
      obtain ⟨rfl, _, _⟩ := leave_ok hlv
      split at h
      · rename_i hc
        simp only [leftFiber_caller] at hc
        cases h
        cases rest with
        | nil =>
          obtain ⟨hr, _⟩ := hg.isChain
          exact ⟨cur, rfl, rfl, hr, hcur, hc, rfl⟩
        | cons c' t =>
          obtain ⟨⟨fb, hfb, hn⟩, _⟩ := hg.isChain
          rw [hcur] at hfb; cases hfb; rw [hc] at hn; cases hn
      · rename_i c hc
        unfold switchBack at h
        split at h
        · cases h
        · split at h
          · cases h
          · split at h
            · cases h
            · split at h
              · cases h
              · split at h <;> cases h

/-! ### lookups in the result states -/

theorem get_set2 {fs : List Fiber} {a f : Nat} {L T : Fiber} (ha : a < fs.length) (hf : f < fs.length)
    (g : Nat) :
    ((fs.set a L).set f T)[g]? = if g = f then some T else if g = a then some L else fs[g]? := by
  by_cases h1 : g = f
  · subst h1; simp [hf]
  · by_cases h2 : g = a
    · subst h2; simp [h1, ha, Ne.symm h1]
    · simp [h1, h2, Ne.symm h1, Ne.symm h2]

theorem get_set1 {fs : List Fiber} {a : Nat} {L : Fiber} (ha : a < fs.length) (g : Nat) :
    (fs.set a L)[g]? = if g = a then some L else fs[g]? := by
  by_cases h2 : g = a
  · subst h2; simp [ha]
  · simp [h2, Ne.symm h2]

theorem lt_of_get {fs : List Fiber} {a : Nat} {fb : Fiber} (h : fs[a]? = some fb) : a < fs.length :=
  (List.getElem?_eq_some_iff.mp h).1

/-- A fiber whose replacement (if any) keeps `caller` and `frames` keeps them in the new list. -/
theorem look_keep {fs fs' : List Fiber} {i j : Nat} {I J : Fiber}
    (look : ∀ g, fs'[g]? = if g = i then some I else if g = j then some J else fs[g]?)
    {x : Nat} {fb : Fiber} (hfb : fs[x]? = some fb)
    (hI : x = i → I.caller = fb.caller ∧ I.st.frames = fb.st.frames)
    (hJ : x = j → J.caller = fb.caller ∧ J.st.frames = fb.st.frames) :
    ∃ fb', fs'[x]? = some fb' ∧ fb'.caller = fb.caller ∧ fb'.st.frames = fb.st.frames := by
  rw [look]
  by_cases h1 : x = i
  · exact ⟨I, by simp [h1], (hI h1).1, (hI h1).2⟩
  · by_cases h2 : x = j
    · refine ⟨J, ?_, (hJ h2).1, (hJ h2).2⟩
      subst h2; simp [h1]
    · exact ⟨fb, by simp [h1, h2, hfb], rfl, rfl⟩

/-! ### preservation of the invariant -/

theorem load_good {b : Build} {rep : Bool} {vm vm' : Vm} {f : Nat} {arg : Option Val}
    {root a : Nat} {rest : List Nat} (hg : Good root vm (a :: rest)) (hne : f ≠ root)
    (h : load b rep vm f arg = .ok vm') : Good root vm' (f :: a :: rest) := by
  obtain ⟨tgt, cur, s, htgt, hfr, hcn, hnot, hcur, hcfr, _, _, rfl⟩ := load_ok_inv hg.toChain hne h
  have hfa : f ≠ a := fun e => hnot (e ▸ List.mem_cons_self)
  have look : ∀ g, (loadResult vm a f cur tgt arg s).fibers[g]? =
      if g = f then some { tgt with caller := some a, st := { tgt.st with stack := s } }
      else if g = a then some (leftFiber cur arg.isSome true vm.pc) else vm.fibers[g]? :=
    fun g => get_set2 (lt_of_get hcur) (lt_of_get htgt) g
  have keep : ∀ x ∈ a :: rest, ∀ fb, vm.fibers[x]? = some fb →
      ∃ fb', (loadResult vm a f cur tgt arg s).fibers[x]? = some fb' ∧ fb'.caller = fb.caller ∧
        fb'.st.frames = fb.st.frames := by
    intro x hx fb hfb
    have hxf : x ≠ f := fun e => hnot (e ▸ hx)
    refine look_keep look hfb (fun e => absurd e hxf) ?_
    intro e; subst e; rw [hcur] at hfb; cases hfb; exact ⟨rfl, rfl⟩
  have alive' : ∀ x ∈ a :: rest, Alive vm.fibers x → Alive (loadResult vm a f cur tgt arg s).fibers x := by
    rintro x hx ⟨fb, hfb, hpos⟩
    obtain ⟨fb', h1, _, h3⟩ := keep x hx fb hfb
    exact ⟨fb', h1, by omega⟩
  have hf' : (loadResult vm a f cur tgt arg s).fibers[f]? =
      some { tgt with caller := some a, st := { tgt.st with stack := s } } := by
    rw [look]; simp
  refine { fiber := rfl, unsafeFiber := rfl, isChain := ⟨?_, ?_⟩, nodup := List.nodup_cons.mpr ⟨hnot, hg.nodup⟩,
           callers := ?_, tailAlive := ?_, alive := ?_ }
  · exact ⟨_, hf', rfl⟩
  · refine hg.isChain.congr ?_
    rintro x hx c ⟨fb, hfb, rfl⟩
    obtain ⟨fb', h1, h2, _⟩ := keep x hx fb hfb
    exact ⟨fb', h1, h2⟩
  · intro g fb hfb
    rw [look] at hfb
    by_cases hgf : g = f
    · subst hgf
      simp only [if_true, Option.some.injEq] at hfb; subst hfb
      simp [hne]
    · simp only [hgf, if_false] at hfb
      by_cases hga : g = a
      · subst hga
        simp only [if_true, Option.some.injEq] at hfb; subst hfb
        have := hg.callers g cur hcur
        simp only [leftFiber_caller, List.mem_cons] at this ⊢
        rw [this]; simp [hgf]
      · simp only [hga, if_false] at hfb
        have := hg.callers g fb hfb
        simp only [List.mem_cons] at this ⊢
        rw [this]; simp [hgf]
  · intro x hx
    exact alive' x hx (hg.alive x hx)
  · intro x hx
    rcases List.mem_cons.mp hx with rfl | hx
    · exact ⟨_, hf', Nat.pos_of_ne_zero hfr⟩
    · exact alive' x hx (hg.alive x hx)

theorem unload_good {b : Build} {vm vm' : Vm} {arg : Option Val}
    {root a : Nat} {rest : List Nat} (hg : Chain root vm (a :: rest))
    (h : unload b vm arg = .ok vm') : Good root vm' rest := by
  obtain ⟨cur, c, t, cf, s, rfl, hcur, hcc, hca, _, hcf, hcfr, _, rfl⟩ := unload_ok_inv hg h
  have hla := lt_of_get hcur
  have hnot : a ∉ c :: t := (List.nodup_cons.mp hg.nodup).1
  have look : ∀ g, (unloadResult vm a c cur cf arg s).fibers[g]? =
      if g = c then some { cf with st := { cf.st with stack := s } }
      else if g = a then some { leftFiber cur arg.isSome (!cur.hasFinished) vm.pc with caller := none }
      else vm.fibers[g]? := by
    intro g
    simp only [unloadResult, List.set_set]
    exact get_set2 hla (lt_of_get hcf) g
  have keep : ∀ x ∈ c :: t, ∀ fb, vm.fibers[x]? = some fb →
      ∃ fb', (unloadResult vm a c cur cf arg s).fibers[x]? = some fb' ∧ fb'.caller = fb.caller ∧
        fb'.st.frames = fb.st.frames := by
    intro x hx fb hfb
    have hxa : x ≠ a := fun e => hnot (e ▸ hx)
    refine look_keep look hfb ?_ (fun e => absurd e hxa)
    intro e; subst e; rw [hcf] at hfb; cases hfb; exact ⟨rfl, rfl⟩
  have alive' : ∀ x ∈ c :: t, Alive vm.fibers x → Alive (unloadResult vm a c cur cf arg s).fibers x := by
    rintro x hx ⟨fb, hfb, hpos⟩
    obtain ⟨fb', h1, _, h3⟩ := keep x hx fb hfb
    exact ⟨fb', h1, by omega⟩
  have hall : ∀ x ∈ c :: t, Alive vm.fibers x := fun x hx => hg.tailAlive x hx
  refine { fiber := rfl, unsafeFiber := rfl, isChain := ?_, nodup := (List.nodup_cons.mp hg.nodup).2,
           callers := ?_, tailAlive := ?_, alive := ?_ }
  · have hch : IsChain vm.fibers root (c :: t) := hg.isChain.2
    refine hch.congr ?_
    rintro x hx k ⟨fb, hfb, rfl⟩
    obtain ⟨fb', h1, h2, _⟩ := keep x hx fb hfb
    exact ⟨fb', h1, h2⟩
  · intro g fb hfb
    rw [look] at hfb
    by_cases hgc : g = c
    · subst hgc
      simp only [if_true, Option.some.injEq] at hfb; subst hfb
      have := hg.callers g cf hcf
      simp only [List.mem_cons] at this ⊢
      rw [this]; simp [hca]
    · simp only [hgc, if_false] at hfb
      by_cases hga : g = a
      · subst hga
        simp only [if_true, Option.some.injEq] at hfb; subst hfb
        simp only [Option.isSome_none, Bool.false_eq_true, false_iff, not_and]
        intro hm; exact absurd hm hnot
      · simp only [hga, if_false] at hfb
        have := hg.callers g fb hfb
        simp only [List.mem_cons] at this ⊢
        rw [this]; simp [hga]
  · intro x hx
    exact alive' x (List.mem_cons_of_mem _ hx) (hall x (List.mem_cons_of_mem _ hx))
  · intro x hx
    exact alive' x hx (hall x hx)

/-- Changing the running fiber's record while keeping its `caller` (and keeping it alive, if it was)
preserves the invariant: this covers all local computation. -/
theorem Chain.set_active {root : Nat} {vm : Vm} {a : Nat} {rest : List Nat} (hg : Chain root vm (a :: rest))
    {cur fb' : Fiber} (hcur : vm.fibers[a]? = some cur) (hc : fb'.caller = cur.caller)
    (pc : Nat) (hd : Bool) :
    Chain root { vm with fibers := vm.fibers.set a fb', pc := pc, handling := hd } (a :: rest) := by
  have hla := lt_of_get hcur
  have hnot : a ∉ rest := (List.nodup_cons.mp hg.nodup).1
  refine hg.congr rfl rfl ?_ ?_ ?_
  · intro f fb1 hfb1
    simp only [get_set1 hla] at hfb1
    by_cases hfa : f = a
    · subst hfa; simp only [if_true, Option.some.injEq] at hfb1; subst hfb1
      exact ⟨cur, hcur, hc.symm⟩
    · simp only [hfa, if_false] at hfb1; exact ⟨fb1, hfb1, rfl⟩
  · intro f fb hfb
    simp only [get_set1 hla]
    by_cases hfa : f = a
    · subst hfa; rw [hcur] at hfb; cases hfb; exact ⟨fb', by simp, hc.symm⟩
    · exact ⟨fb, by simp [hfa, hfb], rfl⟩
  · rintro x hx ⟨fb, hfb, hpos⟩
    have hxa : x ≠ a := fun e => hnot (e ▸ hx)
    exact ⟨fb, by simp [get_set1 hla, hxa, hfb], hpos⟩

theorem Good.set_active {root : Nat} {vm : Vm} {a : Nat} {rest : List Nat} (hg : Good root vm (a :: rest))
    {cur fb' : Fiber} (hcur : vm.fibers[a]? = some cur) (hc : fb'.caller = cur.caller)
    (hfr : 0 < fb'.st.frames) (pc : Nat) (hd : Bool) :
    Good root { vm with fibers := vm.fibers.set a fb', pc := pc, handling := hd } (a :: rest) := by
  have hla := lt_of_get hcur
  have hnot : a ∉ rest := (List.nodup_cons.mp hg.nodup).1
  refine { toChain := hg.toChain.set_active hcur hc pc hd, alive := ?_ }
  intro x hx
  by_cases hxa : x = a
  · subst hxa; exact ⟨fb', by simp [get_set1 hla], hfr⟩
  · obtain ⟨fb, hfb, hpos⟩ := hg.alive x hx
    exact ⟨fb, by simp [get_set1 hla, hxa, hfb], hpos⟩

theorem unload_error_good {b : Build} {vm vm' : Vm} {arg : Option Val} {e : Err}
    {root a : Nat} {rest : List Nat} (hg : Good root vm (a :: rest))
    (h : unload b vm arg = .error e vm') : Good root vm' (a :: rest) := by
  obtain ⟨cur, _, _, _, hcur, _, rfl⟩ := unload_error_inv hg.toChain h
  obtain ⟨fb, hfb, hpos⟩ := hg.alive a List.mem_cons_self
  rw [hcur] at hfb; cases hfb
  exact hg.set_active hcur (leftFiber_caller _ _ _ _) (by simpa using hpos) vm.pc vm.handling

theorem load_error_same {b : Build} {rep : Bool} {vm vm' : Vm} {f : Nat} {arg : Option Val} {e : Err}
    (h : load b rep vm f arg = .error e vm') : vm' = vm := by
  unfold load at h
  split at h
  · cases h
  · split at h
    · cases h; rfl
    · split at h
      · cases h; rfl
      · split at h
        · cases h
        · unfold switchTo at h
          split at h
          · cases h
          · split at h <;> cases h

theorem newFiber_good {root : Nat} {vm : Vm} {ch : List Nat} (hg : Good root vm ch) (closure : Nat) :
    Good root (newFiber vm closure).1 ch := by
  have look : ∀ (g : Nat) (fb : Fiber), vm.fibers[g]? = some fb →
      (vm.fibers ++ [Fiber.fresh closure])[g]? = some fb := by
    intro g fb hfb
    rw [List.getElem?_append_left (lt_of_get hfb)]; exact hfb
  have look' : ∀ (g : Nat) (fb : Fiber), (vm.fibers ++ [Fiber.fresh closure])[g]? = some fb →
      vm.fibers[g]? = some fb ∨ (g = vm.fibers.length ∧ fb = Fiber.fresh closure) := by
    intro g fb hfb
    by_cases hlt : g < vm.fibers.length
    · rw [List.getElem?_append_left hlt] at hfb; exact .inl hfb
    · rw [List.getElem?_append_right (by omega)] at hfb
      have hz : g - vm.fibers.length = 0 := by
        cases hk : g - vm.fibers.length with
        | zero => rfl
        | succ k => rw [hk] at hfb; simp at hfb
      rw [hz] at hfb
      simp only [List.getElem?_cons_zero, Option.some.injEq] at hfb
      exact .inr ⟨by omega, hfb.symm⟩
  refine { fiber := hg.fiber, unsafeFiber := hg.unsafeFiber, isChain := ?_, nodup := hg.nodup,
           callers := ?_, tailAlive := ?_, alive := ?_ }
  · refine hg.isChain.congr ?_
    rintro x _ c ⟨fb, hfb, rfl⟩
    exact ⟨fb, look x fb hfb, rfl⟩
  · intro g fb hfb
    rcases look' g fb hfb with h1 | ⟨rfl, rfl⟩
    · exact hg.callers g fb h1
    · simp only [Fiber.fresh, Option.isSome_none, Bool.false_eq_true, false_iff, not_and]
      intro hm
      exact absurd (hg.isChain.lt _ hm) (by omega)
  · rintro x hx
    obtain ⟨fb, hfb, hpos⟩ := hg.tailAlive x hx
    exact ⟨fb, look x fb hfb, hpos⟩
  · rintro x hx
    obtain ⟨fb, hfb, hpos⟩ := hg.alive x hx
    exact ⟨fb, look x fb hfb, hpos⟩

theorem pokeActive_ok_inv {b : Build} {vm vm' : Vm} {v : Val} {root a : Nat} {rest : List Nat}
    (hg : Chain root vm (a :: rest)) (h : pokeActive b vm v = .ok vm') :
    ∃ cf s, vm.fibers[a]? = some cf ∧ pokeTop cf.st.stack v = some s ∧
      vm' = { vm with fibers := vm.fibers.set a { cf with st := { cf.st with stack := s } } } := by
  unfold pokeActive at h
  simp only [hg.active b] at h
  split at h
  · cases h
  · rename_i cf hcf
    split at h
    · cases h
    · rename_i s hs
      cases h
      exact ⟨cf, s, hcf, hs, rfl⟩

/-- `finish` on a called fiber is: drop the result and the last frame, `unload(None)`, poke the result. -/
theorem finish_ok_inv {b : Build} {vm vm' : Vm} {root a : Nat} {rest : List Nat}
    (hg : Chain root vm (a :: rest)) (h : finish b vm = .ok vm') :
    ∃ cur result vm2, vm.fibers[a]? = some cur ∧ cur.st.stack.getLast? = some result ∧ cur.st.frames = 1 ∧
      cur.caller.isSome = true ∧
      unload b { vm with fibers := vm.fibers.set a (popLastFrame cur) } none = .ok vm2 ∧
      pokeActive b vm2 result = .ok vm' := by
  unfold finish at h
  simp only [hg.active b] at h
  split at h
  · cases h
  · rename_i cur hcur
    split at h
    · cases h
    · rename_i result hres
      split at h
      · cases h
      · split at h
        · cases h
        · rename_i h0 h1
          split at h
          · rename_i c hc
            split at h
            · rename_i vm2 hu
              exact ⟨cur, result, vm2, hcur, hres, by omega, by simp [hc], hu, h⟩
            · rename_i hne
              exact absurd h (hne vm')
          · split at h <;> cases h

theorem finish_good {b : Build} {vm vm' : Vm} {root a : Nat} {rest : List Nat}
    (hg : Good root vm (a :: rest)) (h : finish b vm = .ok vm') : Good root vm' rest := by
  obtain ⟨cur, result, vm2, hcur, _, _, _, hu, hp⟩ := finish_ok_inv hg.toChain h
  have h1 : Chain root { vm with fibers := vm.fibers.set a (popLastFrame cur) } (a :: rest) :=
    hg.toChain.set_active (fb' := popLastFrame cur) hcur rfl vm.pc vm.handling
  have h2 : Good root vm2 rest := unload_good h1 hu
  cases rest with
  | nil => exact h2.isChain.elim
  | cons c t =>
    obtain ⟨cf, s, hcf, _, rfl⟩ := pokeActive_ok_inv h2.toChain hp
    obtain ⟨fb, hfb, hpos⟩ := h2.alive c List.mem_cons_self
    rw [hcf] at hfb; cases hfb
    exact h2.set_active (fb' := { cf with st := { cf.st with stack := s } }) hcf rfl hpos vm2.pc vm2.handling

end Yarel.Fibers
