/-
Soundness of the bytecode verifier: an annotation accepted by `checkAnnot` is an inductive invariant
of the frame machine.
-/
import Yarel.Model.Verifier
import Yarel.Model.FrameMachine
import Yarel.Proofs.C04Decode

namespace Yarel.C04
open Yarel.Bytecode Yarel.Verifier Yarel.FrameMachine

/-! ### Unpacking the boolean checks -/

theorem firstError_none {l : List (Bool × VerifyError)} (h : firstError l = none) :
    ∀ p ∈ l, p.1 = true := by
  induction l with
  | nil => intro p hp; cases hp
  | cons x xs ih =>
    obtain ⟨ok, e⟩ := x
    unfold firstError at h
    split at h
    · rename_i hok
      intro p hp
      rcases List.mem_cons.mp hp with rfl | hp
      · exact hok
      · exact ih h p hp
    · cases h

theorem Annot.at_lt {σ : Annot} {pc : Nat} {a : AbsState} (h : σ.at pc = some a) : pc < σ.size := by
  unfold Annot.at at h
  split at h
  · rename_i hb
    exact (Array.getElem?_eq_some_iff.mp hb).1
  · cases h

theorem flowsTo_spec {σ : Annot} {e : Edge} (h : flowsTo σ e = true) :
    ∃ b, σ.at e.1 = some b ∧ b.height = e.2.height ∧ b.handlers = e.2.handlers ∧
      ∀ r ∈ e.2.rets, r ∈ b.rets := by
  unfold flowsTo at h
  split at h
  · rename_i b hb
    simp only [Bool.and_eq_true, beq_iff_eq, List.all_eq_true, List.contains_iff_mem] at h
    exact ⟨b, hb, h.1.1, h.1.2, h.2⟩
  · cases h

theorem checkAt_spec {fn : FnDump} {σ : Annot} {pc : Nat} {a : AbsState}
    (h : checkAt fn σ pc a = true) :
    ∃ i, decodeE fn pc = .ok i ∧ checkOps fn pc i a = none ∧
      ∀ e ∈ normalEdges pc i a ++ raiseEdges i a, flowsTo σ e = true := by
  unfold checkAt edges at h
  split at h
  · rename_i es hes
    split at hes
    · cases hes
    · rename_i i hi
      split at hes
      · cases hes
      · rename_i hops
        injection hes with hes
        subst hes
        exact ⟨i, hi, hops, List.all_eq_true.mp h⟩
  · cases h

/-- The facts established by `checkOps`, on the abstract state. -/
structure AbsOk (fn : FnDump) (pc : Nat) (i : Instr) (a : AbsState) : Prop where
  stack : i.needs ≤ a.height
  constLt : i.usesConst = true → i.a < fn.consts.size
  const : i.usesConst = true → ∃ c, fn.consts[i.a]? = some c ∧ i.constOk c = true
  localSlot : i.usesLocal = true → i.a < a.height
  upvalue : i.usesUpvalue = true → i.a < fn.upvalues
  capture : ∀ d ∈ i.ups, if d.1 = true then d.2 ≤ a.height else d.2 < fn.upvalues
  loopTarget : i.flow pc ≠ .invalid
  retHandlers : i.flow pc = .ret → a.handlers = []
  retRets : i.flow pc = .ret → a.rets = []
  popHandler : i.flow pc = .popHandler → a.handlers ≠ []
  jumpFinally : i.flow pc = .jumpFinally → ∃ h r, a.handlers = h :: r ∧ h.initHeight + 1 ≤ a.height
  unwind : i.mayRaise = true → ∀ h r, a.handlers = h :: r → h.initHeight + i.pops ≤ a.height
  escape : i.mayRaise = true → i.op ≠ .endFinally → a.handlers = [] → a.rets = []

theorem absOk_of_checkOps {fn : FnDump} {pc : Nat} {i : Instr} {a : AbsState}
    (h : checkOps fn pc i a = none) : AbsOk fn pc i a := by
  have hall := firstError_none h
  unfold opChecks at hall
  simp only [List.mem_cons, List.not_mem_nil, or_false, forall_eq_or_imp, forall_eq] at hall
  obtain ⟨h1, h2, h3, h4, h5, h6, h7, h8, h9, h10, h11, h12, h13, h14⟩ := hall
  simp only [decide_eq_true_eq, Bool.or_eq_true, bne_iff_ne, ne_eq,
    List.all_eq_true, List.isEmpty_iff, beq_iff_eq, Bool.not_eq_eq_eq_not, Bool.not_true] at *
  refine ⟨h1, ?_, ?_, ?_, ?_, ?_, h7, ?_, ?_, ?_, ?_, ?_, ?_⟩
  · intro hu
    rcases h2 with h2 | h2
    · rw [hu] at h2; cases h2
    · exact h2
  · intro hu
    rcases h3 with h3 | h3
    · rw [hu] at h3; cases h3
    · split at h3
      · rename_i c hc
        exact ⟨c, hc, h3⟩
      · cases h3
  · intro hu
    rcases h4 with h4 | h4
    · rw [hu] at h4; cases h4
    · exact h4
  · intro hu
    rcases h5 with h5 | h5
    · rw [hu] at h5; cases h5
    · exact h5
  · intro d hd
    have := h6 d hd
    split at this
    · rename_i hd1
      simp only [hd1, if_true]
      exact of_decide_eq_true this
    · rename_i hd1
      simp only [hd1]
      exact of_decide_eq_true this
  · intro hf
    rcases h8 with h8 | h8
    · exact absurd hf h8
    · exact h8
  · intro hf
    rcases h9 with h9 | h9
    · exact absurd hf h9
    · exact h9
  · intro hf
    rcases h10 with h10 | h10
    · exact absurd hf h10
    · intro hnil; rw [hnil] at h10; cases h10
  · intro hf
    rcases h11 with h11 | h11
    · exact absurd hf h11
    · rcases h12 with h12 | h12
      · exact absurd hf h12
      · cases hh : a.handlers with
        | nil => rw [hh] at h11; cases h11
        | cons hd r =>
          rw [hh] at h12
          exact ⟨hd, r, rfl, of_decide_eq_true h12⟩
  · intro hm hd r hh
    rcases h14 with h14 | h14
    · rw [hm] at h14; cases h14
    · rw [hh] at h14
      exact of_decide_eq_true h14
  · intro hm hop hh
    rcases h13 with (h13 | h13) | h13
    · rw [hm] at h13; cases h13
    · exact absurd h13 hop
    · rw [hh] at h13
      simpa using h13

/-! ### Stack arithmetic -/

theorem truncate_length {n : Nat} {st : List Val} (h : n ≤ st.length) :
    (truncate n st).length = n := by
  unfold truncate
  rw [List.length_drop]
  omega

theorem setLocal_facts {i : Instr} (h : i.op = .setLocal) (pc : Nat) :
    i.flow pc = .next := by
  simp [Instr.flow, h]

/-! ### The invariant -/

/-- The concrete state is described by the annotation at its pc. -/
def Inv (σ : Annot) (s : State) : Prop :=
  ∃ a, σ.at s.pc = some a ∧ s.stack.length = a.height ∧ s.handlers = a.handlers ∧
    ∀ r, s.ret = some r → r ∈ a.rets

theorem inv_of_edge {σ : Annot} {e : Edge} {s' : State} (hf : flowsTo σ e = true)
    (hpc : s'.pc = e.1) (hl : s'.stack.length = e.2.height) (hh : s'.handlers = e.2.handlers)
    (hr : ∀ r, s'.ret = some r → r ∈ e.2.rets) : Inv σ s' := by
  obtain ⟨b, hb, hbh, hbhd, hbr⟩ := flowsTo_spec hf
  exact ⟨b, by rw [hpc]; exact hb, by rw [hl, hbh], by rw [hh, hbhd], fun r h => hbr r (hr r h)⟩

/-- All annotated offsets pass the local check. -/
def Closed (fn : FnDump) (σ : Annot) : Prop :=
  ∀ pc a, σ.at pc = some a → checkAt fn σ pc a = true

theorem retOk_mem {old new : Option Nat} {rets : List Nat} (h : RetOk old new)
    (hr : ∀ r, old = some r → r ∈ rets) : ∀ r, new = some r → r ∈ rets := by
  intro r hn
  rcases h with h | h
  · exact hr r (h ▸ hn)
  · rw [h] at hn; cases hn

theorem inv_step {fn : FnDump} {σ : Annot} {s s' : State} (hc : Closed fn σ) (hi : Inv σ s)
    (hs : Step fn s s') : Inv σ s' := by
  obtain ⟨a, ha, hl, hh, hr⟩ := hi
  obtain ⟨i', hd', hops, hflow⟩ := checkAt_spec (hc _ _ ha)
  have hok := absOk_of_checkOps hops
  have same : ∀ {i : Instr}, decode fn s.pc = some i → i = i' := by
    intro i hdi
    have := decode_eq_some.mp hdi
    rw [hd'] at this
    injection this with this
    exact this.symm
  cases hs with
  | @normal i t vs ret' hdec hop hneeds htgt hvs hret =>
    have := same hdec; subst this
    have hlen : (vs ++ s.stack.drop i.pops).length = a.height - i.pops + i.pushes := by
      rw [List.length_append, List.length_drop, hvs, hl]; omega
    generalize hfl : i.flow s.pc = fl at htgt
    cases htgt with
    | next =>
      refine inv_of_edge (e := (s.pc + i.size, { a with height := a.height - i.pops + i.pushes }))
        (hflow _ ?_) rfl hlen hh (retOk_mem hret hr)
      simp [normalEdges, hfl]
    | jump =>
      refine inv_of_edge (e := (t, { a with height := a.height - i.pops + i.pushes }))
        (hflow _ ?_) rfl hlen hh (retOk_mem hret hr)
      simp [normalEdges, hfl]
    | fall =>
      refine inv_of_edge (e := (s.pc + i.size, { a with height := a.height - i.pops + i.pushes }))
        (hflow _ ?_) rfl hlen hh (retOk_mem hret hr)
      simp [normalEdges, hfl]
    | taken =>
      refine inv_of_edge (e := (t, { a with height := a.height - i.pops + i.pushes }))
        (hflow _ ?_) rfl hlen hh (retOk_mem hret hr)
      simp [normalEdges, hfl]
  | @setLocal i v rest hdec hop hstk hslot =>
    have := same hdec; subst this
    have hfl := setLocal_facts hop s.pc
    have hp : i.pops = 0 := by simp [Instr.pops, hop]
    have hq : i.pushes = 0 := by simp [Instr.pushes, hop]
    refine inv_of_edge (e := (s.pc + i.size, { a with height := a.height - i.pops + i.pushes }))
      (hflow _ ?_) rfl ?_ hh hr
    · simp [normalEdges, hfl]
    · simp only [List.length_set, hp, hq, hl]; omega
  | @raise i h r extra exc ret' hdec hmay hneeds hhd hret =>
    have := same hdec; subst this
    have hah : a.handlers = h :: r := by rw [← hh, hhd]
    have hun := hok.unwind hmay h r hah
    refine inv_of_edge (e := (h.catchPc, ⟨h.initHeight + 1, r, a.rets⟩))
      (hflow _ ?_) rfl ?_ rfl (retOk_mem hret hr)
    · simp [raiseEdges, hmay, hah]
    · simp only [List.length_cons]
      rw [truncate_length]
      rw [List.length_append, List.length_drop]
      omega
  | @pushHandler i c f hdec hfl =>
    have := same hdec; subst this
    refine inv_of_edge
      (e := (s.pc + i.size, { a with handlers := ⟨c, f, a.height⟩ :: a.handlers }))
      (hflow _ ?_) rfl hl ?_ hr
    · simp [normalEdges, hfl]
    · simp only [hl, hh]
  | @popHandler i hdec hfl =>
    have := same hdec; subst this
    refine inv_of_edge (e := (s.pc + i.size, { a with handlers := a.handlers.tail }))
      (hflow _ ?_) rfl hl ?_ hr
    · simp [normalEdges, hfl]
    · simp only [hh]
  | @jumpFinally i v rest h r hdec hfl hstk hhd =>
    have := same hdec; subst this
    have hah : a.handlers = h :: r := by rw [← hh, hhd]
    obtain ⟨h2, r2, hah2, hle⟩ := hok.jumpFinally hfl
    rw [hah] at hah2
    injection hah2 with e1 e2
    subst e1
    refine inv_of_edge (e := (h.finallyPc, ⟨h.initHeight, r, [s.pc + i.size]⟩))
      (hflow _ ?_) rfl ?_ rfl ?_
    · simp [normalEdges, hfl, hah]
    · apply truncate_length
      have : s.stack.length = rest.length + 1 := by rw [hstk]; rfl
      omega
    · intro r' hr'
      simp only [Option.some.injEq] at hr'
      simp [hr']
  | @endFinallyReturn i r v hdec hfl hsr =>
    have := same hdec; subst this
    refine inv_of_edge (e := (r, ⟨a.height + 1, a.handlers, []⟩))
      (hflow _ ?_) rfl ?_ hh ?_
    · simp only [normalEdges, hfl, List.mem_append, List.mem_cons, List.mem_map]
      exact Or.inl (Or.inr ⟨r, hr r hsr, rfl⟩)
    · simp only [List.length_cons, hl]
    · intro r' hr'; cases hr'
  | @endFinallyFall i hdec hfl hsr =>
    have := same hdec; subst this
    refine inv_of_edge (e := (s.pc + i.size, { a with rets := [] }))
      (hflow _ ?_) rfl hl hh ?_
    · simp [normalEdges, hfl]
    · intro r' hr'
      rw [hsr] at hr'; cases hr'

/-! ### From `checkAnnot` to the invariant of all reachable states -/

theorem sweep_boundary {fn : FnDump} : ∀ (fuel pc : Nat) (l : List Nat),
    IsBoundary fn pc → sweep fn fuel pc = some l → ∀ q ∈ l, IsBoundary fn q
  | 0, _, _, _, h => by simp [sweep] at h
  | fuel + 1, pc, l, hb, h => by
    unfold sweep at h
    split at h
    · injection h with h; subst h; intro q hq; cases hq
    · split at h
      · cases h
      · rename_i i hi
        split at h
        · rename_i l' hl'
          injection h with h; subst h
          intro q hq
          rcases List.mem_cons.mp hq with rfl | hq
          · exact hb
          · exact sweep_boundary fuel (q := q) (pc + i.size) l' (IsBoundary.next hb hi) hl' hq
        · cases h

theorem isMarked_foldl {pc : Nat} : ∀ (bs : List Nat) (m : Array Bool),
    isMarked (bs.foldl (fun m p => m.setIfInBounds p true) m) pc = true →
    isMarked m pc = true ∨ pc ∈ bs
  | [], m, h => Or.inl h
  | p :: rest, m, h => by
    rw [List.foldl_cons] at h
    rcases isMarked_foldl rest _ h with h1 | h1
    · by_cases hp : p = pc
      · exact Or.inr (hp ▸ List.mem_cons_self)
      · left
        unfold isMarked at h1 ⊢
        rw [Array.getElem?_setIfInBounds_ne hp] at h1
        exact h1
    · exact Or.inr (List.mem_cons_of_mem _ h1)

theorem isMarked_boundaryMap {n pc : Nat} {bs : List Nat} (h : isMarked (boundaryMap n bs) pc = true) :
    pc ∈ bs := by
  rcases isMarked_foldl bs _ h with h1 | h1
  · unfold isMarked at h1
    split at h1
    · rename_i hb
      have := (Array.getElem?_eq_some_iff.mp hb).2
      simp at this
    · cases h1
  · exact h1

structure AnnotOk (fn : FnDump) (σ : Annot) : Prop where
  size : σ.size = fn.code.size
  entry : ∃ a, σ.at 0 = some a ∧ a.height = fn.arity ∧ a.handlers = []
  boundary : ∀ pc a, σ.at pc = some a → IsBoundary fn pc
  closed : Closed fn σ

theorem annotOk_of_checkAnnot {fn : FnDump} {σ : Annot} (h : checkAnnot fn σ = true) :
    AnnotOk fn σ := by
  unfold checkAnnot at h
  simp only [Bool.and_eq_true, beq_iff_eq] at h
  obtain ⟨⟨hsize, hentry⟩, hrest⟩ := h
  split at hentry
  · rename_i a0 ha0
    simp only [Bool.and_eq_true, beq_iff_eq, List.isEmpty_iff] at hentry
    split at hrest
    · cases hrest
    · rename_i bs hbs
      rw [List.all_eq_true] at hrest
      have key : ∀ pc a, σ.at pc = some a →
          isMarked (boundaryMap fn.code.size bs) pc = true ∧ checkAt fn σ pc a = true := by
        intro pc a hpa
        have hlt : pc < fn.code.size := hsize ▸ Annot.at_lt hpa
        have := hrest pc (List.mem_range.mpr hlt)
        rw [hpa] at this
        simpa only [Bool.and_eq_true] using this
      refine ⟨hsize, ⟨a0, ha0, hentry.1, hentry.2⟩, ?_, fun pc a hpa => (key pc a hpa).2⟩
      intro pc a hpa
      have hmem : pc ∈ bs := isMarked_boundaryMap (key pc a hpa).1
      exact sweep_boundary _ 0 bs IsBoundary.zero hbs pc hmem
  · cases hentry

theorem inv_reach {fn : FnDump} {σ : Annot} (hok : AnnotOk fn σ) {s : State} (hr : Reach fn s) :
    Inv σ s := by
  induction hr with
  | entry he =>
    obtain ⟨hpc, hlen, hhd, hret⟩ := he
    obtain ⟨a, ha, hah, ahd⟩ := hok.entry
    refine ⟨a, by rw [hpc]; exact ha, by rw [hlen, hah], by rw [hhd, ahd], ?_⟩
    intro r h; rw [hret] at h; cases h
  | step _ hs ih => exact inv_step hok.closed ih hs

/-- The safety statement for one reachable state. -/
structure Safe (fn : FnDump) (σ : Annot) (s : State) : Prop where
  inCode : s.pc < fn.code.size
  boundary : IsBoundary fn s.pc
  state : ∃ i a, decode fn s.pc = some i ∧ s.pc + i.size ≤ fn.code.size ∧
    σ.at s.pc = some a ∧ s.stack.length = a.height ∧ s.handlers = a.handlers ∧
    (∀ r, s.ret = some r → r ∈ a.rets) ∧ AccessOk fn i s

theorem safe_of_inv {fn : FnDump} {σ : Annot} (hok : AnnotOk fn σ) {s : State} (hi : Inv σ s) :
    Safe fn σ s := by
  obtain ⟨a, ha, hl, hh, hr⟩ := hi
  obtain ⟨i, hd, hops, _⟩ := checkAt_spec (hok.closed _ _ ha)
  have hdec : decode fn s.pc = some i := decode_eq_some.mpr hd
  have hb := decode_bounds hdec
  have ok := absOk_of_checkOps hops
  refine ⟨by omega, hok.boundary _ _ ha, i, a, hdec, hb.2, ha, hl, hh, hr, ?_⟩
  refine ⟨by rw [hl]; exact ok.stack, ?_, ok.upvalue, ok.const, ?_, ok.loopTarget, ?_, ?_, ?_, ?_, ?_⟩
  · intro hu; rw [hl]; exact ok.localSlot hu
  · intro d hd'
    have := ok.capture d hd'
    rw [hl]; exact this
  · intro hf
    refine ⟨by rw [hh]; exact ok.retHandlers hf, ?_⟩
    cases hsr : s.ret with
    | none => rfl
    | some r =>
      have := hr r hsr
      rw [ok.retRets hf] at this
      cases this
  · intro hf; rw [hh]; exact ok.popHandler hf
  · intro hf
    obtain ⟨h, r, hhr, hle⟩ := ok.jumpFinally hf
    exact ⟨h, r, by rw [hh]; exact hhr, by rw [hl]; exact hle⟩
  · intro hm h r hhr
    rw [hl]; exact ok.unwind hm h r (by rw [← hh]; exact hhr)
  · intro hm hop hnil
    cases hsr : s.ret with
    | none => rfl
    | some r =>
      have := hr r hsr
      rw [ok.escape hm hop (by rw [← hh]; exact hnil)] at this
      cases this

theorem safe_of_checkAnnot {fn : FnDump} {σ : Annot} (h : checkAnnot fn σ = true) {s : State}
    (hr : Reach fn s) : Safe fn σ s :=
  let hok := annotOk_of_checkAnnot h
  safe_of_inv hok (inv_reach hok hr)

theorem checkAnnot_of_verify {fn : FnDump} {σ : Annot} (h : verify fn = .ok σ) :
    checkAnnot fn σ = true := by
  unfold verify at h
  simp only at h
  split at h
  · cases h
  · split at h
    · cases h
    · split at h
      · cases h
      · split at h
        · cases h
        · split at h
          · rename_i hc
            injection h with h
            subst h
            exact hc
          · cases h

end Yarel.C04
