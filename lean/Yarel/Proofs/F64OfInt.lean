/-
`ofInt` is exact on |i| ≤ 2^53.
-/
import Yarel.Proofs.F64Nearest

namespace Yarel.F64

/-- Bits produced for an exactly representable normal magnitude `m * 2^t` units. -/
theorem roundRat_normal (s : Bool) (num den m t : Nat) (hden : 0 < den) (h : num * 2 ^ 1074 = m * 2 ^ t * den)
    (hm1 : 2 ^ 52 ≤ m) (hm2 : m < 2 ^ 53) (ht : t < 2046) :
    signBit (roundRat s num den) = s ∧ expField (roundRat s num den) = t + 1 ∧
      mantField (roundRat s num den) = m - 2 ^ 52 := by
  unfold roundRat
  rw [roundMag_exact num den m t hden h hm2 (Or.inr hm1) (by unfold infMag; omega)]
  have e : t * 2 ^ 52 + m = (t + 1) * 2 ^ 52 + (m - 2 ^ 52) := by omega
  rw [e]
  exact fields_pack s (t + 1) (m - 2 ^ 52) (by omega) (by omega)

theorem ofInt_zero_fields : signBit (ofInt 0) = false ∧ expField (ofInt 0) = 0 ∧ mantField (ofInt 0) = 0 := by
  have : ofInt 0 = pack false (roundMag 0 1) := rfl
  rw [this, roundMag_exact 0 1 0 0 (by decide)
    (by simp only [Nat.zero_mul]) (by decide) (Or.inl rfl) (by decide)]
  exact fields_pack false 0 0 (by decide) (by decide)

theorem ofInt_fields (i : Int) (hi : i ≠ 0) (h : i.natAbs < 2 ^ 53) :
    signBit (ofInt i) = decide (i < 0) ∧ expField (ofInt i) = i.natAbs.log2 + 1023 ∧
      mantField (ofInt i) = i.natAbs * 2 ^ (52 - i.natAbs.log2) - 2 ^ 52 := by
  have hn : i.natAbs ≠ 0 := by omega
  generalize hL : i.natAbs.log2 = L
  have h1 := Nat.log2_self_le hn
  have h2 := @Nat.lt_log2_self i.natAbs
  rw [hL] at h1 h2
  have hL52 : L ≤ 52 := by
    have := (Nat.log2_lt hn).2 h; omega
  have hp : (2 : Nat) ^ 52 = 2 ^ L * 2 ^ (52 - L) := by rw [← Nat.pow_add, show L + (52 - L) = 52 by omega]
  have hp2 : (2 : Nat) ^ 53 = 2 ^ (L + 1) * 2 ^ (52 - L) := by rw [← Nat.pow_add, show L + 1 + (52 - L) = 53 by omega]
  have hpos : 0 < 2 ^ (52 - L) := Nat.two_pow_pos _
  have := roundRat_normal (decide (i < 0)) i.natAbs 1 (i.natAbs * 2 ^ (52 - L)) (L + 1022) (by decide)
    (by rw [show (1074 : Nat) = (52 - L) + (L + 1022) by omega, Nat.pow_add, Nat.mul_one, Nat.mul_assoc])
    (by rw [hp]; exact Nat.mul_le_mul_right _ h1)
    (by rw [hp2]; exact Nat.mul_lt_mul_of_pos_right h2 hpos)
    (by omega)
  unfold ofInt
  rw [show L + 1023 = L + 1022 + 1 by omega]
  exact this

set_option exponentiation.threshold 1100 in
theorem ofInt_fields_pow53 (i : Int) (hn : i.natAbs = 2 ^ 53) :
    signBit (ofInt i) = decide (i < 0) ∧ expField (ofInt i) = 1076 ∧ mantField (ofInt i) = 0 := by
  have := roundRat_normal (decide (i < 0)) i.natAbs 1 (2 ^ 52) (1074 + 1) (by decide)
    (by have e : (2 : Nat) ^ (1074 + 1) = 2 ^ 1074 * 2 := Nat.pow_succ ..
        rw [hn, Nat.mul_one, e])
    (Nat.le_refl _) (by decide) (by decide)
  unfold ofInt
  rw [Nat.sub_self] at this
  exact this

/-- **`i as f64` is exact for |i| ≤ 2^53**: the result is finite, has the sign of `i`, and its decoded
magnitude `m * 2^e` equals `|i|` (cross-multiplied so that no negative power appears). -/
theorem ofInt_exact' (i : Int) (h : i.natAbs ≤ 2 ^ 53) :
    isFinite (ofInt i) = true ∧ signBit (ofInt i) = decide (i < 0) ∧
    (decode (ofInt i)).2.1 * 2 ^ (decode (ofInt i)).2.2.toNat
      = i.natAbs * 2 ^ (-(decode (ofInt i)).2.2).toNat := by
  by_cases h0 : i = 0
  · subst h0
    obtain ⟨f1, f2, f3⟩ := ofInt_zero_fields
    refine ⟨by rw [isFinite_iff, f2]; decide, by rw [f1]; rfl, ?_⟩
    unfold decode; rw [f2, f3]
    simp only [beq_self_eq_true, if_true, Nat.zero_mul, Int.natAbs_zero]
  · by_cases hlt : i.natAbs < 2 ^ 53
    · obtain ⟨f1, f2, f3⟩ := ofInt_fields i h0 hlt
      have hn : i.natAbs ≠ 0 := by omega
      have hL52 : i.natAbs.log2 ≤ 52 := by
        have := (Nat.log2_lt hn).2 hlt; omega
      have h1 := Nat.log2_self_le hn
      refine ⟨by rw [isFinite_iff, f2]; omega, f1, ?_⟩
      unfold decode
      have hne : (expField (ofInt i) == 0) = false := by rw [f2]; simp
      simp only [hne, Bool.false_eq_true, if_false]
      rw [f2, f3]
      generalize i.natAbs.log2 = L at hL52 h1 ⊢
      have e1 : (((L + 1023 : Nat) : Int) - 1075).toNat = 0 := by omega
      have e2 : (-(((L + 1023 : Nat) : Int) - 1075)).toNat = 52 - L := by omega
      rw [e1, e2, Nat.pow_zero, Nat.mul_one]
      have hp : (2 : Nat) ^ 52 = 2 ^ L * 2 ^ (52 - L) := by rw [← Nat.pow_add, show L + (52 - L) = 52 by omega]
      have : 2 ^ 52 ≤ i.natAbs * 2 ^ (52 - L) := by rw [hp]; exact Nat.mul_le_mul_right _ h1
      omega
    · have hn : i.natAbs = 2 ^ 53 := by omega
      obtain ⟨f1, f2, f3⟩ := ofInt_fields_pow53 i hn
      refine ⟨by rw [isFinite_iff, f2]; decide, f1, ?_⟩
      unfold decode
      have hne : (expField (ofInt i) == 0) = false := by rw [f2]; rfl
      simp only [hne, Bool.false_eq_true, if_false]
      rw [f2, f3, hn]
      have e1 : (((1076 : Nat) : Int) - 1075).toNat = 1 := by omega
      have e2 : (-(((1076 : Nat) : Int) - 1075)).toNat = 0 := by omega
      rw [e1, e2]

end Yarel.F64
