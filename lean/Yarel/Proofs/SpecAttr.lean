/- Simp attribute for the "`printed` is untouched" lemmas of the spec machine. -/
import Lean

/-- `(f st ..).printed = st.printed` lemmas of the spec machine helpers. -/
register_simp_attr spec_printed
