/-
Forward simulation between the upvalue mechanism and the abstract "one variable per slot instance" semantics.
-/
import Yarel.Proofs.UpvaluesInv

namespace Yarel.Upv

open Fiber

/-! ### small list helpers -/

theorem lt_of_getElem?_some {α : Type} {l : List α} {i : Nat} {x : α} (h : l[i]? = some x) :
    i < l.length := by
  rcases Nat.lt_or_ge i l.length with h' | h'
  · exact h'
  · rw [List.getElem?_eq_none h'] at h; cases h

theorem nodup_idx {l : List Nat} (hn : l.Nodup) {i j x : Nat}
    (hi : l[i]? = some x) (hj : l[j]? = some x) : i = j :=
  (List.getElem?_inj (lt_of_getElem?_some hi) hn).mp (hi.trans hj.symm)

theorem nodup_idxOf {l : List Nat} (hn : l.Nodup) {i x : Nat} (hi : l[i]? = some x) :
    l.idxOf x = i := by
  have hlt := lt_of_getElem?_some hi
  have := hn.idxOf_getElem i hlt
  rw [List.getElem?_eq_getElem hlt] at hi
  cases hi
  exact this

/-! ### what the concrete operations do in a good state -/

theorem capture_reuse {s : Fiber} (h : Coh s) {loc c0 : Nat}
    (hc : s.cells[c0]? = some (Cell.opened loc)) : s.capture loc = (s, c0, false) := by
  unfold capture
  rw [captureList_reuse _ loc _ h.desc c0 ((h.mem_iff c0 loc).mpr hc)]
  simp

theorem capture_fresh {s : Fiber} (h : Coh s) {loc : Nat}
    (hc : ∀ c0 : Nat, s.cells[c0]? ≠ some (Cell.opened loc)) :
    s.capture loc =
      ({ s with cells := s.cells ++ [Cell.opened loc],
                openList := (captureList s.cells.length loc s.openList).2 },
        s.cells.length, true) := by
  unfold capture
  have := captureList_fresh s.cells.length loc s.openList
    (fun c hm => hc c ((h.mem_iff c loc).mp hm))
  simp [this]

/-- `closeAndTruncate n` in a good state with `n ≤ height`. -/
theorem closeAndTruncate_spec {s : Fiber} (h : Inv s) {n : Nat} (hn : n ≤ s.stack.length) :
    ∃ s' cs, s.closeAndTruncate n = .ok (s', cs) ∧
      s'.stack = s.stack.take n ∧ s'.cells.length = s.cells.length ∧
      s'.openList = s.openList.filter (fun q => decide (q.2 < n)) ∧
      cs = (s.openList.filter (fun q => decide (n ≤ q.2))).map Prod.fst ∧
      (∀ (c sl : Nat), s.cells[c]? = some (Cell.opened sl) → n ≤ sl →
          ∃ v, s.stack[sl]? = some v ∧ s'.cells[c]? = some (Cell.closed v)) ∧
      (∀ (c : Nat), (∀ sl, s.cells[c]? = some (Cell.opened sl) → sl < n) → s'.cells[c]? = s.cells[c]?) := by
  obtain ⟨s1, cs, h1⟩ := closeFrom_progress h n
  obtain ⟨e1, el, e2, e3, e4, e5⟩ := closeFrom_ok h.toCoh h1
  refine ⟨{ s1 with stack := s1.stack.take n }, cs, ?_, ?_, el, e2, e3, e4, e5⟩
  · unfold closeAndTruncate truncate
    simp only [h1]
    rw [e1]
    simp [hn]
  · simp [e1]

/-! ### the abstraction relation -/

/-- `Rel s a`: the mechanism state `s` represents the abstract state `a`.
* slot `i` holds the value of variable `astack[i]`;
* an open cell on slot `sl` stands for the variable currently living in slot `sl`;
* a closed cell holds the value of its variable, and that variable is no longer on the stack;
* distinct slots / distinct cells are distinct variables. -/
structure Rel (s : Fiber) (a : AState) : Prop where
  inv : Inv s
  hlen : a.astack.length = s.stack.length
  clen : a.cellVar.length = s.cells.length
  stk : ∀ (i : Nat) (v : Val), s.stack[i]? = some v →
    ∃ x, a.astack[i]? = some x ∧ a.store[x]? = some v
  opn : ∀ (c sl : Nat), s.cells[c]? = some (Cell.opened sl) →
    ∃ x, a.cellVar[c]? = some x ∧ a.astack[sl]? = some x
  cls : ∀ (c : Nat) (v : Val), s.cells[c]? = some (Cell.closed v) →
    ∃ x, a.cellVar[c]? = some x ∧ a.store[x]? = some v ∧ x ∉ a.astack
  snd : a.astack.Nodup
  cnd : a.cellVar.Nodup
  sbd : ∀ x ∈ a.astack, x < a.store.length
  cbd : ∀ x ∈ a.cellVar, x < a.store.length

theorem rel_empty : Rel Fiber.empty AState.empty := by
  refine ⟨inv_empty, rfl, rfl, ?_, ?_, ?_, ?_, ?_, ?_, ?_⟩ <;> simp [Fiber.empty, AState.empty]

/-- writing variable `x = astack[sl]` abstractly = writing slot `sl` concretely. -/
theorem rel_set_slot {s : Fiber} {a : AState} (h : Rel s a) {sl x : Nat} (v : Val)
    (hsl : sl < s.stack.length) (hx : a.astack[sl]? = some x) :
    Rel { s with stack := s.stack.set sl v } { a with store := a.store.set x v } := by
  have hxs : x < a.store.length := h.sbd x (List.mem_iff_getElem?.mpr ⟨sl, hx⟩)
  refine ⟨⟨⟨h.inv.desc, h.inv.mem_iff⟩, ?_⟩, ?_, h.clen, ?_, h.opn, ?_, h.snd, h.cnd, ?_, ?_⟩
  · intro c sl' hc
    simp only [List.length_set]
    exact h.inv.inrange c sl' hc
  · simp only [List.length_set]; exact h.hlen
  · intro i v' hi
    simp only at hi ⊢
    by_cases hisl : sl = i
    · subst hisl
      rw [List.getElem?_set_self hsl] at hi
      cases hi
      exact ⟨x, hx, List.getElem?_set_self hxs⟩
    · rw [List.getElem?_set_ne hisl] at hi
      obtain ⟨x', hx', hv'⟩ := h.stk i v' hi
      refine ⟨x', hx', ?_⟩
      have : x ≠ x' := by
        intro heq; subst heq
        exact hisl (nodup_idx h.snd hx hx')
      rw [List.getElem?_set_ne this]; exact hv'
  · intro c v0 hc
    obtain ⟨x', hx', hv', hn'⟩ := h.cls c v0 hc
    refine ⟨x', hx', ?_, hn'⟩
    have : x ≠ x' := by
      intro heq; subst heq
      exact hn' (List.mem_iff_getElem?.mpr ⟨sl, hx⟩)
    simp only
    rw [List.getElem?_set_ne this]; exact hv'
  · simp only [List.length_set]; exact h.sbd
  · simp only [List.length_set]; exact h.cbd

/-- writing the variable of a CLOSED cell abstractly = overwriting the cell's own value. -/
theorem rel_set_closed {s : Fiber} {a : AState} (h : Rel s a) {c x : Nat} {v0 : Val} (v : Val)
    (hc : s.cells[c]? = some (Cell.closed v0)) (hx : a.cellVar[c]? = some x) :
    Rel { s with cells := s.cells.set c (Cell.closed v) } { a with store := a.store.set x v } := by
  have hclt := lt_of_getElem?_some hc
  have hxs : x < a.store.length := h.cbd x (List.mem_iff_getElem?.mpr ⟨c, hx⟩)
  obtain ⟨x0, hx0, _, hxn⟩ := h.cls c v0 hc
  rw [hx] at hx0; cases hx0
  have hcoh : Coh { s with cells := s.cells.set c (Cell.closed v) } := by
    apply coh_setCell h.inv.toCoh (c := c) (v := v)
    unfold setCell; simp only [hc]
  refine ⟨⟨hcoh, ?_⟩, h.hlen, ?_, ?_, ?_, ?_, h.snd, h.cnd, ?_, ?_⟩
  · intro c' sl hc'
    simp only at hc' ⊢
    by_cases hcc : c = c'
    · subst hcc; rw [List.getElem?_set_self hclt] at hc'; cases hc'
    · rw [List.getElem?_set_ne hcc] at hc'; exact h.inv.inrange c' sl hc'
  · simp only [List.length_set]; exact h.clen
  · intro i v' hi
    obtain ⟨x', hx', hv'⟩ := h.stk i v' hi
    refine ⟨x', hx', ?_⟩
    have : x ≠ x' := by
      intro heq; subst heq
      exact hxn (List.mem_iff_getElem?.mpr ⟨i, hx'⟩)
    simp only
    rw [List.getElem?_set_ne this]; exact hv'
  · intro c' sl hc'
    simp only at hc'
    by_cases hcc : c = c'
    · subst hcc; rw [List.getElem?_set_self hclt] at hc'; cases hc'
    · rw [List.getElem?_set_ne hcc] at hc'; exact h.opn c' sl hc'
  · intro c' v' hc'
    simp only at hc' ⊢
    by_cases hcc : c = c'
    · subst hcc
      rw [List.getElem?_set_self hclt] at hc'; cases hc'
      exact ⟨x, hx, List.getElem?_set_self hxs, hxn⟩
    · rw [List.getElem?_set_ne hcc] at hc'
      obtain ⟨x', hx', hv', hn'⟩ := h.cls c' v' hc'
      refine ⟨x', hx', ?_, hn'⟩
      have : x ≠ x' := by
        intro heq; subst heq
        exact hcc (nodup_idx h.cnd hx hx')
      rw [List.getElem?_set_ne this]; exact hv'
  · simp only [List.length_set]; exact h.sbd
  · simp only [List.length_set]; exact h.cbd

/-! ### the simulation, operation by operation -/

/-- shape of the simulation conclusion. -/
def Sim (s : Fiber) (a : AState) (op : Op) : Prop :=
  ∃ s' o a', step op s = .ok (s', o) ∧ astep op a = some (a', o.erase) ∧ Rel s' a'

theorem sim_push {s : Fiber} {a : AState} (h : Rel s a) (v : Val) : Sim s a (.push v) := by
  refine ⟨_, _, _, rfl, rfl, ?_⟩
  have hfresh : a.store.length ∉ a.astack := fun hm => Nat.lt_irrefl _ (h.sbd _ hm)
  refine ⟨⟨⟨h.inv.desc, h.inv.mem_iff⟩, ?_⟩, ?_, h.clen, ?_, ?_, ?_, ?_, h.cnd, ?_, ?_⟩
  · intro c sl hc
    simp only [push, List.length_append, List.length_singleton]
    exact Nat.lt_succ_of_lt (h.inv.inrange c sl hc)
  · simp [push, h.hlen]
  · intro i v' hi
    simp only [push] at hi ⊢
    rw [List.getElem?_append] at hi
    split at hi
    · rename_i hlt
      obtain ⟨x, hx, hv⟩ := h.stk i v' hi
      refine ⟨x, ?_, ?_⟩
      · rw [List.getElem?_append_left (by rw [h.hlen]; exact hlt)]; exact hx
      · rw [List.getElem?_append_left (lt_of_getElem?_some hv)]; exact hv
    · rename_i hge
      have hi1 := lt_of_getElem?_some hi
      simp only [List.length_singleton] at hi1
      have hieq : i = s.stack.length := by omega
      subst hieq
      simp only [Nat.sub_self, List.getElem?_cons_zero, Option.some.injEq] at hi
      subst hi
      refine ⟨a.store.length, ?_, ?_⟩
      · rw [List.getElem?_append_right (by rw [h.hlen]; exact Nat.le_refl _)]
        simp [h.hlen]
      · rw [List.getElem?_append_right (Nat.le_refl _)]; simp
  · intro c sl hc
    obtain ⟨x, hx, hs⟩ := h.opn c sl hc
    refine ⟨x, hx, ?_⟩
    simp only
    rw [List.getElem?_append_left (lt_of_getElem?_some hs)]; exact hs
  · intro c v' hc
    obtain ⟨x, hx, hv, hn⟩ := h.cls c v' hc
    refine ⟨x, hx, ?_, ?_⟩
    · simp only
      rw [List.getElem?_append_left (lt_of_getElem?_some hv)]; exact hv
    · simp only [List.mem_append, List.mem_singleton, not_or]
      exact ⟨hn, fun heq => by have := lt_of_getElem?_some hv; omega⟩
  · simp only
    rw [List.nodup_append]
    refine ⟨h.snd, by simp, ?_⟩
    intro x hx y hy
    simp only [List.mem_singleton] at hy
    subst hy
    intro heq; subst heq; exact hfresh hx
  · intro x hx
    simp only [List.mem_append, List.mem_singleton, List.length_append, List.length_singleton] at hx ⊢
    rcases hx with hx | rfl
    · exact Nat.lt_succ_of_lt (h.sbd x hx)
    · exact Nat.lt_succ_self _
  · intro x hx
    simp only [List.length_append, List.length_singleton]
    exact Nat.lt_succ_of_lt (h.cbd x hx)

theorem sim_getLocal {s : Fiber} {a : AState} (h : Rel s a) {i : Nat} (hi : i < s.stack.length) :
    Sim s a (.getLocal i) := by
  have hv : s.stack[i]? = some s.stack[i] := List.getElem?_eq_getElem hi
  obtain ⟨x, hx, hxv⟩ := h.stk i _ hv
  refine ⟨s, .val s.stack[i], a, ?_, ?_, h⟩
  · simp [step, getLocal, hv]
  · simp [astep, hx, hxv, Obs.erase]

theorem sim_setLocal {s : Fiber} {a : AState} (h : Rel s a) {i : Nat} (v : Val)
    (hi : i < s.stack.length) : Sim s a (.setLocal i v) := by
  have hv : s.stack[i]? = some s.stack[i] := List.getElem?_eq_getElem hi
  obtain ⟨x, hx, _⟩ := h.stk i _ hv
  refine ⟨{ s with stack := s.stack.set i v }, .unit, { a with store := a.store.set x v }, ?_, ?_,
    rel_set_slot h v hi hx⟩
  · simp [step, setLocal, hi]
  · simp [astep, hx, Obs.erase]

theorem sim_getCell {s : Fiber} {a : AState} (h : Rel s a) {c : Nat} (hc : c < s.cells.length) :
    Sim s a (.getCell c) := by
  have hcell : s.cells[c]? = some s.cells[c] := List.getElem?_eq_getElem hc
  cases hcc : s.cells[c] with
  | opened sl =>
    rw [hcc] at hcell
    have hsl := h.inv.inrange c sl hcell
    have hv : s.stack[sl]? = some s.stack[sl] := List.getElem?_eq_getElem hsl
    obtain ⟨x, hx, hs⟩ := h.opn c sl hcell
    obtain ⟨x', hx', hxv⟩ := h.stk sl _ hv
    rw [hs] at hx'; cases hx'
    refine ⟨s, .val s.stack[sl], a, ?_, ?_, h⟩
    · simp [step, getCell, hcell, hv]
    · simp [astep, hx, hxv, Obs.erase]
  | closed v =>
    rw [hcc] at hcell
    obtain ⟨x, hx, hxv, _⟩ := h.cls c v hcell
    refine ⟨s, .val v, a, ?_, ?_, h⟩
    · simp [step, getCell, hcell]
    · simp [astep, hx, hxv, Obs.erase]

theorem sim_setCell {s : Fiber} {a : AState} (h : Rel s a) {c : Nat} (v : Val)
    (hc : c < s.cells.length) : Sim s a (.setCell c v) := by
  have hcell : s.cells[c]? = some s.cells[c] := List.getElem?_eq_getElem hc
  cases hcc : s.cells[c] with
  | opened sl =>
    rw [hcc] at hcell
    have hsl := h.inv.inrange c sl hcell
    obtain ⟨x, hx, hs⟩ := h.opn c sl hcell
    refine ⟨{ s with stack := s.stack.set sl v }, .unit, { a with store := a.store.set x v }, ?_, ?_,
      rel_set_slot h v hsl hs⟩
    · simp [step, setCell, hcell, hsl]
    · simp [astep, hx, Obs.erase]
  | closed v0 =>
    rw [hcc] at hcell
    obtain ⟨x, hx, _, _⟩ := h.cls c v0 hcell
    refine ⟨{ s with cells := s.cells.set c (Cell.closed v) }, .unit,
      { a with store := a.store.set x v }, ?_, ?_, rel_set_closed h v hcell hx⟩
    · simp [step, setCell, hcell]
    · simp [astep, hx, Obs.erase]

theorem sim_capture {s : Fiber} {a : AState} (h : Rel s a) {loc : Nat} (hloc : loc < s.stack.length) :
    Sim s a (.capture loc) := by
  have hv : s.stack[loc]? = some s.stack[loc] := List.getElem?_eq_getElem hloc
  obtain ⟨x, hx, hxv⟩ := h.stk loc _ hv
  by_cases hex : ∃ c0 : Nat, s.cells[c0]? = some (Cell.opened loc)
  · -- reuse
    obtain ⟨c0, hc0⟩ := hex
    obtain ⟨x', hx', hs'⟩ := h.opn c0 loc hc0
    rw [hx] at hs'; cases hs'
    have hmem : x ∈ a.cellVar := List.mem_iff_getElem?.mpr ⟨c0, hx'⟩
    refine ⟨s, .cell c0 false, a, ?_, ?_, h⟩
    · simp [step, capture_reuse h.inv.toCoh hc0]
    · simp [astep, hx, hmem, nodup_idxOf h.cnd hx', Obs.erase]
  · -- fresh
    have hno : ∀ c0 : Nat, s.cells[c0]? ≠ some (Cell.opened loc) := fun c0 hc0 => hex ⟨c0, hc0⟩
    have hnmem : x ∉ a.cellVar := by
      intro hm
      obtain ⟨c, hc⟩ := List.mem_iff_getElem?.mp hm
      have hclt : c < s.cells.length := by rw [← h.clen]; exact lt_of_getElem?_some hc
      have hcell : s.cells[c]? = some s.cells[c] := List.getElem?_eq_getElem hclt
      cases hcc : s.cells[c] with
      | opened sl =>
        rw [hcc] at hcell
        obtain ⟨x', hx', hs'⟩ := h.opn c sl hcell
        rw [hc] at hx'; cases hx'
        have := nodup_idx h.snd hs' hx
        subst this
        exact hno c hcell
      | closed v0 =>
        rw [hcc] at hcell
        obtain ⟨x', hx', _, hn'⟩ := h.cls c v0 hcell
        rw [hc] at hx'; cases hx'
        exact hn' (List.mem_iff_getElem?.mpr ⟨loc, hx⟩)
    have hcap := capture_fresh h.inv.toCoh hno
    have hcoh : Coh (s.capture loc).1 := coh_capture h.inv.toCoh loc
    rw [hcap] at hcoh
    simp only at hcoh
    refine ⟨{ s with cells := s.cells ++ [Cell.opened loc],
                      openList := (captureList s.cells.length loc s.openList).2 },
      .cell s.cells.length true, { a with cellVar := a.cellVar ++ [x] }, ?_, ?_, ?_⟩
    · simp only [step, hcap]
    · simp [astep, hx, hnmem, h.clen, Obs.erase]
    · refine ⟨⟨hcoh, ?_⟩, h.hlen, ?_, h.stk, ?_, ?_, h.snd, ?_, h.sbd, ?_⟩
      · intro c sl hc
        simp only at hc ⊢
        rw [List.getElem?_append] at hc
        split at hc
        · exact h.inv.inrange c sl hc
        · have h1 := lt_of_getElem?_some hc
          simp only [List.length_singleton] at h1
          have : c - s.cells.length = 0 := by omega
          rw [this] at hc
          simp only [List.getElem?_cons_zero, Option.some.injEq, Cell.opened.injEq] at hc
          omega
      · simp [h.clen]
      · intro c sl hc
        simp only at hc ⊢
        rw [List.getElem?_append] at hc
        split at hc
        · rename_i hlt
          obtain ⟨x', hx', hs'⟩ := h.opn c sl hc
          refine ⟨x', ?_, hs'⟩
          rw [List.getElem?_append_left (lt_of_getElem?_some hx')]; exact hx'
        · rename_i hge
          have h1 := lt_of_getElem?_some hc
          simp only [List.length_singleton] at h1
          have hceq : c = s.cells.length := by omega
          subst hceq
          simp only [Nat.sub_self, List.getElem?_cons_zero, Option.some.injEq,
            Cell.opened.injEq] at hc
          subst hc
          refine ⟨x, ?_, hx⟩
          rw [List.getElem?_append_right (by rw [h.clen]; exact Nat.le_refl _)]
          simp [h.clen]
      · intro c v0 hc
        simp only at hc ⊢
        rw [List.getElem?_append] at hc
        split at hc
        · obtain ⟨x', hx', hv', hn'⟩ := h.cls c v0 hc
          refine ⟨x', ?_, hv', hn'⟩
          rw [List.getElem?_append_left (lt_of_getElem?_some hx')]; exact hx'
        · have h1 := lt_of_getElem?_some hc
          simp only [List.length_singleton] at h1
          have : c - s.cells.length = 0 := by omega
          rw [this] at hc
          simp at hc
      · simp only
        rw [List.nodup_append]
        refine ⟨h.cnd, by simp, ?_⟩
        intro y hy z hz
        simp only [List.mem_singleton] at hz
        subst hz
        intro heq; subst heq; exact hnmem hy
      · intro y hy
        simp only [List.mem_append, List.mem_singleton] at hy
        rcases hy with hy | rfl
        · exact h.cbd y hy
        · exact h.sbd _ (List.mem_iff_getElem?.mpr ⟨loc, hx⟩)

theorem sim_closeAndTruncate {s : Fiber} {a : AState} (h : Rel s a) {n : Nat}
    (hn : n ≤ s.stack.length) : Sim s a (.closeAndTruncate n) := by
  obtain ⟨s', cs, hr, e1, el, e2, _, e4, e5⟩ := closeAndTruncate_spec h.inv hn
  have hcoh : Coh s' := coh_closeAndTruncate h.inv.toCoh hr
  -- an open cell of `s'` was the same open cell of `s`, on a slot below `n`
  have hopen : ∀ (c sl : Nat), s'.cells[c]? = some (Cell.opened sl) →
      s.cells[c]? = some (Cell.opened sl) ∧ sl < n := by
    intro c sl hc
    have hm := (hcoh.mem_iff c sl).mpr hc
    rw [e2, List.mem_filter] at hm
    exact ⟨(h.inv.mem_iff c sl).mp hm.1, by simpa using hm.2⟩
  refine ⟨s', .closedCells cs, { a with astack := a.astack.take n }, ?_, ?_, ?_⟩
  · simp [step, hr]
  · simp [astep, h.hlen, hn, Obs.erase]
  · refine ⟨⟨hcoh, ?_⟩, ?_, ?_, ?_, ?_, ?_, ?_, h.cnd, ?_, h.cbd⟩
    · intro c sl hc
      rw [e1, List.length_take]
      have := (hopen c sl hc).2
      omega
    · simp only [e1, List.length_take, h.hlen]
    · rw [el]; exact h.clen
    · intro i v hi
      rw [e1, List.getElem?_take] at hi
      split at hi
      · rename_i hlt
        obtain ⟨x, hx, hv⟩ := h.stk i v hi
        refine ⟨x, ?_, hv⟩
        simp only
        rw [List.getElem?_take, if_pos hlt]; exact hx
      · cases hi
    · intro c sl hc
      obtain ⟨hc0, hlt⟩ := hopen c sl hc
      obtain ⟨x, hx, hs⟩ := h.opn c sl hc0
      refine ⟨x, hx, ?_⟩
      simp only
      rw [List.getElem?_take, if_pos hlt]; exact hs
    · intro c v hc
      have hclt : c < s.cells.length := by rw [← el]; exact lt_of_getElem?_some hc
      have hcell : s.cells[c]? = some s.cells[c] := List.getElem?_eq_getElem hclt
      cases hcc : s.cells[c] with
      | closed v0 =>
        rw [hcc] at hcell
        rw [e5 c (by intro sl h'; rw [hcell] at h'; cases h'), hcell] at hc
        cases hc
        obtain ⟨x, hx, hv, hn'⟩ := h.cls c _ hcell
        exact ⟨x, hx, hv, fun hm => hn' (List.mem_of_mem_take hm)⟩
      | opened sl =>
        rw [hcc] at hcell
        rcases Nat.lt_or_ge sl n with hlt | hge
        · rw [e5 c (by
            intro sl' h'; rw [hcell] at h'
            simp only [Option.some.injEq, Cell.opened.injEq] at h'; omega), hcell] at hc
          cases hc
        · obtain ⟨v', hv', hc'⟩ := e4 c sl hcell hge
          rw [hc'] at hc; cases hc
          obtain ⟨x, hx, hs⟩ := h.opn c sl hcell
          obtain ⟨x', hx', hxv⟩ := h.stk sl v hv'
          rw [hs] at hx'; cases hx'
          refine ⟨x, hx, hxv, ?_⟩
          intro hm
          obtain ⟨j, hj⟩ := List.mem_iff_getElem?.mp hm
          simp only at hj
          rw [List.getElem?_take] at hj
          split at hj
          · rename_i hjn
            have := nodup_idx h.snd hj hs
            omega
          · cases hj
    · exact h.snd.sublist (List.take_sublist n a.astack)
    · intro x hx
      exact h.sbd x (List.mem_of_mem_take hx)

/-- One disciplined step of the mechanism is matched by the abstract step, with equal observations. -/
theorem sim_step {s : Fiber} {a : AState} (h : Rel s a) {op : Op} (hd : Disc s op) : Sim s a op := by
  cases op with
  | push v => exact sim_push h v
  | getLocal i => exact sim_getLocal h hd
  | setLocal i v => exact sim_setLocal h v hd
  | capture loc => exact sim_capture h hd
  | getCell c => exact sim_getCell h hd
  | setCell c v => exact sim_setCell h v hd
  | closeAndTruncate n => exact sim_closeAndTruncate h hd
  | closeFrom idx => exact absurd hd id
  | truncate n => exact absurd hd id

/-- Whole sequences. -/
theorem sim_run : ∀ (ops : List Op) (s : Fiber) (a : AState), Rel s a → Disciplined s ops →
    ∃ s' os a', run ops s = .ok (s', os) ∧ arun ops a = some (a', os.map Obs.erase) ∧ Rel s' a' := by
  intro ops
  induction ops with
  | nil => intro s a h _; exact ⟨s, [], a, rfl, rfl, h⟩
  | cons op ops ih =>
    intro s a h hd
    unfold Disciplined at hd
    obtain ⟨s1, o, a1, h1, h2, h3⟩ := sim_step h hd.1
    have hd2 := hd.2
    rw [h1] at hd2
    simp only at hd2
    obtain ⟨s2, os, a2, g1, g2, g3⟩ := ih s1 a1 h3 hd2
    refine ⟨s2, o :: os, a2, ?_, ?_, g3⟩
    · simp [run, h1, g1]
    · simp [arun, h2, g2]

/-- Every reachable state is related to some abstract state. -/
theorem reachable_rel {s : Fiber} (h : Reachable s) : ∃ a, Rel s a := by
  induction h with
  | empty => exact ⟨_, rel_empty⟩
  | step _ hd hr ih =>
    obtain ⟨a, ha⟩ := ih
    obtain ⟨s1, o1, a1, h1, _, h3⟩ := sim_step ha hd
    rw [hr] at h1
    simp only [Res.ok.injEq, Prod.mk.injEq] at h1
    obtain ⟨rfl, _⟩ := h1
    exact ⟨a1, h3⟩

/-- The end state of a disciplined run from a reachable state is reachable. -/
theorem reachable_run : ∀ (ops : List Op) (s s' : Fiber) (os : List Obs),
    Reachable s → Disciplined s ops → run ops s = .ok (s', os) → Reachable s' := by
  intro ops
  induction ops with
  | nil =>
    intro s s' os h _ hr
    simp only [run, Res.ok.injEq, Prod.mk.injEq] at hr
    obtain ⟨rfl, _⟩ := hr; exact h
  | cons op ops ih =>
    intro s s' os h hd hr
    unfold Disciplined at hd
    simp only [run] at hr
    split at hr
    · rename_i s1 o h1
      have hd2 := hd.2
      rw [h1] at hd2
      simp only at hd2
      split at hr
      · rename_i s2 os2 h2
        simp only [Res.ok.injEq, Prod.mk.injEq] at hr
        obtain ⟨rfl, _⟩ := hr
        exact ih _ _ _ (Reachable.step h hd.1 h1) hd2 h2
      · cases hr
      · cases hr
    · cases hr
    · cases hr

theorem reachable_inv {s : Fiber} (h : Reachable s) : Inv s :=
  (reachable_rel h).elim fun _ ha => ha.inv

end Yarel.Upv
