import Yarel.Model.Roots

/-! Helper lemmas for `Props/C16.lean` (root counting part). -/
namespace Yarel.Roots

/-- The bookkeeping invariant: every counter equals the number of live handles to its object, handles only point
to existing objects, and a `UniqueRoot` is unique. -/
structure Inv (st : State) : Prop where
  exact : ∀ o, o < st.numRoots.length → st.numRoots[o]? = some (handleCount st o)
  inRange : ∀ h ∈ st.handles, h.obj < st.numRoots.length
  unique : ∀ o, st.handles.count ⟨o, true⟩ ≤ 1

theorem inv_init : Inv init := by
  constructor <;> simp [init]

theorem inc_ok {cs : List Nat} {o : Nat} (h : o < cs.length) :
    inc cs o = .ok (cs.set o (cs[o] + 1)) := by
  simp [inc, List.getElem?_eq_getElem h]

theorem dec_ok {cs : List Nat} {o n : Nat} (h : cs[o]? = some (n + 1)) :
    dec cs o = .ok (cs.set o n) := by
  simp [dec, h]

theorem count_pos_of_mem {l : List Handle} {h : Handle} (hm : h ∈ l) : 1 ≤ l.count h :=
  List.count_pos_iff.mpr hm

theorem handle_ne_kind (o o' : Nat) : (⟨o, false⟩ : Handle) ≠ ⟨o', true⟩ := by
  intro h; cases h

/-- Adding a `Root` handle and incrementing the counter keeps the invariant. -/
theorem inv_addRoot {st : State} {o : Nat} (hi : Inv st) (ho : o < st.numRoots.length) :
    Inv { numRoots := st.numRoots.set o (st.numRoots[o] + 1), handles := ⟨o, false⟩ :: st.handles } := by
  have hex := hi.exact
  constructor
  · intro o' ho'
    simp only [List.length_set] at ho'
    have := hex o' ho'
    have := hex o ho
    simp only [handleCount, List.count_cons, List.getElem?_set] at *
    by_cases hoo : o = o'
    · subst hoo
      simp_all
      omega
    · have h1 : ¬ ((⟨o, false⟩ : Handle) == ⟨o', false⟩) = true := by simp [hoo]
      simp_all
  · intro h hh
    simp only [List.mem_cons] at hh
    simp only [List.length_set]
    rcases hh with hh | hh
    · subst hh; exact ho
    · exact hi.inRange h hh
  · intro o'
    simp only [List.count_cons]
    have := hi.unique o'
    simp_all

/-- Removing a held handle and decrementing the counter keeps the invariant (and the decrement cannot underflow). -/
theorem inv_drop {st : State} {o : Nat} {u : Bool} (hi : Inv st) (hm : (⟨o, u⟩ : Handle) ∈ st.handles) :
    ∃ cs, dec st.numRoots o = .ok cs ∧ Inv { numRoots := cs, handles := st.handles.erase ⟨o, u⟩ } := by
  have ho : o < st.numRoots.length := hi.inRange _ hm
  have hc := count_pos_of_mem hm
  have hex := hi.exact o ho
  obtain ⟨n, hn⟩ : ∃ n, handleCount st o = n + 1 := by
    refine ⟨handleCount st o - 1, ?_⟩
    cases u <;> simp only [handleCount] <;> omega
  rw [hn] at hex
  refine ⟨_, dec_ok hex, ?_⟩
  constructor
  · intro o' ho'
    simp only [List.length_set] at ho'
    have h' := hi.exact o' ho'
    simp only [handleCount, List.count_erase, List.getElem?_set] at *
    by_cases hoo : o = o'
    · subst hoo
      cases u <;> simp_all <;> (have := count_pos_of_mem hm; omega)
    · have h1 : ∀ u', ¬ ((⟨o, u⟩ : Handle) == ⟨o', u'⟩) = true := by intro u'; simp [hoo]
      simp_all
  · intro h hh
    simp only [List.length_set]
    exact hi.inRange h (List.mem_of_mem_erase hh)
  · intro o'
    have := hi.unique o'
    simp only [List.count_erase]
    omega

/-- A fresh object with one handle of either kind. -/
theorem inv_new {st : State} (u : Bool) (hi : Inv st) :
    Inv { numRoots := st.numRoots ++ [1], handles := ⟨st.numRoots.length, u⟩ :: st.handles } := by
  have hfresh : ∀ u', st.handles.count ⟨st.numRoots.length, u'⟩ = 0 := by
    intro u'
    apply List.count_eq_zero.mpr
    intro hm
    exact Nat.lt_irrefl _ (hi.inRange _ hm)
  constructor
  · intro o' ho'
    simp only [List.length_append, List.length_singleton] at ho'
    simp only [handleCount, List.count_cons]
    by_cases hoo : o' = st.numRoots.length
    · subst hoo
      simp only [hfresh]
      cases u <;> simp
    · have ho'' : o' < st.numRoots.length := by omega
      have h' := hi.exact o' ho''
      have h1 : ∀ u', ¬ ((⟨st.numRoots.length, u⟩ : Handle) == ⟨o', u'⟩) = true := by
        intro u'; simp; omega
      simp only [handleCount] at h'
      simp [h1, List.getElem?_append_left ho'', h']
  · intro h hh
    simp only [List.mem_cons] at hh
    simp only [List.length_append, List.length_singleton]
    rcases hh with hh | hh
    · subst hh; simp
    · have := hi.inRange h hh; omega
  · intro o'
    simp only [List.count_cons]
    have := hi.unique o'
    by_cases hoo : o' = st.numRoots.length
    · subst hoo; simp only [hfresh]; split <;> omega
    · have h1 : ¬ ((⟨st.numRoots.length, u⟩ : Handle) == ⟨o', true⟩) = true := by simp; omega
      simp [h1, this]

theorem step_new_eq (st : State) :
    inc (st.numRoots ++ [0]) st.numRoots.length = .ok (st.numRoots ++ [1]) := by
  simp [inc]

/-- One legal operation never faults and keeps the invariant. -/
theorem step_inv {st : State} {op : Op} (hi : Inv st) (hh : op.holds st = true) :
    ∃ st', step st op = .ok st' ∧ Inv st' := by
  cases op with
  | newRoot => exact ⟨_, by simp [step, step_new_eq st], inv_new false hi⟩
  | newUnique => exact ⟨_, by simp [step, step_new_eq st], inv_new true hi⟩
  | cloneRoot o =>
    simp only [Op.holds, List.contains_iff_mem] at hh
    have ho := hi.inRange _ hh
    exact ⟨_, by simp [step, inc_ok ho], inv_addRoot hi ho⟩
  | rootFromGc o =>
    simp only [Op.holds, decide_eq_true_eq] at hh
    exact ⟨_, by simp [step, inc_ok hh], inv_addRoot hi hh⟩
  | rootFromUnique o =>
    simp only [Op.holds, List.contains_iff_mem] at hh
    have ho := hi.inRange _ hh
    have h1 := inv_addRoot hi ho
    have hm : (⟨o, true⟩ : Handle) ∈ (⟨o, false⟩ :: st.handles : List Handle) := by simp [hh]
    obtain ⟨cs, hd, hinv⟩ := inv_drop h1 hm
    refine ⟨{ numRoots := cs, handles := ⟨o, false⟩ :: st.handles.erase ⟨o, true⟩ }, ?_, ?_⟩
    · simp only [step, inc_ok ho]
      simp only at hd
      rw [hd]
    · have he : (⟨o, false⟩ :: st.handles : List Handle).erase ⟨o, true⟩
          = ⟨o, false⟩ :: st.handles.erase ⟨o, true⟩ := by
        rw [List.erase_cons_tail]; simp
      simpa [he] using hinv
  | dropRoot o =>
    simp only [Op.holds, List.contains_iff_mem] at hh
    obtain ⟨cs, hd, hinv⟩ := inv_drop hi hh
    exact ⟨_, by simp [step, hd], hinv⟩
  | dropUnique o =>
    simp only [Op.holds, List.contains_iff_mem] at hh
    obtain ⟨cs, hd, hinv⟩ := inv_drop hi hh
    exact ⟨_, by simp [step, hd], hinv⟩

theorem run_inv {ops : List Op} {st : State} (hi : Inv st) (hl : legal st ops = true) :
    ∃ st', run st ops = .ok st' ∧ Inv st' := by
  induction ops generalizing st with
  | nil => exact ⟨st, rfl, hi⟩
  | cons op ops ih =>
    simp only [legal, Bool.and_eq_true] at hl
    obtain ⟨st1, h1, hi1⟩ := step_inv hi hl.1
    have hl2 := hl.2
    simp only [h1] at hl2
    obtain ⟨st', h2, hi2⟩ := ih hi1 hl2
    exact ⟨st', by simp [run, h1, h2], hi2⟩

/-- Under the invariant a counter is zero exactly when no handle to the object is left. -/
theorem zero_iff_no_handle {st : State} (hi : Inv st) {o : Nat} (ho : o < st.numRoots.length) :
    st.numRoots[o]? = some 0 ↔ ∀ h ∈ st.handles, h.obj ≠ o := by
  rw [hi.exact o ho]
  simp only [handleCount, Option.some.injEq, Nat.add_eq_zero_iff, List.count_eq_zero]
  constructor
  · rintro ⟨h1, h2⟩ h hm hobj
    cases h with
    | mk obj u =>
      simp only at hobj; subst hobj
      cases u
      · exact h1 hm
      · exact h2 hm
  · intro h
    exact ⟨fun hm => h _ hm rfl, fun hm => h _ hm rfl⟩

end Yarel.Roots
