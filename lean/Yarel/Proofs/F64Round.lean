/-
Bit-field facts about binary64 patterns and exactness of `roundRat` on representable values.
-/
import Yarel.Model.F64

namespace Yarel.F64

theorem expField_eq (b : Bits) : expField b = (b.toNat / 2^52) % 2048 := by
  unfold expField
  rw [UInt64.toNat_and, UInt64.toNat_shiftRight]
  show (b.toNat >>> (52 % 64)) &&& (2^11 - 1) = _
  rw [Nat.and_two_pow_sub_one_eq_mod, Nat.shiftRight_eq_div_pow]

theorem mantField_eq (b : Bits) : mantField b = b.toNat % 2^52 := by
  unfold mantField
  rw [UInt64.toNat_and]
  show b.toNat &&& (2^52 - 1) = _
  rw [Nat.and_two_pow_sub_one_eq_mod]

theorem signBit_eq (b : Bits) : signBit b = decide (2^63 ≤ b.toNat) := by
  unfold signBit
  have h : (b >>> 63).toNat = b.toNat / 2^63 := by
    rw [UInt64.toNat_shiftRight]; show b.toNat >>> (63 % 64) = _; rw [Nat.shiftRight_eq_div_pow]
  have hb := b.toNat_lt
  by_cases h2 : 2^63 ≤ b.toNat
  · simp only [h2, decide_true, bne_iff_ne, ne_eq]
    intro h0
    have := congrArg UInt64.toNat h0
    rw [h] at this
    simp at this
    omega
  · simp only [h2, decide_false, bne_eq_false_iff_eq]
    apply UInt64.toNat_inj.mp
    rw [h]; simp; omega
theorem roundHalfEven_mul (m d : Nat) (hd : 0 < d) : roundHalfEven (m * d) d = m := by
  unfold roundHalfEven
  simp only [Nat.mul_mod_left, Nat.mul_zero]
  rw [Nat.mul_div_cancel _ hd]
  have : ¬ d < 0 := by omega
  simp only [this, if_false]
  have : ¬ (0 = d ∧ m % 2 = 1) := by omega
  simp only [this, if_false]

theorem log2_mul_pow (m t : Nat) (hm : 2^52 ≤ m) (hm2 : m < 2^53) : (m * 2^t).log2 = 52 + t := by
  have hpos : 0 < 2^t := Nat.two_pow_pos _
  have hne : m * 2^t ≠ 0 := by
    have : 0 < m := by omega
    exact Nat.ne_of_gt (Nat.mul_pos this hpos)
  rw [Nat.log2_eq_iff hne]
  constructor
  · rw [Nat.pow_add]; exact Nat.mul_le_mul_right _ hm
  · rw [show 52 + t + 1 = 53 + t by omega, Nat.pow_add]; exact Nat.mul_lt_mul_of_pos_right hm2 hpos

theorem roundMag_exact (num den m t : Nat) (hden : 0 < den) (h : num * 2^1074 = m * 2^t * den)
    (hm : m < 2^53) (hnorm : t = 0 ∨ 2^52 ≤ m) (ht : t * 2^52 + m < infMag) :
    roundMag num den = t * 2^52 + m := by
  unfold roundMag
  have hdiv : num * 2^1074 / den = m * 2^t := by rw [h, Nat.mul_div_cancel _ hden]
  have ht' : (num * 2^1074 / den).log2 - 52 = t := by
    rw [hdiv]
    by_cases h52 : 2^52 ≤ m
    · rw [log2_mul_pow m t h52 hm]; omega
    · have t0 : t = 0 := by omega
      subst t0
      simp only [Nat.pow_zero, Nat.mul_one]
      by_cases hm0 : m = 0
      · subst hm0; decide
      · have : m.log2 < 52 := (Nat.log2_lt hm0).2 (by omega)
        omega
  simp only [ht']
  have : num * 2^1074 = m * (den * 2^t) := by rw [h, Nat.mul_assoc, Nat.mul_comm (2^t)]
  rw [this, roundHalfEven_mul _ _ (Nat.mul_pos hden (Nat.two_pow_pos _))]
  have : ¬ infMag ≤ t * 2^52 + m := by omega
  simp only [this, if_false]

theorem expField_lt (b : Bits) : expField b < 2048 := by rw [expField_eq]; omega
theorem mantField_lt (b : Bits) : mantField b < 2^52 := by rw [mantField_eq]; omega

/-- A bit pattern is its three fields. -/
theorem toNat_fields (b : Bits) :
    b.toNat = (if signBit b then 2^63 else 0) + expField b * 2^52 + mantField b := by
  rw [signBit_eq, expField_eq, mantField_eq]
  have hb := b.toNat_lt
  by_cases h : 2^63 ≤ b.toNat
  · simp only [h, decide_true, if_true]; omega
  · simp only [h, decide_false]; simp only [Bool.false_eq_true, if_false]; omega

theorem pack_eq (b : Bits) (s : Bool) (mag : Nat) (hs : s = signBit b)
    (h : mag = expField b * 2^52 + mantField b) : pack s mag = b := by
  unfold pack
  have := toNat_fields b
  subst hs h
  rw [← Nat.add_assoc, ← this]
  exact UInt64.ofNat_toNat

theorem isFinite_iff (b : Bits) : isFinite b = true ↔ expField b ≠ 2047 := by
  unfold isFinite; simp

/-- **Rounding a representable value is the identity.** If `num/den` is exactly the magnitude `m * 2^e` of the
finite double `b` (cross-multiplied; one of the two powers is `2^0`), `roundRat` returns `b`. -/
theorem roundRat_exact (b : Bits) (num den : Nat) (hfin : isFinite b = true) (hden : 0 < den)
    (hval : num * 2 ^ (-(decode b).2.2).toNat = (decode b).2.1 * 2 ^ (decode b).2.2.toNat * den) :
    roundRat (signBit b) num den = b := by
  have hef := (isFinite_iff b).1 hfin
  have hef2 := expField_lt b
  have hmf := mantField_lt b
  unfold roundRat
  apply pack_eq b _ _ rfl
  unfold decode at hval
  by_cases h0 : expField b = 0
  · simp only [h0, beq_self_eq_true, if_true] at hval
    have e1 : (-(-1074 : Int)).toNat = 1074 := rfl
    have e2 : (-1074 : Int).toNat = 0 := rfl
    rw [e1, e2] at hval
    have hv : num * 2^1074 = mantField b * 2^0 * den := hval
    rw [roundMag_exact num den (mantField b) 0 hden hv (by omega) (Or.inl rfl) (by unfold infMag; omega)]
    rw [h0]
  · have hne : (expField b == 0) = false := by simp [h0]
    simp only [hne] at hval
    simp only [Bool.false_eq_true, if_false] at hval
    have hv : num * 2^1074 = (mantField b + 2^52) * 2^(expField b - 1) * den := by
      by_cases hlt : expField b < 1075
      · have e1 : (-((expField b : Int) - 1075)).toNat = 1075 - expField b := by omega
        have e2 : ((expField b : Int) - 1075).toNat = 0 := by omega
        rw [e1, e2] at hval
        have : (1074 : Nat) = (1075 - expField b) + (expField b - 1) := by omega
        rw [this, Nat.pow_add, ← Nat.mul_assoc, hval]
        simp only [Nat.pow_zero, Nat.mul_one]
        rw [Nat.mul_assoc, Nat.mul_comm den, ← Nat.mul_assoc]
      · have e1 : (-((expField b : Int) - 1075)).toNat = 0 := by omega
        have e2 : ((expField b : Int) - 1075).toNat = expField b - 1075 := by omega
        rw [e1, e2] at hval
        simp only [Nat.pow_zero, Nat.mul_one] at hval
        rw [hval]
        have : expField b - 1 = (expField b - 1075) + 1074 := by omega
        rw [this, Nat.pow_add]
        simp only [Nat.mul_assoc, Nat.mul_comm den]
    rw [roundMag_exact num den _ _ hden hv (by omega) (Or.inr (by omega)) (by unfold infMag; omega)]
    have : expField b = (expField b - 1) + 1 := by omega
    omega

end Yarel.F64
