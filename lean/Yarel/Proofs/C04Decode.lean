/-
Helper lemmas about decoding: a decoded instruction lies completely inside the code.
-/
import Yarel.Model.Bytecode

namespace Yarel.Bytecode

theorem byteAt_lt {fn : FnDump} {p b : Nat} (h : byteAt fn p = some b) : p < fn.code.size := by
  unfold byteAt at h
  split at h
  · rename_i hb
    exact (Array.getElem?_eq_some_iff.mp hb).1
  · cases h

theorem u16At_lt {fn : FnDump} {p v : Nat} (h : u16At fn p = some v) : p + 1 < fn.code.size := by
  unfold u16At at h
  split at h
  · rename_i h1 h2
    exact byteAt_lt h2
  · cases h

theorem readUps_spec {fn : FnDump} : ∀ (n p : Nat) (ups : List (Bool × Nat)),
    readUps fn p n = some ups → ups.length = n ∧ (n = 0 ∨ p + 2 * n ≤ fn.code.size)
  | 0, p, ups, h => by
    simp only [readUps, Option.some.injEq] at h
    subst h
    simp
  | n + 1, p, ups, h => by
    unfold readUps at h
    split at h
    · rename_i l k hl hk
      split at h
      · rename_i rest hrest
        simp only [Option.some.injEq] at h
        subst h
        have ih := readUps_spec n (p + 2) rest hrest
        have hk' := byteAt_lt hk
        refine ⟨by simp [ih.1], Or.inr ?_⟩
        rcases ih.2 with h0 | h2
        · subst h0; omega
        · omega
      · cases h
    · cases h

theorem decodeE_bounds {fn : FnDump} {pc : Nat} {i : Instr} (h : decodeE fn pc = .ok i) :
    1 ≤ i.size ∧ pc + i.size ≤ fn.code.size := by
  unfold decodeE at h
  split at h
  · cases h
  · rename_i byte hb
    have hpc := byteAt_lt hb
    split at h
    · cases h
    · rename_i op hop
      split at h
      · injection h with h; subst h; simp; omega
      · split at h
        · rename_i a ha
          have := byteAt_lt ha
          injection h with h; subst h; simp; omega
        · cases h
      · split at h
        · rename_i a ha
          have := u16At_lt ha
          injection h with h; subst h; simp; omega
        · cases h
      · split at h
        · rename_i a b ha hb'
          have := byteAt_lt hb'
          injection h with h; subst h; simp; omega
        · cases h
      · split at h
        · rename_i a b ha hb'
          have := u16At_lt hb'
          injection h with h; subst h; simp; omega
        · cases h
      · split at h
        · cases h
        · rename_i k hk
          have hk' := u16At_lt hk
          split at h
          · cases h
          · rename_i ar n hc
            split at h
            · rename_i ups hups
              have hs := readUps_spec n (pc + 3) ups hups
              injection h with h; subst h
              simp only
              rcases hs.2 with h0 | h2
              · subst h0; omega
              · omega
            · cases h
          · cases h

theorem decode_eq_some {fn : FnDump} {pc : Nat} {i : Instr} :
    decode fn pc = some i ↔ decodeE fn pc = .ok i := by
  unfold decode
  split
  · rename_i j hj
    simp [hj]
  · rename_i e he
    simp [he]

theorem decode_bounds {fn : FnDump} {pc : Nat} {i : Instr} (h : decode fn pc = some i) :
    1 ≤ i.size ∧ pc + i.size ≤ fn.code.size :=
  decodeE_bounds (decode_eq_some.mp h)

end Yarel.Bytecode
