import Yarel.Model.Pacing

/-! Helper lemmas for `Props/C16.lean` (pacing part). -/
namespace Yarel.Pacing

/-! ### one allocation -/

theorem allocPaced_collected_iff (st : State) (size live g : Nat) :
    (allocPaced st size live g).2 = true ↔ st.thr ≤ st.bytes := by
  unfold allocPaced; split <;> simp_all

theorem allocPaced_of_collected {st : State} {size live g : Nat}
    (h : (allocPaced st size live g).2 = true) :
    st.thr ≤ st.bytes ∧ (allocPaced st size live g).1 = { bytes := live + size, thr := live * g } := by
  unfold allocPaced at *; split at h <;> simp_all [collect]

theorem allocPaced_of_not_collected {st : State} {size live g : Nat}
    (h : (allocPaced st size live g).2 = false) :
    st.bytes < st.thr ∧ (allocPaced st size live g).1 = { bytes := st.bytes + size, thr := st.thr } := by
  by_cases hh : st.bytes ≥ st.thr
  · simp [allocPaced, hh] at h
  · simp only [allocPaced, hh, if_false]; exact ⟨by omega, trivial⟩

theorem allocAlways_eq (st : State) (size live g : Nat) :
    allocAlways st size live g = ({ bytes := live + size, thr := live * g }, true) := rfl

theorem allocPaced_eq_allocAlways {st : State} (size live g : Nat) (h : st.thr ≤ st.bytes) :
    allocPaced st size live g = allocAlways st size live g := by
  unfold allocPaced; simp [h, allocAlways]

/-- Whatever the mode: a collecting allocation ends at `live + size` with threshold `live * g`. -/
theorem alloc_of_collected {mode : Mode} {st : State} {size live g : Nat}
    (h : (alloc mode st size live g).2 = true) :
    (alloc mode st size live g).1 = { bytes := live + size, thr := live * g } := by
  cases mode
  · exact (allocPaced_of_collected h).2
  · rfl

/-- Whatever the mode: a non-collecting allocation started below the threshold and leaves it alone. -/
theorem alloc_of_not_collected {mode : Mode} {st : State} {size live g : Nat}
    (h : (alloc mode st size live g).2 = false) :
    st.bytes < st.thr ∧ (alloc mode st size live g).1 = { bytes := st.bytes + size, thr := st.thr } := by
  cases mode
  · exact allocPaced_of_not_collected h
  · simp [alloc, allocAlways] at h

/-! ### traces -/

/-- Every recorded step is one application of `alloc` to its `before` state. -/
theorem mem_trace_spec {mode : Mode} {g : Nat} {evs : List Event} {st : State} {s : Step}
    (h : s ∈ trace mode st evs g) :
    s.after = (alloc mode s.before s.size s.live g).1 ∧ s.collected = (alloc mode s.before s.size s.live g).2 := by
  induction evs generalizing st with
  | nil => simp [trace] at h
  | cons e rest ih =>
    simp only [trace, List.mem_cons] at h
    rcases h with h | h
    · subst h; exact ⟨rfl, rfl⟩
    · exact ih h

theorem trace_length (mode : Mode) (g : Nat) (evs : List Event) (st : State) :
    (trace mode st evs g).length = evs.length := by
  induction evs generalizing st with
  | nil => rfl
  | cons e rest ih => simp [trace, ih]

theorem trace_append (mode : Mode) (g : Nat) (evs₁ evs₂ : List Event) (st : State) :
    trace mode st (evs₁ ++ evs₂) g = trace mode st evs₁ g ++ trace mode (run mode st evs₁ g) evs₂ g := by
  induction evs₁ generalizing st with
  | nil => rfl
  | cons e rest ih => simp [trace, run, ih]

/-- The events of a trace are the events that were fed in. -/
theorem trace_events (mode : Mode) (g : Nat) (evs : List Event) (st : State) :
    (trace mode st evs g).map (fun s => ({ size := s.size, live := s.live } : Event)) = evs := by
  induction evs generalizing st with
  | nil => rfl
  | cons e rest ih => simp [trace, ih]

/-- The generalised "threshold in force" lemma: starting anywhere, the threshold seen by a step is the
starting threshold updated by the collections recorded before it. -/
theorem thr_before_eq_fold {mode : Mode} {g : Nat} {evs : List Event} {st : State}
    {pre post : List Step} {s : Step} (h : trace mode st evs g = pre ++ s :: post) :
    s.before.thr = pre.foldl (fun T s => if s.collected then s.live * g else T) st.thr ∧
    s.before.bytes = (match pre.getLast? with | none => st.bytes | some p => p.after.bytes) := by
  induction evs generalizing st pre with
  | nil => simp [trace] at h
  | cons e rest ih =>
    cases pre with
    | nil =>
      simp only [trace, List.nil_append, List.cons.injEq] at h
      obtain ⟨h1, -⟩ := h
      subst h1; exact ⟨rfl, rfl⟩
    | cons p0 pre' =>
      simp only [trace, List.cons_append, List.cons.injEq] at h
      obtain ⟨h1, h2⟩ := h
      have ih' := ih h2
      subst h1
      refine ⟨?_, ?_⟩
      · rw [ih'.1, List.foldl_cons]
        congr 1
        cases hc : (alloc mode st e.size e.live g).2
        · simp [(alloc_of_not_collected hc).2]
        · simp [alloc_of_collected hc]
      · rw [ih'.2]
        cases pre' with
        | nil => simp
        | cons q qs => rw [List.getLast?_cons_cons, List.getLast?_cons]

/-- The final state is the `after` state of the last recorded step. -/
theorem run_eq_last (mode : Mode) (g : Nat) (evs : List Event) (st : State) :
    run mode st evs g = (match (trace mode st evs g).getLast? with | none => st | some p => p.after) := by
  induction evs generalizing st with
  | nil => rfl
  | cons e rest ih =>
    simp only [run, trace]
    rw [ih]
    cases h : trace mode (alloc mode st e.size e.live g).1 rest g with
    | nil => simp
    | cons q qs => rw [List.getLast?_cons_cons, List.getLast?_cons]

/-! ### the growth invariant -/

/-- Invariant behind `no_unbounded_growth`: the threshold is bounded by `M` and the heap is at most one
allocation (`≤ S`) above the threshold. -/
def Bounded (M S : Nat) (st : State) : Prop := st.thr ≤ M ∧ st.bytes ≤ st.thr + S

theorem bounded_alloc {mode : Mode} {g L S M size live : Nat} {st : State} (hg : 1 ≤ g)
    (hM : L * g ≤ M) (hst : Bounded M S st) (hsz : size ≤ S)
    (hl : (alloc mode st size live g).2 = true → live ≤ L) :
    Bounded M S (alloc mode st size live g).1 := by
  unfold Bounded at *
  cases hc : (alloc mode st size live g).2
  · obtain ⟨h1, h2⟩ := alloc_of_not_collected hc
    rw [h2]; simp only; omega
  · rw [alloc_of_collected hc]; simp only
    have h1 : live * g ≤ L * g := Nat.mul_le_mul_right g (hl hc)
    have h2 : live ≤ live * g := Nat.le_mul_of_pos_right live hg
    omega

theorem bounded_trace {mode : Mode} {g L S M : Nat} (hg : 1 ≤ g) (hM : L * g ≤ M)
    {evs : List Event} {st : State} (hst : Bounded M S st)
    (hL : ∀ s ∈ trace mode st evs g, s.collected = true → s.live ≤ L)
    (hS : ∀ e ∈ evs, e.size ≤ S) :
    (∀ s ∈ trace mode st evs g, Bounded M S s.before ∧ Bounded M S s.after) ∧
    Bounded M S (run mode st evs g) := by
  induction evs generalizing st with
  | nil => simp [trace, run, hst]
  | cons e rest ih =>
    have hstep : Bounded M S (alloc mode st e.size e.live g).1 :=
      bounded_alloc hg hM hst (hS e (by simp)) (fun hc => hL _ List.mem_cons_self hc)
    have ih' := ih hstep (fun s hs => hL s (by simp [trace, hs])) (fun e' he' => hS e' (by simp [he']))
    refine ⟨?_, ih'.2⟩
    intro s hs
    simp only [trace, List.mem_cons] at hs
    rcases hs with hs | hs
    · subst hs; exact ⟨hst, hstep⟩
    · exact ih'.1 s hs

/-! ### the monitor -/

theorem monitor_alloc {mode : Mode} {g size live : Nat} (st : State) (hg : 1 ≤ g) :
    monitor size st.thr (alloc mode st size live g).2 (alloc mode st size live g).1.bytes
      (alloc mode st size live g).1.thr = true := by
  cases hc : (alloc mode st size live g).2
  · obtain ⟨h1, h2⟩ := alloc_of_not_collected hc
    rw [h2]; simp [monitor]; omega
  · rw [alloc_of_collected hc]
    have h2 : live ≤ live * g := Nat.le_mul_of_pos_right live hg
    simp [monitor]; omega

end Yarel.Pacing
