/-
Helper lemmas for C09: caller chains and the invariant preserved by the fiber operations.
Model: Yarel/Model/Fibers.lean.
-/
import Yarel.Model.Fibers

namespace Yarel.Fibers

/-! ### pigeonhole -/

theorem nodup_length_le (n : Nat) : ∀ (l : List Nat), l.Nodup → (∀ x ∈ l, x < n) → l.length ≤ n := by
  induction n with
  | zero =>
    intro l _ h
    cases l with
    | nil => simp
    | cons a t => exact absurd (h a (List.mem_cons_self)) (by omega)
  | succ n ih =>
    intro l hd hlt
    have h1 : (l.erase n).Nodup := hd.erase n
    have h2 : ∀ x ∈ l.erase n, x < n := by
      intro x hx
      have := (hd.mem_erase_iff).mp hx
      have := hlt x this.2
      omega
    have h3 := ih _ h1 h2
    have h4 := @List.length_erase _ _ _ n l
    split at h4 <;> omega

/-! ### caller chains -/

/-- `fs[f]` exists and its `caller` field is `c`. -/
def CallerAt (fs : List Fiber) (f : Nat) (c : Option Nat) : Prop :=
  ∃ fb, fs[f]? = some fb ∧ fb.caller = c

/-- `fs[f]` exists and has not finished. -/
def Alive (fs : List Fiber) (f : Nat) : Prop :=
  ∃ fb, fs[f]? = some fb ∧ 0 < fb.st.frames

/-- `ch = [f₀, f₁, …, root]` follows the caller links: `fᵢ.caller = some fᵢ₊₁`, and `root.caller = none`. -/
def IsChain (fs : List Fiber) (root : Nat) : List Nat → Prop
  | [] => False
  | [r] => r = root ∧ CallerAt fs r none
  | f :: g :: t => CallerAt fs f (some g) ∧ IsChain fs root (g :: t)

theorem IsChain.ne_nil {fs : List Fiber} {root : Nat} {ch : List Nat} (h : IsChain fs root ch) : ch ≠ [] := by
  intro e; subst e; exact h

theorem IsChain.callerAt {fs : List Fiber} {root : Nat} :
    ∀ {ch : List Nat}, IsChain fs root ch → ∀ x ∈ ch, ∃ c, CallerAt fs x c
  | [], h, _, _ => h.elim
  | [r], h, x, hx => by
    simp only [List.mem_singleton] at hx; subst hx; exact ⟨none, h.2⟩
  | f :: g :: t, h, x, hx => by
    rcases List.mem_cons.mp hx with rfl | hx
    · exact ⟨some g, h.1⟩
    · exact IsChain.callerAt h.2 x hx

theorem IsChain.lt {fs : List Fiber} {root : Nat} {ch : List Nat} (h : IsChain fs root ch) :
    ∀ x ∈ ch, x < fs.length := by
  intro x hx
  obtain ⟨c, fb, hfb, _⟩ := h.callerAt x hx
  exact (List.getElem?_eq_some_iff.mp hfb).1

theorem IsChain.congr {fs fs' : List Fiber} {root : Nat} :
    ∀ {ch : List Nat}, IsChain fs root ch →
      (∀ x ∈ ch, ∀ c, CallerAt fs x c → CallerAt fs' x c) → IsChain fs' root ch
  | [], h, _ => h.elim
  | [r], h, hc => ⟨h.1, hc r (List.mem_singleton.mpr rfl) none h.2⟩
  | f :: g :: _, h, hc =>
    ⟨hc f List.mem_cons_self (some g) h.1,
     IsChain.congr h.2 (fun x hx c hcx => hc x (List.mem_cons_of_mem _ hx) c hcx)⟩

theorem IsChain.getLast {fs : List Fiber} {root : Nat} :
    ∀ {ch : List Nat}, IsChain fs root ch → ch.getLast? = some root
  | [], h => h.elim
  | [r], h => by simp [h.1]
  | f :: g :: t, h => by
    have := IsChain.getLast h.2
    simpa [List.getLast?_cons_cons] using this

theorem IsChain.root_mem {fs : List Fiber} {root : Nat} {ch : List Nat} (h : IsChain fs root ch) :
    root ∈ ch :=
  List.mem_of_getLast? h.getLast

/-- The computed chain is the chain. -/
theorem chainFrom_of_isChain {fs : List Fiber} {root : Nat} :
    ∀ {ch : List Nat} (a : Nat) (rest : List Nat), ch = a :: rest → IsChain fs root ch →
      ∀ fuel, ch.length ≤ fuel → chainFrom fs fuel a = some ch
  | [], _, _, e, _, _, _ => by cases e
  | [r], a, rest, e, h, fuel, hf => by
    cases e
    obtain ⟨fb, hfb, hc⟩ := h.2
    cases fuel with
    | zero => simp at hf
    | succ n => simp [chainFrom, hfb, hc]
  | f :: g :: t, a, rest, e, h, fuel, hf => by
    cases e
    obtain ⟨fb, hfb, hc⟩ := h.1
    cases fuel with
    | zero => simp at hf
    | succ n =>
      have := chainFrom_of_isChain g t rfl h.2 n (by simp at hf ⊢; omega)
      simp [chainFrom, hfb, hc, this]

/-- Conversely, whatever `chainFrom` returns follows the caller links and ends at a fiber without caller. -/
theorem isChain_of_chainFrom {fs : List Fiber} :
    ∀ (fuel a : Nat) (ch : List Nat), chainFrom fs fuel a = some ch →
      ∃ root, IsChain fs root ch ∧ ch.head? = some a
  | 0, _, _, h => by simp [chainFrom] at h
  | fuel + 1, a, ch, h => by
    simp only [chainFrom] at h
    split at h
    · cases h
    · rename_i fb hfb
      split at h
      · rename_i hc
        cases h
        exact ⟨a, ⟨rfl, fb, hfb, hc⟩, rfl⟩
      · rename_i c hc
        split at h
        · rename_i l hl
          cases h
          obtain ⟨root, hch, hhd⟩ := isChain_of_chainFrom fuel c l hl
          cases l with
          | nil => exact hch.elim
          | cons g t =>
            simp only [List.head?_cons, Option.some.injEq] at hhd
            subst hhd
            exact ⟨root, ⟨⟨fb, hfb, hc⟩, hch⟩, rfl⟩
        · cases h

/-! ### the invariant -/

/-- The structural part of the invariant, with respect to the chain `ch` (head = running fiber). The
running fiber itself is allowed to be momentarily out of frames (inside `return_impl`). -/
structure Chain (root : Nat) (vm : Vm) (ch : List Nat) : Prop where
  fiber : vm.fiber = ch.head?
  unsafeFiber : vm.unsafeFiber = ch.head?
  isChain : IsChain vm.fibers root ch
  nodup : ch.Nodup
  callers : ∀ f fb, vm.fibers[f]? = some fb → (fb.caller.isSome = true ↔ f ∈ ch ∧ f ≠ root)
  tailAlive : ∀ x ∈ ch.tail, Alive vm.fibers x

/-- The invariant of reachable states. -/
structure Good (root : Nat) (vm : Vm) (ch : List Nat) : Prop extends Chain root vm ch where
  alive : ∀ x ∈ ch, Alive vm.fibers x

theorem Chain.active {root : Nat} {vm : Vm} {a : Nat} {rest : List Nat} (h : Chain root vm (a :: rest))
    (b : Build) : vm.active b = some a := by
  cases b
  · simpa [Vm.active] using h.fiber
  · simpa [Vm.active] using h.unsafeFiber

theorem Chain.length_le {root : Nat} {vm : Vm} {ch : List Nat} (h : Chain root vm ch) :
    ch.length ≤ vm.fibers.length :=
  nodup_length_le _ _ h.nodup h.isChain.lt

theorem Chain.chain_eq {root : Nat} {vm : Vm} {ch : List Nat} (h : Chain root vm ch) : vm.chain = some ch := by
  cases ch with
  | nil => exact h.isChain.elim
  | cons a rest =>
    have hf : vm.fiber = some a := by simpa using h.fiber
    simp only [Vm.chain, hf]
    exact chainFrom_of_isChain a rest rfl h.isChain _ h.length_le

/-- A change of fibers that keeps every `caller` field and keeps chain members alive preserves `Chain`. -/
theorem Chain.congr {root : Nat} {vm vm' : Vm} {ch : List Nat} (h : Chain root vm ch)
    (hf : vm'.fiber = vm.fiber) (hu : vm'.unsafeFiber = vm.unsafeFiber)
    (hc : ∀ (f : Nat) (fb' : Fiber), vm'.fibers[f]? = some fb' → ∃ fb, vm.fibers[f]? = some fb ∧ fb.caller = fb'.caller)
    (hc' : ∀ (f : Nat) (fb : Fiber), vm.fibers[f]? = some fb → ∃ fb', vm'.fibers[f]? = some fb' ∧ fb.caller = fb'.caller)
    (ha : ∀ x ∈ ch.tail, Alive vm.fibers x → Alive vm'.fibers x) : Chain root vm' ch where
  fiber := hf.trans h.fiber
  unsafeFiber := hu.trans h.unsafeFiber
  isChain := h.isChain.congr (by
    rintro x _ c ⟨fb, hfb, rfl⟩
    obtain ⟨fb', hfb', e⟩ := hc' x fb hfb
    exact ⟨fb', hfb', e.symm⟩)
  nodup := h.nodup
  callers := by
    intro f fb' hfb'
    obtain ⟨fb, hfb, e⟩ := hc f fb' hfb'
    rw [← e]; exact h.callers f fb hfb
  tailAlive := fun x hx => ha x hx (h.tailAlive x hx)

end Yarel.Fibers
