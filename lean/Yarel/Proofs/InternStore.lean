/-
Store level: rehash-on-growth, `Store.WF`, and the membership specifications of
`get` / `insert` / `adjustCapacity` from which all get/insert laws follow.
-/
import Yarel.Proofs.InternFind

namespace Yarel.Intern

/-! ### rehash into a fresh table -/

/-- keys of two optional entries differ (vacuous when one of them is `none`). -/
def KeyNe (a b : Option Entry) : Prop :=
  ∀ e₁ e₂, a = some e₁ → b = some e₂ → ¬(e₁.hash = e₂.hash ∧ e₁.text = e₂.text)

theorem TInv.cap4 {es : Table} (h : TInv es) : ∃ m, 0 < m ∧ es.size = 4 * m := by
  obtain ⟨k, hk⟩ := h.cap
  refine ⟨2 ^ k, Nat.two_pow_pos _, ?_⟩
  rw [hk, Nat.pow_succ, Nat.pow_succ]; omega

theorem tinv_replicate (k : Nat) : TInv (Array.replicate (2 ^ (k + 2)) (none : Option Entry)) := by
  have hno : ∀ (i : Nat) (e : Entry),
      (Array.replicate (2 ^ (k + 2)) (none : Option Entry))[i]? = some (some e) → False := by
    intro i e h
    rw [Array.getElem?_replicate] at h
    split at h <;> cases h
  exact ⟨⟨k, by simp⟩, fun i j e₁ _ h => (hno i e₁ h).elim, fun i e h => (hno i e h).elim⟩

theorem mem_replicate_none (n : Nat) (x : Entry) :
    ¬ Mem (Array.replicate n (none : Option Entry)) x := by
  rintro ⟨i, h⟩
  rw [Array.getElem?_replicate] at h
  split at h <;> cases h

theorem rehashInto_spec : ∀ (l : List (Option Entry)) (new : Table) (mask : Nat),
    TInv new → mask + 1 = new.size → occupied new + l.countP Option.isSome < new.size →
    l.Pairwise KeyNe →
    (∀ x e, Mem new x → some e ∈ l → ¬(x.hash = e.hash ∧ x.text = e.text)) →
    ∃ es', rehashInto new mask l = .ok es' ∧ TInv es' ∧ es'.size = new.size ∧
      (∀ x, Mem es' x ↔ (Mem new x ∨ some x ∈ l)) ∧
      occupied es' = occupied new + l.countP Option.isSome := by
  intro l
  induction l with
  | nil =>
    intro new mask hinv _ _ _ _
    exact ⟨new, rfl, hinv, rfl, by simp, by simp⟩
  | cons a rest ih =>
    intro new mask hinv hm hocc hpw hdisj
    rw [List.pairwise_cons] at hpw
    cases a with
    | none =>
      have hocc' : occupied new + rest.countP Option.isSome < new.size := by
        simpa using hocc
      obtain ⟨es', hr, hT, hsz, hmem, hcnt⟩ := ih new mask hinv hm hocc' hpw.2
        (fun x e hx he => hdisj x e hx (List.mem_cons_of_mem _ he))
      refine ⟨es', by simpa [rehashInto] using hr, hT, hsz, ?_, ?_⟩
      · intro x; rw [hmem x]; simp
      · rw [hcnt]; simp
    | some e =>
      have hcnt1 : (some e :: rest).countP Option.isSome = rest.countP Option.isSome + 1 := by
        simp
      rw [hcnt1] at hocc
      have hempty : HasEmpty new := hasEmpty_of_occupied_lt (by omega)
      obtain ⟨j, hfind, hj, hT, hmem, hnone, hoc⟩ := put_spec hinv hempty mask hm e
      have habs : ∀ x, Mem new x → ¬(x.hash = e.hash ∧ x.text = e.text) :=
        fun x hx => hdisj x e hx (List.mem_cons_self)
      have hisnone : new[j].isNone = true := hnone.mpr habs
      rw [hisnone] at hoc
      simp only [if_true] at hoc
      obtain ⟨es', hr, hT', hsz, hmem', hcnt⟩ := ih (new.set j (some e) hj) mask hT
        (by simpa using hm) (by rw [hoc]; simp only [Array.size_set]; omega) hpw.2
        (by
          intro x e' hx he'
          rcases (hmem x).mp hx with rfl | ⟨hxm, _⟩
          · exact hpw.1 (some e') he' x e' rfl rfl
          · exact hdisj x e' hxm (List.mem_cons_of_mem _ he'))
      refine ⟨es', ?_, hT', by simpa using hsz, ?_, ?_⟩
      · unfold rehashInto
        rw [hfind]
        simp only [hj, dite_true]
        exact hr
      · intro x
        rw [hmem' x, hmem x]
        constructor
        · rintro ((rfl | ⟨hx, _⟩) | hx)
          · exact Or.inr List.mem_cons_self
          · exact Or.inl hx
          · exact Or.inr (List.mem_cons_of_mem _ hx)
        · rintro (hx | hx)
          · exact Or.inl (Or.inr ⟨hx, habs x hx⟩)
          · rcases List.mem_cons.mp hx with hxe | hx
            · cases hxe; exact Or.inl (Or.inl rfl)
            · exact Or.inr hx
      · rw [hcnt, hoc, hcnt1]; omega

/-! ### well-formed stores -/

/-- Everything the table operations need (and preserve) about a store; `Inv H` adds that the cached
hashes come from `H`. -/
structure Store.WF (s : Store) : Prop where
  table : TInv s.entries
  mask : s.mask + 1 = s.entries.size
  size : s.size = occupied s.entries
  load : s.size ≤ s.entries.size * 3 / 4

theorem Store.WF.hasEmpty {s : Store} (h : s.WF) : HasEmpty s.entries := by
  apply hasEmpty_of_occupied_lt
  have := h.table.size_pos
  have := h.size
  have := h.load
  omega

theorem wf_empty : Store.empty.WF := by
  refine ⟨tinv_replicate 0, rfl, ?_, by decide⟩
  decide

theorem mem_toList_iff {es : Table} {x : Entry} : some x ∈ es.toList ↔ Mem es x := by
  rw [Array.mem_toList_iff, Array.mem_iff_getElem?]; rfl

theorem pairwise_toList {es : Table} (h : TInv es) : es.toList.Pairwise KeyNe := by
  rw [List.pairwise_iff_getElem]
  intro i j hi hj hij e₁ e₂ h₁ h₂ ⟨hkh, hkt⟩
  rw [Array.getElem_toList] at h₁ h₂
  have hi' : i < es.size := by simpa using hi
  have hj' : j < es.size := by simpa using hj
  have := h.distinct i j e₁ e₂ (by rw [Array.getElem?_eq_getElem hi', h₁])
    (by rw [Array.getElem?_eq_getElem hj', h₂]) hkh hkt
  omega

/-- `adjust_capacity(2 * capacity)` on a well-formed store: never faults, yields a valid table of
twice the capacity holding exactly the same entries. -/
theorem adjustCapacity_spec {s : Store} (h : s.WF) :
    ∃ s', s.adjustCapacity (s.entries.size * 2) = .ok s' ∧ TInv s'.entries ∧
      s'.entries.size = s.entries.size * 2 ∧ s'.mask + 1 = s'.entries.size ∧ s'.size = s.size ∧
      occupied s'.entries = occupied s.entries ∧ ∀ x, Mem s'.entries x ↔ Mem s.entries x := by
  obtain ⟨k, hk⟩ := h.table.cap
  have hnew : s.entries.size * 2 = 2 ^ ((k + 1) + 2) := by
    rw [hk, Nat.pow_succ 2 (k + 1 + 1)]
  have hpos := h.table.size_pos
  have hcnt : s.entries.toList.countP Option.isSome = occupied s.entries := Array.countP_toList
  have hocc0 : occupied (Array.replicate (s.entries.size * 2) (none : Option Entry)) = 0 := by
    simp [occupied, Array.countP_replicate]
  obtain ⟨es', hr, hT, hsz, hmem, hoc⟩ :=
    rehashInto_spec s.entries.toList (Array.replicate (s.entries.size * 2) none)
      (s.entries.size * 2 - 1) (by rw [hnew]; exact tinv_replicate (k + 1))
      (by simp only [Array.size_replicate]; omega)
      (by
        rw [hocc0, hcnt]
        simp only [Array.size_replicate]
        have := h.size; have := h.load; omega)
      (pairwise_toList h.table)
      (fun x e hx _ => (mem_replicate_none _ x hx).elim)
  simp only [Array.size_replicate] at hsz
  refine ⟨⟨es', s.size, s.entries.size * 2 - 1⟩, ?_, hT, hsz, ?_, rfl, ?_, ?_⟩
  · unfold Store.adjustCapacity
    rw [hr]
  · show s.entries.size * 2 - 1 + 1 = es'.size
    omega
  · show occupied es' = _
    rw [hoc, hocc0, hcnt]; omega
  · intro x
    show Mem es' x ↔ _
    rw [hmem x, mem_toList_iff]
    constructor
    · rintro (hx | hx)
      · exact (mem_replicate_none _ x hx).elim
      · exact hx
    · exact Or.inr

/-- Specification of `get` by membership. -/
theorem get_spec {s : Store} (h : s.WF) (hash : UInt64) (text : List UInt8) :
    ∃ r, s.get hash text = .ok r ∧
      ∀ e, r = some e ↔ (Mem s.entries e ∧ e.hash = hash ∧ e.text = text) := by
  obtain ⟨j, hfind, hj, _, _, _, _, hres⟩ :=
    findIndex_spec h.table h.hasEmpty s.mask h.mask hash text
  refine ⟨s.entries[j], ?_, ?_⟩
  · unfold Store.get
    rw [hfind]
    simp only [Array.getElem?_eq_getElem hj]
  · rw [Array.getElem?_eq_getElem hj] at hres
    intro e
    rcases hres with ⟨hnone, habs⟩ | ⟨e₀, he₀, hk⟩
    · simp only [Option.some.injEq] at hnone
      rw [hnone]
      constructor
      · intro h; cases h
      · rintro ⟨hm, hk⟩; exact absurd hk (habs e hm)
    · simp only [Option.some.injEq] at he₀
      rw [he₀]
      constructor
      · intro h; cases h
        exact ⟨⟨j, by rw [Array.getElem?_eq_getElem hj, he₀]⟩, hk⟩
      · rintro ⟨⟨i, hi⟩, hkh, hkt⟩
        have := h.table.distinct i j e e₀ hi (by rw [Array.getElem?_eq_getElem hj, he₀])
          (by rw [hkh, hk.1]) (by rw [hkt, hk.2])
        subst this
        rw [Array.getElem?_eq_getElem hj, he₀] at hi
        simp only [Option.some.injEq] at hi
        rw [hi]

/-- Lookups only depend on which entries with that key are stored. -/
theorem get_congr {s s' : Store} (h : s.WF) (h' : s'.WF) (hash : UInt64) (text : List UInt8)
    (hm : ∀ x, x.hash = hash → x.text = text → (Mem s.entries x ↔ Mem s'.entries x)) :
    s.get hash text = s'.get hash text := by
  obtain ⟨r, hr, hspec⟩ := get_spec h hash text
  obtain ⟨r', hr', hspec'⟩ := get_spec h' hash text
  rw [hr, hr']
  congr 1
  apply Option.ext
  intro e
  rw [hspec e, hspec' e]
  constructor
  · rintro ⟨hx, hk⟩; exact ⟨(hm e hk.1 hk.2).mp hx, hk⟩
  · rintro ⟨hx, hk⟩; exact ⟨(hm e hk.1 hk.2).mpr hx, hk⟩

/-- The growth step of `insert`: never faults; the resulting store is well formed, has room for one
more entry, and holds the same entries. -/
theorem grow_spec {s : Store} (h : s.WF) :
    ∃ s₁, (if s.needsGrow then s.adjustCapacity (s.entries.size * 2) else .ok s) = .ok s₁ ∧
      s₁.WF ∧ s₁.size + 1 ≤ s₁.entries.size * 3 / 4 ∧ s₁.size = s.size ∧
      (∀ x, Mem s₁.entries x ↔ Mem s.entries x) := by
  by_cases hg : s.needsGrow = true
  · obtain ⟨s₁, hr, hT, hsz, hmask, hsize, hocc, hmem⟩ := adjustCapacity_spec h
    obtain ⟨m, hm, hcap⟩ := h.table.cap4
    have hload := h.load
    refine ⟨s₁, by rw [if_pos hg]; exact hr, ⟨hT, hmask, ?_, ?_⟩, ?_, hsize, hmem⟩
    · rw [hsize, hocc]; exact h.size
    · rw [hsize, hsz]; omega
    · rw [hsize, hsz]; omega
  · refine ⟨s, by rw [if_neg hg], h, ?_, rfl, fun _ => Iff.rfl⟩
    simp only [Store.needsGrow, decide_eq_true_eq] at hg
    omega

/-- Specification of `insert` by membership: never faults, preserves well-formedness, the new
entry replaces whatever had its key, everything else is kept. -/
theorem insert_spec {s : Store} (h : s.WF) (e : Entry) :
    ∃ s', s.insert e = .ok s' ∧ s'.WF ∧
      (∀ x, Mem s'.entries x ↔ (x = e ∨ (Mem s.entries x ∧ ¬(x.hash = e.hash ∧ x.text = e.text)))) ∧
      ((∀ x, Mem s.entries x → ¬(x.hash = e.hash ∧ x.text = e.text)) → s'.size = s.size + 1) ∧
      ((∃ x, Mem s.entries x ∧ x.hash = e.hash ∧ x.text = e.text) → s'.size = s.size) := by
  obtain ⟨s₁, hgrow, hwf₁, hroom, hsize₁, hmem₁⟩ := grow_spec h
  obtain ⟨j, hfind, hj, hT, hmem, hnone, hocc⟩ :=
    put_spec hwf₁.table hwf₁.hasEmpty s₁.mask hwf₁.mask e
  refine ⟨⟨s₁.entries.set j (some e) hj,
      if s₁.entries[j].isNone then s₁.size + 1 else s₁.size, s₁.mask⟩, ?_, ⟨hT, ?_, ?_, ?_⟩, ?_, ?_, ?_⟩
  · unfold Store.insert
    rw [hgrow]
    simp only [hfind, hj, dite_true]
  · simpa using hwf₁.mask
  · show (if s₁.entries[j].isNone then s₁.size + 1 else s₁.size) = _
    rw [hocc, hwf₁.size]
    split <;> rfl
  · show (if s₁.entries[j].isNone then s₁.size + 1 else s₁.size) ≤ _
    simp only [Array.size_set]
    split <;> omega
  · intro x
    show Mem (s₁.entries.set j (some e) hj) x ↔ _
    rw [hmem x, hmem₁ x]
  · intro hh
    show (if s₁.entries[j].isNone then s₁.size + 1 else s₁.size) = _
    rw [if_pos (hnone.mpr fun x hx => hh x ((hmem₁ x).mp hx)), hsize₁]
  · rintro ⟨x, hx, hk⟩
    show (if s₁.entries[j].isNone then s₁.size + 1 else s₁.size) = _
    rw [if_neg (fun hc => hnone.mp hc x ((hmem₁ x).mpr hx) hk), hsize₁]

end Yarel.Intern
