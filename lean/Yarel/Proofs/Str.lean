/-
Character-level lemmas for string get-item and slicing (`Yarel/Model/Str.lean`).
-/
import Yarel.Proofs.Utf8Boundary
import Yarel.Proofs.Index
import Yarel.Model.Str
namespace Yarel.Str
open Yarel Yarel.Utf8 Yarel.Index

/-- A valid string seen at a boundary strictly inside it: prefix, one character, rest. -/
theorem exists_char_at {s : Bytes} (hs : Valid s) {b : Nat} (hb : isBoundary s b = true) (hlt : b < s.length) :
    ∃ p c rest, s = p ++ (encodeCP c ++ rest) ∧ p.length = b ∧ Valid p ∧ isScalar c = true ∧ Valid rest := by
  obtain ⟨a, r, rfl, rfl, ha, hr⟩ := hs.split_at_boundary hb
  rcases hr.cases with h0 | ⟨c, rest, hc, rfl, hrest⟩
  · subst h0; simp at hlt
  · exact ⟨a, c, rest, rfl, rfl, ha, hc, hrest⟩

section char
variable {p rest : Bytes} {c : Nat} (hc : isScalar c = true) (hrest : Valid rest)
include hc hrest

theorem isBoundary_mid {j : Nat} (h0 : 0 < j) (hj : j < (encodeCP c).length) :
    isBoundary (p ++ (encodeCP c ++ rest)) (p.length + j) = false := by
  rw [isBoundary_append_right p (Valid.cons_char hc hrest) (by omega)]
  rw [show p.length + j - p.length = j by omega]
  exact isBoundary_inside_char hc rest h0 hj

theorem isBoundary_after :
    isBoundary (p ++ (encodeCP c ++ rest)) (p.length + (encodeCP c).length) = true := by
  rw [isBoundary_append_right p (Valid.cons_char hc hrest) (by omega)]
  rw [show p.length + (encodeCP c).length - p.length = (encodeCP c).length by omega]
  exact Valid.boundary_of_append hrest

theorem isBoundary_before : isBoundary (p ++ (encodeCP c ++ rest)) p.length = true :=
  Valid.boundary_of_append (Valid.cons_char hc hrest)

theorem charEnd_char : ∀ (d j n : Nat), j + d = (encodeCP c).length → 0 < j → d < n →
    charEnd (p ++ (encodeCP c ++ rest)) n (p.length + j) = p.length + (encodeCP c).length := by
  intro d
  induction d with
  | zero =>
    intro j n hj h0 hn
    obtain ⟨n, rfl⟩ : ∃ m, n = m + 1 := ⟨n - 1, by omega⟩
    have : j = (encodeCP c).length := by omega
    subst this
    simp only [charEnd, isBoundary_after hc hrest, Bool.not_true, Bool.and_false, Bool.false_eq_true,
      ↓reduceIte]
  | succ d ih =>
    intro j n hj h0 hn
    obtain ⟨n, rfl⟩ : ∃ m, n = m + 1 := ⟨n - 1, by omega⟩
    have hle : p.length + j ≤ (p ++ (encodeCP c ++ rest)).length := by
      simp only [List.length_append]; omega
    simp only [charEnd, isBoundary_mid hc hrest h0 (by omega : j < (encodeCP c).length), Bool.not_false,
      Bool.and_true, decide_eq_true_eq, hle, ↓reduceIte]
    rw [Nat.add_assoc]
    exact ih (j + 1) n (by omega) (by omega) (by omega)

theorem iterAdvance_char : ∀ (d j n : Nat), j + d = (encodeCP c).length → 0 < j → d < n →
    iterAdvance (p ++ (encodeCP c ++ rest)) n (p.length + j) = p.length + (encodeCP c).length := by
  intro d
  induction d with
  | zero =>
    intro j n hj h0 hn
    obtain ⟨n, rfl⟩ : ∃ m, n = m + 1 := ⟨n - 1, by omega⟩
    have : j = (encodeCP c).length := by omega
    subst this
    simp only [iterAdvance, isBoundary_after hc hrest, Bool.not_true, Bool.and_false, Bool.false_eq_true,
      ↓reduceIte]
  | succ d ih =>
    intro j n hj h0 hn
    obtain ⟨n, rfl⟩ : ∃ m, n = m + 1 := ⟨n - 1, by omega⟩
    have hle : p.length + j < (p ++ (encodeCP c ++ rest)).length := by
      simp only [List.length_append]; omega
    simp only [iterAdvance, isBoundary_mid hc hrest h0 (by omega : j < (encodeCP c).length), Bool.not_false,
      Bool.and_true, decide_eq_true_eq, hle, ↓reduceIte]
    rw [Nat.add_assoc]
    exact ih (j + 1) n (by omega) (by omega) (by omega)

omit hc hrest in
theorem slice_char : slice (p ++ (encodeCP c ++ rest)) p.length (p.length + (encodeCP c).length) = encodeCP c := by
  unfold Utf8.slice
  rw [List.drop_left, show p.length + (encodeCP c).length - p.length = (encodeCP c).length by omega,
    List.take_left]

theorem checkedSlice_char (site : Site) :
    checkedSlice site (p ++ (encodeCP c ++ rest)) p.length (p.length + (encodeCP c).length)
      = .ok (encodeCP c) := by
  unfold checkedSlice
  rw [if_pos ⟨by omega, by simp only [List.length_append]; omega, isBoundary_before hc hrest,
    isBoundary_after hc hrest⟩, slice_char]

end char

/-! ### get-item -/

/-- Indexing a valid string at a boundary `b < len` yields exactly the character starting there. -/
theorem strGetItem_num_char {p rest : Bytes} {c : Nat} (hc : isScalar c = true) (hrest : Valid rest)
    {bits : UInt64}
    (hi : boundedIndex (.num bits) (p ++ (encodeCP c ++ rest)).length .String = .ok p.length) :
    strGetItem (p ++ (encodeCP c ++ rest)) (.num bits) = .ok (.str (encodeCP c)) := by
  have hpos := encodeCP_length_pos c
  unfold strGetItem
  simp only [hi, Outcome.bind_ok, validateCharBoundary, isBoundary_before hc hrest, ↓reduceIte]
  have hce := charEnd_char (p := p) hc hrest ((encodeCP c).length - 1) 1
    ((p ++ (encodeCP c ++ rest)).length + 1) (by omega) (by omega)
    (by simp only [List.length_append]; omega)
  rw [hce, checkedSlice_char hc hrest]
  rfl

theorem strGetItem_num {s : Bytes} (hs : Valid s) (bits : UInt64) :
    (∃ e, strGetItem s (.num bits) = .err e) ∨
    (∃ p c rest, s = p ++ (encodeCP c ++ rest) ∧ Valid p ∧ isScalar c = true ∧ Valid rest ∧
      boundedIndex (.num bits) s.length .String = .ok p.length ∧
      strGetItem s (.num bits) = .ok (.str (encodeCP c))) := by
  have hnf := boundedIndex_not_fault (.num bits) s.length .String
  cases hi : boundedIndex (.num bits) s.length .String with
  | ok b =>
    have hlt := boundedIndex_ok_lt hi
    by_cases hb : isBoundary s b = true
    · obtain ⟨p, c, rest, rfl, rfl, hp, hc, hrest⟩ := exists_char_at hs hb hlt
      exact Or.inr ⟨p, c, rest, rfl, hp, hc, hrest, rfl, strGetItem_num_char hc hrest hi⟩
    · refine Or.inl ⟨⟨.IndexError, .notCharBoundary .stringIndex⟩, ?_⟩
      unfold strGetItem
      simp only [hi, Outcome.bind_ok, validateCharBoundary, hb, mkErr]
      rfl
  | err e =>
    refine Or.inl ⟨e, ?_⟩
    unfold strGetItem
    simp only [hi, Outcome.bind_err]
  | fault st => simp [hi] at hnf

theorem strGetItem_range {s : Bytes} (hs : Valid s) (rb re : Int) :
    (∃ e, strGetItem s (.range rb re) = .err e) ∨
    (∃ lo hi, boundedRange rb re s.length .String = .ok (lo, hi) ∧ isBoundary s lo = true ∧
      isBoundary s hi = true ∧ strGetItem s (.range rb re) = .ok (.str (slice s lo hi)) ∧
      Valid (slice s lo hi)) := by
  have hnf := boundedRange_not_fault rb re s.length .String
  cases hr : boundedRange rb re s.length .String with
  | ok pr =>
    obtain ⟨lo, hi⟩ := pr
    have hb := boundedRange_ok hr
    by_cases h1 : isBoundary s lo = true
    · by_cases h2 : isBoundary s hi = true
      · refine Or.inr ⟨lo, hi, rfl, h1, h2, ?_, hs.slice hb.2.1 h1 h2⟩
        unfold strGetItem
        simp only [hr, Outcome.bind_ok, validateCharBoundary, h1, h2, ↓reduceIte, checkedSlice]
        rw [if_pos ⟨hb.2.1, hb.2.2, trivial, trivial⟩]
        rfl
      · refine Or.inl ⟨⟨.IndexError, .notCharBoundary .sliceEnd⟩, ?_⟩
        unfold strGetItem
        simp only [hr, Outcome.bind_ok, validateCharBoundary, h1, h2, ↓reduceIte, mkErr]
        rfl
    · refine Or.inl ⟨⟨.IndexError, .notCharBoundary .sliceStart⟩, ?_⟩
      unfold strGetItem
      simp only [hr, Outcome.bind_ok, validateCharBoundary, h1, mkErr]
      rfl
  | err e =>
    refine Or.inl ⟨e, ?_⟩
    unfold strGetItem
    simp only [hr, Outcome.bind_err]
  | fault st => simp [hr] at hnf

/-- `string_get_item` never faults on a valid string and only ever produces valid strings. -/
theorem strGetItem_ok_or_err {s : Bytes} (hs : Valid s) (idx : Val) :
    (∃ e, strGetItem s idx = .err e) ∨ (∃ r, strGetItem s idx = .ok (.str r) ∧ Valid r) := by
  cases idx with
  | num bits =>
    rcases strGetItem_num hs bits with h | ⟨p, c, rest, _, _, hc, _, _, h⟩
    · exact Or.inl h
    · exact Or.inr ⟨_, h, Valid.encodeCP hc⟩
  | range rb re =>
    rcases strGetItem_range hs rb re with h | ⟨lo, hi, _, _, _, h, hv⟩
    · exact Or.inl h
    · exact Or.inr ⟨_, h, hv⟩
  | nil | bool _ | str _ | vec _ | tuple _ | strIter _ _ | stopIter | other =>
    exact Or.inl ⟨_, rfl⟩

end Yarel.Str
