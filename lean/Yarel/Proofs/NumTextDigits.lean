/-
Digit-string lemmas: `natDigits`, `fixedDigits`, `digitsVal`, `stripTrailingZeros`.
-/
import Yarel.Model.NumText

namespace Yarel.NumText

theorem digitChar_isDigit (d : Nat) : isDigit (digitChar d) = true := by
  unfold digitChar
  split <;> decide

theorem digitVal_digitChar : ∀ d, d < 10 → digitVal (digitChar d) = d := by decide

theorem digitChar_toNat : ∀ d, d < 10 → (digitChar d).toNat = 48 + d := by decide

theorem isDigit_iff (c : Char) : isDigit c = true ↔ 48 ≤ c.toNat ∧ c.toNat ≤ 57 := by
  unfold isDigit; simp

theorem isDigit_cases (c : Char) (h : isDigit c = true) :
    c = '0' ∨ c = '1' ∨ c = '2' ∨ c = '3' ∨ c = '4' ∨ c = '5' ∨ c = '6' ∨ c = '7' ∨ c = '8' ∨ c = '9' := by
  rw [isDigit_iff] at h
  have h0 : ('0' : Char).toNat = 48 := rfl
  have h1 : ('1' : Char).toNat = 49 := rfl
  have h2 : ('2' : Char).toNat = 50 := rfl
  have h3 : ('3' : Char).toNat = 51 := rfl
  have h4 : ('4' : Char).toNat = 52 := rfl
  have h5 : ('5' : Char).toNat = 53 := rfl
  have h6 : ('6' : Char).toNat = 54 := rfl
  have h7 : ('7' : Char).toNat = 55 := rfl
  have h8 : ('8' : Char).toNat = 56 := rfl
  have h9 : ('9' : Char).toNat = 57 := rfl
  simp only [← Char.toNat_inj, h0, h1, h2, h3, h4, h5, h6, h7, h8, h9]
  omega

theorem eq_digitChar_of_isDigit (c : Char) (h : isDigit c = true) : c = digitChar (digitVal c) := by
  rcases isDigit_cases c h with h | h | h | h | h | h | h | h | h | h <;> subst h <;> rfl

theorem digitVal_lt (c : Char) : digitVal c < 10 := by
  unfold digitVal
  repeat' split
  all_goals omega

/-! ### digitsVal -/

theorem digitsVal_append (acc : Nat) (l1 l2 : List Char) :
    digitsVal acc (l1 ++ l2) = digitsVal (digitsVal acc l1) l2 := by
  induction l1 generalizing acc with
  | nil => rfl
  | cons c cs ih => simp only [List.cons_append, digitsVal]; exact ih _

theorem digitsVal_acc (acc : Nat) (l : List Char) :
    digitsVal acc l = acc * 10 ^ l.length + digitsVal 0 l := by
  induction l generalizing acc with
  | nil => simp [digitsVal]
  | cons c cs ih =>
    simp only [digitsVal, List.length_cons]
    rw [ih (acc * 10 + digitVal c), ih (0 * 10 + digitVal c)]
    rw [Nat.pow_succ, Nat.add_mul, Nat.zero_mul, Nat.zero_add, Nat.mul_assoc, Nat.mul_comm (10 ^ cs.length) 10,
      Nat.add_assoc]

theorem digitsVal_replicate_zero (acc z : Nat) : digitsVal acc (List.replicate z '0') = acc * 10 ^ z := by
  induction z generalizing acc with
  | zero => simp [digitsVal]
  | succ z ih =>
    simp only [List.replicate_succ, digitsVal]
    rw [ih, show digitVal '0' = 0 from rfl, Nat.add_zero, Nat.pow_succ, Nat.mul_assoc, Nat.mul_comm 10]

/-! ### natDigits -/

theorem natDigitsF_all (f n : Nat) : (natDigitsF f n).all isDigit = true := by
  induction f generalizing n with
  | zero => rfl
  | succ f ih =>
    unfold natDigitsF
    split
    · simp [digitChar_isDigit]
    · simp [List.all_append, ih, digitChar_isDigit]

theorem natDigits_all (n : Nat) : (natDigits n).all isDigit = true := natDigitsF_all _ _

theorem natDigitsF_ne_nil (f n : Nat) : natDigitsF (f + 1) n ≠ [] := by
  unfold natDigitsF
  split <;> simp

theorem natDigits_ne_nil (n : Nat) : natDigits n ≠ [] := natDigitsF_ne_nil _ _

theorem natDigitsF_val (f n : Nat) (h : n < 2 ^ f) : digitsVal 0 (natDigitsF f n) = n := by
  induction f generalizing n with
  | zero =>
    have : n = 0 := by simpa using h
    subst this; rfl
  | succ f ih =>
    unfold natDigitsF
    split
    · rename_i h10
      simp only [digitsVal]
      rw [digitVal_digitChar _ h10]; omega
    · rw [digitsVal_append, ih (n / 10) (by rw [Nat.pow_succ] at h; omega)]
      simp only [digitsVal]
      rw [digitVal_digitChar _ (Nat.mod_lt _ (by decide))]; omega

theorem natDigits_val (n : Nat) : digitsVal 0 (natDigits n) = n :=
  natDigitsF_val _ _ Nat.lt_log2_self

/-! ### fixedDigits -/

theorem fixedDigits_length (k n : Nat) : (fixedDigits k n).length = k := by
  induction k generalizing n with
  | zero => rfl
  | succ k ih => simp [fixedDigits, ih]

theorem fixedDigits_all (k n : Nat) : (fixedDigits k n).all isDigit = true := by
  induction k generalizing n with
  | zero => rfl
  | succ k ih => simp [fixedDigits, List.all_append, ih, digitChar_isDigit]

theorem fixedDigits_val (k n : Nat) : digitsVal 0 (fixedDigits k n) = n % 10 ^ k := by
  induction k generalizing n with
  | zero => simp [fixedDigits, digitsVal, Nat.mod_one]
  | succ k ih =>
    simp only [fixedDigits]
    rw [digitsVal_append, ih]
    simp only [digitsVal]
    rw [digitVal_digitChar _ (Nat.mod_lt _ (by decide)), Nat.pow_succ, Nat.mul_comm (10 ^ k) 10, Nat.mod_mul]
    omega

/-! ### stripTrailingZeros -/

theorem strip_spec (l : List Char) :
    stripTrailingZeros l ++ List.replicate (l.length - (stripTrailingZeros l).length) '0' = l := by
  induction l with
  | nil => rfl
  | cons c cs ih =>
    simp only [stripTrailingZeros]
    split
    · rename_i h
      simp only [Bool.and_eq_true, List.isEmpty_iff, beq_iff_eq] at h
      obtain ⟨h1, h2⟩ := h
      rw [h1] at ih
      simp only [List.length_nil, Nat.sub_zero, List.nil_append] at ih ⊢
      rw [List.length_cons, List.replicate_succ, ih, h2]
    · simp only [List.cons_append, List.length_cons, Nat.add_sub_add_right]
      rw [ih]

theorem strip_length_le (l : List Char) : (stripTrailingZeros l).length ≤ l.length := by
  have := congrArg List.length (strip_spec l)
  simp only [List.length_append, List.length_replicate] at this
  omega

theorem strip_all (l : List Char) (p : Char → Bool) (h : l.all p = true) :
    (stripTrailingZeros l).all p = true := by
  rw [← strip_spec l, List.all_append] at h
  simp only [Bool.and_eq_true] at h
  exact h.1

theorem strip_replicate_zero (k : Nat) : stripTrailingZeros (List.replicate k '0') = [] := by
  induction k with
  | zero => rfl
  | succ k ih => simp [List.replicate_succ, stripTrailingZeros, ih]

/-- value of `ip ++ strip fr` scaled back is the value of `ip ++ fr`. -/
theorem digitsVal_strip (ip fr : List Char) :
    digitsVal 0 (ip ++ stripTrailingZeros fr) * 10 ^ (fr.length - (stripTrailingZeros fr).length)
      = digitsVal 0 (ip ++ fr) := by
  have h : digitsVal 0 (ip ++ fr) = digitsVal 0 ((ip ++ stripTrailingZeros fr) ++
      List.replicate (fr.length - (stripTrailingZeros fr).length) '0') := by
    rw [List.append_assoc, strip_spec]
  rw [h, digitsVal_append _ (ip ++ stripTrailingZeros fr), digitsVal_replicate_zero]

end Yarel.NumText
