/-
Well-formedness invariant of the module model and the frame relation between the state before and after running
statements / an import; their preservation by every state transformer of Model/Modules.lean.
-/
import Yarel.Proofs.ModulesAList

namespace Yarel.Modules

attribute [local irreducible] seedAttrs

/-! ### registry-level facts -/

@[simp] theorem isReg_amod (f : ModEntry → ModEntry) (reg : List (Nat × ModEntry)) (q x : Nat) :
    isReg (amod f reg q) x = isReg reg x := by
  unfold isReg; rw [aget_amod]; split <;> simp

theorem isImported_amod {f : ModEntry → ModEntry} (hf : ∀ e, (f e).imported = e.imported)
    (reg : List (Nat × ModEntry)) (q x : Nat) : isImported (amod f reg q) x = isImported reg x := by
  unfold isImported; rw [aget_amod]
  by_cases hx : x = q
  · simp only [hx, if_true]; cases aget reg q <;> simp [hf]
  · simp only [hx, if_false]

theorem isLoading_amod {f : ModEntry → ModEntry} (hf : ∀ e, (f e).imported = e.imported)
    (reg : List (Nat × ModEntry)) (q x : Nat) : isLoading (amod f reg q) x = isLoading reg x := by
  unfold isLoading; rw [aget_amod]
  by_cases hx : x = q
  · simp only [hx, if_true]; cases aget reg q <;> simp [hf]
  · simp only [hx, if_false]

theorem isImported_amod_mono {f : ModEntry → ModEntry} (hf : ∀ e, e.imported = true → (f e).imported = true)
    {reg : List (Nat × ModEntry)} (q : Nat) {x : Nat} (h : isImported reg x = true) :
    isImported (amod f reg q) x = true := by
  obtain ⟨e, he, hi⟩ := isImported_eq_true.mp h
  apply isImported_eq_true.mpr
  rw [aget_amod]
  split
  · exact ⟨f e, by simp [he], hf e hi⟩
  · exact ⟨e, he, hi⟩

theorem isLoading_amod_ne (f : ModEntry → ModEntry) (reg : List (Nat × ModEntry)) {q x : Nat} (h : x ≠ q) :
    isLoading (amod f reg q) x = isLoading reg x := by
  unfold isLoading; rw [aget_amod_ne _ _ h]

theorem isImported_finish_self {reg : List (Nat × ModEntry)} {q : Nat} (h : isReg reg q = true) :
    isImported (amod ModEntry.finish reg q) q = true := by
  obtain ⟨e, he⟩ := isReg_eq_true.mp h
  apply isImported_eq_true.mpr
  exact ⟨e.finish, by simp [aget_amod, he], rfl⟩

theorem isReg_append {reg : List (Nat × ModEntry)} {p : Nat} {e : ModEntry} {x : Nat} :
    isReg (reg ++ [(p, e)]) x = true ↔ isReg reg x = true ∨ x = p := by
  unfold isReg; rw [aget_append_single]
  cases h : aget reg x with
  | some y => simp
  | none => by_cases hx : p = x <;> simp [hx, eq_comm]

theorem isImported_append {reg : List (Nat × ModEntry)} {p : Nat} {e : ModEntry} (he : e.imported = false) (x : Nat) :
    isImported (reg ++ [(p, e)]) x = isImported reg x := by
  unfold isImported; rw [aget_append_single]
  cases h : aget reg x with
  | some y => simp
  | none => by_cases hx : p = x <;> simp [hx, he]

theorem isLoading_append_of {reg : List (Nat × ModEntry)} {p : Nat} {e : ModEntry} {x : Nat}
    (h : isLoading reg x = true) : isLoading (reg ++ [(p, e)]) x = true := by
  obtain ⟨y, hy, hi⟩ := isLoading_eq_true.mp h
  exact isLoading_eq_true.mpr ⟨y, aget_append_single_of_some _ _ _ hy, hi⟩

theorem isLoading_append_self {reg : List (Nat × ModEntry)} {p : Nat} {e : ModEntry}
    (hp : isReg reg p = false) (he : e.imported = false) : isLoading (reg ++ [(p, e)]) p = true := by
  have : aget reg p = none := by simpa [isReg] using hp
  exact isLoading_eq_true.mpr ⟨e, aget_append_single_self _ _ _ this, he⟩

theorem aget_append_of_isReg {reg : List (Nat × ModEntry)} {p : Nat} {e : ModEntry} {x : Nat}
    (h : isReg reg x = true) : aget (reg ++ [(p, e)]) x = aget reg x := by
  obtain ⟨y, hy⟩ := isReg_eq_true.mp h
  rw [aget_append_single_of_some _ _ _ hy, hy]

theorem load_body {cfg : Cfg} {p : Nat} {acts : List Action} (h : cfg.load p = .body acts) :
    aget cfg.prog p = some (.body acts) := by
  unfold Cfg.load at h
  split at h
  · rename_i s hs; rw [hs, h]
  · cases h

/-- every module value stored anywhere designates a registered, completely imported module. -/
def Handles (reg : List (Nat × ModEntry)) : Prop :=
  ∀ m ent, (m, ent) ∈ reg → ∀ n p, (n, Val.module p) ∈ ent.attrs → isImported reg p = true

def StartsOnce (reg : List (Nat × ModEntry)) (log : List Event) : Prop :=
  ∀ p, log.count (.bodyStart p) ≤ if isReg reg p then 1 else 0

/-- number of "body started" events. -/
def starts (log : List Event) : Nat := (log.filter Event.isStart).length

theorem handles_amod {f : ModEntry → ModEntry} {reg : List (Nat × ModEntry)} {q : Nat} (H : Handles reg)
    (hf : ∀ e n p, (n, Val.module p) ∈ (f e).attrs → (n, Val.module p) ∈ e.attrs ∨ isImported reg p = true)
    (himp : ∀ x, isImported reg x = true → isImported (amod f reg q) x = true) : Handles (amod f reg q) := by
  intro m ent hm n p hn
  apply himp
  rcases mem_amod hm with hm | ⟨e, he, hx⟩
  · exact H m ent hm n p hn
  · cases hx
    rcases hf e n p hn with h | h
    · exact H q e he n p h
    · exact h

theorem handles_append {reg : List (Nat × ModEntry)} {p : Nat} (H : Handles reg) :
    Handles (reg ++ [(p, ⟨false, []⟩)]) := by
  intro m ent hm n q hn
  rw [isImported_append rfl]
  rcases List.mem_append.mp hm with hm | hm
  · exact H m ent hm n q hn
  · simp at hm; obtain ⟨_, rfl⟩ := hm; simp at hn

theorem count_start_append_nonstart (log : List Event) (ev : Event) (h : ev.isStart = false) (p : Nat) :
    (log ++ [ev]).count (.bodyStart p) = log.count (.bodyStart p) := by
  rw [List.count_append]
  have : [ev].count (.bodyStart p) = 0 := by
    rw [List.count_eq_zero]; intro hm; simp at hm; subst hm; simp [Event.isStart] at h
  omega

theorem starts_append_nonstart (log : List Event) (ev : Event) (h : ev.isStart = false) :
    starts (log ++ [ev]) = starts log := by
  simp [starts, List.filter_append, h]

/-! ### the invariant -/

structure Inv (st : State) : Prop where
  nodupKeys : (keys st.registry).Nodup
  nodupStack : st.stack.Nodup
  /-- every module with a frame on the stack is registered and not yet imported -/
  stackLoading : ∀ q ∈ st.stack, isLoading st.registry q = true
  handles : Handles st.registry
  startsOnce : StartsOnce st.registry st.log
  startsLe : starts st.log ≤ st.registry.length

theorem inv_boot : Inv boot := by
  refine ⟨by simp [boot, keys], by simp [boot, State.stack], ?_, ?_, ?_, by simp [boot, starts, List.filter, Event.isStart]⟩
  · intro q hq
    simp only [boot, State.stack, List.mem_singleton] at hq
    subst hq
    simp [isLoading, boot, aget_cons, ModEntry.seed]
  · intro m ent hm n p hn
    simp only [boot, List.mem_singleton, Prod.mk.injEq] at hm
    obtain ⟨_, rfl⟩ := hm
    rcases mem_seedAttrs hn with h | ⟨b, h⟩
    · simp at h
    · simp at h
  · intro p
    by_cases hp : p = mainPath
    · subst hp; simp [boot, isReg, aget_cons]
    · have : List.count (Event.bodyStart p) boot.log = 0 := by
        rw [List.count_eq_zero]; simp [boot, hp]
      omega

theorem Inv.active_loading {st : State} (h : Inv st) : isLoading st.registry st.active = true :=
  h.stackLoading _ (by simp [State.stack])

theorem Inv.active_not_caller {st : State} (h : Inv st) : st.active ∉ st.callers := by
  have := h.nodupStack
  simp only [State.stack, List.nodup_cons] at this
  exact this.1

theorem Inv.not_stack_of_imported {st : State} (h : Inv st) {q : Nat} (hq : isImported st.registry q = true) :
    q ∉ st.stack := by
  intro hm
  have := h.stackLoading q hm
  rw [not_loading_of_imported hq] at this
  cases this

theorem Inv.not_stack_of_unreg {st : State} (h : Inv st) {q : Nat} (hq : isReg st.registry q = false) :
    q ∉ st.stack := by
  intro hm
  have := isReg_of_isLoading (h.stackLoading q hm)
  rw [hq] at this
  cases this

/-! ### the frame relation -/

/-- `st'` extends `st`: nothing is un-registered or un-imported, the modules in `S` are untouched and not read. -/
structure Grow (cfg : Cfg) (S : List Nat) (st st' : State) : Prop where
  regMono : ∀ q, isReg st.registry q = true → isReg st'.registry q = true
  impMono : ∀ q, isImported st.registry q = true → isImported st'.registry q = true
  /-- the registry entries (flag and attribute table) of the modules in `S` are unchanged -/
  frame : ∀ q ∈ S, aget st'.registry q = aget st.registry q
  /-- the log only grows, and no new event read an attribute table of a module in `S` -/
  log : ∃ new, st'.log = st.log ++ new ∧ ∀ ev ∈ new, ∀ t, ev.target? = some t → t ∉ S
  /-- newly registered paths are paths the loader has a compilable source for -/
  newKeys : ∀ q, isReg st'.registry q = true → isReg st.registry q = true ∨ ∃ acts, cfg.load q = .body acts
  size : st'.registry.length + pend (fun _ => 1) cfg.prog st'.registry
          ≤ st.registry.length + pend (fun _ => 1) cfg.prog st.registry

/-- `Grow` and the frame stack is the same again. -/
structure Ext (cfg : Cfg) (S : List Nat) (st st' : State) : Prop extends Grow cfg S st st' where
  active : st'.active = st.active
  callers : st'.callers = st.callers
  /-- a module that is registered and not imported stays so (only the import that registers a module ever sets
  its `imported` flag) -/
  loadMono : ∀ q, isLoading st.registry q = true → isLoading st'.registry q = true

theorem Grow.refl (cfg : Cfg) (S : List Nat) (st : State) : Grow cfg S st st :=
  ⟨fun _ h => h, fun _ h => h, fun _ _ => rfl, ⟨[], by simp, by simp⟩, fun _ h => .inl h, Nat.le_refl _⟩

theorem Grow.trans {cfg : Cfg} {S : List Nat} {a b c : State} (h1 : Grow cfg S a b) (h2 : Grow cfg S b c) :
    Grow cfg S a c := by
  refine ⟨fun q h => h2.regMono q (h1.regMono q h), fun q h => h2.impMono q (h1.impMono q h),
    fun q hq => (h2.frame q hq).trans (h1.frame q hq), ?_, ?_, Nat.le_trans h2.size h1.size⟩
  · obtain ⟨n1, e1, t1⟩ := h1.log
    obtain ⟨n2, e2, t2⟩ := h2.log
    refine ⟨n1 ++ n2, by rw [e2, e1, List.append_assoc], ?_⟩
    intro ev hev
    rcases List.mem_append.mp hev with h | h
    · exact t1 ev h
    · exact t2 ev h
  · intro q hq
    rcases h2.newKeys q hq with h | h
    · exact h1.newKeys q h
    · exact .inr h

theorem Grow.mono {cfg : Cfg} {S S' : List Nat} {a b : State} (h : Grow cfg S a b) (hs : ∀ q ∈ S', q ∈ S) :
    Grow cfg S' a b := by
  refine ⟨h.regMono, h.impMono, fun q hq => h.frame q (hs q hq), ?_, h.newKeys, h.size⟩
  obtain ⟨n, e, t⟩ := h.log
  exact ⟨n, e, fun ev hev t' ht hm => t ev hev t' ht (hs _ hm)⟩

theorem Ext.refl (cfg : Cfg) (S : List Nat) (st : State) : Ext cfg S st st := ⟨Grow.refl cfg S st, rfl, rfl, fun _ h => h⟩

theorem Ext.trans {cfg : Cfg} {S : List Nat} {a b c : State} (h1 : Ext cfg S a b) (h2 : Ext cfg S b c) :
    Ext cfg S a c :=
  ⟨h1.toGrow.trans h2.toGrow, h2.active.trans h1.active, h2.callers.trans h1.callers,
    fun q h => h2.loadMono q (h1.loadMono q h)⟩

theorem Ext.mono {cfg : Cfg} {S S' : List Nat} {a b : State} (h : Ext cfg S a b) (hs : ∀ q ∈ S', q ∈ S) :
    Ext cfg S' a b := ⟨h.toGrow.mono hs, h.active, h.callers, h.loadMono⟩

theorem pend_amod (w : Source → Nat) (prog : List (Nat × Source)) (f : ModEntry → ModEntry)
    (reg : List (Nat × ModEntry)) (q : Nat) : pend w prog (amod f reg q) = pend w prog reg := by
  apply Nat.le_antisymm
  · exact pend_mono w prog (fun x h => by simpa using h)
  · exact pend_mono w prog (fun x h => by simpa using h)

/-- in-place update of the entry of a module outside `S`, plus new log events not reading `S`. -/
theorem Grow.of_amod {cfg : Cfg} {S : List Nat} {st st' : State} {f : ModEntry → ModEntry} {q : Nat} {new : List Event}
    (hf : ∀ e, e.imported = true → (f e).imported = true) (hq : q ∉ S)
    (hreg : st'.registry = amod f st.registry q) (hlog : st'.log = st.log ++ new)
    (hnew : ∀ ev ∈ new, ∀ t, ev.target? = some t → t ∉ S) : Grow cfg S st st' := by
  refine ⟨?_, ?_, ?_, ⟨new, hlog, hnew⟩, ?_, ?_⟩
  · intro x h; rw [hreg]; simpa using h
  · intro x h; rw [hreg]; exact isImported_amod_mono hf q h
  · intro x hx; rw [hreg]; exact aget_amod_ne _ _ (fun h => hq (h ▸ hx))
  · intro x h; rw [hreg] at h; exact .inl (by simpa using h)
  · rw [hreg, length_amod, pend_amod]; exact Nat.le_refl _

theorem Grow.of_log {cfg : Cfg} {S : List Nat} {st st' : State} {new : List Event}
    (hreg : st'.registry = st.registry) (hlog : st'.log = st.log ++ new)
    (hnew : ∀ ev ∈ new, ∀ t, ev.target? = some t → t ∉ S) : Grow cfg S st st' := by
  refine ⟨?_, ?_, ?_, ⟨new, hlog, hnew⟩, ?_, ?_⟩
  · intro x h; rw [hreg]; exact h
  · intro x h; rw [hreg]; exact h
  · intro x _; rw [hreg]
  · intro x h; rw [hreg] at h; exact .inl h
  · rw [hreg]; exact Nat.le_refl _

/-- registration of an unregistered path that has a compilable source. -/
theorem Grow.of_register {cfg : Cfg} {S : List Nat} {st : State} {p : Nat} {acts : List Action}
    (hp : isReg st.registry p = false) (hS : p ∉ S) (hload : cfg.load p = .body acts) :
    Grow cfg S st (st.register p) := by
  have hmono : ∀ q, isReg st.registry q = true → isReg (st.register p).registry q = true :=
    fun q h => isReg_append.mpr (.inl h)
  refine ⟨hmono, ?_, ?_, ⟨[], by simp [State.register], by simp⟩, ?_, ?_⟩
  · intro x h; simp only [State.register]; rw [isImported_append rfl]; exact h
  · intro x hx; simp only [State.register]
    exact aget_append_single_ne _ _ (fun h => hS (h ▸ hx))
  · intro x h
    rcases isReg_append.mp h with h | h
    · exact .inl h
    · exact .inr ⟨acts, h ▸ hload⟩
  · have := pend_register (fun _ => 1) cfg.prog (load_body hload) hp
      (isReg_append.mpr (.inr rfl) : isReg (st.register p).registry p = true) hmono
    simp only [State.register, List.length_append, List.length_singleton] at this ⊢
    omega

/-! ### state transformers preserve the invariant -/

theorem Inv.setAttr {st : State} (h : Inv st) (q a : Nat) (v : Val)
    (hv : ∀ p, v = .module p → isImported st.registry p = true) : Inv (st.setAttr q a v) := by
  have hkeep : ∀ e, (ModEntry.setAttr a v e).imported = e.imported := fun _ => rfl
  refine ⟨?_, h.nodupStack, ?_, ?_, ?_, ?_⟩
  · simpa [State.setAttr] using h.nodupKeys
  · intro x hx
    simp only [State.setAttr]; rw [isLoading_amod hkeep]; exact h.stackLoading x hx
  · apply handles_amod h.handles
    · intro e n p hn
      rcases mem_aset hn with hn | hn
      · exact .inl hn
      · cases hn; exact .inr (hv p rfl)
    · intro x hx; rw [isImported_amod hkeep]; exact hx
  · intro p; simpa [State.setAttr] using h.startsOnce p
  · simpa [State.setAttr] using h.startsLe

theorem Inv.logEv {st : State} (h : Inv st) (ev : Event) (hev : ev.isStart = false) : Inv (st.logEv ev) := by
  refine ⟨h.nodupKeys, h.nodupStack, h.stackLoading, h.handles, ?_, ?_⟩
  · intro p; simp only [State.logEv]; rw [count_start_append_nonstart _ _ hev]; exact h.startsOnce p
  · simp only [State.logEv]; rw [starts_append_nonstart _ _ hev]; exact h.startsLe

theorem seed_handles (reg : List (Nat × ModEntry)) (e : ModEntry) (n p : Nat)
    (hn : (n, Val.module p) ∈ (ModEntry.seed e).attrs) : (n, Val.module p) ∈ e.attrs ∨ isImported reg p = true := by
  rcases mem_seedAttrs hn with hn | ⟨b, hb⟩
  · exact .inl hn
  · cases hb

theorem Inv.reseed {st : State} (h : Inv st) : Inv st.reseedAfterOverflow := by
  have hkeep : ∀ e, (ModEntry.seed e).imported = e.imported := fun _ => rfl
  refine ⟨?_, h.nodupStack, ?_, ?_, ?_, ?_⟩
  · simpa [State.reseedAfterOverflow] using h.nodupKeys
  · intro x hx
    simp only [State.reseedAfterOverflow]; rw [isLoading_amod hkeep]; exact h.stackLoading x hx
  · exact handles_amod h.handles (seed_handles _) (fun x hx => by rw [isImported_amod hkeep]; exact hx)
  · intro p; simpa [State.reseedAfterOverflow] using h.startsOnce p
  · simpa [State.reseedAfterOverflow] using h.startsLe

theorem Inv.register {st : State} (h : Inv st) {p : Nat} (hp : isReg st.registry p = false) : Inv (st.register p) := by
  refine ⟨?_, h.nodupStack, ?_, handles_append h.handles, ?_, ?_⟩
  · simp only [State.register, keys_append_single]
    have : p ∉ keys st.registry := (aget_eq_none_iff _ _).mp (by simpa [isReg] using hp)
    exact List.nodup_append.mpr ⟨h.nodupKeys, by simp, by intro a ha b hb; simp at hb; subst hb; exact fun e => this (e ▸ ha)⟩
  · intro x hx; exact isLoading_append_of (h.stackLoading x hx)
  · intro q
    have := h.startsOnce q
    simp only [State.register]
    by_cases hq : isReg st.registry q = true
    · have : isReg (st.registry ++ [(p, ⟨false, []⟩)]) q = true := isReg_append.mpr (.inl hq)
      simp_all
    · simp only [hq] at this
      have h0 : List.count (Event.bodyStart q) st.log = 0 := by simpa using this
      rw [h0]; exact Nat.zero_le _
  · simp only [State.register, List.length_append, List.length_singleton]
    have := h.startsLe; omega

/-- the state in which the first statement of a freshly loaded module body runs. -/
theorem Inv.enter {st : State} (h : Inv st) {p : Nat} (hp : isReg st.registry p = false) :
    Inv ((st.register p).enterBody p) := by
  have h1 := h.register hp
  have hkeep : ∀ e, (ModEntry.seed e).imported = e.imported := fun _ => rfl
  have hpreg : isReg (st.register p).registry p = true := isReg_append.mpr (.inr rfl)
  refine ⟨?_, ?_, ?_, ?_, ?_, ?_⟩
  · simpa [State.enterBody] using h1.nodupKeys
  · have := h.nodupStack
    simp only [State.enterBody, State.stack, State.register] at this ⊢
    exact List.nodup_cons.mpr ⟨h.not_stack_of_unreg hp, this⟩
  · intro x hx
    simp only [State.enterBody]; rw [isLoading_amod hkeep]
    simp only [State.stack, State.enterBody, State.register, List.mem_cons] at hx
    rcases hx with rfl | hx
    · exact isLoading_append_self hp rfl
    · exact h1.stackLoading x (by simpa [State.stack, State.register] using hx)
  · exact handles_amod h1.handles (seed_handles _) (fun x hx => by rw [isImported_amod hkeep]; exact hx)
  · intro q
    have hq := h1.startsOnce q
    have hq0 := h.startsOnce q
    simp only [State.enterBody, isReg_amod, List.count_append]
    by_cases hqp : q = p
    · subst hqp
      have h0 : List.count (Event.bodyStart q) st.log = 0 := by simpa [hp] using hq0
      have h1' : List.count (Event.bodyStart q) [Event.bodyStart q] = 1 := by simp
      simp only [State.register] at hpreg ⊢
      simp only [hpreg, h0, h1']; simp
    · have : List.count (Event.bodyStart q) [Event.bodyStart p] = 0 := by
        rw [List.count_eq_zero]; simp [hqp]
      rw [this]; simpa using hq
  · have := h.startsLe
    have h1' : (List.filter Event.isStart [Event.bodyStart p]).length = 1 := rfl
    simp only [State.enterBody, State.register, starts, List.filter_append, List.length_append, length_amod,
      List.length_singleton, h1'] at this ⊢
    omega

theorem Inv.finish {importer body : State} {p : Nat} (h : Inv body) (ha : body.active = p)
    (hc : body.callers = importer.active :: importer.callers) : Inv (State.finishImport importer body p) := by
  have hstack : body.stack = p :: importer.stack := by simp [State.stack, ha, hc]
  have hnd := h.nodupStack
  rw [hstack] at hnd
  refine ⟨?_, ?_, ?_, ?_, ?_, ?_⟩
  · simpa [State.finishImport] using h.nodupKeys
  · exact (List.nodup_cons.mp hnd).2
  · intro x hx
    have hx' : x ∈ importer.stack := hx
    have hne : x ≠ p := fun e => (List.nodup_cons.mp hnd).1 (e ▸ hx')
    simp only [State.finishImport]; rw [isLoading_amod_ne _ _ hne]
    exact h.stackLoading x (by rw [hstack]; exact List.mem_cons_of_mem _ hx')
  · exact handles_amod h.handles (fun e n q hn => .inl hn)
      (fun x hx => isImported_amod_mono (fun e _ => rfl) p hx)
  · intro q
    simp only [State.finishImport, isReg_amod]
    rw [count_start_append_nonstart _ _ rfl]; exact h.startsOnce q
  · simp only [State.finishImport, length_amod]
    rw [starts_append_nonstart _ _ rfl]; exact h.startsLe

theorem Inv.abort {importer body : State} {p : Nat} (e : Err) (h : Inv body) (ha : body.active = p)
    (hc : body.callers = importer.active :: importer.callers) : Inv (State.abortImport importer body p e) := by
  have hstack : body.stack = p :: importer.stack := by simp [State.stack, ha, hc]
  have hnd := h.nodupStack
  rw [hstack] at hnd
  refine ⟨h.nodupKeys, (List.nodup_cons.mp hnd).2, ?_, h.handles, ?_, ?_⟩
  · intro x hx
    exact h.stackLoading x (by rw [hstack]; exact List.mem_cons_of_mem _ hx)
  · intro q
    simp only [State.abortImport]
    rw [count_start_append_nonstart _ _ rfl]; exact h.startsOnce q
  · simp only [State.abortImport]
    rw [starts_append_nonstart _ _ rfl]; exact h.startsLe

end Yarel.Modules
