/-
Consequences of the invariant: safety, completeness, exactness, byte accounting.
-/
import Yarel.Proofs.GcInv

namespace Yarel.Gc

theorem CallReach.reach {h : Heap} {op : TraceOp} {i : Nat} (hc : CallReach h op i) : Reach h i := by
  induction hc with
  | root hr => exact Reach.root hr
  | pass _ ih => exact ih
  | edge _ ho he _ ih => exact Reach.edge ih ho he

theorem black_of_pend {cols : Array Colour} {i : Nat} (hg : NoGrey cols) (hp : Pend cols [] i) :
    cols[i]? = some .black := by
  rcases hp with (hp | hp) | ⟨_, hm⟩
  · exact absurd hp (hg i)
  · exact hp
  · cases hm

/-- tri-colour conclusion: the black set contains the roots and is closed under all pointers -/
theorem black_of_reach {h : Heap} {cols : Array Colour} (hi : Inv h (Rooted h) cols []) (hg : NoGrey cols)
    (hcov : Covered h) : ∀ i, Reach h i → cols[i]? = some .black := by
  intro i hr
  induction hr with
  | root hroot => exact black_of_pend hg (hi.tracked _ hroot)
  | @edge j o e _ ho he ih =>
    rcases hcov j o e ho he with hsome | hroot
    · cases hib : e.inBlacken with
      | none => simp [hib] at hsome
      | some op => exact black_of_pend hg (hi.closure j o e op ho ih he hib)
    · exact black_of_pend hg (hi.tracked _ hroot)

theorem mem_retained {h : Heap} {cols : Array Colour} (hs : cols.size = h.size) {i : Nat} :
    i ∈ (sweep h cols).retained ↔ cols[i]? = some .black := by
  simp only [sweep, List.mem_filter, List.mem_range, decide_eq_true_eq]
  constructor
  · exact fun hx => hx.2
  · intro hb
    exact ⟨by have := (Array.getElem?_eq_some_iff.mp hb).1; omega, hb⟩

theorem sum_filter_add_sum_filter_not {α : Type} (p : α → Bool) (f : α → Nat) (l : List α) :
    ((l.filter p).map f).sum + ((l.filter fun x => !p x).map f).sum = (l.map f).sum := by
  induction l with
  | nil => rfl
  | cons a l ih =>
    cases hp : p a <;> simp [hp] <;> omega

theorem sweep_bytes_eq {h : Heap} {cols : Array Colour} (hs : cols.size = h.size) (hg : NoGrey cols) :
    (sweep h cols).bytesFreed =
      (((List.range h.size).filter fun i => decide (i ∉ (sweep h cols).retained)).map (sizeAt h)).sum := by
  have hcongr : (List.range h.size).filter (fun i => decide (cols[i]? = some Colour.white)) =
      (List.range h.size).filter (fun i => decide (i ∉ (sweep h cols).retained)) := by
    apply List.filter_congr
    intro i hi
    rw [List.mem_range] at hi
    rw [decide_eq_decide, mem_retained hs]
    have hlt : i < cols.size := by omega
    have hget : cols[i]? = some cols[i] := Array.getElem?_eq_getElem hlt
    have hng := hg i
    rw [hget] at hng ⊢
    cases hc : cols[i] <;> simp_all
  show (((List.range h.size).filter fun i => decide (cols[i]? = some Colour.white)).map (sizeAt h)).sum = _
  rw [hcongr]

theorem sweep_bytes_total {h : Heap} {cols : Array Colour} (hs : cols.size = h.size) (hg : NoGrey cols) :
    (sweep h cols).bytesFreed + ((sweep h cols).retained.map (sizeAt h)).sum =
      ((List.range h.size).map (sizeAt h)).sum := by
  rw [sweep_bytes_eq hs hg]
  have hret : (sweep h cols).retained =
      (List.range h.size).filter (fun i => !decide (i ∉ (sweep h cols).retained)) := by
    show (List.range h.size).filter (fun i => decide (cols[i]? = some Colour.black)) = _
    apply List.filter_congr
    intro i hi
    have := mem_retained hs (i := i) (h := h)
    by_cases hb : cols[i]? = some Colour.black <;> simp [hb, this]
  conv => lhs; rhs; rw [hret]
  exact sum_filter_add_sum_filter_not _ _ _

theorem GraphMap.reach {π : Nat → Nat} {h h' : Heap} (hg : GraphMap π h h') {i : Nat} (hr : Reach h i) :
    Reach h' (π i) := by
  induction hr with
  | root hroot =>
    obtain ⟨o, ho, hpos⟩ := hroot
    obtain ⟨o', ho', hroots, _⟩ := hg _ o ho
    exact Reach.root ⟨o', ho', hroots hpos⟩
  | @edge j o e _ ho he ih =>
    obtain ⟨o', ho', _, hedges⟩ := hg j o ho
    obtain ⟨e', he', htgt⟩ := hedges e he
    rw [← htgt]
    exact Reach.edge ih ho' he'

end Yarel.Gc
