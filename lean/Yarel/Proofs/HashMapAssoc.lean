/-
Laws of the `Assoc` model (akeys identified by `==` alone).  Everything here rests on `valueEq` being symmetric
and transitive, which holds on ALL keys; reflexivity (NaN-freeness) is asked for only where it is needed.
-/
import Yarel.Model.HashMapM
import Yarel.Proofs.HashMapKey
import Yarel.Proofs.HashMapList

namespace Yarel.HashMapM
open Yarel

/-- `==`-equal queries see every stored key alike. -/
theorem valueEq_congr_left {k k' : Key} (h : valueEq k k' = true) (s : Key) : valueEq k s = valueEq k' s := by
  cases h1 : valueEq k s <;> cases h2 : valueEq k' s <;> try rfl
  · have := valueEq_trans k k' s h h2; simp [h1] at this
  · have h' : valueEq k' k = true := by rw [valueEq_comm]; exact h
    have := valueEq_trans k' k s h' h1; simp [h2] at this

/-- `q == k` and `k == s` make `q == s` the same question as `q == k`. -/
theorem valueEq_congr_right {k s : Key} (h : valueEq k s = true) (q : Key) : valueEq q s = valueEq q k := by
  rw [valueEq_comm q s, valueEq_comm q k]
  exact (valueEq_congr_left h q).symm

namespace Assoc

local notation "afind?" => ListMap.find? Assoc.same
local notation "areplace" => ListMap.replace Assoc.same
local notation "aerase" => ListMap.erase Assoc.same
local notation "ainsert" => ListMap.insertRaw Assoc.same
local notation "aremove" => ListMap.removeRaw Assoc.same
local notation "abuild" => ListMap.build Assoc.same
local notation "astep" => ListMap.step Assoc.same
local notation "arun" => ListMap.run Assoc.same
local notation "akeys" => ListMap.keys

theorem find?_cons (q s v : Key) (es : Entries) :
    afind? q ((s, v) :: es) = if valueEq q s = true then some v else afind? q es := rfl

theorem replace_cons (q v s w : Key) (es : Entries) :
    areplace q v ((s, w) :: es) = if valueEq q s = true then (s, v) :: es else (s, w) :: areplace q v es := rfl

theorem erase_cons (q s w : Key) (es : Entries) :
    aerase q ((s, w) :: es) = if valueEq q s = true then es else (s, w) :: aerase q es := rfl

theorem keys_cons (s v : Key) (es : Entries) : akeys ((s, v) :: es) = s :: akeys es := rfl

/-- Well-formed state: stored keys are hashable and pairwise not `==`. -/
structure WF (m : Entries) : Prop where
  hashable : ∀ k ∈ akeys m, hasHash k = true
  distinct : (akeys m).Pairwise (fun a b => valueEq a b = false)

theorem WF.nil : WF [] := ⟨fun _ h => (nomatch h), List.Pairwise.nil⟩

theorem find?_none_iff {q : Key} : ∀ {m : Entries}, afind? q m = none ↔ ∀ s ∈ akeys m, valueEq q s = false
  | [] => by simp [ListMap.find?, ListMap.keys]
  | (s, v) :: es => by
    have ih := find?_none_iff (q := q) (m := es)
    rw [find?_cons, keys_cons]
    cases h : valueEq q s with
    | true => simp [h]
    | false => simpa [h] using ih

theorem find?_some_mem {q v : Key} : ∀ {m : Entries}, afind? q m = some v → ∃ s, (s, v) ∈ m ∧ valueEq q s = true
  | [], h => by simp [ListMap.find?] at h
  | (s, w) :: es, h => by
    rw [find?_cons] at h
    cases hs : valueEq q s with
    | true =>
      simp only [hs, if_true, Option.some.injEq] at h
      exact ⟨s, by simp [h], hs⟩
    | false =>
      simp only [hs, Bool.false_eq_true, if_false] at h
      obtain ⟨s', hmem, he⟩ := find?_some_mem h
      exact ⟨s', List.mem_cons_of_mem _ hmem, he⟩

theorem isSome_find? (q : Key) : ∀ m : Entries, (afind? q m).isSome = (akeys m).any (valueEq q)
  | [] => rfl
  | (s, v) :: es => by
    have ih := isSome_find? q es
    rw [find?_cons, keys_cons, List.any_cons]
    cases h : valueEq q s with
    | true => simp
    | false => simpa using ih

/-- Keys that are `==` denote the same entry. -/
theorem find?_of_valueEq {k k' : Key} (h : valueEq k k' = true) : ∀ m : Entries, afind? k m = afind? k' m
  | [] => rfl
  | (s, v) :: es => by
    rw [find?_cons, find?_cons, valueEq_congr_left h s, find?_of_valueEq h es]

theorem find?_append_single (q k v : Key) : ∀ m : Entries,
    afind? q (m ++ [(k, v)]) = match afind? q m with
      | some x => some x
      | none => if valueEq q k = true then some v else none
  | [] => rfl
  | (s, w) :: es => by
    have ih := find?_append_single q k v es
    rw [List.cons_append, find?_cons, find?_cons, ih]
    cases h : valueEq q s <;> simp

theorem find?_replace (q k v : Key) : ∀ m : Entries, (afind? k m).isSome = true →
    afind? q (areplace k v m) = if valueEq q k = true then some v else afind? q m
  | [], h => by simp [ListMap.find?] at h
  | (s, w) :: es, h => by
    rw [find?_cons] at h
    rw [replace_cons]
    cases hks : valueEq k s with
    | true =>
      simp only [if_true, find?_cons, valueEq_congr_right hks q]
      cases hqk : valueEq q k <;> simp
    | false =>
      simp only [hks, Bool.false_eq_true, if_false] at h
      have ih := find?_replace q k v es h
      simp only [Bool.false_eq_true, if_false, find?_cons, ih]
      cases hqs : valueEq q s with
      | false => simp
      | true =>
        cases hqk : valueEq q k with
        | false => simp
        | true =>
          -- q == s and q == k would give k == s
          have hkq : valueEq k q = true := by rw [valueEq_comm]; exact hqk
          have := valueEq_trans k q s hkq hqs
          simp [hks] at this

/-- Lookup after insert, for ALL keys: the inserted key answers for exactly the queries `==` to it. -/
theorem find?_insertRaw (m : Entries) (k v q : Key) :
    afind? q (ainsert m k v).1 = if valueEq q k = true then some v else afind? q m := by
  unfold ListMap.insertRaw
  cases hf : afind? k m with
  | some old => exact find?_replace q k v m (by simp [hf])
  | none =>
    simp only [find?_append_single]
    cases hq : afind? q m with
    | some x =>
      cases hqk : valueEq q k with
      | true => rw [find?_of_valueEq hqk m, hf] at hq; cases hq
      | false => simp
    | none => simp

theorem insertRaw_snd (m : Entries) (k v : Key) : (ainsert m k v).2 = afind? k m := by
  unfold ListMap.insertRaw
  cases afind? k m <;> rfl

theorem removeRaw_snd (m : Entries) (k : Key) : (aremove m k).2 = afind? k m := by
  unfold ListMap.removeRaw
  cases afind? k m <;> rfl

theorem find?_erase (q k : Key) : ∀ m : Entries, (akeys m).Pairwise (fun a b => valueEq a b = false) →
    afind? q (aerase k m) = if valueEq q k = true then none else afind? q m
  | [], _ => by simp [ListMap.find?, ListMap.erase]
  | (s, w) :: es, hd => by
    rw [keys_cons, List.pairwise_cons] at hd
    have ih := find?_erase q k es hd.2
    rw [erase_cons]
    cases hks : valueEq k s with
    | true =>
      simp only [if_true, find?_cons, valueEq_congr_right hks q]
      cases hqk : valueEq q k with
      | false => simp
      | true =>
        -- no later key is `==` to `s`, hence none to `q`
        simp only [if_true]
        apply find?_none_iff.mpr
        intro s' hs'
        have hss' := hd.1 s' hs'
        cases hqs' : valueEq q s' with
        | false => rfl
        | true =>
          have h1 : valueEq s q = true := by rw [valueEq_comm, valueEq_congr_right hks q]; exact hqk
          have := valueEq_trans s q s' h1 hqs'
          simp [hss'] at this
    | false =>
      simp only [Bool.false_eq_true, if_false, find?_cons, ih]
      cases hqs : valueEq q s with
      | false => simp
      | true =>
        cases hqk : valueEq q k with
        | false => simp
        | true =>
          have hkq : valueEq k q = true := by rw [valueEq_comm]; exact hqk
          have := valueEq_trans k q s hkq hqs
          simp [hks] at this

/-- Lookup after remove. -/
theorem find?_removeRaw (m : Entries) (hm : WF m) (k q : Key) :
    afind? q (aremove m k).1 = if valueEq q k = true then none else afind? q m := by
  unfold ListMap.removeRaw
  cases hf : afind? k m with
  | some old => exact find?_erase q k m hm.distinct
  | none =>
    cases hqk : valueEq q k with
    | true => simp [find?_of_valueEq hqk m, hf]
    | false => simp

theorem WF.insertRaw {m : Entries} (hm : WF m) {k : Key} (hk : hasHash k = true) (v : Key) :
    WF (ainsert m k v).1 := by
  refine ⟨ListMap.KeysIn.insertRaw (T := (hasHash · = true)) hm.hashable hk v, ?_⟩
  unfold ListMap.insertRaw
  cases hf : afind? k m with
  | some old => simp only [ListMap.keys_replace]; exact hm.distinct
  | none =>
    have hn := find?_none_iff.mp hf
    simp only [ListMap.keys, List.map_append, List.map_cons, List.map_nil]
    rw [List.pairwise_append]
    refine ⟨hm.distinct, List.pairwise_singleton _ _, ?_⟩
    intro a ha b hb
    simp only [List.mem_singleton] at hb
    subst hb
    rw [valueEq_comm]
    exact hn a ha

theorem WF.removeRaw {m : Entries} (hm : WF m) (k : Key) : WF (aremove m k).1 := by
  refine ⟨ListMap.KeysIn.removeRaw (T := (hasHash · = true)) hm.hashable k, ?_⟩
  unfold ListMap.removeRaw
  cases afind? k m with
  | some old => exact hm.distinct.sublist (ListMap.keys_erase_sublist same k m)
  | none => exact hm.distinct

theorem WF.build : ∀ (ps : List (Key × Key)) (acc : Entries), WF acc → ∀ m', abuild acc ps = some m' → WF m'
  | [], acc, hacc, m', h => by simp only [ListMap.build, Option.some.injEq] at h; exact h ▸ hacc
  | (k, v) :: ps, acc, hacc, m', h => by
    simp only [ListMap.build] at h
    cases hk : hasHash k with
    | false => simp [hk] at h
    | true =>
      simp only [hk, if_true] at h
      exact WF.build ps _ (hacc.insertRaw hk v) m' h

theorem WF.step {m : Entries} (hm : WF m) (op : Op) : WF (astep m op).1 := by
  cases op with
  | literal ps =>
    simp only [ListMap.step]
    cases hb : abuild [] ps with
    | none => exact hm
    | some m' => exact WF.build ps [] WF.nil m' hb
  | insert k v =>
    simp only [ListMap.step]
    cases hk : hasHash k with
    | false => exact hm
    | true => exact hm.insertRaw hk v
  | remove k =>
    simp only [ListMap.step]
    cases hk : hasHash k with
    | false => exact hm
    | true => exact hm.removeRaw k
  | get k => simp only [ListMap.step]; split <;> exact hm
  | hasKey k => simp only [ListMap.step]; split <;> exact hm
  | clear => exact WF.nil
  | len => exact hm
  | keys => exact hm
  | values => exact hm
  | items => exact hm

theorem WF.run : ∀ (ops : List Op) {m : Entries}, WF m → WF (arun m ops).1
  | [], _, hm => hm
  | op :: ops, _, hm => by
    simp only [ListMap.run]
    exact WF.run ops (hm.step op)

/-! ### sizes -/

theorem length_replace (q v : Key) : ∀ m : Entries, (areplace q v m).length = m.length
  | [] => rfl
  | (s, w) :: es => by
    rw [replace_cons]; split <;> simp [length_replace q v es]

theorem length_erase (q : Key) : ∀ m : Entries, (afind? q m).isSome = true →
    (aerase q m).length + 1 = m.length
  | [], h => by simp [ListMap.find?] at h
  | (s, w) :: es, h => by
    rw [find?_cons] at h
    rw [erase_cons]
    cases hs : valueEq q s with
    | true => simp
    | false =>
      simp only [hs, Bool.false_eq_true, if_false] at h
      simp [length_erase q es h]

theorem len_insertRaw (m : Entries) (k v : Key) :
    ListMap.len (ainsert m k v).1 = if (afind? k m).isSome then ListMap.len m else ListMap.len m + 1 := by
  unfold ListMap.insertRaw ListMap.len
  cases hf : afind? k m <;> simp [length_replace]

theorem len_removeRaw (m : Entries) (k : Key) :
    ListMap.len (aremove m k).1 = if (afind? k m).isSome then ListMap.len m - 1 else ListMap.len m := by
  unfold ListMap.removeRaw ListMap.len
  cases hf : afind? k m with
  | none => simp
  | some old =>
    have := length_erase k m (by simp [hf])
    simp only [Option.isSome_some, if_true]
    omega

/-! ### enumerations -/

/-- Each enumerated entry is what a lookup of its own key returns (needs `k == k`, i.e. no NaN in `k`). -/
theorem find?_of_mem {s v : Key} : ∀ {m : Entries}, (akeys m).Pairwise (fun a b => valueEq a b = false) →
    (s, v) ∈ m → Key.nanFree s = true → afind? s m = some v
  | [], _, h, _ => nomatch h
  | (s', w) :: es, hd, h, hs => by
    rw [keys_cons, List.pairwise_cons] at hd
    rw [find?_cons]
    rcases List.mem_cons.mp h with e | h'
    · cases e
      simp [valueEq_self, hs]
    · have hne : valueEq s s' = false := by
        rw [valueEq_comm]; exact hd.1 s (List.mem_map_of_mem (f := Prod.fst) h')
      simp only [hne, Bool.false_eq_true, if_false]
      exact find?_of_mem hd.2 h' hs

end Assoc

end Yarel.HashMapM
