/-
Fuel: determinism up to fuel (monotonicity), termination for well-formed trace ops,
and a certificate-based divergence criterion for the call-stack machine.
-/
import Yarel.Proofs.GcInv

namespace Yarel.Gc

/-! ### determinism up to fuel -/

/-- `a` is `b` unless it ran out of fuel -/
def FuelLe {α : Type} (a b : Except Fault α) : Prop := a = .error .outOfFuel ∨ a = b

theorem runCalls_mono {h : Heap} : ∀ (f f' : Nat) (cols : Array Colour) (st : List Call), f ≤ f' →
    FuelLe (runCalls h f cols st) (runCalls h f' cols st) := by
  intro f
  induction f with
  | zero =>
    intro f' cols st _
    cases st with
    | nil => right; cases f' <;> simp [runCalls]
    | cons c rest => left; simp [runCalls]
  | succ f ih =>
    intro f' cols st hle
    obtain ⟨f', rfl⟩ : ∃ g, f' = g + 1 := ⟨f' - 1, by omega⟩
    cases st with
    | nil => right; simp [runCalls]
    | cons c rest =>
      obtain ⟨op, i⟩ := c
      simp only [runCalls]
      split
      · split
        · exact ih _ _ _ (by omega)
        · exact ih _ _ _ (by omega)
      · right; rfl

theorem markRootsFrom_mono {h : Heap} {f f' : Nat} (hle : f ≤ f') : ∀ (is : List Nat) (cols : Array Colour),
    FuelLe (markRootsFrom h f is cols) (markRootsFrom h f' is cols) := by
  intro is
  induction is with
  | nil => intro cols; right; simp [markRootsFrom]
  | cons i is ih =>
    intro cols
    simp only [markRootsFrom]
    split
    · rcases runCalls_mono f f' cols [(.mark, i)] hle with h1 | h1
      · left; rw [h1]
      · rw [h1]
        cases runCalls h f' cols [(.mark, i)] with
        | error e => right; rfl
        | ok c => exact ih c
    · exact ih cols

theorem tracePass_mono {h : Heap} {f f' : Nat} (hle : f ≤ f') : ∀ (is : List Nat) (cols : Array Colour) (n : Nat),
    FuelLe (tracePass h f is cols n) (tracePass h f' is cols n) := by
  intro is
  induction is with
  | nil => intro cols n; right; simp [tracePass]
  | cons i is ih =>
    intro cols n
    simp only [tracePass]
    split
    · rcases runCalls_mono f f' cols [(.blacken, i)] hle with h1 | h1
      · left; rw [h1]
      · rw [h1]
        cases runCalls h f' cols [(.blacken, i)] with
        | error e => right; rfl
        | ok c => exact ih c _
    · exact ih cols n

theorem traceLoop_mono {h : Heap} {f f' : Nat} (hle : f ≤ f') : ∀ (k k' : Nat) (cols : Array Colour) (n : Nat),
    k ≤ k' → FuelLe (traceLoop h f k cols n) (traceLoop h f' k' cols n) := by
  intro k
  induction k with
  | zero =>
    intro k' cols n _
    cases n with
    | zero => right; cases k' <;> simp [traceLoop]
    | succ n => left; simp [traceLoop]
  | succ k ih =>
    intro k' cols n hk
    obtain ⟨k', rfl⟩ : ∃ g, k' = g + 1 := ⟨k' - 1, by omega⟩
    cases n with
    | zero => right; simp [traceLoop]
    | succ n =>
      simp only [traceLoop]
      rcases tracePass_mono hle (List.range h.size) cols 0 with h1 | h1
      · left; rw [h1]
      · rw [h1]
        cases tracePass h f' (List.range h.size) cols 0 with
        | error e => right; rfl
        | ok cn => exact ih _ _ _ (by omega)

theorem collectE_mono {h : Heap} {f f' : Nat} (hle : f ≤ f') : FuelLe (collectE f h) (collectE f' h) := by
  unfold collectE
  rcases markRootsFrom_mono hle (List.range h.size) (unmarkAll h) with h1 | h1
  · left; unfold markRoots; rw [h1]
  · unfold markRoots; rw [h1]
    cases markRootsFrom h f' (List.range h.size) (unmarkAll h) with
    | error e => right; rfl
    | ok c1 =>
      simp only
      rcases traceLoop_mono hle f f' c1 (countGrey c1) hle with h2 | h2
      · left; unfold traceReferences; rw [h2]
      · unfold traceReferences; rw [h2]
        right; rfl

/-! ### termination for well-formed trace ops -/

/-- number of calls the body `data.<op>()` of box `i` makes -/
def callsAt (h : Heap) (op : TraceOp) (i : Nat) : Nat :=
  match h[i]? with
  | some o => (o.calls op).length
  | none => 0

/-- work still to be done by `op`-calls: every box not yet of colour `op.colour` may be entered once -/
def weight (h : Heap) (op : TraceOp) (cols : Array Colour) : Nat :=
  ((List.range h.size).map fun i => if cols[i]? = some op.colour then 0 else 1 + callsAt h op i).sum

theorem sum_range_update (f g : Nat → Nat) (n i : Nat) (hi : i < n) (hfg : ∀ j, j ≠ i → f j = g j) :
    ((List.range n).map f).sum + g i = ((List.range n).map g).sum + f i := by
  induction n with
  | zero => omega
  | succ n ih =>
    simp only [List.range_succ, List.map_append, List.map_cons, List.map_nil, List.sum_append,
      List.sum_cons, List.sum_nil]
    by_cases hin : i = n
    · subst hin
      have : (List.range i).map f = (List.range i).map g := by
        apply List.map_congr_left
        intro j hj
        rw [List.mem_range] at hj
        exact hfg j (by omega)
      rw [this]; omega
    · have := ih (by omega)
      have := hfg n (by omega)
      omega

theorem weight_set {h : Heap} {op : TraceOp} {cols : Array Colour} {i : Nat} {o : Obj} {c : Colour}
    (ho : h[i]? = some o) (hc : cols[i]? = some c) (hne : c ≠ op.colour) :
    weight h op (cols.setIfInBounds i op.colour) + (1 + (o.calls op).length) = weight h op cols := by
  have hlt : i < h.size := (Array.getElem?_eq_some_iff.mp ho).1
  have hlt' : i < cols.size := (Array.getElem?_eq_some_iff.mp hc).1
  unfold weight
  have := sum_range_update
    (fun j => if (cols.setIfInBounds i op.colour)[j]? = some op.colour then 0 else 1 + callsAt h op j)
    (fun j => if cols[j]? = some op.colour then 0 else 1 + callsAt h op j) h.size i hlt
    (by intro j hj; simp only [Array.getElem?_setIfInBounds_ne (Ne.symm hj)])
  have hca : callsAt h op i = (o.calls op).length := by simp [callsAt, ho]
  simp only [Array.getElem?_setIfInBounds_self, if_pos hlt', if_true, hc, Option.some.injEq, if_neg hne,
    hca] at this
  omega

theorem sum_range_getElem? {α : Type} (g : Option α → Nat) (l : List α) :
    ((List.range l.length).map fun i => g l[i]?).sum = (l.map fun a => g (some a)).sum := by
  induction l with
  | nil => rfl
  | cons a l ih =>
    rw [List.length_cons, List.range_succ_eq_map]
    simp only [List.map_cons, List.sum_cons, List.map_map, List.getElem?_cons_zero]
    rw [← ih]
    congr 1

/-- number of pointers of box `i` -/
def edgesOpt : Option Obj → Nat
  | some o => o.edges.length
  | none => 0

theorem calls_length_le (o : Obj) (op : TraceOp) : (o.calls op).length ≤ o.edges.length := by
  unfold Obj.calls
  exact List.length_filterMap_le _ _

theorem sum_map_le {l : List Nat} {f g : Nat → Nat} (hfg : ∀ i ∈ l, f i ≤ g i) :
    (l.map f).sum ≤ (l.map g).sum := by
  induction l with
  | nil => simp
  | cons a l ih =>
    simp only [List.map_cons, List.sum_cons]
    have := hfg a List.mem_cons_self
    have := ih (fun i hi => hfg i (List.mem_cons_of_mem _ hi))
    omega

theorem sum_map_one_add (l : List Nat) (g : Nat → Nat) :
    (l.map fun i => 1 + g i).sum = l.length + (l.map g).sum := by
  induction l with
  | nil => simp
  | cons a l ih => simp only [List.map_cons, List.sum_cons, List.length_cons, ih]; omega

theorem weight_le (h : Heap) (op : TraceOp) (cols : Array Colour) : weight h op cols ≤ h.size + totalEdges h := by
  unfold weight totalEdges
  have h1 : ((List.range h.size).map fun i => if cols[i]? = some op.colour then 0 else 1 + callsAt h op i).sum ≤
      ((List.range h.size).map fun i => 1 + edgesOpt h.toList[i]?).sum := by
    apply sum_map_le
    intro i _
    split
    · omega
    · simp only [callsAt, Array.getElem?_toList]
      cases h[i]? with
      | none => simp [edgesOpt]
      | some o => have := calls_length_le o op; simpa [edgesOpt] using this
  have h2 : ((List.range h.size).map fun i => edgesOpt h.toList[i]?).sum =
      (h.toList.map fun o => o.edges.length).sum := by
    have := sum_range_getElem? edgesOpt h.toList
    rw [Array.length_toList] at this
    exact this
  rw [sum_map_one_add] at h1
  simp only [List.length_range] at h1
  omega

theorem calls_op_only {h : Heap} (hwf : WellFormed h) {i : Nat} {o : Obj} (ho : h[i]? = some o) (op : TraceOp) :
    ∀ c ∈ o.calls op, c.1 = op := by
  intro c hc
  obtain ⟨e, he, hsel, _⟩ := of_mem_calls hc
  obtain ⟨h1, h2⟩ := hwf i o e ho he
  cases op
  · simp only [Edge.sel] at hsel
    cases hc1 : c.1 with
    | mark => rfl
    | blacken => rw [hc1] at hsel; exact absurd hsel h2
  · simp only [Edge.sel] at hsel
    cases hc1 : c.1 with
    | blacken => rfl
    | mark => rw [hc1] at hsel; exact absurd hsel h1

theorem calls_closed {h : Heap} (hcl : Closed h) {i : Nat} {o : Obj} (ho : h[i]? = some o) (op : TraceOp) :
    ∀ c ∈ o.calls op, c.2 < h.size := by
  intro c hc
  obtain ⟨e, he, _, htgt⟩ := of_mem_calls hc
  rw [← htgt]
  exact hcl i o e ho he

/-- A run of `op`-only calls on a closed well-formed heap finishes within `stack length + weight` steps; it only
writes `op.colour`, and every called box ends up with that colour. -/
theorem runCalls_terminates {h : Heap} (hwf : WellFormed h) (hcl : Closed h) (op : TraceOp) :
    ∀ (fuel : Nat) (cols : Array Colour) (st : List Call), cols.size = h.size →
      (∀ c ∈ st, c.1 = op ∧ c.2 < h.size) → st.length + weight h op cols ≤ fuel →
      ∃ cols', runCalls h fuel cols st = .ok cols' ∧ cols'.size = h.size ∧
        (∀ j : Nat, cols'[j]? = cols[j]? ∨ cols'[j]? = some op.colour) ∧
        (∀ c ∈ st, cols'[c.2]? = some op.colour) := by
  intro fuel
  induction fuel with
  | zero =>
    intro cols st hs hst hf
    cases st with
    | nil => exact ⟨cols, by simp [runCalls], hs, fun j => Or.inl rfl, by simp⟩
    | cons c rest => simp at hf
  | succ f ih =>
    intro cols st hs hst hf
    cases st with
    | nil => exact ⟨cols, by simp [runCalls], hs, fun j => Or.inl rfl, by simp⟩
    | cons c rest =>
      obtain ⟨op', i⟩ := c
      obtain ⟨hop, hi⟩ := hst (op', i) List.mem_cons_self
      simp only at hop hi
      subst hop
      have ho : h[i]? = some h[i] := Array.getElem?_eq_getElem hi
      have hc : cols[i]? = some (cols[i]'(by omega)) := Array.getElem?_eq_getElem (by omega)
      have hrest : ∀ c ∈ rest, c.1 = op' ∧ c.2 < h.size := fun c hc => hst c (List.mem_cons_of_mem _ hc)
      simp only [List.length_cons] at hf
      by_cases hcc : cols[i]'(by omega) = op'.colour
      · obtain ⟨cols', hr, hs', hcol, hcalled⟩ := ih cols rest hs hrest (by omega)
        refine ⟨cols', ?_, hs', hcol, ?_⟩
        · simp only [runCalls, ho, hc, hcc, if_true]
          exact hr
        · intro c hcm
          rcases List.mem_cons.mp hcm with hcm | hcm
          · subst hcm
            simp only
            rcases hcol i with h1 | h1
            · rw [h1, hc, hcc]
            · exact h1
          · exact hcalled c hcm
      · have hw := weight_set (op := op') ho hc hcc
        obtain ⟨cols', hr, hs', hcol, hcalled⟩ := ih (cols.setIfInBounds i op'.colour) (h[i].calls op' ++ rest)
          (by rw [Array.size_setIfInBounds]; exact hs)
          (by
            intro c hcm
            rcases List.mem_append.mp hcm with hcm | hcm
            · exact ⟨calls_op_only hwf ho op' c hcm, calls_closed hcl ho op' c hcm⟩
            · exact hrest c hcm)
          (by rw [List.length_append]; omega)
        have hiset : (cols.setIfInBounds i op'.colour)[i]? = some op'.colour := by
          rw [Array.getElem?_setIfInBounds_self, if_pos (by omega)]
        refine ⟨cols', ?_, hs', ?_, ?_⟩
        · simp only [runCalls, ho, hc, hcc, if_false]
          exact hr
        · intro j
          rcases hcol j with h1 | h1
          · by_cases hij : i = j
            · subst hij
              right; rw [h1, hiset]
            · left; rw [h1, Array.getElem?_setIfInBounds_ne hij]
          · exact Or.inr h1
        · intro c hcm
          rcases List.mem_cons.mp hcm with hcm | hcm
          · subst hcm
            simp only
            rcases hcol i with h1 | h1
            · rw [h1, hiset]
            · exact h1
          · exact hcalled c (List.mem_append_right _ hcm)

theorem runCalls_single_terminates {h : Heap} (hwf : WellFormed h) (hcl : Closed h) (op : TraceOp) {fuel : Nat}
    (hf : fuelBound h ≤ fuel) {cols : Array Colour} (hs : cols.size = h.size) {i : Nat} (hi : i < h.size) :
    ∃ cols', runCalls h fuel cols [(op, i)] = .ok cols' ∧ cols'.size = h.size ∧
      (∀ j : Nat, cols'[j]? = cols[j]? ∨ cols'[j]? = some op.colour) ∧ cols'[i]? = some op.colour := by
  have hw := weight_le h op cols
  obtain ⟨cols', hr, hs', hcol, hcalled⟩ := runCalls_terminates hwf hcl op fuel cols [(op, i)] hs
    (by intro c hc; rw [List.mem_singleton] at hc; subst hc; exact ⟨rfl, hi⟩)
    (by simp only [List.length_singleton]; unfold fuelBound at hf; omega)
  exact ⟨cols', hr, hs', hcol, hcalled (op, i) (List.mem_singleton.mpr rfl)⟩

theorem markRootsFrom_terminates {h : Heap} (hwf : WellFormed h) (hcl : Closed h) {fuel : Nat}
    (hf : fuelBound h ≤ fuel) : ∀ (is : List Nat) (cols : Array Colour), (∀ i ∈ is, i < h.size) →
      cols.size = h.size → ∃ cols', markRootsFrom h fuel is cols = .ok cols' ∧ cols'.size = h.size := by
  intro is
  induction is with
  | nil => intro cols _ hs; exact ⟨cols, rfl, hs⟩
  | cons i is ih =>
    intro cols his hs
    have his' : ∀ j ∈ is, j < h.size := fun j hj => his j (List.mem_cons_of_mem _ hj)
    simp only [markRootsFrom]
    split
    · obtain ⟨c1, hr, hs1, _, _⟩ := runCalls_single_terminates hwf hcl .mark hf hs (his i List.mem_cons_self)
      rw [hr]
      exact ih c1 his' hs1
    · exact ih cols his' hs

theorem tracePass_terminates {h : Heap} (hwf : WellFormed h) (hcl : Closed h) {fuel : Nat}
    (hf : fuelBound h ≤ fuel) : ∀ (is : List Nat) (cols : Array Colour) (n : Nat), (∀ i ∈ is, i < h.size) →
      cols.size = h.size → ∃ c n', tracePass h fuel is cols n = .ok (c, n') ∧ c.size = h.size ∧
        ∀ j, c[j]? = some .grey → cols[j]? = some .grey ∧ j ∉ is := by
  intro is
  induction is with
  | nil => intro cols n _ hs; exact ⟨cols, n, rfl, hs, fun j hj => ⟨hj, by simp⟩⟩
  | cons i is ih =>
    intro cols n his hs
    have his' : ∀ j ∈ is, j < h.size := fun j hj => his j (List.mem_cons_of_mem _ hj)
    simp only [tracePass]
    split
    · obtain ⟨c1, hr, hs1, hcol, hi1⟩ :=
        runCalls_single_terminates hwf hcl .blacken hf hs (his i List.mem_cons_self)
      rw [hr]
      obtain ⟨c, n', hp, hsc, hg⟩ := ih c1 (n + 1) his' hs1
      refine ⟨c, n', hp, hsc, ?_⟩
      intro j hj
      obtain ⟨hj1, hjis⟩ := hg j hj
      have hji : j ≠ i := by
        intro hji; subst hji
        rw [hi1] at hj1
        simp [TraceOp.colour] at hj1
      refine ⟨?_, by simp [hji, hjis]⟩
      rcases hcol j with h1 | h1
      · rw [← h1]; exact hj1
      · rw [h1] at hj1; simp [TraceOp.colour] at hj1
    · rename_i hgrey
      obtain ⟨c, n', hp, hsc, hg⟩ := ih cols n his' hs
      refine ⟨c, n', hp, hsc, ?_⟩
      intro j hj
      obtain ⟨hj1, hjis⟩ := hg j hj
      have hji : j ≠ i := by
        intro hji; subst hji; exact hgrey hj1
      exact ⟨hj1, by simp [hji, hjis]⟩

theorem tracePass_noGrey {h : Heap} {fuel : Nat} {cols : Array Colour} (hg : NoGrey cols) :
    ∀ (is : List Nat) (n : Nat), tracePass h fuel is cols n = .ok (cols, n) := by
  intro is
  induction is with
  | nil => intro n; rfl
  | cons i is ih =>
    intro n
    simp only [tracePass, if_neg (hg i)]
    exact ih n

theorem traceLoop_terminates {h : Heap} (hwf : WellFormed h) (hcl : Closed h) {fuel : Nat}
    (hf : fuelBound h ≤ fuel) {k : Nat} (hk : 2 ≤ k) {cols : Array Colour} (hs : cols.size = h.size) (n : Nat) :
    ∃ c, traceLoop h fuel k cols n = .ok c := by
  cases n with
  | zero => exact ⟨cols, by cases k <;> rfl⟩
  | succ n =>
    obtain ⟨k, rfl⟩ : ∃ g, k = g + 2 := ⟨k - 2, by omega⟩
    obtain ⟨c, n1, hp, hsc, hg⟩ := tracePass_terminates hwf hcl hf (List.range h.size) cols 0
      (fun i hi => List.mem_range.mp hi) hs
    have hng : NoGrey c := by
      intro j hj
      have hlt : j < c.size := (Array.getElem?_eq_some_iff.mp hj).1
      exact (hg j hj).2 (List.mem_range.mpr (by omega))
    refine ⟨c, ?_⟩
    simp only [traceLoop, hp]
    cases n1 with
    | zero => rfl
    | succ n1 =>
      simp only [traceLoop, tracePass_noGrey hng]

theorem collectE_terminates {h : Heap} (hwf : WellFormed h) (hcl : Closed h) {fuel : Nat}
    (hf : fuelBound h ≤ fuel) : ∃ r, collectE fuel h = .ok r := by
  obtain ⟨c1, hm, hs1⟩ := markRootsFrom_terminates hwf hcl hf (List.range h.size) (unmarkAll h)
    (fun i hi => List.mem_range.mp hi) (by simp [unmarkAll])
  obtain ⟨c2, ht⟩ := traceLoop_terminates hwf hcl hf (k := fuel)
    (by unfold fuelBound at hf; omega) hs1 (countGrey c1)
  exact ⟨sweep h c2, by simp only [collectE, markRoots, hm, traceReferences, ht]⟩

/-! ### divergence certificates -/

/-- `k` machine steps on the stack segment `s` alone; `none` if `s` is used up before the `k` steps are done
(or on a dangling pointer) -/
def stepsFrame (h : Heap) : Nat → Array Colour → List Call → Option (Array Colour × List Call)
  | 0, cols, s => some (cols, s)
  | _ + 1, _, [] => none
  | k + 1, cols, (op, i) :: rest =>
    match h[i]?, cols[i]? with
    | some o, some c =>
      if c = op.colour then stepsFrame h k cols rest
      else stepsFrame h k (cols.setIfInBounds i op.colour) (o.calls op ++ rest)
    | _, _ => none

/-- frame rule: steps on a stack segment are the same steps whatever lies beneath it -/
theorem runCalls_frame {h : Heap} : ∀ (k : Nat) (cols : Array Colour) (s : List Call) (cols' : Array Colour)
    (s' : List Call), stepsFrame h k cols s = some (cols', s') → ∀ (t : List Call) (fuel : Nat),
      runCalls h fuel cols (s ++ t) =
        if fuel < k then .error .outOfFuel else runCalls h (fuel - k) cols' (s' ++ t) := by
  intro k
  induction k with
  | zero =>
    intro cols s cols' s' hs t fuel
    simp only [stepsFrame, Option.some.injEq, Prod.mk.injEq] at hs
    obtain ⟨rfl, rfl⟩ := hs
    simp
  | succ k ih =>
    intro cols s cols' s' hs t fuel
    cases s with
    | nil => simp [stepsFrame] at hs
    | cons c rest =>
      obtain ⟨op, i⟩ := c
      simp only [stepsFrame] at hs
      cases fuel with
      | zero => simp [runCalls]
      | succ f =>
        simp only [List.cons_append, runCalls, Nat.add_lt_add_iff_right, Nat.add_sub_add_right]
        split at hs
        · rename_i o c ho hc
          simp only [ho, hc]
          split at hs
          · rename_i hcc
            rw [if_pos hcc]
            exact ih _ _ _ _ hs t f
          · rename_i hcc
            rw [if_neg hcc, ← List.append_assoc]
            exact ih _ _ _ _ hs t f
        · simp at hs

/-- a cycle of the machine that reproduces its own stack segment (possibly with more beneath) never ends -/
theorem runCalls_cycle {h : Heap} {k : Nat} {cols : Array Colour} {s u : List Call} (hk : 0 < k)
    (hc : stepsFrame h k cols s = some (cols, s ++ u)) :
    ∀ (fuel : Nat) (t : List Call), runCalls h fuel cols (s ++ t) = .error .outOfFuel := by
  intro fuel
  induction fuel using Nat.strongRecOn with
  | _ fuel ih =>
    intro t
    rw [runCalls_frame k cols s cols (s ++ u) hc t fuel]
    split
    · rfl
    · rw [List.append_assoc]
      exact ih (fuel - k) (by omega) (u ++ t)

/-- divergence certificate: a finite prefix leading into a cycle -/
theorem runCalls_diverges {h : Heap} {k0 k : Nat} {cols0 cols : Array Colour} {s0 s t u : List Call}
    (hpre : stepsFrame h k0 cols0 s0 = some (cols, s ++ t)) (hk : 0 < k)
    (hc : stepsFrame h k cols s = some (cols, s ++ u)) :
    ∀ fuel, runCalls h fuel cols0 s0 = .error .outOfFuel := by
  intro fuel
  have := runCalls_frame k0 cols0 s0 cols (s ++ t) hpre [] fuel
  rw [List.append_nil, List.append_nil] at this
  rw [this]
  split
  · rfl
  · exact runCalls_cycle hk hc _ t

end Yarel.Gc
