/-
Vec iteration under mutation, the heap of iterator objects (independence), break.
-/
import Yarel.Proofs.IterBase
import Yarel.Proofs.IterOps
namespace Yarel.Iter
open Yarel.Index (Outcome Site)

/-! ### one vector, one iterator, interleaved mutation -/

theorem Store.apply_get {α : Type} (st : Store α) (id : Nat) (xs : List (Item α)) (o : VecOp α)
    (h : st[id]? = some xs) :
    (st.apply id o)[id]? = some (match vecApply xs o with | some ys => ys | none => xs) := by
  have hlt : id < st.length := by
    rcases Nat.lt_or_ge id st.length with h' | h'
    · exact h'
    · rw [List.getElem?_eq_none h'] at h; cases h
  unfold Store.apply
  simp only [h]
  cases hv : vecApply xs o with
  | none => exact h
  | some ys => simp only [List.getElem?_set_self hlt]

theorem runActs_spec {α : Type} :
    ∀ (acts : List (Act α)) (st : Store α) (it : VecIter) (xs : List (Item α)), st[it.vec]? = some xs →
      runActs st it acts = .ok (actsSpec xs it.cur acts)
  | [], _, _, _, _ => rfl
  | .op o :: rest, st, it, xs, h => by
    have h' := Store.apply_get st it.vec xs o h
    simp only [runActs, actsSpec]
    cases hv : vecApply xs o with
    | none => rw [hv] at h'; exact runActs_spec rest _ it xs h'
    | some ys => rw [hv] at h'; exact runActs_spec rest _ it ys h'
  | .next :: rest, st, it, xs, h => by
    simp only [runActs, actsSpec, vecIterNext_eq st it xs h]
    cases hx : xs[it.cur]? with
    | none =>
      have : ¬ it.cur < xs.length := by
        intro hlt; rw [List.getElem?_eq_getElem hlt] at hx; cases hx
      simp only [if_neg this]
      rw [runActs_spec rest st ⟨it.vec, it.cur⟩ xs h]
      rfl
    | some v =>
      have : it.cur < xs.length := by
        rcases Nat.lt_or_ge it.cur xs.length with h' | h'
        · exact h'
        · rw [List.getElem?_eq_none h'] at hx; cases hx
      simp only [if_pos this]
      rw [runActs_spec rest st ⟨it.vec, it.cur + 1⟩ xs h]
      rfl

/-! ### the for loop never panics -/

theorem forLoop_fault {σ W α : Type} (next : Step σ W α) (body : Body W α)
    (hnext : ∀ it w s, next it w = .fault s → s = .modelFuel)
    (hbody : ∀ v w s, body v w = .fault s → s = .modelFuel) :
    ∀ (fuel : Nat) (it : σ) (w : W) (s : Site), forLoop next body fuel it w = .fault s → s = .modelFuel
  | 0, _, _, s, h => by simp only [forLoop, Outcome.fault.injEq] at h; exact h.symm
  | n + 1, it, w, s, h => by
    unfold forLoop at h
    cases hn : next it w with
    | ok t =>
      obtain ⟨it1, w1, v⟩ := t
      rw [hn] at h
      simp only at h
      split at h
      · cases h
      · cases hb : body v w1 with
        | ok q =>
          obtain ⟨w2, sg⟩ := q
          rw [hb] at h
          cases sg <;> first | (cases h; done) | exact forLoop_fault next body hnext hbody n it1 w2 s h
        | err e => rw [hb] at h; cases h
        | fault s' => rw [hb] at h; simp only [Outcome.fault.injEq] at h; subst h; exact hbody _ _ _ hb
    | err e => rw [hn] at h; cases h
    | fault s' => rw [hn] at h; simp only [Outcome.fault.injEq] at h; subst h; exact hnext _ _ _ hn

theorem vecIterNext_fault {α : Type} (st : Store α) (it : VecIter) (s : Site)
    (h : vecIterNext st it = .fault s) : s = .modelFuel := by
  unfold vecIterNext at h
  cases hv : st[it.vec]? with
  | none => rw [hv] at h; simp only [Outcome.fault.injEq] at h; exact h.symm
  | some xs => rw [hv] at h; simp only [elemNext_eq] at h; cases h

theorem vecStep_fault {α : Type} (it : VecIter) (st : Store α) (s : Site)
    (h : vecStep it st = .fault s) : s = .modelFuel := by
  unfold vecStep at h
  cases hv : vecIterNext st it with
  | ok t => rw [hv] at h; cases h
  | err e => rw [hv] at h; cases h
  | fault s' => rw [hv] at h; simp only [Outcome.fault.injEq] at h; subst h; exact vecIterNext_fault st it _ hv

/-! ### break -/

theorem forLoop_broke {σ W α : Type} (next : Step σ W α) (body : Body W α) (it' it'' : σ)
    (hs : ∀ w, next it' w = .ok (it'', w, .stop)) :
    ∀ (xs : List (Item α)) (it : σ), Yields next it xs it' →
      ∀ (fuel : Nat) (w : W) (r : LoopEnd σ W α), forLoop next body fuel it w = .ok r → r.broke = true →
        ∃ j, ∃ (_ : j < xs.length), r.loopVar = xs[j] ∧ Yields next r.iter (xs.drop (j + 1)) it'
  | _, _, _, 0, _, _, h, _ => by simp [forLoop] at h
  | [], it, hy, n + 1, w, r, h, hb => by
    simp only [Yields] at hy
    subst hy
    simp only [forLoop, hs w, Item.isStop, if_true, Outcome.ok.injEq] at h
    subst h
    simp at hb
  | x :: xs, it, ⟨it1, h1, hy⟩, n + 1, w, r, h, hb => by
    simp only [forLoop, h1 w] at h
    split at h
    · simp only [Outcome.ok.injEq] at h; subst h; simp at hb
    · cases hbd : body x w with
      | ok q =>
        obtain ⟨w2, sg⟩ := q
        rw [hbd] at h
        cases sg with
        | brk =>
          simp only [Outcome.ok.injEq] at h
          subst h
          exact ⟨0, by simp, rfl, by simpa using hy⟩
        | next =>
          obtain ⟨j, hj, hv, hr⟩ := forLoop_broke next body it' it'' hs xs it1 hy n w2 r h hb
          exact ⟨j + 1, by simp; omega, by simpa using hv, by simpa using hr⟩
        | cont =>
          obtain ⟨j, hj, hv, hr⟩ := forLoop_broke next body it' it'' hs xs it1 hy n w2 r h hb
          exact ⟨j + 1, by simp; omega, by simpa using hv, by simpa using hr⟩
      | err e => rw [hbd] at h; cases h
      | fault s => rw [hbd] at h; cases h

theorem forIn_spec {σ W α : Type} (next : Step σ W α) (body : Body W α) (xs : List (Item α)) (fresh : σ)
    (h : YieldsThenStop next fresh xs) (fuel : Nat) (w : W) (hF : xs.length < fuel) :
    forIn fresh next body fuel w = omap Prod.fst (loopSpec body xs w) := by
  have := forLoop_spec next body xs fresh h fuel w hF
  rw [← this]
  unfold forIn
  cases forLoop next body fuel fresh w <;> rfl

/-! ### nested loops -/

theorem loopSpec_pair {α : Type} (x : Item α) :
    ∀ (ys : List (Item α)) (w : List (Item α × Item α)),
      loopSpec (pairBody x) ys w = .ok (w ++ (cut ys).map fun y => (x, y), .stop, false)
  | [], w => by simp [loopSpec, cut]
  | y :: ys, w => by
    by_cases hy : y.isStop = true
    · have : y = .stop := by cases y <;> simp_all [Item.isStop]
      subst this
      rw [cut_cons_of_stop _ ys rfl]
      simp [loopSpec, Item.isStop]
    · have hy : y.isStop = false := by simpa using hy
      have hb : pairBody x y w = .ok (w ++ [(x, y)], Signal.next) := rfl
      simp only [loopSpec, hy, Bool.false_eq_true, if_false, hb, loopSpec_pair x ys, cut_cons_of_not_stop y ys hy,
        List.append_assoc, List.singleton_append, List.map_cons]

theorem loopSpec_nested {τ α : Type} (freshB : τ) (nextB : Step τ (List (Item α × Item α)) α) (fuel : Nat)
    (ys : List (Item α)) (hB : YieldsThenStop nextB freshB ys) (hF : ys.length < fuel) :
    ∀ (xs : List (Item α)) (w : List (Item α × Item α)),
      loopSpec (nestedBody freshB nextB fuel) xs w =
        .ok (w ++ (cut xs).flatMap fun x => (cut ys).map fun y => (x, y), .stop, false)
  | [], w => by simp [loopSpec, cut]
  | x :: xs, w => by
    by_cases hx : x.isStop = true
    · have : x = .stop := by cases x <;> simp_all [Item.isStop]
      subst this
      rw [cut_cons_of_stop _ xs rfl]
      simp [loopSpec, Item.isStop]
    · have hx : x.isStop = false := by simpa using hx
      have hb : nestedBody freshB nextB fuel x w = .ok (w ++ (cut ys).map fun y => (x, y), Signal.next) := by
        simp only [nestedBody, forIn_spec nextB (pairBody x) ys freshB hB fuel w hF, loopSpec_pair, omap]
      simp only [loopSpec, hx, Bool.false_eq_true, if_false, hb, loopSpec_nested freshB nextB fuel ys hB hF xs,
        cut_cons_of_not_stop x xs hx, List.flatMap_cons, List.append_assoc]

/-! ### the heap of iterator objects -/

theorem Heap.next_of_get {α : Type} (inj : Inj α) (h : Heap α) (id : Nat) (o : IterObj α) (ho : h.iters[id]? = some o) :
    h.next inj id = omap (fun (r : IterObj α × Item α) => ({ h with iters := h.iters.set id r.1 }, r.2))
      (o.next inj h.vecs) := by
  unfold Heap.next
  simp only [ho]
  cases hr : o.next inj h.vecs with
  | ok r => obtain ⟨o1, v⟩ := r; rfl
  | err e => rfl
  | fault s => rfl

theorem Heap.next_frame {α : Type} (inj : Inj α) (h h1 : Heap α) (id : Nat) (v : Item α)
    (hn : h.next inj id = .ok (h1, v)) :
    h1.vecs = h.vecs ∧ ∀ j, j ≠ id → h1.iters[j]? = h.iters[j]? := by
  unfold Heap.next at hn
  cases ho : h.iters[id]? with
  | none => rw [ho] at hn; cases hn
  | some o =>
    rw [ho] at hn
    simp only at hn
    cases hr : o.next inj h.vecs with
    | ok r =>
      obtain ⟨o1, v'⟩ := r
      rw [hr] at hn
      simp only [Outcome.ok.injEq, Prod.mk.injEq] at hn
      obtain ⟨rfl, _⟩ := hn
      exact ⟨rfl, fun j hj => by simp [List.getElem?_set_ne (Ne.symm hj)]⟩
    | err e => rw [hr] at hn; cases hn
    | fault s => rw [hr] at hn; cases hn

/-- The answers of iterator `id` depend only on its own object and on the vectors. -/
theorem Heap.nextN_view {α : Type} (inj : Inj α) :
    ∀ (m : Nat) (h h' : Heap α) (id : Nat), h.iters[id]? = h'.iters[id]? → h.vecs = h'.vecs →
      omap Prod.snd (Heap.nextN inj h id m) = omap Prod.snd (Heap.nextN inj h' id m)
  | 0, _, _, _, _, _ => rfl
  | m + 1, ⟨vecs, iters⟩, ⟨vecs', iters'⟩, id, hi, hv => by
    simp only at hi hv
    subst hv
    unfold Heap.nextN
    cases ho : iters[id]? with
    | none =>
      have ho' : iters'[id]? = none := by rw [← hi, ho]
      simp only [Heap.next, ho, ho', omap]
    | some o =>
      have ho' : iters'[id]? = some o := by rw [← hi, ho]
      rw [Heap.next_of_get inj ⟨vecs, iters⟩ id o ho, Heap.next_of_get inj ⟨vecs, iters'⟩ id o ho']
      cases hr : o.next inj vecs with
      | ok r =>
        obtain ⟨o1, v⟩ := r
        simp only [omap]
        have hlt : id < iters.length := by
          rcases Nat.lt_or_ge id iters.length with h1 | h1
          · exact h1
          · rw [List.getElem?_eq_none h1] at ho; cases ho
        have hlt' : id < iters'.length := by
          rcases Nat.lt_or_ge id iters'.length with h1 | h1
          · exact h1
          · rw [List.getElem?_eq_none h1] at ho'; cases ho'
        have ih := Heap.nextN_view inj m ⟨vecs, iters.set id o1⟩ ⟨vecs, iters'.set id o1⟩ id
          (by simp only [List.getElem?_set_self hlt, List.getElem?_set_self hlt']) rfl
        revert ih
        cases Heap.nextN inj ⟨vecs, iters.set id o1⟩ id m <;>
          cases Heap.nextN inj ⟨vecs, iters'.set id o1⟩ id m <;> simp [omap]
      | err e => simp [omap]
      | fault s => simp [omap]

theorem Heap.nextN_frame {α : Type} (inj : Inj α) :
    ∀ (n : Nat) (h h' : Heap α) (id : Nat) (vs : List (Item α)), Heap.nextN inj h id n = .ok (h', vs) →
      h'.vecs = h.vecs ∧ ∀ j, j ≠ id → h'.iters[j]? = h.iters[j]?
  | 0, h, h', id, vs, hn => by
    simp only [Heap.nextN, Outcome.ok.injEq, Prod.mk.injEq] at hn
    obtain ⟨rfl, _⟩ := hn
    exact ⟨rfl, fun _ _ => rfl⟩
  | n + 1, h, h', id, vs, hn => by
    unfold Heap.nextN at hn
    cases h1 : h.next inj id with
    | ok r =>
      obtain ⟨ha, v⟩ := r
      rw [h1] at hn
      simp only at hn
      cases h2 : Heap.nextN inj ha id n with
      | ok q =>
        obtain ⟨hb, ws⟩ := q
        rw [h2] at hn
        simp only [Outcome.ok.injEq, Prod.mk.injEq] at hn
        obtain ⟨rfl, _⟩ := hn
        obtain ⟨f1, f2⟩ := Heap.next_frame inj h ha id v h1
        obtain ⟨g1, g2⟩ := Heap.nextN_frame inj n ha hb id ws h2
        exact ⟨g1.trans f1, fun j hj => (g2 j hj).trans (f2 j hj)⟩
      | err e => rw [h2] at hn; cases hn
      | fault s => rw [h2] at hn; cases hn
    | err e => rw [h1] at hn; cases hn
    | fault s => rw [h1] at hn; cases hn

/-- The answers of an iterator object are those of the stepper `IterObj.next` on its own state. -/
theorem Heap.nextN_answers {α : Type} (inj : Inj α) :
    ∀ (n : Nat) (h : Heap α) (id : Nat) (o : IterObj α), h.iters[id]? = some o →
      omap Prod.snd (Heap.nextN inj h id n) = takeN (IterObj.next inj h.vecs) n o
  | 0, _, _, _, _ => rfl
  | n + 1, h, id, o, ho => by
    unfold Heap.nextN takeN
    rw [Heap.next_of_get inj h id o ho]
    cases hr : o.next inj h.vecs with
    | ok r =>
      obtain ⟨o1, v⟩ := r
      simp only [omap]
      have hlt : id < h.iters.length := by
        rcases Nat.lt_or_ge id h.iters.length with h1 | h1
        · exact h1
        · rw [List.getElem?_eq_none h1] at ho; cases ho
      have ih := Heap.nextN_answers inj n { h with iters := h.iters.set id o1 } id o1
        (by simp [List.getElem?_set_self hlt])
      simp only at ih
      rw [← ih]
      cases Heap.nextN inj { h with iters := h.iters.set id o1 } id n <;> simp [omap]
    | err e => simp [omap]
    | fault s => simp [omap]

theorem Heap.alloc_get {α : Type} (h : Heap α) (o : IterObj α) :
    (h.alloc o).2.iters[(h.alloc o).1]? = some o ∧ (h.alloc o).2.vecs = h.vecs ∧
    (h.alloc o).1 = h.iters.length ∧
    ∀ j, j < h.iters.length → (h.alloc o).2.iters[j]? = h.iters[j]? := by
  refine ⟨by simp [Heap.alloc], rfl, rfl, fun j hj => ?_⟩
  simp [Heap.alloc, List.getElem?_append_left hj]

/-! ### iterator objects denote their iterable -/

theorem obj_vec_denotes {α : Type} (inj : Inj α) (vecs : Store α) (v : Nat) (xs : List (Item α)) (h : vecs[v]? = some xs) :
    Denotes (IterObj.next inj vecs) (.vec (vecIterNew v)) xs := by
  have := Denotes.map_sim (nx := vecIterNext vecs) (IterObj.next inj vecs) IterObj.vec id
    (fun s s1 x hx => by simp only [IterObj.next, hx, id]) rfl (vec_denotes vecs v xs h)
  simpa using this

theorem obj_tuple_denotes {α : Type} (inj : Inj α) (vecs : Store α) (elems : List (Item α)) :
    Denotes (IterObj.next inj vecs) (.tuple elems 0) elems := by
  have := Denotes.map_sim (nx := tupleNext elems) (IterObj.next inj vecs) (IterObj.tuple elems) id
    (fun s s1 x hx => by simp only [IterObj.next, hx, id]) rfl (tuple_denotes elems)
  simpa using this

theorem obj_range_denotes {α : Type} (inj : Inj α) (vecs : Store α) (b e : Int)
    (hb : Yarel.F64.isizeMin ≤ b ∧ b ≤ Yarel.F64.isizeMax) (he : Yarel.F64.isizeMin ≤ e ∧ e ≤ Yarel.F64.isizeMax) :
    Denotes (IterObj.next inj vecs) (.range (rangeIterNew b e)) ((rangeList b e).map fun i => .val (inj.num i)) := by
  have := Denotes.map_sim (nx := rangeNext) (IterObj.next inj vecs) IterObj.range (Item.mapVal inj.num)
    (fun s s1 x hx => by simp only [IterObj.next, hx]) rfl (range_denotes b e hb he)
  simpa [List.map_map, Function.comp_def, Item.mapVal] using this

open Yarel.Utf8 in
theorem obj_str_denotes {α : Type} (inj : Inj α) (vecs : Store α) (cps : List Nat) (h : ∀ c ∈ cps, isScalar c = true) :
    Denotes (IterObj.next inj vecs) (.str (encode cps) 0) (cps.map fun c => .val (inj.str (encodeCP c))) := by
  have := Denotes.map_sim (nx := strNext (encode cps)) (IterObj.next inj vecs) (IterObj.str (encode cps))
    (Item.mapVal inj.str) (fun s s1 x hx => by simp only [IterObj.next, hx]) rfl (str_denotes cps h)
  simpa [List.map_map, Function.comp_def, Item.mapVal] using this

end Yarel.Iter
