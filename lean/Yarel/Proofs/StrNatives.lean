/-
`Good` (no fault + valid results) for every native of class String.
-/
import Yarel.Proofs.StrStatic
namespace Yarel.Str
open Yarel Yarel.Utf8 Yarel.Index

mutual
/-- Every string inside the value is valid UTF-8 (and a string iterator sits on a boundary). -/
def ValValid : Val → Prop
  | .str s => Valid s
  | .strIter s pos => Valid s ∧ isBoundary s pos = true
  | .vec xs => AllValid xs
  | .tuple xs => AllValid xs
  | _ => True
def AllValid : List Val → Prop
  | [] => True
  | v :: vs => ValValid v ∧ AllValid vs
end

theorem allValid_iff (xs : List Val) : AllValid xs ↔ ∀ v ∈ xs, ValValid v := by
  induction xs with
  | nil => simp [AllValid]
  | cons v vs ih => simp [AllValid, ih]

@[simp] theorem valValid_num (b : UInt64) : ValValid (.num b) := by simp [ValValid]
@[simp] theorem valValid_bool (b : Bool) : ValValid (.bool b) := by simp [ValValid]
@[simp] theorem valValid_nil : ValValid .nil := by simp [ValValid]
@[simp] theorem valValid_str (s : Bytes) : ValValid (.str s) ↔ Valid s := by simp [ValValid]
@[simp] theorem valValid_vec (xs : List Val) : ValValid (.vec xs) ↔ ∀ v ∈ xs, ValValid v := by
  simp [ValValid, allValid_iff]
@[simp] theorem valValid_tuple (xs : List Val) : ValValid (.tuple xs) ↔ ∀ v ∈ xs, ValValid v := by
  simp [ValValid, allValid_iff]
@[simp] theorem valValid_strIter (s : Bytes) (pos : Nat) :
    ValValid (.strIter s pos) ↔ Valid s ∧ isBoundary s pos = true := by simp [ValValid]
@[simp] theorem valValid_numOfNat (n : Nat) : ValValid (numOfNat n) := by simp [numOfNat]

theorem checkNumArgs_bind {β : Type} (n m : Nat) (f : Unit → Outcome β) :
    (checkNumArgs n m).bind f = if n = m then f () else mkErr .TypeError (.numArgs m n) := by
  unfold checkNumArgs
  by_cases h : n = m <;> simp [h, mkErr]

/-- "no fault, and any value produced is valid": the combined invariant proved for every operation. -/
def Good (o : Outcome Val) : Prop := o.isFault = false ∧ ∀ v, o = .ok v → ValValid v

theorem good_err (e : Err) : Good (.err e) := ⟨rfl, by simp⟩
theorem good_mkErr (k : ErrKind) (m : Msg) : Good (mkErr k m) := ⟨rfl, by simp [mkErr]⟩
theorem good_ok {v : Val} (h : ValValid v) : Good (.ok v) := ⟨rfl, by simp; exact h⟩

theorem good_bind {α : Type} {o : Outcome α} {f : α → Outcome Val} (h1 : o.isFault = false)
    (h2 : ∀ a, o = .ok a → Good (f a)) : Good (o.bind f) := by
  cases o with
  | ok a => exact h2 a rfl
  | err e => exact good_err e
  | fault s => simp at h1

theorem expectString_not_fault (v : Val) : (expectString v).isFault = false := by
  unfold expectString; split <;> rfl

theorem expectString_ok {v : Val} {s : Bytes} (h : expectString v = .ok s) : v = .str s := by
  unfold expectString at h
  split at h
  · simp only [Outcome.ok.injEq] at h; subst h; rfl
  · simp [mkErr] at h

theorem expectVec_not_fault (v : Val) : (expectVec v).isFault = false := by
  unfold expectVec; split <;> rfl

theorem chars_not_fault {s : Bytes} (hs : Valid s) : (chars s).isFault = false := by
  obtain ⟨cps, _, _, h⟩ := chars_valid hs
  rw [h]; rfl

theorem classify_good (p : Nat → Bool) {s : Bytes} (hs : Valid s) : Good (classify p s) := by
  unfold classify
  exact good_bind (chars_not_fault hs) (fun _ _ => good_ok (by simp))

theorem charByteIndexLoop_good (s : Bytes) (ci : Nat) : ∀ n i cnt, Good (charByteIndexLoop s ci n i cnt) := by
  intro n
  induction n with
  | zero => intro i cnt; exact good_mkErr _ _
  | succ n ih =>
    intro i cnt
    simp only [charByteIndexLoop]
    split
    · split
      · exact good_ok (by simp)
      · exact ih _ _
    · exact ih _ _

theorem findLoop_good (s sub : Bytes) (start : Nat) : ∀ n i, Good (findLoop s sub start n i) := by
  intro n
  induction n with
  | zero => intro i; exact good_ok (by simp)
  | succ n ih =>
    intro i
    simp only [findLoop]
    by_cases hb : (!isBoundary s i || !isBoundary s (i + sub.length)) = true
    · rw [if_pos hb]; exact ih (i + 1)
    · rw [if_neg hb]
      simp only [Bool.or_eq_true, Bool.not_eq_eq_eq_not, Bool.not_true, not_or, Bool.not_eq_false] at hb
      simp only [checkedSlice_of_boundaries .findSlice (by omega : i ≤ i + sub.length) hb.1 hb.2]
      split
      · exact good_ok (by simp)
      · exact ih (i + 1)

/-- The start validation of `string_find` is exactly `try_as_bounded_index(len, "String")`. -/
theorem find_start_eq (a1 : Val) (len : Nat) (K : Nat → Outcome Val) :
    ((validateInteger a1).bind fun i =>
      if normIdx i len < 0 ∨ normIdx i len ≥ (len : Int) then mkErr .IndexError (.indexOutOfBounds .String)
      else K (normIdx i len).toNat) = (boundedIndex a1 len .String).bind K := by
  unfold boundedIndex
  cases validateInteger a1 with
  | ok i => simp only [Outcome.bind_ok]; split <;> rfl
  | err e => rfl
  | fault s => rfl

macro "arity_cases" : tactic => `(tactic|
  first
  | (rw [if_neg (by omega)]; exact good_mkErr _ _)
  | (rw [if_pos True.intro])
  | (rw [if_pos (by omega)]))

/-- Every native of class String: no fault on a valid receiver and valid string arguments, and any value
it returns contains only valid UTF-8. -/
theorem callNative_good (env : Env) (fn : StrFn) {s : Bytes} (hs : Valid s) (args : List Val)
    (hargs : ∀ a ∈ args, ValValid a) : Good (callNative env fn s args) := by
  cases fn
  case iter =>
    simp only [callNative, checkNumArgs_bind]
    split
    · exact good_ok (by simp [hs, isBoundary_zero])
    · exact good_mkErr _ _
  case len =>
    simp only [callNative, checkNumArgs_bind]
    split
    · exact good_ok (by simp)
    · exact good_mkErr _ _
  case isAlpha =>
    simp only [callNative, checkNumArgs_bind]
    split
    · exact classify_good _ hs
    · exact good_mkErr _ _
  case isDigit =>
    simp only [callNative, checkNumArgs_bind]
    split
    · exact classify_good _ hs
    · exact good_mkErr _ _
  case isHexdigit =>
    simp only [callNative, checkNumArgs_bind]
    split
    · exact classify_good _ hs
    · exact good_mkErr _ _
  case countChars =>
    simp only [callNative, checkNumArgs_bind]
    split
    · exact good_bind (chars_not_fault hs) (fun _ _ => good_ok (by simp))
    · exact good_mkErr _ _
  case charByteIndex =>
    rcases args with _ | ⟨a0, _ | ⟨a1, rest⟩⟩
    all_goals simp only [callNative, checkNumArgs_bind, List.length_cons, List.length_nil]
    all_goals arity_cases
    exact good_bind (chars_not_fault hs) (fun cps _ =>
      good_bind (boundedIndex_not_fault _ _ _) (fun ci _ => charByteIndexLoop_good _ _ _ _ _))
  case find =>
    rcases args with _ | ⟨a0, _ | ⟨a1, _ | ⟨a2, rest⟩⟩⟩
    all_goals simp only [callNative, checkNumArgs_bind, List.length_cons, List.length_nil]
    all_goals arity_cases
    refine good_bind (expectString_not_fault _) (fun sub _ => ?_)
    split
    · exact good_mkErr _ _
    · refine good_bind (validateInteger_not_fault _) (fun i _ => ?_)
      split
      · exact good_mkErr _ _
      · refine good_bind ?_ (fun _ _ => findLoop_good _ _ _ _ _)
        unfold validateCharBoundary; split <;> rfl
  case replace =>
    rcases args with _ | ⟨a0, _ | ⟨a1, _ | ⟨a2, rest⟩⟩⟩
    all_goals simp only [callNative, checkNumArgs_bind, List.length_cons, List.length_nil]
    all_goals arity_cases
    refine good_bind (expectString_not_fault _) (fun old ho => ?_)
    split
    · exact good_mkErr _ _
    · rename_i hne
      refine good_bind (expectString_not_fault _) (fun new hn => ?_)
      have h0 := expectString_ok ho
      have h1 := expectString_ok hn
      subst h0 h1
      have hvo : Valid old := by simpa using hargs (.str old) (by simp)
      have hvn : Valid new := by simpa using hargs (.str new) (by simp)
      have hne' : old ≠ [] := by intro h; subst h; simp at hne
      exact good_ok (by simpa using replace_valid hvo hne' hvn s.length s (Nat.le_refl _) hs)
  case split =>
    rcases args with _ | ⟨a0, _ | ⟨a1, rest⟩⟩
    all_goals simp only [callNative, checkNumArgs_bind, List.length_cons, List.length_nil]
    all_goals arity_cases
    refine good_bind (expectString_not_fault _) (fun delim hd => ?_)
    split
    · exact good_mkErr _ _
    · rename_i hne
      have h0 := expectString_ok hd
      subst h0
      have hvd : Valid delim := by simpa using hargs (.str delim) (by simp)
      have hne' : delim ≠ [] := by intro h; subst h; simp at hne
      refine good_ok ?_
      simp only [valValid_vec, List.mem_map, forall_exists_index, and_imp]
      rintro v p hp rfl
      simpa using split_valid hs hvd hne' p hp
  case startsWith =>
    rcases args with _ | ⟨a0, _ | ⟨a1, rest⟩⟩
    all_goals simp only [callNative, checkNumArgs_bind, List.length_cons, List.length_nil]
    all_goals arity_cases
    exact good_bind (expectString_not_fault _) (fun _ _ => good_ok (by simp))
  case endsWith =>
    rcases args with _ | ⟨a0, _ | ⟨a1, rest⟩⟩
    all_goals simp only [callNative, checkNumArgs_bind, List.length_cons, List.length_nil]
    all_goals arity_cases
    exact good_bind (expectString_not_fault _) (fun _ _ => good_ok (by simp))
  case toNum =>
    simp only [callNative, checkNumArgs_bind]
    split
    · split
      · exact good_ok (by simp)
      · exact good_mkErr _ _
    · exact good_mkErr _ _
  case toBytes =>
    simp only [callNative, checkNumArgs_bind]
    split
    · refine good_ok ?_
      simp only [valValid_vec, List.mem_map, forall_exists_index, and_imp]
      rintro v b _ rfl; simp
    · exact good_mkErr _ _
  case toCodePoints =>
    simp only [callNative, checkNumArgs_bind]
    split
    · refine good_bind (chars_not_fault hs) (fun cps _ => good_ok ?_)
      simp only [valValid_vec, List.mem_map, forall_exists_index, and_imp]
      rintro v b _ rfl; simp
    · exact good_mkErr _ _

end Yarel.Str
