/-
The exact decimal expansion of a finite double parses back to that double.
-/
import Yarel.Proofs.NumTextParse
import Yarel.Proofs.F64Round

namespace Yarel.NumText
open Yarel.F64

/-- Decimal text with `lf` fraction digits denoting exactly the magnitude of `b` parses to `b`. -/
theorem roundDec_exact (b : Bits) (D lf : Nat) (hfin : isFinite b = true)
    (h : D * 2 ^ (-(decode b).2.2).toNat = (decode b).2.1 * 2 ^ (decode b).2.2.toNat * 10 ^ lf) :
    roundDec (signBit b) D (-(lf : Int)) = b := by
  unfold roundDec
  by_cases h0 : lf = 0
  · subst h0
    have : ¬ (-((0 : Nat) : Int) < 0) := by omega
    simp only [this, if_false]
    apply roundRat_exact b _ 1 hfin (by decide)
    simpa using h
  · have : (-(lf : Int) < 0) := by omega
    simp only [this, if_true]
    have e : (- -(lf : Int)).toNat = lf := by omega
    rw [e]
    exact roundRat_exact b D (10 ^ lf) hfin (Nat.pow_pos (by decide)) h

theorem exactParts_props (b : Bits) :
    (exactParts b).1.all isDigit = true ∧ (exactParts b).2.all isDigit = true ∧ (exactParts b).1 ≠ [] := by
  unfold exactParts exactPartsOf
  split
  · exact ⟨natDigits_all _, rfl, natDigits_ne_nil _⟩
  · exact ⟨natDigits_all _, strip_all _ _ (fixedDigits_all _ _), natDigits_ne_nil _⟩

theorem exactParts_value (b : Bits) :
    digitsVal 0 ((exactParts b).1 ++ (exactParts b).2) * 2 ^ (-(decode b).2.2).toNat
      = (decode b).2.1 * 2 ^ (decode b).2.2.toNat * 10 ^ (exactParts b).2.length := by
  unfold exactParts
  generalize (decode b).2.2 = e
  generalize (decode b).2.1 = m
  unfold exactPartsOf
  split
  · rename_i he
    have : (-e).toNat = 0 := by omega
    simp [this, natDigits_val]
  · rename_i he
    have e2 : e.toNat = 0 := by omega
    rw [e2]
    simp only
    generalize hk : (-e).toNat = k
    -- names
    generalize hF : fixedDigits k (m % 2 ^ k * 5 ^ k) = F
    have hFl : F.length = k := by rw [← hF, fixedDigits_length]
    have hz := digitsVal_strip (natDigits (m / 2 ^ k)) F
    have hs := strip_length_le F
    generalize hfr : stripTrailingZeros F = fr at *
    have hval : digitsVal 0 (natDigits (m / 2 ^ k) ++ F) = (m / 2 ^ k) * 10 ^ k + m % 2 ^ k * 5 ^ k := by
      rw [digitsVal_append, digitsVal_acc, natDigits_val, hFl, ← hF, fixedDigits_val]
      have : m % 2 ^ k * 5 ^ k < 10 ^ k := by
        rw [show (10 : Nat) = 2 * 5 from rfl, Nat.mul_pow]
        exact Nat.mul_lt_mul_of_pos_right (Nat.mod_lt _ (Nat.two_pow_pos _)) (Nat.pow_pos (by decide))
      rw [Nat.mod_eq_of_lt this]
    rw [hval] at hz
    have h10 : (10 : Nat) ^ k = 2 ^ k * 5 ^ k := by rw [← Nat.mul_pow]
    have hm : m = 2 ^ k * (m / 2 ^ k) + m % 2 ^ k := (Nat.div_add_mod m (2 ^ k)).symm
    have hsplit : (10 : Nat) ^ k = 10 ^ fr.length * 10 ^ (F.length - fr.length) := by
      rw [← Nat.pow_add]; congr 1; omega
    have hpos : 0 < 10 ^ (F.length - fr.length) := Nat.pow_pos (by decide)
    apply Nat.eq_of_mul_eq_mul_right hpos
    generalize 10 ^ (F.length - fr.length) = Z at *
    generalize digitsVal 0 (natDigits (m / 2 ^ k) ++ fr) = D at *
    generalize 10 ^ fr.length = L at *
    generalize m / 2 ^ k = q at *
    generalize m % 2 ^ k = r at *
    generalize (10 : Nat) ^ k = T at *
    generalize (2 : Nat) ^ k = P2 at *
    generalize (5 : Nat) ^ k = P5 at *
    subst hm h10
    grind

/-- **Fallback exactness**: the exact expansion always parses back. -/
theorem parseDec_exactText (b : Bits) (hfin : isFinite b = true) :
    parseDec (signText b ++ exactText b) = some b := by
  obtain ⟨h1, h2, h3⟩ := exactParts_props b
  unfold exactText
  rw [parseDec_signed b _ _ h1 h2 h3]
  rw [roundDec_exact b _ _ hfin (exactParts_value b)]

end Yarel.NumText
