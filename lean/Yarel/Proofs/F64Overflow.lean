/-
Overflow threshold of `roundRat`: the result is infinite exactly when the value is at least
`MAX + ulp/2 = (2^54 - 1) * 2^970`.
-/
import Yarel.Proofs.F64Nearest

namespace Yarel.F64

theorem roundHalfEven_cases (n d : Nat) :
    (roundHalfEven n d = n / d + 1 ∧ (d < 2 * (n % d) ∨ (2 * (n % d) = d ∧ n / d % 2 = 1))) ∨
    (roundHalfEven n d = n / d ∧ ¬ (d < 2 * (n % d) ∨ (2 * (n % d) = d ∧ n / d % 2 = 1))) := by
  unfold roundHalfEven
  simp only
  split
  · left; exact ⟨rfl, Or.inl ‹_›⟩
  · split
    · left; exact ⟨rfl, Or.inr ‹_›⟩
    · right; refine ⟨rfl, ?_⟩; intro h; rcases h with h | h
      · contradiction
      · contradiction

/-- Arithmetic core: the assembled bits reach the infinity pattern iff `2N ≥ (2^54-1) * 2^2045 * den`. -/
theorem overflow_core (N den : Nat) (hden : 0 < den) :
    (2047 * 2 ^ 52 ≤ ((N / den).log2 - 52) * 2 ^ 52 + roundHalfEven N (den * 2 ^ ((N / den).log2 - 52)))
      ↔ (2 ^ 54 - 1) * (den * 2 ^ 2045) ≤ 2 * N := by
  obtain ⟨hq1, hq2⟩ := roundMag_quot N den
  change ((N / den).log2 - 52 = 0 ∨ 2 ^ 52 ≤ N / (den * 2 ^ ((N / den).log2 - 52))) at hq1
  change N / (den * 2 ^ ((N / den).log2 - 52)) < 2 ^ 53 at hq2
  generalize (N / den).log2 - 52 = t at *
  have hd : 0 < den * 2 ^ t := Nat.mul_pos hden (Nat.two_pow_pos _)
  have hD0 : 0 < den * 2 ^ 2045 := Nat.mul_pos hden (Nat.two_pow_pos 2045)
  have hdm := Nat.div_add_mod N (den * 2 ^ t)
  have hr := Nat.mod_lt N hd
  have hm := roundHalfEven_cases N (den * 2 ^ t)
  rw [Nat.mul_comm (den * 2 ^ t)] at hdm
  generalize roundHalfEven N (den * 2 ^ t) = m at *
  generalize hq : N / (den * 2 ^ t) = q at *
  generalize N % (den * 2 ^ t) = r at *
  have hq53 : (q + 1) * (den * 2 ^ t) ≤ 2 ^ 53 * (den * 2 ^ t) := Nat.mul_le_mul_right _ (by omega)
  have e1 : (q + 1) * (den * 2 ^ t) = q * (den * 2 ^ t) + den * 2 ^ t := by rw [Nat.add_mul, Nat.one_mul]
  rcases Nat.lt_trichotomy t 2045 with hlt | heq | hgt
  · -- t ≤ 2044 : neither side holds
    have hpow : den * 2 ^ t * 2 ≤ den * 2 ^ 2045 := by
      rw [Nat.mul_assoc, ← Nat.pow_succ]
      have hle : t + 1 ≤ 2045 := by omega
      have key : ∀ k, t + 1 ≤ k → den * 2 ^ (t + 1) ≤ den * 2 ^ k :=
        fun k hk => Nat.mul_le_mul_left den (Nat.pow_le_pow_right (by decide) hk)
      exact key 2045 hle
    generalize den * 2 ^ t = d at *
    generalize den * 2 ^ 2045 = D0 at *
    generalize q * d = qd at *
    constructor
    · intro h; omega
    · intro h; omega
  · -- t = 2045
    subst heq
    generalize den * 2 ^ 2045 = d at *
    by_cases hqq : q = 2 ^ 53 - 1
    · have hqd : q * d = (2 ^ 53 - 1) * d := by rw [hqq]
      have hodd : q % 2 = 1 := by rw [hqq]
      generalize q * d = qd at *
      constructor
      · intro h
        rcases hm with ⟨hm, hup⟩ | ⟨hm, _⟩
        · have h2r : d ≤ 2 * r := by omega
          omega
        · omega
      · intro h
        have h2r : d ≤ 2 * r := by omega
        rcases hm with ⟨hm, _⟩ | ⟨hm, hn⟩
        · omega
        · exfalso; apply hn
          by_cases hlt : d < 2 * r
          · exact Or.inl hlt
          · exact Or.inr ⟨Nat.le_antisymm (Nat.le_of_not_lt hlt) h2r, hodd⟩
    · have : (q + 1) * d ≤ (2 ^ 53 - 1) * d := Nat.mul_le_mul_right _ (by omega)
      generalize q * d = qd at *
      constructor
      · intro h; omega
      · intro h; omega
  · -- t ≥ 2046 : both sides hold
    have ht0 : t ≠ 0 := by omega
    have hq52 : 2 ^ 52 ≤ q := by rcases hq1 with h | h; exact absurd h ht0; exact h
    have hpow : den * 2 ^ 2045 * 2 ≤ den * 2 ^ t := by
      have key : ∀ k, k + 1 ≤ t → den * 2 ^ k * 2 ≤ den * 2 ^ t := by
        intro k hk
        rw [Nat.mul_assoc, ← Nat.pow_succ]
        exact Nat.mul_le_mul_left den (Nat.pow_le_pow_right (by decide) hk)
      exact key 2045 (by omega)
    have hq52d : 2 ^ 52 * (den * 2 ^ t) ≤ q * (den * 2 ^ t) := Nat.mul_le_mul_right _ hq52
    generalize den * 2 ^ t = d at *
    generalize den * 2 ^ 2045 = D0 at *
    generalize q * d = qd at *
    constructor
    · intro _; omega
    · intro _; omega

theorem isFinite_pack_lt (s : Bool) (mag : Nat) (h : mag < 2047 * 2 ^ 52) : isFinite (pack s mag) = true := by
  have e : mag = (mag / 2 ^ 52) * 2 ^ 52 + mag % 2 ^ 52 := by omega
  obtain ⟨_, f2, _⟩ := fields_pack s (mag / 2 ^ 52) (mag % 2 ^ 52) (by omega) (by omega)
  rw [e, isFinite_iff, f2]; omega

/-- **Overflow**: `roundRat` returns an infinity exactly when `num/den ≥ (2^54 - 1) * 2^970`
(= largest finite double + half an ulp); stated with both sides multiplied by `2 * den * 2^1074`. -/
theorem roundRat_overflow_iff' (s : Bool) (num den : Nat) (hden : 0 < den) :
    isFinite (roundRat s num den) = false ↔ (2 ^ 54 - 1) * (den * 2 ^ 2045) ≤ 2 * (num * 2 ^ 1074) := by
  unfold roundRat roundMag
  simp only
  generalize num * 2 ^ 1074 = N
  refine Iff.trans ?_ (overflow_core N den hden)
  generalize ((N / den).log2 - 52) * 2 ^ 52 + roundHalfEven N (den * 2 ^ ((N / den).log2 - 52)) = bits
  unfold infMag
  constructor
  · intro h
    by_cases hov : 9218868437227405312 ≤ bits
    · omega
    · rw [if_neg hov, isFinite_pack_lt s bits (by omega)] at h; cases h
  · intro h
    have hov : 9218868437227405312 ≤ bits := by omega
    rw [if_pos hov]
    exact isFinite_pack_inf s

theorem roundRat_overflow_eq_inf (s : Bool) (num den : Nat)
    (h : isFinite (roundRat s num den) = false) : roundRat s num den = inf s := by
  unfold roundRat roundMag at h ⊢
  simp only at h ⊢
  generalize ((num * 2 ^ 1074 / den).log2 - 52) * 2 ^ 52 +
    roundHalfEven (num * 2 ^ 1074) (den * 2 ^ ((num * 2 ^ 1074 / den).log2 - 52)) = bits at *
  by_cases hov : infMag ≤ bits
  · rw [if_pos hov]; cases s <;> rfl
  · rw [if_neg hov] at h
    rw [isFinite_pack_lt s bits (by unfold infMag at hov; omega)] at h; cases h

end Yarel.F64
