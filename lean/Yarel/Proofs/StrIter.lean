/-
String iteration lemmas.
-/
import Yarel.Proofs.Str
namespace Yarel.Str
open Yarel Yarel.Utf8 Yarel.Index

/-! ### iteration -/

theorem iterNext_char {p rest : Bytes} {c : Nat} (hc : isScalar c = true) (hrest : Valid rest) :
    iterNext (p ++ (encodeCP c ++ rest)) p.length =
      (some (p.length, p.length + (encodeCP c).length), p.length + (encodeCP c).length) := by
  have hpos := encodeCP_length_pos c
  unfold iterNext
  rw [if_neg (by simp only [List.length_append]; omega)]
  have := iterAdvance_char (p := p) hc hrest ((encodeCP c).length - 1) 1
    ((p ++ (encodeCP c ++ rest)).length) (by omega) (by omega)
    (by simp only [List.length_append]; omega)
  simp only [this]

theorem stringIterNext_char {p rest : Bytes} {c : Nat} (hc : isScalar c = true) (hrest : Valid rest) :
    stringIterNext (p ++ (encodeCP c ++ rest)) p.length =
      .ok (.str (encodeCP c), p.length + (encodeCP c).length) := by
  unfold stringIterNext
  rw [iterNext_char hc hrest]
  simp only [checkedSlice_char hc hrest, Outcome.bind_ok]

theorem stringIterNext_end (s : Bytes) : stringIterNext s s.length = .ok (.stopIter, s.length) := by
  unfold stringIterNext iterNext
  simp

theorem iterAllAux_encode (cps : List Nat) (h : ∀ c ∈ cps, isScalar c = true) :
    ∀ (p : Bytes) (n : Nat), cps.length < n →
      iterAllAux (p ++ encode cps) n p.length = .ok (cps.map encodeCP) := by
  induction cps with
  | nil =>
    intro p n hn
    obtain ⟨n, rfl⟩ : ∃ m, n = m + 1 := ⟨n - 1, by omega⟩
    simp only [encode, List.append_nil, iterAllAux, stringIterNext_end, List.map_nil]
  | cons c cs ih =>
    intro p n hn
    obtain ⟨n, rfl⟩ : ∃ m, n = m + 1 := ⟨n - 1, by omega⟩
    have hc := h c (by simp)
    have hcs : ∀ x ∈ cs, isScalar x = true := fun x hx => h x (by simp [hx])
    simp only [encode, iterAllAux, stringIterNext_char hc ⟨cs, hcs, rfl⟩]
    have := ih hcs (p ++ encodeCP c) n (by simp only [List.length_cons] at hn; omega)
    simp only [List.append_assoc, List.length_append] at this
    rw [this]
    rfl

theorem encode_length_ge (cps : List Nat) : cps.length ≤ (encode cps).length := by
  induction cps with
  | nil => simp [encode]
  | cons c cs ih =>
    have := encodeCP_length_pos c
    simp only [encode, List.length_cons, List.length_append]; omega

theorem iterAll_encode (cps : List Nat) (h : ∀ c ∈ cps, isScalar c = true) :
    iterAll (encode cps) = .ok (cps.map encodeCP) := by
  have := iterAllAux_encode cps h [] ((encode cps).length + 1) (by have := encode_length_ge cps; omega)
  simpa [iterAll] using this

theorem flatten_map_encodeCP (cps : List Nat) : (cps.map encodeCP).flatten = encode cps := by
  induction cps with
  | nil => rfl
  | cons c cs ih => simp only [List.map_cons, List.flatten_cons, ih, encode]

/-- One iterator step on a valid string, at any position the iterator can be in: either the end, or
the next whole character. No fault. -/
theorem stringIterNext_valid {s : Bytes} (hs : Valid s) {pos : Nat} (hb : isBoundary s pos = true) :
    (pos = s.length ∧ stringIterNext s pos = .ok (.stopIter, pos)) ∨
    (∃ p c rest, s = p ++ (encodeCP c ++ rest) ∧ p.length = pos ∧ Valid p ∧ isScalar c = true ∧ Valid rest ∧
      stringIterNext s pos = .ok (.str (encodeCP c), pos + (encodeCP c).length) ∧
      isBoundary s (pos + (encodeCP c).length) = true) := by
  have hle := isBoundary_le_length hb
  by_cases hlt : pos < s.length
  · obtain ⟨p, c, rest, rfl, rfl, hp, hc, hrest⟩ := exists_char_at hs hb hlt
    exact Or.inr ⟨p, c, rest, rfl, rfl, hp, hc, hrest, stringIterNext_char hc hrest,
      isBoundary_after hc hrest⟩
  · have : pos = s.length := by omega
    subst this
    exact Or.inl ⟨rfl, stringIterNext_end s⟩

end Yarel.Str
