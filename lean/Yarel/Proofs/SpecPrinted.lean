/-
`printed` of the spec machine: every helper but the native call leaves it alone; one step appends at
most one line.
-/
import Yarel.Spec.Interp
import Yarel.Proofs.SpecAttr

namespace Yarel.Spec
namespace State

/-- close a goal `(f st ..).printed = st.printed` after unfolding `f` -/
macro "printed_same" : tactic =>
  `(tactic| (try dsimp only) <;> (repeat' split) <;> (try dsimp only) <;> simp only [spec_printed])

@[spec_printed] theorem takeHeap_printed (st : State) : st.takeHeap.2.printed = st.printed := rfl
@[spec_printed] theorem withHeap_printed {α : Type} (st : State) (f : Heap → α × Heap) :
    (st.withHeap f).2.printed = st.printed := rfl
@[spec_printed] theorem modHeap_printed (st : State) (f : Heap → Heap) :
    (st.modHeap f).printed = st.printed := rfl
@[spec_printed] theorem alloc_printed (st : State) (o : Obj) : (st.alloc o).2.printed = st.printed := rfl
@[spec_printed] theorem setObj_printed (st : State) (r : Nat) (o : Obj) :
    (st.setObj r o).printed = st.printed := rfl
@[spec_printed] theorem newCell_printed (st : State) (v : Value) : (st.newCell v).2.printed = st.printed := rfl
@[spec_printed] theorem writeCell_printed (st : State) (c : Nat) (v : Value) :
    (st.writeCell c v).printed = st.printed := rfl

@[spec_printed] theorem halt_printed (st : State) (o : Outcome) : (st.halt o).printed = st.printed := by
  unfold halt; printed_same

@[spec_printed] theorem failUncaught_printed (st : State) (v : Value) (line : Nat) :
    (st.failUncaught v line).printed = st.printed := by
  unfold failUncaught; printed_same

@[spec_printed] theorem throwValue_printed (st : State) (v : Value) (line : Nat) :
    (st.throwValue v line).printed = st.printed := by
  unfold throwValue; printed_same

@[spec_printed] theorem raise_printed (st : State) (k : ErrorKind) (msg : String) (line : Nat) :
    (st.raise k msg line).printed = st.printed := by
  unfold raise; printed_same

@[spec_printed] theorem value_printed (st : State) (v : Value) : (st.value v).printed = st.printed := rfl

@[spec_printed] theorem ofExcept_printed (st : State) (r : Except (ErrorKind × String) Value) (line : Nat) :
    (st.ofExcept r line).printed = st.printed := by
  unfold ofExcept; printed_same

@[spec_printed] theorem setModuleAttr_printed (st : State) (m : Nat) (name : String) (v : Value) :
    (st.setModuleAttr m name v).printed = st.printed := by
  unfold setModuleAttr; printed_same

@[spec_printed] theorem writeVar_printed (st : State) (ref : VarRef) (v : Value) :
    (st.writeVar ref v).printed = st.printed := by
  unfold writeVar; printed_same

@[spec_printed] theorem pushLocal_printed (st : State) (v : Value) :
    (st.pushLocal v).printed = st.printed := by
  unfold pushLocal; printed_same

@[spec_printed] theorem truncateEnv_printed (st : State) (n : Nat) :
    (st.truncateEnv n).printed = st.printed := by
  unfold truncateEnv; printed_same

@[spec_printed] theorem makeClosure_printed (st : State) (fn : FnDecl) (caps : List Capture) :
    (st.makeClosure fn caps).2.printed = st.printed := by
  unfold makeClosure; printed_same

@[spec_printed] theorem saveFiber_printed (st : State) (s : FiberStatus) (c : Option (Option Nat)) :
    (st.saveFiber s c).printed = st.printed := by
  unfold saveFiber; printed_same

@[spec_printed] theorem loadFiber_printed (st : State) (r : Nat) (ctl : Control) :
    (st.loadFiber r ctl).printed = st.printed := by
  unfold loadFiber; printed_same

@[spec_printed] theorem callClosure_printed (st : State) (c : Nat) (s0 : Value) (args : Array Value) (line : Nat) :
    (st.callClosure c s0 args line).printed = st.printed := by
  unfold callClosure; printed_same

@[spec_printed] theorem fiberCall_printed (st : State) (recv : Value) (args : Array Value) (line : Nat) :
    (st.fiberCall recv args line).printed = st.printed := by
  unfold fiberCall; printed_same

@[spec_printed] theorem fiberYield_printed (st : State) (args : Array Value) (line : Nat) :
    (st.fiberYield args line).printed = st.printed := by
  unfold fiberYield; printed_same

@[spec_printed] theorem fiberFinished_printed (st : State) (v : Value) :
    (st.fiberFinished v).printed = st.printed := by
  unfold fiberFinished; printed_same

@[spec_printed] theorem bindMethod_printed (st : State) (cls : Nat) (name : String) (recv : Value) (line : Nat) :
    (st.bindMethod cls name recv line).printed = st.printed := by
  unfold bindMethod; printed_same

@[spec_printed] theorem getProperty_printed (st : State) (recv : Value) (name : String) (line : Nat) :
    (st.getProperty recv name line).printed = st.printed := by
  unfold getProperty; printed_same

@[spec_printed] theorem setProperty_printed (st : State) (recv : Value) (name : String) (v : Value) (line : Nat) :
    (st.setProperty recv name v line).printed = st.printed := by
  unfold setProperty; printed_same

@[spec_printed] theorem binaryOp_printed (st : State) (op : BinOp) (a b : Value) (line : Nat) :
    (st.binaryOp op a b line).printed = st.printed := by
  unfold binaryOp; printed_same

@[spec_printed] theorem unaryOp_printed (st : State) (op : UnOp) (a : Value) (line : Nat) :
    (st.unaryOp op a line).printed = st.printed := by
  unfold unaryOp; printed_same

@[spec_printed] theorem evalArgs_printed (st : State) (k : ArgK) (done : Array Value) (pending : List Expr) :
    (st.evalArgs k done pending).printed = st.printed := by
  unfold evalArgs; printed_same

@[spec_printed] theorem evalExpr_printed (st : State) (e : Expr) :
    (st.evalExpr e).printed = st.printed := by
  unfold evalExpr; printed_same

@[spec_printed] theorem initBuiltInGlobals_printed (st : State) (m : Nat) :
    (st.initBuiltInGlobals m).printed = st.printed := by
  unfold initBuiltInGlobals; printed_same

@[spec_printed] theorem getModule_printed (st : State) (path : String) :
    (st.getModule path).2.printed = st.printed := by
  unfold getModule; printed_same

@[spec_printed] theorem bindImport_printed (st : State) (m : Nat) (g : Option String) :
    (st.bindImport m g).printed = st.printed := by
  unfold bindImport; printed_same

@[spec_printed] theorem startImport_printed (st : State) (path : String) (g : Option String) (line : Nat) :
    (st.startImport path g line).printed = st.printed := by
  unfold startImport; printed_same

@[spec_printed] theorem defineGlobal_printed (st : State) (name : String) (v : Value) :
    (st.defineGlobal name v).printed = st.printed := by
  unfold defineGlobal; printed_same

theorem foldl_printed {β γ δ : Type} (F : β × γ × State → δ → β × γ × State)
    (hF : ∀ a m, (F a m).2.2.printed = a.2.2.printed) (l : List δ) (a : β × γ × State) :
    (l.foldl F a).2.2.printed = a.2.2.printed := by
  induction l generalizing a with
  | nil => rfl
  | cons x l ih => rw [List.foldl_cons, ih, hF]

/-- pieces of `execClass`, named -/
def ecSup (st : State) (hasSuper : Bool) (superRef : VarRef) (superGetLine superLine : Nat) :
    Except State (Option Nat × State) :=
  if hasSuper then
    match st.readVar superRef with
    | none =>
      match superRef with
      | .global g => .error (st.raise .nameError (undefinedVariable g) superGetLine)
      | _ => .error (st.halt (.fault "unresolved superclass"))
    | some v =>
      match st.isClass v with
      | some s => .ok (some s, st.pushLocal v)
      | none => .error (st.raise .runtimeError "Superclass must be a class." superLine)
  else .ok (none, st)

def ecCtor (ctorName : Option String) (cm mm : List (String × Value)) (st : State) :
    List (String × Value) × List (String × Value) × State :=
  match ctorName with
  | some cn =>
    let (v, st) := st.makeClosure (.mk cn 0 .initialiser []) []
    (assocSet cm cn v, assocSet mm cn v, st)
  | none => (cm, mm, st)

def ecMethod (acc : List (String × Value) × List (String × Value) × State) (m : MethodDecl) :
    List (String × Value) × List (String × Value) × State :=
  match m with
  | .mk mname isStatic fn caps =>
    let (cm, mm, st) := acc
    let (v, st) := st.makeClosure fn caps
    (assocSet cm mname v, if isStatic then assocSet mm mname v else assocErase mm mname, st)

def ecFinish (st : State) (name : String) (hasSuper : Bool) (setRef : VarRef) (superclass : Option Nat)
    (classMethods metaMethods : List (String × Value)) : State :=
  let core := st.heap.core
  let metaData : ClassData :=
    { name := name ++ "Class", metaclass := core.typeC, superclass := some core.object,
      methods := metaMethods }
  let (metaRef, st) := st.alloc (.cls metaData)
  let classData : ClassData :=
    { name := name, metaclass := metaRef, superclass := some (superclass.getD core.object),
      methods := classMethods }
  let (classRef, st) := st.alloc (.cls classData)
  let st := if st.canWrite setRef then st.writeVar setRef (.obj classRef) else st
  let st := if hasSuper then st.truncateEnv (st.env.size - 1) else st
  { st with ctl := .next }

theorem execClass_eq (st : State) (name : String) (globalName : Option String) (hasSuper : Bool)
    (superRef : VarRef) (superGetLine superLine : Nat) (setRef : VarRef) (ctorName : Option String)
    (methods : List MethodDecl) :
    st.execClass (.mk name globalName hasSuper superRef superGetLine superLine setRef ctorName methods) =
      let objectMethods := (st.heap.classData st.heap.core.object).methods
      let st1 := match globalName with
        | some g => st.defineGlobal g .nil
        | none => st.pushLocal .nil
      match ecSup st1 hasSuper superRef superGetLine superLine with
      | .error st => st
      | .ok (superclass, st) =>
        let classMethods :=
          match superclass with
          | some s => assocMerge objectMethods (st.heap.classData s).methods
          | none => objectMethods
        let t := methods.foldl ecMethod (ecCtor ctorName classMethods objectMethods st)
        ecFinish t.2.2 name hasSuper setRef superclass t.1 t.2.1 := rfl


theorem ecSup_printed (st : State) (hasSuper : Bool) (superRef : VarRef) (l1 l2 : Nat) :
    match ecSup st hasSuper superRef l1 l2 with
    | .error st' => st'.printed = st.printed
    | .ok p => p.2.printed = st.printed := by
  unfold ecSup
  by_cases hs : hasSuper = true
  · simp only [hs, if_true]
    cases st.readVar superRef with
    | none => cases superRef <;> simp only [spec_printed]
    | some v =>
      dsimp only
      cases hc : st.isClass v <;> simp only [spec_printed]
  · simp only [hs, if_false, Bool.false_eq_true]

@[spec_printed] theorem ecCtor_printed (c : Option String) (cm mm : List (String × Value)) (st : State) :
    (ecCtor c cm mm st).2.2.printed = st.printed := by
  unfold ecCtor; printed_same

theorem ecMethod_printed (acc : List (String × Value) × List (String × Value) × State) (m : MethodDecl) :
    (ecMethod acc m).2.2.printed = acc.2.2.printed := by
  unfold ecMethod; printed_same

@[spec_printed] theorem ecFinish_printed (st : State) (name : String) (hasSuper : Bool) (setRef : VarRef)
    (sc : Option Nat) (cm mm : List (String × Value)) :
    (ecFinish st name hasSuper setRef sc cm mm).printed = st.printed := by
  unfold ecFinish; printed_same

@[spec_printed] theorem execClass_printed (st : State) (c : ClassDecl) :
    (st.execClass c).printed = st.printed := by
  cases c with
  | mk name globalName hasSuper superRef superGetLine superLine setRef ctorName methods =>
  rw [execClass_eq]
  dsimp only
  have h1 : (match globalName with
      | some g => st.defineGlobal g .nil
      | none => st.pushLocal .nil).printed = st.printed := by
    split <;> simp only [spec_printed]
  generalize (match globalName with
      | some g => st.defineGlobal g .nil
      | none => st.pushLocal .nil) = st1 at h1 ⊢
  have h2 := ecSup_printed st1 hasSuper superRef superGetLine superLine
  generalize ecSup st1 hasSuper superRef superGetLine superLine = sup at h2 ⊢
  cases sup with
  | error st' => dsimp only at h2 ⊢; rw [h2, h1]
  | ok p =>
    obtain ⟨sc, st2⟩ := p
    dsimp only at h2 ⊢
    rw [ecFinish_printed, foldl_printed _ ecMethod_printed, ecCtor_printed, h2, h1]

@[spec_printed] theorem execStmt_printed (st : State) (s : Stmt) :
    (st.execStmt s).printed = st.printed := by
  unfold execStmt; printed_same

end State
end Yarel.Spec
