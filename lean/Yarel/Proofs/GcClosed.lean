/-
On a closed heap the collector never follows a dangling pointer: `collect fuel h = none` can only mean "out of fuel".
-/
import Yarel.Proofs.GcFuel

namespace Yarel.Gc

theorem runCalls_size {h : Heap} {fuel : Nat} {cols cols' : Array Colour} {st : List Call}
    (hr : runCalls h fuel cols st = .ok cols') : cols'.size = cols.size := by
  refine runCalls_induct (h := h) (fun c _ => c.size = cols.size) ?_ ?_ fuel cols st cols' hr rfl
  · intro c _ _ _ _ _ _ hp; exact hp
  · intro c _ _ _ _ _ _ _ _ hp; rw [Array.size_setIfInBounds]; exact hp

theorem runCalls_no_dangling {h : Heap} (hcl : Closed h) : ∀ (fuel : Nat) (cols : Array Colour) (st : List Call),
    cols.size = h.size → (∀ c ∈ st, c.2 < h.size) → runCalls h fuel cols st ≠ .error .dangling := by
  intro fuel
  induction fuel with
  | zero => intro cols st _ _; cases st <;> simp [runCalls]
  | succ f ih =>
    intro cols st hs hst
    cases st with
    | nil => simp [runCalls]
    | cons c rest =>
      obtain ⟨op, i⟩ := c
      have hi : i < h.size := hst (op, i) List.mem_cons_self
      have ho : h[i]? = some h[i] := Array.getElem?_eq_getElem hi
      have hc : cols[i]? = some (cols[i]'(by omega)) := Array.getElem?_eq_getElem (by omega)
      have hrest : ∀ c ∈ rest, c.2 < h.size := fun c hc => hst c (List.mem_cons_of_mem _ hc)
      simp only [runCalls, ho, hc]
      split
      · exact ih _ _ hs hrest
      · refine ih _ _ (by rw [Array.size_setIfInBounds]; exact hs) ?_
        intro c hcm
        rcases List.mem_append.mp hcm with hcm | hcm
        · exact calls_closed hcl ho op c hcm
        · exact hrest c hcm

theorem markRootsFrom_no_dangling {h : Heap} (hcl : Closed h) {fuel : Nat} : ∀ (is : List Nat)
    (cols : Array Colour), (∀ i ∈ is, i < h.size) → cols.size = h.size →
      markRootsFrom h fuel is cols ≠ .error .dangling ∧
      ∀ c, markRootsFrom h fuel is cols = .ok c → c.size = h.size := by
  intro is
  induction is with
  | nil => intro cols _ hs; simp only [markRootsFrom]; exact ⟨by simp, fun c hc => by cases hc; exact hs⟩
  | cons i is ih =>
    intro cols his hs
    have his' : ∀ j ∈ is, j < h.size := fun j hj => his j (List.mem_cons_of_mem _ hj)
    simp only [markRootsFrom]
    split
    · have hnd := runCalls_no_dangling hcl fuel cols [(.mark, i)] hs
        (by intro c hc; rw [List.mem_singleton] at hc; subst hc; exact his i List.mem_cons_self)
      cases hrun : runCalls h fuel cols [(.mark, i)] with
      | error e =>
        cases e with
        | dangling => exact absurd hrun hnd
        | outOfFuel => exact ⟨by simp, by simp⟩
      | ok c => exact ih c his' (by rw [runCalls_size hrun]; exact hs)
    · exact ih cols his' hs

theorem tracePass_no_dangling {h : Heap} (hcl : Closed h) {fuel : Nat} : ∀ (is : List Nat)
    (cols : Array Colour) (n : Nat), (∀ i ∈ is, i < h.size) → cols.size = h.size →
      tracePass h fuel is cols n ≠ .error .dangling ∧
      ∀ c m, tracePass h fuel is cols n = .ok (c, m) → c.size = h.size := by
  intro is
  induction is with
  | nil =>
    intro cols n _ hs; simp only [tracePass]
    exact ⟨by simp, fun c m hc => by cases hc; exact hs⟩
  | cons i is ih =>
    intro cols n his hs
    have his' : ∀ j ∈ is, j < h.size := fun j hj => his j (List.mem_cons_of_mem _ hj)
    simp only [tracePass]
    split
    · have hnd := runCalls_no_dangling hcl fuel cols [(.blacken, i)] hs
        (by intro c hc; rw [List.mem_singleton] at hc; subst hc; exact his i List.mem_cons_self)
      cases hrun : runCalls h fuel cols [(.blacken, i)] with
      | error e =>
        cases e with
        | dangling => exact absurd hrun hnd
        | outOfFuel => exact ⟨by simp, by simp⟩
      | ok c => exact ih c _ his' (by rw [runCalls_size hrun]; exact hs)
    · exact ih cols n his' hs

theorem traceLoop_no_dangling {h : Heap} (hcl : Closed h) {fuel : Nat} : ∀ (k : Nat) (cols : Array Colour)
    (n : Nat), cols.size = h.size → traceLoop h fuel k cols n ≠ .error .dangling := by
  intro k
  induction k with
  | zero => intro cols n _; cases n <;> simp [traceLoop]
  | succ k ih =>
    intro cols n hs
    cases n with
    | zero => simp [traceLoop]
    | succ n =>
      simp only [traceLoop]
      obtain ⟨hnd, hsz⟩ := tracePass_no_dangling hcl (fuel := fuel) (List.range h.size) cols 0
        (fun i hi => List.mem_range.mp hi) hs
      cases hp : tracePass h fuel (List.range h.size) cols 0 with
      | error e =>
        cases e with
        | dangling => exact absurd hp hnd
        | outOfFuel => simp
      | ok cn => exact ih _ _ (hsz cn.1 cn.2 hp)

theorem collectE_no_dangling {h : Heap} (hcl : Closed h) (fuel : Nat) : collectE fuel h ≠ .error .dangling := by
  obtain ⟨hnd, hsz⟩ := markRootsFrom_no_dangling hcl (fuel := fuel) (List.range h.size) (unmarkAll h)
    (fun i hi => List.mem_range.mp hi) (by simp [unmarkAll])
  unfold collectE markRoots
  cases hm : markRootsFrom h fuel (List.range h.size) (unmarkAll h) with
  | error e =>
    cases e with
    | dangling => exact absurd hm hnd
    | outOfFuel => simp
  | ok c1 =>
    simp only
    have := traceLoop_no_dangling hcl (fuel := fuel) fuel c1 (countGrey c1) (hsz c1 hm)
    unfold traceReferences
    cases ht : traceLoop h fuel fuel c1 (countGrey c1) with
    | error e =>
      cases e with
      | dangling => exact absurd ht this
      | outOfFuel => simp
    | ok c2 => simp

end Yarel.Gc
