/-
One step of the spec machine appends at most one line to `printed` (only a native call prints).
-/
import Yarel.Proofs.SpecPrinted

namespace Yarel.Spec
namespace State

/-- `b` is `a` or `a` with one more line. -/
def PStep (a b : Array String) : Prop := b = a ∨ ∃ s, b = a.push s

theorem PStep.of_eq {a b : Array String} (h : b = a) : PStep a b := Or.inl h

/-- discharge `(..).printed = st.printed` side goals -/
macro "printed_eq" : tactic => `(tactic| first | rfl | (simp only [spec_printed]; done))

theorem callNativeRef_pstep (st : State) (n : Nat) (recv : Value) (args : Array Value) (line : Nat)
    {a : Array String} (h : st.printed = a) : PStep a (st.callNativeRef n recv args line).printed := by
  subst h
  unfold callNativeRef
  (try dsimp only) <;> (repeat' split) <;> (try dsimp only)
  all_goals first
    | (apply PStep.of_eq; printed_eq)
    | exact Or.inr ⟨_, rfl⟩

/-- after unfolding: split everything, close each branch by "unchanged" or by `alt` -/
syntax "printed_step " tactic : tactic
macro_rules
  | `(tactic| printed_step $alt) =>
    `(tactic| ((try dsimp only) <;> (repeat' split) <;> (try dsimp only)) <;>
        first | (apply PStep.of_eq; printed_eq) | ($alt:tactic))

/-- use a `_pstep` lemma -/
macro "via " t:term : tactic => `(tactic| (apply $t; printed_eq))

theorem callValue_pstep (st : State) (callee : Value) (args : Array Value) (line : Nat)
    {a : Array String} (h : st.printed = a) : PStep a (st.callValue callee args line).printed := by
  subst h; unfold callValue
  printed_step (first | via callNativeRef_pstep)

theorem invokeFromClass_pstep (st : State) (cls : Nat) (name : String) (recv : Value)
    (args : Array Value) (line : Nat) {a : Array String} (h : st.printed = a) :
    PStep a (st.invokeFromClass cls name recv args line).printed := by
  subst h; unfold invokeFromClass
  printed_step (first | via callNativeRef_pstep)

theorem invoke_pstep (st : State) (recv : Value) (name : String) (args : Array Value) (line : Nat)
    {a : Array String} (h : st.printed = a) : PStep a (st.invoke recv name args line).printed := by
  subst h; unfold invoke
  printed_step (first | via callValue_pstep | via invokeFromClass_pstep)

theorem forAdvance_pstep (st : State) (line : Nat) (body : List Stmt)
    {a : Array String} (h : st.printed = a) : PStep a (st.forAdvance line body).printed := by
  subst h; unfold forAdvance
  printed_step (first | via invoke_pstep)

theorem applyArgs_pstep (st : State) (k : ArgK) (vs : Array Value)
    {a : Array String} (h : st.printed = a) : PStep a (st.applyArgs k vs).printed := by
  subst h; unfold applyArgs
  printed_step (first | via invoke_pstep | via callValue_pstep | via invokeFromClass_pstep)

theorem onValue_pstep (st : State) (v : Value)
    {a : Array String} (h : st.printed = a) : PStep a (st.onValue v).printed := by
  subst h; unfold onValue
  printed_step (first | via applyArgs_pstep | via invoke_pstep | via forAdvance_pstep)

theorem onNext_pstep (st : State)
    {a : Array String} (h : st.printed = a) : PStep a st.onNext.printed := by
  subst h; unfold onNext
  printed_step (first | via applyArgs_pstep | via forAdvance_pstep)

theorem onUnwind_pstep (st : State) (r : Reason)
    {a : Array String} (h : st.printed = a) : PStep a (st.onUnwind r).printed := by
  subst h; unfold onUnwind
  printed_step (first | via forAdvance_pstep)

theorem step_pstep (st : State) : PStep st.printed (step st).printed := by
  unfold step
  printed_step (first | via onValue_pstep | via onNext_pstep | via onUnwind_pstep)

end State
end Yarel.Spec
