/-
Helper lemmas for the UTF-8 model: encode/decode round trip, `validate ↔ Valid`, boundary lemmas.
-/
import Yarel.Model.Utf8
namespace Yarel.Utf8

/-! ### Bytes -/

theorem toNat_ofNat_lt (n : Nat) (h : n < 256) : (UInt8.ofNat n).toNat = n := by
  simp only [UInt8.toNat_ofNat']; omega
theorem isCont_iff (b : UInt8) : isCont b = true ↔ 0x80 ≤ b.toNat ∧ b.toNat ≤ 0xBF := by
  simp only [isCont, Bool.and_eq_true, decide_eq_true_eq]
theorem isCont_false_iff (b : UInt8) : isCont b = false ↔ b.toNat < 0x80 ∨ 0xBF < b.toNat := by
  rw [← Bool.not_eq_true, isCont_iff]; omega
theorem isCont_ofNat (n : Nat) (h1 : 0x80 ≤ n) (h2 : n ≤ 0xBF) : isCont (UInt8.ofNat n) = true := by
  rw [isCont_iff, toNat_ofNat_lt n (by omega)]; omega
theorem not_isCont_ofNat (n : Nat) (h : n < 0x80 ∨ (0xBF < n ∧ n < 256)) : isCont (UInt8.ofNat n) = false := by
  rw [isCont_false_iff, toNat_ofNat_lt n (by omega)]; omega

theorem encodeCP_shape (c : Nat) (h : c ≤ 0x10FFFF) :
    ∃ b0 tl, encodeCP c = b0 :: tl ∧ isCont b0 = false ∧ (∀ b ∈ tl, isCont b = true) ∧ tl.length ≤ 3 := by
  have c1 : isCont (UInt8.ofNat (0x80 + c % 64)) = true := isCont_ofNat _ (by omega) (by omega)
  have c2 : isCont (UInt8.ofNat (0x80 + c / 64 % 64)) = true := isCont_ofNat _ (by omega) (by omega)
  have c3 : isCont (UInt8.ofNat (0x80 + c / 4096 % 64)) = true := isCont_ofNat _ (by omega) (by omega)
  unfold encodeCP
  split
  · exact ⟨_, _, rfl, not_isCont_ofNat _ (by omega), by simp, by simp⟩
  split
  · exact ⟨_, _, rfl, not_isCont_ofNat _ (by omega), by intro b hb; simp only [List.mem_cons, List.not_mem_nil, or_false] at hb; rcases hb with rfl; assumption, by simp⟩
  split
  · exact ⟨_, _, rfl, not_isCont_ofNat _ (by omega), by intro b hb; simp only [List.mem_cons, List.not_mem_nil, or_false] at hb; rcases hb with rfl | rfl <;> assumption, by simp⟩
  · exact ⟨_, _, rfl, not_isCont_ofNat _ (by omega), by intro b hb; simp only [List.mem_cons, List.not_mem_nil, or_false] at hb; rcases hb with rfl | rfl | rfl <;> assumption, by simp⟩

theorem ofNat_eq (b : UInt8) (n : Nat) (h : n = b.toNat) : UInt8.ofNat n = b := by
  subst h; exact UInt8.ofNat_toNat

theorem second3_enc (c : Nat) (h : c < 55296 ∨ 57344 ≤ c ∧ c ≤ 1114111) (h1 : ¬ c < 2048) (h2 : c < 65536) :
    second3 (0xE0 + c / 4096) (0x80 + c / 64 % 64) = true := by
  unfold second3
  split
  · simp only [Bool.and_eq_true, decide_eq_true_eq]; omega
  split
  · simp only [Bool.and_eq_true, decide_eq_true_eq]; omega
  · simp only [Bool.and_eq_true, decide_eq_true_eq]; omega

theorem second4_enc (c : Nat) (h : c < 55296 ∨ 57344 ≤ c ∧ c ≤ 1114111) (h1 : ¬ c < 65536) :
    second4 (0xF0 + c / 262144) (0x80 + c / 4096 % 64) = true := by
  unfold second4
  split
  · simp only [Bool.and_eq_true, decide_eq_true_eq]; omega
  split
  · simp only [Bool.and_eq_true, decide_eq_true_eq]; omega
  · simp only [Bool.and_eq_true, decide_eq_true_eq]; omega

theorem decodeStep_encodeCP (c : Nat) (rest : List UInt8) (h : isScalar c = true) :
    decodeStep (encodeCP c ++ rest) = some (c, rest) := by
  simp only [isScalar, Bool.or_eq_true, Bool.and_eq_true, decide_eq_true_eq] at h
  have c1 : isCont (UInt8.ofNat (0x80 + c % 64)) = true := isCont_ofNat _ (by omega) (by omega)
  have c2 : isCont (UInt8.ofNat (0x80 + c / 64 % 64)) = true := isCont_ofNat _ (by omega) (by omega)
  unfold encodeCP
  split
  · simp only [List.cons_append, List.nil_append, decodeStep]
    rw [toNat_ofNat_lt _ (by omega)]
    simp [*]
  split
  · simp only [List.cons_append, List.nil_append, decodeStep]
    rw [toNat_ofNat_lt (0xC0 + c / 64) (by omega), toNat_ofNat_lt (0x80 + c % 64) (by omega)]
    rw [if_neg (by omega), if_neg (by omega), if_pos (by omega)]
    simp only [c1, ↓reduceIte, Option.some.injEq, Prod.mk.injEq, and_true]
    omega
  split
  · simp only [List.cons_append, List.nil_append, decodeStep]
    rw [toNat_ofNat_lt (0xE0 + c / 4096) (by omega), toNat_ofNat_lt (0x80 + c / 64 % 64) (by omega),
      toNat_ofNat_lt (0x80 + c % 64) (by omega)]
    rw [if_neg (by omega), if_neg (by omega), if_neg (by omega), if_pos (by omega)]
    simp only [c1, second3_enc c h (by omega) (by omega), Bool.and_self, ↓reduceIte,
      Option.some.injEq, Prod.mk.injEq, and_true]
    omega
  · simp only [List.cons_append, List.nil_append, decodeStep]
    rw [toNat_ofNat_lt (0xF0 + c / 262144) (by omega), toNat_ofNat_lt (0x80 + c / 4096 % 64) (by omega),
      toNat_ofNat_lt (0x80 + c / 64 % 64) (by omega),
      toNat_ofNat_lt (0x80 + c % 64) (by omega)]
    rw [if_neg (by omega), if_neg (by omega), if_neg (by omega), if_neg (by omega), if_pos (by omega)]
    simp only [c1, c2, second4_enc c h (by omega), Bool.and_self, ↓reduceIte,
      Option.some.injEq, Prod.mk.injEq, and_true]
    omega

theorem decodeStep_some {s : List UInt8} {c : Nat} {rest : List UInt8}
    (h : decodeStep s = some (c, rest)) : isScalar c = true ∧ s = encodeCP c ++ rest := by
  cases s with
  | nil => simp [decodeStep] at h
  | cons b0 t =>
    have hb0 := UInt8.toNat_lt b0
    simp only [decodeStep] at h
    split at h
    · -- ASCII
      simp only [Option.some.injEq, Prod.mk.injEq] at h
      obtain ⟨rfl, rfl⟩ := h
      refine ⟨by simp only [isScalar, Bool.or_eq_true, decide_eq_true_eq]; omega, ?_⟩
      rw [encodeCP, if_pos (by omega), UInt8.ofNat_toNat]; rfl
    split at h
    · simp at h
    split at h
    · -- two bytes
      split at h
      · rename_i b1 t1
        split at h
        · rename_i hc
          rw [isCont_iff] at hc
          simp only [Option.some.injEq, Prod.mk.injEq] at h
          obtain ⟨rfl, rfl⟩ := h
          refine ⟨by simp only [isScalar, Bool.or_eq_true, decide_eq_true_eq]; omega, ?_⟩
          rw [encodeCP, if_neg (by omega), if_pos (by omega)]
          rw [ofNat_eq b0 _ (by omega), ofNat_eq b1 _ (by omega)]; rfl
        · simp at h
      · simp at h
    split at h
    · -- three bytes
      split at h
      · rename_i b1 b2 t2
        split at h
        · rename_i hc
          simp only [Bool.and_eq_true, isCont_iff] at hc
          obtain ⟨hs, hc2⟩ := hc
          have hs' : (b0.toNat = 0xE0 → 0xA0 ≤ b1.toNat ∧ b1.toNat ≤ 0xBF) ∧
              (b0.toNat = 0xED → 0x80 ≤ b1.toNat ∧ b1.toNat ≤ 0x9F) ∧
              (0x80 ≤ b1.toNat ∧ b1.toNat ≤ 0xBF) := by
            unfold second3 at hs
            split at hs
            · simp only [Bool.and_eq_true, decide_eq_true_eq] at hs; omega
            split at hs
            · simp only [Bool.and_eq_true, decide_eq_true_eq] at hs; omega
            · simp only [Bool.and_eq_true, decide_eq_true_eq] at hs; omega
          simp only [Option.some.injEq, Prod.mk.injEq] at h
          obtain ⟨rfl, rfl⟩ := h
          refine ⟨by simp only [isScalar, Bool.or_eq_true, Bool.and_eq_true, decide_eq_true_eq]; omega, ?_⟩
          rw [encodeCP, if_neg (by omega), if_neg (by omega), if_pos (by omega)]
          rw [ofNat_eq b0 _ (by omega), ofNat_eq b1 _ (by omega), ofNat_eq b2 _ (by omega)]; rfl
        · simp at h
      · simp at h
    split at h
    · -- four bytes
      split at h
      · rename_i b1 b2 b3 t3
        split at h
        · rename_i hc
          simp only [Bool.and_eq_true, isCont_iff] at hc
          obtain ⟨⟨hs, hc2⟩, hc3⟩ := hc
          have hs' : (b0.toNat = 0xF0 → 0x90 ≤ b1.toNat ∧ b1.toNat ≤ 0xBF) ∧
              (b0.toNat = 0xF4 → 0x80 ≤ b1.toNat ∧ b1.toNat ≤ 0x8F) ∧
              (0x80 ≤ b1.toNat ∧ b1.toNat ≤ 0xBF) := by
            unfold second4 at hs
            split at hs
            · simp only [Bool.and_eq_true, decide_eq_true_eq] at hs; omega
            split at hs
            · simp only [Bool.and_eq_true, decide_eq_true_eq] at hs; omega
            · simp only [Bool.and_eq_true, decide_eq_true_eq] at hs; omega
          simp only [Option.some.injEq, Prod.mk.injEq] at h
          obtain ⟨rfl, rfl⟩ := h
          refine ⟨by simp only [isScalar, Bool.or_eq_true, Bool.and_eq_true, decide_eq_true_eq]; omega, ?_⟩
          rw [encodeCP, if_neg (by omega), if_neg (by omega), if_neg (by omega)]
          rw [ofNat_eq b0 _ (by omega), ofNat_eq b1 _ (by omega), ofNat_eq b2 _ (by omega),
            ofNat_eq b3 _ (by omega)]; rfl
        · simp at h
      · simp at h
    · simp at h

/-! ### encode / Valid -/

theorem encode_append (a b : List Nat) : encode (a ++ b) = encode a ++ encode b := by
  induction a with
  | nil => rfl
  | cons c cs ih => simp only [List.cons_append, encode, ih, List.append_assoc]

theorem isScalar_le {c : Nat} (h : isScalar c = true) : c ≤ 0x10FFFF := by
  simp only [isScalar, Bool.or_eq_true, Bool.and_eq_true, decide_eq_true_eq] at h; omega

theorem encodeCP_ne_nil (c : Nat) : encodeCP c ≠ [] := by
  unfold encodeCP; repeat' split
  all_goals simp

theorem encodeCP_length_pos (c : Nat) : 0 < (encodeCP c).length :=
  List.length_pos_iff.mpr (encodeCP_ne_nil c)

theorem Valid.nil : Valid [] := ⟨[], by simp, rfl⟩

theorem Valid.append {a b : List UInt8} (ha : Valid a) (hb : Valid b) : Valid (a ++ b) := by
  obtain ⟨ca, ha1, rfl⟩ := ha
  obtain ⟨cb, hb1, rfl⟩ := hb
  refine ⟨ca ++ cb, ?_, (encode_append _ _).symm⟩
  intro c hc
  rcases List.mem_append.mp hc with h | h
  · exact ha1 c h
  · exact hb1 c h

theorem Valid.encodeCP {c : Nat} (h : isScalar c = true) : Valid (encodeCP c) :=
  ⟨[c], by simpa using h, by simp [encode]⟩

theorem Valid.cons_char {c : Nat} {rest : List UInt8} (h : isScalar c = true) (hr : Valid rest) :
    Valid (Utf8.encodeCP c ++ rest) := (Valid.encodeCP h).append hr

theorem Valid.cases {s : List UInt8} (h : Valid s) :
    s = [] ∨ ∃ c rest, isScalar c = true ∧ s = Utf8.encodeCP c ++ rest ∧ Valid rest := by
  obtain ⟨cps, h1, rfl⟩ := h
  cases cps with
  | nil => exact Or.inl rfl
  | cons c cs =>
    exact Or.inr ⟨c, encode cs, h1 c (by simp), rfl, cs, fun x hx => h1 x (by simp [hx]), rfl⟩

/-- Induction over the characters of a valid string. -/
theorem Valid.induction {P : List UInt8 → Prop} (nil : P [])
    (cons : ∀ c rest, isScalar c = true → Valid rest → P rest → P (Utf8.encodeCP c ++ rest))
    {s : List UInt8} (h : Valid s) : P s := by
  obtain ⟨cps, h1, rfl⟩ := h
  induction cps with
  | nil => exact nil
  | cons c cs ih =>
    have hcs : ∀ x ∈ cs, isScalar x = true := fun x hx => h1 x (by simp [hx])
    exact cons c (encode cs) (h1 c (by simp)) ⟨cs, hcs, rfl⟩ (ih hcs)

theorem Valid.head_not_cont {b : UInt8} {t : List UInt8} (h : Valid (b :: t)) : isCont b = false := by
  rcases h.cases with h0 | ⟨c, rest, hc, hs, _⟩
  · simp at h0
  · obtain ⟨b0, tl, he, hb0, _, _⟩ := encodeCP_shape c (isScalar_le hc)
    rw [he] at hs
    simp only [List.cons_append, List.cons.injEq] at hs
    rw [hs.1]; exact hb0

/-! ### decode -/

theorem decodeStep_length {s : List UInt8} {c : Nat} {rest : List UInt8}
    (h : decodeStep s = some (c, rest)) : rest.length < s.length := by
  obtain ⟨_, rfl⟩ := decodeStep_some h
  have := encodeCP_length_pos c
  simp only [List.length_append]; omega

theorem decodeAux_encode (cps : List Nat) (h : ∀ c ∈ cps, isScalar c = true) :
    ∀ fuel, (encode cps).length ≤ fuel → decodeAux fuel (encode cps) = some cps := by
  induction cps with
  | nil => intro fuel _; cases fuel <;> rfl
  | cons c cs ih =>
    intro fuel hf
    have hc := h c (by simp)
    have hpos := encodeCP_length_pos c
    simp only [encode, List.length_append] at hf
    obtain ⟨b0, tl, he, _⟩ := encodeCP_shape c (isScalar_le hc)
    cases fuel with
    | zero => omega
    | succ fuel =>
      have hstep := decodeStep_encodeCP c (encode cs) hc
      simp only [encode]
      rw [he] at hstep ⊢
      simp only [List.cons_append] at hstep ⊢
      simp only [decodeAux, hstep]
      rw [ih (fun x hx => h x (by simp [hx])) fuel (by omega)]

theorem decodeAux_some : ∀ (fuel : Nat) (s : List UInt8) (cps : List Nat),
    decodeAux fuel s = some cps → (∀ c ∈ cps, isScalar c = true) ∧ s = encode cps := by
  intro fuel
  induction fuel with
  | zero =>
    intro s cps h
    cases s with
    | nil => simp only [decodeAux, Option.some.injEq] at h; subst h; exact ⟨by simp, rfl⟩
    | cons b t => simp [decodeAux] at h
  | succ fuel ih =>
    intro s cps h
    cases s with
    | nil => simp only [decodeAux, Option.some.injEq] at h; subst h; exact ⟨by simp, rfl⟩
    | cons b t =>
      simp only [decodeAux] at h
      split at h
      · simp at h
      · rename_i c rest hstep
        split at h
        · simp at h
        · rename_i cs hrec
          simp only [Option.some.injEq] at h; subst h
          obtain ⟨hc, hs⟩ := decodeStep_some hstep
          obtain ⟨hcs, hr⟩ := ih rest cs hrec
          refine ⟨?_, ?_⟩
          · intro x hx
            rcases List.mem_cons.mp hx with rfl | hx
            · exact hc
            · exact hcs x hx
          · rw [hs, hr]; rfl

theorem decode_encode {cps : List Nat} (h : ∀ c ∈ cps, isScalar c = true) :
    decode (encode cps) = some cps := decodeAux_encode cps h _ (Nat.le_refl _)

theorem decode_some {s : List UInt8} {cps : List Nat} (h : decode s = some cps) :
    (∀ c ∈ cps, isScalar c = true) ∧ s = encode cps := decodeAux_some _ _ _ h

theorem decode_eq_some_iff {s : List UInt8} {cps : List Nat} :
    decode s = some cps ↔ (∀ c ∈ cps, isScalar c = true) ∧ s = encode cps :=
  ⟨decode_some, fun ⟨h, hs⟩ => hs ▸ decode_encode h⟩

theorem validate_iff {s : List UInt8} : validate s = true ↔ Valid s := by
  unfold validate
  constructor
  · intro h
    obtain ⟨cps, hc⟩ := Option.isSome_iff_exists.mp h
    exact ⟨cps, decode_some hc⟩
  · rintro ⟨cps, h, rfl⟩
    rw [decode_encode h]; rfl

instance (s : List UInt8) : Decidable (Valid s) := decidable_of_iff _ validate_iff

theorem encode_injective {a b : List Nat} (ha : ∀ c ∈ a, isScalar c = true)
    (hb : ∀ c ∈ b, isScalar c = true) (h : encode a = encode b) : a = b := by
  have h1 := decode_encode ha
  rw [h, decode_encode hb] at h1
  exact (Option.some.inj h1).symm

/-- Left cancellation: a valid prefix of a valid string leaves a valid suffix. -/
theorem Valid.cancel_left {a b : List UInt8} (ha : Valid a) (hab : Valid (a ++ b)) : Valid b := by
  refine Valid.induction (P := fun a => Valid (a ++ b) → Valid b) (fun h => by simpa using h) ?_ ha hab
  intro c rest hc _ ih hab
  apply ih
  rw [List.append_assoc] at hab
  rcases hab.cases with h0 | ⟨c', rest', hc', hs, hr'⟩
  · exact absurd (List.append_eq_nil_iff.mp h0).1 (encodeCP_ne_nil c)
  · have h1 := decodeStep_encodeCP c (rest ++ b) hc
    rw [hs, decodeStep_encodeCP c' rest' hc'] at h1
    simp only [Option.some.injEq, Prod.mk.injEq] at h1
    rw [← h1.2]; exact hr'

end Yarel.Utf8
