/-
Unfolding lemmas for `importWith` / `stepWith` and attribute-table facts used by the C14 headline theorems.
-/
import Yarel.Proofs.ModulesExec

namespace Yarel.Modules

attribute [local irreducible] seedAttrs

/-! ### attribute tables -/

theorem attrsOf_setAttr_self {st : State} {q : Nat} (a : Nat) (v : Val) (h : isReg st.registry q = true) :
    (st.setAttr q a v).attrsOf q = aset (st.attrsOf q) a v := by
  obtain ⟨e, he⟩ := isReg_eq_true.mp h
  simp [State.attrsOf, State.setAttr, aget_amod, he, ModEntry.setAttr]

theorem attrsOf_setAttr_ne (st : State) {q q' : Nat} (a : Nat) (v : Val) (h : q' ≠ q) :
    (st.setAttr q a v).attrsOf q' = st.attrsOf q' := by
  simp [State.attrsOf, State.setAttr, aget_amod_ne _ _ h]

theorem getAttr_setAttr_self {st : State} {q : Nat} (a : Nat) (v : Val) (h : isReg st.registry q = true) :
    (st.setAttr q a v).getAttr q a = some v := by
  obtain ⟨e, he⟩ := isReg_eq_true.mp h
  simp [State.getAttr, State.setAttr, aget_amod, he, ModEntry.setAttr, aget_aset]

theorem getAttr_eq_aget_attrsOf (st : State) (q a : Nat) : st.getAttr q a = aget (st.attrsOf q) a := by
  unfold State.getAttr State.attrsOf
  cases aget st.registry q <;> simp

theorem attrsOf_congr {st st' : State} {q : Nat} (h : aget st'.registry q = aget st.registry q) :
    st'.attrsOf q = st.attrsOf q := by
  unfold State.attrsOf; rw [h]

@[simp] theorem attrsOf_logEv (st : State) (ev : Event) (q : Nat) : (st.logEv ev).attrsOf q = st.attrsOf q := rfl

theorem getGlobal_enterBody {st : State} {p : Nat} (hp : isReg st.registry p = false) {b : Nat} (hb : b < numBuiltins) :
    ((st.register p).enterBody p).getGlobal b = some (.builtin b) := by
  have hnone : aget st.registry p = none := by simpa [isReg] using hp
  simp [State.getGlobal, State.getAttr, State.enterBody, State.register, aget_amod,
    aget_append_single_self _ _ _ hnone, ModEntry.seed, aget_seedAttrs, hb]

theorem getGlobal_boot {b : Nat} (hb : b < numBuiltins) : boot.getGlobal b = some (.builtin b) := by
  simp [State.getGlobal, State.getAttr, boot, aget_cons, ModEntry.seed, aget_seedAttrs, hb]

/-! ### unfolding `importWith` -/

theorem importWith_cached {cfg : Cfg} {run : State → List Action → Outcome} {st : State} {p : Nat}
    (h : isImported st.registry p = true) : importWith cfg run st p = .ok st := by
  obtain ⟨e, he, hi⟩ := isImported_eq_true.mp h
  simp [importWith, he, hi]

theorem importWith_loading {cfg : Cfg} {run : State → List Action → Outcome} {st : State} {p : Nat}
    (h : isLoading st.registry p = true) : importWith cfg run st p = .err (.circular p) st := by
  obtain ⟨e, he, hi⟩ := isLoading_eq_true.mp h
  simp [importWith, he, hi]

theorem importWith_notFound {cfg : Cfg} {run : State → List Action → Outcome} {st : State} {p : Nat}
    (h : isReg st.registry p = false) (hl : cfg.load p = .notFound) : importWith cfg run st p = .err (.loader p) st := by
  have hnone : aget st.registry p = none := by simpa [isReg] using h
  simp [importWith, hnone, hl]

theorem importWith_compileError {cfg : Cfg} {run : State → List Action → Outcome} {st : State} {p : Nat}
    (h : isReg st.registry p = false) (hl : cfg.load p = .compileError) :
    importWith cfg run st p = .err (.compile p) st := by
  have hnone : aget st.registry p = none := by simpa [isReg] using h
  simp [importWith, hnone, hl]

theorem importWith_fresh {cfg : Cfg} {run : State → List Action → Outcome} {st : State} {p : Nat} {acts : List Action}
    (h : isReg st.registry p = false) (hl : cfg.load p = .body acts) :
    importWith cfg run st p =
      if st.callers.length + 1 = cfg.framesMax then .err .stackOverflow (st.register p)
      else match run ((st.register p).enterBody p) acts with
        | .ok st3 => .ok (State.finishImport st st3 p)
        | .err e st3 => .err e (State.abortImport st st3 p e)
        | .outOfFuel => .outOfFuel := by
  have hnone : aget st.registry p = none := by simpa [isReg] using h
  simp only [importWith, hnone, hl]
  rfl

/-- an import that fails after the module was registered leaves it registered and not imported. -/
theorem importWith_fresh_err_loading {cfg : Cfg} {fuel : Nat} {st : State} {p : Nat} {acts : List Action}
    (hinv : Inv st) (h : isReg st.registry p = false) (hl : cfg.load p = .body acts) {e : Err} {st' : State}
    (hr : startImport cfg fuel st p = .err e st') : isLoading st'.registry p = true := by
  unfold startImport at hr
  rw [importWith_fresh h hl] at hr
  split at hr
  · cases hr
    exact isLoading_append_self h rfl
  · have hpost := exec_post cfg fuel _ acts (hinv.enter h)
    split at hr
    · cases hr
    · rename_i e3 st3 h3
      cases hr
      rw [h3] at hpost
      have := hpost.1.active_loading
      rw [hpost.2.1.active] at this
      exact this
    · cases hr

/-! ### unfolding `stepWith` -/

theorem stepWith_define {cfg : Cfg} {run : State → List Action → Outcome} {st : State} {ent : ModEntry}
    (h : aget st.registry st.active = some ent) (n v : Nat) :
    stepWith cfg run st (.define n v) = .ok (st.setGlobal n (.num v)) := by
  unfold stepWith; simp only [h] <;> rfl

theorem stepWith_assign {cfg : Cfg} {run : State → List Action → Outcome} {st : State} {ent : ModEntry}
    (h : aget st.registry st.active = some ent) (n v : Nat) :
    stepWith cfg run st (.assign n v) =
      match aget ent.attrs n with
      | some _ => .ok (st.setGlobal n (.num v))
      | none => .err (.undefinedVar n) st := by
  unfold stepWith; simp only [h] <;> rfl

theorem stepWith_readGlobal {cfg : Cfg} {run : State → List Action → Outcome} {st : State} {ent : ModEntry}
    (h : aget st.registry st.active = some ent) (n : Nat) :
    stepWith cfg run st (.readGlobal n) =
      match aget ent.attrs n with
      | some v => .ok (st.logEv (.readG st.active n v))
      | none => .err (.undefinedVar n) st := by
  unfold stepWith; simp only [h] <;> rfl

theorem stepWith_importMod {cfg : Cfg} {run : State → List Action → Outcome} {st : State} {ent : ModEntry}
    (h : aget st.registry st.active = some ent) (p b : Nat) :
    stepWith cfg run st (.importMod p b) =
      match importWith cfg run st p with
      | .ok st' => .ok (st'.bindImport b p)
      | o => o := by
  unfold stepWith; simp only [h] <;> rfl

theorem stepWith_tryImport {cfg : Cfg} {run : State → List Action → Outcome} {st : State} {ent : ModEntry}
    (h : aget st.registry st.active = some ent) (p b : Nat) :
    stepWith cfg run st (.tryImport p b) =
      match importWith cfg run st p with
      | .ok st' => .ok (st'.bindImport b p)
      | .err e st' => .ok (st'.catchImport e)
      | .outOfFuel => .outOfFuel := by
  unfold stepWith; simp only [h] <;> rfl

theorem stepWith_setAttr_handle {cfg : Cfg} {run : State → List Action → Outcome} {st : State} {ent tgt : ModEntry}
    {x q : Nat} (h : aget st.registry st.active = some ent) (hx : aget ent.attrs x = some (.module q))
    (hq : aget st.registry q = some tgt) (a v : Nat) :
    stepWith cfg run st (.setAttr x a v) = .ok (st.setAttr q a (.num v)) := by
  unfold stepWith; simp only [h, hx, hq] <;> rfl

theorem stepWith_readAttr_handle {cfg : Cfg} {run : State → List Action → Outcome} {st : State} {ent tgt : ModEntry}
    {x q : Nat} (h : aget st.registry st.active = some ent) (hx : aget ent.attrs x = some (.module q))
    (hq : aget st.registry q = some tgt) (a : Nat) :
    stepWith cfg run st (.readAttr x a) =
      match aget tgt.attrs a with
      | some v => .ok (st.logEv (.readA st.active q a v))
      | none => .err (.noProperty a) st := by
  unfold stepWith; simp only [h, hx, hq] <;> rfl

theorem Inv.active_entry {st : State} (h : Inv st) : ∃ ent, aget st.registry st.active = some ent := by
  obtain ⟨ent, hent, -⟩ := isLoading_eq_true.mp h.active_loading
  exact ⟨ent, hent⟩

theorem getGlobal_of_entry {st : State} {ent : ModEntry} (h : aget st.registry st.active = some ent) (n : Nat) :
    st.getGlobal n = aget ent.attrs n := by
  simp [State.getGlobal, State.getAttr, h]

theorem attrsOf_bindImport {st : State} (b p : Nat) (h : isReg st.registry st.active = true) :
    (st.bindImport b p).attrsOf st.active = aset (st.attrsOf st.active) b (.module p) := by
  simp only [State.bindImport, attrsOf_logEv, State.setGlobal]
  exact attrsOf_setAttr_self b (.module p) h

theorem getGlobal_bindImport {st : State} (b p : Nat) (h : isReg st.registry st.active = true) :
    (st.bindImport b p).getGlobal b = some (.module p) := by
  have := getAttr_setAttr_self (st := st) b (.module p) h
  simpa [State.bindImport, State.getGlobal, State.logEv, State.setGlobal, State.getAttr, State.setAttr] using this

end Yarel.Modules
