/-
Specification-level vocabulary for the collector theorems (no proofs of substance here).
-/
import Yarel.Model.Gc

namespace Yarel.Gc

/-- box `i` exists and has `num_roots > 0` -/
def Rooted (h : Heap) (i : Nat) : Prop := ∃ o, h[i]? = some o ∧ 0 < o.roots

/-- reachable from the rooted boxes along ALL pointers (traced or not) -/
inductive Reach (h : Heap) : Nat → Prop
  | root {i : Nat} : Rooted h i → Reach h i
  | edge {i : Nat} {o : Obj} {e : Edge} : Reach h i → h[i]? = some o → e ∈ o.edges → Reach h e.target

/-- `CallReach h op i`: the collector can possibly invoke `GcBox::<op>` on box `i`:
* `mark_roots` marks rooted boxes;
* `trace_references` blackens boxes that were marked;
* the body of `<op>` on `i` invokes `op'` on the target of every pointer `e` with `e.sel op = some op'`
  (`inMark` for `op = mark`, `inBlacken` for `op = blacken`).
In the well-formed shape this is "a path along `inMark` pointers followed by a path along `inBlacken` pointers". -/
inductive CallReach (h : Heap) : TraceOp → Nat → Prop
  | root {i : Nat} : Rooted h i → CallReach h .mark i
  | pass {i : Nat} : CallReach h .mark i → CallReach h .blacken i
  | edge {op op' : TraceOp} {i : Nat} {o : Obj} {e : Edge} :
      CallReach h op i → h[i]? = some o → e ∈ o.edges → e.sel op = some op' → CallReach h op' e.target

/-- reachable along traced pointers: `blacken` can be invoked on `i` -/
def ReachTraced (h : Heap) (i : Nat) : Prop := CallReach h .blacken i

/-- every pointer is traced by the owner's `blacken()` (with any op) or points at a rooted box -/
def Covered (h : Heap) : Prop :=
  ∀ (i : Nat) (o : Obj) (e : Edge), h[i]? = some o → e ∈ o.edges → e.inBlacken.isSome ∨ Rooted h e.target

/-- every pointer is traced by the owner's `mark()` with op `mark`, or points at a rooted box -/
def MarkCovered (h : Heap) : Prop :=
  ∀ (i : Nat) (o : Obj) (e : Edge), h[i]? = some o → e ∈ o.edges → e.inMark = some .mark ∨ Rooted h e.target

/-- every pointer points into the heap -/
def Closed (h : Heap) : Prop := ∀ (i : Nat) (o : Obj) (e : Edge), h[i]? = some o → e ∈ o.edges → e.target < h.size

/-- the well-formed schema shape: `mark()` bodies only mark, `blacken()` bodies only blacken -/
def WellFormed (h : Heap) : Prop :=
  ∀ (i : Nat) (o : Obj) (e : Edge), h[i]? = some o → e ∈ o.edges → e.inBlacken ≠ some .mark ∧ e.inMark ≠ some .blacken

theorem isRoot_iff {h : Heap} {i : Nat} : isRoot h i = true ↔ Rooted h i := by
  unfold isRoot Rooted
  cases hh : h[i]? with
  | none => simp
  | some o => simp

/-- `π` maps the object graph of `h` into that of `h'` (same rootedness, every pointer has a counterpart);
with `π = id` this says `h'` has the pointers of `h` possibly in another order / with other trace ops -/
def GraphMap (π : Nat → Nat) (h h' : Heap) : Prop :=
  ∀ (i : Nat) (o : Obj), h[i]? = some o → ∃ o', h'[π i]? = some o' ∧ (0 < o.roots → 0 < o'.roots) ∧
    ∀ e ∈ o.edges, ∃ e' ∈ o'.edges, e'.target = π e.target

/-- Σ of the sizes of all boxes = `bytes_allocated` (heap invariant of `allocate_raw`/`collect`) -/
def heapBytes (h : Heap) : Nat := ((List.range h.size).map (sizeAt h)).sum

def NoGrey (cols : Array Colour) : Prop := ∀ i : Nat, cols[i]? ≠ some Colour.grey

def NonWhite (cols : Array Colour) (i : Nat) : Prop := cols[i]? = some .grey ∨ cols[i]? = some .black

/-! typing of raw heaps against a field table (`Schema.blackenCovers`) -/

/-- each pointer's target exists and `(field, kind of target)` is allowed for the owner's kind -/
def WellTyped (kinds : List Nat) (fields : Nat → List (Nat × List Nat)) (h : RawHeap) : Prop :=
  ∀ (i : Nat) (o : RawObj), h[i]? = some o → o.kind ∈ kinds ∧
    ∀ e ∈ o.edges, ∃ t, h[e.target]? = some t ∧ ∃ ft ∈ fields o.kind, ft.1 = e.field ∧ t.kind ∈ ft.2

/-- pointers of an exempt `(kind, field, targetKind)` class point at rooted boxes -/
def ExemptRooted (exempt : List (Nat × Nat × Nat)) (h : RawHeap) : Prop :=
  ∀ (i : Nat) (o : RawObj) (e : RawEdge) (t : RawObj), h[i]? = some o → e ∈ o.edges → h[e.target]? = some t →
    (o.kind, e.field, t.kind) ∈ exempt → 0 < t.roots

end Yarel.Gc
