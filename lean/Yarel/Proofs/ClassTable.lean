/-
Helper lemmas for Yarel/Model/ClassTable.lean: association tables, the fold of method definitions of a class
body, the closed form of a successful class statement, the store invariant `WF` and its preservation.
-/
import Yarel.Model.ClassTable

namespace Yarel.ClassTable

/-! ## Tables -/
section Assoc
variable {α : Type}

theorem tget_remove (t : List (Name × α)) (n k : Name) :
    tget (tremove t n) k = if k = n then none else tget t k := by
  induction t with
  | nil => simp [tremove, tget]
  | cons p t ih =>
    obtain ⟨a, v⟩ := p
    unfold tremove at ih ⊢
    by_cases h : a = n
    · subst h
      simp only [List.filter_cons, bne_self_eq_false, Bool.false_eq_true, ↓reduceIte, ih, tget]
      by_cases hk : k = a
      · subst hk; simp
      · have : ¬ a = k := fun e => hk e.symm
        simp [hk, this]
    · have hb : (a != n) = true := by simp [h]
      simp only [List.filter_cons, hb, ↓reduceIte, tget, ih]
      by_cases hk : a = k
      · subst hk; simp [h]
      · simp [hk]

theorem tget_insert (t : List (Name × α)) (n k : Name) (v : α) :
    tget (tinsert t n v) k = if k = n then some v else tget t k := by
  unfold tinsert
  simp only [tget, tget_remove]
  by_cases h : n = k
  · subst h; simp
  · have : ¬ k = n := fun e => h e.symm
    simp [h, this]

theorem tget_merge (dst src : List (Name × α)) (k : Name) :
    tget (tmerge dst src) k = (tget src k).or (tget dst k) := by
  induction src with
  | nil => simp [tmerge, tget]
  | cons p src ih =>
    obtain ⟨a, v⟩ := p
    have : tmerge dst ((a, v) :: src) = tinsert (tmerge dst src) a v := rfl
    rw [this, tget_insert, ih]
    simp only [tget]
    by_cases h : a = k
    · subst h; simp
    · have : ¬ k = a := fun e => h e.symm
      simp [h, this]

end Assoc

/-! ## The method definitions of a class body -/

def addDecl (sup : Option ClassId) (w : ClassDef) (d : MethodDecl) : ClassDef :=
  w.addMethod d.name (mkMethod sup d) d.isStatic

def foldDecls (sup : Option ClassId) (w : ClassDef) (ds : List MethodDecl) : ClassDef :=
  ds.foldl (addDecl sup) w

theorem defineAll_eq (sup : Option ClassId) (ds : List MethodDecl) (st : State) (w : ClassDef)
    (h : st.working = some w) :
    defineAll st sup ds = .ok { st with working := some (foldDecls sup w ds) } := by
  induction ds generalizing st w with
  | nil => cases st; simp_all [defineAll, foldDecls]
  | cons d ds ih =>
    simp only [defineAll, defineMethod, h]
    rw [ih _ (w.addMethod d.name (mkMethod sup d) d.isStatic) rfl]
    simp [foldDecls, addDecl]

theorem fold_frame (sup : Option ClassId) (ds : List MethodDecl) (w : ClassDef) :
    (foldDecls sup w ds).cls.name = w.cls.name ∧ (foldDecls sup w ds).cls.superclass = w.cls.superclass ∧
    (foldDecls sup w ds).cls.metaclass = w.cls.metaclass ∧
    (foldDecls sup w ds).mcls.name = w.mcls.name ∧ (foldDecls sup w ds).mcls.superclass = w.mcls.superclass ∧
    (foldDecls sup w ds).mcls.metaclass = w.mcls.metaclass := by
  induction ds generalizing w with
  | nil => simp [foldDecls]
  | cons d ds ih =>
    have := ih (addDecl sup w d)
    simp only [foldDecls, List.foldl_cons] at this ⊢
    refine ⟨this.1, this.2.1, this.2.2.1, ?_, ?_, ?_⟩
    · rw [this.2.2.2.1]; simp only [addDecl, ClassDef.addMethod]; split <;> rfl
    · rw [this.2.2.2.2.1]; simp only [addDecl, ClassDef.addMethod]; split <;> rfl
    · rw [this.2.2.2.2.2]; simp only [addDecl, ClassDef.addMethod]; split <;> rfl

theorem fold_cls_methods (sup : Option ClassId) (ds : List MethodDecl) (w : ClassDef) (k : Name) :
    tget (foldDecls sup w ds).cls.methods k
      = ((lastDecl ds k).map (mkMethod sup)).or (tget w.cls.methods k) := by
  induction ds generalizing w with
  | nil => simp [foldDecls, lastDecl]
  | cons d ds ih =>
    have := ih (addDecl sup w d)
    simp only [foldDecls, List.foldl_cons] at this ⊢
    rw [this]
    simp only [lastDecl, addDecl, ClassDef.addMethod, tget_insert]
    cases lastDecl ds k with
    | some x => simp
    | none =>
      by_cases h : d.name = k
      · subst h; simp
      · have : ¬ k = d.name := fun e => h e.symm
        simp [h, this]

theorem fold_cls_own (sup : Option ClassId) (ds : List MethodDecl) (w : ClassDef) (k : Name) :
    tget (foldDecls sup w ds).cls.own k
      = ((lastDecl ds k).map (mkMethod sup)).or (tget w.cls.own k) := by
  induction ds generalizing w with
  | nil => simp [foldDecls, lastDecl]
  | cons d ds ih =>
    have := ih (addDecl sup w d)
    simp only [foldDecls, List.foldl_cons] at this ⊢
    rw [this]
    simp only [lastDecl, addDecl, ClassDef.addMethod, tget_insert]
    cases lastDecl ds k with
    | some x => simp
    | none =>
      by_cases h : d.name = k
      · subst h; simp
      · have : ¬ k = d.name := fun e => h e.symm
        simp [h, this]

/-- What a class body leaves in the metaclass table for name `k`. -/
def metaEntry (sup : Option ClassId) (ds : List MethodDecl) (k : Name) (dflt : Option Method) : Option Method :=
  match lastDecl ds k with
  | some d => if d.isStatic then some (mkMethod sup d) else none
  | none => dflt

theorem fold_meta_methods (sup : Option ClassId) (ds : List MethodDecl) (w : ClassDef) (k : Name) :
    tget (foldDecls sup w ds).mcls.methods k = metaEntry sup ds k (tget w.mcls.methods k) := by
  induction ds generalizing w with
  | nil => simp [foldDecls, metaEntry, lastDecl]
  | cons d ds ih =>
    have := ih (addDecl sup w d)
    simp only [foldDecls, List.foldl_cons] at this ⊢
    rw [this]
    simp only [metaEntry, lastDecl]
    cases lastDecl ds k with
    | some x => simp
    | none =>
      simp only [Option.none_or, addDecl, ClassDef.addMethod]
      by_cases h : d.name = k
      · subst h
        cases hs : d.isStatic <;> simp [hs, tget_insert, tget_remove]
      · have : ¬ k = d.name := fun e => h e.symm
        cases hs : d.isStatic <;> simp [h, this, tget_insert, tget_remove]

theorem fold_meta_own (sup : Option ClassId) (ds : List MethodDecl) (w : ClassDef) (k : Name) :
    tget (foldDecls sup w ds).mcls.own k = metaEntry sup ds k (tget w.mcls.own k) := by
  induction ds generalizing w with
  | nil => simp [foldDecls, metaEntry, lastDecl]
  | cons d ds ih =>
    have := ih (addDecl sup w d)
    simp only [foldDecls, List.foldl_cons] at this ⊢
    rw [this]
    simp only [metaEntry, lastDecl]
    cases lastDecl ds k with
    | some x => simp
    | none =>
      simp only [Option.none_or, addDecl, ClassDef.addMethod]
      by_cases h : d.name = k
      · subst h
        cases hs : d.isStatic <;> simp [hs, tget_insert, tget_remove]
      · have : ¬ k = d.name := fun e => h e.symm
        cases hs : d.isStatic <;> simp [h, this, tget_insert, tget_remove]

/-! ## Closed form of a class statement -/

/-- The two objects as `DeclareClass` leaves them. -/
def freshDef (O : ClassObj) (name : Name) : ClassDef :=
  { cls := { name := .plain name, metaclass := typeId, superclass := some objectId, methods := O.methods, own := [] },
    mcls := { name := .metaOf name, metaclass := typeId, superclass := some objectId, methods := O.methods, own := [] } }

/-- The two objects when the body starts (after `Inherit`, if any); `none` if the statement fails before. -/
def baseDef (st : State) (env : Env) (d : ClassDecl) (O : ClassObj) : Option ClassDef :=
  match d.derive with
  | none => some (freshDef O d.name)
  | some _ =>
    match superOf env d with
    | none => none
    | some s =>
      match st.classes[s]? with
      | none => none
      | some S =>
        some { freshDef O d.name with
          cls := { (freshDef O d.name).cls with superclass := some s, methods := tmerge O.methods S.methods } }

/-- The two objects when `DefineClass` executes. -/
def finalDef (env : Env) (d : ClassDecl) (w0 : ClassDef) : ClassDef :=
  foldDecls (superOf env d) w0 d.allDecls

theorem execClass_some (st : State) (env : Env) (d : ClassDecl) (O : ClassObj) (w0 : ClassDef)
    (hO : st.classes[0]? = some O) (hb : baseDef st env d O = some w0) :
    execClass st env d =
      ({ st with classes := st.classes ++ [(finalDef env d w0).mcls,
                    { (finalDef env d w0).cls with metaclass := st.classes.length }],
                 working := none },
       tinsert (tinsert env d.name nilVal) d.name (.cls (st.classes.length + 1)),
       .ok (st.classes.length + 1)) := by
  have hO' : st.classes[objectId]? = some O := hO
  unfold baseDef at hb
  unfold execClass
  simp only [declare, hO']
  cases hd : d.derive with
  | none =>
    simp only [hd] at hb
    cases hb
    simp only []
    rw [defineAll_eq _ _ _ (freshDef O d.name) rfl]
    simp [define, finalDef, freshDef]
  | some x =>
    simp only [hd] at hb
    cases hs : superOf env d with
    | none => simp [hs] at hb
    | some s =>
      simp only [hs] at hb
      cases hS : st.classes[s]? with
      | none => simp [hS] at hb
      | some S =>
        simp only [hS] at hb
        cases hb
        have hx : tget (tinsert env d.name nilVal) x = some (.cls s) := by
          unfold superOf at hs
          simp only [hd] at hs
          split at hs
          · rename_i s' h; cases hs; exact h
          · cases hs
        simp only [hx, inherit, hS]
        rw [defineAll_eq _ _ _ _ rfl]
        simp [define, finalDef, freshDef, hs]

theorem execClass_none (st : State) (env : Env) (d : ClassDecl) (O : ClassObj)
    (hO : st.classes[0]? = some O) (hb : baseDef st env d O = none) :
    (execClass st env d).1.classes = st.classes ∧ (execClass st env d).1.insts = st.insts ∧
    ∀ c, (execClass st env d).2.2 ≠ .ok c := by
  have hO' : st.classes[objectId]? = some O := hO
  unfold baseDef at hb
  unfold execClass
  simp only [declare, hO']
  cases hd : d.derive with
  | none => simp [hd] at hb
  | some x =>
    simp only [hd] at hb
    cases hx : tget (tinsert env d.name nilVal) x with
    | none => simp [hx]
    | some v =>
      cases v with
      | cls s =>
        have hs : superOf env d = some s := by simp [superOf, hd, hx]
        simp only [hs] at hb
        cases hS : st.classes[s]? with
        | none => simp [hx, inherit, hS]
        | some S => simp [hS] at hb
      | inst i => simp [hx, inherit]
      | method m => simp [hx, inherit]
      | bound r m => simp [hx, inherit]
      | other k => simp [hx, inherit]

/-! ## The store invariant -/

/-- Object's method table. -/
def objM (st : State) : List (Name × Method) :=
  match st.classes[0]? with
  | some O => O.methods
  | none => []

/-- Well-formed class store / heap. It speaks about `classes` and `insts` only. -/
structure WF (st : State) : Prop where
  obj : ∃ O, st.classes[0]? = some O ∧ O.superclass = none ∧ O.own = O.methods ∧ O.name.isMeta = false
  /-- the built-in classes (ids 0..6) exist -/
  hasType : 6 < st.classes.length
  /-- a superclass exists before its subclasses: ancestry chains are finite -/
  super_lt : ∀ (c : ClassId) (C : ClassObj), st.classes[c]? = some C → ∀ s, C.superclass = some s → s < c
  /-- Object is the only root -/
  root : ∀ (c : ClassId) (C : ClassObj), st.classes[c]? = some C → C.superclass = none → c = 0
  /-- copy-down: the table of a (non-meta) class is its own definitions over its superclass's table (over Object's) -/
  table : ∀ (c : ClassId) (C : ClassObj), st.classes[c]? = some C → C.name.isMeta = false → ∀ s, C.superclass = some s →
    ∃ S : ClassObj, st.classes[s]? = some S ∧
      ∀ k, tget C.methods k = (tget C.own k).or ((tget S.methods k).or (tget (objM st) k))
  /-- a non-meta class never lacks a name Object has -/
  covers : ∀ (c : ClassId) (C : ClassObj), st.classes[c]? = some C → C.name.isMeta = false →
    ∀ k, tget C.methods k = none → tget (objM st) k = none
  /-- a metaclass is a direct subclass of Object holding only what its class's body put there (a non-static
  definition may have REMOVED an Object method from it) -/
  metaOK : ∀ (c : ClassId) (C : ClassObj), st.classes[c]? = some C → C.name.isMeta = true →
    C.superclass = some 0 ∧
      ∀ k, (tget C.methods k).or (tget (objM st) k) = (tget C.own k).or (tget (objM st) k)
  metaValid : ∀ (c : ClassId) (C : ClassObj), st.classes[c]? = some C → C.metaclass < st.classes.length
  instValid : ∀ (i : InstId) (I : InstObj), st.insts[i]? = some I → I.cls < st.classes.length
  /-- the `super` upvalue of a closure defined in a class body is that class's declared superclass -/
  superCap : ∀ (c : ClassId) (C : ClassObj), st.classes[c]? = some C → C.name.isMeta = false →
    ∀ k m, tget C.own k = some m → m.superCap = none ∨ m.superCap = C.superclass

theorem getElem?_append_two {α : Type} (l : List α) (a b x : α) (c : Nat)
    (h : (l ++ [a, b])[c]? = some x) :
    l[c]? = some x ∨ (c = l.length ∧ x = a) ∨ (c = l.length + 1 ∧ x = b) := by
  by_cases h1 : c < l.length
  · left; rwa [List.getElem?_append_left h1] at h
  · right
    rw [List.getElem?_append_right (by omega)] at h
    by_cases h2 : c = l.length
    · left; subst h2; simp at h; exact ⟨rfl, h.symm⟩
    · by_cases h3 : c = l.length + 1
      · right; subst h3; simp at h; exact ⟨rfl, h.symm⟩
      · exfalso
        have : 2 ≤ c - l.length := by omega
        rw [List.getElem?_eq_none (by simpa using this)] at h
        cases h

theorem getElem?_append_mono {α : Type} (l e : List α) (x : α) (c : Nat) (h : l[c]? = some x) :
    (l ++ e)[c]? = some x := by
  have hc : c < l.length := by
    rcases Nat.lt_or_ge c l.length with h1 | h1
    · exact h1
    · rw [List.getElem?_eq_none h1] at h; cases h
  rwa [List.getElem?_append_left hc]

theorem objM_append (st : State) (e : List ClassObj) (w : Option ClassDef) (h : 0 < st.classes.length) :
    objM { st with classes := st.classes ++ e, working := w } = objM st := by
  unfold objM
  simp only
  rw [List.getElem?_append_left h]

theorem wf_init : WF State.init := by
  constructor
  · exact ⟨_, rfl, rfl, rfl, rfl⟩
  · decide
  · intro c C h s hs
    have : c < 7 := by
      rcases Nat.lt_or_ge c 7 with h1 | h1
      · exact h1
      · rw [List.getElem?_eq_none (by simpa [State.init] using h1)] at h; cases h
    match c, this with
    | 0, _ => cases h; cases hs
    | 1, _ | 2, _ | 3, _ | 4, _ | 5, _ | 6, _ => cases h; cases hs; decide
  · intro c C h hs
    have : c < 7 := by
      rcases Nat.lt_or_ge c 7 with h1 | h1
      · exact h1
      · rw [List.getElem?_eq_none (by simpa [State.init] using h1)] at h; cases h
    match c, this with
    | 0, _ => rfl
    | 1, _ | 2, _ | 3, _ | 4, _ | 5, _ | 6, _ => cases h; cases hs
  · intro c C h hn s hs
    have : c < 7 := by
      rcases Nat.lt_or_ge c 7 with h1 | h1
      · exact h1
      · rw [List.getElem?_eq_none (by simpa [State.init] using h1)] at h; cases h
    match c, this with
    | 0, _ => cases h; cases hs
    | 1, _ | 2, _ | 3, _ | 4, _ | 5, _ | 6, _ =>
      cases h; cases hs
      refine ⟨_, rfl, ?_⟩
      intro k
      simp only [builtinClass, objM, State.init, List.getElem?_cons_zero, tget, Option.none_or, Option.or_self]
  · intro c C h hn k hk
    have : c < 7 := by
      rcases Nat.lt_or_ge c 7 with h1 | h1
      · exact h1
      · rw [List.getElem?_eq_none (by simpa [State.init] using h1)] at h; cases h
    match c, this with
    | 0, _ | 1, _ | 2, _ | 3, _ | 4, _ | 5, _ | 6, _ => cases h; exact hk
  · intro c C h hn
    have : c < 7 := by
      rcases Nat.lt_or_ge c 7 with h1 | h1
      · exact h1
      · rw [List.getElem?_eq_none (by simpa [State.init] using h1)] at h; cases h
    match c, this with
    | 0, _ | 1, _ | 2, _ | 3, _ | 4, _ | 5, _ | 6, _ => cases h; cases hn
  · intro c C h
    have : c < 7 := by
      rcases Nat.lt_or_ge c 7 with h1 | h1
      · exact h1
      · rw [List.getElem?_eq_none (by simpa [State.init] using h1)] at h; cases h
    match c, this with
    | 0, _ | 1, _ | 2, _ | 3, _ | 4, _ | 5, _ | 6, _ => cases h; decide
  · intro i I h; cases h
  · intro c C h hn k m hm
    have : c < 7 := by
      rcases Nat.lt_or_ge c 7 with h1 | h1
      · exact h1
      · rw [List.getElem?_eq_none (by simpa [State.init] using h1)] at h; cases h
    match c, this with
    | 0, _ =>
      cases h
      simp only [objectMethods, tget] at hm
      split at hm
      · cases hm; left; rfl
      · cases hm
    | 1, _ | 2, _ | 3, _ | 4, _ | 5, _ | 6, _ => cases h; cases hm

theorem wf_extend (st : State) (M K : ClassObj) (h : WF st)
    (hMname : M.name.isMeta = true) (hMsup : M.superclass = some 0)
    (hMtab : ∀ k, (tget M.methods k).or (tget (objM st) k) = (tget M.own k).or (tget (objM st) k))
    (hMmeta : M.metaclass < st.classes.length)
    (hKname : K.name.isMeta = false)
    (hKsup : ∃ s S, K.superclass = some s ∧ st.classes[s]? = some S ∧
      ∀ k, tget K.methods k = (tget K.own k).or ((tget S.methods k).or (tget (objM st) k)))
    (hKcov : ∀ k, tget K.methods k = none → tget (objM st) k = none)
    (hKmeta : K.metaclass = st.classes.length)
    (hKcap : ∀ k m, tget K.own k = some m → m.superCap = none ∨ m.superCap = K.superclass) :
    WF { st with classes := st.classes ++ [M, K], working := none } := by
  have hpos : 0 < st.classes.length := Nat.lt_trans (by decide) h.hasType
  have hobj := objM_append st [M, K] none hpos
  obtain ⟨sK, SK, hKs, hSK, hKtab⟩ := hKsup
  have hsK : sK < st.classes.length := by
    rcases Nat.lt_or_ge sK st.classes.length with h1 | h1
    · exact h1
    · rw [List.getElem?_eq_none h1] at hSK; cases hSK
  constructor
  · obtain ⟨O, hO, h1, h2, h3⟩ := h.obj
    exact ⟨O, getElem?_append_mono _ _ _ _ hO, h1, h2, h3⟩
  · simp only [List.length_append]; have := h.hasType; omega
  · intro c C hc s hs
    rcases getElem?_append_two _ _ _ _ _ hc with h1 | ⟨rfl, rfl⟩ | ⟨rfl, rfl⟩
    · exact h.super_lt c C h1 s hs
    · rw [hMsup] at hs; cases hs; exact hpos
    · rw [hKs] at hs; cases hs; exact Nat.lt_succ_of_lt hsK
  · intro c C hc hs
    rcases getElem?_append_two _ _ _ _ _ hc with h1 | ⟨rfl, rfl⟩ | ⟨rfl, rfl⟩
    · exact h.root c C h1 hs
    · rw [hMsup] at hs; cases hs
    · rw [hKs] at hs; cases hs
  · intro c C hc hn s hs
    rw [hobj]
    rcases getElem?_append_two _ _ _ _ _ hc with h1 | ⟨rfl, rfl⟩ | ⟨rfl, rfl⟩
    · obtain ⟨S, hS, ht⟩ := h.table c C h1 hn s hs
      exact ⟨S, getElem?_append_mono _ _ _ _ hS, ht⟩
    · rw [hMname] at hn; cases hn
    · rw [hKs] at hs; cases hs
      exact ⟨SK, getElem?_append_mono _ _ _ _ hSK, hKtab⟩
  · intro c C hc hn k hk
    rw [hobj]
    rcases getElem?_append_two _ _ _ _ _ hc with h1 | ⟨rfl, rfl⟩ | ⟨rfl, rfl⟩
    · exact h.covers c C h1 hn k hk
    · rw [hMname] at hn; cases hn
    · exact hKcov k hk
  · intro c C hc hn
    rw [hobj]
    rcases getElem?_append_two _ _ _ _ _ hc with h1 | ⟨rfl, rfl⟩ | ⟨rfl, rfl⟩
    · exact h.metaOK c C h1 hn
    · exact ⟨hMsup, hMtab⟩
    · rw [hKname] at hn; cases hn
  · intro c C hc
    simp only [List.length_append, List.length_cons, List.length_nil]
    rcases getElem?_append_two _ _ _ _ _ hc with h1 | ⟨rfl, rfl⟩ | ⟨rfl, rfl⟩
    · exact Nat.lt_of_lt_of_le (h.metaValid c C h1) (by omega)
    · exact Nat.lt_of_lt_of_le hMmeta (by omega)
    · rw [hKmeta]; exact Nat.lt_add_of_pos_right (by decide)
  · intro i I hi
    simp only [List.length_append, List.length_cons, List.length_nil]
    exact Nat.lt_of_lt_of_le (h.instValid i I hi) (by omega)
  · intro c C hc hn k m hm
    rcases getElem?_append_two _ _ _ _ _ hc with h1 | ⟨rfl, rfl⟩ | ⟨rfl, rfl⟩
    · exact h.superCap c C h1 hn k m hm
    · rw [hMname] at hn; cases hn
    · exact hKcap k m hm

/-- `WF` only reads `classes` and `insts`. -/
theorem wf_congr (st st' : State) (h : WF st) (hc : st'.classes = st.classes) (hi : st'.insts = st.insts) :
    WF st' := by
  have ho : objM st' = objM st := by simp [objM, hc]
  constructor
  · simpa [hc] using h.obj
  · simpa [hc] using h.hasType
  · simpa [hc] using h.super_lt
  · simpa [hc] using h.root
  · simpa [hc, ho] using h.table
  · simpa [hc, ho] using h.covers
  · simpa [hc, ho] using h.metaOK
  · simpa [hc] using h.metaValid
  · simpa [hc, hi] using h.instValid
  · simpa [hc] using h.superCap

theorem baseDef_spec (st : State) (env : Env) (d : ClassDecl) (O : ClassObj) (w0 : ClassDef)
    (hO : st.classes[0]? = some O) (hb : baseDef st env d O = some w0) :
    w0.cls.name = .plain d.name ∧ w0.mcls.name = .metaOf d.name ∧ w0.mcls.superclass = some 0 ∧
    w0.mcls.metaclass = typeId ∧ w0.cls.metaclass = typeId ∧
    w0.mcls.methods = O.methods ∧ w0.mcls.own = [] ∧ w0.cls.own = [] ∧
    ∃ s S, w0.cls.superclass = some s ∧ st.classes[s]? = some S ∧
      (∀ k, tget w0.cls.methods k = (tget S.methods k).or (tget O.methods k)) ∧
      (superOf env d = some s ∨ (superOf env d = none ∧ d.derive = none ∧ s = 0)) := by
  unfold baseDef at hb
  cases hd : d.derive with
  | none =>
    simp only [hd] at hb
    cases hb
    refine ⟨rfl, rfl, rfl, rfl, rfl, rfl, rfl, rfl, 0, O, rfl, hO, ?_, Or.inr ⟨?_, rfl, rfl⟩⟩
    · intro k; simp [freshDef]
    · simp [superOf, hd]
  | some x =>
    simp only [hd] at hb
    cases hs : superOf env d with
    | none => simp [hs] at hb
    | some s =>
      simp only [hs] at hb
      cases hS : st.classes[s]? with
      | none => simp [hS] at hb
      | some S =>
        simp only [hS] at hb
        cases hb
        refine ⟨rfl, rfl, rfl, rfl, rfl, rfl, rfl, rfl, s, S, rfl, hS, ?_, Or.inl rfl⟩
        intro k
        simp [tget_merge]

theorem lastDecl_mem (ds : List MethodDecl) (k : Name) (d : MethodDecl) (h : lastDecl ds k = some d) :
    d ∈ ds ∧ d.name = k := by
  induction ds with
  | nil => cases h
  | cons a ds ih =>
    simp only [lastDecl] at h
    cases hl : lastDecl ds k with
    | some x =>
      rw [hl] at h; simp at h; subst h
      exact ⟨List.mem_cons_of_mem _ (ih hl).1, (ih hl).2⟩
    | none =>
      rw [hl] at h
      simp only [Option.none_or] at h
      split at h
      · cases h; rename_i hn; exact ⟨List.mem_cons_self, hn⟩
      · cases h

theorem execClass_wf (st : State) (env : Env) (d : ClassDecl) (h : WF st) : WF (execClass st env d).1 := by
  obtain ⟨O, hO, hOsup, hOown, hOname⟩ := h.obj
  cases hb : baseDef st env d O with
  | none =>
    obtain ⟨h1, h2, _⟩ := execClass_none st env d O hO hb
    exact wf_congr _ _ h h1 h2
  | some w0 =>
    rw [execClass_some st env d O w0 hO hb]
    obtain ⟨n1, n2, msup, mmeta, _, mmeth, mown, cown, s, S, hs, hS, htab, hsup⟩ :=
      baseDef_spec st env d O w0 hO hb
    obtain ⟨f1, f2, f3, f4, f5, f6⟩ := fold_frame (superOf env d) d.allDecls w0
    have hobj : objM st = O.methods := by simp [objM, hO]
    apply wf_extend st _ _ h
    · simp only [finalDef, f4, n2]; rfl
    · simp only [finalDef, f5, msup]
    · intro k
      simp only [finalDef, fold_meta_methods, fold_meta_own, mmeth, mown, hobj, metaEntry, tget]
      cases lastDecl d.allDecls k <;> simp
    · simp only [finalDef, f6, mmeta]; exact Nat.lt_trans (by decide) h.hasType
    · simp only [finalDef, f1, n1]; rfl
    · refine ⟨s, S, ?_, hS, ?_⟩
      · simp only [finalDef, f2, hs]
      · intro k
        simp only [finalDef, fold_cls_methods, fold_cls_own, cown, htab, hobj, tget, Option.or_none]
    · intro k hk
      simp only [finalDef, fold_cls_methods, htab, Option.or_eq_none_iff] at hk
      rw [hobj]; exact hk.2.2
    · rfl
    · intro k m hm
      simp only [finalDef, fold_cls_own, cown, tget, Option.or_none] at hm
      cases hl : lastDecl d.allDecls k with
      | none => rw [hl] at hm; cases hm
      | some md =>
        rw [hl] at hm; simp only [Option.map_some, Option.some.injEq] at hm
        subst hm
        simp only [finalDef, f2, hs, mkMethod]
        rcases hsup with h1 | ⟨h1, _, _⟩
        · right; exact h1
        · left; exact h1

theorem exec_wf (s : State × Env) (stmt : Stmt) (h : WF s.1) : WF (exec s stmt).1 := by
  cases stmt with
  | classDecl d => exact execClass_wf s.1 s.2 d h
  | assign x v => exact h

theorem run_wf (prog : List Stmt) (s : State × Env) (h : WF s.1) : WF (run s prog).1 := by
  induction prog generalizing s with
  | nil => exact h
  | cons a prog ih => exact ih (exec s a) (exec_wf s a h)

/-! ## Copy-down = nearest definition -/

/-- What a class contributes to a subclass that derives from it. -/
def eff (st : State) (C : ClassObj) (k : Name) : Option Method :=
  if C.name.isMeta then (tget C.own k).or (tget (objM st) k) else tget C.methods k

theorem eff_spec (st : State) (h : WF st) (c : ClassId) (C : ClassObj) (hc : st.classes[c]? = some C) (k : Name) :
    (tget C.methods k).or (tget (objM st) k) = eff st C k := by
  unfold eff
  cases hn : C.name.isMeta with
  | true => simp only [if_true]; exact (h.metaOK c C hc hn).2 k
  | false =>
    simp only [Bool.false_eq_true, if_false]
    cases hm : tget C.methods k with
    | some m => simp
    | none => simp [h.covers c C hc hn k hm]

theorem firstDef_ancestryF (st : State) (h : WF st) (k : Name) :
    ∀ (f : Nat) (c : ClassId) (C : ClassObj), c < f → st.classes[c]? = some C →
      firstDef st (ancestryF st f c) k = eff st C k := by
  obtain ⟨O, hO, hOsup, hOown, hOname⟩ := h.obj
  have hobj : objM st = O.methods := by simp [objM, hO]
  intro f
  induction f with
  | zero => intro c C hlt; cases hlt
  | succ f ih =>
    intro c C hlt hc
    simp only [ancestryF, hc, firstDef]
    cases hs : C.superclass with
    | none =>
      have hc0 := h.root c C hc hs
      subst hc0
      rw [hO] at hc; cases hc
      simp [firstDef, eff, hOname, hOown]
    | some s =>
      have hsc : s < c := h.super_lt c C hc s hs
      have hsf : s < f := Nat.lt_of_lt_of_le hsc (Nat.le_of_lt_succ hlt)
      simp only
      cases hn : C.name.isMeta with
      | true =>
        have hs0 := (h.metaOK c C hc hn).1
        rw [hs] at hs0; cases hs0
        rw [ih 0 O hsf hO]
        simp [eff, hn, hOname, hobj]
      | false =>
        obtain ⟨S, hS, ht⟩ := h.table c C hc hn s hs
        rw [ih s S hsf hS, ← eff_spec st h s S hS k]
        simp [eff, hn, ht]

/-- Headline lemma: the table of a non-meta class maps `k` to the nearest definition in its ancestry. -/
theorem nearest_eq (st : State) (h : WF st) (c : ClassId) (C : ClassObj) (hc : st.classes[c]? = some C)
    (hn : C.name.isMeta = false) (k : Name) : tget C.methods k = nearest st c k := by
  unfold nearest ancestry
  rw [firstDef_ancestryF st h k (c + 1) c C (Nat.lt_succ_self c) hc]
  simp [eff, hn]

/-- For a metaclass the equation holds up to the names a non-static definition removed. -/
theorem nearest_meta (st : State) (h : WF st) (c : ClassId) (C : ClassObj) (hc : st.classes[c]? = some C)
    (k : Name) : (tget C.methods k).or (tget (objM st) k) = (nearest st c k).or (tget (objM st) k) := by
  unfold nearest ancestry
  rw [firstDef_ancestryF st h k (c + 1) c C (Nat.lt_succ_self c) hc, eff_spec st h c C hc k]
  unfold eff
  split
  · cases tget C.own k <;> simp
  · have := eff_spec st h c C hc k
    unfold eff at this
    rename_i hn
    simp only [hn] at this
    exact this.symm

theorem ancestryF_last (st : State) (h : WF st) :
    ∀ (f : Nat) (c : ClassId) (C : ClassObj), c < f → st.classes[c]? = some C →
      (ancestryF st f c).getLast? = some 0 := by
  obtain ⟨O, hO, _, _, hOname⟩ := h.obj
  intro f
  induction f with
  | zero => intro c C hlt; cases hlt
  | succ f ih =>
    intro c C hlt hc
    simp only [ancestryF, hc]
    cases hs : C.superclass with
    | none =>
      have hc0 := h.root c C hc hs
      subst hc0; rfl
    | some s =>
      have hsc : s < c := h.super_lt c C hc s hs
      have hsf : s < f := Nat.lt_of_lt_of_le hsc (Nat.le_of_lt_succ hlt)
      have hS : ∃ S, st.classes[s]? = some S := by
        cases hn : C.name.isMeta with
        | true =>
          have hs0 := (h.metaOK c C hc hn).1
          rw [hs] at hs0; cases hs0; exact ⟨O, hO⟩
        | false =>
          obtain ⟨S, hS, _⟩ := h.table c C hc hn s hs
          exact ⟨S, hS⟩
      obtain ⟨S, hS⟩ := hS
      have := ih s S hsf hS
      simp only [List.getLast?_cons, this, Option.getD_some]

theorem ancestry_reaches_root (st : State) (h : WF st) (c : ClassId) (C : ClassObj)
    (hc : st.classes[c]? = some C) : (ancestry st c).getLast? = some 0 :=
  ancestryF_last st h (c + 1) c C (Nat.lt_succ_self c) hc

/-! ## What a successful class statement creates -/

theorem execClass_ok_spec (st : State) (env : Env) (d : ClassDecl) (h : WF st) (st' : State) (env' : Env)
    (cid : ClassId) (hex : execClass st env d = (st', env', .ok cid)) :
    ∃ K M s S, cid = st.classes.length + 1 ∧ st'.classes = st.classes ++ [M, K] ∧ st'.insts = st.insts ∧
      env' = tinsert (tinsert env d.name nilVal) d.name (.cls cid) ∧
      K.metaclass = st.classes.length ∧ K.name = .plain d.name ∧ M.name = .metaOf d.name ∧
      K.superclass = some s ∧ st.classes[s]? = some S ∧
      (superOf env d = some s ∨ (superOf env d = none ∧ d.derive = none ∧ s = objectId)) ∧
      (∀ k, tget M.methods k = metaEntry (superOf env d) d.allDecls k (tget (objM st) k)) ∧
      (∀ k, tget K.own k = (lastDecl d.allDecls k).map (mkMethod (superOf env d))) ∧
      (∀ k, tget K.methods k = ((lastDecl d.allDecls k).map (mkMethod (superOf env d))).or
              ((tget S.methods k).or (tget (objM st) k))) := by
  obtain ⟨O, hO, _, _, _⟩ := h.obj
  have hobj : objM st = O.methods := by simp [objM, hO]
  cases hb : baseDef st env d O with
  | none =>
    have := (execClass_none st env d O hO hb).2.2 cid
    rw [hex] at this
    exact absurd rfl this
  | some w0 =>
    rw [execClass_some st env d O w0 hO hb] at hex
    obtain ⟨n1, n2, msup, mmeta, _, mmeth, mown, cown, s, S, hs, hS, htab, hsup⟩ :=
      baseDef_spec st env d O w0 hO hb
    obtain ⟨f1, f2, f3, f4, f5, f6⟩ := fold_frame (superOf env d) d.allDecls w0
    simp only [Prod.mk.injEq, Res.ok.injEq] at hex
    obtain ⟨h1, h2, h3⟩ := hex
    subst h1 h2 h3
    refine ⟨_, _, s, S, rfl, rfl, rfl, rfl, rfl, ?_, ?_, ?_, hS, hsup, ?_, ?_, ?_⟩
    · simp only [finalDef, f1, n1]
    · simp only [finalDef, f4, n2]
    · simp only [finalDef, f2, hs]
    · intro k; simp only [finalDef, fold_meta_methods, mmeth, hobj]
    · intro k; simp only [finalDef, fold_cls_own, cown, tget, Option.or_none]
    · intro k; simp only [finalDef, fold_cls_methods, htab, hobj]

/-! ## Frame: existing class objects are immutable -/

theorem execClass_frame (st : State) (env : Env) (d : ClassDecl) :
    (∃ extra, (execClass st env d).1.classes = st.classes ++ extra) ∧ (execClass st env d).1.insts = st.insts := by
  cases hO : st.classes[0]? with
  | none =>
    have hO' : st.classes[objectId]? = none := hO
    unfold execClass
    simp only [declare, hO']
    refine ⟨⟨[], ?_⟩, ?_⟩ <;> simp
  | some O =>
    cases hb : baseDef st env d O with
    | none =>
      obtain ⟨h1, h2, _⟩ := execClass_none st env d O hO hb
      exact ⟨⟨[], by simp [h1]⟩, h2⟩
    | some w0 =>
      rw [execClass_some st env d O w0 hO hb]
      exact ⟨⟨_, rfl⟩, rfl⟩

theorem exec_frame (s : State × Env) (stmt : Stmt) :
    (∃ extra, (exec s stmt).1.classes = s.1.classes ++ extra) ∧ (exec s stmt).1.insts = s.1.insts := by
  cases stmt with
  | classDecl d => exact execClass_frame s.1 s.2 d
  | assign x v => exact ⟨⟨[], by simp [exec]⟩, rfl⟩

theorem run_frame (prog : List Stmt) (s : State × Env) :
    (∃ extra, (run s prog).1.classes = s.1.classes ++ extra) ∧ (run s prog).1.insts = s.1.insts := by
  induction prog generalizing s with
  | nil => exact ⟨⟨[], by simp [run]⟩, rfl⟩
  | cons a prog ih =>
    obtain ⟨⟨e1, h1⟩, h2⟩ := exec_frame s a
    obtain ⟨⟨e2, h3⟩, h4⟩ := ih (exec s a)
    refine ⟨⟨e1 ++ e2, ?_⟩, ?_⟩
    · show (run (exec s a) prog).1.classes = _
      rw [h3, h1, List.append_assoc]
    · show (run (exec s a) prog).1.insts = _
      rw [h4, h2]

/-! ## Heap operations keep the invariant -/

theorem construct_wf (st : State) (v : Val) (h : WF st)
    (hv : ∀ c, v = .cls c → c < st.classes.length) : WF (construct st v).1 := by
  cases v with
  | cls c =>
    have hc := hv c rfl
    simp only [construct]
    refine { h with instValid := ?_ }
    intro i I hi
    simp only at hi ⊢
    by_cases h1 : i < st.insts.length
    · rw [List.getElem?_append_left h1] at hi; exact h.instValid i I hi
    · have hge : st.insts.length ≤ i := Nat.le_of_not_lt h1
      rw [List.getElem?_append_right hge] at hi
      by_cases h2 : i - st.insts.length = 0
      · rw [h2] at hi; simp at hi; subst hi; exact hc
      · rw [List.getElem?_eq_none (by simp only [List.length_singleton]; exact Nat.pos_of_ne_zero h2)] at hi
        cases hi
  | inst i => exact h
  | method m => exact h
  | bound r m => exact h
  | other k => exact h

theorem setProperty_wf (st st' : State) (recv : Val) (n : Name) (v : Val) (h : WF st)
    (hs : setProperty st recv n v = .ok st') : WF st' := by
  cases recv with
  | inst i =>
    simp only [setProperty] at hs
    cases hi : st.insts[i]? with
    | none => rw [hi] at hs; cases hs
    | some I =>
      rw [hi] at hs
      cases hs
      refine { h with instValid := ?_ }
      intro j J hj
      simp only [List.getElem?_set] at hj
      split at hj
      · split at hj
        · cases hj; exact h.instValid i I hi
        · cases hj
      · exact h.instValid j J hj
  | cls c => cases hs
  | method m => cases hs
  | bound r m => cases hs
  | other k => cases hs

end Yarel.ClassTable
