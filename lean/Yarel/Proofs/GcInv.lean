/-
The tri-colour invariant of the call-stack machine and its propagation through
`markRoots`, `tracePass`, `traceLoop`.
-/
import Yarel.Proofs.GcSpec

namespace Yarel.Gc

theorem TraceOp.colour_ne_white (op : TraceOp) : op.colour ≠ .white := by
  cases op <;> decide

theorem nonWhite_of_colour {cols : Array Colour} {i : Nat} {op : TraceOp}
    (h : cols[i]? = some op.colour) : NonWhite cols i := by
  cases op
  · exact Or.inl h
  · exact Or.inr h

theorem nonWhite_set {cols : Array Colour} {i j : Nat} {op : TraceOp}
    (hn : NonWhite cols i) : NonWhite (cols.setIfInBounds j op.colour) i := by
  by_cases hji : j = i
  · subst hji
    have hlt : j < cols.size := by
      rcases hn with hn | hn <;>
        · rcases Array.getElem?_eq_some_iff.mp hn with ⟨hlt, _⟩
          exact hlt
    apply nonWhite_of_colour (op := op)
    simp [hlt]
  · unfold NonWhite
    rw [Array.getElem?_setIfInBounds_ne hji]
    exact hn

theorem nonWhite_set_self {cols : Array Colour} {j : Nat} {op : TraceOp} {c : Colour}
    (hc : cols[j]? = some c) : NonWhite (cols.setIfInBounds j op.colour) j := by
  rcases Array.getElem?_eq_some_iff.mp hc with ⟨hlt, _⟩
  apply nonWhite_of_colour (op := op)
  simp [hlt]

/-- generic induction principle over machine runs: a predicate on (colours, stack) preserved by the two kinds of
steps holds (with empty stack) when the run returns -/
theorem runCalls_induct {h : Heap} (P : Array Colour → List Call → Prop)
    (hret : ∀ cols op i rest o, h[i]? = some o → cols[i]? = some op.colour →
      P cols ((op, i) :: rest) → P cols rest)
    (hent : ∀ cols op i rest o c, h[i]? = some o → cols[i]? = some c → c ≠ op.colour →
      P cols ((op, i) :: rest) → P (cols.setIfInBounds i op.colour) (o.calls op ++ rest)) :
    ∀ fuel cols st cols', runCalls h fuel cols st = .ok cols' → P cols st → P cols' [] := by
  intro fuel
  induction fuel with
  | zero =>
    intro cols st cols' hr hp
    cases st with
    | nil => simp only [runCalls, Except.ok.injEq] at hr; subst hr; exact hp
    | cons c rest => simp [runCalls] at hr
  | succ f ih =>
    intro cols st cols' hr hp
    cases st with
    | nil => simp only [runCalls, Except.ok.injEq] at hr; subst hr; exact hp
    | cons c rest =>
      obtain ⟨op, i⟩ := c
      simp only [runCalls] at hr
      split at hr
      · rename_i o c ho hc
        split at hr
        · rename_i hcc
          subst hcc
          exact ih _ _ _ hr (hret _ _ _ _ _ ho hc hp)
        · rename_i hcc
          exact ih _ _ _ hr (hent _ _ _ _ _ _ ho hc hcc hp)
      · simp at hr

/-- box `i` is already non-white or a call on it is pending -/
def Pend (cols : Array Colour) (st : List Call) (i : Nat) : Prop :=
  NonWhite cols i ∨ ∃ op, (op, i) ∈ st

theorem Pend.ret {cols : Array Colour} {op : TraceOp} {j i : Nat} {rest : List Call}
    (hc : cols[j]? = some op.colour) (hp : Pend cols ((op, j) :: rest) i) : Pend cols rest i := by
  rcases hp with hp | ⟨op', hm⟩
  · exact Or.inl hp
  · rcases List.mem_cons.mp hm with heq | hm
    · cases heq
      exact Or.inl (nonWhite_of_colour hc)
    · exact Or.inr ⟨op', hm⟩

theorem Pend.enter {cols : Array Colour} {op : TraceOp} {j i : Nat} {rest new : List Call} {c : Colour}
    (hc : cols[j]? = some c) (hp : Pend cols ((op, j) :: rest) i) :
    Pend (cols.setIfInBounds j op.colour) (new ++ rest) i := by
  rcases hp with hp | ⟨op', hm⟩
  · exact Or.inl (nonWhite_set hp)
  · rcases List.mem_cons.mp hm with heq | hm
    · cases heq
      exact Or.inl (nonWhite_set_self hc)
    · exact Or.inr ⟨op', List.mem_append_right _ hm⟩

theorem mem_calls {o : Obj} {e : Edge} {op op' : TraceOp} (he : e ∈ o.edges) (hs : e.sel op = some op') :
    (op', e.target) ∈ o.calls op := by
  unfold Obj.calls
  rw [List.mem_filterMap]
  exact ⟨e, he, by simp [hs]⟩

theorem of_mem_calls {o : Obj} {c : Call} {op : TraceOp} (hc : c ∈ o.calls op) :
    ∃ e ∈ o.edges, e.sel op = some c.1 ∧ e.target = c.2 := by
  unfold Obj.calls at hc
  rw [List.mem_filterMap] at hc
  obtain ⟨e, he, hm⟩ := hc
  refine ⟨e, he, ?_⟩
  cases hsel : e.sel op with
  | none => simp [hsel] at hm
  | some op' =>
    simp [hsel] at hm
    subst hm
    exact ⟨rfl, rfl⟩

/-- The invariant of the machine.  `Q` = a set of boxes that must end up non-white (used for the roots). -/
structure Inv (h : Heap) (Q : Nat → Prop) (cols : Array Colour) (st : List Call) : Prop where
  /-- colour array and heap have the same length -/
  size : cols.size = h.size
  /-- tracked boxes are non-white or pending -/
  tracked : ∀ i, Q i → Pend cols st i
  /-- (b) every BLACK box's `blacken`-traced children are non-white or pending -/
  closure : ∀ (i : Nat) (o : Obj) (e : Edge) (op : TraceOp), h[i]? = some o → cols[i]? = some Colour.black →
    e ∈ o.edges → e.inBlacken = some op →
    Pend cols st e.target
  /-- grey ⇒ `mark` was legitimately invoked, black ⇒ `blacken` was -/
  sound : ∀ (i : Nat) (op : TraceOp), cols[i]? = some (TraceOp.colour op) → CallReach h op i
  /-- pending calls are legitimate -/
  stSound : ∀ c ∈ st, CallReach h c.1 c.2

theorem Inv.mono {h : Heap} {Q Q' : Nat → Prop} {cols : Array Colour} {st : List Call}
    (hi : Inv h Q cols st) (hq : ∀ i, Q' i → Q i) : Inv h Q' cols st :=
  { hi with tracked := fun i hqi => hi.tracked i (hq i hqi) }

theorem colour_inj {op op' : TraceOp} (h : op.colour = op'.colour) : op = op' := by
  cases op <;> cases op' <;> simp [TraceOp.colour] at h <;> rfl

theorem runCalls_inv {h : Heap} {Q : Nat → Prop} {fuel : Nat} {cols cols' : Array Colour} {st : List Call}
    (hr : runCalls h fuel cols st = .ok cols') (hi : Inv h Q cols st) : Inv h Q cols' [] := by
  refine runCalls_induct (h := h) (Inv h Q) ?_ ?_ fuel cols st cols' hr hi
  · intro cols op j rest o ho hc hp
    exact
      { size := hp.size
        tracked := fun i hq => (hp.tracked i hq).ret hc
        closure := fun i o' e op' ho' hb he hib => (hp.closure i o' e op' ho' hb he hib).ret hc
        sound := hp.sound
        stSound := fun c hc' => hp.stSound c (List.mem_cons_of_mem _ hc') }
  · intro cols op j rest o c ho hc hne hp
    have hjlt : j < cols.size := (Array.getElem?_eq_some_iff.mp hc).1
    refine
      { size := by rw [Array.size_setIfInBounds]; exact hp.size
        tracked := fun i hq => (hp.tracked i hq).enter hc
        closure := ?_
        sound := ?_
        stSound := ?_ }
    · intro i o' e op' ho' hb he hib
      by_cases hji : j = i
      · subst hji
        rw [Array.getElem?_setIfInBounds_self, if_pos hjlt] at hb
        have hop : op = .blacken := by
          apply colour_inj
          simpa [TraceOp.colour] using hb
        subst hop
        rw [ho] at ho'
        cases ho'
        exact Or.inr ⟨op', List.mem_append_left _ (mem_calls he hib)⟩
      · rw [Array.getElem?_setIfInBounds_ne hji] at hb
        exact (hp.closure i o' e op' ho' hb he hib).enter hc
    · intro i op' hcol
      by_cases hji : j = i
      · subst hji
        rw [Array.getElem?_setIfInBounds_self, if_pos hjlt] at hcol
        have hop : op = op' := colour_inj (by simpa using hcol)
        subst hop
        exact hp.stSound (op, j) List.mem_cons_self
      · rw [Array.getElem?_setIfInBounds_ne hji] at hcol
        exact hp.sound i op' hcol
    · intro c' hc'
      rcases List.mem_append.mp hc' with hc' | hc'
      · obtain ⟨e, he, hsel, htgt⟩ := of_mem_calls hc'
        rw [← htgt]
        exact CallReach.edge (hp.stSound (op, j) List.mem_cons_self) ho he hsel
      · exact hp.stSound c' (List.mem_cons_of_mem _ hc')

/-- push one legitimate top-level call -/
theorem Inv.push {h : Heap} {Q : Nat → Prop} {cols : Array Colour} {op : TraceOp} {i : Nat}
    (hi : Inv h Q cols []) (hc : CallReach h op i) : Inv h (fun j => Q j ∨ j = i) cols [(op, i)] where
  size := hi.size
  tracked := by
    intro j hq
    rcases hq with hq | hq
    · rcases hi.tracked j hq with hp | ⟨_, hm⟩
      · exact Or.inl hp
      · cases hm
    · subst hq
      exact Or.inr ⟨op, List.mem_singleton.mpr rfl⟩
  closure := by
    intro j o e op' ho hb he hib
    rcases hi.closure j o e op' ho hb he hib with hp | ⟨_, hm⟩
    · exact Or.inl hp
    · cases hm
  sound := hi.sound
  stSound := by
    intro c hc'
    rw [List.mem_singleton] at hc'
    subst hc'
    exact hc

theorem markRootsFrom_inv {h : Heap} {fuel : Nat} :
    ∀ (is : List Nat) (Q : Nat → Prop) (cols cols' : Array Colour),
      markRootsFrom h fuel is cols = .ok cols' → Inv h Q cols [] →
      Inv h (fun j => Q j ∨ (j ∈ is ∧ Rooted h j)) cols' [] := by
  intro is
  induction is with
  | nil =>
    intro Q cols cols' hr hi
    simp only [markRootsFrom, Except.ok.injEq] at hr
    subst hr
    exact hi.mono (by intro i hq; rcases hq with hq | ⟨hm, _⟩; exact hq; cases hm)
  | cons i is ih =>
    intro Q cols cols' hr hi
    simp only [markRootsFrom] at hr
    split at hr
    · rename_i hroot
      split at hr
      · rename_i c hrun
        have h1 := runCalls_inv hrun (hi.push (CallReach.root (isRoot_iff.mp hroot)))
        refine (ih _ _ _ hr h1).mono ?_
        intro j hq
        rcases hq with hq | ⟨hm, hrt⟩
        · exact Or.inl (Or.inl hq)
        · rcases List.mem_cons.mp hm with hm | hm
          · exact Or.inl (Or.inr hm)
          · exact Or.inr ⟨hm, hrt⟩
      · simp at hr
    · rename_i hroot
      refine (ih _ _ _ hr hi).mono ?_
      intro j hq
      rcases hq with hq | ⟨hm, hrt⟩
      · exact Or.inl hq
      · rcases List.mem_cons.mp hm with hm | hm
        · subst hm
          exact absurd (isRoot_iff.mpr hrt) hroot
        · exact Or.inr ⟨hm, hrt⟩

theorem inv_unmarkAll (h : Heap) : Inv h (fun _ => False) (unmarkAll h) [] where
  size := by simp [unmarkAll]
  tracked := by intro i hq; exact hq.elim
  closure := by
    intro i o e op _ hb
    simp only [unmarkAll, Array.getElem?_replicate] at hb
    split at hb <;> simp at hb
  sound := by
    intro i op hc
    simp only [unmarkAll, Array.getElem?_replicate] at hc
    split at hc
    · have := TraceOp.colour_ne_white op
      simp only [Option.some.injEq] at hc
      exact absurd hc.symm this
    · simp at hc
  stSound := by intro c hc; cases hc

theorem markRoots_inv {h : Heap} {fuel : Nat} {cols : Array Colour}
    (hr : markRoots h fuel = .ok cols) : Inv h (Rooted h) cols [] := by
  unfold markRoots at hr
  refine (markRootsFrom_inv _ _ _ _ hr (inv_unmarkAll h)).mono ?_
  intro i hq
  refine Or.inr ⟨?_, hq⟩
  obtain ⟨o, ho, _⟩ := hq
  exact List.mem_range.mpr (Array.getElem?_eq_some_iff.mp ho).1

/-- `tracePass`: invariant preservation and the facts about the counter -/
theorem tracePass_inv {h : Heap} {Q : Nat → Prop} {fuel : Nat} :
    ∀ (is : List Nat) (cols : Array Colour) (n : Nat) (c : Array Colour) (n' : Nat),
      tracePass h fuel is cols n = .ok (c, n') → Inv h Q cols [] →
      Inv h Q c [] ∧ n ≤ n' ∧ (n' = n → c = cols ∧ ∀ i ∈ is, cols[i]? ≠ some .grey) := by
  intro is
  induction is with
  | nil =>
    intro cols n c n' hr hi
    simp only [tracePass, Except.ok.injEq, Prod.mk.injEq] at hr
    obtain ⟨rfl, rfl⟩ := hr
    exact ⟨hi, Nat.le_refl _, fun _ => ⟨rfl, by simp⟩⟩
  | cons i is ih =>
    intro cols n c n' hr hi
    simp only [tracePass] at hr
    split at hr
    · rename_i hgrey
      split at hr
      · rename_i c1 hrun
        have hcr : CallReach h .blacken i := CallReach.pass (hi.sound i .mark hgrey)
        have h1 : Inv h Q c1 [] := (runCalls_inv hrun (hi.push hcr)).mono (fun j hq => Or.inl hq)
        obtain ⟨h2, hle, _⟩ := ih _ _ _ _ hr h1
        exact ⟨h2, by omega, fun heq => by omega⟩
      · simp at hr
    · rename_i hgrey
      obtain ⟨h2, hle, heq⟩ := ih _ _ _ _ hr hi
      refine ⟨h2, hle, fun hn => ?_⟩
      obtain ⟨hc, hall⟩ := heq hn
      refine ⟨hc, ?_⟩
      intro j hj
      rcases List.mem_cons.mp hj with hj | hj
      · subst hj; exact hgrey
      · exact hall j hj

theorem noGrey_of_countGrey {cols : Array Colour} (hz : countGrey cols = 0) : NoGrey cols := by
  unfold countGrey at hz
  rw [List.countP_eq_zero] at hz
  intro i hi
  have hm : Colour.grey ∈ cols.toList := by
    rw [Array.mem_toList_iff]
    exact Array.mem_of_getElem? hi
  have := hz _ hm
  simp at this

theorem noGrey_of_range {h : Heap} {cols : Array Colour} (hs : cols.size = h.size)
    (hall : ∀ i ∈ List.range h.size, cols[i]? ≠ some .grey) : NoGrey cols := by
  intro i hi
  have hlt : i < cols.size := (Array.getElem?_eq_some_iff.mp hi).1
  exact hall i (List.mem_range.mpr (by omega)) hi

theorem traceLoop_inv {h : Heap} {Q : Nat → Prop} {fuel : Nat} :
    ∀ (k : Nat) (cols : Array Colour) (n : Nat) (c : Array Colour),
      traceLoop h fuel k cols n = .ok c → Inv h Q cols [] → (n = 0 → NoGrey cols) →
      Inv h Q c [] ∧ NoGrey c := by
  intro k
  induction k with
  | zero =>
    intro cols n c hr hi hn
    cases n with
    | zero =>
      simp only [traceLoop, Except.ok.injEq] at hr
      subst hr
      exact ⟨hi, hn rfl⟩
    | succ n => simp [traceLoop] at hr
  | succ k ih =>
    intro cols n c hr hi hn
    cases n with
    | zero =>
      simp only [traceLoop, Except.ok.injEq] at hr
      subst hr
      exact ⟨hi, hn rfl⟩
    | succ n =>
      simp only [traceLoop] at hr
      split at hr
      · rename_i c1 n1 hpass
        obtain ⟨h1, _, heq⟩ := tracePass_inv _ _ _ _ _ hpass hi
        refine ih _ _ _ hr h1 ?_
        intro hz
        obtain ⟨hc, hall⟩ := heq hz
        subst hc
        exact noGrey_of_range h1.size hall
      · simp at hr

theorem traceReferences_inv {h : Heap} {Q : Nat → Prop} {fuel : Nat} {cols c : Array Colour}
    (hr : traceReferences h fuel cols = .ok c) (hi : Inv h Q cols []) : Inv h Q c [] ∧ NoGrey c :=
  traceLoop_inv _ _ _ _ hr hi noGrey_of_countGrey

/-- everything we know about the colours at sweep time -/
theorem collectE_inv {h : Heap} {fuel : Nat} {r : CollectResult} (hr : collectE fuel h = .ok r) :
    ∃ cols, r = sweep h cols ∧ Inv h (Rooted h) cols [] ∧ NoGrey cols := by
  unfold collectE at hr
  split at hr
  · simp at hr
  · rename_i c1 hm
    split at hr
    · simp at hr
    · rename_i c2 ht
      simp only [Except.ok.injEq] at hr
      obtain ⟨h2, hg⟩ := traceReferences_inv ht (markRoots_inv hm)
      exact ⟨c2, hr.symm, h2, hg⟩

theorem collect_eq_some {h : Heap} {fuel : Nat} {r : CollectResult} :
    collect fuel h = some r ↔ collectE fuel h = .ok r := by
  unfold collect
  split <;> simp_all

end Yarel.Gc
