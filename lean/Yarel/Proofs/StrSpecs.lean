/-
Closed forms of find / count_chars / char_byte_index / classification used by the headline specs.
-/
import Yarel.Proofs.StrOps
namespace Yarel.Str
open Yarel Yarel.Utf8 Yarel.Index

/-! ### closed forms used by the headline specs -/

theorem callNative_find_eq (env : Env) {s sub : Bytes} (hs : Valid s) (hsub : Valid sub) (a1 : Val) :
    callNative env .find s [.str sub, a1] =
      if sub = [] then mkErr .ValueError .cannotFindEmpty
      else (boundedIndex a1 s.length .String).bind fun st =>
        if isBoundary s st = true then
          match firstMatch s sub (s.length - st) st with
          | some j => .ok (numOfNat j)
          | none => .ok .nil
        else mkErr .IndexError (.notCharBoundary .stringIndex) := by
  simp only [callNative, checkNumArgs_bind, List.length_cons, List.length_nil, ↓reduceIte, expectString,
    Outcome.bind_ok]
  by_cases hne : sub = []
  · subst hne; rfl
  · have he : sub.isEmpty = false := by cases sub <;> simp_all
    rw [if_neg hne]
    simp only [he, Bool.false_eq_true, ↓reduceIte]
    rw [find_start_eq a1 s.length (fun st => (validateCharBoundary s st .stringIndex).bind fun _ =>
      findLoop s sub st (s.length - st) st)]
    congr 1
    funext st
    unfold validateCharBoundary
    by_cases hb : isBoundary s st = true
    · simp only [hb, ↓reduceIte, Outcome.bind_ok]
      exact findLoop_eq hs hsub hne st _ st (Nat.le_refl _)
    · simp only [hb, Bool.false_eq_true, ↓reduceIte, mkErr, Outcome.bind_err]

theorem callNative_countChars_eq (env : Env) {cps : List Nat} (h : ∀ c ∈ cps, isScalar c = true) :
    callNative env .countChars (encode cps) [] = .ok (numOfNat cps.length) := by
  simp only [callNative, checkNumArgs_bind, List.length_nil, ↓reduceIte, chars_encode h, Outcome.bind_ok]

theorem callNative_charByteIndex_eq (env : Env) {cps : List Nat} (h : ∀ c ∈ cps, isScalar c = true) (a : Val) :
    callNative env .charByteIndex (encode cps) [a] =
      (boundedIndex a cps.length .String).bind fun n =>
        .ok (numOfNat (encode (cps.take n)).length) := by
  simp only [callNative, checkNumArgs_bind, List.length_cons, List.length_nil, ↓reduceIte,
    chars_encode h, Outcome.bind_ok]
  cases hb : boundedIndex a cps.length .String with
  | ok n =>
    have hlt := boundedIndex_ok_lt hb
    simp only [Outcome.bind_ok]
    have := charByteIndexLoop_encode cps h [] 0 n (Nat.zero_le _) (by omega)
    simpa using this
  | err e => rfl
  | fault st => rfl

/-- `chars().all(p)` for an ASCII-only predicate can be read off the bytes. -/
theorem all_chars_eq_all_bytes (p : Nat → Bool) (hp : ∀ n, 128 ≤ n → p n = false) :
    ∀ (cps : List Nat), (∀ c ∈ cps, isScalar c = true) →
      cps.all p = (encode cps).all (fun b => p b.toNat) := by
  intro cps
  induction cps with
  | nil => intro _; rfl
  | cons c cs ih =>
    intro h
    have hc := h c (by simp)
    simp only [List.all_cons, encode, List.all_append, ih (fun x hx => h x (by simp [hx]))]
    congr 1
    by_cases hlt : c < 128
    · simp only [encodeCP, hlt, ↓reduceIte, List.all_cons, List.all_nil, Bool.and_true,
        toNat_ofNat_lt c (by omega)]
    · rw [hp c (by omega)]
      obtain ⟨b0, tl, he, hb0, _, _⟩ := encodeCP_shape c (isScalar_le hc)
      have hb0' : 128 ≤ b0.toNat := by
        have : b0 = (encodeCP c).head (encodeCP_ne_nil c) := by simp [he]
        subst this
        unfold encodeCP
        split
        · omega
        · have := isScalar_le hc
          split
          · simp only [List.head_cons]; rw [toNat_ofNat_lt _ (by omega)]; omega
          · split
            · simp only [List.head_cons]; rw [toNat_ofNat_lt _ (by omega)]; omega
            · simp only [List.head_cons]; rw [toNat_ofNat_lt _ (by omega)]; omega
      rw [he, List.all_cons, hp _ hb0']
      rfl

theorem classify_eq_bytes (p : Nat → Bool) (hp : ∀ n, 128 ≤ n → p n = false) {s : Bytes} (hs : Valid s) :
    classify p s = .ok (.bool (decide (s.length > 0) && s.all (fun b => p b.toNat))) := by
  obtain ⟨cps, h, rfl⟩ := hs
  unfold classify
  rw [chars_encode h, Outcome.bind_ok, all_chars_eq_all_bytes p hp cps h]

end Yarel.Str
