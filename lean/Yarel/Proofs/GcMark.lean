/-
Safety from `mark()`-coverage.  Ghost set `M` = the boxes whose `mark()` BODY has run at least once.
Invariant of the machine (both phases, any `inBlacken` entries whatsoever):
  grey ⇒ in `M`;  `M` ⇒ non-white;  every `mark`-traced child of a box in `M` is in `M` or has a pending `mark` call.
A pending `mark` call always puts its target into `M` (if the target is already grey it is in `M`, otherwise the
body runs — also when the target was BLACK).  Hence after `mark_roots` `M` contains the roots and is closed under
`mark`-traced pointers; `M` never shrinks and non-white is permanent, and at sweep time nothing is grey.
-/
import Yarel.Proofs.GcSafety

namespace Yarel.Gc

structure MInv (h : Heap) (Q M : Nat → Prop) (cols : Array Colour) (st : List Call) : Prop where
  grey : ∀ i : Nat, cols[i]? = some Colour.grey → M i
  nonwhite : ∀ i : Nat, M i → NonWhite cols i
  /-- tracked boxes (the roots handled so far) are in `M` or about to be marked -/
  tracked : ∀ i : Nat, Q i → M i ∨ (TraceOp.mark, i) ∈ st
  closure : ∀ (i : Nat) (o : Obj) (e : Edge), M i → h[i]? = some o → e ∈ o.edges → e.inMark = some TraceOp.mark →
    M e.target ∨ (TraceOp.mark, e.target) ∈ st

theorem MInv.mono {h : Heap} {Q Q' M : Nat → Prop} {cols : Array Colour} {st : List Call}
    (hi : MInv h Q M cols st) (hq : ∀ i, Q' i → Q i) : MInv h Q' M cols st :=
  { hi with tracked := fun i hqi => hi.tracked i (hq i hqi) }

private theorem pend_ret {M : Nat → Prop} {cols : Array Colour} {op : TraceOp} {i t : Nat} {rest : List Call}
    (hgrey : ∀ j : Nat, cols[j]? = some Colour.grey → M j) (hc : cols[i]? = some op.colour)
    (hp : M t ∨ (TraceOp.mark, t) ∈ (op, i) :: rest) : M t ∨ (TraceOp.mark, t) ∈ rest := by
  rcases hp with hp | hp
  · exact Or.inl hp
  · rcases List.mem_cons.mp hp with heq | hm
    · cases heq
      exact Or.inl (hgrey _ hc)
    · exact Or.inr hm

theorem runCalls_minv {h : Heap} {Q : Nat → Prop} {fuel : Nat} {cols cols' : Array Colour} {st : List Call}
    (hr : runCalls h fuel cols st = .ok cols') (hi : ∃ M, MInv h Q M cols st) : ∃ M, MInv h Q M cols' [] := by
  refine runCalls_induct (h := h) (fun c s => ∃ M, MInv h Q M c s) ?_ ?_ fuel cols st cols' hr hi
  · intro cols op i rest o _ hc ⟨M, hp⟩
    exact ⟨M,
      { grey := hp.grey
        nonwhite := hp.nonwhite
        tracked := fun j hq => pend_ret hp.grey hc (hp.tracked j hq)
        closure := fun j o' e hM ho' he hm => pend_ret hp.grey hc (hp.closure j o' e hM ho' he hm) }⟩
  · intro cols op i rest o c ho hc hne ⟨M, hp⟩
    have hilt : i < cols.size := (Array.getElem?_eq_some_iff.mp hc).1
    cases op with
    | mark =>
      refine ⟨fun j => M j ∨ j = i, ?_⟩
      have hpend : ∀ t, (M t ∨ (TraceOp.mark, t) ∈ (TraceOp.mark, i) :: rest) →
          (M t ∨ t = i) ∨ (TraceOp.mark, t) ∈ o.calls .mark ++ rest := by
        intro t ht
        rcases ht with ht | ht
        · exact Or.inl (Or.inl ht)
        · rcases List.mem_cons.mp ht with heq | hm
          · cases heq; exact Or.inl (Or.inr rfl)
          · exact Or.inr (List.mem_append_right _ hm)
      refine
        { grey := ?_
          nonwhite := ?_
          tracked := fun j hq => hpend j (hp.tracked j hq)
          closure := ?_ }
      · intro j hj
        by_cases hij : i = j
        · exact Or.inr hij.symm
        · rw [Array.getElem?_setIfInBounds_ne hij] at hj
          exact Or.inl (hp.grey j hj)
      · intro j hj
        rcases hj with hj | rfl
        · exact nonWhite_set (hp.nonwhite j hj)
        · exact nonWhite_set_self hc
      · intro j o' e hM ho' he hm
        rcases hM with hM | rfl
        · exact hpend _ (hp.closure j o' e hM ho' he hm)
        · rw [ho] at ho'
          cases ho'
          exact Or.inr (List.mem_append_left _ (mem_calls he (by simpa [Edge.sel] using hm)))
    | blacken =>
      refine ⟨M, ?_⟩
      have hpend : ∀ t, (M t ∨ (TraceOp.mark, t) ∈ (TraceOp.blacken, i) :: rest) →
          M t ∨ (TraceOp.mark, t) ∈ o.calls .blacken ++ rest := by
        intro t ht
        rcases ht with ht | ht
        · exact Or.inl ht
        · rcases List.mem_cons.mp ht with heq | hm
          · cases heq
          · exact Or.inr (List.mem_append_right _ hm)
      refine
        { grey := ?_
          nonwhite := fun j hj => nonWhite_set (hp.nonwhite j hj)
          tracked := fun j hq => hpend j (hp.tracked j hq)
          closure := fun j o' e hM ho' he hm => hpend _ (hp.closure j o' e hM ho' he hm) }
      intro j hj
      by_cases hij : i = j
      · subst hij
        rw [Array.getElem?_setIfInBounds_self, if_pos hilt] at hj
        simp [TraceOp.colour] at hj
      · rw [Array.getElem?_setIfInBounds_ne hij] at hj
        exact hp.grey j hj

theorem MInv.pushMark {h : Heap} {Q M : Nat → Prop} {cols : Array Colour} {i : Nat}
    (hi : MInv h Q M cols []) : MInv h (fun j => Q j ∨ j = i) M cols [(.mark, i)] where
  grey := hi.grey
  nonwhite := hi.nonwhite
  tracked := by
    intro j hq
    rcases hq with hq | rfl
    · rcases hi.tracked j hq with hm | hm
      · exact Or.inl hm
      · cases hm
    · exact Or.inr (List.mem_singleton.mpr rfl)
  closure := by
    intro j o e hM ho he hm
    rcases hi.closure j o e hM ho he hm with h1 | h1
    · exact Or.inl h1
    · cases h1

theorem MInv.pushBlacken {h : Heap} {Q M : Nat → Prop} {cols : Array Colour} {i : Nat}
    (hi : MInv h Q M cols []) : MInv h Q M cols [(.blacken, i)] where
  grey := hi.grey
  nonwhite := hi.nonwhite
  tracked := by
    intro j hq
    rcases hi.tracked j hq with hm | hm
    · exact Or.inl hm
    · cases hm
  closure := by
    intro j o e hM ho he hm
    rcases hi.closure j o e hM ho he hm with h1 | h1
    · exact Or.inl h1
    · cases h1

theorem markRootsFrom_minv {h : Heap} {fuel : Nat} :
    ∀ (is : List Nat) (Q : Nat → Prop) (cols cols' : Array Colour),
      markRootsFrom h fuel is cols = .ok cols' → (∃ M, MInv h Q M cols []) →
      ∃ M, MInv h (fun j => Q j ∨ (j ∈ is ∧ Rooted h j)) M cols' [] := by
  intro is
  induction is with
  | nil =>
    intro Q cols cols' hr ⟨M, hi⟩
    simp only [markRootsFrom, Except.ok.injEq] at hr
    subst hr
    exact ⟨M, hi.mono (by intro i hq; rcases hq with hq | ⟨hm, _⟩; exact hq; cases hm)⟩
  | cons i is ih =>
    intro Q cols cols' hr ⟨M, hi⟩
    simp only [markRootsFrom] at hr
    split at hr
    · split at hr
      · rename_i c hrun
        obtain ⟨M2, h2⟩ := ih _ _ _ hr (runCalls_minv hrun ⟨M, hi.pushMark (i := i)⟩)
        refine ⟨M2, h2.mono ?_⟩
        intro j hq
        rcases hq with hq | ⟨hm, hrt⟩
        · exact Or.inl (Or.inl hq)
        · rcases List.mem_cons.mp hm with hm | hm
          · exact Or.inl (Or.inr hm)
          · exact Or.inr ⟨hm, hrt⟩
      · simp at hr
    · rename_i hroot
      obtain ⟨M2, h2⟩ := ih _ _ _ hr ⟨M, hi⟩
      refine ⟨M2, h2.mono ?_⟩
      intro j hq
      rcases hq with hq | ⟨hm, hrt⟩
      · exact Or.inl hq
      · rcases List.mem_cons.mp hm with hm | hm
        · subst hm
          exact absurd (isRoot_iff.mpr hrt) hroot
        · exact Or.inr ⟨hm, hrt⟩

theorem tracePass_minv {h : Heap} {Q : Nat → Prop} {fuel : Nat} :
    ∀ (is : List Nat) (cols : Array Colour) (n : Nat) (c : Array Colour) (n' : Nat),
      tracePass h fuel is cols n = .ok (c, n') → (∃ M, MInv h Q M cols []) → ∃ M, MInv h Q M c [] := by
  intro is
  induction is with
  | nil =>
    intro cols n c n' hr hi
    simp only [tracePass, Except.ok.injEq, Prod.mk.injEq] at hr
    obtain ⟨rfl, rfl⟩ := hr
    exact hi
  | cons i is ih =>
    intro cols n c n' hr ⟨M, hi⟩
    simp only [tracePass] at hr
    split at hr
    · split at hr
      · rename_i c1 hrun
        exact ih _ _ _ _ hr (runCalls_minv hrun ⟨M, hi.pushBlacken (i := i)⟩)
      · simp at hr
    · exact ih _ _ _ _ hr ⟨M, hi⟩

theorem traceLoop_minv {h : Heap} {Q : Nat → Prop} {fuel : Nat} :
    ∀ (k : Nat) (cols : Array Colour) (n : Nat) (c : Array Colour),
      traceLoop h fuel k cols n = .ok c → (∃ M, MInv h Q M cols []) → ∃ M, MInv h Q M c [] := by
  intro k
  induction k with
  | zero =>
    intro cols n c hr hi
    cases n with
    | zero => simp only [traceLoop, Except.ok.injEq] at hr; subst hr; exact hi
    | succ n => simp [traceLoop] at hr
  | succ k ih =>
    intro cols n c hr hi
    cases n with
    | zero => simp only [traceLoop, Except.ok.injEq] at hr; subst hr; exact hi
    | succ n =>
      simp only [traceLoop] at hr
      split at hr
      · rename_i c1 n1 hpass
        exact ih _ _ _ hr (tracePass_minv _ _ _ _ _ hpass hi)
      · simp at hr

theorem minv_unmarkAll (h : Heap) : MInv h (fun _ => False) (fun _ => False) (unmarkAll h) [] where
  grey := by
    intro i hc
    simp only [unmarkAll, Array.getElem?_replicate] at hc
    split at hc <;> simp at hc
  nonwhite := fun _ hm => hm.elim
  tracked := fun _ hq => hq.elim
  closure := fun _ _ _ hm => hm.elim

theorem collectE_minv {h : Heap} {fuel : Nat} {r : CollectResult} (hr : collectE fuel h = .ok r) :
    ∃ cols M, r = sweep h cols ∧ MInv h (Rooted h) M cols [] := by
  unfold collectE at hr
  split at hr
  · simp at hr
  · rename_i c1 hm
    split at hr
    · simp at hr
    · rename_i c2 ht
      simp only [Except.ok.injEq] at hr
      unfold markRoots at hm
      obtain ⟨M1, h1⟩ := markRootsFrom_minv _ _ _ _ hm ⟨_, minv_unmarkAll h⟩
      have h1' : MInv h (Rooted h) M1 c1 [] := by
        refine h1.mono ?_
        intro i hq
        refine Or.inr ⟨?_, hq⟩
        obtain ⟨o, ho, _⟩ := hq
        exact List.mem_range.mpr (Array.getElem?_eq_some_iff.mp ho).1
      obtain ⟨M2, h2⟩ := traceLoop_minv _ _ _ _ ht ⟨M1, h1'⟩
      exact ⟨c2, M2, hr.symm, h2⟩

/-- `M` contains the roots and is closed under all pointers when every pointer is `mark`-traced or points at a
rooted box -/
theorem ghost_of_reach {h : Heap} {M : Nat → Prop} {cols : Array Colour} (hi : MInv h (Rooted h) M cols [])
    (hcov : MarkCovered h) : ∀ i, Reach h i → M i := by
  have hroot : ∀ i, Rooted h i → M i := by
    intro i hr
    rcases hi.tracked i hr with hm | hm
    · exact hm
    · cases hm
  intro i hr
  induction hr with
  | root hr => exact hroot _ hr
  | @edge j o e _ ho he ih =>
    rcases hcov j o e ho he with hm | hrt
    · rcases hi.closure j o e ih ho he hm with h1 | h1
      · exact h1
      · cases h1
    · exact hroot _ hrt

theorem collectE_safe_mark {h : Heap} {fuel : Nat} {r : CollectResult} (hr : collectE fuel h = .ok r)
    (hcov : MarkCovered h) : ∀ i, Reach h i → i ∈ r.retained := by
  obtain ⟨cols, rfl, hinv, hg⟩ := collectE_inv hr
  obtain ⟨cols2, M, heq, hm⟩ := collectE_minv hr
  have hc : cols = cols2 := congrArg CollectResult.colours heq
  subst hc
  intro i hreach
  rw [mem_retained hinv.size]
  rcases hm.nonwhite i (ghost_of_reach hm hcov i hreach) with hgrey | hblack
  · exact absurd hgrey (hg i)
  · exact hblack

end Yarel.Gc
