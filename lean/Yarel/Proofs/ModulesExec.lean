/-
The main induction over `exec` / `stepWith` / `importWith`: from a well-formed state every outcome is well-formed,
extends the start state, leaves the modules on the frame stack untouched and unread, and is never the model fault;
the fuel `fuelFor` suffices.
-/
import Yarel.Proofs.ModulesInv

namespace Yarel.Modules

attribute [local irreducible] seedAttrs

/-- what running statements of the active module guarantees (the modules of the frames BELOW are protected). -/
def PostE (cfg : Cfg) (st : State) : Outcome → Prop
  | .ok st' => Inv st' ∧ Ext cfg st.callers st st'
  | .err e st' => Inv st' ∧ Ext cfg st.callers st st' ∧ e ≠ .fault
  | .outOfFuel => True

/-- what one import of `p` guarantees (the importing module and the modules below it are protected). -/
def PostI (cfg : Cfg) (st : State) (p : Nat) : Outcome → Prop
  | .ok st' => Inv st' ∧ Ext cfg st.stack st st' ∧ isImported st'.registry p = true
  | .err e st' => Inv st' ∧ Ext cfg st.stack st st' ∧ e ≠ .fault
  | .outOfFuel => True

theorem bodyStart_target (S : List Nat) (p : Nat) :
    ∀ ev ∈ [Event.bodyStart p], ∀ t, ev.target? = some t → t ∉ S := by
  intro ev hev t ht; simp at hev; subst hev; cases ht

theorem grow_enter {cfg : Cfg} {S : List Nat} {st : State} {p : Nat} {acts : List Action}
    (hp : isReg st.registry p = false) (hS : p ∉ S) (hload : cfg.load p = .body acts) :
    Grow cfg S st ((st.register p).enterBody p) :=
  (Grow.of_register hp hS hload).trans
    (Grow.of_amod (f := ModEntry.seed) (q := p) (new := [.bodyStart p]) (fun _ h => h) hS rfl rfl (bodyStart_target S p))

theorem importWith_post (cfg : Cfg) (run : State → List Action → Outcome) (st : State) (p : Nat)
    (hrun : ∀ st2 acts, Inv st2 → PostE cfg st2 (run st2 acts)) (h : Inv st) :
    PostI cfg st p (importWith cfg run st p) := by
  unfold importWith
  split
  · rename_i ent hent
    split
    · rename_i himp
      exact ⟨h, Ext.refl _ _ _, isImported_eq_true.mpr ⟨ent, hent, himp⟩⟩
    · exact ⟨h, Ext.refl _ _ _, by simp⟩
  · rename_i hnone
    have hp : isReg st.registry p = false := by simp [isReg, hnone]
    have hS : p ∉ st.stack := h.not_stack_of_unreg hp
    split
    · exact ⟨h, Ext.refl _ _ _, by simp⟩
    · exact ⟨h, Ext.refl _ _ _, by simp⟩
    · rename_i acts hload
      simp only
      split
      · exact ⟨h.register hp, ⟨Grow.of_register hp hS hload, rfl, rfl, fun q hq => isLoading_append_of hq⟩, by simp⟩
      · have h2 := h.enter hp
        have hpost := hrun _ acts h2
        have g12 : Grow cfg st.stack st ((st.register p).enterBody p) := grow_enter hp hS hload
        have hl12 : ∀ q, isLoading st.registry q = true →
            isLoading ((st.register p).enterBody p).registry q = true := by
          intro q hq
          simp only [State.enterBody, State.register]
          rw [isLoading_amod (f := ModEntry.seed) (fun _ => rfl)]
          exact isLoading_append_of hq
        have hne : ∀ q, isLoading st.registry q = true → q ≠ p := by
          intro q hq e
          have := isReg_of_isLoading hq
          rw [e, hp] at this; cases this
        have hreg2 : isReg ((st.register p).enterBody p).registry p = true := by
          simp only [State.enterBody, isReg_amod, State.register]
          exact isReg_append.mpr (.inr rfl)
        split
        · rename_i st3 hrun3
          rw [hrun3] at hpost
          obtain ⟨h3, e3⟩ := hpost
          have g23 : Grow cfg st.stack ((st.register p).enterBody p) st3 := e3.toGrow
          have g34 : Grow cfg st.stack st3 (State.finishImport st st3 p) :=
            Grow.of_amod (f := ModEntry.finish) (q := p) (new := [.bodyEnd p]) (fun _ _ => rfl) hS rfl rfl
              (by intro ev hev t ht; simp at hev; subst hev; cases ht)
          refine ⟨h3.finish e3.active e3.callers, ⟨(g12.trans g23).trans g34, rfl, rfl, ?_⟩, ?_⟩
          · intro q hq
            simp only [State.finishImport]
            rw [isLoading_amod_ne _ _ (hne q hq)]
            exact e3.loadMono q (hl12 q hq)
          exact isImported_finish_self (g23.regMono p hreg2)
        · rename_i e st3 hrun3
          rw [hrun3] at hpost
          obtain ⟨h3, e3, hnf⟩ := hpost
          have g23 : Grow cfg st.stack ((st.register p).enterBody p) st3 := e3.toGrow
          have g34 : Grow cfg st.stack st3 (State.abortImport st st3 p e) :=
            Grow.of_log (new := [.bodyFail p e]) rfl rfl
              (by intro ev hev t ht; simp at hev; subst hev; cases ht)
          exact ⟨h3.abort e e3.active e3.callers,
            ⟨(g12.trans g23).trans g34, rfl, rfl, fun q hq => e3.loadMono q (hl12 q hq)⟩, hnf⟩
        · trivial

theorem post_setAttr {cfg : Cfg} {S : List Nat} {st : State} (h : Inv st) (q a : Nat) (v : Val) (hq : q ∉ S)
    (hv : ∀ p, v = .module p → isImported st.registry p = true) :
    Inv (st.setAttr q a v) ∧ Ext cfg S st (st.setAttr q a v) :=
  ⟨h.setAttr q a v hv,
   ⟨Grow.of_amod (f := ModEntry.setAttr a v) (q := q) (new := []) (fun _ h => h) hq rfl (by simp [State.setAttr])
      (by simp), rfl, rfl,
      fun x hx => by simp only [State.setAttr]; rw [isLoading_amod (f := ModEntry.setAttr a v) (fun _ => rfl)]; exact hx⟩⟩

theorem post_logEv {cfg : Cfg} {S : List Nat} {st : State} (h : Inv st) (ev : Event) (hev : ev.isStart = false)
    (ht : ∀ t, ev.target? = some t → t ∉ S) : Inv (st.logEv ev) ∧ Ext cfg S st (st.logEv ev) :=
  ⟨h.logEv ev hev,
   ⟨Grow.of_log (new := [ev]) rfl rfl (by intro e he; simp at he; subst he; exact ht), rfl, rfl, fun _ h => h⟩⟩

theorem post_bind {cfg : Cfg} {S : List Nat} {st : State} (h : Inv st) (b p : Nat)
    (hp : isImported st.registry p = true) (hS : st.active ∉ S) :
    Inv (st.bindImport b p) ∧ Ext cfg S st (st.bindImport b p) := by
  obtain ⟨h1, e1⟩ := post_setAttr (cfg := cfg) (S := S) h st.active b (.module p) hS
    (by intro p' hp'; cases hp'; exact hp)
  obtain ⟨h2, e2⟩ := post_logEv (cfg := cfg) (S := S) h1 (.bound st.active b p) rfl (by intro t ht; cases ht)
  exact ⟨h2, e1.trans e2⟩

theorem post_reseed {cfg : Cfg} {S : List Nat} {st : State} (h : Inv st) (hS : st.active ∉ S) :
    Inv st.reseedAfterOverflow ∧ Ext cfg S st st.reseedAfterOverflow :=
  ⟨h.reseed,
   ⟨Grow.of_amod (f := ModEntry.seed) (q := st.active) (new := []) (fun _ h => h) hS rfl
      (by simp [State.reseedAfterOverflow]) (by simp), rfl, rfl,
      fun x hx => by
        simp only [State.reseedAfterOverflow]; rw [isLoading_amod (f := ModEntry.seed) (fun _ => rfl)]; exact hx⟩⟩

theorem post_catch {cfg : Cfg} {S : List Nat} {st : State} (h : Inv st) (e : Err) (hS : st.active ∉ S) :
    Inv (st.catchImport e) ∧ Ext cfg S st (st.catchImport e) := by
  unfold State.catchImport
  split
  · obtain ⟨h1, e1⟩ := post_reseed (cfg := cfg) (S := S) h hS
    obtain ⟨h2, e2⟩ := post_logEv (cfg := cfg) (S := S) h1 (.caught st.active e) rfl (by intro t ht; cases ht)
    exact ⟨h2, e1.trans e2⟩
  · exact post_logEv h _ rfl (by intro t ht; cases ht)

theorem stack_sub (st : State) : ∀ q ∈ st.callers, q ∈ st.stack := fun _ h => List.mem_cons_of_mem _ h

theorem stepWith_post (cfg : Cfg) (run : State → List Action → Outcome) (st : State) (a : Action)
    (hrun : ∀ st2 acts, Inv st2 → PostE cfg st2 (run st2 acts)) (h : Inv st) :
    PostE cfg st (stepWith cfg run st a) := by
  obtain ⟨ent, hent, -⟩ := isLoading_eq_true.mp h.active_loading
  have hact : st.active ∉ st.callers := h.active_not_caller
  have hregA : isReg st.registry st.active = true := isReg_eq_true.mpr ⟨ent, hent⟩
  unfold stepWith
  rw [hent]
  simp only
  cases a with
  | define n v =>
    exact post_setAttr h _ _ _ hact (by intro p hp; cases hp)
  | assign n v =>
    simp only
    split
    · exact post_setAttr h _ _ _ hact (by intro p hp; cases hp)
    · exact ⟨h, Ext.refl _ _ _, by simp⟩
  | importMod p b =>
    simp only
    have hI := importWith_post cfg run st p hrun h
    split
    · rename_i st' hi
      rw [hi] at hI
      obtain ⟨h', e', himp⟩ := hI
      have e'' : Ext cfg st.callers st st' := e'.mono (stack_sub st)
      have hS : st'.active ∉ st.callers := by rw [e'.active]; exact hact
      obtain ⟨h2, e2⟩ := post_bind (cfg := cfg) (S := st.callers) h' b p himp hS
      exact ⟨h2, e''.trans e2⟩
    · rename_i o hno
      cases hi : importWith cfg run st p with
      | ok st' => exact absurd hi (hno st')
      | err e st' =>
        rw [hi] at hI
        exact ⟨hI.1, hI.2.1.mono (stack_sub st), hI.2.2⟩
      | outOfFuel => trivial
  | tryImport p b =>
    simp only
    have hI := importWith_post cfg run st p hrun h
    split
    · rename_i st' hi
      rw [hi] at hI
      obtain ⟨h', e', himp⟩ := hI
      have e'' : Ext cfg st.callers st st' := e'.mono (stack_sub st)
      have hS : st'.active ∉ st.callers := by rw [e'.active]; exact hact
      obtain ⟨h2, e2⟩ := post_bind (cfg := cfg) (S := st.callers) h' b p himp hS
      exact ⟨h2, e''.trans e2⟩
    · rename_i e st' hi
      rw [hi] at hI
      obtain ⟨h', e', _⟩ := hI
      have e'' : Ext cfg st.callers st st' := e'.mono (stack_sub st)
      have hS : st'.active ∉ st.callers := by rw [e'.active]; exact hact
      obtain ⟨h2, e2⟩ := post_catch (cfg := cfg) (S := st.callers) h' e hS
      exact ⟨h2, e''.trans e2⟩
    · trivial
  | readGlobal n =>
    simp only
    split
    · exact post_logEv h _ rfl (by intro t ht; cases ht; exact hact)
    · exact ⟨h, Ext.refl _ _ _, by simp⟩
  | readAttr x a =>
    simp only
    split
    · exact ⟨h, Ext.refl _ _ _, by simp⟩
    · rename_i q hx
      have himp : isImported st.registry q = true := h.handles _ _ (mem_of_aget hent) _ _ (mem_of_aget hx)
      obtain ⟨tgt, htgt, -⟩ := isImported_eq_true.mp himp
      rw [htgt]
      simp only
      split
      · refine post_logEv h _ rfl ?_
        intro t ht; cases ht
        exact fun hm => h.not_stack_of_imported himp (stack_sub st _ hm)
      · exact ⟨h, Ext.refl _ _ _, by simp⟩
    · exact ⟨h, Ext.refl _ _ _, by simp⟩
  | setAttr x a v =>
    simp only
    split
    · exact ⟨h, Ext.refl _ _ _, by simp⟩
    · rename_i q hx
      have himp : isImported st.registry q = true := h.handles _ _ (mem_of_aget hent) _ _ (mem_of_aget hx)
      obtain ⟨tgt, htgt, -⟩ := isImported_eq_true.mp himp
      rw [htgt]
      simp only
      exact post_setAttr h _ _ _ (fun hm => h.not_stack_of_imported himp (stack_sub st _ hm))
        (by intro p hp; cases hp)
    · exact ⟨h, Ext.refl _ _ _, by simp⟩
  | fail t => exact ⟨h, Ext.refl _ _ _, by simp⟩
  | print t => exact post_logEv h _ rfl (by intro t ht; cases ht)

theorem exec_post (cfg : Cfg) (fuel : Nat) : ∀ (st : State) (acts : List Action), Inv st →
    PostE cfg st (exec cfg fuel st acts) := by
  induction fuel with
  | zero =>
    intro st acts h
    cases acts with
    | nil => exact ⟨h, Ext.refl _ _ _⟩
    | cons a rest => trivial
  | succ fuel ih =>
    intro st acts h
    induction acts generalizing st with
    | nil => exact ⟨h, Ext.refl _ _ _⟩
    | cons a rest ihr =>
      have hs := stepWith_post cfg (exec cfg fuel) st a ih h
      simp only [exec]
      split
      · rename_i st' hst
        rw [hst] at hs
        obtain ⟨h', e'⟩ := hs
        have hr := ih st' rest h'
        cases hr' : exec cfg fuel st' rest with
        | ok st'' =>
          rw [hr'] at hr
          exact ⟨hr.1, e'.trans (e'.callers ▸ hr.2)⟩
        | err e st'' =>
          rw [hr'] at hr
          exact ⟨hr.1, e'.trans (e'.callers ▸ hr.2.1), hr.2.2⟩
        | outOfFuel => trivial
      · rename_i o hno
        cases hst : stepWith cfg (exec cfg fuel) st a with
        | ok st' => exact absurd hst (hno st')
        | err e st' => rw [hst] at hs; exact hs
        | outOfFuel => trivial

theorem startImport_post (cfg : Cfg) (fuel : Nat) (st : State) (p : Nat) (h : Inv st) :
    PostI cfg st p (startImport cfg fuel st p) :=
  importWith_post cfg _ st p (exec_post cfg fuel) h

/-! ### fuel -/

theorem importWith_ne_oof (cfg : Cfg) (run : State → List Action → Outcome) (st : State) (p : Nat)
    (hrun : ∀ acts, cfg.load p = .body acts → isReg st.registry p = false →
      run ((st.register p).enterBody p) acts ≠ .outOfFuel) :
    importWith cfg run st p ≠ .outOfFuel := by
  unfold importWith
  split
  · split <;> simp
  · rename_i hnone
    have hp : isReg st.registry p = false := by simp [isReg, hnone]
    split
    · simp
    · simp
    · rename_i acts hload
      simp only
      split
      · simp
      · have := hrun acts hload hp
        split
        · simp
        · simp
        · rename_i h; exact absurd h this

theorem stepWith_ne_oof (cfg : Cfg) (run : State → List Action → Outcome) (st : State) (a : Action)
    (hrun : ∀ p acts, cfg.load p = .body acts → isReg st.registry p = false →
      run ((st.register p).enterBody p) acts ≠ .outOfFuel) :
    stepWith cfg run st a ≠ .outOfFuel := by
  unfold stepWith
  split
  · simp
  · cases a with
    | importMod p b =>
      simp only
      have := importWith_ne_oof cfg run st p (hrun p)
      split
      · simp
      · rename_i o _; exact this
    | tryImport p b =>
      simp only
      have := importWith_ne_oof cfg run st p (hrun p)
      split
      · simp
      · simp
      · rename_i h; exact absurd h this
    | define n v => simp
    | assign n v => simp only; split <;> simp
    | readGlobal n => simp only; split <;> simp
    | readAttr x a => simp only; split <;> (try split) <;> (try split) <;> simp
    | setAttr x a v => simp only; split <;> (try split) <;> simp
    | fail t => simp
    | print t => simp

theorem exec_ne_oof (cfg : Cfg) (fuel : Nat) : ∀ (st : State) (acts : List Action), Inv st →
    acts.length + pend bodyCost cfg.prog st.registry ≤ fuel → exec cfg fuel st acts ≠ .outOfFuel := by
  induction fuel with
  | zero =>
    intro st acts h hf
    cases acts with
    | nil => simp [exec]
    | cons a rest => simp at hf
  | succ fuel ih =>
    intro st acts h hf
    induction acts generalizing st with
    | nil => simp [exec]
    | cons a rest ihr =>
      have hrun : ∀ p acts, cfg.load p = .body acts → isReg st.registry p = false →
          exec cfg fuel ((st.register p).enterBody p) acts ≠ .outOfFuel := by
        intro p acts hload hp
        apply ih _ _ (h.enter hp)
        have hmono : ∀ q, isReg st.registry q = true → isReg ((st.register p).enterBody p).registry q = true := by
          intro q hq
          simp only [State.enterBody, isReg_amod, State.register]
          exact isReg_append.mpr (.inl hq)
        have := pend_register bodyCost cfg.prog (load_body hload) hp
          (by simp only [State.enterBody, isReg_amod, State.register]; exact isReg_append.mpr (.inr rfl)) hmono
        simp only [bodyCost, List.length_cons] at this hf
        omega
      have hs := stepWith_ne_oof cfg (exec cfg fuel) st a hrun
      have hp := stepWith_post cfg (exec cfg fuel) st a (exec_post cfg fuel) h
      simp only [exec]
      split
      · rename_i st' hst
        rw [hst] at hp
        apply ih st' rest hp.1
        have := pend_mono bodyCost cfg.prog hp.2.regMono
        simp only [List.length_cons] at hf
        omega
      · rename_i o hno
        exact hs

end Yarel.Modules
