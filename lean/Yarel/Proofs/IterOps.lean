/-
MapIter / FilterIter / for loop / collect / reduce against the model sequence.
-/
import Yarel.Model.Iter
namespace Yarel.Iter
open Yarel.Index (Outcome Site)

theorem omap_eq_ok {β γ : Type} {f : β → γ} {o : Outcome β} {c : γ} (h : omap f o = .ok c) :
    ∃ b, o = .ok b ∧ f b = c := by
  cases o with
  | ok b => exact ⟨b, rfl, by simpa [omap] using h⟩
  | err e => simp [omap] at h
  | fault s => simp [omap] at h

/-! ### MapIter -/

theorem mapNext_pure {σ W α : Type} (inner : Step σ W α) (f : α → Item α) (it it1 : σ) (w : W) (x : Item α)
    (h : inner it w = .ok (it1, w, x)) : mapNext inner (pureFn f) it w = .ok (it1, w, mapItem f x) := by
  unfold mapNext
  rw [h]
  cases x <;> rfl

theorem Yields.map {σ W α : Type} (inner : Step σ W α) (f : α → Item α) :
    ∀ (xs : List (Item α)) (it it' : σ), Yields inner it xs it' →
      Yields (mapNext inner (pureFn f)) it (xs.map (mapItem f)) it'
  | [], _, _, h => h
  | x :: xs, it, it', ⟨it1, h1, hy⟩ =>
    ⟨it1, fun w => mapNext_pure inner f it it1 w x (h1 w), Yields.map inner f xs it1 it' hy⟩

theorem YieldsThenStop.map {σ W α : Type} {inner : Step σ W α} (f : α → Item α) {it : σ} {xs : List (Item α)}
    (h : YieldsThenStop inner it xs) : YieldsThenStop (mapNext inner (pureFn f)) it (xs.map (mapItem f)) := by
  obtain ⟨it', it'', hy, hs⟩ := h
  exact ⟨it', it'', Yields.map inner f xs it it' hy, fun w => mapNext_pure inner f it' it'' w .stop (hs w)⟩

/-! ### FilterIter -/

theorem filterNext_mono {σ W α : Type} (inner : Step σ W α) (p : Fn W α Bool) :
    ∀ (n : Nat) (it : σ) (w : W) (r : σ × W × Item α), filterNext inner p n it w = .ok r →
      ∀ m, n ≤ m → filterNext inner p m it w = .ok r
  | 0, _, _, _, h, _, _ => by simp [filterNext] at h
  | n + 1, it, w, r, h, m, hm => by
    obtain ⟨m, rfl⟩ : ∃ k, m = k + 1 := ⟨m - 1, by omega⟩
    unfold filterNext at h ⊢
    cases hin : inner it w with
    | ok t =>
      obtain ⟨it1, w1, v⟩ := t
      rw [hin] at h
      cases v with
      | val a =>
        simp only at h ⊢
        cases hp : p a w1 with
        | ok q =>
          obtain ⟨w2, b⟩ := q
          rw [hp] at h
          cases b with
          | true => exact h
          | false => exact filterNext_mono inner p n it1 w2 r h m (by omega)
        | err e => rw [hp] at h; simp at h
        | fault s => rw [hp] at h; simp at h
      | stop => exact h
      | stopSub a => exact h
    | err e => rw [hin] at h; simp at h
    | fault s => rw [hin] at h; simp at h

theorem filterNext_pass {σ W α : Type} (inner : Step σ W α) (p : α → Bool) (n : Nat) (it it1 : σ) (w : W)
    (x : Item α) (h : inner it w = .ok (it1, w, x)) (hk : keepItem p x = true) :
    filterNext inner (pureFn p) (n + 1) it w = .ok (it1, w, x) := by
  unfold filterNext
  rw [h]
  cases x with
  | val a => simp only [keepItem] at hk; simp only [pureFn, hk]
  | stop => rfl
  | stopSub a => rfl

theorem filterNext_skip {σ W α : Type} (inner : Step σ W α) (p : α → Bool) (n : Nat) (it it1 : σ) (w : W)
    (x : Item α) (h : inner it w = .ok (it1, w, x)) (hk : keepItem p x = false) :
    filterNext inner (pureFn p) (n + 1) it w = filterNext inner (pureFn p) n it1 w := by
  conv => lhs; unfold filterNext
  rw [h]
  cases x with
  | val a => simp only [keepItem] at hk; simp only [pureFn, hk]
  | stop => simp [keepItem] at hk
  | stopSub a => simp [keepItem] at hk

/-- The first call: its answer and the state it leaves, as an existential over the rest. -/
theorem filter_yields {σ W α : Type} (inner : Step σ W α) (p : α → Bool) :
    ∀ (xs : List (Item α)) (it : σ), YieldsThenStop inner it xs → ∀ F, xs.length < F →
      YieldsThenStop (filterNext inner (pureFn p) F) it (xs.filter (keepItem p))
  | [], it, ⟨it', it'', hy, hs⟩, F, hF => by
    simp only [Yields] at hy
    subst hy
    obtain ⟨F, rfl⟩ : ∃ k, F = k + 1 := ⟨F - 1, by simp at hF; omega⟩
    exact ⟨it', it'', rfl, fun w => filterNext_pass inner p F it' it'' w .stop (hs w) rfl⟩
  | x :: xs, it, ⟨it', it'', ⟨it1, h1, hy⟩, hs⟩, F, hF => by
    obtain ⟨F, rfl⟩ : ∃ k, F = k + 1 := ⟨F - 1, by simp at hF; omega⟩
    simp only [List.length_cons] at hF
    have ih := filter_yields inner p xs it1 ⟨it', it'', hy, hs⟩
    by_cases hk : keepItem p x = true
    · obtain ⟨j, j', hyj, hsj⟩ := ih (F + 1) (by omega)
      rw [List.filter_cons_of_pos hk]
      exact ⟨j, j', ⟨it1, fun w => filterNext_pass inner p F it it1 w x (h1 w) hk, hyj⟩, hsj⟩
    · have hk : keepItem p x = false := by simpa using hk
      rw [List.filter_cons_of_neg (by simp [hk])]
      have hskip : ∀ w, filterNext inner (pureFn p) (F + 1) it w = filterNext inner (pureFn p) (F + 1) it1 w := by
        intro w
        rw [filterNext_skip inner p F it it1 w x (h1 w) hk]
        -- the call with less fuel succeeds (IH at fuel F), so more fuel gives the same
        obtain ⟨j, j', hyj, hsj⟩ := ih F (by omega)
        cases hfl : xs.filter (keepItem p) with
        | nil =>
          rw [hfl] at hyj
          simp only [Yields] at hyj
          subst hyj
          rw [hsj w, filterNext_mono inner (pureFn p) F _ w _ (hsj w) (F + 1) (by omega)]
        | cons y ys =>
          rw [hfl] at hyj
          obtain ⟨i1, hi1, _⟩ := hyj
          rw [hi1 w, filterNext_mono inner (pureFn p) F it1 w _ (hi1 w) (F + 1) (by omega)]
      obtain ⟨j, j', hyj, hsj⟩ := ih (F + 1) (by omega)
      cases hfl : xs.filter (keepItem p) with
      | nil =>
        rw [hfl] at hyj
        simp only [Yields] at hyj
        subst hyj
        exact ⟨it, j', rfl, fun w => by rw [hskip w]; exact hsj w⟩
      | cons y ys =>
        rw [hfl] at hyj
        obtain ⟨i1, hi1, hrest⟩ := hyj
        exact ⟨j, j', ⟨i1, fun w => by rw [hskip w]; exact hi1 w, hrest⟩, hsj⟩

/-! ### the for loop -/

theorem forLoop_spec {σ W α : Type} (next : Step σ W α) (body : Body W α) :
    ∀ (xs : List (Item α)) (it : σ), YieldsThenStop next it xs → ∀ (fuel : Nat) (w : W), xs.length < fuel →
      omap LoopEnd.obs (forLoop next body fuel it w) = loopSpec body xs w
  | [], it, ⟨it', it'', hy, hs⟩, fuel, w, hF => by
    simp only [Yields] at hy
    subst hy
    obtain ⟨fuel, rfl⟩ : ∃ k, fuel = k + 1 := ⟨fuel - 1, by simp at hF; omega⟩
    simp only [forLoop, hs w, Item.isStop, if_true, omap, LoopEnd.obs, loopSpec]
  | x :: xs, it, ⟨it', it'', ⟨it1, h1, hy⟩, hs⟩, fuel, w, hF => by
    obtain ⟨fuel, rfl⟩ : ∃ k, fuel = k + 1 := ⟨fuel - 1, by simp at hF; omega⟩
    simp only [List.length_cons] at hF
    have ih := forLoop_spec next body xs it1 ⟨it', it'', hy, hs⟩ fuel
    simp only [forLoop, h1 w, loopSpec]
    by_cases hx : x.isStop = true
    · simp only [hx, if_true, omap, LoopEnd.obs]
    · simp only [hx]
      cases hb : body x w with
      | ok r =>
        obtain ⟨w2, sg⟩ := r
        cases sg <;> simp only [Bool.false_eq_true, if_false, omap, LoopEnd.obs] <;> exact ih w2 (by omega)
      | err e => simp [omap]
      | fault s => simp [omap]

theorem Yields.withLocal {σ W α β : Type} (next : Step σ W α) :
    ∀ (xs : List (Item α)) (it it' : σ), Yields next it xs it' → Yields (withLocal (β := β) next) it xs it'
  | [], _, _, h => h
  | _ :: xs, _, it', ⟨it1, h1, hy⟩ =>
    ⟨it1, fun w => by simp only [Iter.withLocal, h1 w.1], Yields.withLocal next xs it1 it' hy⟩

theorem YieldsThenStop.withLocal {σ W α β : Type} {next : Step σ W α} {it : σ} {xs : List (Item α)}
    (h : YieldsThenStop next it xs) : YieldsThenStop (withLocal (β := β) next) it xs := by
  obtain ⟨it', it'', hy, hs⟩ := h
  exact ⟨it', it'', Yields.withLocal next xs it it' hy, fun w => by simp only [Iter.withLocal, hs w.1]⟩

theorem cut_cons_of_not_stop {α : Type} (x : Item α) (xs : List (Item α)) (h : x.isStop = false) :
    cut (x :: xs) = x :: cut xs := by
  simp [cut, h]

theorem cut_cons_of_stop {α : Type} (x : Item α) (xs : List (Item α)) (h : x.isStop = true) :
    cut (x :: xs) = [] := by
  simp [cut, h]

theorem loopSpec_push {W α : Type} :
    ∀ (xs : List (Item α)) (w : W) (acc : List (Item α)),
      loopSpec collectBody xs (w, acc) = .ok ((w, acc ++ cut xs), .stop, false)
  | [], w, acc => by simp [loopSpec, cut]
  | x :: xs, w, acc => by
    by_cases hx : x.isStop = true
    · have : x = .stop := by cases x <;> simp_all [Item.isStop]
      subst this
      rw [cut_cons_of_stop _ xs rfl]
      simp [loopSpec, Item.isStop]
    · have hx : x.isStop = false := by simpa using hx
      have hb : collectBody x (w, acc) = .ok ((w, acc ++ [x]), Signal.next) := rfl
      simp only [loopSpec, hx, Bool.false_eq_true, if_false, hb, loopSpec_push xs w, cut_cons_of_not_stop x xs hx,
        List.append_assoc, List.singleton_append]

theorem collect_spec {σ W α : Type} (next : Step σ W α) (xs : List (Item α)) (it : σ)
    (h : YieldsThenStop next it xs) (fuel : Nat) (w : W) (hF : xs.length < fuel) :
    ∃ it_end, collect next fuel it w = .ok (it_end, w, cut xs) := by
  have hs := forLoop_spec (withLocal (β := List (Item α)) next) collectBody xs it h.withLocal fuel (w, []) hF
  rw [loopSpec_push] at hs
  obtain ⟨r, hr, hobs⟩ := omap_eq_ok hs
  refine ⟨r.iter, ?_⟩
  simp only [collect, hr]
  simp only [LoopEnd.obs, Prod.mk.injEq, List.nil_append] at hobs
  rw [← hobs.1]

theorem loopSpec_reduce {W α β : Type} (g : β → Item α → β) :
    ∀ (xs : List (Item α)) (w : W) (acc : β),
      loopSpec (reduceBody fun b => pureFn (g b)) xs (w, acc) = .ok ((w, (cut xs).foldl g acc), .stop, false)
  | [], w, acc => by simp [loopSpec, cut]
  | x :: xs, w, acc => by
    by_cases hx : x.isStop = true
    · have : x = .stop := by cases x <;> simp_all [Item.isStop]
      subst this
      rw [cut_cons_of_stop _ xs rfl]
      simp [loopSpec, Item.isStop]
    · have hx : x.isStop = false := by simpa using hx
      have hb : reduceBody (fun b => pureFn (g b)) x (w, acc) = .ok ((w, g acc x), Signal.next) := rfl
      simp only [loopSpec, hx, Bool.false_eq_true, if_false, hb, loopSpec_reduce g xs w, cut_cons_of_not_stop x xs hx,
        List.foldl_cons]

theorem reduce_spec {σ W α β : Type} (next : Step σ W α) (g : β → Item α → β) (init : β)
    (xs : List (Item α)) (it : σ) (h : YieldsThenStop next it xs) (fuel : Nat) (w : W) (hF : xs.length < fuel) :
    ∃ it_end, reduce next (fun b => pureFn (g b)) init fuel it w = .ok (it_end, w, (cut xs).foldl g init) := by
  have hs := forLoop_spec (withLocal (β := β) next) (reduceBody fun b => pureFn (g b)) xs it h.withLocal fuel
    (w, init) hF
  rw [loopSpec_reduce] at hs
  obtain ⟨r, hr, hobs⟩ := omap_eq_ok hs
  refine ⟨r.iter, ?_⟩
  simp only [reduce, hr]
  simp only [LoopEnd.obs, Prod.mk.injEq] at hobs
  rw [← hobs.1]

theorem cut_eq_self {α : Type} : ∀ (xs : List (Item α)), (∀ x ∈ xs, x.isStop = false) → cut xs = xs
  | [], _ => rfl
  | x :: xs, h => by
    rw [cut_cons_of_not_stop x xs (h x (by simp)), cut_eq_self xs fun y hy => h y (by simp [hy])]

theorem cut_append_stop {α : Type} (s : Item α) (rest : List (Item α)) (hs : s.isStop = true) :
    ∀ (pre : List (Item α)), (∀ y ∈ pre, y.isStop = false) → cut (pre ++ s :: rest) = pre
  | [], _ => cut_cons_of_stop s rest hs
  | y :: pre, h => by
    rw [List.cons_append, cut_cons_of_not_stop y _ (h y (by simp)),
      cut_append_stop s rest hs pre fun z hz => h z (by simp [hz])]

/-! ### declarative reading of `loopSpec`, `continue` -/

theorem loopSpec_visits {W α : Type} (eff : Item α → W → W) (sig : Item α → Signal) :
    ∀ (xs : List (Item α)), (∀ x ∈ xs, x.isStop = false) → ∀ (w : W),
      loopSpec (fun v w => .ok (eff v w, sig v)) xs w =
        .ok ((xs.take ((xs.takeWhile fun x => sig x != .brk).length + 1)).foldl (fun w v => eff v w) w,
             orStop xs[(xs.takeWhile fun x => sig x != .brk).length]?,
             decide ((xs.takeWhile fun x => sig x != .brk).length < xs.length))
  | [], _, w => by simp [loopSpec, orStop]
  | x :: xs, h, w => by
    have hx : x.isStop = false := h x (by simp)
    have ih := loopSpec_visits eff sig xs (fun y hy => h y (by simp [hy]))
    simp only [loopSpec, hx, Bool.false_eq_true, if_false]
    cases hs : sig x with
    | brk => simp [hs, orStop]
    | next => simp [hs, ih, orStop]
    | cont => simp [hs, ih, orStop]

theorem forLoop_contAsNext {σ W α : Type} (next : Step σ W α) (body : Body W α) :
    ∀ (fuel : Nat) (it : σ) (w : W), forLoop next (contAsNext body) fuel it w = forLoop next body fuel it w
  | 0, _, _ => rfl
  | n + 1, it, w => by
    unfold forLoop
    cases hn : next it w with
    | ok t =>
      obtain ⟨it1, w1, v⟩ := t
      simp only
      split
      · rfl
      · have ih := forLoop_contAsNext next body n it1
        cases hb : body v w1 with
        | ok q =>
          obtain ⟨w2, sg⟩ := q
          cases sg with
          | next =>
            have : contAsNext body v w1 = .ok (w2, .next) := by simp only [contAsNext, hb]
            rw [this]; exact ih w2
          | brk =>
            have : contAsNext body v w1 = .ok (w2, .brk) := by simp only [contAsNext, hb]
            rw [this]
          | cont =>
            have : contAsNext body v w1 = .ok (w2, .next) := by simp only [contAsNext, hb]
            rw [this]; exact ih w2
        | err e =>
          have : contAsNext body v w1 = .err e := by simp only [contAsNext, hb]
          rw [this]
        | fault s =>
          have : contAsNext body v w1 = .fault s := by simp only [contAsNext, hb]
          rw [this]
    | err e => rfl
    | fault s => rfl

end Yarel.Iter
