/-
replace / split lemmas: character-level equations, validity of results, split/join.
-/
import Yarel.Proofs.StrFind
namespace Yarel.Str
open Yarel Yarel.Utf8 Yarel.Index

/-! ### replace -/

theorem replaceGo_skip (old new : Bytes) : ∀ (pre t : Bytes),
    replaceGo old new (pre ++ t) pre.length = replaceGo old new t 0 := by
  intro pre
  induction pre with
  | nil =>
    intro t
    cases t <;> rfl
  | cons b pre ih => intro t; simp only [List.cons_append, List.length_cons, replaceGo, ih]

theorem replace_nil (old new : Bytes) : replace [] old new = [] := rfl

theorem replace_match {old new : Bytes} (hne : old ≠ []) (t : Bytes) :
    replace (old ++ t) old new = new ++ replace t old new := by
  cases old with
  | nil => exact absurd rfl hne
  | cons o os =>
    unfold replace
    have hp : (o :: os).isPrefixOf (o :: (os ++ t)) = true := by
      rw [List.isPrefixOf_iff_prefix]; exact ⟨t, rfl⟩
    simp only [List.cons_append, replaceGo, hp, ↓reduceIte, List.length_cons, Nat.add_sub_cancel,
      replaceGo_skip]

theorem replace_nomatch_byte {old new : Bytes} {b : UInt8} {t : Bytes} (h : ¬ old <+: b :: t) :
    replace (b :: t) old new = b :: replace t old new := by
  unfold replace
  have hp : old.isPrefixOf (b :: t) = false := by
    rw [← Bool.not_eq_true, List.isPrefixOf_iff_prefix]; exact h
  simp only [replaceGo, hp, Bool.false_eq_true, ↓reduceIte]

theorem not_prefix_of_cont {old : Bytes} (hold : Valid old) (hne : old ≠ []) {b : UInt8} (hb : isCont b = true)
    (t : Bytes) : ¬ old <+: b :: t := by
  cases old with
  | nil => exact absurd rfl hne
  | cons o os =>
    rintro ⟨r, hr⟩
    simp only [List.cons_append, List.cons.injEq] at hr
    have := hold.head_not_cont
    rw [hr.1, hb] at this
    exact absurd this (by simp)

theorem replace_cont {old new : Bytes} (hold : Valid old) (hne : old ≠ []) :
    ∀ (k : Bytes), (∀ b ∈ k, isCont b = true) → ∀ t, replace (k ++ t) old new = k ++ replace t old new := by
  intro k
  induction k with
  | nil => intro _ t; rfl
  | cons b k ih =>
    intro hk t
    rw [List.cons_append, replace_nomatch_byte (not_prefix_of_cont hold hne (hk b (by simp)) _),
      ih (fun x hx => hk x (by simp [hx]))]
    rfl

theorem replace_char {old new : Bytes} (hold : Valid old) (hne : old ≠ []) {c : Nat} (hc : isScalar c = true)
    {rest : Bytes} (h : ¬ old <+: encodeCP c ++ rest) :
    replace (encodeCP c ++ rest) old new = encodeCP c ++ replace rest old new := by
  obtain ⟨b0, tl, he, _, htl, _⟩ := encodeCP_shape c (isScalar_le hc)
  rw [he] at h ⊢
  rw [List.cons_append] at h ⊢
  rw [replace_nomatch_byte h, replace_cont hold hne tl htl]
  rfl

theorem replace_valid {old new : Bytes} (hold : Valid old) (hne : old ≠ []) (hnew : Valid new) :
    ∀ (n : Nat) (s : Bytes), s.length ≤ n → Valid s → Valid (replace s old new) := by
  intro n
  induction n with
  | zero =>
    intro s hn _
    have : s = [] := List.eq_nil_of_length_eq_zero (by omega)
    subst this; exact Valid.nil
  | succ n ih =>
    intro s hn hs
    by_cases hp : old <+: s
    · obtain ⟨t, rfl⟩ := hp
      rw [replace_match hne]
      have hpos : 0 < old.length := List.length_pos_iff.mpr hne
      exact hnew.append (ih t (by simp only [List.length_append] at hn; omega) (hold.cancel_left hs))
    · rcases hs.cases with rfl | ⟨c, rest, hc, rfl, hrest⟩
      · exact Valid.nil
      · rw [replace_char hold hne hc hp]
        have hpos := encodeCP_length_pos c
        exact (Valid.encodeCP hc).append
          (ih rest (by simp only [List.length_append] at hn; omega) hrest)

/-! ### split -/

theorem splitGo_skip (pat : Bytes) : ∀ (pre t : Bytes),
    splitGo pat (pre ++ t) pre.length = splitGo pat t 0 := by
  intro pre
  induction pre with
  | nil => intro t; cases t <;> rfl
  | cons b pre ih => intro t; simp only [List.cons_append, List.length_cons, splitGo, ih]

theorem splitGo_match {pat : Bytes} (hne : pat ≠ []) (t : Bytes) :
    splitGo pat (pat ++ t) 0 = ([], (splitGo pat t 0).1 :: (splitGo pat t 0).2) := by
  cases pat with
  | nil => exact absurd rfl hne
  | cons o os =>
    have hp : (o :: os).isPrefixOf (o :: (os ++ t)) = true := by
      rw [List.isPrefixOf_iff_prefix]; exact ⟨t, rfl⟩
    simp only [List.cons_append, splitGo, hp, ↓reduceIte, List.length_cons, Nat.add_sub_cancel,
      splitGo_skip]

theorem splitGo_nomatch_byte {pat : Bytes} {b : UInt8} {t : Bytes} (h : ¬ pat <+: b :: t) :
    splitGo pat (b :: t) 0 = (b :: (splitGo pat t 0).1, (splitGo pat t 0).2) := by
  have hp : pat.isPrefixOf (b :: t) = false := by
    rw [← Bool.not_eq_true, List.isPrefixOf_iff_prefix]; exact h
  simp only [splitGo, hp, Bool.false_eq_true, ↓reduceIte]

theorem splitGo_cont {pat : Bytes} (hpat : Valid pat) (hne : pat ≠ []) :
    ∀ (k : Bytes), (∀ b ∈ k, isCont b = true) → ∀ t,
      splitGo pat (k ++ t) 0 = (k ++ (splitGo pat t 0).1, (splitGo pat t 0).2) := by
  intro k
  induction k with
  | nil => intro _ t; rfl
  | cons b k ih =>
    intro hk t
    rw [List.cons_append, splitGo_nomatch_byte (not_prefix_of_cont hpat hne (hk b (by simp)) _),
      ih (fun x hx => hk x (by simp [hx]))]
    rfl

theorem splitGo_char {pat : Bytes} (hpat : Valid pat) (hne : pat ≠ []) {c : Nat} (hc : isScalar c = true)
    {rest : Bytes} (h : ¬ pat <+: encodeCP c ++ rest) :
    splitGo pat (encodeCP c ++ rest) 0 =
      (encodeCP c ++ (splitGo pat rest 0).1, (splitGo pat rest 0).2) := by
  obtain ⟨b0, tl, he, _, htl, _⟩ := encodeCP_shape c (isScalar_le hc)
  rw [he] at h ⊢
  rw [List.cons_append] at h ⊢
  rw [splitGo_nomatch_byte h, splitGo_cont hpat hne tl htl]
  rfl

theorem splitGo_valid {pat : Bytes} (hpat : Valid pat) (hne : pat ≠ []) :
    ∀ (n : Nat) (s : Bytes), s.length ≤ n → Valid s →
      Valid (splitGo pat s 0).1 ∧ ∀ p ∈ (splitGo pat s 0).2, Valid p := by
  intro n
  induction n with
  | zero =>
    intro s hn _
    have : s = [] := List.eq_nil_of_length_eq_zero (by omega)
    subst this
    exact ⟨Valid.nil, by simp [splitGo]⟩
  | succ n ih =>
    intro s hn hs
    by_cases hp : pat <+: s
    · obtain ⟨t, rfl⟩ := hp
      rw [splitGo_match hne]
      have hpos : 0 < pat.length := List.length_pos_iff.mpr hne
      obtain ⟨h1, h2⟩ := ih t (by simp only [List.length_append] at hn; omega) (hpat.cancel_left hs)
      refine ⟨Valid.nil, ?_⟩
      intro p hp
      rcases List.mem_cons.mp hp with rfl | hp
      · exact h1
      · exact h2 p hp
    · rcases hs.cases with rfl | ⟨c, rest, hc, rfl, hrest⟩
      · exact ⟨Valid.nil, by simp [splitGo]⟩
      · rw [splitGo_char hpat hne hc hp]
        have hpos := encodeCP_length_pos c
        obtain ⟨h1, h2⟩ := ih rest (by simp only [List.length_append] at hn; omega) hrest
        exact ⟨(Valid.encodeCP hc).append h1, h2⟩

theorem split_valid {s pat : Bytes} (hs : Valid s) (hpat : Valid pat) (hne : pat ≠ []) :
    ∀ p ∈ split s pat, Valid p := by
  obtain ⟨h1, h2⟩ := splitGo_valid hpat hne s.length s (Nat.le_refl _) hs
  intro p hp
  unfold split at hp
  rcases List.mem_cons.mp hp with rfl | hp
  · exact h1
  · exact h2 p hp

/-- Joining the pieces with the delimiter gives the string back (bytewise; no validity needed). -/
theorem splitGo_join {pat : Bytes} (hne : pat ≠ []) :
    ∀ (n : Nat) (s : Bytes), s.length ≤ n →
      (splitGo pat s 0).1 ++ (splitGo pat s 0).2.flatMap (fun p => pat ++ p) = s := by
  intro n
  induction n with
  | zero =>
    intro s hn
    have : s = [] := List.eq_nil_of_length_eq_zero (by omega)
    subst this; rfl
  | succ n ih =>
    intro s hn
    by_cases hp : pat <+: s
    · obtain ⟨t, rfl⟩ := hp
      rw [splitGo_match hne]
      have hpos : 0 < pat.length := List.length_pos_iff.mpr hne
      have := ih t (by simp only [List.length_append] at hn; omega)
      simp only [List.flatMap_cons, List.nil_append, List.append_assoc, this]
    · cases s with
      | nil => rfl
      | cons b t =>
        rw [splitGo_nomatch_byte hp]
        have := ih t (by simp only [List.length_cons] at hn; omega)
        simp only [List.cons_append, this]

end Yarel.Str
