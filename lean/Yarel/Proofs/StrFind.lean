/-
find lemmas: `findLoop` = least bytewise occurrence; UTF-8 self-synchronisation.
-/
import Yarel.Proofs.StrChars
namespace Yarel.Str
open Yarel Yarel.Utf8 Yarel.Index

/-! ### find -/

theorem checkedSlice_of_boundaries (site : Site) {s : Bytes} {a b : Nat} (hab : a ≤ b)
    (ha : isBoundary s a = true) (hb : isBoundary s b = true) :
    checkedSlice site s a b = .ok (slice s a b) := by
  unfold checkedSlice
  rw [if_pos ⟨hab, isBoundary_le_length hb, ha, hb⟩]

/-- Least position `j` in `[i, i+n)` at which `sub` occurs in `s` (bytewise). -/
def firstMatch (s sub : Bytes) : Nat → Nat → Option Nat
  | 0, _ => none
  | n + 1, i => if sub.isPrefixOf (s.drop i) then some i else firstMatch s sub n (i + 1)

theorem firstMatch_some_iff (s sub : Bytes) : ∀ (n i j : Nat),
    firstMatch s sub n i = some j ↔
      i ≤ j ∧ j < i + n ∧ sub <+: s.drop j ∧ ∀ j', i ≤ j' → j' < j → ¬ sub <+: s.drop j' := by
  intro n
  induction n with
  | zero => intro i j; simp only [firstMatch, reduceCtorEq, Nat.add_zero, false_iff]; omega
  | succ n ih =>
    intro i j
    simp only [firstMatch]
    split
    · rename_i hp
      rw [List.isPrefixOf_iff_prefix] at hp
      simp only [Option.some.injEq]
      constructor
      · rintro rfl; exact ⟨Nat.le_refl _, by omega, hp, fun j' h1 h2 => by omega⟩
      · rintro ⟨h1, _, _, h4⟩
        by_cases hij : i = j
        · exact hij
        · exact absurd hp (h4 i (Nat.le_refl _) (by omega))
    · rename_i hp
      rw [List.isPrefixOf_iff_prefix] at hp
      rw [ih]
      constructor
      · rintro ⟨h1, h2, h3, h4⟩
        refine ⟨by omega, by omega, h3, fun j' h5 h6 => ?_⟩
        by_cases hij : j' = i
        · subst hij; exact hp
        · exact h4 j' (by omega) h6
      · rintro ⟨h1, h2, h3, h4⟩
        have hne : i ≠ j := by rintro rfl; exact hp h3
        exact ⟨by omega, by omega, h3, fun j' h5 h6 => h4 j' (by omega) h6⟩

theorem firstMatch_none_iff (s sub : Bytes) : ∀ (n i : Nat),
    firstMatch s sub n i = none ↔ ∀ j, i ≤ j → j < i + n → ¬ sub <+: s.drop j := by
  intro n
  induction n with
  | zero => intro i; simp only [firstMatch, Nat.add_zero, true_iff]; intro j h1 h2; omega
  | succ n ih =>
    intro i
    simp only [firstMatch]
    split
    · rename_i hp
      rw [List.isPrefixOf_iff_prefix] at hp
      simp only [reduceCtorEq, false_iff]
      intro h
      exact h i (Nat.le_refl _) (by omega) hp
    · rename_i hp
      rw [List.isPrefixOf_iff_prefix] at hp
      rw [ih]
      constructor
      · intro h j h1 h2
        by_cases hij : j = i
        · subst hij; exact hp
        · exact h j (by omega) (by omega)
      · intro h j h1 h2
        exact h j (by omega) (by omega)

/-- In valid strings a bytewise occurrence of a valid non-empty needle starts and ends on character
boundaries (UTF-8 is self-synchronising), so the boundary tests of `string_find` never reject a match. -/
theorem match_boundaries {s sub : Bytes} (hs : Valid s) (hsub : Valid sub) (hne : sub ≠ []) {i : Nat}
    (hp : sub <+: s.drop i) : isBoundary s i = true ∧ isBoundary s (i + sub.length) = true := by
  obtain ⟨t, ht⟩ := hp
  have hlen : i + sub.length + t.length = s.length := by
    have := congrArg List.length ht
    simp only [List.length_append, List.length_drop] at this
    have hpos : 0 < sub.length := List.length_pos_iff.mpr hne
    omega
  have hb1 : isBoundary s i = true := by
    by_cases h0 : i = 0
    · subst h0; exact isBoundary_zero _
    · have hpos : 0 < sub.length := List.length_pos_iff.mpr hne
      have hlt : i < s.length := by omega
      rw [isBoundary_of_lt hlt h0]
      cases sub with
      | nil => exact absurd rfl hne
      | cons b bs =>
        have : s[i] = b := by
          have h1 : (s.drop i)[0]? = some b := by rw [← ht]; rfl
          rw [List.getElem?_drop, Nat.add_zero, List.getElem?_eq_getElem hlt] at h1
          exact Option.some.inj h1
        rw [this, hsub.head_not_cont]; rfl
  refine ⟨hb1, ?_⟩
  have hd : Valid (s.drop i) := hs.drop_of_boundary hb1
  rw [← ht] at hd
  have htv : Valid t := hsub.cancel_left hd
  have hs' : s = s.take i ++ (sub ++ t) := by rw [ht, List.take_append_drop]
  have hli : (s.take i).length = i := by rw [List.length_take]; omega
  rw [hs', isBoundary_append_right _ (hsub.append htv) (by omega), hli,
    show i + sub.length - i = sub.length by omega]
  exact Valid.boundary_of_append htv

theorem slice_eq_iff_prefix {s sub : Bytes} {i : Nat} :
    slice s i (i + sub.length) = sub ↔ sub <+: s.drop i := by
  unfold Utf8.slice
  rw [show i + sub.length - i = sub.length by omega, List.prefix_iff_eq_take]
  exact eq_comm

theorem prefix_drop_le {s sub : Bytes} {i : Nat} (h : sub <+: s.drop i) (hne : sub ≠ []) :
    i + sub.length ≤ s.length := by
  have := h.length_le
  have hpos : 0 < sub.length := List.length_pos_iff.mpr hne
  simp only [List.length_drop] at this
  omega

theorem findLoop_eq {s sub : Bytes} (hs : Valid s) (hsub : Valid sub) (hne : sub ≠ []) (start : Nat) :
    ∀ (n i : Nat), start ≤ i →
      findLoop s sub start n i =
        match firstMatch s sub n i with
        | some j => .ok (numOfNat j)
        | none => .ok .nil := by
  intro n
  induction n with
  | zero => intro i _; rfl
  | succ n ih =>
    intro i hi
    simp only [findLoop, firstMatch]
    by_cases hp : sub <+: s.drop i
    · obtain ⟨h1, h2⟩ := match_boundaries hs hsub hne hp
      simp only [h1, h2, Bool.not_true, Bool.or_self, Bool.false_eq_true, ↓reduceIte,
        checkedSlice_of_boundaries .findSlice (by omega : i ≤ i + sub.length) h1 h2]
      rw [if_pos ⟨hi, slice_eq_iff_prefix.mpr hp⟩, if_pos (List.isPrefixOf_iff_prefix.mpr hp)]
    · have hpf : sub.isPrefixOf (s.drop i) = false := by
        rw [← Bool.not_eq_true, List.isPrefixOf_iff_prefix]; exact hp
      simp only [hpf, Bool.false_eq_true, ↓reduceIte]
      by_cases hb : (!isBoundary s i || !isBoundary s (i + sub.length)) = true
      · rw [if_pos hb]
        exact ih (i + 1) (by omega)
      · rw [if_neg hb]
        simp only [Bool.or_eq_true, Bool.not_eq_eq_eq_not, Bool.not_true, not_or, Bool.not_eq_false] at hb
        simp only [checkedSlice_of_boundaries .findSlice (by omega : i ≤ i + sub.length) hb.1 hb.2]
        rw [if_neg (fun h => hp (slice_eq_iff_prefix.mp h.2))]
        exact ih (i + 1) (by omega)

theorem findLoop_not_fault (s sub : Bytes) (start : Nat) : ∀ (n i : Nat),
    (findLoop s sub start n i).isFault = false := by
  intro n
  induction n with
  | zero => intro i; rfl
  | succ n ih =>
    intro i
    simp only [findLoop]
    by_cases hb : (!isBoundary s i || !isBoundary s (i + sub.length)) = true
    · rw [if_pos hb]; exact ih (i + 1)
    · rw [if_neg hb]
      simp only [Bool.or_eq_true, Bool.not_eq_eq_eq_not, Bool.not_true, not_or, Bool.not_eq_false] at hb
      simp only [checkedSlice_of_boundaries .findSlice (by omega : i ≤ i + sub.length) hb.1 hb.2]
      split
      · rfl
      · exact ih (i + 1)

end Yarel.Str
