/-
C09 helper: reachable states, the invariant on them, and the exact effect of every switch.
-/
import Yarel.Proofs.FiberOps

namespace Yarel.Fibers

/-- The states `execute` starts `run()` in: the root fiber is the running one (both designators), it is alive,
and no fiber has a caller. -/
structure Init (root : Nat) (vm : Vm) : Prop where
  fiber : vm.fiber = some root
  unsafeFiber : vm.unsafeFiber = some root
  rootAlive : Alive vm.fibers root
  noCallers : ∀ (f : Nat) (fb : Fiber), vm.fibers[f]? = some fb → fb.caller = none

/-- Everything the interpreter can do to the fiber bookkeeping during one `run()`, in build `b`:
* `newFiber`   – `Fiber.new(closure)`;
* `step`       – ANY computation local to the running fiber (stack traffic, calls, returns from inner frames,
                 handler operations, jumps …): its record changes arbitrarily except that `caller` is kept and
                 it keeps at least one frame; `pc` and `handling_exception` change arbitrarily;
* `load`       – `fiber.call(..)` on any fiber other than the root (the root fiber is created by `execute` and
                 never becomes a script value), either variant of the resume hand-over;
* `unload`     – `Fiber.yield(..)`;
* `finish`     – `return` from the last frame of a called fiber;
* `loadErr` / `unloadErr` – the same calls when they report an error. -/
inductive Reachable (b : Build) (root : Nat) : Vm → Prop where
  | init {vm : Vm} : Init root vm → Reachable b root vm
  | newFiber {vm : Vm} (closure : Nat) : Reachable b root vm → Reachable b root (newFiber vm closure).1
  | step {vm : Vm} {a : Nat} {cur fb' : Fiber} (pc : Nat) (hd : Bool) :
      Reachable b root vm → vm.fiber = some a → vm.fibers[a]? = some cur →
      fb'.caller = cur.caller → 0 < fb'.st.frames →
      Reachable b root { vm with fibers := vm.fibers.set a fb', pc := pc, handling := hd }
  | load {vm vm' : Vm} {rep : Bool} {f : Nat} {arg : Option Val} :
      Reachable b root vm → f ≠ root → load b rep vm f arg = .ok vm' → Reachable b root vm'
  | loadErr {vm vm' : Vm} {rep : Bool} {f : Nat} {arg : Option Val} {e : Err} :
      Reachable b root vm → load b rep vm f arg = .error e vm' → Reachable b root vm'
  | unload {vm vm' : Vm} {arg : Option Val} :
      Reachable b root vm → unload b vm arg = .ok vm' → Reachable b root vm'
  | unloadErr {vm vm' : Vm} {arg : Option Val} {e : Err} :
      Reachable b root vm → unload b vm arg = .error e vm' → Reachable b root vm'
  | finish {vm vm' : Vm} :
      Reachable b root vm → finish b vm = .ok vm' → Reachable b root vm'

theorem Init.good {root : Nat} {vm : Vm} (h : Init root vm) : Good root vm [root] := by
  obtain ⟨fb, hfb, hpos⟩ := h.rootAlive
  refine { fiber := h.fiber, unsafeFiber := h.unsafeFiber, isChain := ⟨rfl, fb, hfb, h.noCallers _ _ hfb⟩,
           nodup := by simp, callers := ?_, tailAlive := by simp, alive := ?_ }
  · intro f fb' hfb'
    rw [h.noCallers f fb' hfb']
    simp
  · intro x hx
    simp only [List.mem_singleton] at hx; subst hx
    exact ⟨fb, hfb, hpos⟩

theorem reachable_good {b : Build} {root : Nat} {vm : Vm} (h : Reachable b root vm) :
    ∃ ch, Good root vm ch := by
  induction h with
  | init hi => exact ⟨[root], hi.good⟩
  | newFiber c _ ih =>
    obtain ⟨ch, hg⟩ := ih
    exact ⟨ch, newFiber_good hg c⟩
  | step pc hd _ hfib hcur hc hfr ih =>
    obtain ⟨ch, hg⟩ := ih
    cases ch with
    | nil => exact hg.isChain.elim
    | cons a' rest =>
      have hfa := hg.fiber
      rw [hfib] at hfa
      simp only [List.head?_cons, Option.some.injEq] at hfa
      subst hfa
      exact ⟨_, hg.set_active hcur hc hfr pc hd⟩
  | load _ hne hl ih =>
    obtain ⟨ch, hg⟩ := ih
    cases ch with
    | nil => exact hg.isChain.elim
    | cons a rest => exact ⟨_, load_good hg hne hl⟩
  | loadErr _ hl ih =>
    rw [load_error_same hl]; exact ih
  | unload _ hu ih =>
    obtain ⟨ch, hg⟩ := ih
    cases ch with
    | nil => exact hg.isChain.elim
    | cons a rest => exact ⟨_, unload_good hg.toChain hu⟩
  | unloadErr _ hu ih =>
    obtain ⟨ch, hg⟩ := ih
    cases ch with
    | nil => exact hg.isChain.elim
    | cons a rest => exact ⟨_, unload_error_good hg hu⟩
  | finish _ hf ih =>
    obtain ⟨ch, hg⟩ := ih
    cases ch with
    | nil => exact hg.isChain.elim
    | cons a rest => exact ⟨_, finish_good hg hf⟩

/-- A reachable state has the shape `a :: rest` with `a` the running fiber. -/
theorem reachable_chain {b : Build} {root : Nat} {vm : Vm} (h : Reachable b root vm) :
    ∃ a rest, Good root vm (a :: rest) := by
  obtain ⟨ch, hg⟩ := reachable_good h
  cases ch with
  | nil => exact hg.isChain.elim
  | cons a rest => exact ⟨a, rest, hg⟩

/-! ### `execute` produces an initial state -/

@[simp] theorem fresh_hasFinished (c : Nat) : (Fiber.fresh c).hasFinished = false := rfl
@[simp] theorem fresh_caller (c : Nat) : (Fiber.fresh c).caller = none := rfl
@[simp] theorem fresh_isNew (c : Nat) : (Fiber.fresh c).isNew = true := rfl

theorem execute_init {b : Build} {vm0 vm : Vm} {closure root : Nat}
    (h0 : ∀ (f : Nat) (fb : Fiber), vm0.fibers[f]? = some fb → fb.caller = none)
    (h : execute b vm0 closure true = (.ok vm, root)) : Init root vm := by
  simp only [execute, Bool.not_true, Bool.false_eq_true, if_false, Prod.mk.injEq] at h
  obtain ⟨h, rfl⟩ := h
  have hget : (vm0.fibers ++ [Fiber.fresh closure])[vm0.fibers.length]? = some (Fiber.fresh closure) := by
    simp
  have hlt : vm0.fibers.length < (vm0.fibers ++ [Fiber.fresh closure]).length := by simp
  simp only [load, newFiber, hget, fresh_hasFinished, fresh_caller, Option.isSome_none,
    Bool.false_eq_true, if_false, leaveCurrent, switchTo, handOver, fresh_isNew, if_true] at h
  cases h
  refine { fiber := rfl, unsafeFiber := rfl, rootAlive := ?_, noCallers := ?_ }
  · unfold Alive
    simp only [get_set1 hlt, if_true, Option.some.injEq, exists_eq_left']
    simp [Fiber.fresh]
  · intro f fb hfb
    simp only [get_set1 hlt] at hfb
    by_cases hf : f = vm0.fibers.length
    · simp only [hf, if_true, Option.some.injEq] at hfb; subst hfb; rfl
    · simp only [hf, if_false] at hfb
      by_cases hl : f < vm0.fibers.length
      · rw [List.getElem?_append_left hl] at hfb; exact h0 f fb hfb
      · rw [List.getElem?_append_right (by omega)] at hfb
        cases hk : f - vm0.fibers.length with
        | zero => omega
        | succ k => rw [hk] at hfb; simp at hfb

/-! ### the two designators, and independence of the build -/

theorem Chain.dual {root : Nat} {vm : Vm} {a : Nat} {rest : List Nat} (h : Chain root vm (a :: rest)) :
    vm.fiber = some a ∧ vm.unsafeFiber = some a :=
  ⟨by simpa using h.fiber, by simpa using h.unsafeFiber⟩

theorem load_build_irrelevant {vm : Vm} (h : vm.fiber = vm.unsafeFiber) (rep : Bool) (f : Nat)
    (arg : Option Val) : load .checked rep vm f arg = load .unchecked rep vm f arg := by
  simp only [load, leaveCurrent, Vm.active, h]

theorem unload_build_irrelevant {vm : Vm} (h : vm.fiber = vm.unsafeFiber) (arg : Option Val) :
    unload .checked vm arg = unload .unchecked vm arg := by
  simp only [unload, Vm.active, h]

theorem pokeActive_build_irrelevant {vm : Vm} (h : vm.fiber = vm.unsafeFiber) (v : Val) :
    pokeActive .checked vm v = pokeActive .unchecked vm v := by
  simp only [pokeActive, Vm.active, h]

theorem finish_build_irrelevant {root : Nat} {vm : Vm} {a : Nat} {rest : List Nat}
    (hg : Chain root vm (a :: rest)) : finish .checked vm = finish .unchecked vm := by
  obtain ⟨h1, h2⟩ := hg.dual
  have e : vm.fiber = vm.unsafeFiber := h1.trans h2.symm
  simp only [finish, hg.active .checked, hg.active .unchecked]
  cases hcur : vm.fibers[a]? with
  | none => rfl
  | some cur =>
    simp only
    cases hres : cur.st.stack.getLast? with
    | none => rfl
    | some r =>
      simp only
      split
      · rfl
      · split
        · rfl
        · cases hcc : cur.caller with
          | none => rfl
          | some c =>
            simp only
            rw [unload_build_irrelevant (vm := { vm with fibers := vm.fibers.set a (popLastFrame cur) }) e none]
            have hc2 : Chain root { vm with fibers := vm.fibers.set a (popLastFrame cur) } (a :: rest) :=
              hg.set_active (fb' := popLastFrame cur) hcur rfl vm.pc vm.handling
            cases hun : unload .unchecked { vm with fibers := vm.fibers.set a (popLastFrame cur) } none with
            | ok vm2 =>
              simp only
              have hg2 := unload_good hc2 hun
              cases rest with
              | nil => exact hg2.isChain.elim
              | cons c' t =>
                obtain ⟨k1, k2⟩ := hg2.toChain.dual
                exact pokeActive_build_irrelevant (k1.trans k2.symm) r
            | error e2 v2 => rfl
            | done v v2 => rfl
            | fault f2 => rfl

/-! ### `pokeTop` -/

theorem pokeTop_some {s s' : List Val} {v : Val} (h : pokeTop s v = some s') :
    s ≠ [] ∧ s' = s.dropLast ++ [v] := by
  unfold pokeTop at h
  split at h
  · cases h
  · cases h; exact ⟨by assumption, rfl⟩

theorem pokeTop_snoc (s : List Val) (x v : Val) : pokeTop (s ++ [x]) v = some (s ++ [v]) := by
  simp [pokeTop]

@[simp] theorem leftFiber_ff (fb : Fiber) (pc : Nat) : leftFiber fb false false pc = fb := by
  cases fb; simp [leftFiber]

/-! ### the exact effect of each switch, as a lookup table -/

/-- `load` (successful), fiber by fiber. -/
theorem load_effect {b : Build} {rep : Bool} {vm vm' : Vm} {f : Nat} {arg : Option Val}
    {root a : Nat} {rest : List Nat} (hg : Chain root vm (a :: rest)) (hne : f ≠ root)
    (h : load b rep vm f arg = .ok vm') :
    ∃ tgt cur s, vm.fibers[f]? = some tgt ∧ vm.fibers[a]? = some cur ∧ f ≠ a ∧
      handOver rep tgt arg = some s ∧
      (∀ g, vm'.fibers[g]? =
        if g = f then some { tgt with caller := some a, st := { tgt.st with stack := s } }
        else if g = a then some (leftFiber cur arg.isSome true vm.pc)
        else vm.fibers[g]?) ∧
      vm'.fiber = some f ∧ vm'.unsafeFiber = some f ∧ vm'.pc = tgt.savedIp ∧ vm'.handling = vm.handling ∧
      vm'.fibers.length = vm.fibers.length := by
  obtain ⟨tgt, cur, s, htgt, _, _, hnot, hcur, _, _, hs, rfl⟩ := load_ok_inv hg hne h
  have hfa : f ≠ a := fun e => hnot (e ▸ List.mem_cons_self)
  exact ⟨tgt, cur, s, htgt, hcur, hfa, hs, fun g => get_set2 (lt_of_get hcur) (lt_of_get htgt) g,
    rfl, rfl, rfl, rfl, by simp [loadResult]⟩

/-- `unload` (successful), fiber by fiber. -/
theorem unload_effect {b : Build} {vm vm' : Vm} {arg : Option Val}
    {root a : Nat} {rest : List Nat} (hg : Chain root vm (a :: rest))
    (h : unload b vm arg = .ok vm') :
    ∃ cur c t cf, rest = c :: t ∧ vm.fibers[a]? = some cur ∧ cur.caller = some c ∧ c ≠ a ∧
      vm.fibers[c]? = some cf ∧ cf.st.stack ≠ [] ∧
      (∀ g, vm'.fibers[g]? =
        if g = c then some { cf with st := { cf.st with stack := cf.st.stack.dropLast ++ [arg.getD .nil] } }
        else if g = a then some { leftFiber cur arg.isSome (!cur.hasFinished) vm.pc with caller := none }
        else vm.fibers[g]?) ∧
      vm'.fiber = some c ∧ vm'.unsafeFiber = some c ∧ vm'.pc = cf.savedIp ∧ vm'.handling = vm.handling ∧
      vm'.fibers.length = vm.fibers.length := by
  obtain ⟨cur, c, t, cf, s, rfl, hcur, hcc, hca, _, hcf, _, hs, rfl⟩ := unload_ok_inv hg h
  obtain ⟨hne, rfl⟩ := pokeTop_some hs
  refine ⟨cur, c, t, cf, rfl, hcur, hcc, hca, hcf, hne, ?_, rfl, rfl, rfl, rfl, by simp [unloadResult]⟩
  intro g
  simp only [unloadResult, List.set_set]
  exact get_set2 (lt_of_get hcur) (lt_of_get hcf) g

/-- `finish` (successful, i.e. on a called fiber), fiber by fiber. -/
theorem finish_effect {b : Build} {vm vm' : Vm} {root a : Nat} {rest : List Nat}
    (hg : Chain root vm (a :: rest)) (h : finish b vm = .ok vm') :
    ∃ cur result c t cf, rest = c :: t ∧ vm.fibers[a]? = some cur ∧ cur.st.frames = 1 ∧
      cur.st.stack.getLast? = some result ∧ cur.caller = some c ∧ c ≠ a ∧
      vm.fibers[c]? = some cf ∧ cf.st.stack ≠ [] ∧
      (∀ g, vm'.fibers[g]? =
        if g = c then some { cf with st := { cf.st with stack := cf.st.stack.dropLast ++ [result] } }
        else if g = a then some { popLastFrame cur with caller := none }
        else vm.fibers[g]?) ∧
      vm'.fiber = some c ∧ vm'.unsafeFiber = some c ∧ vm'.pc = cf.savedIp ∧ vm'.handling = vm.handling ∧
      vm'.fibers.length = vm.fibers.length := by
  obtain ⟨cur, result, vm2, hcur, hres, hfr, _, hu, hp⟩ := finish_ok_inv hg h
  have hla := lt_of_get hcur
  have h1 : Chain root { vm with fibers := vm.fibers.set a (popLastFrame cur) } (a :: rest) :=
    hg.set_active (fb' := popLastFrame cur) hcur rfl vm.pc vm.handling
  obtain ⟨cur1, c, t, cf, rfl, hcur1, hcc, hca, hcf, hne, look, hf2, hu2, hpc2, hh2, hlen2⟩ :=
    unload_effect h1 hu
  have hg2 : Good root vm2 (c :: t) := unload_good h1 hu
  obtain ⟨cf2, s, hcf2, hs, rfl⟩ := pokeActive_ok_inv hg2.toChain hp
  simp only [get_set1 hla, if_true, Option.some.injEq] at hcur1
  subst hcur1
  simp only [get_set1 hla, hca, if_false] at hcf
  rw [look] at hcf2
  simp only [if_true, Option.some.injEq] at hcf2
  subst hcf2
  obtain ⟨_, rfl⟩ := pokeTop_some hs
  have hlc : c < vm2.fibers.length := by rw [hlen2]; simpa using lt_of_get hcf
  refine ⟨cur, result, c, t, cf, rfl, hcur, hfr, hres, hcc, hca, hcf, hne, ?_, hf2, hu2, hpc2, hh2, ?_⟩
  · intro g
    simp only [get_set1 hlc, look]
    by_cases hgc : g = c
    · simp [hgc]
    · simp only [hgc, if_false]
      by_cases hga : g = a
      · have hfin : (popLastFrame cur).hasFinished = true := by simp [popLastFrame, Fiber.hasFinished]
        simp [hga, hfin]
      · simp [hga, get_set1 hla]
  · simpa using hlen2

end Yarel.Fibers
