/-
get/insert laws (for well-formed stores, hence in particular under `Inv H`), reachability helpers,
and the association-list corollary.
-/
import Yarel.Proofs.InternInv

namespace Yarel.Intern

theorem wf_get_insert_same {s s' : Store} (h : s.WF) (e : Entry) (hins : s.insert e = .ok s') :
    s'.get e.hash e.text = .ok (some e) := by
  obtain ⟨s₁, hins₁, hwf, hmem, _⟩ := insert_spec h e
  rw [hins₁] at hins; cases hins
  obtain ⟨r, hr, hspec⟩ := get_spec hwf e.hash e.text
  rw [hr, (hspec e).mpr ⟨(hmem e).mpr (Or.inl rfl), rfl, rfl⟩]

theorem wf_get_insert_other {s s' : Store} (h : s.WF) (e : Entry) (hins : s.insert e = .ok s')
    (hash : UInt64) (text : List UInt8) (hne : ¬(hash = e.hash ∧ text = e.text)) :
    s'.get hash text = s.get hash text := by
  obtain ⟨s₁, hins₁, hwf, hmem, _⟩ := insert_spec h e
  rw [hins₁] at hins; cases hins
  apply get_congr hwf h
  intro x hxh hxt
  rw [hmem x]
  constructor
  · rintro (rfl | ⟨hx, _⟩)
    · exact absurd ⟨hxh.symm, hxt.symm⟩ hne
    · exact hx
  · intro hx
    exact Or.inr ⟨hx, fun hk => hne ⟨hxh.symm.trans hk.1, hxt.symm.trans hk.2⟩⟩

theorem wf_adjustCapacity {s : Store} (h : s.WF) :
    ∃ s', s.adjustCapacity (s.entries.size * 2) = .ok s' ∧ s'.WF ∧
      s'.entries.size = s.entries.size * 2 ∧ s'.size = s.size ∧
      (∀ x, Mem s'.entries x ↔ Mem s.entries x) ∧
      ∀ hash text, s'.get hash text = s.get hash text := by
  obtain ⟨s', hr, hT, hsz, hmask, hsize, hocc, hmem⟩ := adjustCapacity_spec h
  have hwf : s'.WF := by
    refine ⟨hT, hmask, by rw [hsize, hocc]; exact h.size, ?_⟩
    have := h.load
    rw [hsize, hsz]; omega
  exact ⟨s', hr, hwf, hsz, hsize, hmem, fun hash text =>
    get_congr hwf h hash text (fun x _ _ => hmem x)⟩

/-- `internWith` with ARBITRARY explicit hashes (what the driver does, to force collisions): never
faults and keeps the store well formed – the table is keyed by `(hash, text)`, so the same text
under two different hashes is two different keys. -/
theorem internWith_wf (hash : UInt64) (st : State) (h : st.1.WF) (text : List UInt8) :
    ∃ st' id, internWith hash st text = .ok (st', id) ∧ st'.1.WF := by
  obtain ⟨r, hget, _⟩ := get_spec h hash text
  cases r with
  | some e => exact ⟨st, e.id, by unfold internWith; rw [hget], h⟩
  | none =>
    obtain ⟨s', hins, hwf', _⟩ := insert_spec h ⟨hash, text, st.2⟩
    exact ⟨(s', st.2 + 1), st.2, by unfold internWith; rw [hget]; simp only [hins], hwf'⟩

theorem reachable_internAll {H : List UInt8 → UInt64} :
    ∀ (ts : List (List UInt8)) (st st' : State) (r : List Nat), Reachable H st →
      internAll H st ts = .ok (st', r) → Reachable H st' := by
  intro ts
  induction ts with
  | nil =>
    intro st st' r h hrun
    simp only [internAll] at hrun
    cases hrun; exact h
  | cons t ts ih =>
    intro st st' r h hrun
    obtain ⟨st₁, id, hstep, _⟩ := intern_step (good_reachable h) t
    simp only [internAll, hstep] at hrun
    split at hrun
    · cases hrun
    · rename_i st₂ ids hrun₂
      cases hrun
      exact ih st₁ _ ids (Reachable.step h hstep) hrun₂

/-- Two key lists that agree on "equals the query" position by position give the same `lookup`
when zipped with the same values. -/
theorem lookup_zip_congr {α β V : Type} [BEq α] [LawfulBEq α] [BEq β] [LawfulBEq β] :
    ∀ (as : List α) (bs : List β) (vs : List V) (a : α) (b : β), as.length = bs.length →
      (∀ (k : Nat) (h₁ : k < as.length) (h₂ : k < bs.length), as[k] = a ↔ bs[k] = b) →
      (as.zip vs).lookup a = (bs.zip vs).lookup b := by
  intro as
  induction as with
  | nil =>
    intro bs vs a b hlen _
    cases bs with
    | nil => simp
    | cons _ _ => simp at hlen
  | cons a₀ as ih =>
    intro bs vs a b hlen hiff
    cases bs with
    | nil => simp at hlen
    | cons b₀ bs =>
      cases vs with
      | nil => simp
      | cons v vs =>
        have h0 := hiff 0 (by simp) (by simp)
        simp only [List.getElem_cons_zero] at h0
        have hrest := ih bs vs a b (by simpa using hlen) (by
          intro k h₁ h₂
          have := hiff (k + 1) (by simp; omega) (by simp; omega)
          simpa using this)
        simp only [List.zip_cons_cons, List.lookup_cons]
        by_cases ha : a₀ = a
        · have hb := h0.mp ha
          subst ha; subst hb
          simp
        · have hb : ¬ b₀ = b := fun hb => ha (h0.mpr hb)
          have ha' : (a == a₀) = false := by
            simp only [beq_eq_false_iff_ne, ne_eq]; exact fun h => ha h.symm
          have hb' : (b == b₀) = false := by
            simp only [beq_eq_false_iff_ne, ne_eq]; exact fun h => hb h.symm
          rw [ha', hb']
          exact hrest

end Yarel.Intern
