/-
Association-list lemmas for the module model (`aget` / `amod` / `aset` / `keys`, `seedAttrs`, `pend`).
-/
import Yarel.Model.Modules

namespace Yarel.Modules

variable {β : Type}

@[simp] theorem aget_nil (q : Nat) : aget ([] : List (Nat × β)) q = none := rfl

theorem aget_cons (k : Nat) (v : β) (t : List (Nat × β)) (q : Nat) :
    aget ((k, v) :: t) q = if k = q then some v else aget t q := rfl

theorem aget_amod (f : β → β) (l : List (Nat × β)) (k q : Nat) :
    aget (amod f l k) q = if q = k then (aget l q).map f else aget l q := by
  induction l with
  | nil => simp [amod]
  | cons h t ih =>
    obtain ⟨k', v'⟩ := h
    simp only [amod]
    split <;> simp only [aget_cons] <;> grind

theorem aget_amod_self (f : β → β) (l : List (Nat × β)) (k : Nat) :
    aget (amod f l k) k = (aget l k).map f := by simp [aget_amod]

theorem aget_amod_ne (f : β → β) (l : List (Nat × β)) {k q : Nat} (h : q ≠ k) :
    aget (amod f l k) q = aget l q := by simp [aget_amod, h]

theorem aget_append_single (l : List (Nat × β)) (k : Nat) (v : β) (q : Nat) :
    aget (l ++ [(k, v)]) q = match aget l q with
      | some x => some x
      | none => if k = q then some v else none := by
  induction l with
  | nil => simp [aget_cons]
  | cons h t ih =>
    obtain ⟨k', v'⟩ := h
    by_cases hq : k' = q <;> simp_all [aget_cons]

theorem aget_append_single_of_some (l : List (Nat × β)) (k : Nat) (v : β) {q : Nat} {x : β}
    (h : aget l q = some x) : aget (l ++ [(k, v)]) q = some x := by
  rw [aget_append_single, h]

theorem aget_append_single_ne (l : List (Nat × β)) {k : Nat} (v : β) {q : Nat} (h : q ≠ k) :
    aget (l ++ [(k, v)]) q = aget l q := by
  rw [aget_append_single]
  cases aget l q with
  | some x => rfl
  | none => simp [Ne.symm h]

theorem aget_append_single_self (l : List (Nat × β)) (k : Nat) (v : β) (h : aget l k = none) :
    aget (l ++ [(k, v)]) k = some v := by
  rw [aget_append_single, h]; simp

theorem aget_aset (l : List (Nat × β)) (k : Nat) (v : β) (q : Nat) :
    aget (aset l k v) q = if q = k then some v else aget l q := by
  unfold aset
  split
  · rename_i x hx
    rw [aget_amod]
    by_cases hq : q = k
    · subst hq; simp [hx]
    · simp [hq]
  · rename_i hx
    by_cases hq : q = k
    · subst hq; simp [aget_append_single_self _ _ _ hx]
    · simp [hq, aget_append_single_ne _ _ hq]

theorem mem_of_aget {l : List (Nat × β)} {k : Nat} {v : β} (h : aget l k = some v) : (k, v) ∈ l := by
  induction l with
  | nil => simp at h
  | cons hd t ih =>
    obtain ⟨k', v'⟩ := hd
    rw [aget_cons] at h
    split at h
    · rename_i hk; subst hk; simp_all
    · exact List.mem_cons_of_mem _ (ih h)

theorem mem_amod {f : β → β} {l : List (Nat × β)} {k : Nat} {x : Nat × β} (h : x ∈ amod f l k) :
    x ∈ l ∨ ∃ v, (k, v) ∈ l ∧ x = (k, f v) := by
  induction l with
  | nil => simp [amod] at h
  | cons hd t ih =>
    obtain ⟨k', v'⟩ := hd
    unfold amod at h
    split at h
    · rename_i hk; subst hk
      rcases List.mem_cons.mp h with h | h
      · exact .inr ⟨v', by simp, h⟩
      · exact .inl (List.mem_cons_of_mem _ h)
    · rcases List.mem_cons.mp h with h | h
      · exact .inl (by simp [h])
      · rcases ih h with h | ⟨v, hv, hx⟩
        · exact .inl (List.mem_cons_of_mem _ h)
        · exact .inr ⟨v, List.mem_cons_of_mem _ hv, hx⟩

theorem mem_aset {l : List (Nat × β)} {k : Nat} {v : β} {x : Nat × β} (h : x ∈ aset l k v) :
    x ∈ l ∨ x = (k, v) := by
  unfold aset at h
  split at h
  · rcases mem_amod h with h | ⟨_, _, hx⟩
    · exact .inl h
    · exact .inr hx
  · simpa using h

@[simp] theorem keys_amod (f : β → β) (l : List (Nat × β)) (k : Nat) : keys (amod f l k) = keys l := by
  induction l with
  | nil => rfl
  | cons hd t ih =>
    obtain ⟨k', v'⟩ := hd
    unfold amod
    split <;> simp_all [keys]

@[simp] theorem length_amod (f : β → β) (l : List (Nat × β)) (k : Nat) : (amod f l k).length = l.length := by
  have := congrArg List.length (keys_amod f l k)
  simpa [keys] using this

theorem aget_eq_none_iff (l : List (Nat × β)) (k : Nat) : aget l k = none ↔ k ∉ keys l := by
  induction l with
  | nil => simp [keys]
  | cons hd t ih =>
    obtain ⟨k', v'⟩ := hd
    rw [aget_cons]
    by_cases hk : k' = k
    · subst hk; simp [keys]
    · simp only [hk, if_false, ih, keys, List.map_cons, List.mem_cons, not_or]
      constructor
      · intro h; exact ⟨fun h' => hk h'.symm, h⟩
      · intro h; exact h.2

theorem keys_append_single (l : List (Nat × β)) (k : Nat) (v : β) : keys (l ++ [(k, v)]) = keys l ++ [k] := by
  simp [keys]

/-! ### built-ins -/

theorem aget_foldl_seed (names : List Nat) (attrs : List (Nat × Val)) (q : Nat) :
    aget (names.foldl (fun acc b => aset acc b (.builtin b)) attrs) q =
      if q ∈ names then some (.builtin q) else aget attrs q := by
  induction names generalizing attrs with
  | nil => simp
  | cons n t ih =>
    simp only [List.foldl_cons, ih, aget_aset, List.mem_cons]
    by_cases h1 : q ∈ t <;> by_cases h2 : q = n <;> simp [h1, h2]

theorem aget_seedAttrs (attrs : List (Nat × Val)) (q : Nat) :
    aget (seedAttrs attrs) q = if q < numBuiltins then some (.builtin q) else aget attrs q := by
  unfold seedAttrs
  rw [aget_foldl_seed]
  simp [List.mem_range]

theorem mem_foldl_seed {names : List Nat} {attrs : List (Nat × Val)} {x : Nat × Val}
    (h : x ∈ names.foldl (fun acc b => aset acc b (.builtin b)) attrs) :
    x ∈ attrs ∨ ∃ b, x = (b, .builtin b) := by
  induction names generalizing attrs with
  | nil => exact .inl h
  | cons n t ih =>
    rcases ih h with h | h
    · rcases mem_aset h with h | h
      · exact .inl h
      · exact .inr ⟨n, h⟩
    · exact .inr h

theorem mem_seedAttrs {attrs : List (Nat × Val)} {x : Nat × Val} (h : x ∈ seedAttrs attrs) :
    x ∈ attrs ∨ ∃ b, x = (b, .builtin b) := mem_foldl_seed h

/-! ### registry predicates -/

theorem isReg_eq (reg : List (Nat × ModEntry)) (p : Nat) : isReg reg p = (aget reg p).isSome := rfl

theorem isImported_eq_true {reg : List (Nat × ModEntry)} {p : Nat} :
    isImported reg p = true ↔ ∃ e, aget reg p = some e ∧ e.imported = true := by
  unfold isImported; split <;> simp_all

theorem isLoading_eq_true {reg : List (Nat × ModEntry)} {p : Nat} :
    isLoading reg p = true ↔ ∃ e, aget reg p = some e ∧ e.imported = false := by
  unfold isLoading; split <;> simp_all

theorem isReg_eq_true {reg : List (Nat × ModEntry)} {p : Nat} :
    isReg reg p = true ↔ ∃ e, aget reg p = some e := by
  unfold isReg; exact Option.isSome_iff_exists

theorem isReg_of_isLoading {reg : List (Nat × ModEntry)} {p : Nat} (h : isLoading reg p = true) : isReg reg p = true := by
  obtain ⟨e, he, _⟩ := isLoading_eq_true.mp h
  exact isReg_eq_true.mpr ⟨e, he⟩

theorem isReg_of_isImported {reg : List (Nat × ModEntry)} {p : Nat} (h : isImported reg p = true) : isReg reg p = true := by
  obtain ⟨e, he, _⟩ := isImported_eq_true.mp h
  exact isReg_eq_true.mpr ⟨e, he⟩

theorem not_loading_of_imported {reg : List (Nat × ModEntry)} {p : Nat} (h : isImported reg p = true) :
    isLoading reg p = false := by
  obtain ⟨e, he, hi⟩ := isImported_eq_true.mp h
  simp [isLoading, he, hi]

theorem regState_absent {reg : List (Nat × ModEntry)} {p : Nat} : regState reg p = .absent ↔ isReg reg p = false := by
  unfold regState isReg; split <;> simp_all; split <;> simp

theorem regState_loading {reg : List (Nat × ModEntry)} {p : Nat} : regState reg p = .loading ↔ isLoading reg p = true := by
  unfold regState isLoading; split <;> simp_all

theorem regState_cached {reg : List (Nat × ModEntry)} {p : Nat} : regState reg p = .cached ↔ isImported reg p = true := by
  unfold regState isImported; split <;> simp_all

/-! ### `pend` -/

theorem pend_mono (w : Source → Nat) (prog : List (Nat × Source)) {reg reg' : List (Nat × ModEntry)}
    (h : ∀ q, isReg reg q = true → isReg reg' q = true) : pend w prog reg' ≤ pend w prog reg := by
  induction prog with
  | nil => simp [pend]
  | cons hd t ih =>
    obtain ⟨p, s⟩ := hd
    simp only [pend]
    by_cases h1 : isReg reg p = true
    · simp [h1, h _ h1, ih]
    · by_cases h2 : isReg reg' p = true
      · simp [h1, h2]; omega
      · simp [h1, h2, ih]

theorem pend_register (w : Source → Nat) (prog : List (Nat × Source)) {reg reg' : List (Nat × ModEntry)} {p : Nat}
    {s : Source} (hs : aget prog p = some s) (hp : isReg reg p = false) (hp' : isReg reg' p = true)
    (h : ∀ q, isReg reg q = true → isReg reg' q = true) : pend w prog reg' + w s ≤ pend w prog reg := by
  induction prog with
  | nil => simp at hs
  | cons hd t ih =>
    obtain ⟨k, s0⟩ := hd
    simp only [pend]
    rw [aget_cons] at hs
    by_cases hk : k = p
    · subst hk
      simp only [if_true, Option.some.injEq] at hs
      subst hs
      have := pend_mono w t h
      simp [hp, hp']; omega
    · simp only [hk, if_false] at hs
      have := ih hs
      by_cases h1 : isReg reg k = true
      · simp [h1, h _ h1]; omega
      · by_cases h2 : isReg reg' k = true
        · simp [h1, h2]; omega
        · simp [h1, h2]; omega

theorem pend_le_length (prog : List (Nat × Source)) (reg : List (Nat × ModEntry)) :
    pend (fun _ => 1) prog reg ≤ prog.length := by
  induction prog with
  | nil => simp [pend]
  | cons hd t ih =>
    obtain ⟨k, s0⟩ := hd
    simp only [pend, List.length_cons]
    split <;> omega

end Yarel.Modules
