/-
`Good` for static natives, get-item, set-item; `from_ascii` never fails to build its string.
-/
import Yarel.Proofs.StrNatives
namespace Yarel.Str
open Yarel Yarel.Utf8 Yarel.Index

theorem display_valid (env : Env) (hd : ∀ v, Valid (env.displayOther v)) {v : Val} (hv : ValValid v) :
    Valid (display env v) := by
  unfold display
  split
  · simpa using hv
  · decide
  · decide
  · decide
  · exact hd _

/-- Every static native of String. `from` needs `Display` of other values to produce valid UTF-8. -/
theorem callStatic_good (env : Env) (hd : ∀ v, Valid (env.displayOther v)) (fn : StaticFn) (args : List Val)
    (hargs : ∀ a ∈ args, ValValid a) : Good (callStatic env fn args) := by
  rcases args with _ | ⟨a0, _ | ⟨a1, rest⟩⟩
  all_goals simp only [callStatic, checkNumArgs_bind, List.length_cons, List.length_nil]
  all_goals arity_cases
  cases fn
  case «from» => exact good_ok (by simpa using display_valid env hd (hargs a0 (by simp)))
  case fromAscii =>
    refine good_bind (expectVec_not_fault _) (fun xs _ => ?_)
    refine good_bind (fromAsciiBytes_not_fault _) (fun bytes hb => ?_)
    have hv := fromAsciiBytes_valid xs bytes hb
    rw [if_pos (validate_iff.mpr hv)]
    exact good_ok (by simpa using hv)
  case fromUtf8 =>
    refine good_bind (expectVec_not_fault _) (fun xs _ => ?_)
    refine good_bind (bytesOfVals_not_fault _) (fun bytes _ => ?_)
    by_cases hv : validate bytes = true
    · rw [if_pos hv]
      exact good_ok (by simpa using validate_iff.mp hv)
    · rw [if_neg hv]
      have hlt := validUpTo_lt_of_invalid (by simpa using hv)
      simp only [List.getElem?_eq_getElem hlt]
      exact good_mkErr _ _
  case fromCodePoints =>
    refine good_bind (expectVec_not_fault _) (fun xs _ => ?_)
    refine good_bind (stringOfCodePoints_not_fault _) (fun bytes hb => ?_)
    exact good_ok (by simpa using stringOfCodePoints_valid xs bytes hb)

/-- `from_ascii` can never take its "Unable to create a string from byte sequence." exit. -/
theorem fromAscii_never_unable (env : Env) (args : List Val) :
    callStatic env .fromAscii args ≠ mkErr .ValueError .unableToCreate := by
  rcases args with _ | ⟨a0, _ | ⟨a1, rest⟩⟩
  all_goals simp only [callStatic, checkNumArgs_bind, List.length_cons, List.length_nil]
  · simp [mkErr]
  · simp only [↓reduceIte]
    cases hx : expectVec a0 with
    | ok xs =>
      simp only [Outcome.bind_ok]
      cases hb : fromAsciiBytes xs with
      | ok bytes =>
        simp only [Outcome.bind_ok]
        rw [if_pos (validate_iff.mpr (fromAsciiBytes_valid xs bytes hb))]
        simp [mkErr]
      | err e =>
        simp only [Outcome.bind_err]
        intro h
        -- the only errors of the byte loop are expected_number / expected_byte
        have : ∀ (ys : List Val) (e : Err), fromAsciiBytes ys = .err e → e.msg ≠ .unableToCreate := by
          intro ys
          induction ys with
          | nil => intro e h; simp [fromAsciiBytes] at h
          | cons v vs ih =>
            intro e h
            simp only [fromAsciiBytes] at h
            cases hv : byteOfVal v with
            | ok b =>
              cases hr : fromAsciiBytes vs with
              | ok bs => simp [hv, hr] at h
              | err e' => simp only [hv, hr, Outcome.err.injEq] at h; subst h; exact ih e' hr
              | fault st => simp [hv, hr] at h
            | err e' =>
              simp only [hv, Outcome.err.injEq] at h; subst h
              unfold byteOfVal at hv
              split at hv
              · split at hv
                · simp only [mkErr, Outcome.err.injEq] at hv; subst hv; simp
                · simp at hv
              · simp only [mkErr, Outcome.err.injEq] at hv; subst hv; simp
            | fault st => simp [hv] at h
        simp only [mkErr, Outcome.err.injEq] at h
        exact this xs e hb (by rw [h])
      | fault st => simp [mkErr]
    | err e =>
      simp only [Outcome.bind_err]
      unfold expectVec at hx
      split at hx
      · simp at hx
      · simp only [mkErr, Outcome.err.injEq] at hx; subst hx; simp [mkErr]
    | fault st => simp [mkErr]
  · rw [if_neg (by omega)]; simp [mkErr]

/-! ### get-item / set-item / iteration / concat -/

theorem sliceGetItem_num {α : Type} (elems : List α) (bits : UInt64) (k : Kind) :
    sliceGetItem elems (.num bits) k =
      match boundedIndex (.num bits) elems.length k with
      | .ok i =>
        match elems[i]? with
        | some v => .ok (.scalar v)
        | none => .fault .elemIndex
      | .err e => .err e
      | .fault s => .fault s := rfl

theorem sliceGetItem_range {α : Type} (elems : List α) (b e : Int) (k : Kind) :
    sliceGetItem elems (.range b e) k =
      match boundedRange b e elems.length k with
      | .ok (lo, hi) =>
        if lo ≤ hi ∧ hi ≤ elems.length then .ok (.slice ((elems.drop lo).take (hi - lo)))
        else .fault .elemSlice
      | .err e => .err e
      | .fault s => .fault s := rfl

theorem sliceGetItem_ok {α : Type} {elems : List α} {idx : Val} {k : Kind} {r : IndexResult α}
    (h : sliceGetItem elems idx k = .ok r) :
    match r with
    | .scalar a => a ∈ elems
    | .slice l => ∀ x ∈ l, x ∈ elems := by
  cases idx with
  | num bits =>
    rw [sliceGetItem_num] at h
    cases hb : boundedIndex (.num bits) elems.length k with
    | ok i =>
      simp only [hb] at h
      cases hy : elems[i]? with
      | some y =>
        simp only [hy, Outcome.ok.injEq] at h; subst h
        exact List.mem_of_getElem? hy
      | none => simp [hy] at h
    | err e => simp [hb] at h
    | fault st => simp [hb] at h
  | range rb re =>
    rw [sliceGetItem_range] at h
    cases hb : boundedRange rb re elems.length k with
    | ok pr =>
      obtain ⟨lo, hi⟩ := pr
      simp only [hb] at h
      split at h
      · simp only [Outcome.ok.injEq] at h; subst h
        intro x hx
        exact List.mem_of_mem_drop (List.mem_of_mem_take hx)
      · simp at h
    | err e => simp [hb] at h
    | fault st => simp [hb] at h
  | nil | bool _ | str _ | vec _ | tuple _ | strIter _ _ | stopIter | other =>
    all_goals (exact absurd h (by unfold sliceGetItem; simp [mkErr]))

theorem getItem_good {recv : Val} (hr : ValValid recv) (idx : Val) : Good (getItem recv idx) := by
  unfold getItem
  split
  · rename_i s
    rcases strGetItem_ok_or_err (by simpa using hr) idx with ⟨e, h⟩ | ⟨r, h, hv⟩
    · rw [h]; exact good_err e
    · rw [h]; exact good_ok (by simpa using hv)
  · rename_i xs
    refine ⟨tupleGetItem_not_fault xs idx, ?_⟩
    intro v hv
    have hall : ∀ x ∈ xs, ValValid x := by simpa using hr
    unfold tupleGetItem at hv
    cases hx : sliceGetItem xs idx .Tuple with
    | ok r =>
      have := sliceGetItem_ok hx
      cases r with
      | scalar a => simp only [hx, Outcome.ok.injEq] at hv; subst hv; exact hall _ this
      | slice l =>
        simp only [hx, Outcome.ok.injEq] at hv; subst hv
        simp only [valValid_tuple]
        exact fun x hx => hall x (this x hx)
    | err e => simp [hx] at hv
    | fault st => simp [hx] at hv
  · rename_i xs
    refine ⟨vecGetItem_not_fault xs idx, ?_⟩
    intro v hv
    have hall : ∀ x ∈ xs, ValValid x := by simpa using hr
    unfold vecGetItem at hv
    cases hx : sliceGetItem xs idx .Vec with
    | ok r =>
      have := sliceGetItem_ok hx
      cases r with
      | scalar a => simp only [hx, Outcome.ok.injEq] at hv; subst hv; exact hall _ this
      | slice l =>
        simp only [hx, Outcome.ok.injEq] at hv; subst hv
        simp only [valValid_vec]
        exact fun x hx => hall x (this x hx)
    | err e => simp [hx] at hv
    | fault st => simp [hx] at hv
  · exact good_mkErr _ _

theorem setItem_good {recv value : Val} (hr : ValValid recv) (hv : ValValid value) (idx : Val) :
    Good (setItem recv idx value) := by
  refine ⟨setItem_not_fault recv idx value, ?_⟩
  intro v h
  unfold setItem at h
  split at h
  · rename_i xs
    have hall : ∀ x ∈ xs, ValValid x := by simpa using hr
    cases hb : boundedIndex idx xs.length Kind.Vec with
    | ok i =>
      simp only [hb] at h
      split at h
      · simp only [Outcome.ok.injEq] at h; subst h
        simp only [valValid_vec]
        intro x hx
        rcases List.mem_or_eq_of_mem_set hx with h1 | h1
        · exact hall x h1
        · subst h1; exact hv
      · simp at h
    | err e => simp [hb] at h
    | fault st => simp [hb] at h
  · simp [mkErr] at h

theorem concat_valid {a b : Bytes} (ha : Valid a) (hb : Valid b) : Valid (concat a b) := ha.append hb

end Yarel.Str
