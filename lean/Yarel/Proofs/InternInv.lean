/-
The store invariant `Inv H`, reachability, and the interning argument: ids are allocated fresh on
a miss and returned from the table on a hit, so "same id" and "same bytes" coincide.
-/
import Yarel.Proofs.InternStore

namespace Yarel.Intern

/-- The invariant of the intern table, relative to the hash function `H` in use.
`(h + d) % cap` for `d < (i + cap - h) % cap` enumerates the slots cyclically in `[h, i)`. -/
structure Inv (H : List UInt8 → UInt64) (s : Store) : Prop where
  /-- the capacity is a power of two, at least 4 -/
  cap : ∃ k, s.entries.size = 2 ^ (k + 2)
  /-- `entries.len() = mask + 1` -/
  mask : s.mask + 1 = s.entries.size
  /-- `size` is the number of occupied slots -/
  size : s.size = s.entries.countP Option.isSome
  /-- load factor at most 3/4 (so there is always an empty slot) -/
  load : s.size ≤ s.entries.size * 3 / 4
  /-- every cached hash is the hash of the entry's bytes -/
  hashOk : ∀ (i : Nat) (e : Entry), s.entries[i]? = some (some e) → e.hash = H e.text
  /-- keys `(hash, text)` of occupied slots are pairwise distinct -/
  distinct : ∀ (i j : Nat) (e₁ e₂ : Entry), s.entries[i]? = some (some e₁) →
    s.entries[j]? = some (some e₂) → e₁.hash = e₂.hash → e₁.text = e₂.text → i = j
  /-- probe chain: for an entry at slot `i` with home `h = hash % cap`, every slot cyclically in
  `[h, i)` is occupied -/
  chain : ∀ (i : Nat) (e : Entry), s.entries[i]? = some (some e) →
    ∀ d, d < (i + s.entries.size - e.hash.toNat % s.entries.size) % s.entries.size →
      ∃ e', s.entries[(e.hash.toNat % s.entries.size + d) % s.entries.size]? = some (some e')

theorem Inv.wf {H : List UInt8 → UInt64} {s : Store} (h : Inv H s) : s.WF :=
  ⟨⟨h.cap, h.distinct, h.chain⟩, h.mask, h.size, h.load⟩

theorem Inv.of_wf {H : List UInt8 → UInt64} {s : Store} (h : s.WF)
    (hh : ∀ e, Mem s.entries e → e.hash = H e.text) : Inv H s :=
  ⟨h.table.cap, h.mask, h.size, h.load, fun i e hi => hh e ⟨i, hi⟩, h.table.distinct, h.table.chain⟩

theorem mem_empty (x : Entry) : ¬ Mem Store.empty.entries x := mem_replicate_none _ x

theorem inv_empty (H : List UInt8 → UInt64) : Inv H Store.empty :=
  Inv.of_wf wf_empty (fun e he => (mem_empty e he).elim)

/-- `&&& mask` really is `% capacity` under the invariant. -/
theorem Inv.home_eq {H : List UInt8 → UInt64} {s : Store} (h : Inv H s) (x : Nat) :
    x &&& s.mask = x % s.entries.size := by
  obtain ⟨k, hk⟩ := h.cap
  exact and_mask x (k + 2) s.mask s.entries.size hk h.mask

/-- Two stored entries with the same key are the same entry. -/
theorem Store.WF.mem_unique {s : Store} (h : s.WF) {e₁ e₂ : Entry} (h₁ : Mem s.entries e₁)
    (h₂ : Mem s.entries e₂) (hkh : e₁.hash = e₂.hash) (hkt : e₁.text = e₂.text) : e₁ = e₂ := by
  obtain ⟨i, hi⟩ := h₁
  obtain ⟨j, hj⟩ := h₂
  have := h.table.distinct i j e₁ e₂ hi hj hkh hkt
  subst this
  rw [hi] at hj
  simpa using hj

/-! ### states reachable by interning -/

/-- States reachable from the initial state by any sequence of `intern H` calls. -/
inductive Reachable (H : List UInt8 → UInt64) : State → Prop
  | init : Reachable H State.init
  | step {st st' : State} {t : List UInt8} {id : Nat} :
      Reachable H st → intern H st t = .ok (st', id) → Reachable H st'

/-- `text` is interned in `st` as object `id`. -/
def Known (st : State) (text : List UInt8) (id : Nat) : Prop :=
  ∃ e, Mem st.1.entries e ∧ e.text = text ∧ e.id = id

/-- Invariant of the whole interning state: the table invariant, all stored ids were handed out by
the allocation counter, and distinct stored objects have distinct ids. -/
structure Good (H : List UInt8 → UInt64) (st : State) : Prop where
  inv : Inv H st.1
  below : ∀ e, Mem st.1.entries e → e.id < st.2
  idInj : ∀ e₁ e₂, Mem st.1.entries e₁ → Mem st.1.entries e₂ → e₁.id = e₂.id → e₁ = e₂

theorem good_init (H : List UInt8 → UInt64) : Good H State.init :=
  ⟨inv_empty H, fun e he => (mem_empty e he).elim, fun e _ he => (mem_empty e he).elim⟩

/-- In a good state "same id" and "same bytes" coincide for interned strings. -/
theorem Good.known_iff {H : List UInt8 → UInt64} {st : State} (h : Good H st)
    {t₁ t₂ : List UInt8} {i₁ i₂ : Nat} (h₁ : Known st t₁ i₁) (h₂ : Known st t₂ i₂) :
    i₁ = i₂ ↔ t₁ = t₂ := by
  obtain ⟨e₁, hm₁, rfl, rfl⟩ := h₁
  obtain ⟨e₂, hm₂, rfl, rfl⟩ := h₂
  constructor
  · intro hid; rw [h.idInj e₁ e₂ hm₁ hm₂ hid]
  · intro ht
    obtain ⟨i, hi⟩ := hm₁
    obtain ⟨j, hj⟩ := hm₂
    have hh₁ := h.inv.hashOk i e₁ hi
    have hh₂ := h.inv.hashOk j e₂ hj
    rw [h.inv.wf.mem_unique ⟨i, hi⟩ ⟨j, hj⟩ (by rw [hh₁, hh₂, ht]) ht]

/-- One `intern` call from a good state: never faults, the state stays good, the text is now known
under the returned id, and everything known before is still known under the same id.
Moreover a hit leaves the state unchanged and a miss returns the fresh id `st.2`. -/
theorem intern_step {H : List UInt8 → UInt64} {st : State} (h : Good H st) (t : List UInt8) :
    ∃ st' id, intern H st t = .ok (st', id) ∧ Good H st' ∧ Known st' t id ∧
      (∀ t' i', Known st t' i' → Known st' t' i') ∧
      ((Known st t id ∧ st' = st) ∨ ((∀ i', ¬ Known st t i') ∧ id = st.2 ∧ st'.2 = st.2 + 1)) := by
  obtain ⟨r, hget, hspec⟩ := get_spec h.inv.wf (H t) t
  cases r with
  | some e =>
    obtain ⟨hm, _, hkt⟩ := (hspec e).mp rfl
    have hk : Known st t e.id := ⟨e, hm, hkt, rfl⟩
    refine ⟨st, e.id, ?_, h, hk, fun _ _ hk => hk, Or.inl ⟨hk, rfl⟩⟩
    unfold intern internWith
    rw [hget]
  | none =>
    have habs : ∀ x, Mem st.1.entries x → ¬(x.hash = H t ∧ x.text = t) := by
      intro x hx hk
      have := (hspec x).mpr ⟨hx, hk⟩
      cases this
    obtain ⟨s', hins, hwf', hmem, _, _⟩ := insert_spec h.inv.wf ⟨H t, t, st.2⟩
    have hmem' : ∀ x, Mem s'.entries x ↔ (x = ⟨H t, t, st.2⟩ ∨ Mem st.1.entries x) := by
      intro x
      rw [hmem x]
      constructor
      · rintro (hx | ⟨hx, _⟩)
        · exact Or.inl hx
        · exact Or.inr hx
      · rintro (hx | hx)
        · exact Or.inl hx
        · exact Or.inr ⟨hx, habs x hx⟩
    refine ⟨(s', st.2 + 1), st.2, ?_, ⟨?_, ?_, ?_⟩, ?_, ?_, Or.inr ⟨?_, rfl, rfl⟩⟩
    · unfold intern internWith
      rw [hget]
      simp only [hins]
    · apply Inv.of_wf hwf'
      intro x hx
      rcases (hmem' x).mp hx with rfl | hx
      · rfl
      · obtain ⟨i, hi⟩ := hx
        exact h.inv.hashOk i x hi
    · intro x hx
      show x.id < st.2 + 1
      rcases (hmem' x).mp hx with rfl | hx
      · exact Nat.lt_succ_self _
      · exact Nat.lt_succ_of_lt (h.below x hx)
    · intro x y hx hy hid
      rcases (hmem' x).mp hx with rfl | hx <;> rcases (hmem' y).mp hy with rfl | hy
      · rfl
      · have := h.below y hy; simp only at hid; omega
      · have := h.below x hx; simp only at hid; omega
      · exact h.idInj x y hx hy hid
    · exact ⟨⟨H t, t, st.2⟩, (hmem' _).mpr (Or.inl rfl), rfl, rfl⟩
    · rintro t' i' ⟨e, he, het, hei⟩
      exact ⟨e, (hmem' e).mpr (Or.inr he), het, hei⟩
    · rintro i' ⟨e, he, het, _⟩
      have hi := he
      obtain ⟨i, hi⟩ := hi
      exact habs e he ⟨by rw [h.inv.hashOk i e hi, het], het⟩

theorem good_reachable {H : List UInt8 → UInt64} {st : State} (h : Reachable H st) : Good H st := by
  induction h with
  | init => exact good_init H
  | step _ hstep ih =>
    obtain ⟨st', id, hr, hg, _⟩ := intern_step ih _
    rw [hr] at hstep
    cases hstep
    exact hg

/-- Running `internAll` from a good state: never faults, ends in a good state, one id per text,
and every text of the run is known in the final state under the id that was returned for it. -/
theorem internAll_spec {H : List UInt8 → UInt64} :
    ∀ (ts : List (List UInt8)) (st : State), Good H st →
      ∃ st' r, internAll H st ts = .ok (st', r) ∧ Good H st' ∧ r.length = ts.length ∧
        (∀ t i, Known st t i → Known st' t i) ∧
        (∀ (k : Nat) (t : List UInt8) (i : Nat), ts[k]? = some t → r[k]? = some i → Known st' t i) := by
  intro ts
  induction ts with
  | nil =>
    intro st h
    exact ⟨st, [], rfl, h, rfl, fun _ _ hk => hk, fun k t i ht => by simp at ht⟩
  | cons t ts ih =>
    intro st h
    obtain ⟨st₁, id, hstep, hg₁, hk₁, hmono₁, _⟩ := intern_step h t
    obtain ⟨st₂, r, hrun, hg₂, hlen, hmono₂, hall⟩ := ih st₁ hg₁
    refine ⟨st₂, id :: r, ?_, hg₂, by simp [hlen], fun t i hk => hmono₂ t i (hmono₁ t i hk), ?_⟩
    · simp only [internAll, hstep, hrun]
    · intro k t' i' ht hi
      cases k with
      | zero =>
        simp only [List.getElem?_cons_zero, Option.some.injEq] at ht hi
        subst ht; subst hi
        exact hmono₂ _ _ hk₁
      | succ k =>
        simp only [List.getElem?_cons_succ] at ht hi
        exact hall k t' i' ht hi

end Yarel.Intern
