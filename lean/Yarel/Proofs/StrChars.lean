/-
chars / count_chars / char_byte_index lemmas.
-/
import Yarel.Proofs.StrIter
namespace Yarel.Str
open Yarel Yarel.Utf8 Yarel.Index

/-! ### chars / count_chars / char_byte_index -/

theorem chars_encode {cps : List Nat} (h : ∀ c ∈ cps, isScalar c = true) : chars (encode cps) = .ok cps := by
  unfold chars; rw [decode_encode h]

theorem chars_valid {s : Bytes} (hs : Valid s) : ∃ cps, (∀ c ∈ cps, isScalar c = true) ∧ s = encode cps ∧ chars s = .ok cps := by
  obtain ⟨cps, h, rfl⟩ := hs
  exact ⟨cps, h, rfl, chars_encode h⟩

/-- Skipping the non-boundary positions inside a character. -/
theorem charByteIndexLoop_skip {p rest : Bytes} {c : Nat} (hc : isScalar c = true) (hrest : Valid rest)
    (ci cnt : Nat) : ∀ (d j m : Nat), j + d = (encodeCP c).length → 0 < j →
    charByteIndexLoop (p ++ (encodeCP c ++ rest)) ci (m + d) (p.length + j) cnt =
      charByteIndexLoop (p ++ (encodeCP c ++ rest)) ci m (p.length + (encodeCP c).length) cnt := by
  intro d
  induction d with
  | zero => intro j m hj _; have : j = (encodeCP c).length := by omega
            subst this; rfl
  | succ d ih =>
    intro j m hj h0
    rw [show m + (d + 1) = (m + d) + 1 by omega]
    simp only [charByteIndexLoop, isBoundary_mid hc hrest h0 (by omega : j < (encodeCP c).length),
      Bool.false_eq_true, ↓reduceIte]
    rw [Nat.add_assoc]
    exact ih (j + 1) m (by omega) (by omega)

theorem charByteIndexLoop_encode (rest : List Nat) (h : ∀ c ∈ rest, isScalar c = true) :
    ∀ (p : Bytes) (k ci : Nat), k ≤ ci → ci - k ≤ rest.length →
      charByteIndexLoop (p ++ encode rest) ci ((encode rest).length + 1) p.length k =
        .ok (numOfNat (p.length + (encode (rest.take (ci - k))).length)) := by
  induction rest with
  | nil =>
    intro p k ci hk hci
    have : ci = k := by simp only [List.length_nil] at hci; omega
    subst this
    simp only [encode, List.append_nil, List.length_nil, charByteIndexLoop,
      isBoundary_length, ↓reduceIte, List.take_nil, Nat.add_zero]
  | cons c cs ih =>
    intro p k ci hk hci
    have hc := h c (by simp)
    have hcs : ∀ x ∈ cs, isScalar x = true := fun x hx => h x (by simp [hx])
    have hv : Valid (encode cs) := ⟨cs, hcs, rfl⟩
    have hpos := encodeCP_length_pos c
    simp only [encode]
    rw [show (encodeCP c ++ encode cs).length + 1 = ((encodeCP c ++ encode cs).length) + 1 from rfl]
    simp only [charByteIndexLoop, isBoundary_before hc hv, ↓reduceIte]
    by_cases hkc : k = ci
    · subst hkc
      simp only [↓reduceIte, Nat.sub_self, List.take_zero, encode, List.length_nil, Nat.add_zero]
    · rw [if_neg hkc]
      have hlen : (encodeCP c ++ encode cs).length = ((encode cs).length + 1) + ((encodeCP c).length - 1) := by
        simp only [List.length_append]; omega
      rw [hlen, charByteIndexLoop_skip hc hv ci (k + 1) ((encodeCP c).length - 1) 1 ((encode cs).length + 1)
        (by omega) (by omega)]
      have := ih hcs (p ++ encodeCP c) (k + 1) ci (by omega) (by simp only [List.length_cons] at hci; omega)
      simp only [List.append_assoc, List.length_append] at this
      rw [this]
      have ht : ci - k = (ci - (k + 1)) + 1 := by omega
      rw [ht, List.take_succ_cons]
      simp only [encode, List.length_append, Nat.add_assoc]

end Yarel.Str
