/-
Shape of `display`'s output: integral values have no '.', non-integral ones have  digits '.' digits.
-/
import Yarel.Proofs.NumTextRoundtrip

namespace Yarel.NumText
open Yarel.F64

theorem isIntegral_finite (b : Bits) (hn : isNaN b = false) (hi : isInf b = false) :
    isIntegral b = (if (decode b).2.2 ≥ 0 then true else (decode b).2.1 % 2 ^ (-(decode b).2.2).toNat == 0) := by
  unfold isIntegral
  simp only [hn, hi, Bool.false_eq_true, if_false]

theorem not_nan_inf_of_finite (b : Bits) (h : isFinite b = true) : isNaN b = false ∧ isInf b = false := by
  unfold isFinite at h; unfold isNaN isInf
  cases h2 : (expField b == 0x7FF) <;> simp_all

theorem dot_not_digit : isDigit '.' = false := by decide

theorem no_dot_of_digits (l : List Char) (h : l.all isDigit = true) : '.' ∉ l := by
  intro hm
  have := List.all_eq_true.1 h _ hm
  rw [dot_not_digit] at this
  cases this

theorem no_dot_signText (b : Bits) : '.' ∉ signText b := by
  unfold signText; split <;> simp

theorem fixedDigits_zero (k : Nat) : fixedDigits k 0 = List.replicate k '0' := by
  induction k with
  | zero => rfl
  | succ k ih =>
    simp only [fixedDigits, Nat.zero_div, Nat.zero_mod, ih]
    rw [show digitChar 0 = '0' from rfl, ← List.replicate_succ']

theorem renderParts_props (D : Nat) (x : Int) :
    (renderParts D x).1.all isDigit = true ∧ (renderParts D x).2.all isDigit = true ∧ (renderParts D x).1 ≠ [] := by
  unfold renderParts
  simp only
  have hd := natDigits_all D
  have hne := natDigits_ne_nil D
  split
  · refine ⟨?_, rfl, ?_⟩
    · rw [List.all_append, hd]; simp [List.all_replicate]; exact Or.inr (by decide)
    · simp [hne]
  · split
    · rename_i hk
      refine ⟨?_, ?_, ?_⟩
      · rw [List.all_eq_true] at hd ⊢
        intro c hc; exact hd c (List.mem_of_mem_take hc)
      · apply strip_all
        rw [List.all_eq_true] at hd ⊢
        intro c hc; exact hd c (List.mem_of_mem_drop hc)
      · intro h
        have := congrArg List.length h
        simp only [List.length_take, List.length_nil] at this
        omega
    · refine ⟨rfl, ?_, by simp⟩
      apply strip_all
      rw [List.all_append, hd]; simp [List.all_replicate]; exact Or.inr (by decide)

theorem exactParts_frac_nil_iff (b : Bits) (hfin : isFinite b = true) :
    (exactParts b).2 = [] ↔ isIntegral b = true := by
  obtain ⟨hn, hi⟩ := not_nan_inf_of_finite b hfin
  rw [isIntegral_finite b hn hi]
  unfold exactParts
  generalize (decode b).2.2 = e
  generalize (decode b).2.1 = m
  unfold exactPartsOf
  by_cases he : 0 ≤ e
  · simp [he]
  · simp only [he, if_false]
    generalize (-e).toNat = k
    simp only [beq_iff_eq]
    constructor
    · intro h
      have hs := strip_spec (fixedDigits k (m % 2 ^ k * 5 ^ k))
      rw [h] at hs
      have hv := fixedDigits_val k (m % 2 ^ k * 5 ^ k)
      rw [← hs] at hv
      simp only [List.nil_append, digitsVal_replicate_zero, Nat.zero_mul] at hv
      have hlt : m % 2 ^ k * 5 ^ k < 10 ^ k := by
        rw [show (10 : Nat) = 2 * 5 from rfl, Nat.mul_pow]
        exact Nat.mul_lt_mul_of_pos_right (Nat.mod_lt _ (Nat.two_pow_pos _)) (Nat.pow_pos (by decide))
      rw [Nat.mod_eq_of_lt hlt] at hv
      have h5 : 0 < 5 ^ k := Nat.pow_pos (by decide)
      rcases Nat.mul_eq_zero.1 hv.symm with h0 | h0
      · exact h0
      · omega
    · intro h
      rw [h, Nat.zero_mul, fixedDigits_zero, strip_replicate_zero]

/-- Finite non-zero display text: the two parts that were assembled. -/
theorem displayChars_shape (b : Bits) (hfin : isFinite b = true) :
    ∃ ip fr, displayChars b = signText b ++ assemble ip fr ∧ ip ≠ [] ∧ ip.all isDigit = true ∧
      fr.all isDigit = true ∧ (fr.isEmpty = isIntegral b) := by
  obtain ⟨hn, hi⟩ := not_nan_inf_of_finite b hfin
  have hex : ∃ ip fr, signText b ++ exactText b = signText b ++ assemble ip fr ∧ ip ≠ [] ∧
      ip.all isDigit = true ∧ fr.all isDigit = true ∧ (fr.isEmpty = isIntegral b) := by
    obtain ⟨h1, h2, h3⟩ := exactParts_props b
    refine ⟨_, _, rfl, h3, h1, h2, ?_⟩
    have := exactParts_frac_nil_iff b hfin
    cases hI : isIntegral b
    · rw [hI] at this; simp only [Bool.false_eq_true, iff_false] at this
      simpa using this
    · rw [hI] at this; simp only [iff_true] at this
      simp [this]
  unfold displayChars
  simp only [hn, hi, Bool.false_eq_true, if_false]
  by_cases hz : isZero b = true
  · simp only [hz, if_true]
    refine ⟨['0'], [], rfl, by simp, by decide, rfl, ?_⟩
    have hzf := zero_fields b hz
    rw [isIntegral_finite b hn hi]
    unfold decode
    simp only [hzf.1, hzf.2, beq_self_eq_true, if_true, Nat.zero_mod]
    rfl
  · have hz' : isZero b = false := by simpa using hz
    simp only [hz', Bool.false_eq_true, if_false]
    split
    · exact hex
    · split
      · rename_i D x _ hc
        obtain ⟨h1, h2, h3⟩ := renderParts_props D x
        exact ⟨_, _, rfl, h3, h1, h2, hc.2⟩
      · exact hex

end Yarel.NumText
