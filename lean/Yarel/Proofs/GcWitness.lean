/-
How whole collections diverge: general criteria (inner recursion without end / endless `while` loop)
that reduce `∀ fuel, collectE fuel h = error outOfFuel` to finitely many checkable facts.
-/
import Yarel.Proofs.GcFuel

namespace Yarel.Gc

theorem FuelLe.ok_eq {α : Type} {a b : Except Fault α} {x : α} (hle : FuelLe a b) (ha : a = .ok x) : b = .ok x := by
  rcases hle with h1 | h1
  · rw [ha] at h1; cases h1
  · rw [← h1]; exact ha

/-- more fuel never changes a successful collection -/
theorem collectE_ok_mono {h : Heap} {f f' : Nat} {r : CollectResult} (hle : f ≤ f')
    (hr : collectE f h = .ok r) : collectE f' h = .ok r :=
  (collectE_mono hle).ok_eq hr

/-- out of fuel for all large fuels = out of fuel for all fuels -/
theorem collectE_diverges_of_large {h : Heap} {F0 : Nat}
    (hl : ∀ f, F0 ≤ f → collectE f h = .error .outOfFuel) : ∀ f, collectE f h = .error .outOfFuel := by
  intro f
  have h1 := hl (max f F0) (Nat.le_max_right _ _)
  rcases collectE_mono (h := h) (Nat.le_max_left f F0) with h2 | h2
  · exact h2
  · rw [h2]; exact h1

theorem tracePass_append {h : Heap} {f : Nat} : ∀ (pre post : List Nat) (cols : Array Colour) (n : Nat),
    tracePass h f (pre ++ post) cols n =
      match tracePass h f pre cols n with
      | .ok (c, m) => tracePass h f post c m
      | .error e => .error e := by
  intro pre
  induction pre with
  | nil => intro post cols n; rfl
  | cons i pre ih =>
    intro post cols n
    simp only [List.cons_append, tracePass]
    split
    · cases runCalls h f cols [(.blacken, i)] with
      | error e => rfl
      | ok c => exact ih post c (n + 1)
    · exact ih post cols n

/-- Inner divergence: in the first pass of `trace_references`, after the boxes `pre` have been handled, the
`blacken()` call on the grey box `i` never returns. -/
theorem collectE_diverges {h : Heap} {F0 : Nat} {c1 c2 : Array Colour} {pre post : List Nat} {i m : Nat}
    (hF : 0 < F0) (hm : markRoots h F0 = .ok c1) (hcnt : countGrey c1 ≠ 0)
    (hsplit : List.range h.size = pre ++ i :: post)
    (hpre : tracePass h F0 pre c1 0 = .ok (c2, m)) (hgrey : c2[i]? = some .grey)
    (hdiv : ∀ f, runCalls h f c2 [(.blacken, i)] = .error .outOfFuel) :
    ∀ f, collectE f h = .error .outOfFuel := by
  apply collectE_diverges_of_large (F0 := F0)
  intro f hf
  have hm' : markRoots h f = .ok c1 := (markRootsFrom_mono hf _ _).ok_eq hm
  have hpre' : tracePass h f pre c1 0 = .ok (c2, m) := (tracePass_mono hf _ _ _).ok_eq hpre
  obtain ⟨k, rfl⟩ : ∃ k, f = k + 1 := ⟨f - 1, by omega⟩
  obtain ⟨g, hg⟩ : ∃ g, countGrey c1 = g + 1 := ⟨countGrey c1 - 1, by omega⟩
  simp only [collectE, hm', traceReferences, hg, traceLoop, hsplit, tracePass_append, hpre', tracePass, hgrey,
    if_true, hdiv]

/-- Outer divergence: every `blacken()` call returns, but a whole pass over the heap reproduces the colours it
started with and reports a non-zero count, so `while num_greys > 0` never ends. -/
theorem collectE_loops {h : Heap} {F0 : Nat} {c1 : Array Colour} {m : Nat}
    (hm : markRoots h F0 = .ok c1) (hcnt : countGrey c1 ≠ 0)
    (hpass : tracePass h F0 (List.range h.size) c1 0 = .ok (c1, m + 1)) :
    ∀ f, collectE f h = .error .outOfFuel := by
  apply collectE_diverges_of_large (F0 := F0)
  intro f hf
  have hm' : markRoots h f = .ok c1 := (markRootsFrom_mono hf _ _).ok_eq hm
  have hpass' : tracePass h f (List.range h.size) c1 0 = .ok (c1, m + 1) := (tracePass_mono hf _ _ _).ok_eq hpass
  have hloop : ∀ k n, traceLoop h f k c1 (n + 1) = .error .outOfFuel := by
    intro k
    induction k with
    | zero => intro n; rfl
    | succ k ih => intro n; simp only [traceLoop, hpass']; exact ih m
  obtain ⟨g, hg⟩ : ∃ g, countGrey c1 = g + 1 := ⟨countGrey c1 - 1, by omega⟩
  simp only [collectE, hm', traceReferences, hg, hloop]

end Yarel.Gc
