/-
Helper lemmas for C08 (exception-handler stack). Model: Yarel/Model/Handlers.lean.
-/
import Yarel.Model.Handlers

namespace Yarel.Handlers

/-! ### basic facts about the single operations -/

theorem mkHandler_noCatch (m : Vm) (t c : Nat) : (mkHandler m t c).noCatch = (c == 0) := by
  simp only [mkHandler, Handler.noCatch]
  rw [Bool.eq_iff_iff]
  simp only [beq_iff_eq]
  omega

/-- Everything a successful `unwind` does. -/
theorem unwind_ok_iff (m m' : Vm) :
    unwind m = .ok m' ↔
      ∃ exc h r, m.fb.stack.getLast? = some exc ∧ m.fb.handlers = h :: r ∧
        h.initStack ≤ m.fb.stack.length ∧ h.initStack < stackMax ∧ min m.fb.frames h.frameCount ≠ 0 ∧
        m' = { fb := { m.fb with stack := m.fb.stack.take h.initStack ++ [exc],
                                 frames := min m.fb.frames h.frameCount, handlers := r },
               handling := h.noCatch, pc := h.catchIp } := by
  unfold unwind
  constructor
  · intro hu
    split at hu
    · cases hu
    · rename_i exc hexc
      split at hu
      · cases hu
      · rename_i h r hh
        split at hu
        · cases hu
        · split at hu
          · cases hu
          · split at hu
            · cases hu
            · injection hu with hu
              exact ⟨exc, h, r, hexc, hh, by omega, by omega, by assumption, hu.symm⟩
  · rintro ⟨exc, h, r, hexc, hh, h1, h2, h3, rfl⟩
    simp only [hexc, hh]
    rw [if_neg (by omega), if_neg (by omega), if_neg h3]

theorem unwind_ended_iff (m : Vm) (v : Val) (m' : Vm) :
    unwind m = .ended v m' ↔ m.fb.stack.getLast? = some v ∧ m.fb.handlers = [] ∧ m' = m := by
  unfold unwind
  constructor
  · intro hu
    split at hu
    · cases hu
    · rename_i exc hexc
      split at hu
      · injection hu with h1 h2
        subst h1 h2
        exact ⟨hexc, by assumption, rfl⟩
      · split at hu
        · cases hu
        · split at hu
          · cases hu
          · split at hu <;> cases hu
  · rintro ⟨h1, h2, rfl⟩
    simp only [h1, h2]

theorem takeReturnData_ok (m m' : Vm) (h : takeReturnData m = .ok m') :
    m'.fb.handlers = m.fb.handlers ∧ m'.handling = m.handling ∧ m'.fb.frames = m.fb.frames := by
  unfold takeReturnData at h
  split at h
  · cases h; exact ⟨rfl, rfl, rfl⟩
  · split at h
    · cases h
    · cases h; exact ⟨rfl, rfl, rfl⟩

theorem takeReturnData_not_ended (m : Vm) (v : Val) (m' : Vm) : takeReturnData m ≠ .ended v m' := by
  unfold takeReturnData
  split
  · intro h; cases h
  · split <;> (intro h; cases h)

/-- A neutral operation leaves handlers and the flag alone. -/
theorem neutral_step (m m' : Vm) (o : Op) (hn : o.neutral = true) (h : step m o = .ok m') :
    m'.fb.handlers = m.fb.handlers ∧ m'.handling = m.handling := by
  cases o <;> simp only [Op.neutral] at hn <;> try (cases hn)
  all_goals
    simp only [step] at h
    first
      | (cases h; exact ⟨rfl, rfl⟩)
      | (split at h
         · cases h
         · cases h; exact ⟨rfl, rfl⟩)

/-- The three unwinding operations: on success the TOP handler `h` is removed, control is at `h.catchIp`
and the flag is `h.noCatch`. -/
theorem unwinding_step (m m' : Vm) (o : Op) (ho : unwinds m o = true) (h : step m o = .ok m') :
    ∃ hd r, m.fb.handlers = hd :: r ∧ m'.fb.handlers = r ∧ m'.handling = hd.noCatch := by
  cases o <;> simp only [unwinds] at ho <;> try (cases ho)
  · -- throw
    simp only [step, throw] at h
    obtain ⟨exc, hd, r, _, hh, _, _, _, rfl⟩ := (unwind_ok_iff _ _).mp h
    exact ⟨hd, r, hh, rfl, rfl⟩
  · -- raise
    simp only [step, raise] at h
    split at h
    · cases h
    · obtain ⟨exc, hd, r, _, hh, _, _, _, rfl⟩ := (unwind_ok_iff _ _).mp h
      exact ⟨hd, r, hh, rfl, rfl⟩
  · -- nativeFail
    simp only [step, nativeFail] at h
    split at h
    · cases h
    · obtain ⟨exc, hd, r, _, hh, _, _, _, rfl⟩ := (unwind_ok_iff _ _).mp h
      exact ⟨hd, r, hh, rfl, rfl⟩
  · -- endFinally with the flag set
    simp only [step, endFinally, ho, if_true] at h
    split at h
    · rename_i m1 hu
      obtain ⟨exc, hd, r, _, hh, _, _, _, rfl⟩ := (unwind_ok_iff _ _).mp hu
      obtain ⟨h1, h2, _⟩ := takeReturnData_ok _ _ h
      exact ⟨hd, r, hh, h1, h2⟩
    · rename_i hne
      exact absurd h (by
        intro h'
        exact hne _ h')

theorem jumpFinally_ok (m m' : Vm) (h : jumpFinally m = .ok m') :
    ∃ hd r, m.fb.handlers = hd :: r ∧ m'.fb.handlers = r ∧ m'.handling = m.handling ∧
      m'.pc = hd.finallyIp := by
  unfold jumpFinally at h
  split at h
  · cases h
  · split at h
    · cases h
    · rename_i hd r hh
      split at h
      · cases h
      · cases h; exact ⟨hd, r, hh, rfl, rfl, rfl⟩

/-! ### traces -/

theorem run_append (m : Vm) (a b : List Op) :
    run m (a ++ b) = match run m a with
      | .ok m1 => run m1 b
      | r => r := by
  induction a generalizing m with
  | nil => simp [run]
  | cons o os ih =>
    simp only [List.cons_append, run]
    cases hs : step m o with
    | ok m1 => simp only [ih]
    | ended v m1 => rfl
    | fault f => rfl

theorem run_append_ok (m m' : Vm) (a b : List Op) (h : run m (a ++ b) = .ok m') :
    ∃ m1, run m a = .ok m1 ∧ run m1 b = .ok m' := by
  rw [run_append] at h
  cases ha : run m a with
  | ok m1 => rw [ha] at h; exact ⟨m1, rfl, h⟩
  | ended v m1 => rw [ha] at h; cases h
  | fault f => rw [ha] at h; cases h

theorem run_single (m : Vm) (o : Op) : run m [o] = step m o := by
  simp only [run]
  cases step m o <;> rfl

theorem log_append (m : Vm) (a b : List Op) :
    log m (a ++ b) = log m a ++ match run m a with
      | .ok m1 => log m1 b
      | _ => [] := by
  induction a generalizing m with
  | nil => simp [run, log]
  | cons o os ih =>
    simp only [List.cons_append, log, run]
    cases hs : step m o with
    | ok m1 => simp only [ih, List.append_assoc]
    | ended v m1 => simp
    | fault f => simp

theorem replay_append (s : List Handler) (a b : List Ev) :
    replay s (a ++ b) = match replay s a with
      | some s' => replay s' b
      | none => none := by
  induction a generalizing s with
  | nil => simp [replay]
  | cons e es ih =>
    simp only [List.cons_append, replay]
    cases replay1 s e with
    | some s' => simp only [ih]
    | none => rfl

/-- One step: replaying its events on the handler list before gives the handler list after. This also
holds when the step ends the run or faults (then the handlers are those at the failing point, and no
event is logged unless a handler was in fact removed … which only happens on success). -/
theorem step_replay (m m' : Vm) (o : Op) (h : step m o = .ok m') :
    replay m.fb.handlers (events m o) = some m'.fb.handlers := by
  by_cases hu : unwinds m o = true
  · obtain ⟨hd, r, hh, h1, _⟩ := unwinding_step m m' o hu h
    have : events m o = [.removedByUnwind hd] := by
      cases o <;> simp_all [events, unwinds]
    simp [this, replay, replay1, hh, h1]
  · cases o with
    | pushH t c =>
      simp only [step] at h; cases h
      simp [events, replay, replay1, pushHandler]
    | popH =>
      simp only [step] at h; cases h
      cases hh : m.fb.handlers <;> simp [events, replay, replay1, popHandler, hh]
    | jumpFinally =>
      simp only [step] at h
      obtain ⟨hd, r, hh, h1, _, _⟩ := jumpFinally_ok m m' h
      simp [events, replay, replay1, hh, h1]
    | throw => simp [unwinds] at hu
    | raise e => simp [unwinds] at hu
    | nativeFail e n => simp [unwinds] at hu
    | endFinally =>
      have hf : m.handling = false := by simpa [unwinds] using hu
      simp only [step, endFinally, hf] at h
      obtain ⟨h1, _, _⟩ := takeReturnData_ok m m' (by simpa using h)
      simp [events, unwinds, hf, replay, h1]
    | pushV v =>
      obtain ⟨h1, _⟩ := neutral_step m m' _ rfl h
      simp [events, unwinds, replay, h1]
    | popV =>
      obtain ⟨h1, _⟩ := neutral_step m m' _ rfl h
      simp [events, unwinds, replay, h1]
    | call =>
      obtain ⟨h1, _⟩ := neutral_step m m' _ rfl h
      simp [events, unwinds, replay, h1]
    | ret =>
      obtain ⟨h1, _⟩ := neutral_step m m' _ rfl h
      simp [events, unwinds, replay, h1]
    | jump pc =>
      obtain ⟨h1, _⟩ := neutral_step m m' _ rfl h
      simp [events, unwinds, replay, h1]

theorem run_replay (m m' : Vm) (ops : List Op) (h : run m ops = .ok m') :
    replay m.fb.handlers (log m ops) = some m'.fb.handlers := by
  induction ops generalizing m with
  | nil => simp only [run] at h; cases h; rfl
  | cons o os ih =>
    simp only [run] at h
    cases hs : step m o with
    | ok m1 =>
      rw [hs] at h
      simp only [log, hs]
      rw [replay_append, step_replay m m1 o hs]
      exact ih m1 h
    | ended v m1 => rw [hs] at h; cases h
    | fault f => rw [hs] at h; cases h

/-- In a replayable log, installs and removals balance against the two stack sizes. -/
theorem replay_count (s s' : List Handler) (es : List Ev) (h : replay s es = some s') :
    s.length + (es.filter Ev.isInstall).length = s'.length + (es.filter (fun e => !e.isInstall)).length := by
  induction es generalizing s with
  | nil => simp only [replay] at h; cases h; simp
  | cons e es ih =>
    simp only [replay] at h
    cases h1 : replay1 s e with
    | none => rw [h1] at h; cases h
    | some s1 =>
      rw [h1] at h
      have := ih s1 h
      cases e with
      | installed hd =>
        simp only [replay1] at h1; cases h1
        simp only [List.filter_cons, Ev.isInstall, List.length_cons] at this ⊢
        simp at this ⊢; omega
      | removedByPop hd =>
        simp only [replay1] at h1
        split at h1
        · split at h1
          · cases h1
            simp only [List.filter_cons, Ev.isInstall, List.length_cons] at this ⊢
            simp at this ⊢; omega
          · cases h1
        · cases h1
      | removedByUnwind hd =>
        simp only [replay1] at h1
        split at h1
        · split at h1
          · cases h1
            simp only [List.filter_cons, Ev.isInstall, List.length_cons] at this ⊢
            simp at this ⊢; omega
          · cases h1
        · cases h1

/-! ### well-bracketed regions -/

theorem bal_sound {f g : Bool} {ops : List Op} (hb : Bal f ops g) :
    ∀ (m m' : Vm), m.handling = f → run m ops = .ok m' →
      m'.fb.handlers = m.fb.handlers ∧ m'.handling = g := by
  induction hb with
  | nil f => intro m m' hf h; simp only [run] at h; cases h; exact ⟨rfl, hf⟩
  | neutral f o hn =>
    intro m m' hf h
    rw [run_single] at h
    obtain ⟨h1, h2⟩ := neutral_step m m' o hn h
    exact ⟨h1, h2.trans hf⟩
  | finallyQuiet =>
    intro m m' hf h
    rw [run_single] at h
    simp only [step, endFinally, hf] at h
    obtain ⟨h1, h2, _⟩ := takeReturnData_ok m m' (by simpa using h)
    exact ⟨h1, h2.trans hf⟩
  | append _ _ iha ihb =>
    intro m m' hf h
    obtain ⟨m1, h1, h2⟩ := run_append_ok _ _ _ _ h
    obtain ⟨a1, a2⟩ := iha m m1 hf h1
    obtain ⟨b1, b2⟩ := ihb m1 m' a2 h2
    exact ⟨b1.trans a1, b2⟩
  | tryOk t c _ ih =>
    intro m m' hf h
    simp only [run, step] at h
    obtain ⟨m1, h1, h2⟩ := run_append_ok _ _ _ _ h
    obtain ⟨a1, a2⟩ := ih (pushHandler m t c) m1 hf h1
    rw [run_single] at h2
    simp only [step] at h2; cases h2
    refine ⟨?_, a2⟩
    simp only [popHandler, a1, pushHandler, List.tail_cons]
  | tryReturn t c _ ih =>
    intro m m' hf h
    simp only [run, step] at h
    obtain ⟨m1, h1, h2⟩ := run_append_ok _ _ _ _ h
    obtain ⟨a1, a2⟩ := ih (pushHandler m t c) m1 hf h1
    rw [run_single] at h2
    simp only [step] at h2
    obtain ⟨hd, r, hh, e1, e2, _⟩ := jumpFinally_ok m1 m' h2
    rw [a1] at hh
    simp only [pushHandler, List.cons.injEq] at hh
    exact ⟨e1.trans hh.2.symm, e2.trans a2⟩
  | tryThrow t c _ ih =>
    intro m m' hf h
    simp only [run, step] at h
    obtain ⟨m1, h1, h2⟩ := run_append_ok _ _ _ _ h
    obtain ⟨a1, _⟩ := ih (pushHandler m t c) m1 hf h1
    rw [run_single] at h2
    obtain ⟨hd, r, hh, e1, e2⟩ := unwinding_step m1 m' .throw rfl h2
    rw [a1] at hh
    simp only [pushHandler, List.cons.injEq] at hh
    refine ⟨e1.trans hh.2.symm, ?_⟩
    rw [e2, ← hh.1, mkHandler_noCatch]
  | tryRaise t c e _ ih =>
    intro m m' hf h
    simp only [run, step] at h
    obtain ⟨m1, h1, h2⟩ := run_append_ok _ _ _ _ h
    obtain ⟨a1, _⟩ := ih (pushHandler m t c) m1 hf h1
    rw [run_single] at h2
    obtain ⟨hd, r, hh, e1, e2⟩ := unwinding_step m1 m' (.raise e) rfl h2
    rw [a1] at hh
    simp only [pushHandler, List.cons.injEq] at hh
    refine ⟨e1.trans hh.2.symm, ?_⟩
    rw [e2, ← hh.1, mkHandler_noCatch]
  | tryNativeFail t c e n _ ih =>
    intro m m' hf h
    simp only [run, step] at h
    obtain ⟨m1, h1, h2⟩ := run_append_ok _ _ _ _ h
    obtain ⟨a1, _⟩ := ih (pushHandler m t c) m1 hf h1
    rw [run_single] at h2
    obtain ⟨hd, r, hh, e1, e2⟩ := unwinding_step m1 m' (.nativeFail e n) rfl h2
    rw [a1] at hh
    simp only [pushHandler, List.cons.injEq] at hh
    refine ⟨e1.trans hh.2.symm, ?_⟩
    rw [e2, ← hh.1, mkHandler_noCatch]
  | tryReraise t c _ ih =>
    intro m m' hf h
    simp only [run, step] at h
    obtain ⟨m1, h1, h2⟩ := run_append_ok _ _ _ _ h
    obtain ⟨a1, a2⟩ := ih (pushHandler m t c) m1 hf h1
    rw [run_single] at h2
    obtain ⟨hd, r, hh, e1, e2⟩ := unwinding_step m1 m' .endFinally (by simpa [unwinds] using a2) h2
    rw [a1] at hh
    simp only [pushHandler, List.cons.injEq] at hh
    refine ⟨e1.trans hh.2.symm, ?_⟩
    rw [e2, ← hh.1, mkHandler_noCatch]

theorem bal_nest (f : Bool) (body : List Op) (hb : Bal f body f) : ∀ n, Bal f (nest body n) f
  | 0 => hb
  | n + 1 => Bal.tryOk 10 5 (bal_nest f body hb n)

end Yarel.Handlers
