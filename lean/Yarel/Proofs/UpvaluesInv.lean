/-
Invariants of the upvalue mechanism.

`Coh`  holds after EVERY operation sequence (disciplined or not): the open list is strictly descending by slot and
       its nodes are exactly the open cells, each carrying the slot its cell records.
`Inv`  = `Coh` + every open cell points below the stack top; holds after disciplined sequences.
-/
import Yarel.Proofs.UpvaluesList

namespace Yarel.Upv

open Fiber

structure Coh (s : Fiber) : Prop where
  desc : Desc s.openList
  mem_iff : ∀ c sl, (c, sl) ∈ s.openList ↔ s.cells[c]? = some (Cell.opened sl)

structure Inv (s : Fiber) : Prop extends Coh s where
  inrange : ∀ (c sl : Nat), s.cells[c]? = some (Cell.opened sl) → sl < s.stack.length

theorem Coh.distinct {s : Fiber} (h : Coh s) : s.openList.Pairwise (fun a b => a.1 ≠ b.1) := by
  refine List.Pairwise.imp_of_mem ?_ h.desc
  intro a b ha hb hab heq
  have h1 := (h.mem_iff a.1 a.2).mp ha
  have h2 := (h.mem_iff b.1 b.2).mp hb
  rw [heq] at h1
  rw [h1] at h2
  simp only [Option.some.injEq, Cell.opened.injEq] at h2
  omega

theorem Coh.nodup {s : Fiber} (h : Coh s) : (s.openList.map Prod.fst).Nodup := by
  unfold List.Nodup
  rw [List.pairwise_map]
  exact h.distinct

theorem Coh.unique_slot {s : Fiber} (h : Coh s) {c1 c2 sl : Nat}
    (h1 : s.cells[c1]? = some (Cell.opened sl)) (h2 : s.cells[c2]? = some (Cell.opened sl)) : c1 = c2 := by
  exact Desc.unique_slot h.desc ((h.mem_iff c1 sl).mpr h1) ((h.mem_iff c2 sl).mpr h2)

theorem coh_empty : Coh Fiber.empty := ⟨by simp [Fiber.empty, Desc], by simp [Fiber.empty]⟩

theorem inv_empty : Inv Fiber.empty := ⟨coh_empty, by simp [Fiber.empty]⟩

/-! ### closing -/

theorem closeCells_ok : ∀ (L : List (Nat × Nat)) (s s' : Fiber),
    (∀ q ∈ L, s.cells[q.1]? = some (Cell.opened q.2)) →
    L.Pairwise (fun a b => a.1 ≠ b.1) →
    closeCells L s = .ok s' →
    s'.stack = s.stack ∧ s'.openList = s.openList ∧ s'.cells.length = s.cells.length ∧
    (∀ q ∈ L, ∃ v, s.stack[q.2]? = some v ∧ s'.cells[q.1]? = some (Cell.closed v)) ∧
    (∀ c, (∀ q ∈ L, q.1 ≠ c) → s'.cells[c]? = s.cells[c]?) := by
  intro L
  induction L with
  | nil =>
    intro s s' _ _ h
    simp only [closeCells, Res.ok.injEq] at h
    subst h
    simp
  | cons p t ih =>
    obtain ⟨c, sl⟩ := p
    intro s s' hL hnd h
    have hc : s.cells[c]? = some (Cell.opened sl) := hL (c, sl) List.mem_cons_self
    have hclt : c < s.cells.length := by
      rcases Nat.lt_or_ge c s.cells.length with h | h
      · exact h
      · rw [List.getElem?_eq_none h] at hc; cases hc
    simp only [closeCells, closeCell, getCell, hc] at h
    cases hv : s.stack[sl]? with
    | none => simp [hv] at h
    | some v =>
      simp only [hv] at h
      have hnd' := List.pairwise_cons.mp hnd
      obtain ⟨e1, e2, el, e3, e4⟩ := ih { s with cells := s.cells.set c (.closed v) } s'
        (by
          intro q hq
          have hne : c ≠ q.1 := hnd'.1 q hq
          simp only
          rw [List.getElem?_set_ne hne]
          exact hL q (List.mem_cons_of_mem _ hq))
        hnd'.2 h
      simp only [List.length_set] at e1 e2 el e3 e4
      refine ⟨e1, e2, el, ?_, ?_⟩
      · intro q hq
        rcases List.mem_cons.mp hq with rfl | hq
        · refine ⟨v, hv, ?_⟩
          rw [e4 c (fun q hq => (hnd'.1 q hq).symm)]
          simp [List.getElem?_set_self hclt]
        · exact e3 q hq
      · intro c' hc'
        have hne : c ≠ c' := hc' (c, sl) List.mem_cons_self
        rw [e4 c' (fun q hq => hc' q (List.mem_cons_of_mem _ hq))]
        exact List.getElem?_set_ne hne

theorem closeCells_progress : ∀ (L : List (Nat × Nat)) (s : Fiber),
    (∀ q ∈ L, s.cells[q.1]? = some (Cell.opened q.2) ∧ q.2 < s.stack.length) →
    L.Pairwise (fun a b => a.1 ≠ b.1) →
    ∃ s', closeCells L s = .ok s' := by
  intro L
  induction L with
  | nil => intro s _ _; exact ⟨s, rfl⟩
  | cons p t ih =>
    obtain ⟨c, sl⟩ := p
    intro s hL hnd
    have hc := hL (c, sl) List.mem_cons_self
    simp only at hc
    have hnd' := List.pairwise_cons.mp hnd
    simp only [closeCells, closeCell, getCell, hc.1, List.getElem?_eq_getElem hc.2]
    apply ih _ _ hnd'.2
    intro q hq
    have hne : c ≠ q.1 := hnd'.1 q hq
    simp only
    rw [List.getElem?_set_ne hne]
    exact hL q (List.mem_cons_of_mem _ hq)

/-- Specification of `closeFrom` (valid in every coherent state in which it does not fault). -/
theorem closeFrom_ok {s s' : Fiber} {cs : List Nat} {idx : Nat} (h : Coh s)
    (hr : s.closeFrom idx = .ok (s', cs)) :
    s'.stack = s.stack ∧ s'.cells.length = s.cells.length ∧
    s'.openList = s.openList.filter (fun q => decide (q.2 < idx)) ∧
    cs = (s.openList.filter (fun q => decide (idx ≤ q.2))).map Prod.fst ∧
    (∀ (c sl : Nat), s.cells[c]? = some (Cell.opened sl) → idx ≤ sl →
        ∃ v, s.stack[sl]? = some v ∧ s'.cells[c]? = some (Cell.closed v)) ∧
    (∀ (c : Nat), (∀ sl, s.cells[c]? = some (Cell.opened sl) → sl < idx) → s'.cells[c]? = s.cells[c]?) := by
  unfold closeFrom at hr
  rw [closeList_desc idx s.openList h.desc] at hr
  simp only at hr
  cases hcc : closeCells (s.openList.filter (fun q => decide (idx ≤ q.2)))
      { s with openList := s.openList.filter (fun q => decide (q.2 < idx)) } with
  | fault => simp [hcc] at hr
  | bad => simp [hcc] at hr
  | ok s1 =>
    simp only [hcc, Res.ok.injEq, Prod.mk.injEq] at hr
    obtain ⟨rfl, rfl⟩ := hr
    obtain ⟨e1, e2, el, e3, e4⟩ := closeCells_ok _ _ _
      (by
        intro q hq
        exact (h.mem_iff q.1 q.2).mp (List.mem_filter.mp hq).1)
      (List.Pairwise.filter _ h.distinct) hcc
    simp only at e1 e2 el e3 e4
    refine ⟨e1, el, e2, rfl, ?_, ?_⟩
    · intro c sl hc hle
      have hm : (c, sl) ∈ s.openList.filter (fun q => decide (idx ≤ q.2)) :=
        List.mem_filter.mpr ⟨(h.mem_iff c sl).mpr hc, by simpa using hle⟩
      exact e3 (c, sl) hm
    · intro c hc
      apply e4
      intro q hq heq
      have hq' := List.mem_filter.mp hq
      have := (h.mem_iff q.1 q.2).mp hq'.1
      rw [heq] at this
      have := hc _ this
      have := hq'.2
      simp only [decide_eq_true_eq] at this
      omega

/-- `closeFrom` cannot fault when all open cells are in range. -/
theorem closeFrom_progress {s : Fiber} (h : Inv s) (idx : Nat) :
    ∃ s' cs, s.closeFrom idx = .ok (s', cs) := by
  unfold closeFrom
  obtain ⟨s1, hs1⟩ := closeCells_progress (closeList idx s.openList).1
    { s with openList := (closeList idx s.openList).2 }
    (by
      intro q hq
      have hmem : q ∈ s.openList := by
        rw [← closeList_append idx s.openList]; exact List.mem_append_left _ hq
      have := (h.mem_iff q.1 q.2).mp hmem
      exact ⟨this, h.inrange _ _ this⟩)
    (by
      have := h.toCoh.distinct
      rw [← closeList_append idx s.openList] at this
      exact (List.pairwise_append.mp this).1)
  simp only [hs1]
  exact ⟨_, _, rfl⟩

/-! ### preservation of `Coh` by every operation -/

theorem coh_capture {s : Fiber} (h : Coh s) (loc : Nat) : Coh (s.capture loc).1 := by
  have hlt : ∀ c sl, (c, sl) ∈ s.openList → c < s.cells.length := by
    intro c sl hm
    have := (h.mem_iff c sl).mp hm
    rcases Nat.lt_or_ge c s.cells.length with h | h
    · exact h
    · rw [List.getElem?_eq_none h] at this; cases this
  unfold capture
  simp only
  split
  · rename_i hnew
    refine ⟨captureList_desc _ _ _ h.desc, ?_⟩
    intro c sl
    simp only [captureList_mem, hnew, true_and, Prod.mk.injEq]
    rw [List.getElem?_append]
    split
    · rename_i hc
      rw [← h.mem_iff]
      constructor
      · rintro (hm | ⟨rfl, rfl⟩)
        · exact hm
        · omega
      · exact Or.inl
    · rename_i hc
      constructor
      · rintro (hm | ⟨rfl, rfl⟩)
        · exact absurd (hlt _ _ hm) hc
        · simp
      · intro hh
        right
        have hc' : c - s.cells.length < 1 := by
          rcases Nat.lt_or_ge (c - s.cells.length) 1 with h | h
          · exact h
          · rw [List.getElem?_eq_none (by simpa using h)] at hh; cases hh
        have : c = s.cells.length := by omega
        subst this
        simp only [Nat.sub_self, List.getElem?_cons_zero, Option.some.injEq, Cell.opened.injEq] at hh
        exact ⟨rfl, hh.symm⟩
  · rename_i hnew
    have hnew' : (captureList s.cells.length loc s.openList).1.2 = false := by
      simpa using hnew
    have := captureList_old _ _ _ hnew'
    simp only [this.1]
    exact h

theorem coh_setCell {s s' : Fiber} (h : Coh s) {c : Nat} {v : Val} (hr : s.setCell c v = .ok s') :
    Coh s' := by
  unfold setCell at hr
  split at hr
  · cases hr
  · rename_i v0 hc
    simp only [Res.ok.injEq] at hr
    subst hr
    refine ⟨h.desc, ?_⟩
    intro c' sl
    simp only
    rw [h.mem_iff]
    by_cases hcc : c = c'
    · subst hcc
      have hclt : c < s.cells.length := by
        rcases Nat.lt_or_ge c s.cells.length with h | h
        · exact h
        · rw [List.getElem?_eq_none h] at hc; cases hc
      rw [List.getElem?_set_self hclt, hc]
      simp
    · rw [List.getElem?_set_ne hcc]
  · split at hr
    · simp only [Res.ok.injEq] at hr
      subst hr
      exact ⟨h.desc, h.mem_iff⟩
    · cases hr

theorem coh_closeFrom {s s' : Fiber} {cs : List Nat} {idx : Nat} (h : Coh s)
    (hr : s.closeFrom idx = .ok (s', cs)) : Coh s' := by
  obtain ⟨e1, _, e2, _, e4, e5⟩ := closeFrom_ok h hr
  refine ⟨by rw [e2]; exact h.desc.filter _, ?_⟩
  intro c sl
  rw [e2, List.mem_filter, h.mem_iff]
  simp only [decide_eq_true_eq]
  constructor
  · rintro ⟨hc, hlt⟩
    rw [e5 c]
    · exact hc
    · intro sl' hc'
      rw [hc] at hc'
      simp only [Option.some.injEq, Cell.opened.injEq] at hc'
      omega
  · intro hc
    -- `c` is open in `s'`: it was not among the closed ones
    cases hold : s.cells[c]? with
    | none =>
      rw [e5 c (by intro sl' h'; rw [hold] at h'; cases h')] at hc
      rw [hold] at hc; cases hc
    | some cell =>
      cases cell with
      | closed v0 =>
        rw [e5 c (by intro sl' h'; rw [hold] at h'; cases h')] at hc
        rw [hold] at hc; cases hc
      | opened sl0 =>
        rcases Nat.lt_or_ge sl0 idx with hlt | hge
        · rw [e5 c (by
            intro sl' h'; rw [hold] at h'
            simp only [Option.some.injEq, Cell.opened.injEq] at h'; omega)] at hc
          rw [hold] at hc
          simp only [Option.some.injEq, Cell.opened.injEq] at hc
          subst hc
          exact ⟨rfl, hlt⟩
        · obtain ⟨v, _, hv⟩ := e4 c sl0 hold hge
          rw [hv] at hc; cases hc

theorem coh_truncate {s s' : Fiber} (h : Coh s) {n : Nat} (hr : s.truncate n = .ok s') : Coh s' := by
  unfold truncate at hr
  split at hr
  · simp only [Res.ok.injEq] at hr; subst hr; exact ⟨h.desc, h.mem_iff⟩
  · cases hr

theorem coh_closeAndTruncate {s s' : Fiber} {cs : List Nat} {n : Nat} (h : Coh s)
    (hr : s.closeAndTruncate n = .ok (s', cs)) : Coh s' := by
  unfold closeAndTruncate at hr
  split at hr
  · rename_i s1 cs1 h1
    split at hr
    · rename_i s2 h2
      simp only [Res.ok.injEq, Prod.mk.injEq] at hr
      obtain ⟨rfl, rfl⟩ := hr
      exact coh_truncate (coh_closeFrom h h1) h2
    · cases hr
    · cases hr
  · cases hr
  · cases hr

/-- `Coh` is preserved by EVERY operation, disciplined or not. -/
theorem coh_step {s s' : Fiber} {op : Op} {o : Obs} (h : Coh s) (hr : step op s = .ok (s', o)) :
    Coh s' := by
  cases op with
  | push v =>
    simp only [step, push, Res.ok.injEq, Prod.mk.injEq] at hr
    obtain ⟨rfl, _⟩ := hr
    exact ⟨h.desc, h.mem_iff⟩
  | getLocal i =>
    simp only [step] at hr
    split at hr
    · simp only [Res.ok.injEq, Prod.mk.injEq] at hr; obtain ⟨rfl, _⟩ := hr; exact h
    · cases hr
    · cases hr
  | setLocal i v =>
    simp only [step] at hr
    split at hr
    · rename_i s1 h1
      simp only [Res.ok.injEq, Prod.mk.injEq] at hr; obtain ⟨rfl, _⟩ := hr
      unfold setLocal at h1
      split at h1
      · simp only [Res.ok.injEq] at h1; subst h1; exact ⟨h.desc, h.mem_iff⟩
      · cases h1
    · cases hr
    · cases hr
  | capture loc =>
    simp only [step, Res.ok.injEq, Prod.mk.injEq] at hr
    obtain ⟨rfl, _⟩ := hr
    exact coh_capture h loc
  | getCell c =>
    simp only [step] at hr
    split at hr
    · simp only [Res.ok.injEq, Prod.mk.injEq] at hr; obtain ⟨rfl, _⟩ := hr; exact h
    · cases hr
    · cases hr
  | setCell c v =>
    simp only [step] at hr
    split at hr
    · rename_i s1 h1
      simp only [Res.ok.injEq, Prod.mk.injEq] at hr; obtain ⟨rfl, _⟩ := hr
      exact coh_setCell h h1
    · cases hr
    · cases hr
  | closeAndTruncate n =>
    simp only [step] at hr
    split at hr
    · rename_i s1 cs1 h1
      simp only [Res.ok.injEq, Prod.mk.injEq] at hr; obtain ⟨rfl, _⟩ := hr
      exact coh_closeAndTruncate h h1
    · cases hr
    · cases hr
  | closeFrom idx =>
    simp only [step] at hr
    split at hr
    · rename_i s1 cs1 h1
      simp only [Res.ok.injEq, Prod.mk.injEq] at hr; obtain ⟨rfl, _⟩ := hr
      exact coh_closeFrom h h1
    · cases hr
    · cases hr
  | truncate n =>
    simp only [step] at hr
    split at hr
    · rename_i s1 h1
      simp only [Res.ok.injEq, Prod.mk.injEq] at hr; obtain ⟨rfl, _⟩ := hr
      exact coh_truncate h h1
    · cases hr
    · cases hr

/-- After ANY sequence of operations (from a coherent state) the open list is coherent. -/
theorem coh_run : ∀ (ops : List Op) (s s' : Fiber) (os : List Obs),
    Coh s → run ops s = .ok (s', os) → Coh s' := by
  intro ops
  induction ops with
  | nil =>
    intro s s' os h hr
    simp only [run, Res.ok.injEq, Prod.mk.injEq] at hr
    obtain ⟨rfl, _⟩ := hr; exact h
  | cons op ops ih =>
    intro s s' os h hr
    simp only [run] at hr
    split at hr
    · rename_i s1 o h1
      split at hr
      · rename_i s2 os2 h2
        simp only [Res.ok.injEq, Prod.mk.injEq] at hr
        obtain ⟨rfl, _⟩ := hr
        exact ih _ _ _ (coh_step h h1) h2
      · cases hr
      · cases hr
    · cases hr
    · cases hr

end Yarel.Upv
