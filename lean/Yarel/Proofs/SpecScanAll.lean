/-
The token stream `scanAll src` as a list: shape (exactly one `eof`, at the end), fuel independence and
line numbers.
-/
import Yarel.Proofs.SpecScanToken

namespace Yarel.Spec
namespace Scanner

/-- Invariant of the scanner between tokens. -/
def Inv (s : Scanner) : Prop :=
  s.current ≤ s.src.size ∧ 1 ≤ s.line ∧ s.line ≤ 1 + nlUpTo s.src s.current

theorem Inv.of_adv {s s' : Scanner} (h : Adv s s') (hi : Inv s) : Inv s' := by
  obtain ⟨h1, h2, h3⟩ := hi
  have hb := h.bound h1
  have hl := h.line
  have hn := h.nl
  have hs := h.src
  refine ⟨by rw [hs]; exact hb, by omega, ?_⟩
  rw [hs]; omega

theorem Inv.init (chars : Array Char) : Inv { src := chars } :=
  ⟨Nat.zero_le _, Nat.le_refl _, Nat.le_add_right _ _⟩

/-- list version of `scanAllAux` -/
def scanList : Nat → Scanner → List Token
  | 0, _ => []
  | n + 1, s =>
    if (scanToken s).1.kind == .eof then [(scanToken s).1]
    else (scanToken s).1 :: scanList n (scanToken s).2

theorem scanAllAux_eq (n : Nat) (s : Scanner) (acc : Array Token) :
    scanAllAux n s acc = acc ++ (scanList n s).toArray := by
  induction n generalizing s acc with
  | zero => simp [scanAllAux, scanList]
  | succ n ih =>
    unfold scanAllAux scanList
    dsimp only
    split
    · simp
    · rw [ih]; simp

theorem scanList_spec (n : Nat) (s : Scanner) (hi : Inv s) (hf : s.src.size - s.current + 1 ≤ n) :
    (∃ pre t, scanList n s = pre ++ [t] ∧ t.kind = .eof ∧ ∀ x ∈ pre, x.kind ≠ .eof) ∧
    (scanList n s).Pairwise (fun a b => a.line ≤ b.line) ∧
    (∀ t ∈ scanList n s, s.line ≤ t.line ∧ t.line ≤ 1 + s.src.toList.count '\n') ∧
    ∀ k, scanList (n + k) s = scanList n s := by
  induction n generalizing s with
  | zero => omega
  | succ n ih =>
    obtain ⟨hadv, hline, hprog⟩ := scanToken_spec s
    have hi' := Inv.of_adv hadv hi
    have hbnd : (scanToken s).1.line ≤ 1 + s.src.toList.count '\n' := by
      refine Nat.le_trans hline.2 ?_
      have := hi'.2.2
      rw [hadv.src] at this
      exact Nat.le_trans this (Nat.add_le_add_left (nlUpTo_le_total _ _) 1)
    have hge : s.line ≤ (scanToken s).1.line := hline.1
    by_cases he : (scanToken s).1.kind = .eof
    · have hl : ∀ m, scanList (m + 1) s = [(scanToken s).1] := by
        intro m; simp [scanList, he]
      refine ⟨⟨[], _, by rw [hl]; rfl, he, by simp⟩, by rw [hl]; simp, ?_, ?_⟩
      · rw [hl]; intro t ht; simp at ht; subst ht; exact ⟨hge, hbnd⟩
      · intro k; rw [show n + 1 + k = (n + k) + 1 by omega, hl, hl]
    · have hl : ∀ m, scanList (m + 1) s = (scanToken s).1 :: scanList m (scanToken s).2 := by
        intro m; simp [scanList, he]
      have hcur : s.current < (scanToken s).2.current := by
        rcases hprog with h | h
        · exact absurd h he
        · exact h
      have hb := hadv.bound hi.1
      have hf' : (scanToken s).2.src.size - (scanToken s).2.current + 1 ≤ n := by
        rw [hadv.src]; omega
      obtain ⟨⟨pre, t, hpre, hteof, hprene⟩, hpw, hlines, hfuel⟩ := ih _ hi' hf'
      refine ⟨⟨(scanToken s).1 :: pre, t, by rw [hl, hpre]; rfl, hteof, ?_⟩, ?_, ?_, ?_⟩
      · intro x hx
        rcases List.mem_cons.1 hx with h | h
        · subst h; exact he
        · exact hprene x h
      · rw [hl]
        refine List.pairwise_cons.2 ⟨?_, hpw⟩
        intro t' ht'
        exact Nat.le_trans hline.2 (hlines t' ht').1
      · rw [hl]
        intro t' ht'
        rcases List.mem_cons.1 ht' with h | h
        · subst h; exact ⟨hge, hbnd⟩
        · have := hlines t' h
          rw [hadv.src] at this
          exact ⟨Nat.le_trans hadv.line this.1, this.2⟩
      · intro k
        rw [show n + 1 + k = (n + k) + 1 by omega, hl, hl, hfuel]

/-- every token but the last consumes at least one character -/
theorem scanList_length (n : Nat) (s : Scanner) (hi : Inv s) :
    (scanList n s).length ≤ s.src.size - s.current + 1 := by
  induction n generalizing s with
  | zero => simp [scanList]
  | succ n ih =>
    obtain ⟨hadv, _, hprog⟩ := scanToken_spec s
    by_cases he : (scanToken s).1.kind = .eof
    · simp [scanList, he]
    · have hcur : s.current < (scanToken s).2.current := by
        rcases hprog with h | h
        · exact absurd h he
        · exact h
      have hb := hadv.bound hi.1
      have := ih _ (Inv.of_adv hadv hi)
      rw [hadv.src] at this
      simp only [scanList, beq_iff_eq, he, if_false, List.length_cons]
      omega

/-- The scanner state `scanAll` starts from. -/
def scanStart (src : String) : Scanner := { src := src.toList.toArray }

theorem scanAll_eq_list (src : String) :
    scanAll src = (scanList (src.toList.toArray.size + 2) (scanStart src)).toArray := by
  unfold scanAll scanStart
  simp [scanAllAux_eq]

theorem scanStart_spec (src : String) :
    (∃ pre t, scanList (src.toList.toArray.size + 2) (scanStart src) = pre ++ [t] ∧ t.kind = .eof ∧
      ∀ x ∈ pre, x.kind ≠ .eof) ∧
    (scanList (src.toList.toArray.size + 2) (scanStart src)).Pairwise (fun a b => a.line ≤ b.line) ∧
    (∀ t ∈ scanList (src.toList.toArray.size + 2) (scanStart src),
      1 ≤ t.line ∧ t.line ≤ 1 + src.toList.count '\n') ∧
    ∀ k, scanList (src.toList.toArray.size + 2 + k) (scanStart src) =
      scanList (src.toList.toArray.size + 2) (scanStart src) := by
  have h := scanList_spec (src.toList.toArray.size + 2) (scanStart src) (Inv.init _)
    (by simp [scanStart])
  refine ⟨h.1, h.2.1, ?_, h.2.2.2⟩
  intro t ht
  simpa [scanStart] using h.2.2.1 t ht

end Scanner
end Yarel.Spec
