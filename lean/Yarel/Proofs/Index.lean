/-
Helper lemmas for `Yarel/Model/Index.lean`: specs of `boundedIndex` / `boundedRange`, absence of faults.
-/
import Yarel.Model.Index
namespace Yarel.Index

open Yarel

@[simp] theorem Outcome.bind_ok {α β : Type} (a : α) (f : α → Outcome β) : (Outcome.ok a).bind f = f a := rfl
@[simp] theorem Outcome.bind_err {α β : Type} (e : Err) (f : α → Outcome β) :
    (Outcome.err e : Outcome α).bind f = .err e := rfl
@[simp] theorem Outcome.bind_fault {α β : Type} (s : Site) (f : α → Outcome β) :
    (Outcome.fault s : Outcome α).bind f = .fault s := rfl
@[simp] theorem Outcome.isFault_ok {α : Type} (a : α) : (Outcome.ok a).isFault = false := rfl
@[simp] theorem Outcome.isFault_err {α : Type} (e : Err) : (Outcome.err e : Outcome α).isFault = false := rfl
@[simp] theorem Outcome.isFault_fault {α : Type} (s : Site) : (Outcome.fault s : Outcome α).isFault = true := rfl
@[simp] theorem isFault_mkErr {α : Type} (k : ErrKind) (m : Msg) : (mkErr k m : Outcome α).isFault = false := rfl

theorem Outcome.isFault_bind {α β : Type} (o : Outcome α) (f : α → Outcome β)
    (h1 : o.isFault = false) (h2 : ∀ a, o = .ok a → (f a).isFault = false) : (o.bind f).isFault = false := by
  cases o with
  | ok a => exact h2 a rfl
  | err e => rfl
  | fault s => simp at h1

/-- The saturating cast stays inside `isize`. -/
theorem toIsize_range (b : UInt64) : F64.isizeMin ≤ F64.toIsize b ∧ F64.toIsize b ≤ F64.isizeMax := by
  unfold F64.toIsize
  split
  · simp [F64.isizeMin, F64.isizeMax]
  split
  · split <;> simp [F64.isizeMin, F64.isizeMax]
  · simp only
    split
    · simp [F64.isizeMin, F64.isizeMax]
    split
    · simp [F64.isizeMin, F64.isizeMax]
    · omega

/-- For finite values inside the `isize` range the cast is exact. -/
theorem toIsize_exact (b : UInt64) (hn : F64.isNaN b = false) (hi : F64.isInf b = false)
    (h1 : F64.isizeMin ≤ F64.truncInt b) (h2 : F64.truncInt b ≤ F64.isizeMax) :
    F64.toIsize b = F64.truncInt b := by
  unfold F64.toIsize
  simp only [hn, hi, Bool.false_eq_true, ↓reduceIte]
  rw [if_neg (by omega), if_neg (by omega)]

theorem toIsize_inf (b : UInt64) (hi : F64.isInf b = true) :
    F64.toIsize b = if F64.signBit b then F64.isizeMin else F64.isizeMax := by
  have hn : F64.isNaN b = false := by
    simp only [F64.isInf, Bool.and_eq_true, beq_iff_eq] at hi
    simp [F64.isNaN, hi.2]
  unfold F64.toIsize
  simp only [hn, hi, Bool.false_eq_true, ↓reduceIte]

theorem toIsize_big (b : UInt64) (hn : F64.isNaN b = false) (hi : F64.isInf b = false) :
    (F64.isizeMax < F64.truncInt b → F64.toIsize b = F64.isizeMax) ∧
    (F64.truncInt b < F64.isizeMin → F64.toIsize b = F64.isizeMin) := by
  unfold F64.toIsize
  simp only [hn, hi, Bool.false_eq_true, ↓reduceIte]
  constructor
  · intro h; rw [if_pos h]
  · intro h
    rw [if_neg (by simp only [F64.isizeMin, F64.isizeMax] at *; omega), if_pos h]

theorem validateInteger_num (b : UInt64) :
    validateInteger (.num b) =
      if F64.isIntegral b then .ok (F64.toIsize b) else mkErr .ValueError (.expectedInteger (.num b)) := rfl

theorem validateInteger_not_fault (v : Val) : (validateInteger v).isFault = false := by
  unfold validateInteger
  split
  · split <;> rfl
  · rfl

theorem validateInteger_range {v : Val} {i : Int} (h : validateInteger v = .ok i) :
    F64.isizeMin ≤ i ∧ i ≤ F64.isizeMax := by
  unfold validateInteger at h
  split at h
  · split at h
    · cases h; exact toIsize_range _
    · simp [mkErr] at h
  · simp [mkErr] at h

theorem normIdx_nonneg {i : Int} (h : 0 ≤ i) (len : Nat) : normIdx i len = i := by
  unfold normIdx; rw [if_neg (by omega)]

theorem normIdx_neg {i : Int} (h : i < 0) (len : Nat) : normIdx i len = i + (len : Int) := by
  unfold normIdx; rw [if_pos h]

theorem boundedIndex_ok_iff {v : Val} {len : Nat} {k : Kind} {n : Nat} :
    boundedIndex v len k = .ok n ↔
      ∃ i, validateInteger v = .ok i ∧ 0 ≤ normIdx i len ∧ normIdx i len < (len : Int) ∧
        n = (normIdx i len).toNat := by
  unfold boundedIndex
  cases hv : validateInteger v with
  | ok i =>
    simp only
    split
    · simp only [mkErr, reduceCtorEq, Outcome.ok.injEq, false_iff, not_exists, not_and]
      rintro j rfl h1 h2; omega
    · simp only [Outcome.ok.injEq]
      constructor
      · rintro rfl; exact ⟨i, rfl, by omega, by omega, rfl⟩
      · rintro ⟨j, rfl, _, _, rfl⟩; rfl
  | err e => simp
  | fault s => simp

theorem boundedIndex_ok_lt {v : Val} {len : Nat} {k : Kind} {i : Nat}
    (h : boundedIndex v len k = .ok i) : i < len := by
  obtain ⟨j, _, h1, h2, rfl⟩ := boundedIndex_ok_iff.mp h
  omega

theorem boundedIndex_not_fault (v : Val) (len : Nat) (k : Kind) : (boundedIndex v len k).isFault = false := by
  unfold boundedIndex
  have := validateInteger_not_fault v
  cases hv : validateInteger v with
  | ok j => simp only; split <;> rfl
  | err e => rfl
  | fault s => simp [hv] at this

theorem boundedRange_ok_iff {b e : Int} {len : Nat} {k : Kind} {lo hi : Nat} :
    boundedRange b e len k = .ok (lo, hi) ↔
      0 ≤ normIdx b len ∧ normIdx b len < (len : Int) ∧ 0 ≤ normIdx e len ∧ normIdx e len ≤ (len : Int) ∧
      lo = (normIdx b len).toNat ∧ hi = (max (normIdx b len) (normIdx e len)).toNat := by
  unfold boundedRange
  simp only
  split
  · simp only [mkErr, reduceCtorEq, false_iff]; omega
  · split
    · simp only [mkErr, reduceCtorEq, false_iff]; omega
    · simp only [Outcome.ok.injEq, Prod.mk.injEq]
      split
      · rw [Int.max_eq_right (by omega)]
        constructor
        · rintro ⟨rfl, rfl⟩; omega
        · rintro ⟨_, _, _, _, rfl, rfl⟩; exact ⟨rfl, rfl⟩
      · rw [Int.max_eq_left (by omega)]
        constructor
        · rintro ⟨rfl, rfl⟩; omega
        · rintro ⟨_, _, _, _, rfl, rfl⟩; exact ⟨rfl, rfl⟩

theorem boundedRange_ok {b e : Int} {len : Nat} {k : Kind} {lo hi : Nat}
    (h : boundedRange b e len k = .ok (lo, hi)) : lo < len ∧ lo ≤ hi ∧ hi ≤ len := by
  obtain ⟨h1, h2, h3, h4, rfl, rfl⟩ := boundedRange_ok_iff.mp h
  omega

theorem boundedRange_not_fault (b e : Int) (len : Nat) (k : Kind) : (boundedRange b e len k).isFault = false := by
  unfold boundedRange
  simp only
  split
  · rfl
  · split <;> rfl

theorem sliceGetItem_not_fault {α : Type} (elems : List α) (idx : Val) (k : Kind) :
    (sliceGetItem elems idx k).isFault = false := by
  unfold sliceGetItem
  split
  · rename_i bits
    have hnf := boundedIndex_not_fault (.num bits) elems.length k
    cases hb : boundedIndex (.num bits) elems.length k with
    | ok i =>
      have := boundedIndex_ok_lt hb
      simp only
      split
      · rfl
      · rename_i hnone
        rw [List.getElem?_eq_none_iff] at hnone
        omega
    | err e => rfl
    | fault s => simp [hb] at hnf
  · rename_i b e
    have hnf := boundedRange_not_fault b e elems.length k
    cases hr : boundedRange b e elems.length k with
    | ok p =>
      obtain ⟨lo, hi⟩ := p
      have := boundedRange_ok hr
      simp only
      rw [if_pos ⟨this.2.1, this.2.2⟩]; rfl
    | err e => rfl
    | fault s => simp [hr] at hnf
  · rfl

theorem tupleGetItem_not_fault (elems : List Val) (idx : Val) : (tupleGetItem elems idx).isFault = false := by
  unfold tupleGetItem
  have := sliceGetItem_not_fault elems idx .Tuple
  split <;> simp_all

theorem vecGetItem_not_fault (elems : List Val) (idx : Val) : (vecGetItem elems idx).isFault = false := by
  unfold vecGetItem
  have := sliceGetItem_not_fault elems idx .Vec
  split <;> simp_all

theorem setItem_not_fault (recv idx value : Val) : (setItem recv idx value).isFault = false := by
  unfold setItem
  split
  · rename_i xs
    split
    · rename_i i hi
      rw [if_pos (boundedIndex_ok_lt hi)]; rfl
    · rfl
    · rename_i s hs
      have := boundedIndex_not_fault idx xs.length .Vec
      simp [hs] at this
  · rfl

theorem buildRange_not_fault (b e : Val) : (buildRange b e).isFault = false := by
  unfold buildRange
  have h1 := validateInteger_not_fault e
  have h2 := validateInteger_not_fault b
  split
  · split <;> simp_all
  · rfl
  · simp_all

theorem elemIterNext_not_fault (elems : List Val) (cur : Nat) : (elemIterNext elems cur).isFault = false := by
  unfold elemIterNext
  split
  · rfl
  · split
    · rfl
    · rename_i hnone
      rw [List.getElem?_eq_none_iff] at hnone
      omega

end Yarel.Index
