/-
Every token-producing function of the spec scanner: the scanner it returns is an `Adv`-successor of
its input, the token carries the line of the returned scanner, and only the end-of-input branch of
`scanToken` makes an `eof` token.
-/
import Yarel.Proofs.SpecScanAdv

namespace Yarel.Spec
namespace Scanner

/-- What every token-producing helper guarantees, relative to a reference scanner `s0`. -/
def Good (s0 : Scanner) (r : Token × Scanner) : Prop :=
  Adv s0 r.2 ∧ (s0.line ≤ r.1.line ∧ r.1.line ≤ r.2.line) ∧ r.1.kind ≠ .eof

theorem good_make {s0 s : Scanner} (h : Adv s0 s) {k : TokenKind} (hk : k ≠ .eof) :
    Good s0 (s.makeToken k, s) := ⟨h, ⟨h.line, Nat.le_refl _⟩, hk⟩

theorem good_error {s0 s : Scanner} (h : Adv s0 s) (msg : String) :
    Good s0 (s.errorToken msg, s) := ⟨h, ⟨h.line, Nat.le_refl _⟩, by simp [errorToken]⟩

/-- an error token made before the line end that the scanner has just consumed is counted (F51): the token keeps the line it was
found on, the scanner moves to the next line -/
theorem good_error_then_newline {s0 s : Scanner} (h : Adv s0 s) (msg : String) (c : Bool)
    (hn : c = true → Adv s0 { s with line := s.line + 1 }) :
    Good s0 (s.errorToken msg, if c then { s with line := s.line + 1 } else s) := by
  cases c with
  | false => exact good_error h msg
  | true =>
    refine ⟨hn rfl, ⟨h.line, ?_⟩, by simp [errorToken]⟩
    simp [errorToken]

theorem stringBody_good (n : Nat) : ∀ (s0 s : Scanner) (buf : List Char) (err : Option String),
    Adv s0 s → Good s0 (stringBody n s buf err) := by
  induction n with
  | zero => intro s0 s buf err h; exact good_error h _
  | succ n ih =>
    intro s0 s buf err h
    unfold stringBody
    split
    · exact good_error h _
    · next hq =>
      have h1 := h.trans (Adv.one hq)
      dsimp only
      split
      · exact good_error h1 _
      · exact ⟨h1, ⟨h1.line, Nat.le_refl _⟩, by simp⟩
    · next hq =>
      have h1 := h.trans (Adv.one hq)
      dsimp only
      have h2 := h1.trans (advance_adv _)
      split
      · exact good_error_then_newline h2 _ _ (fun hc => h1.trans (advance_newline_adv _ (by simpa using hc)))
      · split
        · exact good_error h2 _
        · exact ⟨h2.setParens _, ⟨h2.line, Nat.le_refl _⟩, by simp⟩
    · next hq =>
      have h1 := h.trans (Adv.one hq)
      dsimp only
      have h2 := h1.trans (advance_adv _)
      have esc : ∀ k, Adv s0 (readEscapedBytes
          ({ s with current := s.current + 1 } : Scanner).advance.snd k).2 :=
        fun k => h2.trans (readEscapedBytes_adv _ k)
      split
      any_goals exact ih _ _ _ _ h2
      · have h3 := esc 2
        split
        · next hh => rw [hh] at h3; exact ih _ _ _ _ h3
        · next hh => rw [hh] at h3; exact ih _ _ _ _ h3
      · have h3 := esc 4
        split
        · next hh => rw [hh] at h3; exact ih _ _ _ _ h3
        · next hh => rw [hh] at h3; exact ih _ _ _ _ h3
      · have h3 := esc 1
        split
        · next hh => rw [hh] at h3; exact ih _ _ _ _ h3
        · next hh => rw [hh] at h3; exact ih _ _ _ _ h3
      · exact good_error_then_newline h2 _ _ (fun hc => h1.trans (advance_newline_adv _ (by simpa using hc)))
    · next hq => exact ih _ _ _ _ (h.trans (Adv.newline hq))
    · next c _ _ _ _ hq => exact ih _ _ _ _ (h.trans (Adv.one (c := c) hq))

theorem string_good {s0 s : Scanner} (h : Adv s0 s) : Good s0 s.string :=
  stringBody_good _ _ _ _ _ h

theorem ite_ne_of {α : Type} {c : Prop} [Decidable c] {a b x : α} (ha : a ≠ x) (hb : b ≠ x) :
    (if c then a else b) ≠ x := by split <;> assumption

theorem keywordKind_ne_eof (t : String) : keywordKind t ≠ .eof := by
  unfold keywordKind
  repeat (first | exact (by decide) | apply ite_ne_of)

theorem identifier_good {s0 s : Scanner} (h : Adv s0 s) : Good s0 s.identifier :=
  ⟨h.trans (identTail_adv _ _), ⟨(h.trans (identTail_adv _ _)).line, Nat.le_refl _⟩, keywordKind_ne_eof _⟩

theorem number_good {s0 s : Scanner} (h : Adv s0 s) : Good s0 s.number := by
  unfold number
  suffices hA : Adv s0 (s.number).2 by
    exact ⟨hA, ⟨hA.line, Nat.le_refl _⟩, by simp [number, makeToken]⟩
  unfold number
  have h1 := h.trans (digitsTail_adv (s.src.size + 1) s)
  dsimp only
  split
  · next hp _ =>
    split
    · exact (h1.trans (Adv.one (c := '.') hp)).trans (digitsTail_adv _ _)
    · exact h1
  · exact h1

theorem binaryToken_good {s0 s : Scanner} (h : Adv s0 s) {a b : TokenKind} (ha : a ≠ .eof)
    (hb : b ≠ .eof) : Good s0 (s.binaryToken a b) := by
  unfold binaryToken
  refine ⟨h.trans (matchChar_adv _ _), ⟨(h.trans (matchChar_adv _ _)).line, Nat.le_refl _⟩, ?_⟩
  simp only [makeToken]
  split <;> assumption

theorem scanToken_spec (s : Scanner) :
    Adv s (scanToken s).2 ∧ (s.line ≤ (scanToken s).1.line ∧ (scanToken s).1.line ≤ (scanToken s).2.line) ∧
    ((scanToken s).1.kind = .eof ∨ s.current < (scanToken s).2.current) := by
  unfold scanToken
  have hw := skipWhitespace_adv (s.src.size + 1) s
  generalize skipWhitespace (s.src.size + 1) s = w at hw
  dsimp only
  have hw' : Adv s { w with start := w.current } := hw.setStart _
  generalize ({ w with start := w.current } : Scanner) = w' at hw'
  split
  · next s1 h1 =>
    have := advance_none h1
    subst this
    exact ⟨hw', ⟨hw'.line, Nat.le_refl _⟩, Or.inl rfl⟩
  · next c s1 h1 =>
    obtain ⟨hc, ha⟩ := advance_some h1
    have key : ∀ r : Token × Scanner, Good s1 r →
        (Adv s r.2 ∧ (s.line ≤ r.1.line ∧ r.1.line ≤ r.2.line) ∧ (r.1.kind = .eof ∨ s.current < r.2.current)) := by
      intro r hg
      have h1 := hw'.cur
      have h2 := hg.1.cur
      exact ⟨(hw'.trans ha).trans hg.1, ⟨Nat.le_trans (hw'.trans ha).line hg.2.1.1, hg.2.1.2⟩, Or.inr (by omega)⟩
    apply key
    have r0 := Adv.refl s1
    split
    · exact identifier_good r0
    split
    · exact number_good r0
    split
    all_goals first
      | exact good_make r0 (by decide)
      | exact binaryToken_good r0 (by decide) (by decide)
      | exact string_good r0
      | exact good_error r0 _
      | skip
    · -- '{'
      split
      · exact good_make (r0.setParens _) (by decide)
      · exact good_make r0 (by decide)
    · -- '}'
      split
      · split
        · exact string_good (r0.setParens _)
        · exact good_make (r0.setParens _) (by decide)
      · exact good_make r0 (by decide)
    · -- '.'
      refine good_make (matchChar_adv _ _) ?_
      split <;> decide
    · -- '<'
      refine good_make ((matchChar_adv _ _).trans (matchChar_adv _ _)) ?_
      split <;> decide
    · -- '>'
      refine good_make ((matchChar_adv _ _).trans (matchChar_adv _ _)) ?_
      split <;> decide
    · -- '|'
      split
      · exact good_make (matchChar_adv _ _) (by decide)
      · split
        · exact good_make (matchChar_adv _ _) (by decide)
        · exact good_make r0 (by decide)
    · -- '&'
      split
      · exact good_make (matchChar_adv _ _) (by decide)
      · split
        · exact good_make (matchChar_adv _ _) (by decide)
        · exact good_make r0 (by decide)

end Scanner
end Yarel.Spec
