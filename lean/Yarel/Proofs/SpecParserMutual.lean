/-
Preservation of the located-errors invariant by the mutually recursive part of the spec parser, by
induction on the fuel (every recursive call is made at the predecessor fuel).
-/
import Yarel.Proofs.SpecParserInv

namespace Yarel.Spec
open P

/-- All functions of the mutual block preserve the invariant at fuel `fuel`. -/
structure AllPres (m : String) (tbl : List Rule) (fuel : Nat) : Prop where
  parsePrecedence : ∀ (prec : Prec), Pres m (Yarel.Spec.parsePrecedence tbl fuel prec)
  infixLoop : ∀ (prec : Prec) (c : Bool) (l : Expr), Pres m (Yarel.Spec.infixLoop tbl fuel prec c l)
  expression : Pres m (Yarel.Spec.expression tbl fuel)
  argumentList : ∀ (k : TokenKind) (a b : String), Pres m (Yarel.Spec.argumentList tbl fuel k a b)
  argumentLoop : ∀ (a : String) (n : Nat) (acc : List Expr), Pres m (Yarel.Spec.argumentLoop tbl fuel a n acc)
  binaryAssignRhs : Pres m (Yarel.Spec.binaryAssignRhs tbl fuel)
  namedVariable : ∀ (name : String) (c : Bool), Pres m (Yarel.Spec.namedVariable tbl fuel name c)
  prefixRule : ∀ (h : PrefixFn) (c : Bool), Pres m (Yarel.Spec.prefixRule tbl fuel h c)
  groupingLoop : ∀ (n : Nat) (acc : List Expr), Pres m (Yarel.Spec.groupingLoop tbl fuel n acc)
  hashMapLoop : ∀ (n : Nat) (acc : List Expr), Pres m (Yarel.Spec.hashMapLoop tbl fuel n acc)
  interpolationLoop : ∀ (acc : List Expr), Pres m (Yarel.Spec.interpolationLoop tbl fuel acc)
  infixRule : ∀ (h : InfixFn) (c : Bool) (l : Expr), Pres m (Yarel.Spec.infixRule tbl fuel h c l)
  block : Pres m (Yarel.Spec.block tbl fuel)
  blockLoop : ∀ (acc : List Stmt), Pres m (Yarel.Spec.blockLoop tbl fuel acc)
  function : ∀ (k : FnKind), Pres m (Yarel.Spec.function tbl fuel k)
  method : Pres m (Yarel.Spec.method tbl fuel)
  methodLoop : ∀ (acc : List MethodDecl), Pres m (Yarel.Spec.methodLoop tbl fuel acc)
  classDeclaration : Pres m (Yarel.Spec.classDeclaration tbl fuel)
  fnDeclaration : Pres m (Yarel.Spec.fnDeclaration tbl fuel)
  varDeclaration : Pres m (Yarel.Spec.varDeclaration tbl fuel)
  statement : Pres m (Yarel.Spec.statement tbl fuel)
  declaration : Pres m (Yarel.Spec.declaration tbl fuel)
  programLoop : ∀ (acc : List Stmt), Pres m (Yarel.Spec.programLoop tbl fuel acc)

set_option maxRecDepth 4000 in
theorem allPres_zero (m : String) (tbl : List Rule) : AllPres m tbl 0 := by
  constructor
  · intros; rw [parsePrecedence]; pres
  · intros; rw [infixLoop]; pres
  · intros; rw [expression]; pres
  · intros; rw [argumentList]; pres
  · intros; rw [argumentLoop]; pres
  · intros; rw [binaryAssignRhs]; pres
  · intros; rw [namedVariable]; pres
  · intros; rw [prefixRule]; pres
  · intros; rw [groupingLoop]; pres
  · intros; rw [hashMapLoop]; pres
  · intros; rw [interpolationLoop]; pres
  · intros; rw [infixRule]; pres
  · intros; rw [block]; pres
  · intros; rw [blockLoop]; pres
  · intros; rw [function]; pres
  · intros; rw [method]; pres
  · intros; rw [methodLoop]; pres
  · intros; rw [classDeclaration]; pres
  · intros; rw [fnDeclaration]; pres
  · intros; rw [varDeclaration]; pres
  · intros; rw [statement]; pres
  · intros; rw [declaration]; pres
  · intros; rw [programLoop]; pres

set_option maxRecDepth 4000 in
theorem pres_parsePrecedence_succ {m : String} {tbl : List Rule} {fuel : Nat} (ih : AllPres m tbl fuel) (prec : Prec) :
    Pres m (Yarel.Spec.parsePrecedence tbl (fuel + 1) prec) := by
  rw [parsePrecedence]
  pres_with (first | with_reducible apply ih.parsePrecedence | with_reducible apply ih.infixLoop | with_reducible apply ih.expression | with_reducible apply ih.argumentList | with_reducible apply ih.argumentLoop | with_reducible apply ih.binaryAssignRhs | with_reducible apply ih.namedVariable | with_reducible apply ih.prefixRule | with_reducible apply ih.groupingLoop | with_reducible apply ih.hashMapLoop | with_reducible apply ih.interpolationLoop | with_reducible apply ih.infixRule | with_reducible apply ih.block | with_reducible apply ih.blockLoop | with_reducible apply ih.function | with_reducible apply ih.method | with_reducible apply ih.methodLoop | with_reducible apply ih.classDeclaration | with_reducible apply ih.fnDeclaration | with_reducible apply ih.varDeclaration | with_reducible apply ih.statement | with_reducible apply ih.declaration | with_reducible apply ih.programLoop | pres_leaf)

set_option maxRecDepth 4000 in
theorem pres_infixLoop_succ {m : String} {tbl : List Rule} {fuel : Nat} (ih : AllPres m tbl fuel) (prec : Prec) (c : Bool) (l : Expr) :
    Pres m (Yarel.Spec.infixLoop tbl (fuel + 1) prec c l) := by
  rw [infixLoop]
  pres_with (first | with_reducible apply ih.parsePrecedence | with_reducible apply ih.infixLoop | with_reducible apply ih.expression | with_reducible apply ih.argumentList | with_reducible apply ih.argumentLoop | with_reducible apply ih.binaryAssignRhs | with_reducible apply ih.namedVariable | with_reducible apply ih.prefixRule | with_reducible apply ih.groupingLoop | with_reducible apply ih.hashMapLoop | with_reducible apply ih.interpolationLoop | with_reducible apply ih.infixRule | with_reducible apply ih.block | with_reducible apply ih.blockLoop | with_reducible apply ih.function | with_reducible apply ih.method | with_reducible apply ih.methodLoop | with_reducible apply ih.classDeclaration | with_reducible apply ih.fnDeclaration | with_reducible apply ih.varDeclaration | with_reducible apply ih.statement | with_reducible apply ih.declaration | with_reducible apply ih.programLoop | pres_leaf)

set_option maxRecDepth 4000 in
theorem pres_expression_succ {m : String} {tbl : List Rule} {fuel : Nat} (ih : AllPres m tbl fuel)  :
    Pres m (Yarel.Spec.expression tbl (fuel + 1)) := by
  rw [expression]
  pres_with (first | with_reducible apply ih.parsePrecedence | with_reducible apply ih.infixLoop | with_reducible apply ih.expression | with_reducible apply ih.argumentList | with_reducible apply ih.argumentLoop | with_reducible apply ih.binaryAssignRhs | with_reducible apply ih.namedVariable | with_reducible apply ih.prefixRule | with_reducible apply ih.groupingLoop | with_reducible apply ih.hashMapLoop | with_reducible apply ih.interpolationLoop | with_reducible apply ih.infixRule | with_reducible apply ih.block | with_reducible apply ih.blockLoop | with_reducible apply ih.function | with_reducible apply ih.method | with_reducible apply ih.methodLoop | with_reducible apply ih.classDeclaration | with_reducible apply ih.fnDeclaration | with_reducible apply ih.varDeclaration | with_reducible apply ih.statement | with_reducible apply ih.declaration | with_reducible apply ih.programLoop | pres_leaf)

set_option maxRecDepth 4000 in
theorem pres_argumentList_succ {m : String} {tbl : List Rule} {fuel : Nat} (ih : AllPres m tbl fuel) (k : TokenKind) (a b : String) :
    Pres m (Yarel.Spec.argumentList tbl (fuel + 1) k a b) := by
  rw [argumentList]
  pres_with (first | with_reducible apply ih.parsePrecedence | with_reducible apply ih.infixLoop | with_reducible apply ih.expression | with_reducible apply ih.argumentList | with_reducible apply ih.argumentLoop | with_reducible apply ih.binaryAssignRhs | with_reducible apply ih.namedVariable | with_reducible apply ih.prefixRule | with_reducible apply ih.groupingLoop | with_reducible apply ih.hashMapLoop | with_reducible apply ih.interpolationLoop | with_reducible apply ih.infixRule | with_reducible apply ih.block | with_reducible apply ih.blockLoop | with_reducible apply ih.function | with_reducible apply ih.method | with_reducible apply ih.methodLoop | with_reducible apply ih.classDeclaration | with_reducible apply ih.fnDeclaration | with_reducible apply ih.varDeclaration | with_reducible apply ih.statement | with_reducible apply ih.declaration | with_reducible apply ih.programLoop | pres_leaf)

set_option maxRecDepth 4000 in
theorem pres_argumentLoop_succ {m : String} {tbl : List Rule} {fuel : Nat} (ih : AllPres m tbl fuel) (a : String) (n : Nat) (acc : List Expr) :
    Pres m (Yarel.Spec.argumentLoop tbl (fuel + 1) a n acc) := by
  rw [argumentLoop]
  pres_with (first | with_reducible apply ih.parsePrecedence | with_reducible apply ih.infixLoop | with_reducible apply ih.expression | with_reducible apply ih.argumentList | with_reducible apply ih.argumentLoop | with_reducible apply ih.binaryAssignRhs | with_reducible apply ih.namedVariable | with_reducible apply ih.prefixRule | with_reducible apply ih.groupingLoop | with_reducible apply ih.hashMapLoop | with_reducible apply ih.interpolationLoop | with_reducible apply ih.infixRule | with_reducible apply ih.block | with_reducible apply ih.blockLoop | with_reducible apply ih.function | with_reducible apply ih.method | with_reducible apply ih.methodLoop | with_reducible apply ih.classDeclaration | with_reducible apply ih.fnDeclaration | with_reducible apply ih.varDeclaration | with_reducible apply ih.statement | with_reducible apply ih.declaration | with_reducible apply ih.programLoop | pres_leaf)

set_option maxRecDepth 4000 in
theorem pres_binaryAssignRhs_succ {m : String} {tbl : List Rule} {fuel : Nat} (ih : AllPres m tbl fuel)  :
    Pres m (Yarel.Spec.binaryAssignRhs tbl (fuel + 1)) := by
  rw [binaryAssignRhs]
  pres_with (first | with_reducible apply ih.parsePrecedence | with_reducible apply ih.infixLoop | with_reducible apply ih.expression | with_reducible apply ih.argumentList | with_reducible apply ih.argumentLoop | with_reducible apply ih.binaryAssignRhs | with_reducible apply ih.namedVariable | with_reducible apply ih.prefixRule | with_reducible apply ih.groupingLoop | with_reducible apply ih.hashMapLoop | with_reducible apply ih.interpolationLoop | with_reducible apply ih.infixRule | with_reducible apply ih.block | with_reducible apply ih.blockLoop | with_reducible apply ih.function | with_reducible apply ih.method | with_reducible apply ih.methodLoop | with_reducible apply ih.classDeclaration | with_reducible apply ih.fnDeclaration | with_reducible apply ih.varDeclaration | with_reducible apply ih.statement | with_reducible apply ih.declaration | with_reducible apply ih.programLoop | pres_leaf)

set_option maxRecDepth 4000 in
theorem pres_namedVariable_succ {m : String} {tbl : List Rule} {fuel : Nat} (ih : AllPres m tbl fuel) (name : String) (c : Bool) :
    Pres m (Yarel.Spec.namedVariable tbl (fuel + 1) name c) := by
  rw [namedVariable]
  pres_with (first | with_reducible apply ih.parsePrecedence | with_reducible apply ih.infixLoop | with_reducible apply ih.expression | with_reducible apply ih.argumentList | with_reducible apply ih.argumentLoop | with_reducible apply ih.binaryAssignRhs | with_reducible apply ih.namedVariable | with_reducible apply ih.prefixRule | with_reducible apply ih.groupingLoop | with_reducible apply ih.hashMapLoop | with_reducible apply ih.interpolationLoop | with_reducible apply ih.infixRule | with_reducible apply ih.block | with_reducible apply ih.blockLoop | with_reducible apply ih.function | with_reducible apply ih.method | with_reducible apply ih.methodLoop | with_reducible apply ih.classDeclaration | with_reducible apply ih.fnDeclaration | with_reducible apply ih.varDeclaration | with_reducible apply ih.statement | with_reducible apply ih.declaration | with_reducible apply ih.programLoop | pres_leaf)

set_option maxRecDepth 4000 in
theorem pres_prefixRule_succ {m : String} {tbl : List Rule} {fuel : Nat} (ih : AllPres m tbl fuel) (h : PrefixFn) (c : Bool) :
    Pres m (Yarel.Spec.prefixRule tbl (fuel + 1) h c) := by
  cases h <;> rw [prefixRule]
  all_goals pres_with (first | with_reducible apply ih.parsePrecedence | with_reducible apply ih.infixLoop | with_reducible apply ih.expression | with_reducible apply ih.argumentList | with_reducible apply ih.argumentLoop | with_reducible apply ih.binaryAssignRhs | with_reducible apply ih.namedVariable | with_reducible apply ih.prefixRule | with_reducible apply ih.groupingLoop | with_reducible apply ih.hashMapLoop | with_reducible apply ih.interpolationLoop | with_reducible apply ih.infixRule | with_reducible apply ih.block | with_reducible apply ih.blockLoop | with_reducible apply ih.function | with_reducible apply ih.method | with_reducible apply ih.methodLoop | with_reducible apply ih.classDeclaration | with_reducible apply ih.fnDeclaration | with_reducible apply ih.varDeclaration | with_reducible apply ih.statement | with_reducible apply ih.declaration | with_reducible apply ih.programLoop | pres_leaf)

set_option maxRecDepth 4000 in
theorem pres_groupingLoop_succ {m : String} {tbl : List Rule} {fuel : Nat} (ih : AllPres m tbl fuel) (n : Nat) (acc : List Expr) :
    Pres m (Yarel.Spec.groupingLoop tbl (fuel + 1) n acc) := by
  rw [groupingLoop]
  pres_with (first | with_reducible apply ih.parsePrecedence | with_reducible apply ih.infixLoop | with_reducible apply ih.expression | with_reducible apply ih.argumentList | with_reducible apply ih.argumentLoop | with_reducible apply ih.binaryAssignRhs | with_reducible apply ih.namedVariable | with_reducible apply ih.prefixRule | with_reducible apply ih.groupingLoop | with_reducible apply ih.hashMapLoop | with_reducible apply ih.interpolationLoop | with_reducible apply ih.infixRule | with_reducible apply ih.block | with_reducible apply ih.blockLoop | with_reducible apply ih.function | with_reducible apply ih.method | with_reducible apply ih.methodLoop | with_reducible apply ih.classDeclaration | with_reducible apply ih.fnDeclaration | with_reducible apply ih.varDeclaration | with_reducible apply ih.statement | with_reducible apply ih.declaration | with_reducible apply ih.programLoop | pres_leaf)

set_option maxRecDepth 4000 in
theorem pres_hashMapLoop_succ {m : String} {tbl : List Rule} {fuel : Nat} (ih : AllPres m tbl fuel) (n : Nat) (acc : List Expr) :
    Pres m (Yarel.Spec.hashMapLoop tbl (fuel + 1) n acc) := by
  rw [hashMapLoop]
  pres_with (first | with_reducible apply ih.parsePrecedence | with_reducible apply ih.infixLoop | with_reducible apply ih.expression | with_reducible apply ih.argumentList | with_reducible apply ih.argumentLoop | with_reducible apply ih.binaryAssignRhs | with_reducible apply ih.namedVariable | with_reducible apply ih.prefixRule | with_reducible apply ih.groupingLoop | with_reducible apply ih.hashMapLoop | with_reducible apply ih.interpolationLoop | with_reducible apply ih.infixRule | with_reducible apply ih.block | with_reducible apply ih.blockLoop | with_reducible apply ih.function | with_reducible apply ih.method | with_reducible apply ih.methodLoop | with_reducible apply ih.classDeclaration | with_reducible apply ih.fnDeclaration | with_reducible apply ih.varDeclaration | with_reducible apply ih.statement | with_reducible apply ih.declaration | with_reducible apply ih.programLoop | pres_leaf)

set_option maxRecDepth 4000 in
theorem pres_interpolationLoop_succ {m : String} {tbl : List Rule} {fuel : Nat} (ih : AllPres m tbl fuel) (acc : List Expr) :
    Pres m (Yarel.Spec.interpolationLoop tbl (fuel + 1) acc) := by
  rw [interpolationLoop]
  pres_with (first | with_reducible apply ih.parsePrecedence | with_reducible apply ih.infixLoop | with_reducible apply ih.expression | with_reducible apply ih.argumentList | with_reducible apply ih.argumentLoop | with_reducible apply ih.binaryAssignRhs | with_reducible apply ih.namedVariable | with_reducible apply ih.prefixRule | with_reducible apply ih.groupingLoop | with_reducible apply ih.hashMapLoop | with_reducible apply ih.interpolationLoop | with_reducible apply ih.infixRule | with_reducible apply ih.block | with_reducible apply ih.blockLoop | with_reducible apply ih.function | with_reducible apply ih.method | with_reducible apply ih.methodLoop | with_reducible apply ih.classDeclaration | with_reducible apply ih.fnDeclaration | with_reducible apply ih.varDeclaration | with_reducible apply ih.statement | with_reducible apply ih.declaration | with_reducible apply ih.programLoop | pres_leaf)

set_option maxRecDepth 4000 in
theorem pres_infixRule_succ {m : String} {tbl : List Rule} {fuel : Nat} (ih : AllPres m tbl fuel) (h : InfixFn) (c : Bool) (l : Expr) :
    Pres m (Yarel.Spec.infixRule tbl (fuel + 1) h c l) := by
  cases h <;> rw [infixRule]
  all_goals pres_with (first | with_reducible apply ih.parsePrecedence | with_reducible apply ih.infixLoop | with_reducible apply ih.expression | with_reducible apply ih.argumentList | with_reducible apply ih.argumentLoop | with_reducible apply ih.binaryAssignRhs | with_reducible apply ih.namedVariable | with_reducible apply ih.prefixRule | with_reducible apply ih.groupingLoop | with_reducible apply ih.hashMapLoop | with_reducible apply ih.interpolationLoop | with_reducible apply ih.infixRule | with_reducible apply ih.block | with_reducible apply ih.blockLoop | with_reducible apply ih.function | with_reducible apply ih.method | with_reducible apply ih.methodLoop | with_reducible apply ih.classDeclaration | with_reducible apply ih.fnDeclaration | with_reducible apply ih.varDeclaration | with_reducible apply ih.statement | with_reducible apply ih.declaration | with_reducible apply ih.programLoop | pres_leaf)

set_option maxRecDepth 4000 in
theorem pres_block_succ {m : String} {tbl : List Rule} {fuel : Nat} (ih : AllPres m tbl fuel)  :
    Pres m (Yarel.Spec.block tbl (fuel + 1)) := by
  rw [block]
  pres_with (first | with_reducible apply ih.parsePrecedence | with_reducible apply ih.infixLoop | with_reducible apply ih.expression | with_reducible apply ih.argumentList | with_reducible apply ih.argumentLoop | with_reducible apply ih.binaryAssignRhs | with_reducible apply ih.namedVariable | with_reducible apply ih.prefixRule | with_reducible apply ih.groupingLoop | with_reducible apply ih.hashMapLoop | with_reducible apply ih.interpolationLoop | with_reducible apply ih.infixRule | with_reducible apply ih.block | with_reducible apply ih.blockLoop | with_reducible apply ih.function | with_reducible apply ih.method | with_reducible apply ih.methodLoop | with_reducible apply ih.classDeclaration | with_reducible apply ih.fnDeclaration | with_reducible apply ih.varDeclaration | with_reducible apply ih.statement | with_reducible apply ih.declaration | with_reducible apply ih.programLoop | pres_leaf)

set_option maxRecDepth 4000 in
theorem pres_blockLoop_succ {m : String} {tbl : List Rule} {fuel : Nat} (ih : AllPres m tbl fuel) (acc : List Stmt) :
    Pres m (Yarel.Spec.blockLoop tbl (fuel + 1) acc) := by
  rw [blockLoop]
  pres_with (first | with_reducible apply ih.parsePrecedence | with_reducible apply ih.infixLoop | with_reducible apply ih.expression | with_reducible apply ih.argumentList | with_reducible apply ih.argumentLoop | with_reducible apply ih.binaryAssignRhs | with_reducible apply ih.namedVariable | with_reducible apply ih.prefixRule | with_reducible apply ih.groupingLoop | with_reducible apply ih.hashMapLoop | with_reducible apply ih.interpolationLoop | with_reducible apply ih.infixRule | with_reducible apply ih.block | with_reducible apply ih.blockLoop | with_reducible apply ih.function | with_reducible apply ih.method | with_reducible apply ih.methodLoop | with_reducible apply ih.classDeclaration | with_reducible apply ih.fnDeclaration | with_reducible apply ih.varDeclaration | with_reducible apply ih.statement | with_reducible apply ih.declaration | with_reducible apply ih.programLoop | pres_leaf)

set_option maxRecDepth 4000 in
theorem pres_function_succ {m : String} {tbl : List Rule} {fuel : Nat} (ih : AllPres m tbl fuel) (k : FnKind) :
    Pres m (Yarel.Spec.function tbl (fuel + 1) k) := by
  rw [function]
  pres_with (first | with_reducible apply ih.parsePrecedence | with_reducible apply ih.infixLoop | with_reducible apply ih.expression | with_reducible apply ih.argumentList | with_reducible apply ih.argumentLoop | with_reducible apply ih.binaryAssignRhs | with_reducible apply ih.namedVariable | with_reducible apply ih.prefixRule | with_reducible apply ih.groupingLoop | with_reducible apply ih.hashMapLoop | with_reducible apply ih.interpolationLoop | with_reducible apply ih.infixRule | with_reducible apply ih.block | with_reducible apply ih.blockLoop | with_reducible apply ih.function | with_reducible apply ih.method | with_reducible apply ih.methodLoop | with_reducible apply ih.classDeclaration | with_reducible apply ih.fnDeclaration | with_reducible apply ih.varDeclaration | with_reducible apply ih.statement | with_reducible apply ih.declaration | with_reducible apply ih.programLoop | pres_leaf)

set_option maxRecDepth 4000 in
theorem pres_method_succ {m : String} {tbl : List Rule} {fuel : Nat} (ih : AllPres m tbl fuel)  :
    Pres m (Yarel.Spec.method tbl (fuel + 1)) := by
  rw [method]
  pres_with (first | with_reducible apply ih.parsePrecedence | with_reducible apply ih.infixLoop | with_reducible apply ih.expression | with_reducible apply ih.argumentList | with_reducible apply ih.argumentLoop | with_reducible apply ih.binaryAssignRhs | with_reducible apply ih.namedVariable | with_reducible apply ih.prefixRule | with_reducible apply ih.groupingLoop | with_reducible apply ih.hashMapLoop | with_reducible apply ih.interpolationLoop | with_reducible apply ih.infixRule | with_reducible apply ih.block | with_reducible apply ih.blockLoop | with_reducible apply ih.function | with_reducible apply ih.method | with_reducible apply ih.methodLoop | with_reducible apply ih.classDeclaration | with_reducible apply ih.fnDeclaration | with_reducible apply ih.varDeclaration | with_reducible apply ih.statement | with_reducible apply ih.declaration | with_reducible apply ih.programLoop | pres_leaf)

set_option maxRecDepth 4000 in
theorem pres_methodLoop_succ {m : String} {tbl : List Rule} {fuel : Nat} (ih : AllPres m tbl fuel) (acc : List MethodDecl) :
    Pres m (Yarel.Spec.methodLoop tbl (fuel + 1) acc) := by
  rw [methodLoop]
  pres_with (first | with_reducible apply ih.parsePrecedence | with_reducible apply ih.infixLoop | with_reducible apply ih.expression | with_reducible apply ih.argumentList | with_reducible apply ih.argumentLoop | with_reducible apply ih.binaryAssignRhs | with_reducible apply ih.namedVariable | with_reducible apply ih.prefixRule | with_reducible apply ih.groupingLoop | with_reducible apply ih.hashMapLoop | with_reducible apply ih.interpolationLoop | with_reducible apply ih.infixRule | with_reducible apply ih.block | with_reducible apply ih.blockLoop | with_reducible apply ih.function | with_reducible apply ih.method | with_reducible apply ih.methodLoop | with_reducible apply ih.classDeclaration | with_reducible apply ih.fnDeclaration | with_reducible apply ih.varDeclaration | with_reducible apply ih.statement | with_reducible apply ih.declaration | with_reducible apply ih.programLoop | pres_leaf)

set_option maxRecDepth 4000 in
theorem pres_classDeclaration_succ {m : String} {tbl : List Rule} {fuel : Nat} (ih : AllPres m tbl fuel)  :
    Pres m (Yarel.Spec.classDeclaration tbl (fuel + 1)) := by
  rw [classDeclaration]
  pres_with (first | with_reducible apply ih.parsePrecedence | with_reducible apply ih.infixLoop | with_reducible apply ih.expression | with_reducible apply ih.argumentList | with_reducible apply ih.argumentLoop | with_reducible apply ih.binaryAssignRhs | with_reducible apply ih.namedVariable | with_reducible apply ih.prefixRule | with_reducible apply ih.groupingLoop | with_reducible apply ih.hashMapLoop | with_reducible apply ih.interpolationLoop | with_reducible apply ih.infixRule | with_reducible apply ih.block | with_reducible apply ih.blockLoop | with_reducible apply ih.function | with_reducible apply ih.method | with_reducible apply ih.methodLoop | with_reducible apply ih.classDeclaration | with_reducible apply ih.fnDeclaration | with_reducible apply ih.varDeclaration | with_reducible apply ih.statement | with_reducible apply ih.declaration | with_reducible apply ih.programLoop | pres_leaf)

set_option maxRecDepth 4000 in
theorem pres_fnDeclaration_succ {m : String} {tbl : List Rule} {fuel : Nat} (ih : AllPres m tbl fuel)  :
    Pres m (Yarel.Spec.fnDeclaration tbl (fuel + 1)) := by
  rw [fnDeclaration]
  pres_with (first | with_reducible apply ih.parsePrecedence | with_reducible apply ih.infixLoop | with_reducible apply ih.expression | with_reducible apply ih.argumentList | with_reducible apply ih.argumentLoop | with_reducible apply ih.binaryAssignRhs | with_reducible apply ih.namedVariable | with_reducible apply ih.prefixRule | with_reducible apply ih.groupingLoop | with_reducible apply ih.hashMapLoop | with_reducible apply ih.interpolationLoop | with_reducible apply ih.infixRule | with_reducible apply ih.block | with_reducible apply ih.blockLoop | with_reducible apply ih.function | with_reducible apply ih.method | with_reducible apply ih.methodLoop | with_reducible apply ih.classDeclaration | with_reducible apply ih.fnDeclaration | with_reducible apply ih.varDeclaration | with_reducible apply ih.statement | with_reducible apply ih.declaration | with_reducible apply ih.programLoop | pres_leaf)

set_option maxRecDepth 4000 in
theorem pres_varDeclaration_succ {m : String} {tbl : List Rule} {fuel : Nat} (ih : AllPres m tbl fuel)  :
    Pres m (Yarel.Spec.varDeclaration tbl (fuel + 1)) := by
  rw [varDeclaration]
  pres_with (first | with_reducible apply ih.parsePrecedence | with_reducible apply ih.infixLoop | with_reducible apply ih.expression | with_reducible apply ih.argumentList | with_reducible apply ih.argumentLoop | with_reducible apply ih.binaryAssignRhs | with_reducible apply ih.namedVariable | with_reducible apply ih.prefixRule | with_reducible apply ih.groupingLoop | with_reducible apply ih.hashMapLoop | with_reducible apply ih.interpolationLoop | with_reducible apply ih.infixRule | with_reducible apply ih.block | with_reducible apply ih.blockLoop | with_reducible apply ih.function | with_reducible apply ih.method | with_reducible apply ih.methodLoop | with_reducible apply ih.classDeclaration | with_reducible apply ih.fnDeclaration | with_reducible apply ih.varDeclaration | with_reducible apply ih.statement | with_reducible apply ih.declaration | with_reducible apply ih.programLoop | pres_leaf)

set_option maxRecDepth 4000 in
theorem pres_statement_succ {m : String} {tbl : List Rule} {fuel : Nat} (ih : AllPres m tbl fuel)  :
    Pres m (Yarel.Spec.statement tbl (fuel + 1)) := by
  rw [statement]
  pres_with (first | with_reducible apply ih.parsePrecedence | with_reducible apply ih.infixLoop | with_reducible apply ih.expression | with_reducible apply ih.argumentList | with_reducible apply ih.argumentLoop | with_reducible apply ih.binaryAssignRhs | with_reducible apply ih.namedVariable | with_reducible apply ih.prefixRule | with_reducible apply ih.groupingLoop | with_reducible apply ih.hashMapLoop | with_reducible apply ih.interpolationLoop | with_reducible apply ih.infixRule | with_reducible apply ih.block | with_reducible apply ih.blockLoop | with_reducible apply ih.function | with_reducible apply ih.method | with_reducible apply ih.methodLoop | with_reducible apply ih.classDeclaration | with_reducible apply ih.fnDeclaration | with_reducible apply ih.varDeclaration | with_reducible apply ih.statement | with_reducible apply ih.declaration | with_reducible apply ih.programLoop | pres_leaf)

set_option maxRecDepth 4000 in
theorem pres_declaration_succ {m : String} {tbl : List Rule} {fuel : Nat} (ih : AllPres m tbl fuel)  :
    Pres m (Yarel.Spec.declaration tbl (fuel + 1)) := by
  rw [declaration]
  pres_with (first | with_reducible apply ih.parsePrecedence | with_reducible apply ih.infixLoop | with_reducible apply ih.expression | with_reducible apply ih.argumentList | with_reducible apply ih.argumentLoop | with_reducible apply ih.binaryAssignRhs | with_reducible apply ih.namedVariable | with_reducible apply ih.prefixRule | with_reducible apply ih.groupingLoop | with_reducible apply ih.hashMapLoop | with_reducible apply ih.interpolationLoop | with_reducible apply ih.infixRule | with_reducible apply ih.block | with_reducible apply ih.blockLoop | with_reducible apply ih.function | with_reducible apply ih.method | with_reducible apply ih.methodLoop | with_reducible apply ih.classDeclaration | with_reducible apply ih.fnDeclaration | with_reducible apply ih.varDeclaration | with_reducible apply ih.statement | with_reducible apply ih.declaration | with_reducible apply ih.programLoop | pres_leaf)

set_option maxRecDepth 4000 in
theorem pres_programLoop_succ {m : String} {tbl : List Rule} {fuel : Nat} (ih : AllPres m tbl fuel) (acc : List Stmt) :
    Pres m (Yarel.Spec.programLoop tbl (fuel + 1) acc) := by
  rw [programLoop]
  pres_with (first | with_reducible apply ih.parsePrecedence | with_reducible apply ih.infixLoop | with_reducible apply ih.expression | with_reducible apply ih.argumentList | with_reducible apply ih.argumentLoop | with_reducible apply ih.binaryAssignRhs | with_reducible apply ih.namedVariable | with_reducible apply ih.prefixRule | with_reducible apply ih.groupingLoop | with_reducible apply ih.hashMapLoop | with_reducible apply ih.interpolationLoop | with_reducible apply ih.infixRule | with_reducible apply ih.block | with_reducible apply ih.blockLoop | with_reducible apply ih.function | with_reducible apply ih.method | with_reducible apply ih.methodLoop | with_reducible apply ih.classDeclaration | with_reducible apply ih.fnDeclaration | with_reducible apply ih.varDeclaration | with_reducible apply ih.statement | with_reducible apply ih.declaration | with_reducible apply ih.programLoop | pres_leaf)

theorem allPres (m : String) (tbl : List Rule) : ∀ fuel, AllPres m tbl fuel
  | 0 => allPres_zero m tbl
  | fuel + 1 =>
    have ih := allPres m tbl fuel
    {
      parsePrecedence := by intros; exact pres_parsePrecedence_succ ih ..,
      infixLoop := by intros; exact pres_infixLoop_succ ih ..,
      expression := by intros; exact pres_expression_succ ih ..,
      argumentList := by intros; exact pres_argumentList_succ ih ..,
      argumentLoop := by intros; exact pres_argumentLoop_succ ih ..,
      binaryAssignRhs := by intros; exact pres_binaryAssignRhs_succ ih ..,
      namedVariable := by intros; exact pres_namedVariable_succ ih ..,
      prefixRule := by intros; exact pres_prefixRule_succ ih ..,
      groupingLoop := by intros; exact pres_groupingLoop_succ ih ..,
      hashMapLoop := by intros; exact pres_hashMapLoop_succ ih ..,
      interpolationLoop := by intros; exact pres_interpolationLoop_succ ih ..,
      infixRule := by intros; exact pres_infixRule_succ ih ..,
      block := by intros; exact pres_block_succ ih ..,
      blockLoop := by intros; exact pres_blockLoop_succ ih ..,
      function := by intros; exact pres_function_succ ih ..,
      method := by intros; exact pres_method_succ ih ..,
      methodLoop := by intros; exact pres_methodLoop_succ ih ..,
      classDeclaration := by intros; exact pres_classDeclaration_succ ih ..,
      fnDeclaration := by intros; exact pres_fnDeclaration_succ ih ..,
      varDeclaration := by intros; exact pres_varDeclaration_succ ih ..,
      statement := by intros; exact pres_statement_succ ih ..,
      declaration := by intros; exact pres_declaration_succ ih ..,
      programLoop := by intros; exact pres_programLoop_succ ih .. }

end Yarel.Spec
