/-
Static natives (from_ascii / from_utf8 / from_code_points) and valid_up_to lemmas.
-/
import Yarel.Proofs.StrReplace
namespace Yarel.Str
open Yarel Yarel.Utf8 Yarel.Index

/-! ### from_ascii / from_utf8 / from_code_points -/

theorem ascii_chunk_valid : ∀ n, n < 256 →
    validate (if n > 127 then [195, UInt8.ofNat n &&& 0xBF] else [UInt8.ofNat n]) = true := by
  decide +kernel

theorem ascii_chunk_valid' (b : UInt8) : Valid (if b.toNat > 127 then [195, b &&& 0xBF] else [b]) := by
  have := ascii_chunk_valid b.toNat (UInt8.toNat_lt b)
  rw [UInt8.ofNat_toNat] at this
  exact validate_iff.mp this

theorem fromAsciiBytes_valid : ∀ (xs : List Val) (bs : Bytes), fromAsciiBytes xs = .ok bs → Valid bs := by
  intro xs
  induction xs with
  | nil => intro bs h; simp only [fromAsciiBytes, Outcome.ok.injEq] at h; subst h; exact Valid.nil
  | cons v vs ih =>
    intro bs h
    simp only [fromAsciiBytes] at h
    cases hb : byteOfVal v with
    | ok b =>
      cases hrec : fromAsciiBytes vs with
      | ok bs' =>
        simp only [hb, hrec, Outcome.ok.injEq] at h; subst h
        exact (ascii_chunk_valid' b).append (ih bs' hrec)
      | err e => simp [hb, hrec] at h
      | fault st => simp [hb, hrec] at h
    | err e => simp [hb] at h
    | fault st => simp [hb] at h

theorem byteOfVal_not_fault (v : Val) : (byteOfVal v).isFault = false := by
  unfold byteOfVal
  split
  · split <;> rfl
  · rfl

theorem fromAsciiBytes_not_fault : ∀ (xs : List Val), (fromAsciiBytes xs).isFault = false := by
  intro xs
  induction xs with
  | nil => rfl
  | cons v vs ih =>
    simp only [fromAsciiBytes]
    have := byteOfVal_not_fault v
    split
    · split
      · rfl
      · rfl
      · rename_i h; simp [h] at ih
    · rfl
    · rename_i h; simp [h] at this

theorem bytesOfVals_not_fault : ∀ (xs : List Val), (bytesOfVals xs).isFault = false := by
  intro xs
  induction xs with
  | nil => rfl
  | cons v vs ih =>
    simp only [bytesOfVals]
    have := byteOfVal_not_fault v
    split
    · split
      · rfl
      · rfl
      · rename_i h; simp [h] at ih
    · rfl
    · rename_i h; simp [h] at this

theorem charOfVal_not_fault (v : Val) : (charOfVal v).isFault = false := by
  unfold charOfVal
  split
  · split
    · rfl
    · simp only; split <;> rfl
  · rfl

theorem charOfVal_valid {v : Val} {bs : Bytes} (h : charOfVal v = .ok bs) : Valid bs := by
  unfold charOfVal at h
  split at h
  · split at h
    · simp [mkErr] at h
    · simp only at h
      split at h
      · rename_i bs' henc
        simp only [Outcome.ok.injEq] at h; subst h
        unfold encodeChar at henc
        split at henc
        · rename_i hsc
          simp only [Option.some.injEq] at henc; subst henc
          exact Valid.encodeCP hsc
        · simp at henc
      · simp [mkErr] at h
  · simp [mkErr] at h

theorem stringOfCodePoints_valid : ∀ (xs : List Val) (bs : Bytes), stringOfCodePoints xs = .ok bs → Valid bs := by
  intro xs
  induction xs with
  | nil => intro bs h; simp only [stringOfCodePoints, Outcome.ok.injEq] at h; subst h; exact Valid.nil
  | cons v vs ih =>
    intro bs h
    simp only [stringOfCodePoints] at h
    cases hc : charOfVal v with
    | ok c =>
      cases hrec : stringOfCodePoints vs with
      | ok bs' =>
        simp only [hc, hrec, Outcome.ok.injEq] at h; subst h
        exact (charOfVal_valid hc).append (ih bs' hrec)
      | err e => simp [hc, hrec] at h
      | fault st => simp [hc, hrec] at h
    | err e => simp [hc] at h
    | fault st => simp [hc] at h

theorem stringOfCodePoints_not_fault : ∀ (xs : List Val), (stringOfCodePoints xs).isFault = false := by
  intro xs
  induction xs with
  | nil => rfl
  | cons v vs ih =>
    simp only [stringOfCodePoints]
    have := charOfVal_not_fault v
    split
    · split
      · rfl
      · rfl
      · rename_i h; simp [h] at ih
    · rfl
    · rename_i h; simp [h] at this

/-! ### valid_up_to -/

theorem validUpToAux_lt : ∀ (fuel : Nat) (s : Bytes) (acc : Nat), s.length ≤ fuel →
    decodeAux fuel s = none → validUpToAux fuel s acc < acc + s.length := by
  intro fuel
  induction fuel with
  | zero =>
    intro s acc hf hd
    have : s = [] := List.eq_nil_of_length_eq_zero (by omega)
    subst this
    simp [decodeAux] at hd
  | succ fuel ih =>
    intro s acc hf hd
    cases s with
    | nil => simp [decodeAux] at hd
    | cons b t =>
      simp only [decodeAux] at hd
      simp only [validUpToAux]
      split
      · simp only [List.length_cons]; omega
      · rename_i c rest hstep
        have hl := decodeStep_length hstep
        rw [hstep] at hd
        simp only at hd
        have hnone : decodeAux fuel rest = none := by
          cases hr : decodeAux fuel rest with
          | none => rfl
          | some cs => rw [hr] at hd; simp at hd
        have := ih rest (acc + ((b :: t).length - rest.length)) (by simp only [List.length_cons] at hl hf; omega) hnone
        omega

theorem validUpTo_lt_of_invalid {s : Bytes} (h : validate s = false) : validUpTo s < s.length := by
  unfold validate decode at h
  have hnone : decodeAux s.length s = none := by
    cases hd : decodeAux s.length s with
    | none => rfl
    | some cs => rw [hd] at h; simp at h
  have := validUpToAux_lt s.length s 0 (Nat.le_refl _) hnone
  simpa [validUpTo] using this

/-- The prefix up to `valid_up_to` is valid UTF-8. -/
theorem validUpToAux_prefix : ∀ (fuel : Nat) (s : Bytes) (acc : Nat),
    ∃ m, validUpToAux fuel s acc = acc + m ∧ m ≤ s.length ∧ Valid (s.take m) := by
  intro fuel
  induction fuel with
  | zero => intro s acc; exact ⟨0, rfl, Nat.zero_le _, by simpa using Valid.nil⟩
  | succ fuel ih =>
    intro s acc
    simp only [validUpToAux]
    split
    · exact ⟨0, rfl, Nat.zero_le _, by simpa using Valid.nil⟩
    · rename_i c rest hstep
      obtain ⟨hc, rfl⟩ := decodeStep_some hstep
      obtain ⟨m, hm, hle, hv⟩ := ih rest (acc + ((encodeCP c ++ rest).length - rest.length))
      refine ⟨(encodeCP c).length + m, ?_, ?_, ?_⟩
      · rw [hm]; simp only [List.length_append]; omega
      · simp only [List.length_append]; omega
      · rw [List.take_length_add_append]
        exact (Valid.encodeCP hc).append hv

theorem validUpTo_prefix_valid (s : Bytes) : Valid (s.take (validUpTo s)) := by
  obtain ⟨m, hm, _, hv⟩ := validUpToAux_prefix s.length s 0
  unfold validUpTo
  rw [hm, Nat.zero_add]; exact hv

end Yarel.Str
