/-
Built-in iterators: what they denote.
-/
import Yarel.Model.Iter
import Yarel.Proofs.StrIter
namespace Yarel.Iter
open Yarel.Index (Outcome Site)

/-! ### generic -/

theorem take_append_replicate_succ {β : Type} (xs : List β) (a : β) (n : Nat) :
    (xs ++ List.replicate (n + 1) a).take n = (xs ++ List.replicate n a).take n := by
  simp only [List.take_append, List.take_replicate]
  congr 2
  omega

theorem takeN_stop {σ α : Type} (nx : PStep σ α) (it : σ) (h : nx it = .ok (it, .stop)) :
    ∀ n, takeN nx n it = .ok (List.replicate n Item.stop)
  | 0 => rfl
  | n + 1 => by simp only [takeN, h, takeN_stop nx it h n, List.replicate_succ]

theorem takeN_of_denotes {σ α : Type} (nx : PStep σ α) :
    ∀ (xs : List (Item α)) (it : σ), Denotes nx it xs →
      ∀ n, takeN nx n it = .ok ((xs ++ List.replicate n Item.stop).take n)
  | [], it, ⟨it', hy, hs⟩, n => by
    simp only [PYields] at hy
    subst hy
    simp only [List.nil_append, List.take_replicate, Nat.min_self]
    exact takeN_stop nx it' hs n
  | x :: xs, it, ⟨it', ⟨it1, h1, hy⟩, hs⟩, n => by
    cases n with
    | zero => rfl
    | succ n =>
      have ih := takeN_of_denotes nx xs it1 ⟨it', hy, hs⟩ n
      simp only [takeN, h1, ih, List.cons_append, List.take_succ_cons, take_append_replicate_succ]

theorem PYields.lift {σ W α : Type} (nx : PStep σ α) :
    ∀ (xs : List (Item α)) (it it' : σ), PYields nx it xs it' → Yields (lift (W := W) nx) it xs it'
  | [], _, _, h => h
  | _ :: xs, _, it', ⟨it1, h1, hy⟩ =>
    ⟨it1, fun w => by simp only [Iter.lift, h1], PYields.lift nx xs it1 it' hy⟩

theorem Denotes.yieldsThenStop {σ W α : Type} {nx : PStep σ α} {it : σ} {xs : List (Item α)}
    (h : Denotes nx it xs) : YieldsThenStop (lift (W := W) nx) it xs := by
  obtain ⟨it', hy, hs⟩ := h
  exact ⟨it', it', PYields.lift nx xs it it' hy, fun w => by simp only [Iter.lift, hs]⟩

/-- Transport along a state embedding. -/
theorem PYields.map_state {σ τ α : Type} (nx : PStep σ α) (nx' : PStep τ α) (g : σ → τ)
    (hsim : ∀ s s1 v, nx s = .ok (s1, v) → nx' (g s) = .ok (g s1, v)) :
    ∀ (xs : List (Item α)) (it it' : σ), PYields nx it xs it' → PYields nx' (g it) xs (g it')
  | [], _, _, h => by simp only [PYields] at h ⊢; rw [h]
  | _ :: xs, _, it', ⟨it1, h1, hy⟩ => ⟨g it1, hsim _ _ _ h1, PYields.map_state nx nx' g hsim xs it1 it' hy⟩

/-- Transport along a state embedding and a value map. -/
theorem PYields.map_sim {σ τ α β : Type} (nx : PStep σ α) (nx' : PStep τ β) (g : σ → τ) (φ : Item α → Item β)
    (hsim : ∀ s s1 v, nx s = .ok (s1, v) → nx' (g s) = .ok (g s1, φ v)) :
    ∀ (xs : List (Item α)) (it it' : σ), PYields nx it xs it' → PYields nx' (g it) (xs.map φ) (g it')
  | [], _, _, h => by simp only [PYields, List.map_nil] at h ⊢; rw [h]
  | _ :: xs, _, it', ⟨it1, h1, hy⟩ =>
    ⟨g it1, hsim _ _ _ h1, PYields.map_sim nx nx' g φ hsim xs it1 it' hy⟩

theorem Denotes.map_sim {σ τ α β : Type} {nx : PStep σ α} (nx' : PStep τ β) (g : σ → τ) (φ : Item α → Item β)
    (hsim : ∀ s s1 v, nx s = .ok (s1, v) → nx' (g s) = .ok (g s1, φ v)) (hφ : φ .stop = .stop)
    {it : σ} {xs : List (Item α)} (h : Denotes nx it xs) : Denotes nx' (g it) (xs.map φ) := by
  obtain ⟨it', hy, hs⟩ := h
  refine ⟨g it', PYields.map_sim nx nx' g φ hsim xs it it' hy, ?_⟩
  rw [hsim _ _ _ hs, hφ]

/-! ### tuple / vec -/

theorem elemNext_eq_index (elems : List Index.Val) (cur : Nat) :
    Index.elemIterNext elems cur = elemNext elems cur := by
  unfold Index.elemIterNext elemNext
  split
  · rfl
  · cases elems[cur]? <;> rfl

theorem elemNext_lt {β : Type} (elems : List β) (cur : Nat) (h : cur < elems.length) :
    elemNext elems cur = .ok (some elems[cur], cur + 1) := by
  unfold elemNext
  rw [if_neg (by omega), List.getElem?_eq_getElem h]

theorem elemNext_ge {β : Type} (elems : List β) (cur : Nat) (h : elems.length ≤ cur) :
    elemNext elems cur = .ok (none, cur) := by
  unfold elemNext
  rw [if_pos h]

/-- `elemNext` in one formula; in particular it never faults. -/
theorem elemNext_eq {β : Type} (elems : List β) (cur : Nat) :
    elemNext elems cur = .ok (elems[cur]?, if cur < elems.length then cur + 1 else cur) := by
  by_cases h : cur < elems.length
  · rw [elemNext_lt elems cur h, if_pos h, List.getElem?_eq_getElem h]
  · rw [elemNext_ge elems cur (by omega), if_neg h, List.getElem?_eq_none (by omega)]

theorem tupleNext_eq {α : Type} (elems : List (Item α)) (cur : Nat) :
    tupleNext elems cur = .ok (if cur < elems.length then cur + 1 else cur, orStop elems[cur]?) := by
  simp only [tupleNext, elemNext_eq]

theorem tuple_pyields {α : Type} :
    ∀ (suf pre : List (Item α)), PYields (tupleNext (pre ++ suf)) pre.length suf (pre ++ suf).length
  | [], pre => by simp [PYields]
  | x :: suf, pre => by
    refine ⟨pre.length + 1, ?_, ?_⟩
    · rw [tupleNext_eq, if_pos (by simp)]
      simp [orStop]
    · have := tuple_pyields suf (pre ++ [x])
      simpa using this

theorem tuple_denotes {α : Type} (elems : List (Item α)) : Denotes (tupleNext elems) 0 elems := by
  refine ⟨elems.length, ?_, ?_⟩
  · simpa using tuple_pyields elems []
  · rw [tupleNext_eq, if_neg (by omega), List.getElem?_eq_none (by omega)]; rfl

theorem vecIterNext_eq {α : Type} (st : Store α) (it : VecIter) (xs : List (Item α)) (h : st[it.vec]? = some xs) :
    vecIterNext st it = .ok (⟨it.vec, if it.cur < xs.length then it.cur + 1 else it.cur⟩, orStop xs[it.cur]?) := by
  simp only [vecIterNext, h, elemNext_eq]

theorem vec_denotes {α : Type} (st : Store α) (v : Nat) (xs : List (Item α)) (h : st[v]? = some xs) :
    Denotes (vecIterNext st) (vecIterNew v) xs := by
  obtain ⟨n, hy, hs⟩ := tuple_denotes xs
  refine ⟨⟨v, n⟩, ?_, ?_⟩
  · refine PYields.map_state (tupleNext xs) (vecIterNext st) (fun c => ⟨v, c⟩) ?_ xs 0 n hy
    intro s s1 x hx
    rw [tupleNext_eq] at hx
    rw [vecIterNext_eq st ⟨v, s⟩ xs h]
    simp only [Outcome.ok.injEq, Prod.mk.injEq] at hx
    simp only [hx.1, hx.2]
  · rw [tupleNext_eq] at hs
    rw [vecIterNext_eq st ⟨v, n⟩ xs h]
    simp only [Outcome.ok.injEq, Prod.mk.injEq] at hs
    simp only [hs.1, hs.2]

/-! ### range -/

theorem rangeNext_step (b e cur step : Int) (hne : cur ≠ e)
    (hlo : Yarel.F64.isizeMin ≤ cur + step) (hhi : cur + step ≤ Yarel.F64.isizeMax) :
    rangeNext ⟨b, e, cur, step⟩ = .ok (⟨b, e, cur + step, step⟩, .val cur) := by
  simp only [rangeNext, Index.rangeIterNext, if_neg hne]
  rw [if_neg (by omega)]

theorem rangeNext_end (b e step : Int) :
    rangeNext ⟨b, e, e, step⟩ = .ok (⟨b, e, e, step⟩, .stop) := by
  simp [rangeNext, Index.rangeIterNext]

theorem range_up (b e : Int) (he : e ≤ Yarel.F64.isizeMax) :
    ∀ (n : Nat) (cur : Int), Yarel.F64.isizeMin ≤ cur → cur + n = e →
      PYields rangeNext ⟨b, e, cur, 1⟩ ((List.range n).map fun (k : Nat) => Item.val (cur + (k : Int))) ⟨b, e, e, 1⟩
  | 0, cur, _, h => by
    simp only [List.range_zero, List.map_nil, PYields]
    have : cur = e := by omega
    rw [this]
  | n + 1, cur, hlo, h => by
    rw [List.range_succ_eq_map, List.map_cons, List.map_map]
    refine ⟨⟨b, e, cur + 1, 1⟩, ?_, ?_⟩
    · simpa using rangeNext_step b e cur 1 (by omega) (by omega) (by omega)
    · have := range_up b e he n (cur + 1) (by omega) (by omega)
      have hfun : ((fun (k : Nat) => Item.val (cur + (k : Int))) ∘ Nat.succ)
          = fun (k : Nat) => Item.val (cur + 1 + (k : Int)) := by
        funext k
        simp only [Function.comp, Nat.succ_eq_add_one, Int.natCast_add, Int.natCast_one]
        congr 1; omega
      rw [hfun]
      exact this

theorem range_down (b e : Int) (he : Yarel.F64.isizeMin ≤ e) :
    ∀ (n : Nat) (cur : Int), cur ≤ Yarel.F64.isizeMax → cur - n = e →
      PYields rangeNext ⟨b, e, cur, -1⟩ ((List.range n).map fun (k : Nat) => Item.val (cur - (k : Int))) ⟨b, e, e, -1⟩
  | 0, cur, _, h => by
    simp only [List.range_zero, List.map_nil, PYields]
    have : cur = e := by omega
    rw [this]
  | n + 1, cur, hhi, h => by
    rw [List.range_succ_eq_map, List.map_cons, List.map_map]
    refine ⟨⟨b, e, cur + -1, -1⟩, ?_, ?_⟩
    · simpa using rangeNext_step b e cur (-1) (by omega) (by omega) (by omega)
    · have := range_down b e he n (cur + -1) (by omega) (by omega)
      have hfun : ((fun (k : Nat) => Item.val (cur - (k : Int))) ∘ Nat.succ)
          = fun (k : Nat) => Item.val (cur + -1 - (k : Int)) := by
        funext k
        simp only [Function.comp, Nat.succ_eq_add_one, Int.natCast_add, Int.natCast_one]
        congr 1; omega
      rw [hfun]
      exact this

theorem range_denotes (b e : Int)
    (hb : Yarel.F64.isizeMin ≤ b ∧ b ≤ Yarel.F64.isizeMax) (he : Yarel.F64.isizeMin ≤ e ∧ e ≤ Yarel.F64.isizeMax) :
    Denotes rangeNext (rangeIterNew b e) ((rangeList b e).map Item.val) := by
  unfold rangeIterNew Index.rangeIterNew rangeList
  by_cases h : b < e
  · simp only [if_pos h, List.map_map]
    exact ⟨⟨b, e, e, 1⟩, range_up b e he.2 _ b hb.1 (by omega), rangeNext_end b e 1⟩
  · simp only [if_neg h, List.map_map]
    exact ⟨⟨b, e, e, -1⟩, range_down b e he.1 _ b hb.2 (by omega), rangeNext_end b e (-1)⟩

theorem rangeList_length (b e : Int) : (rangeList b e).length = (e - b).natAbs := by
  unfold rangeList
  split <;> simp only [List.length_map, List.length_range] <;> omega

theorem rangeList_getElem (b e : Int) (k : Nat) (hk : k < (rangeList b e).length) :
    (rangeList b e)[k] = if b < e then b + (k : Int) else b - (k : Int) := by
  unfold rangeList
  split <;> simp

/-! ### string -/

open Yarel.Utf8 Yarel.Str in
theorem str_pyields :
    ∀ (cps : List Nat), (∀ c ∈ cps, isScalar c = true) → ∀ (p : Bytes),
      PYields (strNext (p ++ encode cps)) p.length (cps.map fun c => Item.val (encodeCP c)) (p ++ encode cps).length
  | [], _, p => by simp [PYields, encode]
  | c :: cs, h, p => by
    have hc := h c (by simp)
    have hcs : ∀ x ∈ cs, isScalar x = true := fun x hx => h x (by simp [hx])
    refine ⟨p.length + (encodeCP c).length, ?_, ?_⟩
    · simp only [strNext, encode, stringIterNext_char hc ⟨cs, hcs, rfl⟩]
    · have := str_pyields cs hcs (p ++ encodeCP c)
      simpa [encode, List.append_assoc] using this

open Yarel.Utf8 Yarel.Str in
theorem str_denotes (cps : List Nat) (h : ∀ c ∈ cps, isScalar c = true) :
    Denotes (strNext (encode cps)) 0 (cps.map fun c => Item.val (encodeCP c)) := by
  refine ⟨(encode cps).length, ?_, ?_⟩
  · simpa using str_pyields cps h []
  · simp only [strNext, stringIterNext_end]

end Yarel.Iter
