/-
Facts about `==` and the hash on `Key`: `valueEq` is a partial equivalence (symmetric, transitive; reflexive
exactly on NaN-free keys), and the hash-coherence lemmas.
-/
import Yarel.Model.HashMapM

namespace Yarel.F64

theorem eq_comm (a b : Bits) : eq a b = eq b a := by
  unfold eq
  cases isNaN a <;> cases isNaN b <;> cases isZero a <;> cases isZero b <;> simp [BEq.comm (a := a)]

theorem eq_trans {a b c : Bits} (h1 : eq a b = true) (h2 : eq b c = true) : eq a c = true := by
  unfold eq at *
  cases hna : isNaN a <;> cases hnb : isNaN b <;> cases hnc : isNaN c <;> simp [hna, hnb, hnc] at h1 h2 ⊢
  cases hza : isZero a <;> cases hzb : isZero b <;> cases hzc : isZero c <;> simp [hza, hzb, hzc] at h1 h2 ⊢
  all_goals (try subst h1) <;> (try subst h2) <;> simp_all

theorem eq_self (a : Bits) : eq a a = !isNaN a := by
  unfold eq
  cases isNaN a <;> cases isZero a <;> simp

theorem not_nan_of_eq {a b : Bits} (h : eq a b = true) : isNaN a = false ∧ isNaN b = false := by
  unfold eq at h
  cases hna : isNaN a <;> cases hnb : isNaN b <;> simp [hna, hnb] at h ⊢

/-- The only bit patterns that are zeros are `+0.0` and `-0.0`. -/
theorem isZero_iff (b : Bits) : isZero b = true ↔ b = posZero ∨ b = negZero := by
  unfold isZero expField mantField posZero negZero
  constructor
  · intro h
    simp only [Bool.and_eq_true, beq_iff_eq, UInt64.toNat_and, UInt64.toNat_shiftRight] at h
    have e1 : (2047 : Nat) = 2 ^ 11 - 1 := by decide
    have e2 : (4503599627370495 : Nat) = 2 ^ 52 - 1 := by decide
    have hlt := b.toNat_lt
    simp only [UInt64.reduceToNat, Nat.reduceMod] at h
    rw [e1, e2, Nat.and_two_pow_sub_one_eq_mod, Nat.and_two_pow_sub_one_eq_mod, Nat.shiftRight_eq_div_pow] at h
    have : b.toNat = 0 ∨ b.toNat = 9223372036854775808 := by omega
    rcases this with h | h
    · left; exact UInt64.toNat_inj.mp h
    · right; exact UInt64.toNat_inj.mp h
  · rintro (rfl | rfl) <;> decide

/-- IEEE-equal doubles have the same bits, except for the two zeros. -/
theorem eq_cases {a b : Bits} (h : eq a b = true) : a = b ∨ (isZero a = true ∧ isZero b = true) := by
  unfold eq at h
  cases hna : isNaN a <;> cases hnb : isNaN b <;> simp [hna, hnb] at h
  cases hza : isZero a <;> cases hzb : isZero b <;> simp [hza, hzb] at h ⊢ <;> exact h

end Yarel.F64

namespace Yarel.HashMapM
open Yarel

/-- Induction over the nested type `Key`, with the induction hypothesis for every element of a tuple. -/
theorem Key.ind {P : Key → Prop} (nil : P .nil) (bool : ∀ b, P (.bool b)) (num : ∀ b, P (.num b))
    (str : ∀ b, P (.str b)) (cls : ∀ i n, P (.cls i n)) (range : ∀ i b e, P (.range i b e))
    (tuple : ∀ xs, (∀ x ∈ xs, P x) → P (.tuple xs)) (unhashable : ∀ t, P (.unhashable t)) : ∀ k, P k :=
  @Key.rec P (fun xs => ∀ x ∈ xs, P x) nil bool num str cls range tuple unhashable
    (fun _ h => nomatch h)
    (fun _ _ ih1 ih2 x hx => by
      rcases List.mem_cons.mp hx with rfl | hx
      · exact ih1
      · exact ih2 x hx)

/-! ### `valueEq` is a partial equivalence relation -/

theorem valueEqList_comm_of : ∀ (xs : List Key), (∀ x ∈ xs, ∀ b, valueEq x b = valueEq b x) →
    ∀ ys, valueEqList xs ys = valueEqList ys xs
  | [], _, [] => rfl
  | [], _, _ :: _ => by simp [valueEqList]
  | _ :: _, _, [] => by simp [valueEqList]
  | x :: xs, ih, y :: ys => by
    simp only [valueEqList]
    rw [ih x List.mem_cons_self y,
      valueEqList_comm_of xs (fun z hz => ih z (List.mem_cons_of_mem _ hz)) ys]

theorem valueEq_comm : ∀ a b, valueEq a b = valueEq b a := by
  intro a
  induction a using Key.ind with
  | tuple xs ih =>
    intro b
    cases b <;> simp [valueEq]
    exact valueEqList_comm_of xs ih _
  | num a => intro b; cases b <;> simp [valueEq, F64.eq_comm a]
  | _ => intro b; cases b <;> simp [valueEq, BEq.comm]

theorem valueEqList_trans_of : ∀ (xs : List Key),
    (∀ x ∈ xs, ∀ b c, valueEq x b = true → valueEq b c = true → valueEq x c = true) →
    ∀ ys zs, valueEqList xs ys = true → valueEqList ys zs = true → valueEqList xs zs = true
  | [], _, [], [], _, _ => rfl
  | [], _, [], _ :: _, _, h => by simp [valueEqList] at h
  | [], _, _ :: _, _, h, _ => by simp [valueEqList] at h
  | _ :: _, _, [], _, h, _ => by simp [valueEqList] at h
  | _ :: _, _, _ :: _, [], _, h => by simp [valueEqList] at h
  | x :: xs, ih, y :: ys, z :: zs, h1, h2 => by
    simp only [valueEqList, Bool.and_eq_true] at h1 h2 ⊢
    exact ⟨ih x List.mem_cons_self y z h1.1 h2.1,
      valueEqList_trans_of xs (fun w hw => ih w (List.mem_cons_of_mem _ hw)) ys zs h1.2 h2.2⟩

theorem valueEq_trans : ∀ a b c, valueEq a b = true → valueEq b c = true → valueEq a c = true := by
  intro a
  induction a using Key.ind with
  | tuple xs ih =>
    intro b c h1 h2
    cases b <;> simp [valueEq] at h1
    cases c <;> simp [valueEq] at h2 ⊢
    exact valueEqList_trans_of xs ih _ _ h1 h2
  | num a =>
    intro b c h1 h2
    cases b <;> simp [valueEq] at h1
    cases c <;> simp [valueEq] at h2 ⊢
    exact F64.eq_trans h1 h2
  | _ =>
    intro b c h1 h2
    cases b <;> simp [valueEq] at h1
    cases c <;> simp [valueEq] at h2 ⊢
    all_goals simp_all

theorem valueEqList_self_of : ∀ (xs : List Key), (∀ x ∈ xs, valueEq x x = Key.nanFree x) →
    valueEqList xs xs = Key.nanFreeList xs
  | [], _ => rfl
  | x :: xs, ih => by
    simp only [valueEqList, Key.nanFreeList]
    rw [ih x List.mem_cons_self, valueEqList_self_of xs (fun z hz => ih z (List.mem_cons_of_mem _ hz))]

/-- `==` is reflexive exactly on the keys without a NaN inside. -/
theorem valueEq_self : ∀ a, valueEq a a = Key.nanFree a := by
  intro a
  induction a using Key.ind with
  | tuple xs ih => simp only [valueEq, Key.nanFree]; exact valueEqList_self_of xs ih
  | num a => simp [valueEq, Key.nanFree, F64.eq_self]
  | _ => simp [valueEq, Key.nanFree]

/-- Whatever is `==` to something is `==` to itself, hence NaN-free. -/
theorem nanFree_of_valueEq {a b : Key} (h : valueEq a b = true) : Key.nanFree a = true ∧ Key.nanFree b = true := by
  have h' : valueEq b a = true := by rw [valueEq_comm]; exact h
  exact ⟨by rw [← valueEq_self]; exact valueEq_trans a b a h h',
         by rw [← valueEq_self]; exact valueEq_trans b a b h' h⟩

/-- A key with a NaN inside is `==` to nothing, not even itself. -/
theorem valueEq_nan_left {k : Key} (hk : Key.nanFree k = false) (q : Key) : valueEq k q = false := by
  cases h : valueEq k q
  · rfl
  · have := (nanFree_of_valueEq h).1; simp [hk] at this

theorem valueEq_nan_right {k : Key} (hk : Key.nanFree k = false) (q : Key) : valueEq q k = false := by
  rw [valueEq_comm]; exact valueEq_nan_left hk q

/-! ### coherence of the hash with `==` -/

/-- The property a number hash needs (on a set `N` of admissible bit patterns). -/
def NumCoherent (hn : UInt64 → UInt64) (N : UInt64 → Prop) : Prop :=
  ∀ a b, N a → N b → F64.eq a b = true → hn a = hn b

theorem hashNumberFixed_coherent : NumCoherent hashNumberFixed (fun _ => True) := by
  intro a b _ _ h
  rcases F64.eq_cases h with rfl | ⟨ha, hb⟩
  · rfl
  · have hz : ∀ x, F64.isZero x = true → F64.eq x F64.posZero = true := by
      intro x hx
      rcases (F64.isZero_iff x).mp hx with rfl | rfl <;> decide
    simp [hashNumberFixed, hz a ha, hz b hb]

theorem hashNumber_coherent : NumCoherent hashNumber (fun x => x ≠ F64.negZero) := by
  intro a b ha hb h
  rcases F64.eq_cases h with rfl | ⟨hza, hzb⟩
  · rfl
  · rcases (F64.isZero_iff a).mp hza with rfl | rfl
    · rcases (F64.isZero_iff b).mp hzb with rfl | rfl
      · rfl
      · exact absurd rfl hb
    · exact absurd rfl ha

mutual
/-- Every number inside the key satisfies `N`. -/
def Key.numsIn (N : UInt64 → Prop) : Key → Prop
  | .num bits => N bits
  | .tuple xs => Key.numsInList N xs
  | _ => True
def Key.numsInList (N : UInt64 → Prop) : List Key → Prop
  | [] => True
  | x :: xs => Key.numsIn N x ∧ Key.numsInList N xs
end

theorem tupleHash_coherent_of (hn : UInt64 → UInt64) (N : UInt64 → Prop) (H : Heap) : ∀ (xs : List Key),
    (∀ x ∈ xs, ∀ b, Key.inHeap H x = true → Key.inHeap H b = true → Key.numsIn N x → Key.numsIn N b →
      valueEq x b = true → valueHashWith hn x = valueHashWith hn b) →
    ∀ ys acc, Key.inHeapList H xs = true → Key.inHeapList H ys = true →
      Key.numsInList N xs → Key.numsInList N ys →
      valueEqList xs ys = true → tupleHashWith hn acc xs = tupleHashWith hn acc ys
  | [], _, [], _, _, _, _, _, _ => rfl
  | [], _, _ :: _, _, _, _, _, _, h => by simp [valueEqList] at h
  | _ :: _, _, [], _, _, _, _, _, h => by simp [valueEqList] at h
  | x :: xs, ih, y :: ys, acc, hx, hy, nx, ny, h => by
    simp only [valueEqList, Bool.and_eq_true, Key.inHeapList, Key.numsInList] at h hx hy nx ny
    simp only [tupleHashWith]
    rw [ih x List.mem_cons_self y hx.1 hy.1 nx.1 ny.1 h.1]
    exact tupleHash_coherent_of hn N H xs (fun w hw => ih w (List.mem_cons_of_mem _ hw)) ys _
      hx.2 hy.2 nx.2 ny.2 h.2

/-- Coherence for a number hash that is coherent on `N`: keys from one heap whose numbers are all in `N`. -/
theorem valueHashWith_coherent (hn : UInt64 → UInt64) (N : UInt64 → Prop) (hN : NumCoherent hn N) (H : Heap) :
    ∀ a b, Key.inHeap H a = true → Key.inHeap H b = true → Key.numsIn N a → Key.numsIn N b →
      valueEq a b = true → valueHashWith hn a = valueHashWith hn b := by
  intro a
  induction a using Key.ind with
  | tuple xs ih =>
    intro b ha hb na nb h
    cases b <;> simp [valueEq] at h
    simp only [Key.inHeap, Key.numsIn] at ha hb na nb
    simp only [valueHashWith]
    exact tupleHash_coherent_of hn N H xs ih _ 0 ha hb na nb h
  | num a =>
    intro b _ _ na nb h
    cases b <;> simp [valueEq] at h
    simp only [Key.numsIn] at na nb
    simp only [valueHashWith]
    exact hN _ _ na nb h
  | cls i n =>
    intro b ha hb _ _ h
    cases b <;> simp [valueEq] at h
    simp only [Key.inHeap, beq_iff_eq] at ha hb
    subst h
    simp [valueHashWith, ha, hb]
  | range i b e =>
    intro b ha hb _ _ h
    cases b <;> simp [valueEq] at h
    simp only [Key.inHeap, beq_iff_eq] at ha hb
    subst h
    rw [← hb] at ha
    simp only [Prod.mk.injEq] at ha
    simp [valueHashWith, ha.1, ha.2]
  | _ =>
    intro b _ _ _ _ h
    cases b <;> simp [valueEq] at h
    all_goals simp_all [valueHashWith]

theorem numsIn_true : ∀ k, Key.numsIn (fun _ => True) k := by
  intro k
  induction k using Key.ind with
  | tuple xs ih =>
    simp only [Key.numsIn]
    induction xs with
    | nil => trivial
    | cons x xs ihx =>
      exact ⟨ih x List.mem_cons_self, ihx (fun z hz => ih z (List.mem_cons_of_mem _ hz))⟩
  | _ => simp [Key.numsIn]

theorem numsIn_noNegZero : ∀ k, Key.noNegZero k = true → Key.numsIn (fun x => x ≠ F64.negZero) k := by
  intro k
  induction k using Key.ind with
  | tuple xs ih =>
    simp only [Key.numsIn, Key.noNegZero]
    induction xs with
    | nil => intro _; trivial
    | cons x xs ihx =>
      intro h
      simp only [Key.noNegZeroList, Bool.and_eq_true] at h
      exact ⟨ih x List.mem_cons_self h.1, ihx (fun z hz => ih z (List.mem_cons_of_mem _ hz)) h.2⟩
  | num b => simp [Key.numsIn, Key.noNegZero]
  | _ => simp [Key.numsIn]

end Yarel.HashMapM
