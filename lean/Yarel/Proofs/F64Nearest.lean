/-
`roundRat` returns a nearest double, ties to even (whole finite range incl. subnormals; overflow excluded).
-/
import Yarel.Proofs.F64Round
import Yarel.Spec.F64Spec

namespace Yarel.F64

theorem pack_toNat (s : Bool) (mag : Nat) (h : mag < 2^63) :
    (pack s mag).toNat = (if s then 2^63 else 0) + mag := by
  unfold pack
  rw [UInt64.toNat_ofNat']
  cases s <;> simp <;> omega

theorem fields_pack (s : Bool) (ef mf : Nat) (hef : ef < 2048) (hmf : mf < 2^52) :
    signBit (pack s (ef * 2^52 + mf)) = s ∧ expField (pack s (ef * 2^52 + mf)) = ef ∧
      mantField (pack s (ef * 2^52 + mf)) = mf := by
  have h := pack_toNat s (ef * 2^52 + mf) (by omega)
  rw [signBit_eq, expField_eq, mantField_eq, h]
  cases s <;> simp <;> omega

/-- `unitsOf` agrees with `decode`: value = `m * 2^(e+1074)` units. -/
theorem unitsOf_decode (b : Bits) (h : expField b < 2047) :
    unitsOf b = (decode b).2.1 * 2 ^ ((decode b).2.2 + 1074).toNat := by
  unfold unitsOf decode
  by_cases h0 : expField b = 0
  · simp [h0]
  · have : (expField b == 0) = false := by simp [h0]
    simp only [h0, this, if_false, Bool.false_eq_true]
    congr 2; omega

theorem roundHalfEven_spec (n d : Nat) (hd : 0 < d) :
    (roundHalfEven n d = n / d ∨ roundHalfEven n d = n / d + 1) ∧
    2 * absDiff n (roundHalfEven n d * d) ≤ d ∧
    (2 * absDiff n (roundHalfEven n d * d) = d → roundHalfEven n d % 2 = 0) ∧
    absDiff n (roundHalfEven n d * d) ≤ absDiff n (n / d * d) ∧
    absDiff n (roundHalfEven n d * d) ≤ absDiff n ((n / d + 1) * d) := by
  have hdm := Nat.div_add_mod n d
  have hr := Nat.mod_lt n hd
  rw [Nat.mul_comm] at hdm
  unfold roundHalfEven absDiff
  simp only
  generalize n / d = q at *
  generalize n % d = r at *
  have e1 : (q + 1) * d = q * d + d := by rw [Nat.add_mul, Nat.one_mul]
  split
  · rw [e1]; omega
  · split
    · rw [e1]; omega
    · rw [e1]; omega

/-- The exponent chosen by `roundMag` puts the quotient into `[2^52, 2^53)` (or below `2^53` when `t = 0`). -/
theorem roundMag_quot (N den : Nat) :
    let t := (N / den).log2 - 52
    let q := N / (den * 2 ^ t)
    (t = 0 ∨ 2 ^ 52 ≤ q) ∧ q < 2 ^ 53 := by
  intro t q
  have hq : q = N / den / 2 ^ t := by show N / (den * 2 ^ t) = _; rw [Nat.div_div_eq_div_mul]
  by_cases hQ : N / den = 0
  · have ht : t = 0 := by show (N / den).log2 - 52 = 0; rw [hQ]; decide
    refine ⟨Or.inl ht, ?_⟩
    rw [hq, hQ, Nat.zero_div]; exact Nat.two_pow_pos _
  · have h1 := Nat.log2_self_le hQ
    have h2 := @Nat.lt_log2_self (N / den)
    by_cases hL : (N / den).log2 ≤ 52
    · have ht : t = 0 := by show (N / den).log2 - 52 = 0; omega
      refine ⟨Or.inl ht, ?_⟩
      rw [hq, ht, Nat.pow_zero, Nat.div_one]
      have : 2 ^ ((N / den).log2 + 1) ≤ 2 ^ 53 := Nat.pow_le_pow_right (by decide) (by omega)
      omega
    · have hL' : (N / den).log2 = 52 + t := by show _ = 52 + ((N / den).log2 - 52); omega
      rw [hL'] at h1 h2
      have hp : 0 < 2 ^ t := Nat.two_pow_pos _
      refine ⟨Or.inr ?_, ?_⟩
      · rw [hq, Nat.le_div_iff_mul_le hp, ← Nat.pow_add]; exact h1
      · rw [hq, Nat.div_lt_iff_lt_mul hp, ← Nat.pow_add]
        rw [show 52 + t + 1 = 53 + t by omega] at h2; exact h2

/-- No representable value lies strictly between two consecutive multiples of the chosen ulp. -/
theorem no_repr_between (X q t : Nat) (hX : Representable X) (hq : t = 0 ∨ 2 ^ 52 ≤ q) :
    ¬ (q * 2 ^ t < X ∧ X < (q + 1) * 2 ^ t) := by
  obtain ⟨mx, tx, rfl, hmx, hnx⟩ := hX
  intro ⟨h1, h2⟩
  have hp : 0 < 2 ^ t := Nat.two_pow_pos _
  by_cases hle : t ≤ tx
  · have : mx * 2 ^ tx = (mx * 2 ^ (tx - t)) * 2 ^ t := by
      rw [Nat.mul_assoc, ← Nat.pow_add]; congr 2; omega
    rw [this] at h1 h2
    have a := Nat.lt_of_mul_lt_mul_right h1
    have b := Nat.lt_of_mul_lt_mul_right h2
    omega
  · have ht : t ≠ 0 := by omega
    have hq' : 2 ^ 52 ≤ q := by rcases hq with h | h; exact absurd h ht; exact h
    have h3 : mx * 2 ^ tx < 2 ^ 53 * 2 ^ tx := Nat.mul_lt_mul_of_pos_right hmx (Nat.two_pow_pos _)
    have h4 : 2 ^ 53 * 2 ^ tx = 2 ^ 52 * 2 ^ (tx + 1) := by
      rw [← Nat.pow_add, ← Nat.pow_add]; congr 1; omega
    have h5 : 2 ^ 52 * 2 ^ (tx + 1) ≤ 2 ^ 52 * 2 ^ t :=
      Nat.mul_le_mul_left _ (Nat.pow_le_pow_right (by decide) (by omega))
    have h6 : 2 ^ 52 * 2 ^ t ≤ q * 2 ^ t := Nat.mul_le_mul_right _ hq'
    omega

/-- Core statement on unit counts: `R = m * 2^t` is nearest to `N/den` among representables; ties go to even `m`. -/
theorem round_core (N den : Nat) (hden : 0 < den) :
    let t := (N / den).log2 - 52
    let m := roundHalfEven N (den * 2 ^ t)
    (m ≤ 2 ^ 53) ∧ (t = 0 ∨ 2 ^ 52 ≤ m) ∧
    ∀ X, Representable X →
      absDiff N (m * 2 ^ t * den) ≤ absDiff N (X * den) ∧
      (absDiff N (m * 2 ^ t * den) = absDiff N (X * den) → X ≠ m * 2 ^ t → m % 2 = 0) := by
  intro t m
  have hd : 0 < den * 2 ^ t := Nat.mul_pos hden (Nat.two_pow_pos _)
  obtain ⟨hq1, hq2⟩ := roundMag_quot N den
  obtain ⟨hm, h2, h3, h4, h5⟩ := roundHalfEven_spec N (den * 2 ^ t) hd
  have hdm := Nat.div_add_mod N (den * 2 ^ t)
  have hr := Nat.mod_lt N hd
  change (t = 0 ∨ 2 ^ 52 ≤ N / (den * 2 ^ t)) at hq1
  change N / (den * 2 ^ t) < 2 ^ 53 at hq2
  change (m = _ ∨ m = _) at hm
  change 2 * absDiff N (m * _) ≤ _ at h2
  change (2 * absDiff N (m * _) = _ → m % 2 = 0) at h3
  change absDiff N (m * _) ≤ _ at h4
  change absDiff N (m * _) ≤ _ at h5
  generalize N / (den * 2 ^ t) = q at *
  refine ⟨by omega, by omega, ?_⟩
  intro X hX
  have hgap := no_repr_between X q t hX hq1
  have eR : m * 2 ^ t * den = m * (den * 2 ^ t) := by
    rw [Nat.mul_assoc, Nat.mul_comm (2 ^ t) den]
  rw [eR]
  rw [Nat.mul_comm (den * 2 ^ t) q] at hdm
  have e1 : (q + 1) * (den * 2 ^ t) = q * (den * 2 ^ t) + den * 2 ^ t := by rw [Nat.add_mul, Nat.one_mul]
  rw [e1] at h5
  by_cases hlow : X ≤ q * 2 ^ t
  · have hXd : X * den ≤ q * (den * 2 ^ t) := by
      have := Nat.mul_le_mul_right den hlow
      rwa [Nat.mul_assoc, Nat.mul_comm (2 ^ t) den] at this
    constructor
    · unfold absDiff at *; omega
    · intro heq hne
      rcases hm with hm | hm
      · exfalso; apply hne
        have : X * den = q * (den * 2 ^ t) := by unfold absDiff at *; rw [hm] at heq; omega
        rw [hm]
        have : X * den = q * 2 ^ t * den := by rw [this, Nat.mul_assoc, Nat.mul_comm (2 ^ t) den]
        exact Nat.eq_of_mul_eq_mul_right hden this
      · apply h3
        rw [hm, e1] at heq h2 ⊢
        unfold absDiff at *; omega
  · have hhigh : (q + 1) * 2 ^ t ≤ X := by
      rcases Nat.lt_or_ge X ((q + 1) * 2 ^ t) with h | h
      · exact absurd ⟨by omega, h⟩ hgap
      · exact h
    have hXd : q * (den * 2 ^ t) + den * 2 ^ t ≤ X * den := by
      have := Nat.mul_le_mul_right den hhigh
      have e : (q + 1) * 2 ^ t * den = q * (den * 2 ^ t) + den * 2 ^ t := by
        generalize 2 ^ t = P; grind
      rwa [e] at this
    constructor
    · unfold absDiff at *; omega
    · intro heq hne
      rcases hm with hm | hm
      · apply h3
        rw [hm] at heq h2 ⊢
        unfold absDiff at *; omega
      · exfalso; apply hne
        have : X * den = q * (den * 2 ^ t) + den * 2 ^ t := by
          unfold absDiff at *; rw [hm, e1] at heq; omega
        rw [hm]
        have : X * den = (q + 1) * 2 ^ t * den := by
          rw [this]; generalize 2 ^ t = P; grind
        exact Nat.eq_of_mul_eq_mul_right hden this

theorem representable_unitsOf (x : Bits) : Representable (unitsOf x) := by
  unfold unitsOf
  have := mantField_lt x
  split
  · exact ⟨mantField x, 0, by simp, by omega, Or.inl rfl⟩
  · exact ⟨mantField x + 2 ^ 52, expField x - 1, rfl, by omega, Or.inr (by omega)⟩

theorem isFinite_pack_inf (s : Bool) : isFinite (pack s infMag) = false := by
  cases s <;> decide

theorem units_pack (s : Bool) (t m : Nat) (hm1 : m ≤ 2 ^ 53) (hm2 : t = 0 ∨ 2 ^ 52 ≤ m)
    (hov : t * 2 ^ 52 + m < 2047 * 2 ^ 52) :
    unitsOf (pack s (t * 2 ^ 52 + m)) = m * 2 ^ t ∧ mantField (pack s (t * 2 ^ 52 + m)) % 2 = m % 2 ∧
      signBit (pack s (t * 2 ^ 52 + m)) = s := by
  unfold unitsOf
  by_cases c1 : m < 2 ^ 52
  · have ht : t = 0 := by omega
    subst ht
    obtain ⟨f1, f2, f3⟩ := fields_pack s 0 m (by decide) c1
    rw [f1, f2, f3]
    simp
  · by_cases c2 : m < 2 ^ 53
    · have e : t * 2 ^ 52 + m = (t + 1) * 2 ^ 52 + (m - 2 ^ 52) := by omega
      obtain ⟨f1, f2, f3⟩ := fields_pack s (t + 1) (m - 2 ^ 52) (by omega) (by omega)
      rw [e, f1, f2, f3]
      have h1 : m - 2 ^ 52 + 2 ^ 52 = m := by omega
      have h2 : t + 1 - 1 = t := by omega
      have h3 : t + 1 ≠ 0 := by omega
      rw [if_neg h3, h1, h2]
      refine ⟨rfl, by omega, rfl⟩
    · have hm : m = 2 ^ 53 := by omega
      subst hm
      have e : t * 2 ^ 52 + 2 ^ 53 = (t + 2) * 2 ^ 52 + 0 := by omega
      obtain ⟨f1, f2, f3⟩ := fields_pack s (t + 2) 0 (by omega) (by decide)
      rw [e, f1, f2, f3]
      have h2 : t + 2 - 1 = t + 1 := by omega
      have h3 : t + 2 ≠ 0 := by omega
      rw [if_neg h3, h2, Nat.pow_succ]
      refine ⟨by omega, by decide, rfl⟩

/-- Decoding the result of `roundRat`: its unit count is `m * 2^t` and its mantissa has the parity of `m`. -/
theorem roundRat_units (s : Bool) (num den : Nat) (hden : 0 < den)
    (hfin : isFinite (roundRat s num den) = true) :
    unitsOf (roundRat s num den)
        = roundHalfEven (num * 2 ^ 1074) (den * 2 ^ ((num * 2 ^ 1074 / den).log2 - 52))
            * 2 ^ ((num * 2 ^ 1074 / den).log2 - 52) ∧
      mantField (roundRat s num den) % 2
        = roundHalfEven (num * 2 ^ 1074) (den * 2 ^ ((num * 2 ^ 1074 / den).log2 - 52)) % 2 ∧
      signBit (roundRat s num den) = s := by
  obtain ⟨hm1, hm2, _⟩ := round_core (num * 2 ^ 1074) den hden
  unfold roundRat roundMag at hfin ⊢
  simp only at hfin hm1 hm2 ⊢
  generalize (num * 2 ^ 1074 / den).log2 - 52 = t at *
  generalize roundHalfEven (num * 2 ^ 1074) (den * 2 ^ t) = m at *
  split at hfin
  · rw [isFinite_pack_inf] at hfin; cases hfin
  · rename_i hov
    rw [if_neg hov]
    exact units_pack s t m hm1 hm2 (by unfold infMag at hov; omega)

/-- **`roundRat` rounds to nearest, ties to even** (any finite result, subnormals included).
Distances are compared after multiplying by `den * 2^1074`, so everything is a natural number:
`|num/den - v| * den * 2^1074 = absDiff (num * 2^1074) (unitsOf v * den)`. -/
theorem roundRat_nearest' (s : Bool) (num den : Nat) (hden : 0 < den)
    (hfin : isFinite (roundRat s num den) = true) (x : Bits) :
    absDiff (num * 2 ^ 1074) (unitsOf (roundRat s num den) * den) ≤ absDiff (num * 2 ^ 1074) (unitsOf x * den) ∧
    (absDiff (num * 2 ^ 1074) (unitsOf (roundRat s num den) * den) = absDiff (num * 2 ^ 1074) (unitsOf x * den) →
      unitsOf x ≠ unitsOf (roundRat s num den) → mantField (roundRat s num den) % 2 = 0) := by
  obtain ⟨hu, hp, _⟩ := roundRat_units s num den hden hfin
  obtain ⟨_, _, hcore⟩ := round_core (num * 2 ^ 1074) den hden
  obtain ⟨h1, h2⟩ := hcore (unitsOf x) (representable_unitsOf x)
  rw [hu, hp]
  exact ⟨h1, h2⟩

end Yarel.F64
