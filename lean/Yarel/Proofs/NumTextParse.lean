/-
`parseDec` on texts of the form  [-] digits [. digits]  (what `display` produces).
-/
import Yarel.Proofs.NumTextDigits

namespace Yarel.NumText
open Yarel.F64

theorem takeWhile_digits_append (ip rest : List Char) (h : ip.all isDigit = true)
    (hr : ∀ c t, rest = c :: t → isDigit c = false) :
    (ip ++ rest).takeWhile isDigit = ip ∧ (ip ++ rest).dropWhile isDigit = rest := by
  induction ip with
  | nil =>
    cases rest with
    | nil => simp
    | cons c t => simp [hr c t rfl]
  | cons a as ih =>
    simp only [List.all_cons, Bool.and_eq_true] at h
    have := ih h.2
    simp [h.1, this.1, this.2]

theorem takeWhile_digits (ip : List Char) (h : ip.all isDigit = true) :
    ip.takeWhile isDigit = ip ∧ ip.dropWhile isDigit = [] := by
  have := takeWhile_digits_append ip [] h (by intro c t h; cases h)
  simpa using this

theorem parseNumber_assemble (ip fr : List Char) (hip : ip.all isDigit = true) (hfr : fr.all isDigit = true)
    (hne : ip ≠ []) :
    parseNumber (assemble ip fr) = some (digitsVal 0 (ip ++ fr), -(fr.length : Int)) := by
  unfold assemble
  cases fr with
  | nil =>
    simp only [List.isEmpty_nil, if_true]
    unfold parseNumber
    have := takeWhile_digits ip hip
    simp only [this.1, this.2]
    have : ip.isEmpty = false := by cases ip with | nil => exact absurd rfl hne | cons _ _ => rfl
    simp [this, parseExp]
  | cons f fs =>
    simp only [List.isEmpty_cons, Bool.false_eq_true, if_false]
    unfold parseNumber
    have h1 := takeWhile_digits_append ip ('.' :: f :: fs) hip (by
      intro c t h; cases h; decide)
    have h2 := takeWhile_digits (f :: fs) hfr
    simp only [h1.1, h1.2, h2.1, h2.2]
    have : ip.isEmpty = false := by cases ip with | nil => exact absurd rfl hne | cons _ _ => rfl
    simp [this, parseExp]

theorem splitSign_digit (c : Char) (t : List Char) (h : isDigit c = true) :
    splitSign (c :: t) = (false, c :: t) := by
  rcases isDigit_cases c h with h | h | h | h | h | h | h | h | h | h <;> subst h <;> rfl

theorem isInfText_digit (c : Char) (t : List Char) (h : isDigit c = true) : isInfText (c :: t) = false := by
  unfold isInfText lower
  rcases isDigit_cases c h with h | h | h | h | h | h | h | h | h | h <;> subst h <;>
    simp [List.map_cons] <;> decide

theorem isNanText_digit (c : Char) (t : List Char) (h : isDigit c = true) : isNanText (c :: t) = false := by
  unfold isNanText lower
  rcases isDigit_cases c h with h | h | h | h | h | h | h | h | h | h <;> subst h <;>
    simp [List.map_cons] <;> decide

theorem parseDec_unsigned (ip fr : List Char) (hip : ip.all isDigit = true) (hfr : fr.all isDigit = true)
    (hne : ip ≠ []) :
    parseDec (assemble ip fr) = some (roundDec false (digitsVal 0 (ip ++ fr)) (-(fr.length : Int))) := by
  have hpn := parseNumber_assemble ip fr hip hfr hne
  obtain ⟨c, t, hct⟩ : ∃ c t, assemble ip fr = c :: t ∧ isDigit c = true := by
    cases ip with
    | nil => exact absurd rfl hne
    | cons a as =>
      simp only [List.all_cons, Bool.and_eq_true] at hip
      unfold assemble; split
      · exact ⟨a, as, rfl, hip.1⟩
      · exact ⟨a, as ++ '.' :: fr, rfl, hip.1⟩
  unfold parseDec
  rw [hct.1, splitSign_digit c t hct.2]
  simp only [isInfText_digit c t hct.2, isNanText_digit c t hct.2, Bool.false_eq_true, if_false]
  rw [← hct.1, hpn]

theorem parseDec_neg (ip fr : List Char) (hip : ip.all isDigit = true) (hfr : fr.all isDigit = true)
    (hne : ip ≠ []) :
    parseDec ('-' :: assemble ip fr) = some (roundDec true (digitsVal 0 (ip ++ fr)) (-(fr.length : Int))) := by
  have hpn := parseNumber_assemble ip fr hip hfr hne
  obtain ⟨c, t, hct⟩ : ∃ c t, assemble ip fr = c :: t ∧ isDigit c = true := by
    cases ip with
    | nil => exact absurd rfl hne
    | cons a as =>
      simp only [List.all_cons, Bool.and_eq_true] at hip
      unfold assemble; split
      · exact ⟨a, as, rfl, hip.1⟩
      · exact ⟨a, as ++ '.' :: fr, rfl, hip.1⟩
  unfold parseDec
  have : splitSign ('-' :: assemble ip fr) = (true, assemble ip fr) := rfl
  rw [this]
  simp only
  rw [hct.1]
  simp only [isInfText_digit c t hct.2, isNanText_digit c t hct.2, Bool.false_eq_true, if_false]
  rw [← hct.1, hpn]

theorem parseDec_signed (b : Bits) (ip fr : List Char) (hip : ip.all isDigit = true)
    (hfr : fr.all isDigit = true) (hne : ip ≠ []) :
    parseDec (signText b ++ assemble ip fr)
      = some (roundDec (signBit b) (digitsVal 0 (ip ++ fr)) (-(fr.length : Int))) := by
  unfold signText
  cases h : signBit b
  · simpa using parseDec_unsigned ip fr hip hfr hne
  · simpa using parseDec_neg ip fr hip hfr hne

end Yarel.NumText
