import Yarel.Model.ChunkLines
/- Helper lemmas for Props/C17.lean: what each chunk writer operation does to `code.length` and `lines`. -/
namespace Yarel.ChunkLines

@[simp] theorem write_code_length (c : Chunk) (b : UInt8) (l : Int) :
    (c.write b l).code.length = c.code.length + 1 := by simp [Chunk.write]

@[simp] theorem write_lines (c : Chunk) (b : UInt8) (l : Int) : (c.write b l).lines = c.lines ++ [l] := rfl

theorem setCode_ok {c c' : Chunk} {pos : Nat} {b : UInt8} (h : c.setCode pos b = .ok c') :
    c'.code.length = c.code.length ∧ c'.lines = c.lines ∧ c'.constants = c.constants ∧ pos < c.code.length := by
  unfold Chunk.setCode at h
  split at h
  · cases h; simp_all
  · cases h

theorem patch2_ok {c c' : Chunk} {pos n : Nat} (h : c.patch2 pos n = .ok c') :
    c'.code.length = c.code.length ∧ c'.lines = c.lines ∧ c'.constants = c.constants ∧ pos + 1 < c.code.length := by
  unfold Chunk.patch2 at h
  split at h
  · cases h
  · rename_i c1 h1
    have a := setCode_ok h1
    have b := setCode_ok h
    refine ⟨by omega, ?_, ?_, by omega⟩
    · rw [b.2.1, a.2.1]
    · rw [b.2.2.1, a.2.2.1]

theorem addConstant_code_lines (c : Chunk) (v : Nat) :
    (c.addConstant v).1.code = c.code ∧ (c.addConstant v).1.lines = c.lines := by
  unfold Chunk.addConstant; split <;> simp

/-- One operation: `lines` grows exactly by the lines it pushes, `code` by as many bytes. -/
theorem apply_ok {c c' : Chunk} {op : WOp} (h : apply c op = .ok c') :
    c'.lines = c.lines ++ op.pushedLines ∧ c'.code.length = c.code.length + op.pushedLines.length := by
  cases op with
  | write b l => simp only [apply, Except.ok.injEq] at h; subst h; simp [WOp.pushedLines]
  | setCode pos b =>
    simp only [apply] at h
    have := setCode_ok h
    simp [WOp.pushedLines, this.1, this.2.1]
  | addConstant v =>
    simp only [apply, Except.ok.injEq] at h; subst h
    have := addConstant_code_lines c v
    simp [WOp.pushedLines, this.1, this.2]
  | emitBytes b0 b1 l => simp only [apply, Except.ok.injEq] at h; subst h; simp [WOp.pushedLines]
  | emitConstantOp op k l => simp only [apply, Except.ok.injEq] at h; subst h; simp [WOp.pushedLines]
  | emitJump op l => simp only [apply, Except.ok.injEq] at h; subst h; simp [WOp.pushedLines]
  | emitLoop op ls l =>
    simp only [apply] at h
    split at h
    · simp only [Except.ok.injEq] at h; subst h; simp [WOp.pushedLines]
    · cases h
  | patchJump offset =>
    simp only [apply] at h
    split at h
    · split at h
      · simp only [Except.ok.injEq] at h; subst h; simp [WOp.pushedLines]
      · have := patch2_ok h; simp [WOp.pushedLines, this.1, this.2.1]
    · cases h
  | patchOffsetAt pos offset =>
    simp only [apply] at h
    split at h
    · have := patch2_ok h; simp [WOp.pushedLines, this.1, this.2.1]
    · cases h

theorem run_ok {ops : List WOp} {c c' : Chunk} (h : run c ops = .ok c') :
    c'.lines = c.lines ++ ops.flatMap WOp.pushedLines ∧
      c'.code.length = c.code.length + (ops.flatMap WOp.pushedLines).length := by
  induction ops generalizing c with
  | nil => simp only [run, Except.ok.injEq] at h; subst h; simp
  | cons op ops ih =>
    simp only [run] at h
    split at h
    · cases h
    · rename_i c1 h1
      have a := apply_ok h1
      have b := ih h
      refine ⟨?_, ?_⟩
      · rw [b.1, a.1]; simp
      · rw [b.2, a.2]; simp; omega

/-- The code never shrinks. -/
theorem run_code_length_mono {ops : List WOp} {c c' : Chunk} (h : run c ops = .ok c') :
    c.code.length ≤ c'.code.length := by
  have := (run_ok h).2; omega

theorem setCode_in_range (c : Chunk) (pos : Nat) (b : UInt8) (h : pos < c.code.length) :
    ∃ c', c.setCode pos b = .ok c' ∧ c'.code.length = c.code.length := by
  refine ⟨{ c with code := c.code.set pos b }, by simp [Chunk.setCode, h], by simp⟩

theorem patch2_in_range (c : Chunk) (pos n : Nat) (h : pos + 2 ≤ c.code.length) : ∃ c', c.patch2 pos n = .ok c' := by
  obtain ⟨c1, h1, hl⟩ := setCode_in_range c pos (u16Bytes n).1 (by omega)
  obtain ⟨c2, h2, _⟩ := setCode_in_range c1 (pos + 1) (u16Bytes n).2 (by omega)
  exact ⟨c2, by simp [Chunk.patch2, h1, h2]⟩

/-- `patch_jump(offset)` does not panic when the two operand bytes exist. -/
theorem patchJump_in_range (c : Chunk) (offset : Nat) (h : offset + 2 ≤ c.code.length) :
    ∃ c', apply c (.patchJump offset) = .ok c' := by
  simp only [apply, h, if_true]
  split
  · exact ⟨c, rfl⟩
  · exact patch2_in_range c offset _ h

/-- `patch_offset_at(pos, offset)` does not panic when the two operand bytes exist and `offset` is a past code length. -/
theorem patchOffsetAt_in_range (c : Chunk) (pos offset : Nat) (h : pos + 2 ≤ c.code.length) (ho : offset ≤ c.code.length) :
    ∃ c', apply c (.patchOffsetAt pos offset) = .ok c' := by
  simp only [apply, ho, if_true]
  exact patch2_in_range c pos _ h

theorem entries_ok {fs : List Frame}
    (h : ∀ f ∈ fs, f.chunk.parallel ∧ 1 ≤ f.ipOff ∧ f.ipOff ≤ f.chunk.code.length) :
    ∃ es, entries fs = .ok es ∧ es.length = fs.length ∧
      ∀ i (hi : i < fs.length), ∃ e, es[i]? = some e ∧ fs[i].entry = .ok e := by
  induction fs with
  | nil => exact ⟨[], rfl, rfl, by intro i hi; simp at hi⟩
  | cons f fs ih =>
    obtain ⟨es, he, hl, hes⟩ := ih (fun g hg => h g (List.mem_cons_of_mem _ hg))
    obtain ⟨hp, h1, h2⟩ := h f List.mem_cons_self
    have hne : f.chunk.code.isEmpty = false := by
      cases hc : f.chunk.code with
      | nil => simp [hc] at h2; omega
      | cons => rfl
    have hlt : f.ipOff - 1 < f.chunk.lines.length := by unfold Chunk.parallel at hp; omega
    have hentry : ∃ e, f.entry = .ok e := by
      unfold Frame.entry traceLine
      simp only [hne, Bool.false_eq_true, if_false]
      have : ¬ f.ipOff = 0 := by omega
      simp only [this, if_false]
      rw [List.getElem?_eq_getElem hlt]
      exact ⟨_, rfl⟩
    obtain ⟨e, hfe⟩ := hentry
    refine ⟨e :: es, by simp [entries, hfe, he], by simp [hl], ?_⟩
    intro i hi
    cases i with
    | zero => exact ⟨e, by simp, by simpa using hfe⟩
    | succ j =>
      have hj : j < fs.length := by simpa using hi
      obtain ⟨e', h1', h2'⟩ := hes j hj
      exact ⟨e', by simpa using h1', by simpa using h2'⟩

end Yarel.ChunkLines
