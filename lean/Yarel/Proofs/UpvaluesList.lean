/-
Lemmas about the open-list bookkeeping `captureList` / `closeList`.
-/
import Yarel.Model.Upvalues

namespace Yarel.Upv

variable {κ : Type}

/-- strictly descending by slot. -/
def Desc (l : List (κ × Nat)) : Prop := l.Pairwise (fun a b => a.2 > b.2)

theorem Desc.tail {p : κ × Nat} {l : List (κ × Nat)} (h : Desc (p :: l)) : Desc l :=
  (List.pairwise_cons.mp h).2

theorem Desc.head {p : κ × Nat} {l : List (κ × Nat)} (h : Desc (p :: l)) :
    ∀ q ∈ l, p.2 > q.2 :=
  (List.pairwise_cons.mp h).1

theorem Desc.unique_slot {l : List (κ × Nat)} (hd : Desc l) {c1 c2 : κ} {sl : Nat}
    (h1 : (c1, sl) ∈ l) (h2 : (c2, sl) ∈ l) : c1 = c2 := by
  induction l with
  | nil => simp at h1
  | cons p t ih =>
    have hh := hd.head
    rcases List.mem_cons.mp h1 with rfl | h1' <;> rcases List.mem_cons.mp h2 with e2 | h2'
    · cases e2; rfl
    · have := hh _ h2'; simp at this
    · subst e2; have := hh _ h1'; simp at this
    · exact ih hd.tail h1' h2'

/-! ### captureList, facts that need no sortedness -/

theorem captureList_old (fresh : κ) (loc : Nat) (l : List (κ × Nat))
    (h : (captureList fresh loc l).1.2 = false) :
    (captureList fresh loc l).2 = l ∧ ((captureList fresh loc l).1.1, loc) ∈ l := by
  induction l with
  | nil => simp [captureList] at h
  | cons p t ih =>
    obtain ⟨c, s⟩ := p
    simp only [captureList] at h ⊢
    split
    · rename_i h1
      simp only [h1, if_true] at h
      have := ih h
      simp [this.1, this.2]
    · rename_i h1
      simp only [h1, if_false] at h
      split
      · rename_i h2; subst h2; simp
      · rename_i h2; simp [h2] at h

theorem captureList_new (fresh : κ) (loc : Nat) (l : List (κ × Nat))
    (h : (captureList fresh loc l).1.2 = true) :
    (captureList fresh loc l).1.1 = fresh := by
  induction l with
  | nil => simp [captureList]
  | cons p t ih =>
    obtain ⟨c, s⟩ := p
    simp only [captureList] at h ⊢
    split
    · rename_i h1
      simp only [h1, if_true] at h
      exact ih h
    · rename_i h1
      simp only [h1, if_false] at h
      split
      · rename_i h2; simp [h2] at h
      · rfl

theorem captureList_mem (fresh : κ) (loc : Nat) (l : List (κ × Nat)) (q : κ × Nat) :
    q ∈ (captureList fresh loc l).2 ↔
      q ∈ l ∨ ((captureList fresh loc l).1.2 = true ∧ q = (fresh, loc)) := by
  induction l with
  | nil => simp [captureList]
  | cons p t ih =>
    obtain ⟨c, s⟩ := p
    simp only [captureList]
    split
    · simp only [List.mem_cons, ih]; grind
    · split
      · simp
      · simp only [List.mem_cons]; grind

/-! ### captureList on a descending list -/

theorem captureList_desc (fresh : κ) (loc : Nat) (l : List (κ × Nat)) (hd : Desc l) :
    Desc (captureList fresh loc l).2 := by
  induction l with
  | nil => simp [captureList, Desc]
  | cons p t ih =>
    obtain ⟨c, s⟩ := p
    have ht := ih hd.tail
    have hh := hd.head
    simp only [captureList]
    split
    · rename_i h1
      refine List.pairwise_cons.mpr ⟨?_, ht⟩
      intro q hq
      rcases (captureList_mem fresh loc t q).mp hq with hq | ⟨_, rfl⟩
      · exact hh q hq
      · exact h1
    · split
      · exact hd
      · rename_i h1 h2
        refine List.pairwise_cons.mpr ⟨?_, hd⟩
        intro q hq
        rcases List.mem_cons.mp hq with rfl | hq
        · simp only; omega
        · have := hh q hq; simp only at this ⊢; omega

/-- capturing a slot that already has a node returns that node and leaves the list alone. -/
theorem captureList_reuse (fresh : κ) (loc : Nat) (l : List (κ × Nat)) (hd : Desc l)
    (c : κ) (hc : (c, loc) ∈ l) :
    captureList fresh loc l = ((c, false), l) := by
  induction l with
  | nil => simp at hc
  | cons p t ih =>
    obtain ⟨c', s⟩ := p
    have hh := hd.head
    simp only [captureList]
    rcases List.mem_cons.mp hc with heq | hc'
    · cases heq; simp
    · have := hh _ hc'
      simp only at this
      simp [this, ih hd.tail hc']

/-- capturing a slot without a node creates the fresh node. -/
theorem captureList_fresh (fresh : κ) (loc : Nat) (l : List (κ × Nat))
    (hc : ∀ c, (c, loc) ∉ l) :
    (captureList fresh loc l).1 = (fresh, true) := by
  induction l with
  | nil => simp [captureList]
  | cons p t ih =>
    obtain ⟨c', s⟩ := p
    simp only [captureList]
    split
    · exact ih (fun c h => hc c (List.mem_cons_of_mem _ h))
    · split
      · rename_i h2; subst h2; exact absurd List.mem_cons_self (hc c')
      · rfl

/-! ### closeList -/

theorem closeList_append (idx : Nat) (l : List (κ × Nat)) :
    (closeList idx l).1 ++ (closeList idx l).2 = l := by
  induction l with
  | nil => simp [closeList]
  | cons p t ih =>
    obtain ⟨c, s⟩ := p
    simp only [closeList]
    split <;> simp [ih]

theorem closeList_fst_ge (idx : Nat) (l : List (κ × Nat)) :
    ∀ q ∈ (closeList idx l).1, idx ≤ q.2 := by
  induction l with
  | nil => simp [closeList]
  | cons p t ih =>
    obtain ⟨c, s⟩ := p
    simp only [closeList]
    split
    · intro q hq
      rcases List.mem_cons.mp hq with rfl | hq
      · assumption
      · exact ih q hq
    · simp

/-- on a descending list the popped prefix is exactly the nodes with slot ≥ idx, the rest those below. -/
theorem closeList_desc (idx : Nat) (l : List (κ × Nat)) (hd : Desc l) :
    closeList idx l = (l.filter (fun q => decide (idx ≤ q.2)), l.filter (fun q => decide (q.2 < idx))) := by
  induction l with
  | nil => simp [closeList]
  | cons p t ih =>
    obtain ⟨c, s⟩ := p
    have hh := hd.head
    simp only [closeList]
    split
    · rename_i h1
      rw [ih hd.tail]
      have : ¬ s < idx := by omega
      simp [h1, this]
    · rename_i h1
      have h2 : s < idx := by omega
      have e1 : ((c, s) :: t).filter (fun q => decide (idx ≤ q.2)) = [] := by
        rw [List.filter_eq_nil_iff]
        intro q hq
        rcases List.mem_cons.mp hq with rfl | hq
        · simpa using h2
        · have := hh q hq; simp only at this; simp only [decide_eq_true_eq]; omega
      have e2 : ((c, s) :: t).filter (fun q => decide (q.2 < idx)) = (c, s) :: t := by
        rw [List.filter_eq_self]
        intro q hq
        rcases List.mem_cons.mp hq with rfl | hq
        · simpa using h2
        · have := hh q hq; simp only at this; simp only [decide_eq_true_eq]; omega
      rw [e1, e2]

theorem Desc.filter {l : List (κ × Nat)} (hd : Desc l) (p : κ × Nat → Bool) : Desc (l.filter p) :=
  List.Pairwise.filter p hd

end Yarel.Upv
