/-
Progress / line-count relation `Adv s s'` of the spec scanner ("`s'` is `s` after consuming some
characters") and the proof that every scanner helper is related to its input by it.
-/
import Yarel.Spec.Scanner

namespace Yarel.Spec
namespace Scanner

/-- number of `'\n'` among the first `i` characters -/
def nlUpTo (src : Array Char) (i : Nat) : Nat := (src.toList.take i).count '\n'

theorem nlUpTo_succ_of_some {src : Array Char} {i : Nat} {c : Char} (h : src[i]? = some c) :
    nlUpTo src (i + 1) = nlUpTo src i + (if c = '\n' then 1 else 0) := by
  unfold nlUpTo
  have h' : src.toList[i]? = some c := by simpa using h
  rw [List.take_add_one, h']
  by_cases hc : c = '\n' <;> simp [hc, List.count_append]

theorem nlUpTo_mono (src : Array Char) {i j : Nat} (h : i ≤ j) : nlUpTo src i ≤ nlUpTo src j := by
  unfold nlUpTo
  obtain ⟨k, rfl⟩ := Nat.exists_eq_add_of_le h
  rw [List.take_add]
  simp [List.count_append]

theorem nlUpTo_le_total (src : Array Char) (i : Nat) : nlUpTo src i ≤ src.toList.count '\n' := by
  unfold nlUpTo
  exact (List.take_sublist i src.toList).count_le '\n'

/-- `s'` is `s` after consuming characters: same text, position and line only grow, the position stays
inside the text, and the line grows by at most the number of newlines consumed. -/
structure Adv (s s' : Scanner) : Prop where
  src : s'.src = s.src
  cur : s.current ≤ s'.current
  bound : s.current ≤ s.src.size → s'.current ≤ s.src.size
  line : s.line ≤ s'.line
  nl : s'.line + nlUpTo s.src s.current ≤ s.line + nlUpTo s.src s'.current

theorem Adv.refl (s : Scanner) : Adv s s := ⟨rfl, Nat.le_refl _, id, Nat.le_refl _, Nat.le_refl _⟩

theorem Adv.trans {a b c : Scanner} (h₁ : Adv a b) (h₂ : Adv b c) : Adv a c := by
  obtain ⟨s1, c1, b1, l1, n1⟩ := h₁
  obtain ⟨s2, c2, b2, l2, n2⟩ := h₂
  rw [s1] at b2 n2
  exact ⟨s2.trans s1, Nat.le_trans c1 c2, fun h => b2 (b1 h), Nat.le_trans l1 l2, by omega⟩

/-- consuming one character that is there -/
theorem Adv.one {s : Scanner} {c : Char} (h : s.src[s.current]? = some c) :
    Adv s { s with current := s.current + 1 } := by
  have hlt : s.current < s.src.size := by
    rcases Nat.lt_or_ge s.current s.src.size with h' | h'
    · exact h'
    · rw [Array.getElem?_eq_none h'] at h; cases h
  refine ⟨rfl, Nat.le_add_right _ 1, fun _ => hlt, Nat.le_refl _, ?_⟩
  have := nlUpTo_mono s.src (Nat.le_add_right s.current 1)
  simp only; omega

/-- consuming a newline and counting it -/
theorem Adv.newline {s : Scanner} (h : s.src[s.current]? = some '\n') :
    Adv s { s with current := s.current + 1, line := s.line + 1 } := by
  have hlt : s.current < s.src.size := by
    rcases Nat.lt_or_ge s.current s.src.size with h' | h'
    · exact h'
    · rw [Array.getElem?_eq_none h'] at h; cases h
  refine ⟨rfl, Nat.le_add_right _ 1, fun _ => hlt, Nat.le_add_right _ 1, ?_⟩
  have := nlUpTo_succ_of_some h
  simp only [if_true] at this
  simp only; omega

theorem Adv.setStart {s s' : Scanner} (h : Adv s s') (n : Nat) : Adv s { s' with start := n } :=
  ⟨h.src, h.cur, h.bound, h.line, h.nl⟩

theorem Adv.setParens {s s' : Scanner} (h : Adv s s') (p : List Nat) : Adv s { s' with parens := p } :=
  ⟨h.src, h.cur, h.bound, h.line, h.nl⟩

theorem Adv.ofStart {s s' : Scanner} (n : Nat) (h : Adv { s with start := n } s') : Adv s s' :=
  ⟨h.src, h.cur, h.bound, h.line, h.nl⟩

theorem Adv.ofParens {s s' : Scanner} (p : List Nat) (h : Adv { s with parens := p } s') : Adv s s' :=
  ⟨h.src, h.cur, h.bound, h.line, h.nl⟩

/-! ### The helpers -/

theorem advance_adv (s : Scanner) : Adv s s.advance.2 := by
  unfold advance
  split
  · next c h => exact Adv.one h
  · exact Adv.refl s

/-- consuming a line end and counting it (whatever the consumer then does with the character) -/
theorem advance_newline_adv (s : Scanner) (h : s.advance.1 = some '\n') :
    Adv s { s.advance.2 with line := s.advance.2.line + 1 } := by
  cases hq : s.src[s.current]? with
  | none => simp [advance, hq] at h
  | some c =>
    have hc : c = '\n' := by simpa [advance, hq] using h
    subst hc
    have := Adv.newline hq
    simpa [advance, hq] using this

theorem advance_some {s : Scanner} {c : Char} {s' : Scanner} (h : s.advance = (some c, s')) :
    s'.current = s.current + 1 ∧ Adv s s' := by
  unfold advance at h
  split at h
  · next d hd =>
    cases h
    exact ⟨rfl, Adv.one hd⟩
  · cases h

theorem advance_none {s : Scanner} {s' : Scanner} (h : s.advance = (none, s')) : s' = s := by
  unfold advance at h
  split at h
  · cases h
  · cases h; rfl

theorem matchChar_adv (s : Scanner) (c : Char) : Adv s (s.matchChar c).2 := by
  unfold matchChar
  split
  · next d h =>
    split
    · exact Adv.one h
    · exact Adv.refl s
  · exact Adv.refl s

theorem skipLineComment_adv (n : Nat) (s : Scanner) : Adv s (skipLineComment n s) := by
  induction n generalizing s with
  | zero => exact Adv.refl s
  | succ n ih =>
    unfold skipLineComment
    split
    · exact Adv.refl s
    · exact Adv.refl s
    · next c _ h => exact (Adv.one (c := c) h).trans (ih _)

theorem skipWhitespace_adv (n : Nat) (s : Scanner) : Adv s (skipWhitespace n s) := by
  induction n generalizing s with
  | zero => exact Adv.refl s
  | succ n ih =>
    unfold skipWhitespace
    split
    · exact Adv.refl s
    · next h => exact (Adv.one (c := ' ') h).trans (ih _)
    · next h => exact (Adv.one (c := '\r') h).trans (ih _)
    · next h => exact (Adv.one (c := '\t') h).trans (ih _)
    · next h => exact (Adv.newline h).trans (ih _)
    · split
      · exact (skipLineComment_adv _ s).trans (ih _)
      · exact Adv.refl s
    · exact Adv.refl s

theorem identTail_adv (n : Nat) (s : Scanner) : Adv s (identTail n s) := by
  induction n generalizing s with
  | zero => exact Adv.refl s
  | succ n ih =>
    unfold identTail
    split
    · next c h =>
      split
      · exact (Adv.one (c := c) h).trans (ih _)
      · exact Adv.refl s
    · exact Adv.refl s

theorem digitsTail_adv (n : Nat) (s : Scanner) : Adv s (digitsTail n s) := by
  induction n generalizing s with
  | zero => exact Adv.refl s
  | succ n ih =>
    unfold digitsTail
    split
    · next c h =>
      split
      · exact (Adv.one (c := c) h).trans (ih _)
      · exact Adv.refl s
    · exact Adv.refl s

/-- consuming one character, counting it as a line when it is a line end -/
theorem Adv.oneCounting {s : Scanner} {c : Char} (h : s.src[s.current]? = some c) :
    Adv s { s with current := s.current + 1, line := if c == '\n' then s.line + 1 else s.line } := by
  by_cases hc : c = '\n'
  · subst hc
    simpa using Adv.newline h
  · have : (c == '\n') = false := by simpa using hc
    simpa [this] using Adv.one h

theorem readEscapedByte_adv (s : Scanner) : Adv s (readEscapedByte s).2 := by
  unfold readEscapedByte
  split
  · exact Adv.refl s
  · next a ha =>
    split
    · exact Adv.refl s
    · dsimp only
      split
      · exact Adv.oneCounting ha
      · next b hb =>
        split
        · exact Adv.oneCounting ha
        · exact (Adv.oneCounting ha).trans (Adv.oneCounting (s := { s with current := s.current + 1, line := if a == '\n' then s.line + 1 else s.line }) hb)

theorem readEscapedBytesAux_adv (n : Nat) (acc : List Nat) (s : Scanner) :
    Adv s (readEscapedBytesAux n acc s).2 := by
  induction n generalizing acc s with
  | zero => exact Adv.refl s
  | succ n ih =>
    unfold readEscapedBytesAux
    have h1 := readEscapedByte_adv s
    split
    · next b s' h => rw [h] at h1; exact h1.trans (ih _ _)
    · next s' h => rw [h] at h1; exact h1

theorem readEscapedBytes_adv (s : Scanner) (k : Nat) : Adv s (readEscapedBytes s k).2 := by
  unfold readEscapedBytes
  have h1 := readEscapedBytesAux_adv k [] s
  split
  · next s' h => rw [h] at h1; exact h1
  · next bs s' h => rw [h] at h1; exact h1

end Scanner
end Yarel.Spec
