/-
`parseDec` succeeds exactly on the grammar `wellFormed`.
-/
import Yarel.Spec.NumGrammar
import Yarel.Proofs.NumTextDigits

namespace Yarel.NumText
open Yarel.F64

theorem splitSign_snd (s : List Char) : (splitSign s).2 = stripSign s := by
  cases s with
  | nil => rfl
  | cons c t =>
    by_cases h1 : c = '-'
    · subst h1; rfl
    · by_cases h2 : c = '+'
      · subst h2; rfl
      · unfold splitSign stripSign isSign
        split
        · rename_i heq; cases heq; exact absurd rfl h1
        · rename_i heq; cases heq; exact absurd rfl h2
        · simp [h1, h2]

theorem digit_not_expMark (c : Char) (h : isDigit c = true) : isExpMark c = false := by
  rcases isDigit_cases c h with h | h | h | h | h | h | h | h | h | h <;> subst h <;> rfl

theorem dot_not_digit' : isDigit '.' = false := by decide

theorem digit_ne_dot (c : Char) (h : isDigit c = true) : c ≠ '.' := by
  intro hc; subst hc; exact absurd h (by decide)

/-- `parseExp` succeeds iff the text is empty or an exponent marker followed by a well-formed exponent. -/
theorem parseExp_isSome (r : List Char) :
    (parseExp r).isSome = match r with
      | [] => true
      | c :: x => isExpMark c && wfExponent x := by
  cases r with
  | nil => rfl
  | cons c x =>
    unfold parseExp isExpMark wfExponent
    have hs : (splitSign x).2 = stripSign x := splitSign_snd x
    by_cases hc : c = 'e' ∨ c = 'E'
    · have : (c == 'e' || c == 'E') = true := by simpa using hc
      simp only [hc, if_true, this, Bool.true_and]
      rw [← hs]
      cases h : (!(splitSign x).2.isEmpty && (splitSign x).2.all isDigit) <;> simp
    · have : (c == 'e' || c == 'E') = false := by simpa using hc
      simp [hc, this]

/-! ### generic span facts -/

theorem all_takeWhile {α} (p : α → Bool) (l : List α) : (l.takeWhile p).all p = true := by
  induction l with
  | nil => rfl
  | cons a t ih => rw [List.takeWhile_cons]; split <;> simp_all

theorem head_dropWhile {α} (p : α → Bool) (l : List α) (c : α) (t : List α)
    (h : l.dropWhile p = c :: t) : p c = false := by
  induction l with
  | nil => cases h
  | cons a l ih =>
    rw [List.dropWhile_cons] at h
    split at h
    · exact ih h
    · rename_i hp; cases h; simpa using hp

theorem span_append {α} (q : α → Bool) (a b : List α) (h : a.all q = true) :
    (a ++ b).takeWhile q = a ++ b.takeWhile q ∧ (a ++ b).dropWhile q = b.dropWhile q := by
  induction a with
  | nil => simp
  | cons x xs ih =>
    simp only [List.all_cons, Bool.and_eq_true] at h
    simp [h.1, ih h.2]

theorem span_stop {α} (q : α → Bool) (c : α) (t : List α) (h : q c = false) :
    (c :: t).takeWhile q = [] ∧ (c :: t).dropWhile q = c :: t := by
  simp [h]

/-! ### mantissa facts -/

def dd (c : Char) : Bool := isDigit c || c == '.'
def ne (c : Char) : Bool := !isExpMark c

theorem digits_all_dd (l : List Char) (h : l.all isDigit = true) : l.all dd = true := by
  rw [List.all_eq_true] at h ⊢; intro c hc; unfold dd; rw [h c hc]; rfl

theorem digits_all_ne (l : List Char) (h : l.all isDigit = true) : l.all ne = true := by
  rw [List.all_eq_true] at h ⊢; intro c hc; unfold ne; rw [digit_not_expMark c (h c hc)]; rfl

theorem digits_count_dot (l : List Char) (h : l.all isDigit = true) : l.count '.' = 0 := by
  rw [List.count_eq_zero]
  intro hm
  exact digit_ne_dot _ (List.all_eq_true.1 h _ hm) rfl

theorem digits_any (l : List Char) (h : l.all isDigit = true) : l.any isDigit = !l.isEmpty := by
  cases l with
  | nil => rfl
  | cons a t => simp only [List.all_cons, Bool.and_eq_true] at h; simp [h.1]

theorem wfMantissa_eq (m : List Char) :
    wfMantissa m = (m.all dd && decide (m.count '.' ≤ 1) && m.any isDigit) := rfl

theorem core_isSome (ip fp r2 : List Char) :
    (if (ip.isEmpty && fp.isEmpty) = true then (none : Option (Nat × Int)) else
      match parseExp r2 with
      | none => none
      | some x => some (digitsVal 0 (ip ++ fp), x - (fp.length : Int))).isSome
    = (!(ip.isEmpty && fp.isEmpty) && (parseExp r2).isSome) := by
  cases h : (ip.isEmpty && fp.isEmpty) <;> cases h2 : parseExp r2 <;> simp

/-- Boolean form of the parser's success condition. -/
theorem parseNumber_form (r : List Char) :
    (parseNumber r).isSome =
      (!((r.takeWhile isDigit).isEmpty &&
          (match r.dropWhile isDigit with | '.' :: t => t.takeWhile isDigit | _ => []).isEmpty) &&
        (parseExp (match r.dropWhile isDigit with | '.' :: t => t.dropWhile isDigit | _ => r.dropWhile isDigit)).isSome) := by
  unfold parseNumber
  exact core_isSome _ _ _

theorem wfNumber_append (ip m : List Char) (hip : ip.all isDigit = true) :
    wfNumber (ip ++ m) =
      ((m.takeWhile ne).all dd && decide ((m.takeWhile ne).count '.' ≤ 1) &&
          (!ip.isEmpty || (m.takeWhile ne).any isDigit) &&
        match m.dropWhile ne with
        | [] => true
        | _ :: x => wfExponent x) := by
  unfold wfNumber
  have h := span_append ne ip m (digits_all_ne ip hip)
  change (List.takeWhile ne (ip ++ m)) = _ ∧ (List.dropWhile ne (ip ++ m)) = _ at h
  change (wfMantissa (List.takeWhile ne (ip ++ m)) && match List.dropWhile ne (ip ++ m) with
    | [] => true | _ :: x => wfExponent x) = _
  rw [h.1, h.2, wfMantissa_eq, List.all_append, List.count_append, List.any_append,
    digits_all_dd ip hip, digits_count_dot ip hip, digits_any ip hip]
  simp

theorem dot_ne : ne '.' = true := by decide
theorem dot_dd : dd '.' = true := by decide

theorem parseNumber_isSome (r : List Char) : (parseNumber r).isSome = wfNumber r := by
  rw [parseNumber_form]
  have hr : r.takeWhile isDigit ++ r.dropWhile isDigit = r := List.takeWhile_append_dropWhile
  have hip := all_takeWhile isDigit r
  have hhd := head_dropWhile isDigit r
  generalize r.takeWhile isDigit = ip at *
  generalize r.dropWhile isDigit = r1 at *
  subst hr
  rw [wfNumber_append ip r1 hip]
  cases r1 with
  | nil => simp [parseExp]
  | cons c t =>
    have hc : isDigit c = false := hhd c t rfl
    by_cases hdot : c = '.'
    · subst hdot
      simp only
      have ht : t.takeWhile isDigit ++ t.dropWhile isDigit = t := List.takeWhile_append_dropWhile
      have hfp := all_takeWhile isDigit t
      have hhd2 := head_dropWhile isDigit t
      generalize t.takeWhile isDigit = fp at *
      generalize t.dropWhile isDigit = r2 at *
      subst ht
      have hall : ('.' :: fp).all ne = true := by
        rw [List.all_cons, dot_ne, digits_all_ne fp hfp]; rfl
      have hs := span_append ne ('.' :: fp) r2 hall
      rw [List.cons_append] at hs
      rw [hs.1, hs.2]
      cases r2 with
      | nil =>
        simp [parseExp, digits_all_dd fp hfp, digits_count_dot fp hfp, digits_any fp hfp, dot_dd, dot_not_digit']
      | cons d t2 =>
        have hd : isDigit d = false := hhd2 d t2 rfl
        rw [parseExp_isSome]
        by_cases he : isExpMark d = true
        · have hne : ne d = false := by unfold ne; rw [he]; rfl
          have h2 := span_stop ne d t2 hne
          rw [h2.1, h2.2]
          simp [he, digits_all_dd fp hfp, digits_count_dot fp hfp, digits_any fp hfp, dot_dd, dot_not_digit']
        · have he' : isExpMark d = false := by simpa using he
          have hne : ne d = true := by unfold ne; rw [he']; rfl
          simp only [he', Bool.false_and, Bool.and_false]
          rw [List.takeWhile_cons, if_pos hne]
          symm
          by_cases hdd : d = '.'
          · subst hdd
            simp [List.count_append]
          · have : dd d = false := by unfold dd; rw [hd]; simp [hdd]
            simp [List.all_append, this]
    · have hmatch : (match c :: t with | '.' :: t => List.takeWhile isDigit t | _ => []) = [] := by
        split
        · rename_i heq; cases heq; exact absurd rfl hdot
        · rfl
      have hmatch2 : (match c :: t with | '.' :: t => List.dropWhile isDigit t | _ => c :: t) = c :: t := by
        split
        · rename_i heq; cases heq; exact absurd rfl hdot
        · rfl
      rw [hmatch, hmatch2, parseExp_isSome]
      by_cases he : isExpMark c = true
      · have hne : ne c = false := by unfold ne; rw [he]; rfl
        have h2 := span_stop ne c t hne
        rw [h2.1, h2.2]
        simp [he]
      · have he' : isExpMark c = false := by simpa using he
        have hne : ne c = true := by unfold ne; rw [he']; rfl
        rw [List.takeWhile_cons, if_pos hne]
        have : dd c = false := by unfold dd; rw [hc]; simp [hdot]
        simp [he', this]

theorem wfSpecial_eq (r : List Char) : wfSpecial r = (isInfText r || isNanText r) := rfl

/-- **Grammar side of parsing**: `parseDec` returns a value exactly on the well-formed texts. -/
theorem parseDec_isSome (s : List Char) : (parseDec s).isSome = wellFormed s := by
  unfold parseDec wellFormed
  rw [← splitSign_snd s, wfSpecial_eq]
  generalize splitSign s = p
  obtain ⟨neg, r⟩ := p
  simp only
  cases h1 : isInfText r
  · cases h2 : isNanText r
    · simp only [Bool.false_eq_true, if_false, Bool.or_false, Bool.false_or]
      rw [← parseNumber_isSome]
      cases parseNumber r <;> rfl
    · simp
  · simp

end Yarel.NumText
