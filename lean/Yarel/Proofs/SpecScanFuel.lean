/-
The fuels of the INNER loops of the spec scanner (`skipWhitespace`, `skipLineComment`, `identTail`,
`digitsTail`, `stringBody`) never bind either: with `remaining characters + 1` iterations the result
does not depend on additional fuel.  `scanToken` passes at least that much to each of them.
-/
import Yarel.Proofs.SpecScanToken

namespace Yarel.Spec
namespace Scanner

/-- enough fuel for a loop that consumes at least one character per iteration -/
def FuelOk (n : Nat) (s : Scanner) : Prop := s.src.size - s.current + 1 ≤ n

theorem FuelOk.step {n : Nat} {s s' : Scanner} (h : FuelOk (n + 1) s) (hs : s.current ≤ s.src.size)
    (ha : Adv s s') (hc : s.current < s'.current) : FuelOk n s' := by
  have := ha.bound hs
  unfold FuelOk at *
  rw [ha.src]; omega

theorem lt_size_of_peek {s : Scanner} {c : Char} (h : s.peek = some c) : s.current < s.src.size := by
  unfold peek at h
  rcases Nat.lt_or_ge s.current s.src.size with h' | h'
  · exact h'
  · rw [Array.getElem?_eq_none h'] at h; cases h

theorem FuelOk.one {n : Nat} {s : Scanner} (h : FuelOk (n + 1) s) {c : Char} (hp : s.peek = some c) :
    FuelOk n { s with current := s.current + 1 } := by
  have := lt_size_of_peek hp
  unfold FuelOk at *
  simp only; omega

theorem FuelOk.oneLine {n : Nat} {s : Scanner} (h : FuelOk (n + 1) s) {c : Char} (hp : s.peek = some c)
    (l : Nat) : FuelOk n { s with current := s.current + 1, line := l } := by
  have := lt_size_of_peek hp
  unfold FuelOk at *
  simp only; omega

theorem skipLineComment_fuel (n k : Nat) (s : Scanner) (h : FuelOk n s) :
    skipLineComment (n + k) s = skipLineComment n s := by
  induction n generalizing s with
  | zero => unfold FuelOk at h; omega
  | succ n ih =>
    rw [show n + 1 + k = (n + k) + 1 by omega]
    unfold skipLineComment
    split
    · rfl
    · rfl
    · next c _ hp => exact ih _ (h.one hp)

theorem skipWhitespace_fuel (n k : Nat) (s : Scanner) (h : FuelOk n s) :
    skipWhitespace (n + k) s = skipWhitespace n s := by
  induction n generalizing s with
  | zero => unfold FuelOk at h; omega
  | succ n ih =>
    rw [show n + 1 + k = (n + k) + 1 by omega]
    unfold skipWhitespace
    split
    · rfl
    · next hp => exact ih _ (h.one hp)
    · next hp => exact ih _ (h.one hp)
    · next hp => exact ih _ (h.one hp)
    · next hp => exact ih _ (h.oneLine hp _)
    · next hp =>
      split
      · -- a comment: `skipLineComment` consumes at least the first '/'
        apply ih
        have h1 : Adv { s with current := s.current + 1 } (skipLineComment s.src.size
            { s with current := s.current + 1 }) := skipLineComment_adv _ _
        have h2 : skipLineComment (s.src.size + 1) s =
            skipLineComment s.src.size { s with current := s.current + 1 } := by
          rw [skipLineComment]
          split
          · next hn => rw [hp] at hn; cases hn
          · next hn => rw [hp] at hn; exact absurd hn (by decide)
          · rfl
        rw [h2]
        refine h.step (Nat.le_of_lt (lt_size_of_peek hp)) ((Adv.one hp).trans h1) ?_
        have := h1.cur
        simp only at this
        omega
      · rfl
    · rfl

theorem identTail_fuel (n k : Nat) (s : Scanner) (h : FuelOk n s) :
    identTail (n + k) s = identTail n s := by
  induction n generalizing s with
  | zero => unfold FuelOk at h; omega
  | succ n ih =>
    rw [show n + 1 + k = (n + k) + 1 by omega]
    unfold identTail
    split
    · next c hp =>
      split
      · exact ih _ (h.one hp)
      · rfl
    · rfl

theorem digitsTail_fuel (n k : Nat) (s : Scanner) (h : FuelOk n s) :
    digitsTail (n + k) s = digitsTail n s := by
  induction n generalizing s with
  | zero => unfold FuelOk at h; omega
  | succ n ih =>
    rw [show n + 1 + k = (n + k) + 1 by omega]
    unfold digitsTail
    split
    · next c hp =>
      split
      · exact ih _ (h.one hp)
      · rfl
    · rfl

theorem stringBody_fuel (n k : Nat) : ∀ (s : Scanner) (buf : List Char) (err : Option String),
    FuelOk n s → stringBody (n + k) s buf err = stringBody n s buf err := by
  induction n with
  | zero => intro s _ _ h; unfold FuelOk at h; omega
  | succ n ih =>
    intro s buf err h
    rw [show n + 1 + k = (n + k) + 1 by omega]
    unfold stringBody
    split
    · rfl
    · rfl
    · rfl
    · next hq =>
      -- escape: at least the backslash is consumed before the recursive call
      have hs := Nat.le_of_lt (lt_size_of_peek hq)
      have h1 : Adv s { s with current := s.current + 1 } := Adv.one hq
      dsimp only
      have h2 := h1.trans (advance_adv { s with current := s.current + 1 })
      have c2 : s.current < ({ s with current := s.current + 1 } : Scanner).advance.snd.current := by
        have := (advance_adv { s with current := s.current + 1 }).cur
        simp only at this; omega
      have f2 := h.step hs h2 c2
      have esc : ∀ j, FuelOk n (readEscapedBytes
          ({ s with current := s.current + 1 } : Scanner).advance.snd j).2 := by
        intro j
        refine h.step hs (h2.trans (readEscapedBytes_adv _ j)) ?_
        have := (readEscapedBytes_adv ({ s with current := s.current + 1 } : Scanner).advance.snd j).cur
        omega
      split
      any_goals exact ih _ _ _ f2
      · have h3 := esc 2
        split
        · next hh => rw [hh] at h3; exact ih _ _ _ h3
        · next hh => rw [hh] at h3; exact ih _ _ _ h3
      · have h3 := esc 4
        split
        · next hh => rw [hh] at h3; exact ih _ _ _ h3
        · next hh => rw [hh] at h3; exact ih _ _ _ h3
      · have h3 := esc 1
        split
        · next hh => rw [hh] at h3; exact ih _ _ _ h3
        · next hh => rw [hh] at h3; exact ih _ _ _ h3
      · rfl
    · next hq => exact ih _ _ _ (h.oneLine hq _)
    · next c _ _ _ _ hq => exact ih _ _ _ (h.one hq)

/-- **Inner fuels never bind**: the fuels `scanToken` passes to its loops are sufficient — adding more
changes nothing (for a scanner positioned inside its text). -/
theorem inner_fuels_enough (s : Scanner) (k : Nat) :
    skipWhitespace (s.src.size + 1 + k) s = skipWhitespace (s.src.size + 1) s ∧
    skipLineComment (s.src.size + 1 + k) s = skipLineComment (s.src.size + 1) s ∧
    identTail (s.src.size + 1 + k) s = identTail (s.src.size + 1) s ∧
    digitsTail (s.src.size + 1 + k) s = digitsTail (s.src.size + 1) s ∧
    ∀ buf err, stringBody (s.src.size + 2 + k) s buf err = stringBody (s.src.size + 2) s buf err := by
  have h1 : FuelOk (s.src.size + 1) s := by unfold FuelOk; omega
  have h2 : FuelOk (s.src.size + 2) s := by unfold FuelOk; omega
  exact ⟨skipWhitespace_fuel _ _ _ h1, skipLineComment_fuel _ _ _ h1, identTail_fuel _ _ _ h1,
    digitsTail_fuel _ _ _ h1, fun _ _ => stringBody_fuel _ _ _ _ _ h2⟩

end Scanner
end Yarel.Spec
