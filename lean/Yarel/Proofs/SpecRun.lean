/-
Fuel lemmas for the spec machine (`State.run`): finished states are fixed points of `step` and `run`,
and once an outcome is there more fuel changes nothing.
-/
import Yarel.Spec.Interp

namespace Yarel.Spec
namespace State

theorem step_of_outcome_some {st : State} {o : Outcome} (h : st.outcome = some o) : step st = st := by
  unfold step; rw [h]

theorem run_of_outcome_some {st : State} {o : Outcome} (h : st.outcome = some o) (n : Nat) :
    run n st = st := by
  cases n with
  | zero => rfl
  | succ n => unfold run; rw [h]

theorem run_succ_of_outcome_none {st : State} (h : st.outcome = none) (n : Nat) :
    run (n + 1) st = run n (step st) := by
  rw [run]; rw [h]

/-- `run` is iterated `step` (the test for a finished state is redundant with the one in `step`). -/
theorem run_succ (n : Nat) (st : State) : run (n + 1) st = run n (step st) := by
  cases h : st.outcome with
  | none => exact run_succ_of_outcome_none h n
  | some o => rw [step_of_outcome_some h, run_of_outcome_some h, run_of_outcome_some h]

theorem run_add (k n : Nat) (st : State) : run (n + k) st = run k (run n st) := by
  induction n generalizing st with
  | zero => simp [run]
  | succ n ih => rw [show n + 1 + k = (n + k) + 1 by omega, run_succ, run_succ, ih]

theorem run_stable {n : Nat} {st : State} {o : Outcome} (h : (run n st).outcome = some o)
    {m : Nat} (hm : n ≤ m) : run m st = run n st := by
  obtain ⟨k, rfl⟩ := Nat.exists_eq_add_of_le hm
  rw [run_add, run_of_outcome_some h]

/-- the last part of `runSnippet`: turn the outcome of the run into the answer -/
def snippetAnswer (st : State) : SnippetResult × State :=
  match st.outcome with
  | some .ok => (.ok, st)
  | some (.error k msgs) => (.error k msgs, st)
  | some .timeout => (.timeout, st)
  | some (.fault m) => (.fault m, st)
  | none => (.timeout, st.halt .timeout)

/-- the state `runSnippet` starts from -/
def snippetStart (st : State) : State :=
  { st with printed := #[], outcome := none, heap := { st.heap with unordered := false } }

theorem runSnippet_eq (st : State) (source : String) (fuel : Nat) (compileOnly : Bool) :
    st.runSnippet source fuel compileOnly =
      match compileWith st.tbl source "main" with
      | .error msgs => (.error .compileError msgs, snippetStart st)
      | .ok script =>
        if compileOnly then (.ok, snippetStart st)
        else snippetAnswer (run fuel ((snippetStart st).execute script)) := by
  unfold runSnippet
  dsimp only
  cases compileWith st.tbl source "main" with
  | error msgs => rfl
  | ok script =>
    dsimp only
    cases compileOnly with
    | true => rfl
    | false =>
      simp only [Bool.false_eq_true, if_false]
      unfold snippetAnswer snippetStart
      split <;> simp only [*]

theorem outcome_of_snippetAnswer_ne_timeout {st : State} (h : (snippetAnswer st).1 ≠ .timeout) :
    ∃ o, st.outcome = some o := by
  unfold snippetAnswer at h
  cases ho : st.outcome with
  | some o => exact ⟨o, rfl⟩
  | none => rw [ho] at h; exact absurd rfl h

end State
end Yarel.Spec
