/-
Linear probing on a single table: specification of `findIndex`, the table invariant `TInv`
(distinct keys + probe-chain property), and the fact that writing an entry at the slot returned by
`findIndex` preserves it.
-/
import Yarel.Model.Intern

namespace Yarel.Intern

abbrev Table := Array (Option Entry)

/-! ### modular arithmetic helpers (capacity `c` is a variable, so `omega` needs these) -/

theorem add_mod_cases (h d c : Nat) (hh : h < c) (hd : d < c) :
    (h + d) % c = if h + d < c then h + d else h + d - c := by
  split
  · exact Nat.mod_eq_of_lt ‹_›
  · rw [Nat.mod_eq_sub_mod (by omega)]
    exact Nat.mod_eq_of_lt (by omega)

theorem dist_cases (h i c : Nat) (hh : h < c) (hi : i < c) :
    (i + c - h) % c = if h ≤ i then i - h else i + c - h := by
  split
  · have : i + c - h = (i - h) + c := by omega
    rw [this, Nat.add_mod_right]
    exact Nat.mod_eq_of_lt (by omega)
  · exact Nat.mod_eq_of_lt (by omega)

theorem dist_lt (h i c : Nat) (hc : 0 < c) : (i + c - h) % c < c := Nat.mod_lt _ hc

/-- walking `dist h i` steps from `h` arrives at `i`. -/
theorem add_dist (h i c : Nat) (hh : h < c) (hi : i < c) :
    (h + (i + c - h) % c) % c = i := by
  have hd := dist_lt h i c (by omega)
  rw [add_mod_cases h _ c hh hd, dist_cases h i c hh hi]
  split <;> split <;> omega

/-- the distance from `h` to the slot reached after `d` steps is `d`. -/
theorem dist_add (h d c : Nat) (hh : h < c) (hd : d < c) :
    ((h + d) % c + c - h) % c = d := by
  have hj : (h + d) % c < c := Nat.mod_lt _ (by omega)
  rw [dist_cases h _ c hh hj, add_mod_cases h d c hh hd]
  split <;> split <;> omega

/-- `&&& mask` is `% capacity` when the capacity is a power of two and `mask = capacity - 1`. -/
theorem and_mask (x k mask c : Nat) (hc : c = 2 ^ k) (hm : mask + 1 = c) : x &&& mask = x % c := by
  have : mask = 2 ^ k - 1 := by omega
  rw [this, hc]
  exact Nat.and_two_pow_sub_one_eq_mod x k

/-! ### specification of the probe loop -/

/-- the loop stops at slot `j`: empty, or holds the key. -/
def StopAt (es : Table) (hash : UInt64) (text : List UInt8) (j : Nat) : Prop :=
  es[j]? = some none ∨ ∃ e, es[j]? = some (some e) ∧ e.hash = hash ∧ e.text = text

/-- the loop passes slot `j`: occupied by a different key. -/
def PassAt (es : Table) (hash : UInt64) (text : List UInt8) (j : Nat) : Prop :=
  ∃ e, es[j]? = some (some e) ∧ ¬(e.hash = hash ∧ e.text = text)

theorem findIndexAux_sound (es : Table) (hash : UInt64) (text : List UInt8) (mask k : Nat)
    (hc : es.size = 2 ^ k) (hm : mask + 1 = es.size) :
    ∀ fuel i j, i < es.size → findIndexAux es hash text mask fuel i = .ok j →
      ∃ d, d < fuel ∧ j = (i + d) % es.size ∧ StopAt es hash text j ∧
        ∀ d', d' < d → PassAt es hash text ((i + d') % es.size) := by
  intro fuel
  induction fuel with
  | zero => intro i j _ h; simp [findIndexAux] at h
  | succ n ih =>
    intro i j hi h
    unfold findIndexAux at h
    split at h
    · cases h
    · rename_i hslot
      cases h
      refine ⟨0, by omega, by simp [Nat.mod_eq_of_lt hi], Or.inl hslot, ?_⟩
      intro d' hd'; omega
    · rename_i e hslot
      split at h
      · rename_i hkey
        cases h
        refine ⟨0, by omega, by simp [Nat.mod_eq_of_lt hi], Or.inr ⟨e, hslot, hkey⟩, ?_⟩
        intro d' hd'; omega
      · rename_i hkey
        rw [and_mask (i + 1) k mask es.size hc hm] at h
        have hpos : 0 < es.size := by omega
        obtain ⟨d, hd, hj, hstop, hpass⟩ := ih ((i + 1) % es.size) j (Nat.mod_lt _ hpos) h
        refine ⟨d + 1, by omega, ?_, hstop, ?_⟩
        · rw [hj, Nat.mod_add_mod]; congr 1; omega
        · intro d' hd'
          cases d' with
          | zero =>
            have h0 : (i + 0) % es.size = i := by simp [Nat.mod_eq_of_lt hi]
            rw [h0]; exact ⟨e, hslot, hkey⟩
          | succ d'' =>
            have := hpass d'' (by omega)
            rw [Nat.mod_add_mod] at this
            have heq : i + 1 + d'' = i + (d'' + 1) := by omega
            rwa [heq] at this

theorem findIndexAux_complete (es : Table) (hash : UInt64) (text : List UInt8) (mask k : Nat)
    (hc : es.size = 2 ^ k) (hm : mask + 1 = es.size) :
    ∀ fuel i, i < es.size → (∃ d, d < fuel ∧ StopAt es hash text ((i + d) % es.size)) →
      ∃ j, findIndexAux es hash text mask fuel i = .ok j := by
  intro fuel
  induction fuel with
  | zero => intro i _ ⟨d, hd, _⟩; omega
  | succ n ih =>
    intro i hi ⟨d, hd, hstop⟩
    unfold findIndexAux
    split
    · rename_i hslot
      rw [Array.getElem?_eq_getElem hi] at hslot; cases hslot
    · exact ⟨i, rfl⟩
    · rename_i e hslot
      split
      · exact ⟨i, rfl⟩
      · rename_i hkey
        rw [and_mask (i + 1) k mask es.size hc hm]
        have hpos : 0 < es.size := by omega
        apply ih _ (Nat.mod_lt _ hpos)
        cases d with
        | zero =>
          exfalso
          simp only [Nat.add_zero, Nat.mod_eq_of_lt hi] at hstop
          rcases hstop with h0 | ⟨e', he', hk'⟩
          · rw [hslot] at h0; cases h0
          · rw [hslot] at he'; cases he'; exact hkey hk'
        | succ d' =>
          refine ⟨d', by omega, ?_⟩
          rw [Nat.mod_add_mod]
          have heq : i + 1 + d' = i + (d' + 1) := by omega
          rwa [heq]

/-! ### the table invariant -/

/-- `e` is stored somewhere in the table. -/
def Mem (es : Table) (e : Entry) : Prop := ∃ i : Nat, es[i]? = some (some e)

/-- some slot is empty. -/
def HasEmpty (es : Table) : Prop := ∃ i : Nat, es[i]? = some none

/-- number of occupied slots. -/
def occupied (es : Table) : Nat := es.countP Option.isSome

/-- Table invariant: capacity a power of two `≥ 4`, keys `(hash, text)` pairwise distinct, and the
probe-chain property: between an entry's home slot and its slot (cyclically) everything is occupied. -/
structure TInv (es : Table) : Prop where
  cap : ∃ k, es.size = 2 ^ (k + 2)
  distinct : ∀ (i j : Nat) (e₁ e₂ : Entry), es[i]? = some (some e₁) → es[j]? = some (some e₂) →
    e₁.hash = e₂.hash → e₁.text = e₂.text → i = j
  chain : ∀ (i : Nat) (e : Entry), es[i]? = some (some e) →
    ∀ d, d < (i + es.size - e.hash.toNat % es.size) % es.size →
      ∃ e', es[(e.hash.toNat % es.size + d) % es.size]? = some (some e')

theorem TInv.size_pos {es : Table} (h : TInv es) : 0 < es.size := by
  obtain ⟨k, hk⟩ := h.cap
  rw [hk]; exact Nat.two_pow_pos _

theorem lt_size_of_getElem? {es : Table} {i : Nat} {x : Option Entry} (h : es[i]? = some x) :
    i < es.size := by
  rcases Nat.lt_or_ge i es.size with hlt | hge
  · exact hlt
  · rw [Array.getElem?_eq_none hge] at h; cases h

theorem hasEmpty_of_occupied_lt {es : Table} (h : occupied es < es.size) : HasEmpty es := by
  apply Classical.byContradiction
  intro hne
  have : occupied es = es.size := by
    unfold occupied
    rw [Array.countP_eq_size]
    intro a ha
    obtain ⟨i, hi, rfl⟩ := Array.getElem_of_mem ha
    cases hx : es[i] with
    | some _ => rfl
    | none =>
      exfalso; apply hne
      exact ⟨i, by rw [Array.getElem?_eq_getElem hi, hx]⟩
  omega

/-- What `findIndex` returns on a table satisfying the invariant (with its own mask): it never runs
out of fuel, the index is in bounds, and it is either an empty slot – and then the key is absent
from the whole table – or a slot holding the key. -/
theorem findIndex_spec {es : Table} (hinv : TInv es) (hempty : HasEmpty es) (mask : Nat)
    (hm : mask + 1 = es.size) (hash : UInt64) (text : List UInt8) :
    ∃ j, findIndex es hash text mask = .ok j ∧ j < es.size ∧
      ∃ d, d < es.size ∧ j = (hash.toNat % es.size + d) % es.size ∧
        (∀ d', d' < d → ∃ e', es[(hash.toNat % es.size + d') % es.size]? = some (some e')) ∧
        ((es[j]? = some none ∧ ∀ e, Mem es e → ¬(e.hash = hash ∧ e.text = text)) ∨
         (∃ e, es[j]? = some (some e) ∧ e.hash = hash ∧ e.text = text)) := by
  obtain ⟨k, hk⟩ := hinv.cap
  have hpos := hinv.size_pos
  have hh : hash.toNat % es.size < es.size := Nat.mod_lt _ hpos
  obtain ⟨i0, hi0⟩ := hempty
  have hi0lt := lt_size_of_getElem? hi0
  have hex : ∃ j, findIndex es hash text mask = .ok j := by
    unfold findIndex
    rw [and_mask _ (k + 2) mask es.size hk hm]
    apply findIndexAux_complete es hash text mask (k + 2) hk hm _ _ hh
    refine ⟨(i0 + es.size - hash.toNat % es.size) % es.size, dist_lt _ _ _ hpos, ?_⟩
    rw [add_dist _ _ _ hh hi0lt]
    exact Or.inl hi0
  obtain ⟨j, hj⟩ := hex
  have hj' := hj
  unfold findIndex at hj'
  rw [and_mask _ (k + 2) mask es.size hk hm] at hj'
  obtain ⟨d, hd, hjd, hstop, hpass⟩ :=
    findIndexAux_sound es hash text mask (k + 2) hk hm _ _ j hh hj'
  have hjlt : j < es.size := by rw [hjd]; exact Nat.mod_lt _ hpos
  refine ⟨j, hj, hjlt, d, hd, hjd, ?_, ?_⟩
  · intro d' hd'
    obtain ⟨e', he', _⟩ := hpass d' hd'
    exact ⟨e', he'⟩
  · rcases hstop with hnone | hsome
    · left
      refine ⟨hnone, ?_⟩
      intro e ⟨i, hi⟩ ⟨hkh, hkt⟩
      have hilt := lt_size_of_getElem? hi
      have hchain := hinv.chain i e hi
      rw [hkh] at hchain
      have hdi := add_dist _ _ _ hh hilt
      rcases Nat.lt_trichotomy d ((i + es.size - hash.toNat % es.size) % es.size) with hlt | heq | hgt
      · obtain ⟨e', he'⟩ := hchain d hlt
        rw [← hjd, hnone] at he'; cases he'
      · rw [heq, hdi] at hjd
        rw [hjd, hi] at hnone; cases hnone
      · obtain ⟨e', he', hne⟩ := hpass _ hgt
        rw [hdi, hi] at he'
        cases he'
        exact hne ⟨hkh, hkt⟩
    · right; exact hsome

/-! ### writing at the found slot -/

theorem getElem?_set_mono {es : Table} {j : Nat} (hj : j < es.size) (e : Entry) {x : Nat}
    (h : ∃ e', es[x]? = some (some e')) : ∃ e', (es.set j (some e) hj)[x]? = some (some e') := by
  rw [Array.getElem?_set]
  split
  · exact ⟨e, rfl⟩
  · exact h

/-- Result of `es.set j (some e)` where `j = findIndex es e.hash e.text`. -/
theorem put_spec {es : Table} (hinv : TInv es) (hempty : HasEmpty es) (mask : Nat)
    (hm : mask + 1 = es.size) (e : Entry) :
    ∃ j, findIndex es e.hash e.text mask = .ok j ∧ ∃ hj : j < es.size,
      TInv (es.set j (some e) hj) ∧
      (∀ x, Mem (es.set j (some e) hj) x ↔
        (x = e ∨ (Mem es x ∧ ¬(x.hash = e.hash ∧ x.text = e.text)))) ∧
      (es[j].isNone = true ↔ ∀ x, Mem es x → ¬(x.hash = e.hash ∧ x.text = e.text)) ∧
      occupied (es.set j (some e) hj) = occupied es + (if es[j].isNone then 1 else 0) := by
  obtain ⟨j, hfind, hj, d, hd, hjd, hbefore, hres⟩ :=
    findIndex_spec hinv hempty mask hm e.hash e.text
  have hpos := hinv.size_pos
  have hh : e.hash.toNat % es.size < es.size := Nat.mod_lt _ hpos
  -- any old entry with the key of `e` sits at slot `j`
  have hkeyslot : ∀ (i : Nat) (x : Entry), es[i]? = some (some x) → x.hash = e.hash → x.text = e.text → i = j := by
    intro i x hi hxh hxt
    rcases hres with ⟨_, habs⟩ | ⟨e'', he'', hkh, hkt⟩
    · exact absurd ⟨hxh, hxt⟩ (habs x ⟨i, hi⟩)
    · exact hinv.distinct i j x e'' hi he'' (by rw [hxh, hkh]) (by rw [hxt, hkt])
  refine ⟨j, hfind, hj, ?_, ?_, ?_, ?_⟩
  · constructor
    · simpa using hinv.cap
    · intro i₁ i₂ e₁ e₂ h₁ h₂ hkh hkt
      rw [Array.getElem?_set] at h₁ h₂
      split at h₁ <;> split at h₂
      · omega
      · cases h₁
        have := hkeyslot i₂ e₂ h₂ hkh.symm hkt.symm
        omega
      · cases h₂
        have := hkeyslot i₁ e₁ h₁ hkh hkt
        omega
      · exact hinv.distinct i₁ i₂ e₁ e₂ h₁ h₂ hkh hkt
    · intro i x hi dd hdd
      simp only [Array.size_set] at hdd ⊢
      apply getElem?_set_mono
      rw [Array.getElem?_set] at hi
      split at hi
      · rename_i hji
        cases hi
        subst hji
        rw [hjd, dist_add _ _ _ hh hd] at hdd
        exact hbefore dd hdd
      · exact hinv.chain i x hi dd hdd
  · intro x
    constructor
    · rintro ⟨i, hi⟩
      rw [Array.getElem?_set] at hi
      split at hi
      · cases hi; exact Or.inl rfl
      · rename_i hne
        right
        refine ⟨⟨i, hi⟩, ?_⟩
        rintro ⟨hxh, hxt⟩
        exact hne (hkeyslot i x hi hxh hxt).symm
    · rintro (rfl | ⟨⟨i, hi⟩, hne⟩)
      · exact ⟨j, by rw [Array.getElem?_set]; simp⟩
      · refine ⟨i, ?_⟩
        rw [Array.getElem?_set]
        split
        · rename_i hji
          subst hji
          exfalso
          rcases hres with ⟨hnone, _⟩ | ⟨e'', he'', hk⟩
          · rw [hi] at hnone; cases hnone
          · rw [hi] at he''; cases he''; exact hne hk
        · exact hi
  · rw [Array.getElem?_eq_getElem hj] at hres
    constructor
    · intro hnone
      rcases hres with ⟨_, habs⟩ | ⟨e'', he'', _⟩
      · exact habs
      · simp only [Option.some.injEq] at he''
        rw [he''] at hnone; cases hnone
    · intro habs
      rcases hres with ⟨hnone, _⟩ | ⟨e'', he'', hk⟩
      · simp only [Option.some.injEq] at hnone
        rw [hnone]; rfl
      · exact absurd hk (habs e'' ⟨j, by rw [Array.getElem?_eq_getElem hj]; exact he''⟩)
  · unfold occupied
    rw [Array.countP_set]
    have hle : (if es[j].isSome = true then 1 else 0) ≤ Array.countP Option.isSome es := by
      split
      · rename_i hs
        exact Array.countP_pos_iff.mpr ⟨es[j], Array.getElem_mem hj, hs⟩
      · omega
    cases hx : es[j] with
    | none => simp
    | some y =>
      simp only [hx, Option.isSome_some, if_true] at hle
      simp only [Option.isSome_some, Option.isNone_some, if_true]
      simp only [Bool.false_eq_true, if_false]
      omega

end Yarel.Intern
