/-
Arithmetic of the compiler's jump emission (`compiler.rs`): `emit_jump` + `Compiler::patch_jump`
(forward jumps, also used for `break`), `emit_loop` (backward jumps) and `patch_offset_at`
(`PushExcHandler` operands), against how the VM decodes the operand (`read_short`, u16).

`common::JUMP_SIZE_MAX = u16::MAX as usize = 65535` (tied to the regenerated `Yarel.Gen.limits` by `Props/C04.lean`
`jump_limit_is_the_sources`) and every check is `distance > JUMP_SIZE_MAX`, so every accepted distance fits the u16 operand.
(Before the repair F9 the constant was 65536: a distance of exactly 65536 was accepted and truncated to 0.)
`usize` subtraction that would underflow (panic in debug builds, wrap in release) is an explicit `fault`.
-/
namespace Yarel.JumpLimits

def JUMP_SIZE_MAX : Nat := 65535

inductive Emit where
  | fault                     -- usize underflow in the distance computation
  | tooLarge                  -- compile error (`JumpTooLarge` / "Loop body too large." / "Too much code in block.")
  | ok (operand : Nat)        -- the u16 written into the code
  deriving DecidableEq, Repr

/-- `Compiler::patch_jump(offset)`: `offset` is where the two placeholder bytes of the jump sit, `len` the
current code length (= the intended target). `jump = len - offset - 2`. -/
def patchJump (len offset : Nat) : Emit :=
  if len < offset + 2 then .fault
  else
    let jump := len - offset - 2
    if jump > JUMP_SIZE_MAX then .tooLarge else .ok (jump % 65536)

/-- Where the VM goes for `Jump`/`JumpIfFalse`/`JumpIfStopIter` whose operand bytes sit at `offset`:
the pc after the operand plus the operand. -/
def forwardTarget (offset operand : Nat) : Nat := offset + 2 + operand

/-- `emit_loop(loop_start)`: `len` is the code length AFTER the `Loop` opcode byte has been written;
`offset = len - loop_start + 2`. -/
def emitLoop (len loopStart : Nat) : Emit :=
  if len < loopStart then .fault
  else
    let offset := len - loopStart + 2
    if offset > JUMP_SIZE_MAX then .tooLarge else .ok (offset % 65536)

/-- Where the VM goes for that `Loop`: the pc after the operand (`len + 2`) minus the operand. -/
def loopTarget (len operand : Nat) : Nat := len + 2 - operand

/-- `patch_offset_at(pos, offset)`: `jump = len - offset`. -/
def patchOffsetAt (len offset : Nat) : Emit :=
  if len < offset then .fault
  else
    let jump := len - offset
    if jump > JUMP_SIZE_MAX then .tooLarge else .ok (jump % 65536)

end Yarel.JumpLimits
