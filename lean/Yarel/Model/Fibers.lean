/-
Mechanism model of fiber switching in the yarel VM.

Transcribed from
  vm.rs    `Vm::{execute, load_fiber, unload_fiber, return_impl, reset_stack, runtime_error,
                 active_fiber, active_fiber_mut, load_frame}`
  core.rs  `fiber_init` (Fiber.new), `fiber_call` (call), `fiber_yield` (Fiber.yield)
  object.rs `ObjFiber::{new, is_new, has_finished}`

The Rust VM keeps TWO designators of the running fiber: `fiber: Option<Root<RefCell<ObjFiber>>>` and the raw
`unsafe_fiber: *mut ObjFiber`. `active_fiber()`/`active_fiber_mut()` go through `fiber` in checked builds
(`debug_assertions` or feature `safe_active_fiber`) and through `unsafe_fiber` otherwise. The model keeps
both and every operation takes the `Build`, so that agreement of the two is a theorem, not an assumption.

Fibers live in a list; a fiber id is its index (a `Gc` pointer that is valid; a bad index is `Fault.badId`).
Each fiber embeds the `Handlers.Fiber` record (value stack, frame count, exception handlers, pending
return data), so "a switch touches nothing else" can be stated about all of it.

Core Lean only.
-/
import Yarel.Model.Handlers

namespace Yarel.Fibers

open Yarel.Handlers (Handler)

structure Fiber where
  /-- stack / frames / handlers / return data (see `Handlers.Fiber`). -/
  st : Handlers.Fiber
  /-- `frames.last().ip`, as an offset into that frame's chunk; `0` = the first instruction. Meaningful
  while the fiber is suspended: it is the resume point. -/
  savedIp : Nat
  caller : Option Nat
  /-- `frames[0].closure` (only its identity). -/
  closure : Nat
deriving DecidableEq, Repr

/-- `ObjFiber::new`: one frame at the entry of the closure, empty stack, no caller. -/
def Fiber.fresh (closure : Nat) : Fiber :=
  { st := { stack := [], frames := 1, handlers := [], returnIp := none, returnValue := .nil, errorIp := none },
    savedIp := 0, caller := none, closure := closure }

/-- `ObjFiber::is_new`: `frames.len() == 1 && frames[0].ip == chunk start`. -/
def Fiber.isNew (f : Fiber) : Bool := f.st.frames == 1 && f.savedIp == 0

/-- `ObjFiber::has_finished`: `frames.is_empty()`. -/
def Fiber.hasFinished (f : Fiber) : Bool := f.st.frames == 0

inductive Build where
  | checked      -- debug_assertions or feature safe_active_fiber
  | unchecked
deriving DecidableEq, Repr

structure Vm where
  fibers : List Fiber
  /-- `Vm::fiber`. -/
  fiber : Option Nat
  /-- `Vm::unsafe_fiber`; `none` = null. -/
  unsafeFiber : Option Nat
  /-- `Vm::handling_exception`. -/
  handling : Bool
  /-- `Vm::ip` (offset in the active chunk). -/
  pc : Nat
deriving DecidableEq, Repr

/-- `Vm::new`. -/
def Vm.fresh : Vm := { fibers := [], fiber := none, unsafeFiber := none, handling := false, pc := 0 }

/-- The fiber `active_fiber()` denotes in the given build. -/
def Vm.active (b : Build) (vm : Vm) : Option Nat :=
  match b with
  | .checked => vm.fiber
  | .unchecked => vm.unsafeFiber

inductive Err where
  | finished        -- RuntimeError "Cannot call a finished fiber."
  | alreadyCalled   -- RuntimeError "Cannot call a fiber that has already been called."
  | yieldFromRoot   -- RuntimeError "Cannot yield from module-level code."
  | arity           -- TypeError "Expected {} arguments but found {}." (execute)
deriving DecidableEq, Repr

def Err.msg : Err → String
  | .finished => "Cannot call a finished fiber."
  | .alreadyCalled => "Cannot call a fiber that has already been called."
  | .yieldFromRoot => "Cannot yield from module-level code."
  | .arity => "Expected {} arguments but found {}."

inductive Fault where
  | badId         -- dangling fiber pointer
  | noActive      -- `fiber.unwrap()` on None / null `unsafe_fiber`
  | emptyStack    -- `pop().expect(..)`, `peek`/`poke` on an empty stack
  | noFrame       -- `current_frame().unwrap()` on a finished fiber
  | notLastFrame  -- not a panic: `finish` was applied to a fiber with more than one frame (outside its domain)
deriving DecidableEq, Repr

inductive Res where
  | ok (vm : Vm)
  /-- the operation returned `Err(..)`; `vm` is the state it left behind. -/
  | error (e : Err) (vm : Vm)
  /-- `return_impl` returned `Some(value)`: the root fiber finished, `run` returns. -/
  | done (v : Val) (vm : Vm)
  | fault (f : Fault)
deriving DecidableEq, Repr

/-- `fiber_init` / `new_root_obj_fiber`: allocate a fiber; returns its id. -/
def newFiber (vm : Vm) (closure : Nat) : Vm × Nat :=
  ({ vm with fibers := vm.fibers ++ [Fiber.fresh closure] }, vm.fibers.length)

/-- `poke(0, v)` on a stack. -/
def pokeTop (s : List Val) (v : Val) : Option (List Val) :=
  if s = [] then none else some (s.dropLast ++ [v])

/-- The CURRENT fiber after `if popArg { self.pop(); }` and, if `saveIp`,
`current_frame_mut().unwrap().ip = self.ip`. -/
def leftFiber (fb : Fiber) (popArg saveIp : Bool) (pc : Nat) : Fiber :=
  { fb with
    st := { fb.st with stack := if popArg then fb.st.stack.dropLast else fb.st.stack },
    savedIp := if saveIp then pc else fb.savedIp }

/-- The part of `load_fiber`/`unload_fiber` that runs on the CURRENT fiber before the switch, with its
panics: `pop().expect("Expected Value.")` and `current_frame_mut().unwrap()`. -/
def leave (fb : Fiber) (popArg saveIp : Bool) (pc : Nat) : Except Fault Fiber :=
  if popArg && fb.st.stack = [] then .error .emptyStack
  else if saveIp && fb.st.frames = 0 then .error .noFrame
  else .ok (leftFiber fb popArg saveIp pc)

/-- The first half of `load_fiber`, on the CURRENT fiber:
`if self.fiber.is_some() { if arg.is_some() { self.pop(); } active_fiber_mut().current_frame_mut().unwrap().ip = self.ip; }` -/
def leaveCurrent (b : Build) (vm : Vm) (popArg : Bool) : Except Fault (List Fiber) :=
  if vm.fiber.isSome then
    match vm.active b with
    | none => .error .noActive
    | some a =>
      match vm.fibers[a]? with
      | none => .error .badId
      | some cur =>
        match leave cur popArg true vm.pc with
        | .ok cur' => .ok (vm.fibers.set a cur')
        | .error e => .error e
  else .ok vm.fibers

/-- What the TARGET of `load_fiber` finds on its stack.
New fiber: `push(closure); if let Some(arg) = arg { push(arg) }`.
Resumed fiber, code as it is (`repaired = false`): `else if let Some(arg) = arg { self.poke(0, arg) }` —
with no argument the slot keeps whatever it held.
Resumed fiber, repaired: `poke(0, arg.unwrap_or_default())`. -/
def handOver (repaired : Bool) (t : Fiber) (arg : Option Val) : Option (List Val) :=
  if t.isNew then some (t.st.stack ++ [Val.closure t.closure] ++ arg.toList)
  else
    match arg with
    | some a => pokeTop t.st.stack a
    | none => if repaired then pokeTop t.st.stack .nil else some t.st.stack

/-- The second half of `load_fiber`: `self.unsafe_fiber = fiber; let caller = self.fiber.replace(fiber);
active_fiber_mut().caller = caller;` hand-over; `load_frame()`. -/
def switchTo (repaired : Bool) (vm : Vm) (fibers1 : List Fiber) (f : Nat) (arg : Option Val) : Res :=
  match fibers1[f]? with
  | none => .fault .badId
  | some t =>
    match handOver repaired t arg with
    | none => .fault .emptyStack
    | some s =>
      .ok { vm with
        fibers := fibers1.set f { t with caller := vm.fiber, st := { t.st with stack := s } },
        fiber := some f, unsafeFiber := some f, pc := t.savedIp }

/-- `Vm::load_fiber(fiber, arg)`.
`repaired = false` is the code as it is; `repaired = true` the variant with
`poke(0, arg.unwrap_or_default())` on resume (see `handOver`). -/
def load (b : Build) (repaired : Bool) (vm : Vm) (f : Nat) (arg : Option Val) : Res :=
  match vm.fibers[f]? with
  | none => .fault .badId
  | some tgt =>
    if tgt.hasFinished then .error .finished vm
    else if tgt.caller.isSome then .error .alreadyCalled vm
    else
      match leaveCurrent b vm arg.isSome with
      | .error e => .fault e
      | .ok fibers1 => switchTo repaired vm fibers1 f arg

/-- The second half of `unload_fiber`, once the caller `c` is known:
`let mut current = self.fiber.replace(caller); self.unsafe_fiber = caller; current.unwrap().caller = None;`
(that is the fiber `self.fiber` designated, whatever the build) then
`self.poke(0, arg.unwrap_or_default()); self.load_frame();` on the caller. -/
def switchBack (vm : Vm) (fibers1 : List Fiber) (c : Nat) (arg : Option Val) : Res :=
  match vm.fiber with
  | none => .fault .noActive
  | some old =>
    match fibers1[old]? with
    | none => .fault .badId
    | some o =>
      match (fibers1.set old { o with caller := none })[c]? with
      | none => .fault .badId
      | some cf =>
        match pokeTop cf.st.stack (arg.getD .nil) with
        | none => .fault .emptyStack
        | some s =>
          if cf.st.frames = 0 then .fault .noFrame
          else
            .ok { vm with
              fibers := (fibers1.set old { o with caller := none }).set c { cf with st := { cf.st with stack := s } },
              fiber := some c, unsafeFiber := some c, pc := cf.savedIp }

/-- `Vm::unload_fiber(arg)`. NOTE the order in the Rust code: the argument is popped and the ip saved
BEFORE the caller is inspected, so the error exit leaves those two effects behind. -/
def unload (b : Build) (vm : Vm) (arg : Option Val) : Res :=
  match vm.active b with
  | none => .fault .noActive
  | some a =>
    match vm.fibers[a]? with
    | none => .fault .badId
    | some cur =>
      match leave cur arg.isSome (!cur.hasFinished) vm.pc with
      | .error e => .fault e
      | .ok cur' =>
        match cur'.caller with
        | none => .error .yieldFromRoot { vm with fibers := vm.fibers.set a cur' }
        | some c => switchBack vm (vm.fibers.set a cur') c arg

/-- `self.poke(0, v)` on the active fiber. -/
def pokeActive (b : Build) (vm : Vm) (v : Val) : Res :=
  match vm.active b with
  | none => .fault .noActive
  | some c =>
    match vm.fibers[c]? with
    | none => .fault .badId
    | some cf =>
      match pokeTop cf.st.stack v with
      | none => .fault .emptyStack
      | some s => .ok { vm with fibers := vm.fibers.set c { cf with st := { cf.st with stack := s } } }

/-- `result = self.pop(); … self.active_fiber_mut().frames.pop();` for a fiber with exactly one frame. -/
def popLastFrame (cur : Fiber) : Fiber :=
  { cur with st := { cur.st with stack := cur.st.stack.dropLast, frames := 0 } }

/-- `Vm::return_impl` when the frame being left is the LAST one of the active fiber (`frames == 1`):
`result = pop(); frames.pop();` then, the fiber having finished: with a caller `unload_fiber(None)?` and
`poke(0, result)`; without one (root) `return Ok(Some(self.pop()))` — which pops ONE MORE value and
returns that one. With `frames > 1` `return_impl` is an ordinary return inside the fiber, no switch; that is
outside this operation (`Fault.notLastFrame`) and covered by `Reachable.local` in the proofs. -/
def finish (b : Build) (vm : Vm) : Res :=
  match vm.active b with
  | none => .fault .noActive
  | some a =>
    match vm.fibers[a]? with
    | none => .fault .badId
    | some cur =>
      match cur.st.stack.getLast? with
      | none => .fault .emptyStack
      | some result =>
        if cur.st.frames = 0 then .fault .noFrame
        else if cur.st.frames ≠ 1 then .fault .notLastFrame
        else
          match cur.caller with
          | some _ =>
            match unload b { vm with fibers := vm.fibers.set a (popLastFrame cur) } none with
            | .ok vm2 => pokeActive b vm2 result
            | r => r
          | none =>
            match (popLastFrame cur).st.stack.getLast? with
            | none => .fault .emptyStack
            | some w =>
              .done w { vm with fibers := vm.fibers.set a (popLastFrame (popLastFrame cur)) }

/-- `Vm::execute` up to the point where `run()` starts: `self.ip = null; self.fiber = None;` (NOTE:
`unsafe_fiber` is NOT cleared), a new fiber for the script closure, the argument-count check, then
`load_fiber(fiber, None)`. Returns the root id as well. -/
def execute (b : Build) (vm : Vm) (closure : Nat) (arityOk : Bool) : Res × Nat :=
  if !arityOk then (.error .arity (newFiber { vm with pc := 0, fiber := none } closure).1, vm.fibers.length)
  else (load b false (newFiber { vm with pc := 0, fiber := none } closure).1 vm.fibers.length none,
        vm.fibers.length)

/-- `Vm::runtime_error` → `reset_stack`: the stack and the frames of the fiber `self.fiber` designates are
cleared. Nothing else is: caller links, handlers and `handling_exception` stay as they are. -/
def abort (vm : Vm) : Vm :=
  match vm.fiber with
  | none => vm
  | some a =>
    match vm.fibers[a]? with
    | none => vm
    | some cur => { vm with fibers := vm.fibers.set a { cur with st := { cur.st with stack := [], frames := 0 } } }

/-- A handler operation (`Handlers.step`) executed by the active fiber: the VM registers `handling`/`pc`
and the active fiber's record go in, and come back out. -/
def handlerOp (b : Build) (vm : Vm) (op : Handlers.Op) : Option (Handlers.Res × Vm) :=
  match vm.active b with
  | none => none
  | some a =>
    match vm.fibers[a]? with
    | none => none
    | some cur =>
      match Handlers.step { fb := cur.st, handling := vm.handling, pc := vm.pc } op with
      | .ok m' =>
        some (.ok m', { vm with fibers := vm.fibers.set a { cur with st := m'.fb }, handling := m'.handling, pc := m'.pc })
      | .ended v m' =>
        some (.ended v m', { vm with fibers := vm.fibers.set a { cur with st := m'.fb }, handling := m'.handling, pc := m'.pc })
      | .fault e => some (.fault e, vm)

/-! ### the caller chain -/

/-- Follow `caller` links from `f` for at most `fuel` fibers; `none` if no end is reached. -/
def chainFrom (fs : List Fiber) : Nat → Nat → Option (List Nat)
  | 0, _ => none
  | fuel + 1, f =>
    match fs[f]? with
    | none => none
    | some fb =>
      match fb.caller with
      | none => some [f]
      | some c =>
        match chainFrom fs fuel c with
        | some l => some (f :: l)
        | none => none

/-- The chain of the running fiber (fuel = number of fibers: enough for every duplicate-free chain). -/
def Vm.chain (vm : Vm) : Option (List Nat) :=
  match vm.fiber with
  | none => none
  | some a => chainFrom vm.fibers vm.fibers.length a

end Yarel.Fibers
