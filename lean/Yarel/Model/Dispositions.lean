/-
Committed disposition table for the panic-site inventory (properties C02 "running a program never panics…" and
C03 "compilation is total…").

`Gen.panicSites` (regenerated from the Rust source on every run) lists every place where the interpreter can panic or
invoke undefined behaviour: `unwrap`, `expect`, indexing, slicing, raw-pointer `offset`, `*_unchecked`, `unsafe` blocks
and the macros `panic! unreachable! unimplemented! todo! assert*!`.  This file says, for EVERY such site, why it is not a
reachable failure — or that it is one (`ledger`) — or that only dynamic checking covers it (`dynamicOnly`).
Props/SitesInventory.lean proves that the table covers the generated list exactly, so a NEW site in the source breaks
the build until somebody adds a line here.

Key = (file, enclosing fn, kind, ordinal of that kind within the fn).  Ordinals shift when a site is inserted before
another one of the same kind in the same function: re-check the dispositions of that function then.

The initial table was produced by a script from Gen/facts.json and then reviewed against the source function by
function (2026-09-24, /repo HEAD 08684a1); from now on it is maintained by hand.

Dispositions are deliberately conservative: `excludedByLemma` names a theorem that exists in this project and says in
words which hypothesis of it the site relies on; arguments that were only made by reading the code (pairing invariants
of the compiler, "this Option is set at startup") are `dynamicOnly` with the argument as reason, i.e. they are covered
by the C02/C03 dynamic checks only.

NOT in the inventory (xlate does not list them): arithmetic overflow (`a - b` on usize panics in builds with overflow
checks), `RefCell` double borrows, allocation failure, native stack overflow (F5, F7).

Core Lean only (no Mathlib): the table is data.
-/
namespace Yarel.Dispositions

inductive Disposition where
  /-- cannot happen on bytecode accepted by the verifier (C04: `verify_sound`/`verify_progress`: operand in range,
  constant of the right kind, heights, handler present, jump inside the code, byte is an opcode) -/
  | excludedByVerifiedBytecode
  /-- excluded by the named theorem of this project (text after the colon: what the site needs from it) -/
  | excludedByLemma (name : String)
  /-- the site IS a deliberate guard that only exists in checked builds (`cfg!(any(debug_assertions, feature = "safe_*"))`) -/
  | guardedCheckedBuild
  /-- runs once in `Vm::new` with fixed inputs (every run of anything exercises it) -/
  | startupOnly
  /-- a known, reproduced defect: the site is reachable; see the ledger entry -/
  | ledger (id : String)
  /-- no proof: an invariant argued by reading the code (stated as reason); covered by the dynamic checks only -/
  | dynamicOnly (reason : String)
  /-- cannot fail for a reason visible at the site itself, without any invariant on program state: constant index
  into a fixed-size array, `write!` into a `String`, an index bounded by the loop range or by a test of the same
  value immediately before.  (Added to the requested set to keep `dynamicOnly` meaningful.) -/
  | infallible (why : String)
deriving DecidableEq, Repr

abbrev Key := String × String × String × Nat
abbrev Entry := String × String × String × Nat × Disposition

def Entry.key (e : Entry) : Key := (e.1, e.2.1, e.2.2.1, e.2.2.2.1)
def Entry.disposition (e : Entry) : Disposition := e.2.2.2.2

/-- Files whose sites belong to compilation (C03). -/
def compileTimeFiles : List String := ["scanner.rs", "compiler.rs", "chunk.rs"]

/-- Files only compiled into output-only debug features. -/
def debugOnlyFiles : List String := ["debug.rs"]

/-- Files whose sites belong to running a program (C02). -/
def runTimeFiles : List String :=
  ["vm.rs", "core.rs", "object.rs", "value.rs", "stack.rs", "utils.rs", "memory.rs", "hash.rs", "class_store.rs",
   "common.rs", "error.rs", "lib.rs"]

/-- chunk.rs: 2 sites -/
def sitesChunk : List Entry :=
  [ ("chunk.rs", "<OpCode as From<u8>>::from", "panic!", 0, .dynamicOnly "only caller is debug.rs (output-only features); on verified bytecode every opcode byte is < 65 (OpcodeTable.opcode_bytes_dense)")
  , ("chunk.rs", "Chunk::code_offset", "index", 0, .excludedByLemma "ChunkLines.finalised_code_nonempty: the chunk of a call frame ends with Return, so code[0] exists")
  ]

/-- compiler.rs: 40 sites -/
def sitesCompiler : List Entry :=
  [ ("compiler.rs", "<Precedence as From<usize>>::from", "panic!", 0, .excludedByLemma "C05Tables.binary_prec_succ_ok")
  , ("compiler.rs", "Compiler::mark_initialised", "index", 0, .dynamicOnly "index = locals.len()-1 taken in for_statement before parsing the iterable expression, which cannot pop locals of this compiler; C03 fuzzing")
  , ("compiler.rs", "Compiler::mark_last_initialised", "unwrap", 0, .dynamicOnly "invariant: locals always keeps slot 0 (Compiler::new; emit_scope_end never pops depth 0)")
  , ("compiler.rs", "Compiler::patch_jump", "index", 0, .excludedByLemma "ChunkLines.patch_after_emit_ok")
  , ("compiler.rs", "Compiler::patch_jump", "index", 1, .infallible "constant index 0/1 into a [u8; 2] (to_ne_bytes / array parameter)")
  , ("compiler.rs", "Compiler::patch_jump", "index", 2, .excludedByLemma "ChunkLines.patch_after_emit_ok")
  , ("compiler.rs", "Compiler::patch_jump", "index", 3, .infallible "constant index 0/1 into a [u8; 2] (to_ne_bytes / array parameter)")
  , ("compiler.rs", "Compiler::pop_loop", "expect", 0, .dynamicOnly "invariant: break_stack is pushed/popped together with loop_stack (push_loop/pop_loop paired in while_statement/for_statement)")
  , ("compiler.rs", "Parser::finalise_compiler", "expect", 0, .dynamicOnly "invariant: Parser.compilers is non-empty between Parser::new and the last finalise_compiler (new_compiler/finalise_compiler are paired); C03 fuzzing")
  , ("compiler.rs", "Parser::class_declaration", "index", 0, .infallible "take_attribute(name, 1) returns Some only when arguments.len() == 1")
  , ("compiler.rs", "Parser::class_declaration", "index", 1, .infallible "take_attribute(name, 1) returns Some only when arguments.len() == 1")
  , ("compiler.rs", "Parser::class_declaration", "unwrap", 0, .dynamicOnly "invariant: class_compilers was pushed earlier in this call; nested class declarations push/pop in pairs")
  , ("compiler.rs", "Parser::class_declaration", "unwrap", 1, .dynamicOnly "invariant: class_compilers was pushed earlier in this call; nested class declarations push/pop in pairs")
  , ("compiler.rs", "Parser::for_statement", "expect", 0, .infallible "current_loop_header() right after push_loop() in the same function")
  , ("compiler.rs", "Parser::emit_bytes", "index", 0, .infallible "constant index 0/1 into a [u8; 2] (to_ne_bytes / array parameter)")
  , ("compiler.rs", "Parser::emit_bytes", "index", 1, .infallible "constant index 0/1 into a [u8; 2] (to_ne_bytes / array parameter)")
  , ("compiler.rs", "Parser::emit_loop", "index", 0, .infallible "constant index 0/1 into a [u8; 2] (to_ne_bytes / array parameter)")
  , ("compiler.rs", "Parser::emit_loop", "index", 1, .infallible "constant index 0/1 into a [u8; 2] (to_ne_bytes / array parameter)")
  , ("compiler.rs", "Parser::emit_scope_end", "unwrap", 0, .dynamicOnly "invariant: a local has depth None only while its own initialiser expression is parsed, and no scope ends inside an expression (lambdas use their own Compiler); C03 fuzzing")
  , ("compiler.rs", "Parser::patch_offset_at", "index", 0, .excludedByLemma "ChunkLines.patch_offset_after_emit_ok")
  , ("compiler.rs", "Parser::patch_offset_at", "index", 1, .infallible "constant index 0/1 into a [u8; 2] (to_ne_bytes / array parameter)")
  , ("compiler.rs", "Parser::patch_offset_at", "index", 2, .excludedByLemma "ChunkLines.patch_offset_after_emit_ok")
  , ("compiler.rs", "Parser::patch_offset_at", "index", 3, .infallible "constant index 0/1 into a [u8; 2] (to_ne_bytes / array parameter)")
  , ("compiler.rs", "Parser::parse_precedence", "unwrap", 0, .excludedByLemma "C05Tables.infix_defined_loop")
  , ("compiler.rs", "Parser::declare_variable", "unwrap", 0, .dynamicOnly "invariant: Parser.compilers is non-empty between Parser::new and the last finalise_compiler (new_compiler/finalise_compiler are paired); C03 fuzzing")
  , ("compiler.rs", "Parser::declare_variable", "unwrap", 1, .dynamicOnly "invariant: Parser.compilers is non-empty between Parser::new and the last finalise_compiler (new_compiler/finalise_compiler are paired); C03 fuzzing")
  , ("compiler.rs", "Parser::get_rule", "index", 0, .excludedByLemma "C05Tables.rules_cover_token_kinds")
  , ("compiler.rs", "Parser::error_at", "unwrap", 0, .infallible "write! into a String cannot fail")
  , ("compiler.rs", "Parser::error_at", "unwrap", 1, .infallible "write! into a String cannot fail")
  , ("compiler.rs", "Parser::error_at", "unwrap", 2, .infallible "write! into a String cannot fail")
  , ("compiler.rs", "Parser::error_at", "unwrap", 3, .infallible "write! into a String cannot fail")
  , ("compiler.rs", "Parser::resolve_upvalue", "index", 0, .dynamicOnly "guard: compilers.len() >= 2 checked first; enclosing < len-1, compiler < len, index returned by resolve_local of that same compiler")
  , ("compiler.rs", "Parser::resolve_upvalue", "index", 1, .dynamicOnly "guard: compilers.len() >= 2 checked first; enclosing < len-1, compiler < len, index returned by resolve_local of that same compiler")
  , ("compiler.rs", "Parser::resolve_upvalue", "index", 2, .dynamicOnly "guard: compilers.len() >= 2 checked first; enclosing < len-1, compiler < len, index returned by resolve_local of that same compiler")
  , ("compiler.rs", "Parser::resolve_upvalue", "index", 3, .dynamicOnly "guard: compilers.len() >= 2 checked first; enclosing < len-1, compiler < len, index returned by resolve_local of that same compiler")
  , ("compiler.rs", "Parser::binary_assign", "unreachable!", 0, .dynamicOnly "guard in callers: only called after match_binary_assignment() consumed one of the ten compound-assignment tokens the match lists")
  , ("compiler.rs", "Parser::compiler", "unwrap", 0, .dynamicOnly "invariant: Parser.compilers is non-empty between Parser::new and the last finalise_compiler (new_compiler/finalise_compiler are paired); C03 fuzzing")
  , ("compiler.rs", "Parser::compiler_mut", "unwrap", 0, .dynamicOnly "invariant: Parser.compilers is non-empty between Parser::new and the last finalise_compiler (new_compiler/finalise_compiler are paired); C03 fuzzing")
  , ("compiler.rs", "Parser::super_", "unwrap", 0, .infallible "else-branch of class_compilers.is_empty()")
  , ("compiler.rs", "Parser::super_", "index", 0, .dynamicOnly "invariant: locals always keeps slot 0 (Compiler::new)")
  ]

/-- core.rs: 42 sites -/
def sitesCore : List Entry :=
  [ ("core.rs", "bind_type_class", "expect", 0, .startupOnly)
  , ("core.rs", "bind_gc_obj_string_class", "expect", 0, .startupOnly)
  , ("core.rs", "string_from_utf8", "index", 0, .excludedByLemma "C13.no_fault (callStatic from_utf8: valid_up_to() < len)")
  , ("core.rs", "string_iter", "expect", 0, .ledger "F4")
  , ("core.rs", "string_len", "expect", 0, .ledger "F4")
  , ("core.rs", "string_is_alpha", "expect", 0, .ledger "F4")
  , ("core.rs", "string_is_digit", "expect", 0, .ledger "F4")
  , ("core.rs", "string_is_hexdigit", "expect", 0, .ledger "F4")
  , ("core.rs", "string_count_chars", "expect", 0, .ledger "F4")
  , ("core.rs", "string_char_byte_index", "expect", 0, .ledger "F4")
  , ("core.rs", "string_find", "expect", 0, .ledger "F4")
  , ("core.rs", "string_find", "slice", 0, .excludedByLemma "C13.no_fault")
  , ("core.rs", "string_replace", "expect", 0, .ledger "F4")
  , ("core.rs", "string_split", "expect", 0, .ledger "F4")
  , ("core.rs", "string_starts_with", "expect", 0, .ledger "F4")
  , ("core.rs", "string_ends_with", "expect", 0, .ledger "F4")
  , ("core.rs", "string_to_num", "expect", 0, .ledger "F4")
  , ("core.rs", "string_to_bytes", "expect", 0, .ledger "F4")
  , ("core.rs", "string_to_code_points", "expect", 0, .ledger "F4")
  , ("core.rs", "string_iter_next", "expect", 0, .ledger "F4")
  , ("core.rs", "string_iter_next", "slice", 0, .excludedByLemma "C13.no_fault")
  , ("core.rs", "tuple_len", "expect", 0, .ledger "F4")
  , ("core.rs", "tuple_iter", "expect", 0, .ledger "F4")
  , ("core.rs", "tuple_iter_next", "expect", 0, .ledger "F4")
  , ("core.rs", "vec_push", "expect", 0, .ledger "F4")
  , ("core.rs", "vec_pop", "expect", 0, .ledger "F4")
  , ("core.rs", "vec_len", "expect", 0, .ledger "F4")
  , ("core.rs", "vec_iter", "expect", 0, .ledger "F4")
  , ("core.rs", "vec_iter_next", "expect", 0, .ledger "F4")
  , ("core.rs", "range_iter", "expect", 0, .ledger "F4")
  , ("core.rs", "range_iter_next", "expect", 0, .ledger "F4")
  , ("core.rs", "hash_map_has_key", "expect", 0, .ledger "F4")
  , ("core.rs", "hash_map_get", "expect", 0, .ledger "F4")
  , ("core.rs", "hash_map_insert", "expect", 0, .ledger "F4")
  , ("core.rs", "hash_map_remove", "expect", 0, .ledger "F4")
  , ("core.rs", "hash_map_clear", "expect", 0, .ledger "F4")
  , ("core.rs", "hash_map_len", "expect", 0, .ledger "F4")
  , ("core.rs", "hash_map_keys", "expect", 0, .ledger "F4")
  , ("core.rs", "hash_map_values", "expect", 0, .ledger "F4")
  , ("core.rs", "hash_map_items", "expect", 0, .ledger "F4")
  , ("core.rs", "fiber_call", "expect", 0, .ledger "F4")
  , ("core.rs", "fiber_has_finished", "expect", 0, .ledger "F4")
  ]

/-- debug.rs: 25 sites -/
def sitesDebug : List Entry :=
  [ ("debug.rs", "disassemble_instruction", "index", 0, .dynamicOnly "debug.rs is only called under feature debug_bytecode / debug_trace (output-only switches, C10.cfgTable); not part of the compared configurations")
  , ("debug.rs", "disassemble_instruction", "index", 1, .dynamicOnly "debug.rs is only called under feature debug_bytecode / debug_trace (output-only switches, C10.cfgTable); not part of the compared configurations")
  , ("debug.rs", "disassemble_instruction", "index", 2, .dynamicOnly "debug.rs is only called under feature debug_bytecode / debug_trace (output-only switches, C10.cfgTable); not part of the compared configurations")
  , ("debug.rs", "disassemble_instruction", "index", 3, .dynamicOnly "debug.rs is only called under feature debug_bytecode / debug_trace (output-only switches, C10.cfgTable); not part of the compared configurations")
  , ("debug.rs", "disassemble_instruction", "index", 4, .dynamicOnly "debug.rs is only called under feature debug_bytecode / debug_trace (output-only switches, C10.cfgTable); not part of the compared configurations")
  , ("debug.rs", "disassemble_instruction", "index", 5, .dynamicOnly "debug.rs is only called under feature debug_bytecode / debug_trace (output-only switches, C10.cfgTable); not part of the compared configurations")
  , ("debug.rs", "disassemble_instruction", "index", 6, .dynamicOnly "debug.rs is only called under feature debug_bytecode / debug_trace (output-only switches, C10.cfgTable); not part of the compared configurations")
  , ("debug.rs", "disassemble_instruction", "index", 7, .dynamicOnly "debug.rs is only called under feature debug_bytecode / debug_trace (output-only switches, C10.cfgTable); not part of the compared configurations")
  , ("debug.rs", "disassemble_instruction", "index", 8, .dynamicOnly "debug.rs is only called under feature debug_bytecode / debug_trace (output-only switches, C10.cfgTable); not part of the compared configurations")
  , ("debug.rs", "disassemble_instruction", "index", 9, .dynamicOnly "debug.rs is only called under feature debug_bytecode / debug_trace (output-only switches, C10.cfgTable); not part of the compared configurations")
  , ("debug.rs", "disassemble_instruction", "index", 10, .dynamicOnly "debug.rs is only called under feature debug_bytecode / debug_trace (output-only switches, C10.cfgTable); not part of the compared configurations")
  , ("debug.rs", "disassemble_instruction", "index", 11, .dynamicOnly "debug.rs is only called under feature debug_bytecode / debug_trace (output-only switches, C10.cfgTable); not part of the compared configurations")
  , ("debug.rs", "disassemble_instruction", "panic!", 0, .dynamicOnly "debug.rs is only called under feature debug_bytecode / debug_trace (output-only switches, C10.cfgTable); not part of the compared configurations")
  , ("debug.rs", "disassemble_instruction", "index", 12, .dynamicOnly "debug.rs is only called under feature debug_bytecode / debug_trace (output-only switches, C10.cfgTable); not part of the compared configurations")
  , ("debug.rs", "disassemble_instruction", "index", 13, .dynamicOnly "debug.rs is only called under feature debug_bytecode / debug_trace (output-only switches, C10.cfgTable); not part of the compared configurations")
  , ("debug.rs", "byte_instruction", "index", 0, .dynamicOnly "debug.rs is only called under feature debug_bytecode / debug_trace (output-only switches, C10.cfgTable); not part of the compared configurations")
  , ("debug.rs", "jump_instruction", "index", 0, .dynamicOnly "debug.rs is only called under feature debug_bytecode / debug_trace (output-only switches, C10.cfgTable); not part of the compared configurations")
  , ("debug.rs", "jump_instruction", "index", 1, .dynamicOnly "debug.rs is only called under feature debug_bytecode / debug_trace (output-only switches, C10.cfgTable); not part of the compared configurations")
  , ("debug.rs", "constant_instruction", "index", 0, .dynamicOnly "debug.rs is only called under feature debug_bytecode / debug_trace (output-only switches, C10.cfgTable); not part of the compared configurations")
  , ("debug.rs", "constant_instruction", "index", 1, .dynamicOnly "debug.rs is only called under feature debug_bytecode / debug_trace (output-only switches, C10.cfgTable); not part of the compared configurations")
  , ("debug.rs", "constant_instruction", "index", 2, .dynamicOnly "debug.rs is only called under feature debug_bytecode / debug_trace (output-only switches, C10.cfgTable); not part of the compared configurations")
  , ("debug.rs", "invoke_instruction", "index", 0, .dynamicOnly "debug.rs is only called under feature debug_bytecode / debug_trace (output-only switches, C10.cfgTable); not part of the compared configurations")
  , ("debug.rs", "invoke_instruction", "index", 1, .dynamicOnly "debug.rs is only called under feature debug_bytecode / debug_trace (output-only switches, C10.cfgTable); not part of the compared configurations")
  , ("debug.rs", "invoke_instruction", "index", 2, .dynamicOnly "debug.rs is only called under feature debug_bytecode / debug_trace (output-only switches, C10.cfgTable); not part of the compared configurations")
  , ("debug.rs", "invoke_instruction", "index", 3, .dynamicOnly "debug.rs is only called under feature debug_bytecode / debug_trace (output-only switches, C10.cfgTable); not part of the compared configurations")
  ]

/-- hash.rs: 1 sites -/
def sitesHash : List Entry :=
  [ ("hash.rs", "<PassThroughHasher as Hasher>::write", "expect", 0, .dynamicOnly "only write_u64 (Value::hash) and the usize length prefix of a tuple's Vec reach write(): 8 bytes on the 64-bit targets considered")
  ]

/-- memory.rs: 10 sites -/
def sitesMemory : List Entry :=
  [ ("memory.rs", "Root::gc_box", "unsafe_block", 0, .excludedByLemma "C16.roots_exact: an object with a live Root/UniqueRoot is never swept")
  , ("memory.rs", "UniqueRoot::gc_box", "unsafe_block", 0, .excludedByLemma "C16.roots_exact: an object with a live Root/UniqueRoot is never swept")
  , ("memory.rs", "UniqueRoot::gc_box_mut", "unsafe_block", 0, .excludedByLemma "C16.roots_exact: an object with a live Root/UniqueRoot is never swept")
  , ("memory.rs", "Gc::gc_box", "unsafe_block", 0, .excludedByLemma "C01.c01_collect_safe: an object reachable from the roots is never freed (residual: F3)")
  , ("memory.rs", "Heap::allocate_raw", "unsafe_block", 0, .infallible "pointer into a fresh Box::pin is non-null; the box stays pinned in Heap.objects")
  , ("memory.rs", "Heap::allocate_raw", "new_unchecked", 0, .infallible "pointer into a fresh Box::pin is non-null; the box stays pinned in Heap.objects")
  , ("memory.rs", "Heap::allocate_raw", "get_unchecked_mut", 0, .infallible "pointer into a fresh Box::pin is non-null; the box stays pinned in Heap.objects")
  , ("memory.rs", "Heap::allocate_raw", "unwrap", 0, .infallible "objects.last() right after objects.push(); only under feature debug_trace_gc")
  , ("memory.rs", "<&[T] as GcManaged>::mark", "index", 0, .infallible "i ranges over 0..self.len()")
  , ("memory.rs", "<&[T] as GcManaged>::blacken", "index", 0, .infallible "i ranges over 0..self.len()")
  ]

/-- object.rs: 17 sites -/
def sitesObject : List Entry :=
  [ ("object.rs", "<ObjUpvalueState as Display>::fmt", "unsafe_block", 0, .dynamicOnly "Display of an upvalue cell: cells are not first-class values, only debug formatting reaches it")
  , ("object.rs", "ObjUpvalue::get", "unsafe_block", 0, .ledger "F3")
  , ("object.rs", "ObjUpvalue::set", "unsafe_block", 0, .ledger "F3")
  , ("object.rs", "ObjVecIter::next", "index", 0, .infallible "guard on the same index immediately before (C13.no_fault elemIterNext)")
  , ("object.rs", "ObjTupleIter::next", "index", 0, .infallible "guard on the same index immediately before (C13.no_fault elemIterNext)")
  , ("object.rs", "ObjFiber::close_upvalues", "index", 0, .dynamicOnly "index <= stack height; equals STACK_MAX (index panic) only if the value stack is exactly full (F6 territory)")
  , ("object.rs", "ObjFiber::close_upvalues", "unwrap", 0, .infallible "is_some() tested in the loop condition")
  , ("object.rs", "ObjFiber::close_upvalues", "unwrap", 1, .infallible "is_some() tested in the loop condition")
  , ("object.rs", "ObjFiber::close_upvalues_for_frame", "unwrap", 0, .excludedByLemma "C09.chain_ok: the running fiber exists and every fiber on the caller chain has a frame")
  , ("object.rs", "ObjFiber::is_new", "index", 0, .infallible "frames.len() == 1 && short-circuit")
  , ("object.rs", "ObjFiber::is_new", "index", 1, .infallible "frames.len() == 1 && short-circuit")
  , ("object.rs", "ObjFiber::store_error_ip_or", "expect", 0, .excludedByLemma "C09.chain_ok: the running fiber exists and every fiber on the caller chain has a frame")
  , ("object.rs", "ObjFiber::store_error_ip_or", "expect", 1, .excludedByLemma "C09.chain_ok: the running fiber exists and every fiber on the caller chain has a frame")
  , ("object.rs", "ObjFiber::unchecked_native_frame_slot", "unwrap", 0, .dynamicOnly "host API Vm::native_arg / unchecked_native_arg: the index is the host's responsibility (built-ins use peek); native_arity is set by call_native around every native call")
  , ("object.rs", "ObjFiber::unchecked_native_frame_slot", "index", 0, .dynamicOnly "host API Vm::native_arg / unchecked_native_arg: the index is the host's responsibility (built-ins use peek); native_arity is set by call_native around every native call")
  , ("object.rs", "ObjFiber::native_frame_slot", "unwrap", 0, .dynamicOnly "host API Vm::native_arg / unchecked_native_arg: the index is the host's responsibility (built-ins use peek); native_arity is set by call_native around every native call")
  , ("object.rs", "ObjFiber::native_frame_slot", "panic!", 0, .dynamicOnly "host API Vm::native_arg / unchecked_native_arg: the index is the host's responsibility (built-ins use peek); native_arity is set by call_native around every native call")
  , ("object.rs", "ObjFiber::native_frame_slot", "index", 0, .dynamicOnly "host API Vm::native_arg / unchecked_native_arg: the index is the host's responsibility (built-ins use peek); native_arity is set by call_native around every native call")
  ]

/-- scanner.rs: 15 sites -/
def sitesScanner : List Entry :=
  [ ("scanner.rs", "Scanner::advance", "slice", 0, .dynamicOnly "slice bounds come from get_next_char_boundary / start..current of the token being scanned (identifier bytes are ASCII: is_alpha/is_digit); C03 fuzzing over arbitrary UTF-8")
  , ("scanner.rs", "Scanner::peek", "slice", 0, .dynamicOnly "slice bounds come from get_next_char_boundary / start..current of the token being scanned (identifier bytes are ASCII: is_alpha/is_digit); C03 fuzzing over arbitrary UTF-8")
  , ("scanner.rs", "Scanner::peek_next", "slice", 0, .dynamicOnly "slice bounds come from get_next_char_boundary / start..current of the token being scanned (identifier bytes are ASCII: is_alpha/is_digit); C03 fuzzing over arbitrary UTF-8")
  , ("scanner.rs", "Scanner::match_char", "slice", 0, .dynamicOnly "slice bounds come from get_next_char_boundary / start..current of the token being scanned (identifier bytes are ASCII: is_alpha/is_digit); C03 fuzzing over arbitrary UTF-8")
  , ("scanner.rs", "Scanner::make_token", "slice", 0, .dynamicOnly "slice bounds come from get_next_char_boundary / start..current of the token being scanned (identifier bytes are ASCII: is_alpha/is_digit); C03 fuzzing over arbitrary UTF-8")
  , ("scanner.rs", "Scanner::check_keyword", "slice", 0, .dynamicOnly "slice bounds come from get_next_char_boundary / start..current of the token being scanned (identifier bytes are ASCII: is_alpha/is_digit); C03 fuzzing over arbitrary UTF-8")
  , ("scanner.rs", "Scanner::identifier_type", "slice", 0, .dynamicOnly "slice bounds come from get_next_char_boundary / start..current of the token being scanned (identifier bytes are ASCII: is_alpha/is_digit); C03 fuzzing over arbitrary UTF-8")
  , ("scanner.rs", "Scanner::identifier_type", "slice", 1, .dynamicOnly "slice bounds come from get_next_char_boundary / start..current of the token being scanned (identifier bytes are ASCII: is_alpha/is_digit); C03 fuzzing over arbitrary UTF-8")
  , ("scanner.rs", "Scanner::identifier_type", "slice", 2, .dynamicOnly "slice bounds come from get_next_char_boundary / start..current of the token being scanned (identifier bytes are ASCII: is_alpha/is_digit); C03 fuzzing over arbitrary UTF-8")
  , ("scanner.rs", "Scanner::identifier_type", "slice", 3, .dynamicOnly "slice bounds come from get_next_char_boundary / start..current of the token being scanned (identifier bytes are ASCII: is_alpha/is_digit); C03 fuzzing over arbitrary UTF-8")
  , ("scanner.rs", "Scanner::identifier_type", "slice", 4, .dynamicOnly "slice bounds come from get_next_char_boundary / start..current of the token being scanned (identifier bytes are ASCII: is_alpha/is_digit); C03 fuzzing over arbitrary UTF-8")
  , ("scanner.rs", "Scanner::identifier_type", "slice", 5, .dynamicOnly "slice bounds come from get_next_char_boundary / start..current of the token being scanned (identifier bytes are ASCII: is_alpha/is_digit); C03 fuzzing over arbitrary UTF-8")
  , ("scanner.rs", "Scanner::identifier_type", "slice", 6, .dynamicOnly "slice bounds come from get_next_char_boundary / start..current of the token being scanned (identifier bytes are ASCII: is_alpha/is_digit); C03 fuzzing over arbitrary UTF-8")
  , ("scanner.rs", "Scanner::read_escaped_bytes", "unwrap", 0, .dynamicOnly "guard: num_bytes == 1 and the loop above pushed exactly one byte or returned Err")
  , ("scanner.rs", "Scanner::read_escaped_bytes", "unwrap", 1, .dynamicOnly "guard: num_bytes == 1 and the loop above pushed exactly one byte or returned Err")
  ]

/-- stack.rs: 21 sites -/
def sitesStack : List Entry :=
  [ ("stack.rs", "Stack::peek", "panic!", 0, .guardedCheckedBuild)
  , ("stack.rs", "Stack::peek", "unsafe_block", 0, .excludedByLemma "StackGuard.guard_free_equiv (no checked-build guard fires => the raw pointer access stays inside the array) + C04.verify_progress (heights)")
  , ("stack.rs", "Stack::peek", "offset", 0, .excludedByLemma "StackGuard.guard_free_equiv (no checked-build guard fires => the raw pointer access stays inside the array) + C04.verify_progress (heights)")
  , ("stack.rs", "Stack::peek_mut", "panic!", 0, .guardedCheckedBuild)
  , ("stack.rs", "Stack::peek_mut", "unsafe_block", 0, .excludedByLemma "StackGuard.guard_free_equiv (no checked-build guard fires => the raw pointer access stays inside the array) + C04.verify_progress (heights)")
  , ("stack.rs", "Stack::peek_mut", "offset", 0, .excludedByLemma "StackGuard.guard_free_equiv (no checked-build guard fires => the raw pointer access stays inside the array) + C04.verify_progress (heights)")
  , ("stack.rs", "Stack::push", "panic!", 0, .guardedCheckedBuild)
  , ("stack.rs", "Stack::push", "unsafe_block", 0, .ledger "F6")
  , ("stack.rs", "Stack::push", "offset", 0, .ledger "F6")
  , ("stack.rs", "Stack::pop", "unsafe_block", 0, .excludedByLemma "StackGuard.guard_free_equiv (no checked-build guard fires => the raw pointer access stays inside the array) + C04.verify_progress (heights)")
  , ("stack.rs", "Stack::pop", "offset", 0, .excludedByLemma "StackGuard.guard_free_equiv (no checked-build guard fires => the raw pointer access stays inside the array) + C04.verify_progress (heights)")
  , ("stack.rs", "Stack::truncate", "unsafe_block", 0, .excludedByLemma "StackGuard.guard_free_equiv (no checked-build guard fires => the raw pointer access stays inside the array) + C04.verify_progress (heights)")
  , ("stack.rs", "Stack::truncate", "offset", 0, .excludedByLemma "StackGuard.guard_free_equiv (no checked-build guard fires => the raw pointer access stays inside the array) + C04.verify_progress (heights)")
  , ("stack.rs", "Stack::len", "unsafe_block", 0, .infallible "top and stack.as_ptr() point into the same boxed array")
  , ("stack.rs", "Stack::len", "offset_from", 0, .infallible "top and stack.as_ptr() point into the same boxed array")
  , ("stack.rs", "<Stack<T,N> as GcManaged>::mark", "slice", 0, .dynamicOnly "0..len() with len() <= N unless an unchecked build overflowed the stack (F6)")
  , ("stack.rs", "<Stack<T,N> as GcManaged>::blacken", "slice", 0, .dynamicOnly "0..len() with len() <= N unless an unchecked build overflowed the stack (F6)")
  , ("stack.rs", "<Stack<T,N> as Display>::fmt", "slice", 0, .dynamicOnly "0..len() with len() <= N unless an unchecked build overflowed the stack (F6)")
  , ("stack.rs", "<Stack<T,N> as Debug>::fmt", "slice", 0, .dynamicOnly "0..len() with len() <= N unless an unchecked build overflowed the stack (F6)")
  , ("stack.rs", "<Stack<T,N> as Index<Idx>>::index", "index", 0, .excludedByVerifiedBytecode)
  , ("stack.rs", "<Stack<T,N> as IndexMut<Idx>>::index_mut", "index", 0, .excludedByVerifiedBytecode)
  ]

/-- value.rs: 1 sites -/
def sitesValue : List Entry :=
  [ ("value.rs", "<Value as Hash>::hash", "panic!", 0, .excludedByLemma "C12.unhashable_rejected_unchanged: every map operation checks has_hash() first; chunk constants are numbers, strings and functions")
  ]

/-- vm.rs: 92 sites -/
def sitesVm : List Entry :=
  [ ("vm.rs", "Vm::get_class", "unreachable!", 0, .guardedCheckedBuild)
  , ("vm.rs", "Vm::get_class", "unsafe_block", 0, .excludedByVerifiedBytecode)
  , ("vm.rs", "Vm::get_class", "unreachable_unchecked", 0, .excludedByVerifiedBytecode)
  , ("vm.rs", "Vm::new_gc_obj_string", "expect", 0, .dynamicOnly "invariant: string_class is assigned in Vm::new before the first string is interned and is never written again")
  , ("vm.rs", "Vm::pop", "expect", 0, .excludedByVerifiedBytecode)
  , ("vm.rs", "Vm::load_fiber", "unwrap", 0, .excludedByLemma "C09.chain_ok: the running fiber exists and every fiber on the caller chain has a frame")
  , ("vm.rs", "Vm::load_fiber", "index", 0, .infallible "is_new() just returned true: frames.len() == 1")
  , ("vm.rs", "Vm::unload_fiber", "unwrap", 0, .infallible "guarded by !has_finished() on the line above")
  , ("vm.rs", "Vm::unload_fiber", "unwrap", 1, .excludedByLemma "C09.active_fiber_dual: fiber and unsafe_fiber designate the same live fiber in every reachable state")
  , ("vm.rs", "Vm::run", "panic!", 0, .guardedCheckedBuild)
  , ("vm.rs", "Vm::run", "unsafe_block", 0, .excludedByVerifiedBytecode)
  , ("vm.rs", "Vm::run", "unreachable_unchecked", 0, .excludedByVerifiedBytecode)
  , ("vm.rs", "Vm::read_byte", "unsafe_block", 0, .excludedByVerifiedBytecode)
  , ("vm.rs", "Vm::read_byte", "offset", 0, .excludedByVerifiedBytecode)
  , ("vm.rs", "Vm::read_short", "unsafe_block", 0, .excludedByVerifiedBytecode)
  , ("vm.rs", "Vm::read_short", "offset", 0, .excludedByVerifiedBytecode)
  , ("vm.rs", "Vm::read_short", "offset", 1, .excludedByVerifiedBytecode)
  , ("vm.rs", "Vm::read_constant", "index", 0, .excludedByVerifiedBytecode)
  , ("vm.rs", "Vm::read_string", "expect", 0, .excludedByVerifiedBytecode)
  , ("vm.rs", "Vm::get_local_impl", "unwrap", 0, .excludedByLemma "C09.chain_ok: the running fiber exists and every fiber on the caller chain has a frame")
  , ("vm.rs", "Vm::get_local_impl", "index", 0, .excludedByVerifiedBytecode)
  , ("vm.rs", "Vm::set_local_impl", "unwrap", 0, .excludedByLemma "C09.chain_ok: the running fiber exists and every fiber on the caller chain has a frame")
  , ("vm.rs", "Vm::set_local_impl", "index", 0, .excludedByVerifiedBytecode)
  , ("vm.rs", "Vm::get_upvalue_impl", "index", 0, .excludedByVerifiedBytecode)
  , ("vm.rs", "Vm::get_upvalue_impl", "unwrap", 0, .excludedByLemma "C09.chain_ok: the running fiber exists and every fiber on the caller chain has a frame")
  , ("vm.rs", "Vm::set_upvalue_impl", "unwrap", 0, .excludedByLemma "C09.chain_ok: the running fiber exists and every fiber on the caller chain has a frame")
  , ("vm.rs", "Vm::set_upvalue_impl", "index", 0, .excludedByVerifiedBytecode)
  , ("vm.rs", "Vm::get_super_impl", "expect", 0, .dynamicOnly "the popped value is the hidden local 'super', stored by Inherit after its is-a-class check; relies on correct local addressing (cf. F23); value kinds are not tracked by the C04 verifier")
  , ("vm.rs", "Vm::set_item_impl", "index", 0, .excludedByLemma "C13.no_fault (setItem: try_as_bounded_index < len)")
  , ("vm.rs", "Vm::build_string_impl", "unwrap", 0, .dynamicOnly "compiler shape: every operand of BuildString is a string constant or the result of FormatString; value kinds are not tracked by the C04 verifier")
  , ("vm.rs", "Vm::build_tuple_impl", "slice", 0, .excludedByVerifiedBytecode)
  , ("vm.rs", "Vm::build_vec_impl", "slice", 0, .excludedByVerifiedBytecode)
  , ("vm.rs", "Vm::jump_impl", "unsafe_block", 0, .excludedByVerifiedBytecode)
  , ("vm.rs", "Vm::jump_impl", "offset", 0, .excludedByVerifiedBytecode)
  , ("vm.rs", "Vm::jump_if_false_impl", "unsafe_block", 0, .excludedByVerifiedBytecode)
  , ("vm.rs", "Vm::jump_if_false_impl", "offset", 0, .excludedByVerifiedBytecode)
  , ("vm.rs", "Vm::jump_if_stop_iter", "unsafe_block", 0, .excludedByVerifiedBytecode)
  , ("vm.rs", "Vm::jump_if_stop_iter", "offset", 0, .excludedByVerifiedBytecode)
  , ("vm.rs", "Vm::loop_impl", "unsafe_block", 0, .excludedByVerifiedBytecode)
  , ("vm.rs", "Vm::loop_impl", "offset", 0, .excludedByVerifiedBytecode)
  , ("vm.rs", "Vm::jump_finally_impl", "expect", 0, .excludedByVerifiedBytecode)
  , ("vm.rs", "Vm::push_exc_handler_impl", "unsafe_block", 0, .excludedByVerifiedBytecode)
  , ("vm.rs", "Vm::push_exc_handler_impl", "offset", 0, .excludedByVerifiedBytecode)
  , ("vm.rs", "Vm::push_exc_handler_impl", "unsafe_block", 1, .excludedByVerifiedBytecode)
  , ("vm.rs", "Vm::push_exc_handler_impl", "offset", 1, .excludedByVerifiedBytecode)
  , ("vm.rs", "Vm::super_invoke_impl", "unreachable!", 0, .dynamicOnly "the popped value is the hidden local 'super', stored by Inherit after its is-a-class check; relies on correct local addressing (cf. F23); value kinds are not tracked by the C04 verifier")
  , ("vm.rs", "Vm::closure_impl", "panic!", 0, .excludedByVerifiedBytecode)
  , ("vm.rs", "Vm::closure_impl", "unwrap", 0, .excludedByLemma "C09.chain_ok: the running fiber exists and every fiber on the caller chain has a frame")
  , ("vm.rs", "Vm::closure_impl", "index", 0, .excludedByVerifiedBytecode)
  , ("vm.rs", "Vm::closure_impl", "index", 1, .excludedByVerifiedBytecode)
  , ("vm.rs", "Vm::closure_impl", "unwrap", 1, .excludedByLemma "C09.chain_ok: the running fiber exists and every fiber on the caller chain has a frame")
  , ("vm.rs", "Vm::return_impl", "unwrap", 0, .excludedByLemma "C09.chain_ok: the running fiber exists and every fiber on the caller chain has a frame")
  , ("vm.rs", "Vm::define_class_impl", "expect", 0, .dynamicOnly "compiler shape: DeclareClass sets working_class_def before the straight-line Inherit/Method/StaticMethod/DefineClass sequence of the same class declaration; not tracked by the C04 verifier")
  , ("vm.rs", "Vm::inherit_impl", "unwrap", 0, .dynamicOnly "compiler shape: DeclareClass sets working_class_def before the straight-line Inherit/Method/StaticMethod/DefineClass sequence of the same class declaration; not tracked by the C04 verifier")
  , ("vm.rs", "Vm::inherit_impl", "unwrap", 1, .dynamicOnly "compiler shape: DeclareClass sets working_class_def before the straight-line Inherit/Method/StaticMethod/DefineClass sequence of the same class declaration; not tracked by the C04 verifier")
  , ("vm.rs", "Vm::finish_import_impl", "expect", 0, .dynamicOnly "compiler shape: FinishImport runs right after the imported module body returned onto [module, result]; value kinds are not tracked by the C04 verifier")
  , ("vm.rs", "Vm::string_get_item", "expect", 0, .infallible "only called from get_item_impl's match arm for that variant of peek(1)")
  , ("vm.rs", "Vm::string_get_item", "slice", 0, .excludedByLemma "C13.no_fault (getItem)")
  , ("vm.rs", "Vm::tuple_get_item", "expect", 0, .infallible "only called from get_item_impl's match arm for that variant of peek(1)")
  , ("vm.rs", "Vm::vec_get_item", "expect", 0, .infallible "only called from get_item_impl's match arm for that variant of peek(1)")
  , ("vm.rs", "Vm::slice_get_item", "index", 0, .excludedByLemma "C13.no_fault (getItem)")
  , ("vm.rs", "Vm::slice_get_item", "slice", 0, .excludedByLemma "C13.no_fault (getItem)")
  , ("vm.rs", "Vm::invoke_from_class", "unreachable!", 0, .dynamicOnly "invariant: method tables only ever receive ObjClosure (Method/StaticMethod operand = the closure just built) or ObjNative (core.rs build_methods)")
  , ("vm.rs", "Vm::call_closure", "unwrap", 0, .excludedByLemma "C09.chain_ok: the running fiber exists and every fiber on the caller chain has a frame")
  , ("vm.rs", "Vm::unwind_stack", "unwrap", 0, .excludedByLemma "C08.unwind_contract: a handler's frame_count is >= 1 and <= the current frame count")
  , ("vm.rs", "Vm::runtime_error", "expect", 0, .infallible "write! into a String cannot fail")
  , ("vm.rs", "Vm::runtime_error", "index", 0, .excludedByLemma "ChunkLines.trace_line_in_range")
  , ("vm.rs", "Vm::runtime_error", "expect", 1, .infallible "write! into a String cannot fail")
  , ("vm.rs", "Vm::runtime_error", "expect", 2, .infallible "write! into a String cannot fail")
  , ("vm.rs", "Vm::define_method", "unwrap", 0, .dynamicOnly "compiler shape: DeclareClass sets working_class_def before the straight-line Inherit/Method/StaticMethod/DefineClass sequence of the same class declaration; not tracked by the C04 verifier")
  , ("vm.rs", "Vm::bind_method", "unreachable!", 0, .dynamicOnly "invariant: method tables only ever receive ObjClosure (Method/StaticMethod operand = the closure just built) or ObjNative (core.rs build_methods)")
  , ("vm.rs", "Vm::capture_upvalue", "unsafe_block", 0, .excludedByVerifiedBytecode)
  , ("vm.rs", "Vm::capture_upvalue", "offset", 0, .excludedByVerifiedBytecode)
  , ("vm.rs", "Vm::capture_upvalue", "unwrap", 0, .infallible "is_some() tested in the loop condition")
  , ("vm.rs", "Vm::capture_upvalue", "unwrap", 1, .infallible "is_some() tested in the loop condition")
  , ("vm.rs", "Vm::build_range", "expect", 0, .infallible "range_cache.len() >= RANGE_CACHE_SIZE = 8 > 0, stale_pos comes from enumerate()")
  , ("vm.rs", "Vm::build_range", "index", 0, .infallible "range_cache.len() >= RANGE_CACHE_SIZE = 8 > 0, stale_pos comes from enumerate()")
  , ("vm.rs", "Vm::build_hash_map", "index", 0, .excludedByVerifiedBytecode)
  , ("vm.rs", "Vm::build_hash_map", "index", 1, .excludedByVerifiedBytecode)
  , ("vm.rs", "Vm::init_heap_allocated_data", "unsafe_block", 0, .startupOnly)
  , ("vm.rs", "Vm::init_heap_allocated_data", "unsafe_block", 1, .startupOnly)
  , ("vm.rs", "Vm::init_built_in_globals", "expect", 0, .startupOnly)
  , ("vm.rs", "Vm::load_frame", "unwrap", 0, .excludedByLemma "C09.chain_ok: the running fiber exists and every fiber on the caller chain has a frame")
  , ("vm.rs", "Vm::active_fiber", "unwrap", 0, .excludedByLemma "C09.active_fiber_dual: fiber and unsafe_fiber designate the same live fiber in every reachable state")
  , ("vm.rs", "Vm::active_fiber", "unsafe_block", 0, .excludedByLemma "C09.active_fiber_dual: fiber and unsafe_fiber designate the same live fiber in every reachable state")
  , ("vm.rs", "Vm::active_fiber_mut", "unwrap", 0, .excludedByLemma "C09.active_fiber_dual: fiber and unsafe_fiber designate the same live fiber in every reachable state")
  , ("vm.rs", "Vm::active_fiber_mut", "unsafe_block", 0, .excludedByLemma "C09.active_fiber_dual: fiber and unsafe_fiber designate the same live fiber in every reachable state")
  , ("vm.rs", "string_store::ObjStringStore::get", "index", 0, .excludedByLemma "C11.intern_total")
  , ("vm.rs", "string_store::ObjStringStore::insert", "index", 0, .excludedByLemma "C11.intern_total")
  , ("vm.rs", "string_store::ObjStringStore::adjust_capacity", "unwrap", 0, .infallible "is_none() => continue just before")
  , ("vm.rs", "string_store::ObjStringStore::adjust_capacity", "index", 0, .excludedByLemma "C11.intern_total")
  , ("vm.rs", "string_store::find_index", "index", 0, .excludedByLemma "C11.intern_total")
  ]


/-- The table, file by file (Props/SitesInventory.lean checks each file's list against the generated sites of that file). -/
def perFile : List (String × List Entry) :=
  [ ("chunk.rs", sitesChunk), ("compiler.rs", sitesCompiler), ("core.rs", sitesCore), ("debug.rs", sitesDebug),
    ("hash.rs", sitesHash), ("memory.rs", sitesMemory), ("object.rs", sitesObject), ("scanner.rs", sitesScanner),
    ("stack.rs", sitesStack), ("value.rs", sitesValue), ("vm.rs", sitesVm) ]

/-- C03 list: the sites of compilation. -/
def compileTimeDispositions : List Entry := sitesScanner ++ sitesCompiler ++ sitesChunk

/-- debug.rs (output-only features). -/
def debugOnlyDispositions : List Entry := sitesDebug

/-- C02 list: the sites of running a program. -/
def runTimeDispositions : List Entry :=
  sitesVm ++ sitesCore ++ sitesObject ++ sitesValue ++ sitesStack ++ sitesMemory ++ sitesHash

/-- The whole table. -/
def dispositions : List Entry := compileTimeDispositions ++ debugOnlyDispositions ++ runTimeDispositions

end Yarel.Dispositions
