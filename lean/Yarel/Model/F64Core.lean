/-
IEEE-754 binary64 as a UInt64 bit pattern: decoding, classification, comparison, truncation test and
Rust's saturating `as isize` / `as i64` cast.  No `Float` anywhere: everything is kernel-reducible.

Mirrors (yarel/src): `f64::trunc`, `f64 == f64`, `f64 < f64`, `n as isize`, `(i as f64)`.
-/
namespace Yarel.F64

abbrev Bits := UInt64

def signBit (b : Bits) : Bool := (b >>> 63) != 0
def expField (b : Bits) : Nat := ((b >>> 52) &&& 0x7FF).toNat
def mantField (b : Bits) : Nat := (b &&& 0xFFFFFFFFFFFFF).toNat

def isNaN (b : Bits) : Bool := expField b == 0x7FF && mantField b != 0
def isInf (b : Bits) : Bool := expField b == 0x7FF && mantField b == 0
def isZero (b : Bits) : Bool := expField b == 0 && mantField b == 0
def isFinite (b : Bits) : Bool := expField b != 0x7FF

def posZero : Bits := 0
def negZero : Bits := 0x8000000000000000
def posInf : Bits := 0x7FF0000000000000
def negInf : Bits := 0xFFF0000000000000
def canonNaN : Bits := 0x7FF8000000000000

/-- Finite value as `(-1)^sign * m * 2^e` with `m : Nat`, `e : Int` (not normalised). -/
def decode (b : Bits) : Bool × Nat × Int :=
  let e := expField b
  let m := mantField b
  if e == 0 then (signBit b, m, -1074)
  else (signBit b, m + 2 ^ 52, (e : Int) - 1075)

/-- The magnitude truncated toward zero, for finite inputs. -/
def truncMag (b : Bits) : Nat :=
  let (_, m, e) := decode b
  if e ≥ 0 then m * 2 ^ e.toNat else m / 2 ^ (-e).toNat

/-- `n.trunc() == n` in Rust: false for NaN, true for ±inf, otherwise "has no fractional part". -/
def isIntegral (b : Bits) : Bool :=
  if isNaN b then false
  else if isInf b then true
  else
    let (_, m, e) := decode b
    if e ≥ 0 then true else m % 2 ^ (-e).toNat == 0

/-- Exact integer value of the truncation (finite inputs). -/
def truncInt (b : Bits) : Int :=
  if signBit b then -(truncMag b : Int) else (truncMag b : Int)

def isizeMax : Int := 9223372036854775807
def isizeMin : Int := -9223372036854775808

/-- Rust `f as isize` (= `as i64` on this target): NaN ↦ 0, saturating, truncating toward zero. -/
def toIsize (b : Bits) : Int :=
  if isNaN b then 0
  else if isInf b then (if signBit b then isizeMin else isizeMax)
  else
    let t := truncInt b
    if t > isizeMax then isizeMax else if t < isizeMin then isizeMin else t

/-- IEEE `==`. -/
def eq (a b : Bits) : Bool :=
  if isNaN a || isNaN b then false
  else if isZero a && isZero b then true
  else a == b

/-- Total order key for non-NaN values: larger key = larger value; both zeros share a key. -/
def orderKey (b : Bits) : Int :=
  let mag : Int := ((b &&& 0x7FFFFFFFFFFFFFFF).toNat : Int)
  if signBit b then -mag else mag

/-- IEEE `<`. -/
def lt (a b : Bits) : Bool :=
  if isNaN a || isNaN b then false else orderKey a < orderKey b

def neg (b : Bits) : Bits := b ^^^ 0x8000000000000000

end Yarel.F64
