/-
Mechanism model of class construction and member dispatch of the yarel VM.

Transcribed from
  vm.rs        `declare_class_impl`, `inherit_impl`, `method_impl`, `static_method_impl`, `define_method`,
               `define_class_impl`, `get_property_impl`, `set_property_impl`, `invoke`, `invoke_from_class`,
               `bind_method`, `call_value`, `call_closure`, `get_super_impl`, `super_invoke_impl`,
               `construct_impl`, `get_class_impl`, `get_class`
  object.rs    `ObjClass::new` (merges the superclass's methods), `ObjInstance`, `ObjBoundMethod`
  compiler.rs  `class_declaration`, `method`, `initialiser`, `super_`, `cap_self`
  core.rs      `bind_object_class` (Object has exactly one method, the native `derives`), `bind_type_class`

What is modelled
  * Classes are objects in a store (`State.classes`, index = identity). A METACLASS IS AN ORDINARY CLASS OBJECT:
    `DeclareClass` builds two objects (the class and its metaclass `<name>Class`); `DefineClass` publishes both.
    `metaMethods` of the task statement is `State.metaMethods` (the method table of the class's metaclass object).
    Metaclasses are first-class values in yarel (`type(A)` returns `<class AClass>`, one can even `#[derive(..)]` it).
  * Method bodies are abstract: a `Method` is a closure/native VALUE = body id + declared parameter count
    (`function.arity - 1`; `none` = native, no VM-level arity check) + whether it is an initialiser
    (`FunctionKind::Initialiser`: body starts with `Construct`, returns slot 0) + the value of its hidden
    `super` upvalue (the superclass VALUE that was on the stack when the class statement executed).
  * The outcome of a call is WHICH body runs with WHICH value in slot 0 and how many arguments (`Call`),
    or the error the VM raises (`Err`), or a Rust panic (`Fault`).
  * `ClassObj.own` is a GHOST field (never read by any operation): the entries this class's own body defined,
    in the class: name ↦ closure; it is what "the class defines n" means in the theorems.

Not modelled: module receivers (attribute lookup on `ObjModule`), the extra native methods of built-in value
classes (`Num`, `Vec`, ... are `Val.other k` with an abstract class `k`), the frame-depth check of `call_closure`
(`IndexError: Stack overflow.`), identity (`==`) of bound-method objects (every `bind_method` allocates a new one).

Core Lean only (this file is linked into the driver executable).
-/
namespace Yarel.ClassTable

/-- Interned-string identity. -/
abbrev Name := Nat
abbrev ClassId := Nat
abbrev InstId := Nat

/-! ## Association tables (Rust `HashMap<Gc<ObjString>, _>`): lookup, insert (overwrites), remove. -/
section Assoc
variable {α : Type}

def tget : List (Name × α) → Name → Option α
  | [], _ => none
  | (k, v) :: t, n => if k = n then some v else tget t n

def tremove (t : List (Name × α)) (n : Name) : List (Name × α) :=
  t.filter (fun p => p.1 != n)

def tinsert (t : List (Name × α)) (n : Name) (v : α) : List (Name × α) :=
  (n, v) :: tremove t n

/-- `for (k, v) in src { dst.insert(k, v) }`. HashMap iteration order is unspecified; keys of `src` are unique
(it was built by `tinsert`), so every order gives the same lookups; we take the one where the first entry wins. -/
def tmerge (dst src : List (Name × α)) : List (Name × α) :=
  src.foldr (fun p t => tinsert t p.1 p.2) dst

end Assoc

/-! ## Values -/

/-- A callable (ObjClosure / ObjNative). -/
structure Method where
  /-- identity of the function body -/
  body : Nat
  /-- `some k`: closure with `function.arity - 1 = k` declared parameters; `none`: native (the VM checks nothing) -/
  arity : Option Nat
  /-- `FunctionKind::Initialiser` -/
  init : Bool
  /-- value of the hidden local `super` captured as an upvalue (class statements with `#[derive(..)]` only) -/
  superCap : Option ClassId
deriving DecidableEq, Repr

inductive Val where
  | inst (i : InstId)
  | cls (c : ClassId)
  /-- an unbound callable: closure or native function value -/
  | method (m : Method)
  /-- `ObjBoundMethod { receiver, method }` -/
  | bound (recv : Val) (m : Method)
  /-- any other value (nil, number, string, vec, ...); `k` is its built-in class -/
  | other (k : ClassId)
deriving DecidableEq, Repr

inductive CName where
  | plain (n : Name)
  /-- `format!("{}Class", name)` -/
  | metaOf (n : Name)
deriving DecidableEq, Repr

def CName.isMeta : CName → Bool
  | .plain _ => false
  | .metaOf _ => true

structure ClassObj where
  name : CName
  metaclass : ClassId
  superclass : Option ClassId
  methods : List (Name × Method)
  /-- GHOST: what this class's own body defined (see header). -/
  own : List (Name × Method)
deriving DecidableEq, Repr

structure InstObj where
  cls : ClassId
  fields : List (Name × Val)
deriving DecidableEq, Repr

/-- `vm::ClassDef`: the two objects under construction (`working_class_def`). -/
structure ClassDef where
  cls : ClassObj
  mcls : ClassObj
deriving DecidableEq, Repr

structure State where
  classes : List ClassObj
  insts : List InstObj
  working : Option ClassDef
deriving DecidableEq, Repr

inductive Err where
  /-- AttributeError "Undefined property '<n>'." -/
  | undefinedProperty (n : Name)
  /-- AttributeError "Only instances have fields." -/
  | onlyInstancesHaveFields
  /-- TypeError "Expected <expected> arguments but found <found>." -/
  | arity (expected found : Nat)
  /-- TypeError "Can only call functions and methods." -/
  | notCallable
  /-- RuntimeError "Superclass must be a class." -/
  | superclassMustBeClass
  /-- NameError (the `#[derive(x)]` variable is not defined) -/
  | undefinedVariable (n : Name)
deriving DecidableEq, Repr

/-- Rust panics (`unwrap`/`expect`/`unreachable!`). None is reachable from compiled programs in well-formed states
(`Proofs/ClassTable`: `WF`), they are here so that no operation has a silent default. -/
inductive Fault where
  /-- `working_class_def.as_mut().unwrap()` / `.take().expect("Expected ClassDef.")` -/
  | noWorkingClassDef
  /-- `class_store.object_class()`: `.expect("Expected Root.")` -/
  | noObjectClass
  /-- `get_super_impl`: `.expect("Expected ObjClass.")`, `super_invoke_impl`: `unreachable!()` -/
  | superNotClass
  /-- model only: a class/instance reference outside the store -/
  | danglingClass (c : ClassId)
  | danglingInst (i : InstId)
deriving DecidableEq, Repr

inductive Res (α : Type) where
  | ok (a : α)
  | error (e : Err)
  | fault (f : Fault)
deriving DecidableEq, Repr

/-- A call frame is pushed for closure `m` (or native `m` is entered) with `slot0` in slot 0 and `argc` arguments. -/
structure Call where
  m : Method
  slot0 : Val
  argc : Nat
deriving DecidableEq, Repr

/-! ## Built-in classes -/

def objectId : ClassId := 0
def typeId : ClassId := 1
def closureClassId : ClassId := 2
def nativeClassId : ClassId := 3
def boundClosureClassId : ClassId := 4
def boundNativeClassId : ClassId := 5
def nilClassId : ClassId := 6

/-- The name `derives`. -/
def derivesName : Name := 0
/-- `core::object_derives`. -/
def nativeDerives : Method := { body := 0, arity := none, init := false, superCap := none }

def objectMethods : List (Name × Method) := [(derivesName, nativeDerives)]

def builtinClass (nm : Name) : ClassObj :=
  { name := .plain nm, metaclass := typeId, superclass := some objectId, methods := objectMethods, own := [] }

/-- `init_heap_allocated_data`: Object (no superclass, one native method), Type (the base metaclass, its table is a
copy of Object's), and the classes of closures, natives, bound methods and nil. -/
def State.init : State :=
  { classes :=
      [ { name := .plain 1, metaclass := typeId, superclass := none, methods := objectMethods, own := objectMethods },
        builtinClass 2, builtinClass 3, builtinClass 4, builtinClass 5, builtinClass 6, builtinClass 7 ],
    insts := [], working := none }

/-- The `nil` value. -/
def nilVal : Val := .other nilClassId

/-! ## Class definition protocol (one function per opcode) -/

/-- `DeclareClass name`: both new objects start as `ObjClass::new(_, base_metaclass, Some(object_class), {})`,
i.e. with a COPY of Object's current method table. (The opcode also pushes `nil`, the placeholder for the class
variable.) -/
def declare (st : State) (name : Name) : Res State :=
  match st.classes[objectId]? with
  | none => .fault .noObjectClass
  | some o =>
    let w : ClassDef :=
      { cls := { name := .plain name, metaclass := typeId, superclass := some objectId, methods := o.methods, own := [] },
        mcls := { name := .metaOf name, metaclass := typeId, superclass := some objectId, methods := o.methods, own := [] } }
    .ok { st with working := some w }

/-- `Inherit` with `superVal = peek(1)`. The non-class check comes first; on error nothing is cleaned up
(`working_class_def` stays `Some`: visible as residue after a caught error). Only the CLASS's table receives the
superclass's methods; the metaclass under construction is not touched. -/
def inherit (st : State) (superVal : Val) : Res State :=
  match superVal with
  | .cls s =>
    match st.working with
    | none => .fault .noWorkingClassDef
    | some w =>
      match st.classes[s]? with
      | none => .fault (.danglingClass s)
      | some S =>
        let w' : ClassDef :=
          { w with cls := { w.cls with superclass := some s, methods := tmerge w.cls.methods S.methods } }
        .ok { st with working := some w' }
  | _ => .error .superclassMustBeClass

/-- `define_method` on the two objects. -/
def ClassDef.addMethod (w : ClassDef) (name : Name) (m : Method) (isStatic : Bool) : ClassDef :=
  { cls := { w.cls with methods := tinsert w.cls.methods name m, own := tinsert w.cls.own name m },
    mcls :=
      if isStatic then { w.mcls with methods := tinsert w.mcls.methods name m, own := tinsert w.mcls.own name m }
      else { w.mcls with methods := tremove w.mcls.methods name, own := tremove w.mcls.own name } }

/-- `Method name` (`isStatic = false`) / `StaticMethod name` (`isStatic = true`) with closure `m = peek(0)`. -/
def defineMethod (st : State) (name : Name) (m : Method) (isStatic : Bool) : Res State :=
  match st.working with
  | none => .fault .noWorkingClassDef
  | some w => .ok { st with working := some (w.addMethod name m isStatic) }

def method (st : State) (name : Name) (m : Method) : Res State := defineMethod st name m false
def staticMethod (st : State) (name : Name) (m : Method) : Res State := defineMethod st name m true

/-- `DefineClass`: both objects become heap objects; the class's `metaclass` is set to the new metaclass (which
keeps `Type` as its own metaclass). Returns the new class's identity (what is poked into the variable's slot). -/
def define (st : State) : Res (State × ClassId) :=
  match st.working with
  | none => .fault .noWorkingClassDef
  | some w =>
    let mid := st.classes.length
    .ok ({ st with classes := st.classes ++ [w.mcls, { w.cls with metaclass := mid }], working := none }, mid + 1)

/-! ## Member access -/

/-- `Vm::get_class`. -/
def classOfVal (st : State) : Val → Res ClassId
  | .inst i => match st.insts[i]? with
    | some I => .ok I.cls
    | none => .fault (.danglingInst i)
  | .cls c => match st.classes[c]? with
    | some C => .ok C.metaclass
    | none => .fault (.danglingClass c)
  | .method m => .ok (if m.arity.isSome then closureClassId else nativeClassId)
  | .bound _ m => .ok (if m.arity.isSome then boundClosureClassId else boundNativeClassId)
  | .other k => .ok k

/-- `State.metaMethods c`: the method table consulted for a member access on the class VALUE `c`. -/
def State.metaMethods (st : State) (c : ClassId) : Option (List (Name × Method)) :=
  match st.classes[c]? with
  | none => none
  | some C => (st.classes[C.metaclass]?).map (·.methods)

/-- `call_closure` / `call_native` with `slot0` already in place. -/
def callClosure (m : Method) (slot0 : Val) (argc : Nat) : Res Call :=
  match m.arity with
  | some k => if argc = k then .ok ⟨m, slot0, argc⟩ else .error (.arity k argc)
  | none => .ok ⟨m, slot0, argc⟩

/-- `call_value(callee, argc)` where `callee = peek(argc)` sits in slot 0: a bound method pokes its receiver into
slot 0, a plain closure/native keeps the callee itself there, everything else (classes and instances included) is
not callable. -/
def callValue (callee : Val) (argc : Nat) : Res Call :=
  match callee with
  | .bound recv m => callClosure m recv argc
  | .method m => callClosure m callee argc
  | _ => .error .notCallable

/-- `bind_method(class, name)` with `recv = peek(0)`. -/
def bindMethod (st : State) (c : ClassId) (name : Name) (recv : Val) : Res Val :=
  match st.classes[c]? with
  | none => .fault (.danglingClass c)
  | some C =>
    match tget C.methods name with
    | some m => .ok (.bound recv m)
    | none => .error (.undefinedProperty name)

/-- `invoke_from_class(class, name, argc)` with `slot0 = peek(argc)`. -/
def invokeFromClass (st : State) (c : ClassId) (name : Name) (slot0 : Val) (argc : Nat) : Res Call :=
  match st.classes[c]? with
  | none => .fault (.danglingClass c)
  | some C =>
    match tget C.methods name with
    | some m => callClosure m slot0 argc
    | none => .error (.undefinedProperty name)

/-- `GetProperty name` with `recv = peek(0)`. -/
def getProperty (st : State) (recv : Val) (name : Name) : Res Val :=
  match recv with
  | .inst i =>
    match st.insts[i]? with
    | none => .fault (.danglingInst i)
    | some I =>
      match tget I.fields name with
      | some v => .ok v
      | none => bindMethod st I.cls name recv
  | _ =>
    match classOfVal st recv with
    | .ok c => bindMethod st c name recv
    | .error e => .error e
    | .fault f => .fault f

/-- `Invoke name argc` with `recv = peek(argc)` (the fast path). A field hit pokes the FIELD VALUE into slot 0 and
calls it. -/
def invoke (st : State) (recv : Val) (name : Name) (argc : Nat) : Res Call :=
  match recv with
  | .inst i =>
    match st.insts[i]? with
    | none => .fault (.danglingInst i)
    | some I =>
      match tget I.fields name with
      | some v => callValue v argc
      | none => invokeFromClass st I.cls name recv argc
  | _ =>
    match classOfVal st recv with
    | .ok c => invokeFromClass st c name recv argc
    | .error e => .error e
    | .fault f => .fault f

/-- `SetProperty name` with `recv = peek(1)`, `v = peek(0)`; the result value is `v`. -/
def setProperty (st : State) (recv : Val) (name : Name) (v : Val) : Res State :=
  match recv with
  | .inst i =>
    match st.insts[i]? with
    | none => .fault (.danglingInst i)
    | some I => .ok { st with insts := st.insts.set i { I with fields := tinsert I.fields name v } }
  | _ => .error .onlyInstancesHaveFields

/-- `GetSuper name`: `superVal` is popped (the captured `super` upvalue), `self = peek(0)` below it. -/
def getSuper (st : State) (superVal self : Val) (name : Name) : Res Val :=
  match superVal with
  | .cls s => bindMethod st s name self
  | _ => .fault .superNotClass

/-- `SuperInvoke name argc`. -/
def superInvoke (st : State) (superVal self : Val) (name : Name) (argc : Nat) : Res Call :=
  match superVal with
  | .cls s => invokeFromClass st s name self argc
  | _ => .fault .superNotClass

/-- `super.name(args)` as executed INSIDE the body of method `m`: the class operand is `m`'s `super` upvalue,
the receiver is whatever is in the running frame's slot 0 (`self`, or `Self` in a static method). -/
def superInvokeIn (st : State) (m : Method) (slot0 : Val) (name : Name) (argc : Nat) : Res Call :=
  match m.superCap with
  | some s => superInvoke st (.cls s) slot0 name argc
  | none => .fault .superNotClass

/-- `super.name` (no call) inside the body of `m`. -/
def getSuperIn (st : State) (m : Method) (slot0 : Val) (name : Name) : Res Val :=
  match m.superCap with
  | some s => getSuper st (.cls s) slot0 name
  | none => .fault .superNotClass

/-- `GetClass` (how `Self` is compiled: `GetLocal 0; GetClass`). -/
def getClass (st : State) (v : Val) : Res Val :=
  match v with
  | .cls c => .ok (.cls c)
  | _ =>
    match classOfVal st v with
    | .ok c => .ok (.cls c)
    | .error e => .error e
    | .fault f => .fault f

/-- `Construct argc` (first instruction of every initialiser; `slot0 = peek(argc)`): a class in slot 0 is replaced
by a fresh field-less instance of it, anything else is left alone. Returns the new slot 0 — which is also what the
initialiser returns (`emit_return` of an initialiser is `GetLocal 0; Return`, `return <expr>` is a compile error and
slot 0 is not assignable). -/
def construct (st : State) (slot0 : Val) : State × Val :=
  match slot0 with
  | .cls c => ({ st with insts := st.insts ++ [{ cls := c, fields := [] }] }, .inst st.insts.length)
  | v => (st, v)

/-! ## Class statements -/

inductive DeclKind where
  | method
  /-- `#[static]` -/
  | static
  /-- `#[constructor]` on a method: an initialiser, emitted with `StaticMethod` -/
  | ctor
deriving DecidableEq, Repr

structure MethodDecl where
  name : Name
  kind : DeclKind
  body : Nat
  /-- declared parameters not counting `self` -/
  arity : Nat
deriving DecidableEq, Repr

structure ClassDecl where
  name : Name
  /-- `#[derive(x)]`: a VARIABLE name, evaluated when the statement executes -/
  derive : Option Name
  /-- `#[constructor(name)]`: default constructor `name` (no parameters, body = just `Construct 0`), with its body id;
  it is defined BEFORE the methods of the body -/
  ctor : Option (Name × Nat)
  methods : List MethodDecl
deriving DecidableEq, Repr

/-- The closure the `Closure` opcode creates for a method declaration inside a class statement whose hidden
`super` local holds `sup`. -/
def mkMethod (sup : Option ClassId) (d : MethodDecl) : Method :=
  { body := d.body, arity := some d.arity, init := d.kind == .ctor, superCap := sup }

def MethodDecl.isStatic (d : MethodDecl) : Bool := d.kind != .method

/-- All method definitions of a class statement in emission order. -/
def ClassDecl.allDecls (d : ClassDecl) : List MethodDecl :=
  (match d.ctor with
   | some (n, b) => [{ name := n, kind := .ctor, body := b, arity := 0 }]
   | none => []) ++ d.methods

def defineAll (st : State) (sup : Option ClassId) : List MethodDecl → Res State
  | [] => .ok st
  | d :: ds =>
    match defineMethod st d.name (mkMethod sup d) d.isStatic with
    | .ok st' => defineAll st' sup ds
    | .error e => .error e
    | .fault f => .fault f

/-- Variables (globals and locals alike). -/
abbrev Env := List (Name × Val)

/-- The class value the `super` local of statement `d` holds, if the statement gets past `Inherit`. -/
def superOf (env : Env) (d : ClassDecl) : Option ClassId :=
  match d.derive with
  | none => none
  | some x =>
    match tget (tinsert env d.name nilVal) x with
    | some (.cls s) => some s
    | _ => none

/-- A whole class statement: `DeclareClass; DefineGlobal/local (= nil)`, then for `#[derive(x)]`: `GetVar x` (this is
the `super` local), `Inherit`; then the methods; `DefineClass; SetVar name`. On an error the statement is abandoned
where it is (the class variable stays `nil`, `working_class_def` stays set). -/
def execClass (st : State) (env : Env) (d : ClassDecl) : State × Env × Res ClassId :=
  match declare st d.name with
  | .error e => (st, env, .error e)
  | .fault f => (st, env, .fault f)
  | .ok st1 =>
    let env1 := tinsert env d.name nilVal
    let afterInherit : Res State :=
      match d.derive with
      | none => .ok st1
      | some x =>
        match tget env1 x with
        | none => .error (.undefinedVariable x)
        | some v => inherit st1 v
    match afterInherit with
    | .error e => (st1, env1, .error e)
    | .fault f => (st1, env1, .fault f)
    | .ok st2 =>
      match defineAll st2 (superOf env d) d.allDecls with
      | .error e => (st2, env1, .error e)
      | .fault f => (st2, env1, .fault f)
      | .ok st3 =>
        match define st3 with
        | .error e => (st3, env1, .error e)
        | .fault f => (st3, env1, .fault f)
        | .ok (st4, cid) => (st4, tinsert env1 d.name (.cls cid), .ok cid)

inductive Stmt where
  | classDecl (d : ClassDecl)
  /-- `x = v` / `var x = v` -/
  | assign (x : Name) (v : Val)
deriving DecidableEq, Repr

/-- One statement; errors are swallowed (as if every statement sat in its own `try`/`catch`). -/
def exec (s : State × Env) : Stmt → State × Env
  | .classDecl d => let r := execClass s.1 s.2 d; (r.1, r.2.1)
  | .assign x v => (s.1, tinsert s.2 x v)

def run (s : State × Env) (prog : List Stmt) : State × Env := prog.foldl exec s

/-! ## Ancestry as recorded at definition time -/

/-- The chain `c, superclass(c), superclass(superclass(c)), ...` (at most `fuel` links). -/
def ancestryF (st : State) : Nat → ClassId → List ClassId
  | 0, _ => []
  | fuel + 1, c =>
    match st.classes[c]? with
    | none => []
    | some C =>
      c :: (match C.superclass with
            | some s => ancestryF st fuel s
            | none => [])

/-- Superclass identities are smaller than the class's own (`WF.super_lt`), so `c + 1` links always suffice
(`ancestry_reaches_root`). -/
def ancestry (st : State) (c : ClassId) : List ClassId := ancestryF st (c + 1) c

/-- The definition of `n` by the first class of `chain` whose own body defines `n`. -/
def firstDef (st : State) : List ClassId → Name → Option Method
  | [], _ => none
  | c :: rest, n =>
    match st.classes[c]? with
    | none => none
    | some C => (tget C.own n).or (firstDef st rest n)

/-- The method named `n` defined nearest in `c`'s ancestry. -/
def nearest (st : State) (c : ClassId) (n : Name) : Option Method := firstDef st (ancestry st c) n

/-- The last declaration of name `n` in a class body. -/
def lastDecl : List MethodDecl → Name → Option MethodDecl
  | [], _ => none
  | d :: ds, n => (lastDecl ds n).or (if d.name = n then some d else none)

end Yarel.ClassTable
