/-
Bytecode of the yarel VM (`/repo/yarel/src/chunk.rs`, `vm.rs`): opcode numbering, instruction
decoding and the per-instruction static facts the verifier and the frame machine share.

Bug-compatibility notes
* `OpCode::arg_sizes` in chunk.rs lists `PopExcHandler => [2, 2]`, but neither the compiler
  (`try_statement` emits the bare opcode byte) nor the VM (`pop_exc_handler_impl` reads nothing) use
  operands: the real encoding has NO operand bytes.  That is what is modelled here.
* `Closure` is followed by a u16 constant index and then `upvalue_count` pairs `(is_local, index)`,
  where `upvalue_count` is a field of the callee function constant; so decoding needs the constants.
* u16 operands are read with `u16::from_ne_bytes` (little endian on the machines we run on).
-/
namespace Yarel.Bytecode

/-- `OpCode` of chunk.rs, in declaration order (`#[repr(u8)]`, values from 0). -/
inductive Op where
  | constant | nil | true_ | false_ | pop | copyTop | getLocal | setLocal | getGlobal
  | defineGlobal | setGlobal | getUpvalue | setUpvalue | getProperty | setProperty | getClass
  | getSuper | equal | greater | less | add | subtract | multiply | divide | bitwiseAnd
  | bitwiseOr | bitwiseXor | modulo | logicalNot | bitwiseNot | bitShiftLeft | bitShiftRight
  | negate | getItem | setItem | formatString | buildHashMap | buildRange | buildString
  | buildTuple | buildVec | iterNext | jump | jumpIfFalse | jumpIfStopIter | loop | jumpFinally
  | endFinally | pushExcHandler | popExcHandler | throw | call | invoke | construct | superInvoke
  | closure | closeUpvalue | return_ | declareClass | defineClass | inherit | method
  | staticMethod | startImport | finishImport
  deriving DecidableEq, Repr, Inhabited

/-- All opcodes, position = byte value. -/
def Op.all : List Op :=
  [.constant, .nil, .true_, .false_, .pop, .copyTop, .getLocal, .setLocal, .getGlobal,
   .defineGlobal, .setGlobal, .getUpvalue, .setUpvalue, .getProperty, .setProperty, .getClass,
   .getSuper, .equal, .greater, .less, .add, .subtract, .multiply, .divide, .bitwiseAnd,
   .bitwiseOr, .bitwiseXor, .modulo, .logicalNot, .bitwiseNot, .bitShiftLeft, .bitShiftRight,
   .negate, .getItem, .setItem, .formatString, .buildHashMap, .buildRange, .buildString,
   .buildTuple, .buildVec, .iterNext, .jump, .jumpIfFalse, .jumpIfStopIter, .loop, .jumpFinally,
   .endFinally, .pushExcHandler, .popExcHandler, .throw, .call, .invoke, .construct, .superInvoke,
   .closure, .closeUpvalue, .return_, .declareClass, .defineClass, .inherit, .method,
   .staticMethod, .startImport, .finishImport]

def Op.ofByte (b : Nat) : Option Op := Op.all[b]?

def Op.toByte (op : Op) : Nat := Op.all.idxOf op

/-- Layout of the operand bytes following the opcode byte. -/
inductive Shape where
  | none      -- no operands
  | u8        -- one byte
  | u16       -- one little-endian u16
  | u16u8     -- u16 then byte (Invoke, SuperInvoke)
  | u16u16    -- two u16 (PushExcHandler)
  | closure   -- u16 constant index, then (is_local, index) byte pairs
  deriving DecidableEq, Repr

def Op.shape : Op → Shape
  | .constant | .getGlobal | .defineGlobal | .setGlobal | .getProperty | .setProperty | .getSuper
  | .jump | .jumpIfFalse | .jumpIfStopIter | .loop | .declareClass | .method | .staticMethod
  | .startImport => .u16
  | .getLocal | .setLocal | .getUpvalue | .setUpvalue | .buildHashMap | .buildString
  | .buildTuple | .buildVec | .call | .construct => .u8
  | .invoke | .superInvoke => .u16u8
  | .pushExcHandler => .u16u16
  | .closure => .closure
  | _ => .none

/-- What the dump tells us about a constant (the VM `expect`s strings for names, a function for `Closure`). -/
inductive Const where
  | str | num | bool | nil | other
  | fn (arity upvalues : Nat)
  deriving DecidableEq, Repr, Inhabited

/-- One compiled function as dumped by the harness. `arity` counts slot 0 (callee / receiver). -/
structure FnDump where
  arity : Nat
  upvalues : Nat
  code : Array UInt8
  consts : Array Const
  deriving Repr, Inhabited

/-- A decoded instruction. `a`, `b` are the operands (0 when absent), `ups` the closure descriptors,
`size` the encoded length in bytes. -/
structure Instr where
  op : Op
  a : Nat := 0
  b : Nat := 0
  ups : List (Bool × Nat) := []
  size : Nat
  deriving DecidableEq, Repr, Inhabited

/-- Why decoding failed. -/
inductive DecodeError where
  | pcOutsideCode                 -- fetch outside the function's code
  | badOpcode (byte : Nat)        -- not an opcode (`panic!("Unknown opcode")` / UB in release)
  | truncated                     -- operand bytes run past the end of the code
  | badConstant (idx : Nat)       -- Closure: constant index out of range
  | constKind (idx : Nat)         -- Closure: constant is not a function (`panic!("Expected ObjFunction.")`)
  deriving DecidableEq, Repr

def byteAt (fn : FnDump) (p : Nat) : Option Nat :=
  match fn.code[p]? with
  | some b => some b.toNat
  | none => none

/-- `u16::from_ne_bytes([code[p], code[p+1]])`, little endian. -/
def u16At (fn : FnDump) (p : Nat) : Option Nat :=
  match byteAt fn p, byteAt fn (p + 1) with
  | some lo, some hi => some (lo + 256 * hi)
  | _, _ => none

/-- The `n` descriptor pairs of a `Closure` starting at `p`. -/
def readUps (fn : FnDump) (p : Nat) : Nat → Option (List (Bool × Nat))
  | 0 => some []
  | n + 1 =>
    match byteAt fn p, byteAt fn (p + 1) with
    | some l, some k =>
      match readUps fn (p + 2) n with
      | some rest => some ((l != 0, k) :: rest)
      | none => none
    | _, _ => none

def decodeE (fn : FnDump) (pc : Nat) : Except DecodeError Instr :=
  match byteAt fn pc with
  | none => .error .pcOutsideCode
  | some byte =>
    match Op.ofByte byte with
    | none => .error (.badOpcode byte)
    | some op =>
      match op.shape with
      | .none => .ok { op, size := 1 }
      | .u8 =>
        match byteAt fn (pc + 1) with
        | some a => .ok { op, a, size := 2 }
        | none => .error .truncated
      | .u16 =>
        match u16At fn (pc + 1) with
        | some a => .ok { op, a, size := 3 }
        | none => .error .truncated
      | .u16u8 =>
        match u16At fn (pc + 1), byteAt fn (pc + 3) with
        | some a, some b => .ok { op, a, b, size := 4 }
        | _, _ => .error .truncated
      | .u16u16 =>
        match u16At fn (pc + 1), u16At fn (pc + 3) with
        | some a, some b => .ok { op, a, b, size := 5 }
        | _, _ => .error .truncated
      | .closure =>
        match u16At fn (pc + 1) with
        | none => .error .truncated
        | some k =>
          match fn.consts[k]? with
          | none => .error (.badConstant k)
          | some (.fn _ n) =>
            match readUps fn (pc + 3) n with
            | some ups => .ok { op, a := k, ups, size := 3 + 2 * n }
            | none => .error .truncated
          | some _ => .error (.constKind k)

/-- `decode code pc`: the instruction at `pc`, `none` if the byte is no opcode or operands run past the end. -/
def decode (fn : FnDump) (pc : Nat) : Option Instr :=
  match decodeE fn pc with
  | .ok i => some i
  | .error _ => none

/-! ### Static stack effect

`pops`/`pushes`: values removed from / added to the operand stack on the instruction's normal
(non-raising) completion, as seen from the frame that executes it (a call is complete when the callee
has returned).  `peeks`: how deep the instruction looks at the stack without popping.  Everything is
measured above the frame base (`CallFrame.slot_base`); locals are part of the height. -/

def Instr.pops (i : Instr) : Nat :=
  match i.op with
  | .pop | .defineGlobal | .getProperty | .getClass | .logicalNot | .bitwiseNot | .negate
  | .formatString | .closeUpvalue | .return_ | .defineClass | .inherit | .method | .staticMethod
  | .finishImport | .jumpFinally => 1
  | .setProperty | .getSuper | .equal | .greater | .less | .add | .subtract | .multiply | .divide
  | .bitwiseAnd | .bitwiseOr | .bitwiseXor | .modulo | .bitShiftLeft | .bitShiftRight | .getItem
  | .buildRange => 2
  | .setItem => 3
  | .buildHashMap => 2 * i.a
  | .buildString | .buildTuple | .buildVec => i.a
  | .call => i.a + 1
  | .construct => i.a + 1          -- pokes the slot under the arguments: modelled as pop n+1, push n+1
  | .invoke => i.b + 1
  | .superInvoke => i.b + 2
  | _ => 0

def Instr.pushes (i : Instr) : Nat :=
  match i.op with
  | .constant | .nil | .true_ | .false_ | .copyTop | .getLocal | .getGlobal | .getUpvalue
  | .getProperty | .setProperty | .getClass | .getSuper | .equal | .greater | .less | .add
  | .subtract | .multiply | .divide | .bitwiseAnd | .bitwiseOr | .bitwiseXor | .modulo
  | .logicalNot | .bitwiseNot | .bitShiftLeft | .bitShiftRight | .negate | .getItem | .setItem
  | .formatString | .buildHashMap | .buildRange | .buildString | .buildTuple | .buildVec
  | .iterNext | .call | .invoke | .superInvoke | .closure | .declareClass | .defineClass => 1
  | .construct => i.a + 1
  | .startImport => 2
  | _ => 0

/-- Depth examined without popping (`peek(d-1)`); 0 when the instruction only pops. -/
def Instr.peeks (i : Instr) : Nat :=
  match i.op with
  | .copyTop | .setLocal | .setGlobal | .setUpvalue | .iterNext | .jumpIfFalse | .jumpIfStopIter
  | .endFinally | .throw => 1
  | .inherit | .finishImport => 2
  | _ => 0

/-- Minimal height above the frame base the instruction needs. -/
def Instr.needs (i : Instr) : Nat := max i.pops i.peeks

/-- Instructions whose implementation can call `try_handle_error`/`unwind_stack` (directly or through a
callee frame): an edge to the innermost enclosing handler. -/
def Instr.mayRaise (i : Instr) : Bool :=
  match i.op with
  | .getGlobal | .setGlobal | .getProperty | .setProperty | .getSuper | .greater | .less | .add
  | .subtract | .multiply | .divide | .bitwiseAnd | .bitwiseOr | .bitwiseXor | .modulo
  | .bitwiseNot | .bitShiftLeft | .bitShiftRight | .negate | .getItem | .setItem | .buildHashMap
  | .buildRange | .iterNext | .endFinally | .throw | .call | .invoke | .superInvoke | .inherit
  | .startImport => true
  | _ => false

/-- Operand `a` is a constant index (`read_constant`). -/
def Instr.usesConst (i : Instr) : Bool :=
  match i.op with
  | .constant | .getGlobal | .defineGlobal | .setGlobal | .getProperty | .setProperty | .getSuper
  | .declareClass | .method | .staticMethod | .startImport | .invoke | .superInvoke | .closure => true
  | _ => false

/-- Operand `a` is a constant index that the VM `expect`s to be a string (`read_string`). -/
def Instr.usesName (i : Instr) : Bool :=
  i.usesConst && i.op != .constant && i.op != .closure

def Instr.usesLocal (i : Instr) : Bool := i.op == .getLocal || i.op == .setLocal
def Instr.usesUpvalue (i : Instr) : Bool := i.op == .getUpvalue || i.op == .setUpvalue

/-- Kind of constant the VM expects for this instruction's constant operand. -/
def Instr.constOk (i : Instr) (c : Const) : Bool :=
  if i.usesName then c == .str
  else if i.op == .closure then (match c with | .fn _ n => i.ups.length == n | _ => false)
  else true

/-- Control flow of an instruction at `pc` (targets are absolute offsets). -/
inductive Flow where
  | next                          -- falls through
  | jump (t : Nat)                -- unconditional
  | branch (t : Nat)              -- falls through or jumps
  | ret                           -- `Return`: leaves the frame
  | throw                         -- `Throw`: always raises
  | jumpFinally
  | endFinally
  | pushHandler (catchPc finallyPc : Nat)
  | popHandler
  | invalid                       -- `Loop` to before the start of the code
  deriving DecidableEq, Repr

def Instr.flow (i : Instr) (pc : Nat) : Flow :=
  let nxt := pc + i.size
  match i.op with
  | .jump => .jump (nxt + i.a)
  | .jumpIfFalse | .jumpIfStopIter => .branch (nxt + i.a)
  | .loop => if i.a ≤ nxt then .jump (nxt - i.a) else .invalid
  | .return_ => .ret
  | .throw => .throw
  | .jumpFinally => .jumpFinally
  | .endFinally => .endFinally
  | .pushExcHandler => .pushHandler (nxt + i.a) (nxt + i.a + i.b)
  | .popExcHandler => .popHandler
  | _ => .next

/-- An exception handler as recorded by `ObjFiber::push_exc_handler`, frame-relative:
`initHeight = init_stack_size - slot_base`.  The verifier's abstract handlers are the same records. -/
structure Handler where
  catchPc : Nat
  finallyPc : Nat
  initHeight : Nat
  deriving DecidableEq, Repr, Inhabited

end Yarel.Bytecode
