/-
Exact software model of IEEE-754 binary64 arithmetic on `UInt64` bit patterns (no `Float`), as used by the yarel VM
(yarel/src/vm.rs: `a + b`, `a - b`, `a * b`, `a / b`, `a % b`, `-a`, and the `as i64` bit operators).

Everything is computed with exact `Nat`/`Int` arithmetic and one rounding function `roundRat`
(round to nearest, ties to even, overflow to infinity, gradual underflow).
-/
import Yarel.Model.F64Core

namespace Yarel.F64

/-- Assemble sign bit and the 63 magnitude bits. -/
def pack (sign : Bool) (mag : Nat) : Bits :=
  UInt64.ofNat ((if sign then 2 ^ 63 else 0) + mag)

/-- Magnitude bits of +infinity. -/
def infMag : Nat := 0x7FF0000000000000

/-- Round-half-even of `n / d` to a natural number. -/
def roundHalfEven (n d : Nat) : Nat :=
  let q := n / d
  let r := n % d
  if d < 2 * r then q + 1
  else if 2 * r = d ∧ q % 2 = 1 then q + 1
  else q

/-- The 63 magnitude bits of the double nearest to `num/den` (`den > 0`); `infMag` on overflow.
With `N/den = num/den * 2^1074` (the value in units of the smallest subnormal), the unit in the last place is
`2^t` such units, `t = ⌊log₂ (N/den)⌋ - 52` (truncated at 0: gradual underflow); the rounded significand `m ≤ 2^53`
is placed by `t * 2^52 + m`, which is the IEEE encoding for subnormals (`t = 0`, `m < 2^52`), for normals
(the hidden bit adds one to the exponent field) and for a carry out of the significand (`m = 2^53`). -/
def roundMag (num den : Nat) : Nat :=
  let N := num * 2 ^ 1074
  let t := (N / den).log2 - 52
  let m := roundHalfEven N (den * 2 ^ t)
  let bits := t * 2 ^ 52 + m
  if infMag ≤ bits then infMag else bits

/-- Correctly rounded double (nearest, ties to even) of `(-1)^sign * num / den`, `den > 0`. -/
def roundRat (sign : Bool) (num den : Nat) : Bits := pack sign (roundMag num den)

/-- `(-1)^sign * m * 2^e` rounded. -/
def roundScaled (sign : Bool) (m : Nat) (e : Int) : Bits :=
  roundRat sign (if e < 0 then m else m * 2 ^ e.toNat) (if e < 0 then 2 ^ (-e).toNat else 1)

/-- Rust `i as f64` (any integer width): round to nearest even. -/
def ofInt (i : Int) : Bits := roundRat (i < 0) i.natAbs 1

def inf (sign : Bool) : Bits := if sign then negInf else posInf
def zero (sign : Bool) : Bits := if sign then negZero else posZero

/-- Signed integer `(-1)^s * m`. -/
def sInt (s : Bool) (m : Nat) : Int := if s then -(m : Int) else (m : Int)

/-- IEEE addition, round to nearest even. -/
def add (a b : Bits) : Bits :=
  if isNaN a || isNaN b then canonNaN
  else if isInf a then (if isInf b && signBit a != signBit b then canonNaN else a)
  else if isInf b then b
  else
    let (sa, ma, ea) := decode a
    let (sb, mb, eb) := decode b
    let e := min ea eb
    let s : Int := sInt sa (ma * 2 ^ (ea - e).toNat) + sInt sb (mb * 2 ^ (eb - e).toNat)
    if s = 0 then zero (sa && sb)
    else roundScaled (s < 0) s.natAbs e

def sub (a b : Bits) : Bits := add a (neg b)

def mul (a b : Bits) : Bits :=
  if isNaN a || isNaN b then canonNaN
  else
    let s := signBit a != signBit b
    if isInf a then (if isZero b then canonNaN else inf s)
    else if isInf b then (if isZero a then canonNaN else inf s)
    else
      let (_, ma, ea) := decode a
      let (_, mb, eb) := decode b
      roundScaled s (ma * mb) (ea + eb)

def div (a b : Bits) : Bits :=
  if isNaN a || isNaN b then canonNaN
  else
    let s := signBit a != signBit b
    if isInf a then (if isInf b then canonNaN else inf s)
    else if isInf b then zero s
    else if isZero b then (if isZero a then canonNaN else inf s)
    else
      let (_, ma, ea) := decode a
      let (_, mb, eb) := decode b
      -- (ma * 2^ea) / (mb * 2^eb)
      let d := ea - eb
      roundRat s (if d < 0 then ma else ma * 2 ^ d.toNat) (if d < 0 then mb * 2 ^ (-d).toNat else mb)

/-- C `fmod` (Rust `%` on `f64`): exact, sign of the dividend. -/
def fmod (a b : Bits) : Bits :=
  if isNaN a || isNaN b then canonNaN
  else if isInf a || isZero b then canonNaN
  else if isInf b then a
  else if isZero a then a
  else
    let (sa, ma, ea) := decode a
    let (_, mb, eb) := decode b
    let e := min ea eb
    let r := (ma * 2 ^ (ea - e).toNat) % (mb * 2 ^ (eb - e).toNat)
    roundScaled sa r e

/-- Rust `f as i64`. -/
def toI64 (b : Bits) : Int := toIsize b

/-- Rust `f as u32`: NaN ↦ 0, negative ↦ 0, saturating at `u32::MAX`, truncating. -/
def toU32Sat (b : Bits) : Nat :=
  if isNaN b then 0
  else if signBit b then 0
  else if isInf b then 4294967295
  else min (truncMag b) 4294967295

/-- Two's complement view of an `i64`. -/
def i64ToU (i : Int) : Nat := (i % 18446744073709551616).toNat
/-- Wrap a natural number to the `i64` it denotes modulo 2^64. -/
def uToI64 (n : Nat) : Int :=
  let r := n % 18446744073709551616
  if r < 9223372036854775808 then (r : Int) else (r : Int) - 18446744073709551616

def band (a b : Bits) : Bits := ofInt (uToI64 (i64ToU (toI64 a) &&& i64ToU (toI64 b)))
def bor (a b : Bits) : Bits := ofInt (uToI64 (i64ToU (toI64 a) ||| i64ToU (toI64 b)))
def bxor (a b : Bits) : Bits := ofInt (uToI64 (i64ToU (toI64 a) ^^^ i64ToU (toI64 b)))
def bnot (a : Bits) : Bits := ofInt (-(toI64 a) - 1)

/-- `(a as i64).checked_shl(b as u32).unwrap_or_default() as f64`. -/
def shl (a b : Bits) : Bits :=
  let sh := toU32Sat b
  if 64 ≤ sh then ofInt 0 else ofInt (uToI64 (i64ToU (toI64 a) * 2 ^ sh))

/-- `(a as i64).checked_shr(b as u32).unwrap_or_default() as f64` (arithmetic shift). -/
def shr (a b : Bits) : Bits :=
  let sh := toU32Sat b
  if 64 ≤ sh then ofInt 0 else ofInt (toI64 a / ((2 ^ sh : Nat) : Int))

def gt (a b : Bits) : Bool := lt b a

end Yarel.F64
