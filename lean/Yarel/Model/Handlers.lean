/-
Mechanism model of the per-fiber exception-handler stack of the yarel VM.

Transcribed from
  object.rs  `ExcHandler`, `ObjFiber::{push_exc_handler, pop_exc_handler, take_return_data}`
  vm.rs      `push_exc_handler_impl`, `pop_exc_handler_impl`, `throw_impl`, `unwind_stack`,
             `jump_finally_impl`, `end_finally_impl`, `try_handle_error`
  stack.rs   `Stack::{peek, pop, push, truncate}`

Bug-compatible: where the Rust code panics (or, in unchecked builds, reads/writes outside the live part
of the value stack) the model returns an explicit `Fault`.

Core Lean only (this file is linked into the driver executable).
-/
namespace Yarel

/-- Values, as far as the bookkeeping models care: they are only moved around and compared. -/
inductive Val where
  | nil
  | num (n : Nat)
  | closure (id : Nat)
  | fiber (id : Nat)
  | fiberClass
deriving DecidableEq, Repr, Inhabited

namespace Handlers

/-- `object::STACK_MAX = LOCALS_MAX * FRAMES_MAX`. -/
def stackMax : Nat := 16384

/-- `object::ExcHandler`. Code addresses are offsets. -/
structure Handler where
  catchIp : Nat
  finallyIp : Nat
  initStack : Nat
  frameCount : Nat
deriving DecidableEq, Repr

/-- Rust: `ExcHandler::has_catch_block()`, which is MISNAMED: `finally_ip == catch_ip` holds exactly
when the try statement has NO catch block (the catch part has size 0). -/
def Handler.noCatch (h : Handler) : Bool := h.finallyIp == h.catchIp

inductive Fault where
  /-- `peek`/`pop` on an empty value stack (panic in checked builds, out-of-bounds access otherwise). -/
  | emptyStack
  /-- `Stack::truncate(n)` with `n > len`: a no-op in checked builds, but in unchecked builds it RAISES the
  stack top and exposes dead slots. The two builds differ, so the model stops here. -/
  | growTruncate
  /-- `Stack::push` on a full stack. -/
  | overflow
  /-- `current_frame_mut().unwrap()` with no frame left. -/
  | noFrame
  /-- `jump_finally_impl`: `.expect("Expected ExcHandler.")`. -/
  | noHandler
deriving DecidableEq, Repr

/-- The part of `ObjFiber` these operations read or write. `stack` is bottom-first (slot 0 first);
`frames` is `frames.len()`; `handlers` has the TOP of the Rust `Vec` at its head. -/
structure Fiber where
  stack : List Val
  frames : Nat
  handlers : List Handler
  returnIp : Option Nat
  returnValue : Val
  errorIp : Option Nat
deriving DecidableEq, Repr

/-- The active fiber together with the VM registers involved. -/
structure Vm where
  fb : Fiber
  /-- `Vm::handling_exception` (VM-wide, not per fiber). -/
  handling : Bool
  /-- `Vm::ip`. -/
  pc : Nat
deriving DecidableEq, Repr

inductive Res where
  | ok (m : Vm)
  /-- `unwind_stack` found no handler: `run` returns `Err(new_error_from_value(exc))`, the run ends.
  `m` is the state left behind (nothing is cleaned up here; see `runtime_error`/`reset_stack`). -/
  | ended (exc : Val) (m : Vm)
  | fault (f : Fault)
deriving DecidableEq, Repr

/-- `ObjFiber::push_exc_handler` called from `push_exc_handler_impl`: the two `u16` operands have been read
(`pc + 4`), `catch_ip = ip + try_size`, `finally_ip = ip + try_size + catch_size`; the record is
`{catch_ip, finally_ip, init_stack_size: stack.len(), frame_count: frames.len()}`. -/
def mkHandler (m : Vm) (trySize catchSize : Nat) : Handler :=
  { catchIp := m.pc + 4 + trySize, finallyIp := m.pc + 4 + trySize + catchSize,
    initStack := m.fb.stack.length, frameCount := m.fb.frames }

def pushHandler (m : Vm) (trySize catchSize : Nat) : Vm :=
  { m with pc := m.pc + 4, fb := { m.fb with handlers := mkHandler m trySize catchSize :: m.fb.handlers } }

/-- `pop_exc_handler_impl`: `exc_handlers.pop()` with the result ignored; on an empty `Vec` nothing happens. -/
def popHandler (m : Vm) : Vm :=
  { m with fb := { m.fb with handlers := m.fb.handlers.tail } }

/-- `Vm::unwind_stack`. -/
def unwind (m : Vm) : Res :=
  match m.fb.stack.getLast? with
  | none => .fault .emptyStack                      -- `self.peek(0)`
  | some exc =>
    match m.fb.handlers with
    | [] => .ended exc m                            -- `Err(self.new_error_from_value(exc_object))`
    | h :: r =>
      if m.fb.stack.length < h.initStack then .fault .growTruncate
      else if stackMax ≤ h.initStack then .fault .overflow
      -- `frames.truncate(frame_count)` leaves `min frames frame_count` frames (`Vec::truncate`)
      else if min m.fb.frames h.frameCount = 0 then .fault .noFrame   -- `current_frame_mut().unwrap()`
      else
          .ok { fb := { m.fb with stack := m.fb.stack.take h.initStack ++ [exc],
                                  frames := min m.fb.frames h.frameCount, handlers := r },
                handling := h.noCatch,
                pc := h.catchIp }

/-- `Vm::throw_impl`. -/
def throw (m : Vm) : Res :=
  unwind { m with handling := true, fb := { m.fb with errorIp := some m.pc } }

/-- `Vm::try_handle_error` (a failing instruction): push the error object, unwind. `handling_exception` is
NOT set here. -/
def raise (m : Vm) (e : Val) : Res :=
  if stackMax ≤ m.fb.stack.length then .fault .overflow
  else unwind { m with fb := { m.fb with stack := m.fb.stack ++ [e] } }

/-- The error path of `Vm::call_native`: a native called with `argCount` arguments returned `Err`.
`if !native.manages_stack { self.discard(arg_count) }`, then `self.poke(0, exc_object)` – the error object
REPLACES the top slot (the callee) – then `unwind_stack`. (`discard = 0` for natives that manage the stack
themselves, such as `Fiber.call`/`Fiber.yield`.) `handling_exception` is not set. -/
def nativeFail (m : Vm) (e : Val) (discard : Nat) : Res :=
  if m.fb.stack.length ≤ discard then .fault .emptyStack
  else unwind { m with fb := { m.fb with stack := (m.fb.stack.take (m.fb.stack.length - discard)).dropLast ++ [e] } }

/-- `Vm::jump_finally_impl`. -/
def jumpFinally (m : Vm) : Res :=
  match m.fb.stack.getLast? with
  | none => .fault .emptyStack
  | some v =>
    match m.fb.handlers with
    | [] => .fault .noHandler
    | h :: r =>
      -- the value was popped first: the stack is `dropLast` when it is truncated
      if m.fb.stack.dropLast.length < h.initStack then .fault .growTruncate
      else
        .ok { m with pc := h.finallyIp,
                     fb := { m.fb with returnIp := some m.pc, returnValue := v,
                                       stack := m.fb.stack.dropLast.take h.initStack, handlers := r } }

/-- `ObjFiber::take_return_data` followed by the `push`/`ip` assignment of `end_finally_impl`. -/
def takeReturnData (m : Vm) : Res :=
  match m.fb.returnIp with
  | none => .ok m
  | some ip =>
    if stackMax ≤ m.fb.stack.length then .fault .overflow
    else .ok { m with pc := ip,
                      fb := { m.fb with returnIp := none, returnValue := .nil,
                                        stack := m.fb.stack ++ [m.fb.returnValue] } }

/-- `Vm::end_finally_impl`. -/
def endFinally (m : Vm) : Res :=
  if m.handling then
    match unwind m with
    | .ok m' => takeReturnData m'
    | r => r
  else takeReturnData m

/-! ### dynamic traces -/

/-- One executed operation. Besides the six handler operations there are "neutral" ones standing for the
rest of the instruction set: they move the value stack, the frame count and `pc`, never the handlers. -/
inductive Op where
  | pushH (trySize catchSize : Nat)
  | popH
  | throw
  | raise (e : Val)
  | nativeFail (e : Val) (discard : Nat)
  | jumpFinally
  | endFinally
  | pushV (v : Val)
  | popV
  | call
  | ret
  | jump (pc : Nat)
deriving DecidableEq, Repr

def Op.neutral : Op → Bool
  | .pushV _ | .popV | .call | .ret | .jump _ => true
  | _ => false

def step (m : Vm) : Op → Res
  | .pushH t c => .ok (pushHandler m t c)
  | .popH => .ok (popHandler m)
  | .throw => throw m
  | .raise e => raise m e
  | .nativeFail e n => nativeFail m e n
  | .jumpFinally => jumpFinally m
  | .endFinally => endFinally m
  | .pushV v =>
    if stackMax ≤ m.fb.stack.length then .fault .overflow
    else .ok { m with fb := { m.fb with stack := m.fb.stack ++ [v] } }
  | .popV =>
    if m.fb.stack = [] then .fault .emptyStack
    else .ok { m with fb := { m.fb with stack := m.fb.stack.dropLast } }
  | .call => .ok { m with fb := { m.fb with frames := m.fb.frames + 1 } }
  | .ret =>
    if m.fb.frames ≤ 1 then .fault .noFrame       -- leaving the last frame is a fiber matter (Fibers.lean)
    else .ok { m with fb := { m.fb with frames := m.fb.frames - 1 } }
  | .jump pc => .ok { m with pc := pc }

/-- Execute a dynamic trace (the operations in the order they were executed); stops at the first
operation that does not return normally. -/
def run (m : Vm) : List Op → Res
  | [] => .ok m
  | o :: os =>
    match step m o with
    | .ok m' => run m' os
    | r => r

/-! ### the handler events of a trace -/

/-- What an operation did to the handler `Vec`. -/
inductive Ev where
  | installed (h : Handler)
  | removedByPop (h : Handler)       -- `PopExcHandler`, or the pop inside `jump_finally_impl`
  | removedByUnwind (h : Handler)    -- the pop inside `unwind_stack`: `h` is the handler jumped to
deriving DecidableEq, Repr

/-- Does `unwind_stack` run in this step? -/
def unwinds (m : Vm) : Op → Bool
  | .throw | .raise _ | .nativeFail _ _ => true
  | .endFinally => m.handling
  | _ => false

/-- The handler events of one step, read off the state before it. -/
def events (m : Vm) (o : Op) : List Ev :=
  match o with
  | .pushH t c => [.installed (mkHandler m t c)]
  | .popH | .jumpFinally =>
    match m.fb.handlers with
    | [] => []
    | h :: _ => [.removedByPop h]
  | o =>
    if unwinds m o then
      match m.fb.handlers with
      | [] => []
      | h :: _ => [.removedByUnwind h]
    else []

def log (m : Vm) : List Op → List Ev
  | [] => []
  | o :: os =>
    events m o ++
      match step m o with
      | .ok m' => log m' os
      | _ => []

/-- An abstract LIFO stack replaying an event: a removal is only possible for THE TOP element. -/
def replay1 (s : List Handler) : Ev → Option (List Handler)
  | .installed h => some (h :: s)
  | .removedByPop h | .removedByUnwind h =>
    match s with
    | h' :: r => if h' = h then some r else none
    | [] => none

def replay (s : List Handler) : List Ev → Option (List Handler)
  | [] => some s
  | e :: es =>
    match replay1 s e with
    | some s' => replay s' es
    | none => none

def Ev.isInstall : Ev → Bool
  | .installed _ => true
  | _ => false

/-! ### well-bracketed regions -/

/-- `Bal f ops g`: the dynamic trace `ops` is a well-bracketed region that is entered with
`handling_exception = f` and left with `handling_exception = g`.

A try statement contributes `pushH … body …` closed by exactly one of
* `popH`         – the try block ran to its end,
* `jumpFinally`  – `return` inside the try block,
* `throw` / `raise e` / `nativeFail e n` – the body raised and the unwind selected this handler,
* `endFinally`   – a nested `finally` re-raised (only when the flag is set at that point);
bodies are again well-bracketed, to any depth. -/
inductive Bal : Bool → List Op → Bool → Prop where
  | nil (f : Bool) : Bal f [] f
  | neutral (f : Bool) (o : Op) (h : o.neutral = true) : Bal f [o] f
  | finallyQuiet : Bal false [.endFinally] false
  | append {f g k : Bool} {a b : List Op} : Bal f a g → Bal g b k → Bal f (a ++ b) k
  | tryOk {f g : Bool} {b : List Op} (t c : Nat) : Bal f b g → Bal f (.pushH t c :: (b ++ [.popH])) g
  | tryReturn {f g : Bool} {b : List Op} (t c : Nat) :
      Bal f b g → Bal f (.pushH t c :: (b ++ [.jumpFinally])) g
  | tryThrow {f g : Bool} {b : List Op} (t c : Nat) :
      Bal f b g → Bal f (.pushH t c :: (b ++ [.throw])) (c == 0)
  | tryRaise {f g : Bool} {b : List Op} (t c : Nat) (e : Val) :
      Bal f b g → Bal f (.pushH t c :: (b ++ [.raise e])) (c == 0)
  | tryNativeFail {f g : Bool} {b : List Op} (t c : Nat) (e : Val) (n : Nat) :
      Bal f b g → Bal f (.pushH t c :: (b ++ [.nativeFail e n])) (c == 0)
  | tryReraise {f : Bool} {b : List Op} (t c : Nat) :
      Bal f b true → Bal f (.pushH t c :: (b ++ [.endFinally])) (c == 0)

/-- `n` nested try statements whose blocks all complete normally around `body`. -/
def nest (body : List Op) : Nat → List Op
  | 0 => body
  | n + 1 => .pushH 10 5 :: (nest body n ++ [.popH])

end Handlers
end Yarel
