/-
core.yl's class `Iter` at the level of OBJECTS (what a user class deriving `Iter` inherits), on top of the
iterator-level model `Yarel/Model/Iter.lean`.

```
class Iter {
    fn iter(self)              { return self; }                              // overridable
    fn map(self, f)            { return MapIter.new(self.iter(), f); }
    fn collect(self)           { var ret = []; for v in self { ret.push(v); } return ret; }
    fn filter(self, pred)      { return FilterIter.new(self.iter(), pred); }
    fn reduce(self, func, init){ var ret = init; for v in self { ret = func(ret, v); } return ret; }
}
```
The text of these methods (and of MapIter / FilterIter) is regenerated from /repo/yarel/src/core.yl into
`Yarel/Gen/CoreLib.lean` on every run; `transcribed` below is the text this file was written against and
`Props/C18.lean` proves the two equal, so an edit of core.yl breaks a proof obligation.

A `for` loop evaluates `<expr>.iter()` once (opcode `Iter`) and pulls from what that answers; `collect` and
`reduce` are `for` loops over `self`; `map` and `filter` call `self.iter()` when the adapter is built.
The object's own `iter()` is arbitrary user code: it may rewind the object and answer it, answer another
object, or throw.
-/
import Yarel.Model.Iter
namespace Yarel.Iter
open Yarel.Index (Outcome Site)

/-- An object offering the protocol. `σ` holds objects and iterators alike (an object may be its own
iterator). `iterM o w` is `o.iter()`: the state of the iterator object it answers; `next` is that
iterator's `next()`. -/
structure Proto (σ W α : Type) where
  iterM : σ → W → Outcome (σ × W)
  next : Step σ W α

/-- `#[derive(Iter)]` without overriding `iter`: `fn iter(self) { return self; }`. -/
def Proto.ofStep {σ W α : Type} (next : Step σ W α) : Proto σ W α := ⟨fun s w => .ok (s, w), next⟩

/-- `o.map(f)`: a `MapIter` whose `iterable` is what `o.iter()` answered NOW. The `MapIter` answers itself
from `iter()`, so as a `Proto` it is `ofStep (mapNext P.next f)` in the state `iterM` answered. -/
def Proto.mapObj {σ W α : Type} (P : Proto σ W α) (f : Fn W α (Item α)) (o : σ) (w : W) :
    Outcome (σ × W) × Proto σ W α :=
  (P.iterM o w, Proto.ofStep (mapNext P.next f))

/-- `o.filter(p)`: likewise a `FilterIter` over what `o.iter()` answered now. -/
def Proto.filterObj {σ W α : Type} (P : Proto σ W α) (p : Fn W α Bool) (fuel : Nat) (o : σ) (w : W) :
    Outcome (σ × W) × Proto σ W α :=
  (P.iterM o w, Proto.ofStep (filterNext P.next p fuel))

/-- `o.collect()`: `for v in self` calls `self.iter()` and pulls from the answer. -/
def Proto.collectObj {σ W α : Type} (P : Proto σ W α) (fuel : Nat) (o : σ) (w : W) :
    Outcome (σ × W × List (Item α)) :=
  match P.iterM o w with
  | .ok (it, w1) => collect P.next fuel it w1
  | .err e => .err e
  | .fault s => .fault s

/-- `o.reduce(g, init)`. -/
def Proto.reduceObj {σ W α β : Type} (P : Proto σ W α) (g : β → Fn W (Item α) β) (init : β) (fuel : Nat)
    (o : σ) (w : W) : Outcome (σ × W × β) :=
  match P.iterM o w with
  | .ok (it, w1) => reduce P.next g init fuel it w1
  | .err e => .err e
  | .fault s => .fault s

/-- `for v in o { body }`. -/
def Proto.forObj {σ W α : Type} (P : Proto σ W α) (body : Body W α) (fuel : Nat) (o : σ) (w : W) :
    Outcome (LoopEnd σ W α) :=
  match P.iterM o w with
  | .ok (it, w1) => forLoop P.next body fuel it w1
  | .err e => .err e
  | .fault s => .fault s

/-- `adapter(o).consume()` for an adapter built by `mapObj` / `filterObj`: run `k` on the adapter in the
state and world its construction left. -/
def andThen {σ W γ : Type} (r : Outcome (σ × W)) (k : σ → W → Outcome γ) : Outcome γ :=
  match r with
  | .ok (it, w1) => k it w1
  | .err e => .err e
  | .fault s => .fault s

/-- What `filter` would be if it wrapped `self` instead of `self.iter()` (the same for `map`): used only
to show that the `iter()` call is what the theorems rest on. -/
def Proto.filterObjNoIter {σ W α : Type} (P : Proto σ W α) (p : Fn W α Bool) (fuel : Nat) (o : σ) (w : W) :
    Outcome (σ × W) × Proto σ W α :=
  (.ok (o, w), Proto.ofStep (filterNext P.next p fuel))

/-! ### Two concrete user classes (what the driver's `obj` requests run)

```
#[derive(Iter)] class Counter {            // restartable: iter() rewinds
    #[constructor] fn new(self, max) { self.max = max; self.pos = 0; }
    fn iter(self) { self.pos = 0; return self; }
    fn next(self) { if self.pos == self.max { return StopIter.new(); } self.pos += 1; return self.pos; }
}
#[derive(Iter)] class Bag {                // container: iter() answers a separate iterator, Bag has no next()
    #[constructor] fn new(self, items) { self.items = items; }
    fn iter(self) { return self.items.iter(); }
}
```
-/

/-- Counter: the state is `pos`. -/
def counterProto (max : Nat) : Proto Nat Unit Int :=
  { iterM := fun _ w => .ok (0, w)
    next := fun pos w => if pos == max then .ok (pos, w, .stop) else .ok (pos + 1, w, .val (Int.ofNat (pos + 1))) }

/-- Bag over vector 0 of the store: `none` is the bag itself (no `next` method: AttributeError),
`some it` a vector iterator. -/
def bagProto (store : Store Int) : Proto (Option VecIter) Unit Int :=
  { iterM := fun _ w => .ok (some (vecIterNew 0), w)
    next := fun s w => match s with
      | none => Yarel.Index.mkErr .AttributeError .undefinedProperty
      | some it => match vecIterNext store it with
        | .ok (it1, v) => .ok (some it1, w, v)
        | .err e => .err e
        | .fault st => .fault st }

/-! ### The text of core.yl this model transcribes

(class, method, parameters, body) with the body's tokens separated by single blanks; compare
`Yarel.Gen.coreLibMethods`. -/
def transcribed : List (String × String × String × String) :=
  [ ("StopIter", "new", "self", "super . new ( nil ) ;")
  , ("Iter", "iter", "self", "return self ;")
  , ("Iter", "map", "self , f", "return MapIter . new ( self . iter ( ) , f ) ;")
  , ("Iter", "collect", "self", "var ret = [ ] ; for v in self { ret . push ( v ) ; } return ret ;")
  , ("Iter", "filter", "self , pred", "return FilterIter . new ( self . iter ( ) , pred ) ;")
  , ("Iter", "reduce", "self , func , init", "var ret = init ; for v in self { ret = func ( ret , v ) ; } return ret ;")
  , ("MapIter", "new", "self , iterable , func", "self . iterable = iterable ; self . func = func ;")
  , ("MapIter", "iter", "self", "return self ;")
  , ("MapIter", "next", "self",
     "var next = self . iterable . next ( ) ; if next . derives ( StopIter ) { return next ; } return self . func ( next ) ;")
  , ("FilterIter", "new", "self , iterable , predicate", "self . iterable = iterable ; self . predicate = predicate ;")
  , ("FilterIter", "iter", "self", "return self ;")
  , ("FilterIter", "next", "self",
     "var next = self . iterable . next ( ) ; while ! next . derives ( StopIter ) && ! self . predicate ( next ) { next = self . iterable . next ( ) ; } return next ;")
  ]

/-- The classes of core.yl the iteration protocol rests on. -/
def iterClasses : List String := ["StopIter", "Iter", "MapIter", "FilterIter"]

end Yarel.Iter
