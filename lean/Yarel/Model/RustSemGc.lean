/-
The meaning given to what `xlate` emits for the three collector passes of memory.rs - `Heap::mark_roots`, `Heap::trace_references`,
`Heap::sweep` - when it translates their bodies (Yarel/Gen/Fns.lean).  Hand-written, fixed; trusted base of `Props/FnsTie/GcPasses.lean`.

`self.objects : Vec<Pin<Box<GcBox<dyn GcManaged>>>>` is the state `Rs.GcHeap`:
* `objs`   the boxes as the collector sees them (number of roots, size of the data, the pointers the `mark` / `blacken` bodies of the
           data visit, in order: `Gc.Obj`); a collection never changes them;
* `cols`   the colour cell of every box (`Cell<Colour>`: written through shared references, also of OTHER boxes than the one the
           iterator stands on);
* `live`   which boxes `self.objects` holds, in order, as indices into `objs` (`retain` shortens it);
* `fuel`   bound on the machine steps of one top-level `mark()` / `blacken()` call (native recursion through the data's pointers).

A box handed to a closure (`|obj| ...`) is its index.  Iterator chains are LAZY, as in Rust: `iter_mut().filter(p).map(f).count()` tests
`p` on a box when the iterator reaches it, i.e. after `f` ran on the boxes before it.

`GcBox::mark` / `GcBox::blacken` / `GcBox::unmark` are not translated statement by statement (they recurse through `dyn GcManaged`): their
bodies are compared with the text this file assumes on every run (xlate/src/fnbody_gc.rs), their meaning is `Gc.runCalls` - one call is the
call-stack machine of Model/Gc.lean started on that call - and what `data.mark()` / `data.blacken()` visit is tied to the sources by the
generated schema (Gen/GcSchema.lean) and to runs by the traced-edge log (C01).
A fault of the machine (`dangling`: undefined behaviour in the real program; `outOfFuel`: the real call does not return within the bound)
is `M.panic` here: the translated pass yields no state.
-/
import Yarel.Model.RustSem
import Yarel.Model.Gc
namespace Yarel.Rs

structure GcHeap where
  objs : Gc.Heap
  cols : Array Gc.Colour
  live : List Nat
  fuel : Nat

namespace GcHeap

/-- `obj.colour.get() == Colour::X` -/
def hasColour (g : GcHeap) (i : Nat) (c : Gc.Colour) : Bool := decide (g.cols[i]? = some c)

/-- `obj.num_roots.get()` -/
def rootsAt (g : GcHeap) (i : Nat) : Int :=
  match g.objs[i]? with
  | some o => (o.roots : Int)
  | none => 0

/-- `mem::size_of_val(&obj.data)` -/
def sizeAt (g : GcHeap) (i : Nat) : Int := (Gc.sizeAt g.objs i : Int)

/-- `obj.unmark()`: `self.colour.set(Colour::White)` -/
def unmark (g : GcHeap) (i : Nat) : GcHeap := { g with cols := g.cols.setIfInBounds i .white }

/-- `obj.mark()` / `obj.blacken()`: the call-stack machine started on that one call. -/
def call (g : GcHeap) (op : Gc.TraceOp) (i : Nat) : M (Unit × GcHeap) :=
  match Gc.runCalls g.objs g.fuel g.cols [(op, i)] with
  | .ok c => .ok ((), { g with cols := c })
  | .error _ => .panic

/-- `self.objects.iter().filter(p).map(e).sum()` with closures that only read (a `usize` sum: unbounded here - the sizes of the boxes
on the heap add up to at most `bytes_allocated`, which is a `usize`). -/
def sumOver (g : GcHeap) (p : Nat → Bool) (e : Nat → Int) : Int := ((g.live.filter p).map e).sum

/-- `self.objects.iter().filter(p).count()` with a closure that only reads -/
def countOver (g : GcHeap) (p : Nat → Bool) : Int := ((g.live.filter p).length : Int)

/-- `self.objects.retain(p)` -/
def retain (g : GcHeap) (p : Nat → Bool) : GcHeap := { g with live := g.live.filter p }

def forEachFrom (f : Nat → GcHeap → M (Unit × GcHeap)) : List Nat → GcHeap → M (Unit × GcHeap)
  | [], g => .ok ((), g)
  | i :: is, g =>
    match f i g with
    | .ok (_, g') => forEachFrom f is g'
    | .panic => .panic

/-- `self.objects.iter_mut().for_each(f)`: over the boxes `self.objects` holds when the statement starts, in order -/
def forEach (g : GcHeap) (f : Nat → GcHeap → M (Unit × GcHeap)) : M (Unit × GcHeap) := forEachFrom f g.live g

def filterMapCountFrom (p : GcHeap → Nat → Bool) (f : Nat → GcHeap → M (Unit × GcHeap)) : List Nat → GcHeap → Int → M (Int × GcHeap)
  | [], g, n => .ok (n, g)
  | i :: is, g, n =>
    if p g i then
      match f i g with
      | .ok (_, g') => filterMapCountFrom p f is g' (n + 1)
      | .panic => .panic
    else filterMapCountFrom p f is g n

/-- `self.objects.iter_mut().filter(p).map(f).count()`: `p` is asked when the iterator reaches the box -/
def filterMapCount (g : GcHeap) (p : GcHeap → Nat → Bool) (f : Nat → GcHeap → M (Unit × GcHeap)) : M (Int × GcHeap) :=
  filterMapCountFrom p f g.live g 0

end GcHeap

/-- `while c { body }` over the variables the body assigns; `none` = the bound on the passes ran out with `c` still true. -/
def whileN {σ : Type} (c : σ → Bool) (f : σ → M σ) : Nat → σ → M (Option σ)
  | 0, s => if c s then .ok none else .ok (some s)
  | fuel + 1, s =>
    if c s then
      match f s with
      | .ok s' => whileN c f fuel s'
      | .panic => .panic
    else .ok (some s)

end Yarel.Rs
