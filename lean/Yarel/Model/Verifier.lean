/-
Bytecode verifier for one yarel function: worklist abstract interpretation over
`(height, handler stack, pending return addresses)` per code offset, followed by an explicit check
`checkAnnot` that the result is closed under every edge.  Soundness (Yarel/Props/C04.lean) is proved
from `checkAnnot fn σ = true` alone; the worklist itself is not trusted.

Abstract state at an offset (BEFORE the instruction there executes):
* `height`   — operand-stack height above the frame base (slot 0, parameters, locals, temporaries);
* `handlers` — the handlers this frame has installed (innermost first), each with catch/finally target
               and the height recorded by `PushExcHandler`;
* `rets`     — the return addresses `fiber.return_ip` may hold (set by `JumpFinally`, consumed by
               `EndFinally`); this component is a set and is joined by union, the other two must be
               EQUAL on every path.
-/
import Yarel.Model.Bytecode

namespace Yarel.Verifier
open Yarel.Bytecode

structure AbsState where
  height : Nat
  handlers : List Handler
  rets : List Nat
  deriving DecidableEq, Repr, Inhabited

abbrev Annot := Array (Option AbsState)

def Annot.at (σ : Annot) (pc : Nat) : Option AbsState :=
  match σ[pc]? with
  | some (some a) => some a
  | _ => none

inductive VerifyError where
  | emptyCode
  | unparsableCode                               -- the code is not a sequence of instructions
  | notBoundary (pc : Nat)                       -- reachable offset inside another instruction
  | decode (pc : Nat) (e : DecodeError)
  | stackUnderflow (pc height needs : Nat)       -- pops/peeks below the frame base
  | badConstant (pc idx : Nat)                   -- constant index out of range
  | constKind (pc idx : Nat)                     -- constant of the wrong kind (name not a string, ...)
  | badLocal (pc slot height : Nat)              -- local slot ≥ current height
  | badUpvalue (pc idx count : Nat)              -- upvalue index ≥ upvalue count
  | badCapture (pc : Nat)                        -- Closure descriptor names a missing slot/upvalue
  | jumpOutOfRange (pc target : Nat)             -- jump/fall-through/handler target outside the code
  | heightMismatch (pc h1 h2 : Nat)              -- two paths reach `pc` with different heights
  | handlerMismatch (pc d1 d2 : Nat)             -- ... with different handler stacks (depths given)
  | popWithoutHandler (pc : Nat)                 -- PopExcHandler with no handler of this frame
  | jumpFinallyWithoutHandler (pc : Nat)
  | handlerAboveOperands (pc initHeight height : Nat)  -- unwinding would not truncate to initHeight
  | handlerLeakAtReturn (pc depth : Nat)         -- Return with handlers of this frame still installed
  | pendingReturnLeak (pc : Nat)                 -- frame may be left with `return_ip` still set
  | outOfFuel
  | checkFailed (pc : Nat)                       -- internal: fixpoint check failed
  deriving DecidableEq, Repr

abbrev Edge := Nat × AbsState

def firstError : List (Bool × VerifyError) → Option VerifyError
  | [] => none
  | (ok, e) :: rest => if ok then firstError rest else some e

/-- The per-instruction checks, in the order in which they are reported. -/
def opChecks (fn : FnDump) (pc : Nat) (i : Instr) (a : AbsState) : List (Bool × VerifyError) :=
  [ (decide (i.needs ≤ a.height), .stackUnderflow pc a.height i.needs),
    (!i.usesConst || decide (i.a < fn.consts.size), .badConstant pc i.a),
    (!i.usesConst || (match fn.consts[i.a]? with | some c => i.constOk c | none => false),
      .constKind pc i.a),
    (!i.usesLocal || decide (i.a < a.height), .badLocal pc i.a a.height),
    (!i.usesUpvalue || decide (i.a < fn.upvalues), .badUpvalue pc i.a fn.upvalues),
    (i.ups.all (fun d => if d.1 then decide (d.2 ≤ a.height) else decide (d.2 < fn.upvalues)),
      .badCapture pc),
    (i.flow pc != .invalid, .jumpOutOfRange pc 0),
    (i.flow pc != .ret || a.handlers.isEmpty, .handlerLeakAtReturn pc a.handlers.length),
    (i.flow pc != .ret || a.rets.isEmpty, .pendingReturnLeak pc),
    (i.flow pc != .popHandler || !a.handlers.isEmpty, .popWithoutHandler pc),
    (i.flow pc != .jumpFinally || !a.handlers.isEmpty, .jumpFinallyWithoutHandler pc),
    (i.flow pc != .jumpFinally ||
      (match a.handlers with | h :: _ => decide (h.initHeight + 1 ≤ a.height) | [] => true),
      .handlerAboveOperands pc (match a.handlers with | h :: _ => h.initHeight | [] => 0) a.height),
    (!i.mayRaise || i.op == .endFinally ||
      (match a.handlers with | [] => a.rets.isEmpty | _ :: _ => true),
      .pendingReturnLeak pc),
    (!i.mayRaise ||
      (match a.handlers with | h :: _ => decide (h.initHeight + i.pops ≤ a.height) | [] => true),
      .handlerAboveOperands pc (match a.handlers with | h :: _ => h.initHeight | [] => 0) a.height) ]

def checkOps (fn : FnDump) (pc : Nat) (i : Instr) (a : AbsState) : Option VerifyError :=
  firstError (opChecks fn pc i a)

/-- Successors on normal completion. -/
def normalEdges (pc : Nat) (i : Instr) (a : AbsState) : List Edge :=
  let nxt := pc + i.size
  let a' : AbsState := { a with height := a.height - i.pops + i.pushes }
  match i.flow pc with
  | .next => [(nxt, a')]
  | .jump t => [(t, a')]
  | .branch t => [(nxt, a'), (t, a')]
  | .ret => []
  | .throw => []
  | .invalid => []
  | .pushHandler c f => [(nxt, { a with handlers := ⟨c, f, a.height⟩ :: a.handlers })]
  | .popHandler => [(nxt, { a with handlers := a.handlers.tail })]
  | .jumpFinally =>
    match a.handlers with
    | [] => []
    | h :: r => [(h.finallyPc, ⟨h.initHeight, r, [nxt]⟩)]
  | .endFinally =>
    (nxt, { a with rets := [] }) :: a.rets.map (fun r => (r, ⟨a.height + 1, a.handlers, []⟩))

/-- Successor when the instruction raises: the innermost handler's catch address with the stack cut to
the recorded height plus the exception object; no successor without a handler (the exception leaves
the frame). -/
def raiseEdges (i : Instr) (a : AbsState) : List Edge :=
  if i.mayRaise then
    match a.handlers with
    | [] => []
    | h :: r => [(h.catchPc, ⟨h.initHeight + 1, r, a.rets⟩)]
  else []

/-- The abstract transfer function at `pc`: decode, check, list the outgoing edges. -/
def edges (fn : FnDump) (pc : Nat) (a : AbsState) : Except VerifyError (List Edge) :=
  match decodeE fn pc with
  | .error e => .error (.decode pc e)
  | .ok i =>
    match checkOps fn pc i a with
    | some e => .error e
    | none => .ok (normalEdges pc i a ++ raiseEdges i a)

/-- `σ` covers the edge: the target is annotated with the same height and handlers and at least the
edge's pending return addresses. -/
def flowsTo (σ : Annot) (e : Edge) : Bool :=
  match σ.at e.1 with
  | some b => b.height == e.2.height && b.handlers == e.2.handlers &&
      e.2.rets.all (fun r => b.rets.contains r)
  | none => false

/-- Linear sweep: the offsets of the instruction sequence starting at `pc`, if the code from `pc` to
the end is a sequence of decodable instructions ending exactly at the end. -/
def sweep (fn : FnDump) : Nat → Nat → Option (List Nat)
  | 0, _ => none
  | fuel + 1, pc =>
    if pc = fn.code.size then some []
    else
      match decode fn pc with
      | none => none
      | some i =>
        match sweep fn fuel (pc + i.size) with
        | some l => some (pc :: l)
        | none => none

/-- Bitmap of the offsets in `bs` (only to make the boundary test constant-time). -/
def boundaryMap (n : Nat) (bs : List Nat) : Array Bool :=
  bs.foldl (fun m p => m.setIfInBounds p true) (Array.replicate n false)

def isMarked (m : Array Bool) (pc : Nat) : Bool :=
  match m[pc]? with
  | some true => true
  | _ => false

def checkAt (fn : FnDump) (σ : Annot) (pc : Nat) (a : AbsState) : Bool :=
  match edges fn pc a with
  | .ok es => es.all (flowsTo σ)
  | .error _ => false

/-- `σ` is a post-fixpoint of the abstract transfer function containing the entry state, and all
annotated offsets are instruction boundaries. -/
def checkAnnot (fn : FnDump) (σ : Annot) : Bool :=
  σ.size == fn.code.size &&
  (match σ.at 0 with
   | some a => a.height == fn.arity && a.handlers.isEmpty
   | none => false) &&
  (match sweep fn (fn.code.size + 1) 0 with
   | none => false
   | some bs =>
     let bm := boundaryMap fn.code.size bs
     (List.range fn.code.size).all fun pc =>
       match σ.at pc with
       | none => true
       | some a => isMarked bm pc && checkAt fn σ pc a)

/-! ### Worklist (untrusted) -/

structure WL where
  σ : Annot
  work : List Nat

def propagate (src : Nat) (wl : WL) (e : Edge) : Except VerifyError WL :=
  if e.1 < wl.σ.size then
    match wl.σ.at e.1 with
    | none => .ok { σ := wl.σ.setIfInBounds e.1 (some e.2), work := e.1 :: wl.work }
    | some b =>
      if b.height != e.2.height then .error (.heightMismatch e.1 b.height e.2.height)
      else if b.handlers != e.2.handlers then
        .error (.handlerMismatch e.1 b.handlers.length e.2.handlers.length)
      else if e.2.rets.all (fun r => b.rets.contains r) then .ok wl
      else
        let extra := e.2.rets.filter (fun r => !b.rets.contains r)
        .ok { σ := wl.σ.setIfInBounds e.1 (some { b with rets := b.rets ++ extra }),
              work := e.1 :: wl.work }
  else .error (.jumpOutOfRange src e.1)

def propagateAll (src : Nat) (wl : WL) : List Edge → Except VerifyError WL
  | [] => .ok wl
  | e :: es =>
    match propagate src wl e with
    | .ok wl' => propagateAll src wl' es
    | .error x => .error x

def loop (fn : FnDump) : Nat → WL → Except VerifyError Annot
  | 0, _ => .error .outOfFuel
  | fuel + 1, wl =>
    match wl.work with
    | [] => .ok wl.σ
    | pc :: rest =>
      match wl.σ.at pc with
      | none => .error (.checkFailed pc)
      | some a =>
        match edges fn pc a with
        | .error e => .error e
        | .ok es =>
          match propagateAll pc { wl with work := rest } es with
          | .error e => .error e
          | .ok wl' => loop fn fuel wl'

/-- Diagnostic only: where and why the linear sweep fails. -/
def sweepError (fn : FnDump) : Nat → Nat → VerifyError
  | 0, _ => .unparsableCode
  | fuel + 1, pc =>
    if pc = fn.code.size then .unparsableCode
    else
      match decodeE fn pc with
      | .error e => .decode pc e
      | .ok i => sweepError fn fuel (pc + i.size)

def firstNonBoundary (σ : Annot) (bm : Array Bool) : List Nat → Option Nat
  | [] => none
  | pc :: rest =>
    match σ.at pc with
    | some _ => if isMarked bm pc then firstNonBoundary σ bm rest else some pc
    | none => firstNonBoundary σ bm rest

/-- Verify one function.  `.ok σ` gives for every reachable offset the abstract state before the
instruction there; unreachable offsets are `none`. -/
def verify (fn : FnDump) : Except VerifyError Annot :=
  let n := fn.code.size
  if n = 0 then .error .emptyCode
  else
    match sweep fn (n + 1) 0 with
    | none => .error (sweepError fn (n + 1) 0)
    | some bs =>
      let σ0 : Annot := (Array.replicate n none).setIfInBounds 0 (some ⟨fn.arity, [], []⟩)
      match loop fn ((n + 1) * (n + 1) + 1) ⟨σ0, [0]⟩ with
      | .error e => .error e
      | .ok σ =>
        match firstNonBoundary σ (boundaryMap n bs) (List.range n) with
        | some pc => .error (.notBoundary pc)
        | none => if checkAnnot fn σ then .ok σ else .error (.checkFailed 0)

end Yarel.Verifier
