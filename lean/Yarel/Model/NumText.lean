/-
Number ↔ text conversion as yarel performs it:
  * `parseDec`  = Rust `str::parse::<f64>` (core::num::dec2flt), used by `compiler.rs: fn number` and `core.rs: string_to_num`;
  * `display`   = `impl fmt::Display for Value` (Number case): "-0" special case, otherwise Rust `{}` of the f64
                  (shortest round-trip digits, positional notation, no trailing ".0").
Texts are `List Char`; doubles are `UInt64` bit patterns.  No `Float`.
-/
import Yarel.Model.F64

namespace Yarel.NumText
open Yarel.F64

/-! ## Parsing -/

def isDigit (c : Char) : Bool := 48 ≤ c.toNat && c.toNat ≤ 57
/-- Value of a decimal digit character (only ever applied to digits). Written as a table rather than
`c.toNat - 48`, whose unfolding on open terms makes the elaborator's `whnf` blow up. -/
def digitVal (c : Char) : Nat :=
  if c = '0' then 0 else if c = '1' then 1 else if c = '2' then 2 else if c = '3' then 3
  else if c = '4' then 4 else if c = '5' then 5 else if c = '6' then 6 else if c = '7' then 7
  else if c = '8' then 8 else 9

/-- Value of a digit string (most significant first), accumulating. -/
def digitsVal (acc : Nat) : List Char → Nat
  | [] => acc
  | c :: cs => digitsVal (acc * 10 + digitVal c) cs

/-- Exponent digits as Rust accumulates them (`parse_scientific`): saturating once the value reaches 65536. -/
def expVal (acc : Nat) : List Char → Nat
  | [] => acc
  | c :: cs => expVal (if acc < 65536 then acc * 10 + digitVal c else acc) cs

/-- Split an optional leading sign. -/
def splitSign : List Char → Bool × List Char
  | '-' :: r => (true, r)
  | '+' :: r => (false, r)
  | r => (false, r)

def lower (s : List Char) : List Char := s.map Char.toLower

def isInfText (r : List Char) : Bool :=
  lower r == ['i', 'n', 'f'] || lower r == ['i', 'n', 'f', 'i', 'n', 'i', 't', 'y']
def isNanText (r : List Char) : Bool := lower r == ['n', 'a', 'n']

/-- The exponent part: empty, or `e`/`E`, optional sign, at least one digit, nothing after. -/
def parseExp : List Char → Option Int
  | [] => some 0
  | c :: t =>
    if c = 'e' ∨ c = 'E' then
      let (neg, d) := splitSign t
      if !d.isEmpty && d.all isDigit then
        some (if neg then -((expVal 0 d : Nat) : Int) else ((expVal 0 d : Nat) : Int))
      else none
    else none

/-- Unsigned decimal number: `(D, x)` with value `D * 10^x`. -/
def parseNumber (r : List Char) : Option (Nat × Int) :=
  let ip := r.takeWhile isDigit
  let r1 := r.dropWhile isDigit
  let fp := match r1 with
    | '.' :: t => t.takeWhile isDigit
    | _ => []
  let r2 := match r1 with
    | '.' :: t => t.dropWhile isDigit
    | _ => r1
  if ip.isEmpty && fp.isEmpty then none
  else match parseExp r2 with
    | none => none
    | some x => some (digitsVal 0 (ip ++ fp), x - (fp.length : Int))

/-- Correctly rounded double of `(-1)^neg * D * 10^x`. -/
def roundDec (neg : Bool) (D : Nat) (x : Int) : Bits :=
  roundRat neg (if x < 0 then D else D * 10 ^ x.toNat) (if x < 0 then 10 ^ (-x).toNat else 1)

/-- Rust `s.parse::<f64>()`; `none` = `Err(ParseFloatError)`. -/
def parseDec (s : List Char) : Option Bits :=
  let (neg, r) := splitSign s
  if isInfText r then some (inf neg)
  else if isNanText r then some canonNaN
  else match parseNumber r with
    | none => none
    | some (D, x) => some (roundDec neg D x)

/-! ## Printing -/

def digitChar (d : Nat) : Char :=
  match d with
  | 0 => '0' | 1 => '1' | 2 => '2' | 3 => '3' | 4 => '4'
  | 5 => '5' | 6 => '6' | 7 => '7' | 8 => '8' | _ => '9'

def natDigitsF : Nat → Nat → List Char
  | 0, _ => []
  | f + 1, n => if n < 10 then [digitChar n] else natDigitsF f (n / 10) ++ [digitChar (n % 10)]

/-- Decimal digits of a natural number, no leading zeros (`0 ↦ "0"`). -/
def natDigits (n : Nat) : List Char := natDigitsF (n.log2 + 1) n

/-- Exactly `k` digits of `n % 10^k` (leading zeros kept). -/
def fixedDigits : Nat → Nat → List Char
  | 0, _ => []
  | k + 1, n => fixedDigits k (n / 10) ++ [digitChar (n % 10)]

def stripTrailingZeros : List Char → List Char
  | [] => []
  | c :: cs =>
    let r := stripTrailingZeros cs
    if r.isEmpty && c == '0' then [] else c :: r

/-- Integer part, fractional digits (already without trailing zeros) ↦ positional text. -/
def assemble (ip fr : List Char) : List Char := if fr.isEmpty then ip else ip ++ '.' :: fr

/-- Integer-part and fraction digits of `D * 10^x` (`D > 0`), positional, fraction without trailing zeros. -/
def renderParts (D : Nat) (x : Int) : List Char × List Char :=
  let ds := natDigits D
  if 0 ≤ x then (ds ++ List.replicate x.toNat '0', [])
  else
    let k := (-x).toNat
    if k < ds.length then (ds.take (ds.length - k), stripTrailingZeros (ds.drop (ds.length - k)))
    else (['0'], stripTrailingZeros (List.replicate (k - ds.length) '0' ++ ds))

/-- Exact positional decimal expansion of `m * 2^e`: integer digits, fraction digits. -/
def exactPartsOf (m : Nat) (e : Int) : List Char × List Char :=
  if 0 ≤ e then (natDigits (m * 2 ^ e.toNat), [])
  else
    let k := (-e).toNat
    (natDigits (m / 2 ^ k), stripTrailingZeros (fixedDigits k ((m % 2 ^ k) * 5 ^ k)))

/-- Exact positional decimal expansion of the magnitude of a finite double. -/
def exactParts (b : Bits) : List Char × List Char := exactPartsOf (decode b).2.1 (decode b).2.2

/-- `⌊log₂ (num/den)⌋` for `num, den > 0`. -/
def ilog2Rat (num den : Nat) : Int :=
  let a := num.log2
  let b := den.log2
  if b ≤ a then
    (if den * 2 ^ (a - b) ≤ num then ((a - b : Nat) : Int) else ((a - b : Nat) : Int) - 1)
  else
    (if den ≤ num * 2 ^ (b - a) then -((b - a : Nat) : Int) else -((b - a : Nat) : Int) - 1)

/-- `v < 10^k` for `v = num/den`. -/
def ltPow10 (num den : Nat) (k : Int) : Bool :=
  if 0 ≤ k then num < den * 10 ^ k.toNat else num * 10 ^ (-k).toNat < den

def fixUp : Nat → Nat → Nat → Int → Int
  | 0, _, _, k => k
  | f + 1, num, den, k => if ltPow10 num den k then k else fixUp f num den (k + 1)

def fixDown : Nat → Nat → Nat → Int → Int
  | 0, _, _, k => k
  | f + 1, num, den, k => if ltPow10 num den (k - 1) then fixDown f num den (k - 1) else k

/-- The `k` with `10^(k-1) ≤ num/den < 10^k` (estimate from the binary logarithm, then corrected). -/
def decExp (num den : Nat) : Int :=
  let k0 := (ilog2Rat num den * 1233) / 4096
  fixDown 4 num den (fixUp 4 num den k0)

/-- Search the shortest digit string: `vn/den` is the value, `(ln/den, hn/den)` the rounding interval
(closed iff `incl`), `k` the decimal exponent.  At `n` digits the two candidates are `q` and `q+1` units of
`10^(k-n)`; the first `n` at which one lies in the interval wins; if both do, the closer one, ties upward
(as Rust's `flt2dec::strategy::dragon::format_shortest`). -/
def shortestLoop : Nat → Nat → Nat → Nat → Nat → Nat → Int → Bool → Option (Nat × Int)
  | 0, _, _, _, _, _, _, _ => none
  | fuel + 1, n, vn, ln, hn, den, k, incl =>
    let s : Int := (n : Int) - k
    let p := 10 ^ s.natAbs
    let sc := fun (a : Nat) => if 0 ≤ s then a * p else a
    let dd := if 0 ≤ s then den else den * p
    let q := sc vn / dd
    let r := sc vn % dd
    if r = 0 then some (q, k - n)
    else
      let loOk := if incl then sc ln ≤ q * dd else sc ln < q * dd
      let hiOk := if incl then (q + 1) * dd ≤ sc hn else (q + 1) * dd < sc hn
      if loOk && hiOk then (if dd ≤ 2 * r then some (q + 1, k - n) else some (q, k - n))
      else if loOk then some (q, k - n)
      else if hiOk then some (q + 1, k - n)
      else shortestLoop fuel (n + 1) vn ln hn den k incl

/-- Shortest round-trip decimal `(D, x)` (meaning `D * 10^x`) of the magnitude of a finite non-zero double. -/
def digitsShortest (b : Bits) : Option (Nat × Int) :=
  let (_, m, e) := decode b
  -- everything in units of 2^(e-2)
  let e2 := e - 2
  let up := if 0 ≤ e2 then 2 ^ e2.toNat else 1
  let den := if 0 ≤ e2 then 1 else 2 ^ (-e2).toNat
  let vn := 4 * m * up
  let hn := (4 * m + 2) * up
  let ln := (if m = 2 ^ 52 ∧ 1 < expField b then 4 * m - 1 else 4 * m - 2) * up
  shortestLoop 17 1 vn ln hn den (decExp vn den) (m % 2 == 0)

/-- Text of the magnitude of a finite non-zero double, always exact (up to ~1075 digits). -/
def exactText (b : Bits) : List Char := assemble (exactParts b).1 (exactParts b).2

def signText (b : Bits) : List Char := if signBit b then ['-'] else []

/-- yarel's `Display` for numbers. The shortest candidate is used only when it demonstrably parses back to `b`
and has the right shape; otherwise (never observed) the exact expansion is printed. -/
def displayChars (b : Bits) : List Char :=
  if isNaN b then ['N', 'a', 'N']
  else if isInf b then signText b ++ ['i', 'n', 'f']
  else if isZero b then signText b ++ ['0']
  else
    match digitsShortest b with
    | none => signText b ++ exactText b
    | some (D, x) =>
      let pr := renderParts D x
      let t := signText b ++ assemble pr.1 pr.2
      if parseDec t = some b ∧ pr.2.isEmpty = isIntegral b then t
      else signText b ++ exactText b

def display (b : Bits) : String := String.ofList (displayChars b)

end Yarel.NumText
