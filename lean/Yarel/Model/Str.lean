/-
String get-item / slicing / iteration and every native of the String class and its metaclass, over
UTF-8 byte lists.

Mirrors (yarel/src):
* object.rs `ObjString::validate_char_boundary`  -> `validateCharBoundary`
* object.rs `ObjStringIter::next`                -> `iterNext`
* vm.rs     `string_get_item`, `get_item_impl`   -> `strGetItem`, `getItem`
* vm.rs     `add_impl` on two strings / `build_string_impl` -> `concat`
* core.rs   `check_num_args`                     -> `checkNumArgs`
* core.rs   `string_iter_next`                   -> `stringIterNext`
* core.rs   `string_iter, string_len, string_is_alpha, string_is_digit, string_is_hexdigit,
             string_count_chars, string_char_byte_index, string_find, string_replace, string_split,
             string_starts_with, string_ends_with, string_to_num, string_to_bytes,
             string_to_code_points`             -> `callNative`
* core.rs   `string_from, string_from_ascii, string_from_utf8, string_from_code_points` -> `callStatic`

Every Rust slice `&s[a..b]`, index `v[i]` and `chars()` is guarded: the model returns `Outcome.fault site`
where Rust would panic (or be UB).  `Yarel/Props/C13.lean` proves no fault is reachable on valid UTF-8.

Two things are parameters (they belong to property C19, number text): `Env.parseNum` = Rust's
`str::parse::<f64>()`, and `Env.displayOther` = `Display` for values other than strings, nil, booleans.
-/
import Yarel.Model.Utf8
import Yarel.Model.Index
namespace Yarel.Str

open Yarel Yarel.Utf8 Yarel.Index

abbrev Bytes := List UInt8

structure Env where
  /-- `s.parse::<f64>().ok()` as a bit pattern. -/
  parseNum : Bytes → Option UInt64
  /-- `format!("{}", v)` for values that are not strings, nil or booleans. -/
  displayOther : Val → Bytes

/-- `&s[a..b]`: panics unless `a ≤ b ≤ len` and both are char boundaries. -/
def checkedSlice (site : Site) (s : Bytes) (a b : Nat) : Outcome Bytes :=
  if a ≤ b ∧ b ≤ s.length ∧ isBoundary s a = true ∧ isBoundary s b = true then .ok (slice s a b)
  else .fault site

/-- `ObjString::validate_char_boundary(pos, desc)`. -/
def validateCharBoundary (s : Bytes) (pos : Nat) (d : Desc) : Outcome Unit :=
  if isBoundary s pos then .ok () else mkErr .IndexError (.notCharBoundary d)

/-- `while end <= string.len() && !is_char_boundary(end) { end += 1 }` (fuel = number of iterations allowed). -/
def charEnd (s : Bytes) : Nat → Nat → Nat
  | 0, e => e
  | n + 1, e => if e ≤ s.length && !isBoundary s e then charEnd s n (e + 1) else e

/-- `Vm::string_get_item`. -/
def strGetItem (s : Bytes) (idx : Val) : Outcome Val :=
  match idx with
  | .num _ =>
    (boundedIndex idx s.length .String).bind fun b =>
    (validateCharBoundary s b .stringIndex).bind fun _ =>
    let e := charEnd s (s.length + 1) (b + 1)
    (checkedSlice .strSlice s b e).bind fun r => .ok (.str r)
  | .range rb re =>
    (boundedRange rb re s.length .String).bind fun (b, e) =>
    (validateCharBoundary s b .sliceStart).bind fun _ =>
    (validateCharBoundary s e .sliceEnd).bind fun _ =>
    (checkedSlice .strSlice s b e).bind fun r => .ok (.str r)
  | _ => mkErr .TypeError .expectedIntOrRange

/-- `Vm::get_item_impl`: `recv[idx]`. -/
def getItem (recv idx : Val) : Outcome Val :=
  match recv with
  | .str s => strGetItem s idx
  | .tuple xs => tupleGetItem xs idx
  | .vec xs => vecGetItem xs idx
  | _ => mkErr .TypeError (.notIndexable recv)

/-- String `+` / interpolation: `format!("{}{}", a, b)`. -/
def concat (a b : Bytes) : Bytes := a ++ b

/-! ### Iteration -/

/-- `check_num_args(num_args, expected)`. -/
def checkNumArgs (numArgs expected : Nat) : Outcome Unit :=
  if numArgs ≠ expected then mkErr .TypeError (.numArgs expected numArgs) else .ok ()

/-- `while self.pos < len && !is_char_boundary(self.pos) { self.pos += 1 }`. -/
def iterAdvance (s : Bytes) : Nat → Nat → Nat
  | 0, p => p
  | n + 1, p => if p < s.length && !isBoundary s p then iterAdvance s n (p + 1) else p

/-- `ObjStringIter::next`: `(Some((old_pos, new_pos)) | None, new pos)`. -/
def iterNext (s : Bytes) (pos : Nat) : Option (Nat × Nat) × Nat :=
  if pos = s.length then (none, pos)
  else
    let p := iterAdvance s s.length (pos + 1)
    (some (pos, p), p)

/-- `core::string_iter_next` (after the arity check): the yielded value and the iterator's new `pos`. -/
def stringIterNext (s : Bytes) (pos : Nat) : Outcome (Val × Nat) :=
  match iterNext s pos with
  | (some (b, e), p) => (checkedSlice .iterSlice s b e).bind fun r => .ok (.str r, p)
  | (none, p) => .ok (.stopIter, p)

/-- The native `StringIter.next` with its arity check (`check_num_args(num_args, 0)`). -/
def callIterNext (s : Bytes) (pos : Nat) (args : List Val) : Outcome (Val × Nat) :=
  (checkNumArgs args.length 0).bind fun _ => stringIterNext s pos

/-- Drive an iterator from `pos` until StopIter, collecting the pieces (`for c in s`). -/
def iterAllAux (s : Bytes) : Nat → Nat → Outcome (List Bytes)
  | 0, _ => .fault .modelFuel
  | n + 1, pos =>
    match stringIterNext s pos with
    | .ok (.str piece, p) =>
      match iterAllAux s n p with
      | .ok ps => .ok (piece :: ps)
      | .err e => .err e
      | .fault st => .fault st
    | .ok (_, _) => .ok []
    | .err e => .err e
    | .fault st => .fault st

def iterAll (s : Bytes) : Outcome (List Bytes) := iterAllAux s (s.length + 1) 0

/-! ### Natives -/

/-- `s.chars()` (undefined behaviour on invalid UTF-8, hence the fault). -/
def chars (s : Bytes) : Outcome (List Nat) :=
  match decode s with
  | some cps => .ok cps
  | none => .fault .charsInvalid

def isAsciiAlphabetic (c : Nat) : Bool := (decide (65 ≤ c) && decide (c ≤ 90)) || (decide (97 ≤ c) && decide (c ≤ 122))
def isAsciiDigit (c : Nat) : Bool := decide (48 ≤ c) && decide (c ≤ 57)
def isAsciiHexdigit (c : Nat) : Bool :=
  isAsciiDigit c || (decide (65 ≤ c) && decide (c ≤ 70)) || (decide (97 ≤ c) && decide (c ≤ 102))

/-- `string.len() > 0 && string.chars().all(p)`. -/
def classify (p : Nat → Bool) (s : Bytes) : Outcome Val :=
  (chars s).bind fun cps => .ok (.bool (decide (s.length > 0) && cps.all p))

def numOfNat (n : Nat) : Val := .num (natToBits n)

/-- `for i in 0..string.len() + 1 { if boundary(i) { if count == idx { return i } count += 1 } }`, then
the trailing `Err(IndexError, "Provided character index out of range.")`. `n` = iterations left. -/
def charByteIndexLoop (s : Bytes) (charIndex : Nat) : Nat → Nat → Nat → Outcome Val
  | 0, _, _ => mkErr .IndexError .charIndexOutOfRange
  | n + 1, i, cnt =>
    if isBoundary s i then
      if cnt = charIndex then .ok (numOfNat i) else charByteIndexLoop s charIndex n (i + 1) (cnt + 1)
    else charByteIndexLoop s charIndex n (i + 1) cnt

/-- `for i in start..len { … }` of `string_find`, then `Ok(None)`. `n` = iterations left. -/
def findLoop (s sub : Bytes) (start : Nat) : Nat → Nat → Outcome Val
  | 0, _ => .ok .nil
  | n + 1, i =>
    if !isBoundary s i || !isBoundary s (i + sub.length) then findLoop s sub start n (i + 1)
    else
      match checkedSlice .findSlice s i (i + sub.length) with
      | .ok sl => if i ≥ start ∧ sl = sub then .ok (numOfNat i) else findLoop s sub start n (i + 1)
      | .err e => .err e
      | .fault st => .fault st

/-- `str::replace(old, new)` for non-empty `old`: leftmost non-overlapping byte matches (what `StrSearcher`
yields). The counter skips the remaining bytes of a match. -/
def replaceGo (old new : Bytes) : Bytes → Nat → Bytes
  | [], _ => []
  | _ :: t, skip + 1 => replaceGo old new t skip
  | b :: t, 0 =>
    if old.isPrefixOf (b :: t) then new ++ replaceGo old new t (old.length - 1)
    else b :: replaceGo old new t 0

def replace (s old new : Bytes) : Bytes := replaceGo old new s 0

/-- `str::split(pat)` for non-empty `pat`: `(first piece, remaining pieces)`. -/
def splitGo (pat : Bytes) : Bytes → Nat → Bytes × List Bytes
  | [], _ => ([], [])
  | _ :: t, skip + 1 => splitGo pat t skip
  | b :: t, 0 =>
    if pat.isPrefixOf (b :: t) then
      let r := splitGo pat t (pat.length - 1)
      ([], r.1 :: r.2)
    else
      let r := splitGo pat t 0
      (b :: r.1, r.2)

def split (s pat : Bytes) : List Bytes :=
  let r := splitGo pat s 0
  r.1 :: r.2

/-- `try_as_obj_string().ok_or_else(TypeError "Expected a string but found '{}'.")`. -/
def expectString (v : Val) : Outcome Bytes :=
  match v with
  | .str s => .ok s
  | _ => mkErr .TypeError (.expectedString v)

inductive StrFn
  | iter | len | isAlpha | isDigit | isHexdigit | countChars | charByteIndex | find | replace | split
  | startsWith | endsWith | toNum | toBytes | toCodePoints
deriving DecidableEq, Repr

/-- A native method of class String called on receiver `s` with `args` (left to right). -/
def callNative (env : Env) (fn : StrFn) (s : Bytes) (args : List Val) : Outcome Val :=
  match fn with
  | .iter => (checkNumArgs args.length 0).bind fun _ => .ok (.strIter s 0)
  | .len => (checkNumArgs args.length 0).bind fun _ => .ok (numOfNat s.length)
  | .isAlpha => (checkNumArgs args.length 0).bind fun _ => classify isAsciiAlphabetic s
  | .isDigit => (checkNumArgs args.length 0).bind fun _ => classify isAsciiDigit s
  | .isHexdigit => (checkNumArgs args.length 0).bind fun _ => classify isAsciiHexdigit s
  | .countChars =>
    (checkNumArgs args.length 0).bind fun _ => (chars s).bind fun cps => .ok (numOfNat cps.length)
  | .charByteIndex =>
    (checkNumArgs args.length 1).bind fun _ =>
    match args with
    | [a] =>
      (chars s).bind fun cps =>
      (boundedIndex a cps.length .String).bind fun ci =>
      charByteIndexLoop s ci (s.length + 1) 0 0
    | _ => .fault .modelFuel
  | .find =>
    (checkNumArgs args.length 2).bind fun _ =>
    match args with
    | [a0, a1] =>
      (expectString a0).bind fun sub =>
      if sub.isEmpty then mkErr .ValueError .cannotFindEmpty
      else
        (validateInteger a1).bind fun i =>
        let st : Int := normIdx i s.length
        if st < 0 ∨ st ≥ (s.length : Int) then mkErr .IndexError (.indexOutOfBounds .String)
        else
          let start := st.toNat
          (validateCharBoundary s start .stringIndex).bind fun _ =>
          findLoop s sub start (s.length - start) start
    | _ => .fault .modelFuel
  | .replace =>
    (checkNumArgs args.length 2).bind fun _ =>
    match args with
    | [a0, a1] =>
      (expectString a0).bind fun old =>
      if old.isEmpty then mkErr .ValueError .cannotReplaceEmpty
      else (expectString a1).bind fun new => .ok (.str (replace s old new))
    | _ => .fault .modelFuel
  | .split =>
    (checkNumArgs args.length 1).bind fun _ =>
    match args with
    | [a] =>
      (expectString a).bind fun delim =>
      if delim.isEmpty then mkErr .ValueError .cannotSplitEmpty
      else .ok (.vec ((split s delim).map .str))
    | _ => .fault .modelFuel
  | .startsWith =>
    (checkNumArgs args.length 1).bind fun _ =>
    match args with
    | [a] => (expectString a).bind fun p => .ok (.bool (p.isPrefixOf s))
    | _ => .fault .modelFuel
  | .endsWith =>
    (checkNumArgs args.length 1).bind fun _ =>
    match args with
    | [a] => (expectString a).bind fun p => .ok (.bool (p.isSuffixOf s))
    | _ => .fault .modelFuel
  | .toNum =>
    (checkNumArgs args.length 0).bind fun _ =>
    match env.parseNum s with
    | some b => .ok (.num b)
    | none => mkErr .ValueError (.unableToParse s)
  | .toBytes =>
    (checkNumArgs args.length 0).bind fun _ => .ok (.vec (s.map fun b => numOfNat b.toNat))
  | .toCodePoints =>
    (checkNumArgs args.length 0).bind fun _ => (chars s).bind fun cps => .ok (.vec (cps.map numOfNat))

/-! ### Static natives (metaclass) -/

def f64_255 : UInt64 := 0x406FE00000000000
def f64_127 : UInt64 := 0x405FC00000000000
def f64_u32max : UInt64 := 0x41EFFFFFFFE00000

/-- Element check shared by `from_ascii` / `from_utf8`:
`num < 0.0 || num > 255.0 || num.trunc() != num` -> ValueError, else `num as u8`. -/
def byteOfVal (v : Val) : Outcome UInt8 :=
  match v with
  | .num b =>
    if F64.lt b F64.posZero || F64.lt f64_255 b || !F64.isIntegral b then
      mkErr .ValueError (.expectedByte b)
    else .ok (UInt8.ofNat (F64.toIsize b).toNat)
  | _ => mkErr .TypeError (.expectedNumber v)

/-- The loop of `string_from_ascii`: bytes above 127 become `[195, b & 0b1011_1111]`. -/
def fromAsciiBytes : List Val → Outcome Bytes
  | [] => .ok []
  | v :: vs =>
    match byteOfVal v with
    | .ok b =>
      match fromAsciiBytes vs with
      | .ok bs => .ok ((if b.toNat > 127 then [195, b &&& 0xBF] else [b]) ++ bs)
      | .err e => .err e
      | .fault st => .fault st
    | .err e => .err e
    | .fault st => .fault st

/-- `elements.iter().map(byte check).collect::<Result<Vec<u8>, _>>()`. -/
def bytesOfVals : List Val → Outcome Bytes
  | [] => .ok []
  | v :: vs =>
    match byteOfVal v with
    | .ok b =>
      match bytesOfVals vs with
      | .ok bs => .ok (b :: bs)
      | .err e => .err e
      | .fault st => .fault st
    | .err e => .err e
    | .fault st => .fault st

/-- The per-element closure of `string_from_code_points`. -/
def charOfVal (v : Val) : Outcome Bytes :=
  match v with
  | .num b =>
    if F64.lt b F64.posZero || F64.lt f64_u32max b || !F64.isIntegral b then
      mkErr .ValueError (.expectedU32 b)
    else
      let cp := (F64.toIsize b).toNat
      match encodeChar cp with
      | some bs => .ok bs
      | none => mkErr .ValueError (.invalidCodePoint cp)
  | _ => mkErr .TypeError (.expectedNumber v)

def stringOfCodePoints : List Val → Outcome Bytes
  | [] => .ok []
  | v :: vs =>
    match charOfVal v with
    | .ok c =>
      match stringOfCodePoints vs with
      | .ok bs => .ok (c ++ bs)
      | .err e => .err e
      | .fault st => .fault st
    | .err e => .err e
    | .fault st => .fault st

def expectVec (v : Val) : Outcome (List Val) :=
  match v with
  | .vec xs => .ok xs
  | _ => mkErr .TypeError (.expectedVec v)

/-- `impl Display for Value` as far as it is determined here. -/
def display (env : Env) (v : Val) : Bytes :=
  match v with
  | .str s => s
  | .nil => [0x6E, 0x69, 0x6C]
  | .bool true => [0x74, 0x72, 0x75, 0x65]
  | .bool false => [0x66, 0x61, 0x6C, 0x73, 0x65]
  | _ => env.displayOther v

inductive StaticFn | from | fromAscii | fromUtf8 | fromCodePoints
deriving DecidableEq, Repr

def callStatic (env : Env) (fn : StaticFn) (args : List Val) : Outcome Val :=
  (checkNumArgs args.length 1).bind fun _ =>
  match args with
  | [a] =>
    match fn with
    | .from => .ok (.str (display env a))
    | .fromAscii =>
      (expectVec a).bind fun xs =>
      (fromAsciiBytes xs).bind fun bytes =>
      if validate bytes then .ok (.str bytes) else mkErr .ValueError .unableToCreate
    | .fromUtf8 =>
      (expectVec a).bind fun xs =>
      (bytesOfVals xs).bind fun bytes =>
      if validate bytes then .ok (.str bytes)
      else
        let index := validUpTo bytes
        match bytes[index]? with
        | some byte => mkErr .ValueError (.invalidUnicode byte.toNat index)
        | none => .fault .fromUtf8Byte
    | .fromCodePoints =>
      (expectVec a).bind fun xs =>
      (stringOfCodePoints xs).bind fun bytes => .ok (.str bytes)
  | _ => .fault .modelFuel

end Yarel.Str
