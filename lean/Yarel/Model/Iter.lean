/-
Iteration: the built-in iterators, the `Iter`/`MapIter`/`FilterIter` classes of core.yl and the compiled
`for` loop.

Mirrors (yarel/src):
* object.rs `ObjVecIter::next`, `ObjTupleIter::next`   -> `elemNext` (= `Index.elemIterNext`), `vecIterNext`, `tupleNext`
* object.rs `ObjRangeIter::{new,next}`                 -> `rangeIterNew`, `rangeNext` (on `Index.rangeIterNew/Next`)
* object.rs `ObjStringIter::next` + core.rs `string_iter_next` -> `strNext` (on `Str.stringIterNext`)
* core.rs   `vec_iter`, `tuple_iter`, `range_iter`, `string_iter`  -> `Heap.iterVec/iterTuple/iterRange/iterStr`
                                                          (each call allocates a NEW iterator object)
* core.rs   `*_iter_next`                              -> `Heap.next` (exhausted -> a fresh instance of `StopIter`)
* core.rs   `vec_push`, `vec_pop`; vm.rs `set_item_impl` on a Vec -> `vecApply`
* core.rs   `object_derives` (applied to StopIter)     -> `Item.derivesStop`
* vm.rs     `jump_if_stop_iter` (class == StopIter, EXACT)  -> `Item.isStop`
* core.yl   `MapIter.next`, `FilterIter.next`, `Iter.collect`, `Iter.reduce` -> `mapNext`, `filterNext`, `collect`, `reduce`
* compiler.rs `for_statement`, `break_statement`, `continue_statement`; vm.rs `iter_next_impl`
                                                       -> `forLoop`, `forIn`

Values.  The payload type `α` is abstract.  What matters about a value is how the two sentinel tests see
it, so a value is an `Item α`:
  `val a`      any value whose class does not derive `StopIter`;
  `stop`       an instance of exactly the class `StopIter` -- what every native `next` answers when
               exhausted, and also what user code gets from `StopIter.new()`;
  `stopSub a`  an instance of a user class that derives `StopIter` (`#[derive(StopIter)] class C {}`).
The compiled `for` loop tests `class == StopIter` (`jump_if_stop_iter`), whereas `MapIter.next` and
`FilterIter.next` test `derives(StopIter)`: the two tests differ exactly on `stopSub`.

Results are `Index.Outcome`: `ok`, `err` (a Yarel exception raised by a user function), `fault site`
(the Rust code would panic there); `fault modelFuel` = a model loop ran out of fuel (the real loop is
still running) or a dangling object id (impossible: iterators root their iterable).
-/
import Yarel.Model.Str
namespace Yarel.Iter

open Yarel.Index (Outcome Site)

abbrev Bytes := List UInt8

/-! ### Values as seen by the iteration protocol -/

inductive Item (α : Type)
  | val (a : α)
  | stop
  | stopSub (a : α)
deriving DecidableEq, Repr, Inhabited

/-- `vm.rs jump_if_stop_iter`: an `ObjInstance` whose class IS `StopIter`. Ends a `for` loop. -/
def Item.isStop {α : Type} : Item α → Bool
  | .stop => true
  | _ => false

/-- `v.derives(StopIter)` (`core.rs object_derives`): the class or one of its superclasses is `StopIter`. -/
def Item.derivesStop {α : Type} : Item α → Bool
  | .val _ => false
  | _ => true

/-! ### Step functions

`PStep`: an iterator whose `next` neither reads nor writes anything but its own state.
`Step`:  the general protocol: `next` may read and write the rest of the world `W` (the vectors, the
         side effects of user functions). -/

abbrev PStep (σ α : Type) := σ → Outcome (σ × Item α)
abbrev Step (σ W α : Type) := σ → W → Outcome (σ × W × Item α)

def lift {σ W α : Type} (nx : PStep σ α) : Step σ W α := fun it w =>
  match nx it with
  | .ok (it1, v) => .ok (it1, w, v)
  | .err e => .err e
  | .fault s => .fault s

/-- The first `n` answers of repeatedly calling `next`. -/
def takeN {σ α : Type} (nx : PStep σ α) : Nat → σ → Outcome (List (Item α))
  | 0, _ => .ok []
  | n + 1, it =>
    match nx it with
    | .ok (it1, v) =>
      match takeN nx n it1 with
      | .ok vs => .ok (v :: vs)
      | .err e => .err e
      | .fault s => .fault s
    | .err e => .err e
    | .fault s => .fault s

/-! ### Vec and tuple iterators -/

/-- `ObjVecIter::next` / `ObjTupleIter::next` on the element list as it is now: `(yielded?, new current)`.
The index `elements[self.current]` is a fault site. (Same function as `Index.elemIterNext`, for any
element type: `elemNext_eq_index`.) -/
def elemNext {β : Type} (elems : List β) (cur : Nat) : Outcome (Option β × Nat) :=
  if cur ≥ elems.length then .ok (none, cur)
  else match elems[cur]? with
    | some v => .ok (some v, cur + 1)
    | none => .fault .iterElem

/-- `next.unwrap_or_else(|| new StopIter instance)`. -/
def orStop {α : Type} : Option (Item α) → Item α
  | some v => v
  | none => .stop

/-- `ObjTupleIter { iterable, current }`; tuples are immutable so the elements are a parameter. -/
def tupleNext {α : Type} (elems : List (Item α)) : PStep Nat α := fun cur =>
  match elemNext elems cur with
  | .ok (r, c) => .ok (c, orStop r)
  | .err e => .err e
  | .fault s => .fault s

/-- The vectors of the program, by object id. They are mutable: the store is part of the world. -/
abbrev Store (α : Type) := List (List (Item α))

/-- `ObjVecIter { iterable, current }`. -/
structure VecIter where
  vec : Nat
  cur : Nat
deriving DecidableEq, Repr, Inhabited

/-- `core.rs vec_iter`. -/
def vecIterNew (vecId : Nat) : VecIter := ⟨vecId, 0⟩

/-- `core.rs vec_iter_next`: borrows the vector AT CALL TIME. -/
def vecIterNext {α : Type} (st : Store α) (it : VecIter) : Outcome (VecIter × Item α) :=
  match st[it.vec]? with
  | none => .fault .modelFuel
  | some elems =>
    match elemNext elems it.cur with
    | .ok (r, c) => .ok (⟨it.vec, c⟩, orStop r)
    | .err e => .err e
    | .fault s => .fault s

/-- The vec iterator as a protocol object whose world is the store. -/
def vecStep {α : Type} : Step VecIter (Store α) α := fun it st =>
  match vecIterNext st it with
  | .ok (it1, v) => .ok (it1, st, v)
  | .err e => .err e
  | .fault s => .fault s

/-- Mutations of one vector. -/
inductive VecOp (α : Type)
  | push (v : Item α)
  | pop
  | set (i : Int) (v : Item α)
deriving Repr

def vecElemsMax : Nat := 2 ^ 63   -- common.rs VEC_ELEMS_MAX = isize::MAX as usize + 1

/-- `vec_push` / `vec_pop` / `v[i] = x`. `none` = the operation raises a Yarel error (capacity reached,
pop from empty, index out of bounds) and leaves the vector as it was. -/
def vecApply {α : Type} (xs : List (Item α)) : VecOp α → Option (List (Item α))
  | .push v => if xs.length ≥ vecElemsMax then none else some (xs ++ [v])
  | .pop => if xs.isEmpty then none else some xs.dropLast
  | .set i v =>
    let idx := Index.normIdx i xs.length
    if idx < 0 ∨ idx ≥ (xs.length : Int) then none else some (xs.set idx.toNat v)

/-- Apply an operation to vector `id` of the store (a failed operation changes nothing). -/
def Store.apply {α : Type} (st : Store α) (id : Nat) (op : VecOp α) : Store α :=
  match st[id]? with
  | none => st
  | some xs =>
    match vecApply xs op with
    | some ys => st.set id ys
    | none => st

/-! ### Range iterator -/

/-- `ObjRangeIter { iterable = begin..end, current, step }`. -/
structure RangeIter where
  begin : Int
  «end» : Int
  current : Int
  step : Int
deriving DecidableEq, Repr, Inhabited

/-- `ObjRangeIter::new`. -/
def rangeIterNew (b e : Int) : RangeIter :=
  let p := Index.rangeIterNew b e
  ⟨b, e, p.1, p.2⟩

/-- `core.rs range_iter_next`; the yielded `isize` `i` becomes `Value::Number(i as f64)`
(`Index.intToBits i`, exact for `|i| ≤ 2^53`). -/
def rangeNext : PStep RangeIter Int := fun it =>
  match Index.rangeIterNext it.end it.current it.step with
  | .ok (some i, c) => .ok ({ it with current := c }, .val i)
  | .ok (none, c) => .ok ({ it with current := c }, .stop)
  | .err e => .err e
  | .fault s => .fault s

/-! ### String iterator -/

/-- `core.rs string_iter_next` on `ObjStringIter { iterable = s, pos }` (reuses `Str.stringIterNext`). -/
def strNext (s : Bytes) : PStep Nat Bytes := fun pos =>
  match Str.stringIterNext s pos with
  | .ok (.str piece, p) => .ok (p, .val piece)
  | .ok (.stopIter, p) => .ok (p, .stop)
  | .ok (_, _) => .fault .modelFuel      -- `stringIterNext` answers nothing else
  | .err e => .err e
  | .fault st => .fault st

/-! ### User iterators: any object with a `next` method -/

def userNext {σ α : Type} (nx : σ → σ × Item α) : PStep σ α := fun s => .ok (nx s)

/-! ### The heap of iterator objects: `iter()` allocates -/

inductive IterObj (α : Type)
  | vec (it : VecIter)
  | tuple (elems : List (Item α)) (cur : Nat)
  | range (it : RangeIter)
  | str (s : Bytes) (pos : Nat)
deriving Repr

/-- How numbers and strings sit inside the abstract payload type. -/
structure Inj (α : Type) where
  num : Int → α
  str : Bytes → α

def Item.mapVal {α β : Type} (f : α → β) : Item α → Item β
  | .val a => .val (f a)
  | .stop => .stop
  | .stopSub a => .stopSub (f a)

structure Heap (α : Type) where
  vecs : Store α
  iters : List (IterObj α)
deriving Repr

def Heap.alloc {α : Type} (h : Heap α) (o : IterObj α) : Nat × Heap α :=
  (h.iters.length, { h with iters := h.iters ++ [o] })

/-- `vec.iter()`, `tuple.iter()`, `range.iter()`, `string.iter()`: a new object each time. -/
def Heap.iterVec {α : Type} (h : Heap α) (vecId : Nat) : Nat × Heap α := h.alloc (.vec (vecIterNew vecId))
def Heap.iterTuple {α : Type} (h : Heap α) (elems : List (Item α)) : Nat × Heap α := h.alloc (.tuple elems 0)
def Heap.iterRange {α : Type} (h : Heap α) (b e : Int) : Nat × Heap α := h.alloc (.range (rangeIterNew b e))
def Heap.iterStr {α : Type} (h : Heap α) (s : Bytes) : Nat × Heap α := h.alloc (.str s 0)
/-- `Iter.iter(self) { return self; }`: every iterator class derives `Iter`, so `it.iter()` is `it`. -/
def Heap.iterIter {α : Type} (h : Heap α) (id : Nat) : Nat × Heap α := (id, h)

/-- One `next` on an iterator object in isolation: the new object and the answer. -/
def IterObj.next {α : Type} (inj : Inj α) (vecs : Store α) : IterObj α → Outcome (IterObj α × Item α)
  | .vec it =>
    match vecIterNext vecs it with
    | .ok (it1, v) => .ok (.vec it1, v)
    | .err e => .err e
    | .fault s => .fault s
  | .tuple elems cur =>
    match tupleNext elems cur with
    | .ok (c, v) => .ok (.tuple elems c, v)
    | .err e => .err e
    | .fault s => .fault s
  | .range it =>
    match rangeNext it with
    | .ok (it1, v) => .ok (.range it1, v.mapVal inj.num)
    | .err e => .err e
    | .fault s => .fault s
  | .str s pos =>
    match strNext s pos with
    | .ok (p, v) => .ok (.str s p, v.mapVal inj.str)
    | .err e => .err e
    | .fault st => .fault st

/-- `it.next()` for the iterator object `id`. -/
def Heap.next {α : Type} (inj : Inj α) (h : Heap α) (id : Nat) : Outcome (Heap α × Item α) :=
  match h.iters[id]? with
  | none => .fault .modelFuel
  | some o =>
    match o.next inj h.vecs with
    | .ok (o1, v) => .ok ({ h with iters := h.iters.set id o1 }, v)
    | .err e => .err e
    | .fault s => .fault s

/-- Built-in iterator objects as protocol objects: the state is the object id, the world is the heap. -/
def heapStep {α : Type} (inj : Inj α) : Step Nat (Heap α) α := fun id h =>
  match h.next inj id with
  | .ok (h1, v) => .ok (id, h1, v)
  | .err e => .err e
  | .fault s => .fault s

/-! ### core.yl: MapIter, FilterIter -/

/-- A user function of one argument: may change the world, answers any value (or throws). -/
abbrev Fn (W α β : Type) := α → W → Outcome (W × β)

def pureFn {W α β : Type} (f : α → β) : Fn W α β := fun a w => .ok (w, f a)

/--
```
fn next(self) {
    var next = self.iterable.next();
    if next.derives(StopIter) { return next; }
    return self.func(next);
}
```
`MapIter` holds its inner iterator by reference, so its state is the inner iterator's state. -/
def mapNext {σ W α : Type} (inner : Step σ W α) (f : Fn W α (Item α)) : Step σ W α := fun it w =>
  match inner it w with
  | .ok (it1, w1, .val a) =>
    match f a w1 with
    | .ok (w2, r) => .ok (it1, w2, r)
    | .err e => .err e
    | .fault s => .fault s
  | .ok (it1, w1, v) => .ok (it1, w1, v)
  | .err e => .err e
  | .fault s => .fault s

/--
```
fn next(self) {
    var next = self.iterable.next();
    while !next.derives(StopIter) && !self.predicate(next) { next = self.iterable.next(); }
    return next;
}
```
The first argument bounds the number of inner `next` calls of ONE `FilterIter.next` call. -/
def filterNext {σ W α : Type} (inner : Step σ W α) (p : Fn W α Bool) : Nat → Step σ W α
  | 0, _, _ => .fault .modelFuel
  | n + 1, it, w =>
    match inner it w with
    | .ok (it1, w1, .val a) =>
      match p a w1 with
      | .ok (w2, true) => .ok (it1, w2, .val a)
      | .ok (w2, false) => filterNext inner p n it1 w2
      | .err e => .err e
      | .fault s => .fault s
    | .ok (it1, w1, v) => .ok (it1, w1, v)
    | .err e => .err e
    | .fault s => .fault s

/-! ### The compiled `for` loop

```
var v;                       // ONE loop variable for the whole loop
var it = <expr>.iter();      // hidden local
L: IterNext                  // push it.next()
   SetLocal v                // v = that
   JumpIfStopIter exit       // class == StopIter
   Pop
   <body>                    // `continue` = Loop L ; `break` = Jump after
   Loop L
exit: Pop
after:                       // end_scope pops `it` and `v`
```
-/

inductive Signal
  | next     -- the body ran to its end
  | brk      -- `break`
  | cont     -- `continue`
deriving DecidableEq, Repr, Inhabited

/-- A loop body: sees the loop variable, may change the world, says how it ended. -/
abbrev Body (W α : Type) := Item α → W → Outcome (W × Signal)

structure LoopEnd (σ W α : Type) where
  /-- the iterator object as the loop left it (the hidden local itself is popped) -/
  iter : σ
  world : W
  /-- last value stored in the loop variable: the sentinel, or the element the body broke on -/
  loopVar : Item α
  broke : Bool

/-- The loop from label `L`, with the iterator in state `it`; fuel bounds the number of rounds. -/
def forLoop {σ W α : Type} (next : Step σ W α) (body : Body W α) : Nat → σ → W → Outcome (LoopEnd σ W α)
  | 0, _, _ => .fault .modelFuel
  | n + 1, it, w =>
    match next it w with
    | .ok (it1, w1, v) =>
      if v.isStop then .ok ⟨it1, w1, v, false⟩
      else
        match body v w1 with
        | .ok (w2, .brk) => .ok ⟨it1, w2, v, true⟩
        | .ok (w2, _) => forLoop next body n it1 w2
        | .err e => .err e
        | .fault s => .fault s
    | .err e => .err e
    | .fault s => .fault s

/-- `for v in e { body }` where `e.iter()` answers an iterator in state `fresh`: what is left is the
world (the iterator local and the loop variable are popped). -/
def forIn {σ W α : Type} (fresh : σ) (next : Step σ W α) (body : Body W α) (fuel : Nat) (w : W) : Outcome W :=
  match forLoop next body fuel fresh w with
  | .ok r => .ok r.world
  | .err e => .err e
  | .fault s => .fault s

/-! ### core.yl: Iter.collect, Iter.reduce (both are `for v in self`, and `self.iter()` is `self`) -/

/-- Run `next` in a world extended by one local variable of the calling function. -/
def withLocal {σ W α β : Type} (next : Step σ W α) : Step σ (W × β) α := fun it wl =>
  match next it wl.1 with
  | .ok (it1, w1, v) => .ok (it1, (w1, wl.2), v)
  | .err e => .err e
  | .fault s => .fault s

/-- `ret.push(v);` -/
def collectBody {W α : Type} : Body (W × List (Item α)) α := fun v wl => .ok ((wl.1, wl.2 ++ [v]), .next)

/-- `var ret = []; for v in self { ret.push(v); } return ret;` -/
def collect {σ W α : Type} (next : Step σ W α) (fuel : Nat) (it : σ) (w : W) :
    Outcome (σ × W × List (Item α)) :=
  match forLoop (withLocal next) collectBody fuel it (w, []) with
  | .ok r => .ok (r.iter, r.world.1, r.world.2)
  | .err e => .err e
  | .fault s => .fault s

/-- `ret = func(ret, v);` -/
def reduceBody {W α β : Type} (g : β → Fn W (Item α) β) : Body (W × β) α := fun v wl =>
  match g wl.2 v wl.1 with
  | .ok (w1, r) => .ok ((w1, r), .next)
  | .err e => .err e
  | .fault s => .fault s

/-- `var ret = init; for v in self { ret = func(ret, v); } return ret;` -/
def reduce {σ W α β : Type} (next : Step σ W α) (g : β → Fn W (Item α) β) (init : β) (fuel : Nat)
    (it : σ) (w : W) : Outcome (σ × W × β) :=
  match forLoop (withLocal next) (reduceBody g) fuel it (w, init) with
  | .ok r => .ok (r.iter, r.world.1, r.world.2)
  | .err e => .err e
  | .fault s => .fault s

/-! ### One vector, one iterator, interleaved mutation (what the driver's `vecops` runs) -/

inductive Act (α : Type)
  | op (o : VecOp α)
  | next
deriving Repr

/-- Run the actions on vector `it.vec` of the store; answers of the `next` actions, in order. -/
def runActs {α : Type} : Store α → VecIter → List (Act α) → Outcome (List (Item α))
  | _, _, [] => .ok []
  | st, it, .op o :: rest => runActs (st.apply it.vec o) it rest
  | st, it, .next :: rest =>
    match vecIterNext st it with
    | .ok (it1, v) =>
      match runActs st it1 rest with
      | .ok vs => .ok (v :: vs)
      | .err e => .err e
      | .fault s => .fault s
    | .err e => .err e
    | .fault s => .fault s

/-! ### Specification vocabulary -/

def omap {β γ : Type} (f : β → γ) : Outcome β → Outcome γ
  | .ok b => .ok (f b)
  | .err e => .err e
  | .fault s => .fault s

/-- From state `it`, `next` answers `x₁, …, xₙ` in turn and arrives in state `it'`. -/
def PYields {σ α : Type} (nx : PStep σ α) : σ → List (Item α) → σ → Prop
  | it, [], it' => it' = it
  | it, x :: xs, it' => ∃ it1, nx it = .ok (it1, x) ∧ PYields nx it1 xs it'

/-- The iterator in state `it` denotes the sequence `xs`: it answers `xs` in order, once each, then
`stop`, and from then on `stop` again and again (its state no longer moves). -/
def Denotes {σ α : Type} (nx : PStep σ α) (it : σ) (xs : List (Item α)) : Prop :=
  ∃ it', PYields nx it xs it' ∧ nx it' = .ok (it', .stop)

/-- The same for a protocol object in a world: whatever the world is, `next` answers `x₁, …, xₙ` in turn,
leaves the world alone and arrives in state `it'`. -/
def Yields {σ W α : Type} (next : Step σ W α) : σ → List (Item α) → σ → Prop
  | it, [], it' => it' = it
  | it, x :: xs, it' => ∃ it1, (∀ w, next it w = .ok (it1, w, x)) ∧ Yields next it1 xs it'

/-- `xs`, then (at least once) the sentinel. -/
def YieldsThenStop {σ W α : Type} (next : Step σ W α) (it : σ) (xs : List (Item α)) : Prop :=
  ∃ it' it'', Yields next it xs it' ∧ ∀ w, next it' w = .ok (it'', w, .stop)

/-- What a `for` loop over the model sequence `xs` does: the body runs on the elements in order, once
each; the loop ends at the end of `xs`, at the first element that IS a `StopIter` instance, or after the
first body run that signals `break`. Answers the world, the last loop-variable value, and whether the
loop was left by `break`. -/
def loopSpec {W α : Type} (body : Body W α) : List (Item α) → W → Outcome (W × Item α × Bool)
  | [], w => .ok (w, .stop, false)
  | x :: xs, w =>
    if x.isStop then .ok (w, x, false)
    else
      match body x w with
      | .ok (w2, .brk) => .ok (w2, x, true)
      | .ok (w2, _) => loopSpec body xs w2
      | .err e => .err e
      | .fault s => .fault s

def LoopEnd.obs {σ W α : Type} (r : LoopEnd σ W α) : W × Item α × Bool := (r.world, r.loopVar, r.broke)

/-- What `MapIter` does to one value. -/
def mapItem {α : Type} (f : α → Item α) : Item α → Item α
  | .val a => f a
  | v => v

/-- What `FilterIter` lets through. -/
def keepItem {α : Type} (p : α → Bool) : Item α → Bool
  | .val a => p a
  | _ => true

/-- The index-based reading of interleaved mutations and `next` calls on one vector `xs`:
`k` = number of earlier `next` calls that were answered from inside the vector. -/
def actsSpec {α : Type} : List (Item α) → Nat → List (Act α) → List (Item α)
  | _, _, [] => []
  | xs, k, .op o :: rest =>
    match vecApply xs o with
    | some ys => actsSpec ys k rest
    | none => actsSpec xs k rest
  | xs, k, .next :: rest =>
    match xs[k]? with
    | some v => v :: actsSpec xs (k + 1) rest
    | none => .stop :: actsSpec xs k rest

/-- Elements up to (excluding) the first one that is a `StopIter` instance. -/
def cut {α : Type} (xs : List (Item α)) : List (Item α) := xs.takeWhile fun x => !x.isStop

/-- Turn `continue` into "fall off the end of the body". -/
def contAsNext {W α : Type} (body : Body W α) : Body W α := fun v w =>
  match body v w with
  | .ok (w2, .cont) => .ok (w2, .next)
  | r => r

/-- `pairs.push((x, y))` -/
def pairBody {α : Type} (x : Item α) : Body (List (Item α × Item α)) α := fun y w => .ok (w ++ [(x, y)], .next)

/-- `for y in B { pairs.push((x, y)); }` as the body of an outer loop with loop variable `x`:
`B.iter()` is called afresh in every outer round. -/
def nestedBody {τ α : Type} (freshB : τ) (nextB : Step τ (List (Item α × Item α)) α) (fuel : Nat) :
    Body (List (Item α × Item α)) α := fun x w =>
  match forIn freshB nextB (pairBody x) fuel w with
  | .ok w' => .ok (w', .next)
  | .err e => .err e
  | .fault s => .fault s

/-- The numbers a range denotes. -/
def rangeList (b e : Int) : List Int :=
  if b < e then (List.range (e - b).toNat).map (fun (k : Nat) => b + (k : Int))
  else (List.range (b - e).toNat).map (fun (k : Nat) => b - (k : Int))

/-- `n` calls of `next` on iterator object `id`: the heap afterwards and the answers. -/
def Heap.nextN {α : Type} (inj : Inj α) : Heap α → Nat → Nat → Outcome (Heap α × List (Item α))
  | h, _, 0 => .ok (h, [])
  | h, id, n + 1 =>
    match h.next inj id with
    | .ok (h1, v) =>
      match Heap.nextN inj h1 id n with
      | .ok (h2, vs) => .ok (h2, v :: vs)
      | .err e => .err e
      | .fault s => .fault s
    | .err e => .err e
    | .fault s => .fault s

end Yarel.Iter
