/-
What one interpreter carries from one run to the next (yarel/src/vm.rs: `Vm`, `execute`, `runtime_error`,
`reset_stack`, `reset`), as a state machine over the fields that are NOT persistent definitions.

persistent (by design):  module registry with each module's globals, chunks, interned strings, core classes
transient:               handling_exception, the active fiber (stack, frames, handlers, pending return / error ip),
                         the raw fiber designator, a class definition in progress, the range cache (identity of ranges)

`execute` (as repaired by the fix commits for F18) begins with:  ip := null; fiber := None; handling_exception := false;
then creates a new fiber for the snippet and loads it.  A run ends either normally (fiber finished) or with an uncaught
error (`runtime_error` clears the stack and frames of the fiber that failed and returns).
-/
namespace Yarel.Reuse

/-- Transient per-fiber state as left behind by a finished or aborted run. -/
structure FiberLeft where
  stack : Nat
  frames : Nat
  handlers : Nat
  pendingReturn : Bool
  errorIp : Bool
deriving DecidableEq, Repr

structure Vm (P : Type) where
  persistent : P                  -- module registry, globals, chunks, classes: what definitions a snippet completed
  handling : Bool                 -- `handling_exception`
  fiber : Option FiberLeft        -- `fiber` (checked designator): the last run's root fiber, or none
  unsafeFiber : Option FiberLeft  -- `unsafe_fiber` (raw designator)
  classDef : Bool                 -- `working_class_def.is_some()`
  rangeCache : List (Int × Int)   -- bounds of the cached range objects, oldest first
deriving Repr

def freshFiber : FiberLeft := { stack := 1, frames := 1, handlers := 0, pendingReturn := false, errorIp := false }

/-- `Vm::execute` up to the first instruction: everything a running snippet can read of the transient state. -/
def executePrologue {P} (vm : Vm P) : Vm P :=
  { vm with handling := false, fiber := some freshFiber, unsafeFiber := some freshFiber }

/-- The same prologue WITHOUT the F18 repair (handling_exception not cleared) – kept to show the repair is needed. -/
def executePrologueUnrepaired {P} (vm : Vm P) : Vm P :=
  { vm with fiber := some freshFiber, unsafeFiber := some freshFiber }

/-- What a snippet's instructions can observe of the transient state when it starts.  A class definition in progress is
not observable: `DeclareClass` overwrites it before `Inherit`/`Method`/`DefineClass` read it (C04: verified code only
reaches those inside a class body). -/
def observable {P} (vm : Vm P) : P × Bool × Option FiberLeft × Option FiberLeft × List (Int × Int) :=
  (vm.persistent, vm.handling, vm.fiber, vm.unsafeFiber, vm.rangeCache)

/-- Outcomes of a run, abstractly: it may leave any transient state behind (the worst case over all programs). -/
def afterRun {P} (vm : Vm P) (persistent' : P) (handling : Bool) (left : FiberLeft) (classDef : Bool)
    (cache : List (Int × Int)) : Vm P :=
  { persistent := persistent', handling := handling, fiber := some left, unsafeFiber := some left,
    classDef := classDef, rangeCache := cache }

/-- `Vm::reset` (with the F29 repair: the range cache is emptied): persistent state back to `init`. -/
def reset {P} (init : P) (vm : Vm P) : Vm P :=
  { vm with persistent := init, rangeCache := [], fiber := vm.fiber.map fun f => { f with stack := 0, frames := 0 } }

def resetUnrepaired {P} (init : P) (vm : Vm P) : Vm P :=
  { vm with persistent := init, fiber := vm.fiber.map fun f => { f with stack := 0, frames := 0 } }

def newVm {P} (init : P) : Vm P :=
  { persistent := init, handling := false, fiber := none, unsafeFiber := none, classDef := false, rangeCache := [] }

end Yarel.Reuse
