/-
Allocation pacing of the yarel mark/sweep heap (yarel/src/memory.rs, `Heap::{allocate_raw, collect,
collect_if_required}`, `Default for Heap`; constants in yarel/src/common.rs).

Only the two accounting fields of `Heap` are modelled:

    bytes_allocated        ~ `State.bytes`
    collection_threshold   ~ `State.thr`

What the collector keeps is abstract: an allocation event carries `live`, the number of bytes that survive
IF a collection happens at this allocation (`bytes_allocated - bytes_freed` in `Heap::collect`).

    fn allocate_raw(..) {
        if cfg!(any(debug_assertions, feature = "debug_stress_gc")) { self.collect(); }   -- `allocAlways`
        else { self.collect_if_required(); }                                              -- `allocPaced`
        ...; self.bytes_allocated += size_of::<T>();
    }
    fn collect_if_required(&mut self) { if self.bytes_allocated >= self.collection_threshold { self.collect(); } }
    fn collect(&mut self) { ...; self.bytes_allocated -= bytes_freed;
                            self.collection_threshold = self.bytes_allocated * common::HEAP_GROWTH_FACTOR; }

`usize` arithmetic is modelled on `Nat` (no wrap-around of `+=` / `*`; on a 64-bit target that would need
2^63 bytes of managed data).
-/
namespace Yarel.Pacing

/-- `common::HEAP_INIT_BYTES_MAX` -/
def HEAP_INIT_BYTES_MAX : Nat := 65536
/-- `common::HEAP_GROWTH_FACTOR` -/
def HEAP_GROWTH_FACTOR : Nat := 2

/-- The two accounting fields of `Heap`. -/
structure State where
  /-- `bytes_allocated` -/
  bytes : Nat
  /-- `collection_threshold` -/
  thr : Nat
deriving Repr, DecidableEq

/-- `Default for Heap` -/
def init (initBudget : Nat := 65536) : State := { bytes := 0, thr := initBudget }

/-- One call of `allocate_raw::<T>`: `size = size_of::<T>()`; `live` = bytes surviving a collection run at this
allocation, should one happen (the collector's choice; sensible values are `≤ bytes`). -/
structure Event where
  size : Nat
  live : Nat
deriving Repr, DecidableEq

/-- The accounting part of `Heap::collect`: `bytes_allocated -= bytes_freed` leaves `live`;
`collection_threshold = bytes_allocated * HEAP_GROWTH_FACTOR`. -/
def collect (live : Nat) (growth : Nat := 2) : State :=
  { bytes := live, thr := live * growth }

/-- `allocate_raw` in the paced (release, no `debug_stress_gc`) configuration.
Returns the new state and whether a collection ran. -/
def allocPaced (st : State) (size live : Nat) (growth : Nat := 2) : State × Bool :=
  if st.bytes ≥ st.thr then
    let st' := collect live growth
    ({ st' with bytes := st'.bytes + size }, true)
  else
    ({ st with bytes := st.bytes + size }, false)

/-- `allocate_raw` in checked builds (`debug_assertions` / `debug_stress_gc`): collect at every allocation. -/
def allocAlways (_st : State) (size live : Nat) (growth : Nat := 2) : State × Bool :=
  let st' := collect live growth
  ({ st' with bytes := st'.bytes + size }, true)

inductive Mode where
  | paced
  | always
deriving Repr, DecidableEq

def alloc (mode : Mode) (st : State) (size live : Nat) (growth : Nat := 2) : State × Bool :=
  match mode with
  | .paced => allocPaced st size live growth
  | .always => allocAlways st size live growth

/-- Final state after a list of allocations. -/
def run (mode : Mode) (st : State) (evs : List Event) (growth : Nat := 2) : State :=
  match evs with
  | [] => st
  | e :: rest => run mode (alloc mode st e.size e.live growth).1 rest growth

/-- Everything observable about one allocation (this is also what the real heap's hook records). -/
structure Step where
  size : Nat
  live : Nat
  before : State
  collected : Bool
  after : State
deriving Repr, DecidableEq

/-- The record of every allocation of a run, in order. -/
def trace (mode : Mode) (st : State) (evs : List Event) (growth : Nat := 2) : List Step :=
  match evs with
  | [] => []
  | e :: rest =>
    let r := alloc mode st e.size e.live growth
    { size := e.size, live := e.live, before := st, collected := r.2, after := r.1 }
      :: trace mode r.1 rest growth

/-- The threshold in force after the recorded allocations `steps`: the initial budget until the first
collection, afterwards `growth ×` the survivors of the most recent collection. -/
def thresholdInForce (steps : List Step) (growth : Nat := 2) (initBudget : Nat := 65536) : Nat :=
  steps.foldl (fun T s => if s.collected then s.live * growth else T) initBudget

/-- The independent monitor used by the driver, on recorded numbers only (see `Props/C16.lean`,
`monitor_of_model`): without a collection the heap stays below the threshold that was in force plus the one
allocation that may have crossed it and the threshold is untouched; after a collection it is at most the new
threshold plus this allocation. -/
def monitor (size thrBefore : Nat) (collected : Bool) (bytesAfter thrAfter : Nat) : Bool :=
  if collected then decide (bytesAfter ≤ thrAfter + size)
  else decide (bytesAfter < thrBefore + size) && decide (thrAfter = thrBefore)

/-- Verdict of the trace checker on one recorded allocation. -/
inductive Verdict where
  | ok
  | overshoot
  /-- the model's own prediction of `collected`, `bytes_after`, `thr_after` -/
  | mismatch (collected : Bool) (bytes thr : Nat)
deriving Repr, DecidableEq

/-- Check one recorded allocation `size bytes_before thr_before collected bytes_after thr_after` against the
model in state `st` (policy `mode`).  `live` is taken from the record: `bytes_after - size`. -/
def judge (mode : Mode) (st : State) (size bb tb : Nat) (c : Bool) (ba ta : Nat) (growth : Nat := 2) : Verdict :=
  let r := alloc mode st size (ba - size) growth
  if r.2 = c ∧ r.1.bytes = ba ∧ r.1.thr = ta ∧ st.bytes = bb ∧ st.thr = tb then
    if monitor size tb c ba ta then .ok else .overshoot
  else
    .mismatch r.2 r.1.bytes r.1.thr

end Yarel.Pacing
